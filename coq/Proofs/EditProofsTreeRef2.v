(* EditProofsTreeRef2.v -- C11: the page tree with exact Counts on the domain [page_doc_ref] (Counts behind references, pages
   behind reference objects; Spec/PageTreeEditRef.v) is an INVARIANT of editing programs.  The route of EditProofsTree3.v:
   [page_doc_ref] reads (a) the entries Type / Kids / Count / Parent / Pages of dictionary objects ([stable], EditProofsTree3.v)
   and (b) the REFERENCE OBJECTS and INTEGER OBJECTS its paths pass: a page id's path to its dictionary ([leads]), a Count's
   path to its integer ([count_reads]).  An operation that leaves (a) and every reference / integer object alone ([frame]; on
   the support of the tree: [frame_on]) keeps [page_doc_ref] with the same tree; delete_pages prunes it
   ([delete_pages_tree_ref]); delete_object off the support: [delete_outside_ref]. *)
From LV Require Import Base.Bytes Model.Obj Model.DocQ Model.PageTree Model.Traverse Model.Edit Model.StreamFilt Model.Writer Gen.Consts
  Spec.Dfs Spec.DfsCounts Spec.RenumberSpec Spec.PageTreeEdit Spec.PageTreeEditInd Spec.PageTreeEditRef
  Proofs.RenumberProofsMap Proofs.PageTreeProofs Proofs.EditProofs Proofs.EditProofsTrav Proofs.EditProofsDelete
  Proofs.EditProofsCount Proofs.FilterProofsDict Proofs.EditProofsRes Proofs.EditProofsTree Proofs.EditProofsTree2
  Proofs.EditProofsFrame Proofs.EditProofsTree3 Proofs.EditProofsTreeInd Proofs.EditProofsTreeRef.

(* the objects a path passes or ends at, other than dictionaries *)
Definition chain_obj (o : obj) : Prop := match o with ORef _ _ | OInt _ => True | _ => False end.

Definition chain_same (m m' : objmap) : Prop :=
  forall x o, lookup m x = Some o -> chain_obj o -> lookup m' x = Some o.

Definition frame (d d' : doc) : Prop :=
  unique_keys (d_trailer d') /\ dict_get (d_trailer d') K_Root = dict_get (d_trailer d) K_Root /\
  (forall x, stable (d_objects d) (d_objects d') x) /\ chain_same (d_objects d) (d_objects d').

(* ---------- the support of a tree: the ids [page_doc_ref] reads ---------- *)
(* the ids a chain of references passes (the last one is the object the chain ends at) *)
Fixpoint deref_ids (m : objmap) (fuel : nat) (o : obj) {struct fuel} : list oid :=
  match o with
  | ORef i g => (i, g) :: match lookup m (i, g) with
                          | None => []
                          | Some o' => match fuel with O => [] | S f => deref_ids m f o' end
                          end
  | _ => []
  end.

(* [sup m I L x]: x is one of the ids I, or on the path of one of the page ids L to its dictionary (the reference objects
   passed and the object holding the page dictionary), or on the path from the Count entry of a Pages dictionary among I to
   its integer (the reference objects passed and the integer object) *)
Definition sup (m : objmap) (I L : list oid) (x : oid) : Prop :=
  In x I \/
  (exists id o via d, In id L /\ lookup m id = Some o /\ leads m o via d /\ (N.of_nat (length via) <= DEREF_LIMIT)%N /\ In x via) \/
  (exists nd dd c, In nd I /\ lookup m nd = Some (ODict dd) /\ dict_get dd K_Type = Some (OName K_Pages) /\
     dict_get dd K_Count = Some c /\ In x (deref_ids m (N.to_nat DEREF_LIMIT) c)).

Lemma sup_mono m I L I' L' x : incl I I' -> incl L L' -> sup m I L x -> sup m I' L' x.
Proof.
  intros HI HL [H|[H|H]]; [|destruct H as [id [o [via [d [H1 H2]]]]] | destruct H as [nd [dd [c [H1 H2]]]]].
  - left. apply HI. exact H.
  - right. left. exists id, o, via, d. split; [apply HL; exact H1 | exact H2].
  - right. right. exists nd, dd, c. split; [apply HI; exact H1 | exact H2].
Qed.

Definition tree_support (d : doc) (t : ptree) (x : oid) : Prop :=
  dict_get (d_trailer d) K_Root = Some (ORef (fst x) (snd x)) \/ sup (d_objects d) (ids t) (leaves t) x.

Definition frame_on (P : oid -> Prop) (d d' : doc) : Prop :=
  unique_keys (d_trailer d') /\ dict_get (d_trailer d') K_Root = dict_get (d_trailer d) K_Root /\
  (forall x, P x -> stable (d_objects d) (d_objects d') x) /\
  (forall x o, P x -> lookup (d_objects d) x = Some o -> chain_obj o -> lookup (d_objects d') x = Some o).

(* ---------- the paths survive ---------- *)
Section FrameOn.
Variables (P : oid -> Prop) (m m' : objmap).
Hypothesis S : forall x, P x -> stable m m' x.
Hypothesis C : forall x o, P x -> lookup m x = Some o -> chain_obj o -> lookup m' x = Some o.

Lemma leads_frame :
  forall o via d, leads m o via d -> forall id, lookup m id = Some o -> P id -> (forall y, In y via -> P y) -> unique_keys d ->
  exists o' d', lookup m' id = Some o' /\ leads m' o' via d' /\ keeps d d'.
Proof.
  induction 1 as [d|i g o via d L H IH]; intros id Lid Pid Pv W.
  - destruct (S id Pid d Lid W) as [d' [L' K]]. exists (ODict d'), d'. split; [exact L'|]. split; [constructor | exact K].
  - destruct (IH (i, g) L (Pv _ (or_introl eq_refl)) (fun y Hy => Pv y (or_intror Hy)) W) as [o' [d' [L' [H' K]]]].
    exists (ORef i g), d'. split; [apply C; [exact Pid | exact Lid | exact I]|]. split; [|exact K]. eapply LRef; eassumption.
Qed.

Lemma deref_int_frame : forall f l c r n,
  (forall y, In y (deref_ids m f c) -> P y) ->
  deref_aux m f l c = Some (r, OInt n) -> deref_aux m' f l c = Some (r, OInt n).
Proof.
  induction f as [|f IH]; intros l c r n Pc H.
  - destruct c as [| | | | | | | | |i g]; cbn [deref_aux] in *; try exact H. destruct (lookup m (i, g)); discriminate.
  - destruct c as [| | | | | | | | |i g]; cbn [deref_aux deref_ids] in *; try exact H.
    destruct (lookup m (i, g)) as [o|] eqn:L; [|discriminate].
    assert (Co : chain_obj o).
    { destruct o; try exact I; destruct f; cbn [deref_aux] in H; inversion H. }
    rewrite (C _ _ (Pc _ (or_introl eq_refl)) L Co). apply IH; [|exact H]. intros y Hy. apply Pc. right. exact Hy.
Qed.

Lemma count_reads_frame d d' n :
  keeps d d' -> (forall c y, dict_get d K_Count = Some c -> In y (deref_ids m (N.to_nat DEREF_LIMIT) c) -> P y) ->
  count_reads m d n -> count_reads m' d' n.
Proof.
  intros [_ K] Pc [c [r [G D]]]. exists c, r. split; [rewrite (K K_Count) by (cbn; tauto); exact G|].
  unfold dereference in *. eapply deref_int_frame; [|exact D]. intros y Hy. eapply Pc; eassumption.
Qed.

Lemma page_tree_ref_frame :
  (forall t par, (forall x, sup m (ids t) (leaves t) x -> P x) -> page_tree_ref m par t ->
     page_tree_ref m' par t /\ map (end_of m') (leaves t) = map (end_of m) (leaves t)) /\
  (forall f par, (forall x, sup m (flat_map ids f) (flat_map leaves f) x -> P x) -> Forall (page_tree_ref m par) f ->
     Forall (page_tree_ref m' par) f /\ map (end_of m') (flat_map leaves f) = map (end_of m) (flat_map leaves f)).
Proof.
  apply ptree_forest_ind.
  - intros i par HP PT. inversion PT as [? ? o via d L H Hl W Ty Pa|]; subst.
    assert (Pi : P i) by (apply HP; left; left; reflexivity).
    assert (Pv : forall y, In y via -> P y).
    { intros y Hy. apply HP. right. left. exists i, o, via, d. split; [left; reflexivity|]. repeat split; assumption. }
    destruct (leads_frame o via d H i L Pi Pv W) as [o' [d' [L' [H' [W' K]]]]]. split.
    + eapply PRLeaf; [exact L' | exact H' | exact Hl | exact W' | |].
      * rewrite (K K_Type) by (cbn; tauto). exact Ty.
      * rewrite (K K_Parent) by (cbn; tauto). reflexivity.
    + cbn [leaves map]. rewrite (end_of_leads m i o via d L H Hl), (end_of_leads m' i o' via d' L' H' Hl). reflexivity.
  - intros i ks Q par HP PT. inversion PT as [|? ? d ? L W Ty Kd Ct Pa F]; subst.
    assert (Pi : P i) by (apply HP; left; left; reflexivity).
    destruct (S i Pi d L W) as [d' [L' [W' K]]].
    destruct (Q (Some i)) as [F' E']; [|exact F|].
    { intros x Hx. apply HP. revert Hx. apply sup_mono; [intros y Hy; right; exact Hy | intros y Hy; exact Hy]. }
    split; [|exact E'].
    eapply PRNode; [exact L' | exact W' | | | | | exact F'].
    + rewrite (K K_Type) by (cbn; tauto). exact Ty.
    + rewrite (K K_Kids) by (cbn; tauto). exact Kd.
    + eapply count_reads_frame; [split; [exact W' | exact K] | | exact Ct].
      intros c y Gc Hy. apply HP. right. right. exists i, d, c. split; [left; reflexivity|]. repeat split; assumption.
    + rewrite (K K_Parent) by (cbn; tauto). reflexivity.
  - intros par _ _. split; [constructor | reflexivity].
  - intros k ks PP Q par HP F. inversion F as [|? ? Fk Fks]; subst.
    destruct (PP par) as [Fk' Ek]; [|exact Fk|].
    { intros x Hx. apply HP. revert Hx. cbn [flat_map]. apply sup_mono; intros y Hy; apply in_app_iff; left; exact Hy. }
    destruct (Q par) as [Fks' Eks]; [|exact Fks|].
    { intros x Hx. apply HP. revert Hx. cbn [flat_map]. apply sup_mono; intros y Hy; apply in_app_iff; right; exact Hy. }
    split; [constructor; assumption|].
    cbn [flat_map]. rewrite !map_app, Ek, Eks. reflexivity.
Qed.
End FrameOn.

Lemma page_doc_ref_frame_on d d' t : page_doc_ref d t -> frame_on (tree_support d t) d d' -> page_doc_ref d' t.
Proof.
  intros [ci [cg [cat [Wt [Rt [Lc [Wc [Pg [Nd [PT [ND [Hc NE]]]]]]]]]]]] [Wt' [Rt' [S C]]].
  destruct (S (ci, cg) (or_introl Rt) cat Lc Wc) as [cat' [Lc' [Wc' Kc]]].
  destruct (proj1 (page_tree_ref_frame _ _ _ S C) t None (fun x Hx => or_intror Hx) PT) as [PT' E].
  exists ci, cg, cat'. split; [exact Wt'|]. split; [rewrite Rt'; exact Rt|]. split; [exact Lc'|]. split; [exact Wc'|].
  split; [rewrite (Kc K_Pages) by (cbn; tauto); exact Pg|]. split; [exact Nd|]. split; [exact PT'|].
  split; [exact ND|]. split; [exact Hc|]. rewrite E. exact NE.
Qed.

Lemma page_doc_ref_frame d d' t : page_doc_ref d t -> frame d d' -> page_doc_ref d' t.
Proof.
  intros PD [Wt' [Rt' [S C]]]. apply (page_doc_ref_frame_on d d' t PD).
  split; [exact Wt'|]. split; [exact Rt'|]. split; [intros x _; apply S | intros x o _; apply C].
Qed.

(* ---------- frames of the operations ---------- *)
Lemma frame_of_all_stable d d' t :
  page_doc_ref d t -> all_stable d d' -> chain_same (d_objects d) (d_objects d') -> frame d d'.
Proof.
  intros [ci [cg [cat [Wt [Rt _]]]]] [T S] C. split; [rewrite T; exact Wt|]. split; [rewrite T; reflexivity|]. split; assumption.
Qed.

Lemma chain_same_refl m : chain_same m m.
Proof. intros x o L _. exact L. Qed.

Lemma chain_same_eq m m' : (forall x, lookup m' x = lookup m x) -> chain_same m m'.
Proof. intros E x o L _. rewrite E. exact L. Qed.

Lemma chain_same_trans m1 m2 m3 : chain_same m1 m2 -> chain_same m2 m3 -> chain_same m1 m3.
Proof. intros C1 C2 x o L Co. apply C2; [apply C1; assumption | exact Co]. Qed.

Lemma chain_same_insert_fresh m id o : lookup m id = None -> chain_same m (insert m id o).
Proof.
  intros Hn x o' L _. rewrite lookup_insert. destruct (oid_eqb id x) eqn:E; [|exact L].
  apply oid_eqb_eq in E. subst x. congruence.
Qed.

(* replacing an object that is a dictionary or a stream leaves the reference / integer objects alone *)
Lemma chain_same_update m t o0 o1 : lookup m t = Some o0 -> ~ chain_obj o0 -> chain_same m (update m t o1).
Proof.
  intros Lt Hn x o L Co. rewrite lookup_update. destruct (oid_eqb t x) eqn:E; [|exact L].
  apply oid_eqb_eq in E. subst x. rewrite Lt in L. inversion L; subst o0. contradiction.
Qed.

Lemma chain_same_stream d d' : keeps_objects is_stream d d' -> chain_same (d_objects d) (d_objects d').
Proof.
  intros [_ [_ [_ L]]] x o Lx Co. destruct (L x) as [E|[Hs _]]; [rewrite E; exact Lx|].
  rewrite Lx in Hs. destruct o; try destruct Hs; destruct Co.
Qed.

Lemma add_object_chain d o d1 nid : alloc_ok d -> add_object d o = Some (d1, nid) -> chain_same (d_objects d) (d_objects d1).
Proof.
  intros A E. apply add_object_spec in E. destruct E as [Ei [_ [E2 _]]]. rewrite E2, Ei.
  apply chain_same_insert_fresh. apply alloc_fresh_none. exact A.
Qed.

Lemma nd_dict (td : dict) : ~ chain_obj (ODict td).
Proof. intro X. exact X. Qed.

Lemma set_page_entry_chain m page k v m2 : set_page_entry m page k v = Some m2 -> chain_same m m2.
Proof.
  unfold set_page_entry. destruct (get_object_mut_id m page) as [t|]; [|discriminate].
  destruct (lookup m t) as [[| | | | | | |td| |]|] eqn:Lt; try discriminate.
  intros H. inversion H; subst. apply (chain_same_update m t (ODict td)); [exact Lt | apply nd_dict].
Qed.

Lemma add_then_set_chain d o d1 nid page v :
  alloc_ok d -> add_object d o = Some (d1, nid) ->
  forall m2, set_page_entry (d_objects d1) page K_Contents v = Some m2 -> chain_same (d_objects d) m2.
Proof.
  intros A E m2 Es. eapply chain_same_trans; [eapply add_object_chain; eassumption | eapply set_page_entry_chain; exact Es].
Qed.

Lemma ccs_chain O d id c : chain_same (d_objects d) (d_objects (change_content_stream O d id c)).
Proof.
  unfold change_content_stream. destruct (lookup (d_objects d) id) as [[| | | | | | | |sd c0|]|] eqn:L; try apply chain_same_refl.
  cbn [d_objects with_objs]. apply (chain_same_update _ id (OStream sd c0)); [exact L | intro X; exact X].
Qed.

Lemma add_page_contents_chain d page c d' r :
  alloc_ok d -> add_page_contents d page c = (d', r) -> chain_same (d_objects d) (d_objects d').
Proof.
  intro A. unfold add_page_contents.
  destruct (get_dictionary (d_objects d) page) as [pd|]; [|intro H; inversion H; apply chain_same_refl].
  destruct (add_object d (new_stream c)) as [[d1 nid]|] eqn:E; [|intro H; inversion H; apply chain_same_refl].
  destruct (set_page_entry _ _ _ _) as [m2|] eqn:Es; intro H; inversion H; subst.
  - cbn [d_objects with_objs]. eapply add_then_set_chain; eassumption.
  - eapply add_object_chain; eassumption.
Qed.

Lemma replace_page_content_chain d page c d' r :
  alloc_ok d -> replace_page_content d page c = (d', r) -> chain_same (d_objects d) (d_objects d').
Proof.
  intro A. unfold replace_page_content.
  destruct (add_object d (new_stream c)) as [[d1 nid]|] eqn:E; [|intro H; inversion H; apply chain_same_refl].
  destruct (set_page_entry _ _ _ _) as [m2|] eqn:Es; intro H; inversion H; subst.
  - cbn [d_objects with_objs]. eapply add_then_set_chain; eassumption.
  - eapply add_object_chain; eassumption.
Qed.

Lemma change_page_content_chain O d page c d' r :
  alloc_ok d -> change_page_content O d page c = (d', r) -> chain_same (d_objects d) (d_objects d').
Proof.
  intro A. unfold change_page_content.
  destruct (get_dictionary (d_objects d) page) as [pd|]; [|intro H; inversion H; apply chain_same_refl].
  destruct (dict_get pd K_Contents) as [x|]; [|intro H; inversion H; apply chain_same_refl].
  destruct (single_stream (d_objects d) x) as [id|]; [|apply replace_page_content_chain; exact A].
  destruct (is_content_stream_of_another_page d id page); [apply replace_page_content_chain; exact A|].
  intro H; inversion H; subst. apply ccs_chain.
Qed.

Lemma remove_annot_loop_chain target : forall pages m m' ok,
  remove_annot_loop target pages m = (m', ok) -> chain_same m m'.
Proof.
  induction pages as [|p ps IH]; intros m m' ok H; cbn [remove_annot_loop] in H.
  - inversion H; subst. apply chain_same_refl.
  - destruct (get_object_mut_id m p) as [t|]; [|inversion H; subst; apply chain_same_refl].
    destruct (lookup m t) as [[| | | | | | |pd| |]|] eqn:Lt; try (inversion H; subst; apply chain_same_refl).
    destruct (dict_get pd K_Annots) as [[| | | | | |l| | |]|]; try (inversion H; subst; apply chain_same_refl).
    eapply chain_same_trans; [|eapply IH; exact H].
    apply (chain_same_update m t (ODict pd)); [exact Lt | apply nd_dict].
Qed.

Lemma remove_annot_chain d target d' ok : remove_annot d target = (d', ok) -> chain_same (d_objects d) (d_objects d').
Proof.
  unfold remove_annot. destruct (remove_annot_loop _ _ _) as [m ok0] eqn:E. intro H; inversion H; subst.
  cbn [d_objects with_objs]. eapply remove_annot_loop_chain; exact E.
Qed.

Lemma gocr_chain d page d' loc : get_or_create_resources d page = (d', loc) -> chain_same (d_objects d) (d_objects d').
Proof.
  unfold get_or_create_resources. destruct (get_object (d_objects d) page) as [[| | | | | | |pd| |]|];
    try (intro H; inversion H; apply chain_same_refl).
  destruct (if dict_has pd K_Resources then as_ref (dict_get pd K_Resources) else None); [intro H; inversion H; apply chain_same_refl|].
  destruct (get_object_mut_id (d_objects d) page) as [t|]; [|intro H; inversion H; apply chain_same_refl].
  destruct (lookup (d_objects d) t) as [[| | | | | | |td| |]|] eqn:Lt; try (intro H; inversion H; apply chain_same_refl).
  intro H; inversion H; subst. cbn [d_objects with_objs].
  apply (chain_same_update _ t (ODict td)); [exact Lt | apply nd_dict].
Qed.

Lemma chain_loc_set m loc rd rd' : loc_get m loc = Some (ODict rd) -> chain_same m (loc_set m loc (ODict rd')).
Proof.
  destruct loc as [t|t]; cbn [loc_get loc_set]; intros L.
  - apply (chain_same_update m t (ODict rd)); [exact L | apply nd_dict].
  - destruct (lookup m t) as [[| | | | | | |td| |]|] eqn:Lt; try discriminate.
    apply (chain_same_update m t (ODict td)); [exact Lt | apply nd_dict].
Qed.

Lemma add_resource_chain follow key d page nm x d' r :
  add_resource follow key d page nm x = (d', r) -> chain_same (d_objects d) (d_objects d').
Proof.
  unfold add_resource.
  destruct (get_or_create_resources d page) as [d1 loc] eqn:Eg.
  pose proof (gocr_chain d page d1 loc Eg) as S1.
  destruct loc as [loc|]; [|intro H; injection H as <- _; exact S1].
  assert (Same1 : forall r0, (d1, r0) = (d', r) -> chain_same (d_objects d) (d_objects d')) by (intros r0 H; injection H as <- _; exact S1).
  destruct (loc_get (d_objects d1) loc) as [[| | | | | | |rd| |]|] eqn:El;
    [apply Same1 | apply Same1 | apply Same1 | apply Same1 | apply Same1 | apply Same1 | apply Same1 | | apply Same1 | apply Same1 | apply Same1].
  set (m1 := d_objects d1) in *.
  set (rd1 := if dict_has rd key then rd else dict_set rd key (ODict [])).
  set (m2 := loc_set m1 loc (ODict rd1)).
  assert (S2 : chain_same (d_objects d) m2).
  { eapply chain_same_trans; [exact S1|]. apply (chain_loc_set m1 loc rd rd1 El). }
  assert (El2 : loc_get m2 loc = Some (ODict rd1)) by (eapply loc_get_set; exact El).
  assert (Same : forall r0, (with_objs d1 m2, r0) = (d', r) -> chain_same (d_objects d) (d_objects d'))
    by (intros r0 H; injection H as <- _; exact S2).
  assert (Step : forall m3 r0, chain_same m2 m3 -> (with_objs d1 m3, r0) = (d', r) -> chain_same (d_objects d) (d_objects d')).
  { intros m3 r0 S3 H. injection H as <- _. cbn [d_objects with_objs]. eapply chain_same_trans; [exact S2 | exact S3]. }
  destruct (dict_get rd1 key) as [[| | | | | | |xd| |i g]|] eqn:Ek;
    [apply Same | apply Same | apply Same | apply Same | apply Same | apply Same | apply Same | | apply Same | | apply Same].
  - apply Step. apply (chain_loc_set m2 loc rd1 _ El2).
  - destruct follow; [|apply Same].
    destruct (get_object m2 (i, g)); [|apply Same].
    destruct (get_object_mut_id m2 (i, g)) as [t|]; [|apply Same].
    destruct (lookup m2 t) as [[| | | | | | |xd| |]|] eqn:Lt;
      [apply Same | apply Same | apply Same | apply Same | apply Same | apply Same | apply Same | | apply Same | apply Same | apply Same].
    apply Step. apply (chain_same_update m2 t (ODict xd)); [exact Lt | apply nd_dict].
Qed.

(* ---------- prune_objects: the support is reachable from the trailer ---------- *)
Lemma reach_tree_ref0 tr m :
  (forall t par, page_tree_ref m par t -> reach tr m (root_id t) -> forall x, In x (ids t) -> reach tr m x) /\
  (forall f par, Forall (page_tree_ref m par) f -> (forall k, In k f -> reach tr m (root_id k)) ->
     forall x, In x (flat_map ids f) -> reach tr m x).
Proof.
  apply ptree_forest_ind.
  - intros i par _ R x [<-|[]]. exact R.
  - intros i ks Q par PT R x Hx. cbn [root_id] in R. destruct Hx as [<-|Hx]; [exact R|].
    inversion PT as [|? ? dd ? L W Ty Kd Ct Pa F]; subst.
    apply (Q (Some i) F); [|exact Hx]. intros k Hk. eapply reach_step; [exact R | exact L|].
    cbn [refs_of]. fold (refs_of_dict dd). eapply EditProofsTree2.dict_get_refs; [exact Kd|].
    cbn [refs_of]. apply in_flat_map. exists (ref_of k). split; [apply in_map; exact Hk|].
    unfold ref_of. cbn [refs_of]. left. destruct (root_id k); reflexivity.
  - intros par _ _ x [].
  - intros k ks P Q par F R x Hx. inversion F as [|? ? Fk Fks]; subst. cbn [flat_map] in Hx. apply in_app_iff in Hx.
    destruct Hx as [Hx|Hx].
    + apply (P par Fk); [apply R; left; reflexivity | exact Hx].
    + apply (Q par Fks); [intros k' Hk'; apply R; right; exact Hk' | exact Hx].
Qed.

Lemma reach_leads tr m o via d : leads m o via d -> (forall r, In r (refs_of o) -> reach tr m r) ->
  forall y, In y via -> reach tr m y.
Proof.
  induction 1 as [d|i g o via d L H IH]; intros R y Hy; [destruct Hy|].
  assert (Ri : reach tr m (i, g)) by (apply R; left; reflexivity).
  destruct Hy as [<-|Hy]; [exact Ri|]. apply IH; [|exact Hy]. intros r Hr. eapply reach_step; [exact Ri | exact L | exact Hr].
Qed.

Lemma reach_deref_ids tr m : forall f o, (forall r, In r (refs_of o) -> reach tr m r) ->
  forall y, In y (deref_ids m f o) -> reach tr m y.
Proof.
  induction f as [|f IH]; intros o R y Hy; destruct o as [| | | | | | | | |i g]; cbn [deref_ids] in Hy; try destruct Hy.
  - subst y. apply R. left. reflexivity.
  - destruct (lookup m (i, g)); destruct H.
  - subst y. apply R. left. reflexivity.
  - assert (Ri : reach tr m (i, g)) by (apply R; left; reflexivity).
    destruct (lookup m (i, g)) as [o'|] eqn:L; [|destruct H].
    apply (IH o'); [|exact H]. intros r Hr. eapply reach_step; [exact Ri | exact L | exact Hr].
Qed.

Lemma support_reach d t x : page_doc_ref d t -> tree_support d t x -> reach (d_trailer d) (d_objects d) x.
Proof.
  intros [ci [cg [cat [Wt [Rt [Lc [Wc [Pg [Nd [PT [ND [Hc NE]]]]]]]]]]]] Hx.
  assert (Rc : reach (d_trailer d) (d_objects d) (ci, cg)).
  { apply reach_root. eapply EditProofsTree2.dict_get_refs; [exact Rt|]. left. reflexivity. }
  assert (Rids : forall y, In y (ids t) -> reach (d_trailer d) (d_objects d) y).
  { apply (proj1 (reach_tree_ref0 _ _) t None PT).
    eapply reach_step; [exact Rc | exact Lc|]. cbn [refs_of]. fold (refs_of_dict cat).
    eapply EditProofsTree2.dict_get_refs; [exact Pg|]. unfold ref_of. cbn [refs_of]. left. destruct (root_id t); reflexivity. }
  destruct Hx as [Hx|[Hx|[Hx|Hx]]].
  - rewrite Rt in Hx. inversion Hx; subst. destruct x; exact Rc.
  - apply Rids. exact Hx.
  - destruct Hx as [id [o [via [dd [Hid [L [Ld [_ Hv]]]]]]]].
    apply (reach_leads _ _ o via dd Ld); [|exact Hv]. intros r Hr.
    eapply reach_step; [apply Rids; apply (proj1 leaves_ids); exact Hid | exact L | exact Hr].
  - destruct Hx as [nd [dd [c [Hnd [L [_ [Gc Hv]]]]]]].
    apply (reach_deref_ids _ _ (N.to_nat DEREF_LIMIT) c); [|exact Hv]. intros r Hr.
    eapply reach_step; [apply Rids; exact Hnd | exact L|]. cbn [refs_of]. fold (refs_of_dict dd).
    eapply EditProofsTree2.dict_get_refs; [exact Gc | exact Hr].
Qed.

Lemma prune_objects_ref d t d' r :
  doc_wf d -> page_doc_ref d t -> prune_objects d = Some (d', r) -> page_doc_ref d' t.
Proof.
  intros W PD E. destruct (I_prune d d' r W E) as [_ [L1 [_ [T1 _]]]].
  apply (page_doc_ref_frame_on d d' t PD).
  split; [rewrite T1; destruct PD as [ci [cg [cat [Wt _]]]]; exact Wt|]. split; [rewrite T1; reflexivity|]. split.
  - intros x Hx. apply stable_same. apply L1. eapply support_reach; eassumption.
  - intros x o Hx L _. rewrite L1; [exact L | eapply support_reach; eassumption].
Qed.

(* ---------- the support, computed ---------- *)
Lemma leads_ids m o via d : leads m o via d -> forall f, (length via <= f)%nat -> deref_ids m f o = via.
Proof.
  induction 1 as [d|i g o via d L H IH]; intros f Hf.
  - destruct f; reflexivity.
  - destruct f as [|f]; [cbn [length] in Hf; lia|]. cbn [deref_ids]. rewrite L. f_equal. apply IH. cbn [length] in Hf. lia.
Qed.

Definition support_list (m : objmap) (I L : list oid) : list oid :=
  I ++ flat_map (fun id => match lookup m id with Some o => deref_ids m (N.to_nat DEREF_LIMIT) o | None => [] end) L
    ++ flat_map (fun nd => match lookup m nd with
                           | Some (ODict dd) => match dict_get dd K_Count with
                                                | Some c => deref_ids m (N.to_nat DEREF_LIMIT) c
                                                | None => []
                                                end
                           | _ => []
                           end) I.

Lemma sup_in_list m I L x : sup m I L x -> In x (support_list m I L).
Proof.
  unfold support_list. intros [H|[H|H]]; apply in_app_iff; [left; exact H | right | right]; apply in_app_iff.
  - destruct H as [id [o [via [d [Hid [Lo [Ld [Hl Hv]]]]]]]]. left. apply in_flat_map. exists id. split; [exact Hid|].
    rewrite Lo, (leads_ids m o via d Ld) by (apply limit_len; exact Hl). exact Hv.
  - destruct H as [nd [dd [c [Hnd [Lo [_ [Gc Hv]]]]]]]. right. apply in_flat_map. exists nd. split; [exact Hnd|].
    rewrite Lo, Gc. exact Hv.
Qed.

(* ---------- delete_object of an object off the support ---------- *)
Lemma deref_int_del3 m m1 p :
  (forall x, x <> p -> lookup m1 x = lookup m x \/ lookup m1 x = option_map (strip p) (lookup m x)) ->
  forall f last o n, int_result (deref_aux m f last o) = Some n -> (forall y, In y (deref_ids m f o) -> y <> p) ->
    int_result (deref_aux m1 f last o) = Some n /\ strip p o = o.
Proof.
  intros Hx. induction f as [|f IH]; intros last o n; destruct o as [| | | | | | | | |i g]; cbn [deref_aux int_result deref_ids];
    try discriminate; try (intros H _; split; [exact H | reflexivity]).
  - destruct (lookup m (i, g)); discriminate.
  - destruct (lookup m (i, g)) as [o'|] eqn:L; [|discriminate]. intros H Hy.
    assert (Hne : (i, g) <> p) by (apply Hy; left; reflexivity).
    destruct (IH (Some (i, g)) o' n H (fun y Hin => Hy y (or_intror Hin))) as [H1 H2].
    split; [|cbn [strip]; replace (oid_eqb (i, g) p) with false by (symmetry; apply oid_eqb_neq; exact Hne); reflexivity].
    destruct (Hx (i, g) Hne) as [E1|E1]; rewrite E1, L; [exact H1|]. cbn [option_map]. rewrite H2. exact H1.
Qed.

Lemma read_count_del3 m m1 p :
  (forall x, x <> p -> lookup m1 x = lookup m x \/ lookup m1 x = option_map (strip p) (lookup m x)) ->
  forall d n, dict_wf d ->
    (forall c y, dict_get d K_Count = Some c -> In y (deref_ids m (N.to_nat DEREF_LIMIT) c) -> y <> p) ->
    read_count m d = Some n -> read_count m1 (sd p d) = Some n.
Proof.
  intros Hx d n W Hc. unfold read_count. destruct (dict_get d K_Count) as [c|] eqn:G; [|discriminate].
  intro H.
  assert (Hi : int_result (dereference m c) = Some n).
  { destruct (dereference m c) as [[r o]|]; [|discriminate]. destruct o; try discriminate. exact H. }
  destruct (deref_int_del3 m m1 p Hx _ None c n Hi (fun y Hy => Hc c y eq_refl Hy)) as [H1 H2]. fold (dereference m1 c) in H1.
  rewrite (sd_get p d K_Count c W G (strip_id_not_ref p c H2)), H2.
  destruct (dereference m1 c) as [[r o]|]; [|discriminate]. destruct o; try discriminate. exact H1.
Qed.

Section DelRef.
  Variables (m m1 : objmap) (p : oid) (T : ptree).
  Hypothesis M1 : forall x d, In x (ids T) -> lookup m x = Some (ODict d) -> lookup m1 x = Some (ODict (sd p d)).
  Hypothesis RC : forall x d n, In x (ids T) -> lookup m x = Some (ODict d) -> dict_get d K_Type = Some (OName K_Pages) ->
    dict_wf d -> read_count m d = Some n -> read_count m1 (sd p d) = Some n.
  Hypothesis HL : forall x o via d, In x (ids T) -> lookup m x = Some o -> leads m o via d ->
    (N.of_nat (length via) <= DEREF_LIMIT)%N -> dict_get d K_Type = Some (OName K_Page) ->
    exists o2 d2, lookup m1 x = Some o2 /\ leads m1 o2 via d2 /\ (d2 = d \/ d2 = sd p d).

  Lemma page_tree_ref_del :
    (forall t par, incl (ids t) (ids T) -> page_tree_ref m par t -> ~ In p (ids t) -> par <> Some p -> page_tree_ref m1 par t) /\
    (forall f par, incl (flat_map ids f) (ids T) -> Forall (page_tree_ref m par) f -> ~ In p (flat_map ids f) -> par <> Some p ->
       Forall (page_tree_ref m1 par) f).
  Proof.
    apply ptree_forest_ind.
    - intros i par Hi PT Hn Hpar.
      inversion PT as [? ? o via d L Ld Hl W Ty Pa|]; subst.
      destruct (HL i o via d (Hi i (or_introl eq_refl)) L Ld Hl Ty) as [o2 [d2 [L2 [Ld2 Hd2]]]].
      rewrite parent_ref_as_ref in Hpar.
      destruct Hd2 as [->| ->].
      + eapply PRLeaf; [exact L2 | exact Ld2 | exact Hl | exact W | exact Ty | reflexivity].
      + eapply PRLeaf; [exact L2 | exact Ld2 | exact Hl | apply sd_wf; exact W | apply sd_get_name; assumption|].
        rewrite !parent_ref_as_ref. apply sd_parent; assumption.
    - intros i ks Q par Hi PT Hn Hpar.
      inversion PT as [|? ? d ? L W Ty Kd Ct Pa F]; subst.
      assert (Hip : i <> p) by (intro E; apply Hn; left; exact E).
      assert (Hnk : ~ In p (flat_map ids ks)) by (intro H; apply Hn; right; exact H).
      assert (Hnk' : ~ In p (flat_map nodes ks)) by (intro H; apply Hnk; apply (proj2 nodes_ids); exact H).
      pose proof (M1 i d (Hi i (or_introl eq_refl)) L) as L2.
      pose proof Ct as Ct0. apply count_reads_read in Ct0.
      pose proof (RC i d _ (Hi i (or_introl eq_refl)) L Ty W Ct0) as Ct1.
      eapply PRNode; [exact L2 | apply sd_wf; exact W | | | | |].
      + apply sd_get_name; assumption.
      + rewrite (sd_get p d K_Kids _ W Kd eq_refl). rewrite strip_kids by exact Hnk'.
        rewrite (proj2 (prune_notin p) ks Hnk). reflexivity.
      + apply count_reads_read. exact Ct1.
      + rewrite parent_ref_as_ref in *. apply sd_parent; assumption.
      + apply Q; [intros x Hx; apply Hi; right; exact Hx | exact F | exact Hnk | intro E; inversion E; congruence].
    - intros par _ _ _ _. constructor.
    - intros k ks P Q par Hi F Hn Hpar. inversion F as [|? ? Fk Fks]; subst. cbn [flat_map] in *.
      apply incl_app_inv in Hi. destruct Hi as [Hik Hiks]. rewrite in_app_iff in Hn.
      constructor; [apply P | apply Q]; tauto.
  Qed.
End DelRef.

Lemma delete_outside_ref d t p d1 r :
  doc_wf d -> page_doc_ref d t -> ~ tree_support d t p -> delete_object d p = Some (d1, r) -> page_doc_ref d1 t.
Proof.
  intros W [ci [cg [cat [Wt [Rt [Lc [Wc [Pg [Nd [PT [ND [Hc NE]]]]]]]]]]]] Hout E.
  assert (Hni : ~ In p (ids t)) by (intro H; apply Hout; right; left; exact H).
  assert (Hcp : (ci, cg) <> p) by (intro H; apply Hout; left; rewrite <- H; exact Rt).
  assert (Hn : ~ In p (nodes t)) by (intro H; apply Hni; apply (proj1 nodes_ids); exact H).
  assert (Hr : root_id t <> p).
  { intro H. apply Hni. rewrite <- H. destruct t; left; reflexivity. }
  destruct (delete_reaches_ref d t p ci cg cat d1 r W Wt Rt Lc Wc Pg PT Hn Hr Hcp E) as [T1 [Lc1 [M1 [Lp1 Hres]]]].
  pose proof (delete_object_any d p d1 r W E) as Any.
  assert (Hxp : forall x, In x (ids t) -> x <> p) by (intros x Hx E1; subst x; exact (Hni Hx)).
  assert (HL : forall x o via dd, In x (ids t) -> lookup (d_objects d) x = Some o -> leads (d_objects d) o via dd ->
            (N.of_nat (length via) <= DEREF_LIMIT)%N -> dict_get dd K_Type = Some (OName K_Page) ->
            exists o2 dd2, lookup (d_objects d1) x = Some o2 /\ leads (d_objects d1) o2 via dd2 /\ (dd2 = dd \/ dd2 = sd p dd)).
  { intros x o via dd Hx Lx Ld Hl Ty.
    destruct (proj1 ids_split t x Hx) as [Hxl|Hxn].
    - assert (Hav : ~ In p via).
      { intro Hin. apply Hout. right. right. left. exists x, o, via, dd. repeat split; assumption. }
      destruct (leads_del (d_objects d) (d_objects d1) p Any o via dd Ld Hav) as [[da [A1 B1]] [db [A2 B2]]].
      destruct (Any x (Hxp x Hx)) as [E1|E1]; rewrite Lx in E1.
      + exists o, da. split; [exact E1|]. split; assumption.
      + exists (strip p o), db. split; [exact E1|]. split; assumption.
    - exfalso. destruct (proj1 (page_tree_ref_nodes (d_objects d)) t None PT x Hxn) as [dn [Ln Tn]].
      exact (leads_no_pages (d_objects d) x o via dd Lx Ld Ty x dn (or_introl eq_refl) Ln Tn). }
  assert (RC : forall x dx n, In x (ids t) -> lookup (d_objects d) x = Some (ODict dx) ->
            dict_get dx K_Type = Some (OName K_Pages) -> dict_wf dx ->
            read_count (d_objects d) dx = Some n -> read_count (d_objects d1) (sd p dx) = Some n).
  { intros x dx n Hx Lx Ty Wx. apply (read_count_del3 (d_objects d) (d_objects d1) p Any dx n Wx).
    intros c y Gc Hy E1. subst y. apply Hout. right. right. right. exists x, dx, c. repeat split; assumption. }
  assert (PT' : page_tree_ref (d_objects d1) None t).
  { apply (proj1 (page_tree_ref_del (d_objects d) (d_objects d1) p t
                    (fun x dx Hx Lx => M1 x dx Hx (Hxp x Hx) Lx) RC HL) t None (incl_refl _) PT Hni).
    discriminate. }
  exists ci, cg, (sd p cat).
  split; [unfold unique_keys; rewrite T1; apply sd_wf; exact Wt|].
  split; [rewrite T1, (sd_get p _ K_Root _ Wt Rt)|].
  { cbn [strip]. replace (oid_eqb (ci, cg) p) with false by (symmetry; apply oid_eqb_neq; exact Hcp). reflexivity. }
  { cbn [is_ref_to]. apply oid_eqb_neq. exact Hcp. }
  split; [exact Lc1|]. split; [apply sd_wf; exact Wc|].
  split; [rewrite (sd_get p cat K_Pages _ Wc Pg (is_ref_to_ref_of p t Hr)), strip_ref_of by exact Hr;
          rewrite (proj1 (prune_notin p) t Hni); reflexivity|].
  split; [exact Nd|]. split; [exact PT'|]. split; [exact ND|]. split; [exact Hc|].
  rewrite (map_ext_in (end_of (d_objects d1)) (end_of (d_objects d))); [exact NE|].
  intros x Hx.
  destruct (proj1 (page_tree_ref_leaves (d_objects d)) t None PT x Hx) as [o [via [dd [Lx [Ld [Hl [Wx [Tx _]]]]]]]].
  destruct (HL x o via dd (proj1 leaves_ids t x Hx) Lx Ld Hl Tx) as [o2 [dd2 [L2 [Ld2 _]]]].
  rewrite (end_of_leads _ x o via dd Lx Ld Hl), (end_of_leads _ x o2 via dd2 L2 Ld2 Hl). reflexivity.
Qed.

(* ---------- one step ---------- *)
(* the domain of a step on [page_doc_ref]: [tree_op_dom] with "a node of the tree or the catalog" widened to the SUPPORT of the
   tree: the catalog, the nodes, the reference objects a page id passes on the way to its dictionary and the object holding
   that dictionary, the reference objects a Pages node's Count passes and the integer object it ends at *)
Definition tree_op_dom_ref (d : doc) (t : ptree) (o : op) : Prop :=
  match o with
  | SetObject id _ => ~ tree_support d t id /\ (fst id <= d_max_id d)%N
  | DeleteObject id => ~ tree_support d t id
  | RenumberObjects => False
  | AddXObject _ nm _ => ~ In nm struct_keys
  | _ => True
  end.

Lemma tree_support_contains d t x : tree_or_cat d t x -> tree_support d t x.
Proof. intros [H|H]; [right; left; exact H | left; exact H]. Qed.

Lemma tree_op_dom_ref_dom d t o : tree_op_dom_ref d t o -> tree_op_dom d t o.
Proof.
  destruct o; cbn [tree_op_dom_ref tree_op_dom]; try tauto.
  - intros [H1 H2]. split; [|exact H2]. intro H. apply H1. apply tree_support_contains. exact H.
  - intros H1 H. apply H1. apply tree_support_contains. exact H.
Qed.

Theorem step_page_doc_ref O d t o :
  doc_wf d -> alloc_ok d -> page_doc_ref d t -> hbound t -> tree_op_dom_ref d t o ->
  page_doc_ref (fst (step O d o)) (tree_after d t o) /\ hbound (tree_after d t o).
Proof.
  intros W A PD Hh Dm.
  assert (Wt : unique_keys (d_trailer d)) by (destruct PD as [ci [cg [cat [Wt _]]]]; exact Wt).
  assert (Hsame : forall d', all_stable d d' -> chain_same (d_objects d) (d_objects d') -> page_doc_ref d' t /\ hbound t).
  { intros d' S C. split; [eapply page_doc_ref_frame; [exact PD | eapply frame_of_all_stable; eassumption] | exact Hh]. }
  assert (Hrefl : page_doc_ref d t /\ hbound t) by (split; assumption).
  destruct o; cbn [step tree_after tree_op_dom_ref] in *.
  - (* new_object_id *)
    destruct (new_object_id d) as [[d' i]|] eqn:E; cbn [fst]; [|exact Hrefl].
    apply new_object_id_spec in E. destruct E as [_ [_ [E2 [E3 _]]]]. apply Hsame.
    + split; [exact E3|]. intro x. apply stable_same. rewrite E2. reflexivity.
    + apply chain_same_eq. intro x. rewrite E2. reflexivity.
  - (* add_object *)
    destruct (add_object d o) as [[d' i]|] eqn:E; cbn [fst]; [|exact Hrefl].
    apply Hsame; [eapply add_object_stable | eapply add_object_chain]; eassumption.
  - (* set_object *)
    destruct Dm as [Hout _]. cbn [fst]. split; [|exact Hh].
    apply (page_doc_ref_frame_on d _ t PD). split; [exact Wt|]. split; [reflexivity|]. split.
    + intros x Hx. unfold set_object. cbn [d_objects with_objs]. apply stable_insert_other. intro E. subst x. exact (Hout Hx).
    + intros x o' Hx L _. unfold set_object. cbn [d_objects with_objs]. rewrite lookup_insert.
      replace (oid_eqb id x) with false; [exact L|]. symmetry. apply oid_eqb_neq. intro E. subst x. exact (Hout Hx).
  - (* delete_object *)
    destruct (delete_object d id) as [[d' r]|] eqn:E; cbn [fst]; [|exact Hrefl].
    split; [eapply delete_outside_ref; eassumption | exact Hh].
  - (* remove_object *)
    destruct (remove_annot d id) as [d' ok] eqn:E. cbn [fst]. apply Hsame; [eapply remove_annot_stable | eapply remove_annot_chain]; exact E.
  - (* prune_objects *)
    destruct (prune_objects d) as [[d' r]|] eqn:E; cbn [fst]; [|exact Hrefl].
    split; [eapply prune_objects_ref; eassumption | exact Hh].
  - (* delete_pages *)
    destruct (delete_pages_tree_ref d t nums W PD Hh) as [d' [E [_ [PD' _]]]]. rewrite E. cbn [fst].
    split; [exact PD'|]. unfold hbound in *. pose proof (prune_all_height (sel (get_pages d) nums) t). lia.
  - destruct Dm.
  - (* compress *) cbn [fst]. apply Hsame; [apply keeps_stream_stable | apply chain_same_stream]; apply compress_frame.
  - (* decompress *)
    destruct (decompress_objs O (d_objects d)) as [m ok] eqn:E. cbn [fst].
    apply Hsame; [apply keeps_stream_stable | apply chain_same_stream]; eapply decompress_frame; exact E.
  - cbn [fst]. apply Hsame; [apply ccs_stable | apply ccs_chain].
  - destruct (change_page_content O d page c) as [d' r] eqn:E. cbn [fst].
    apply Hsame; [eapply change_page_content_stable | eapply change_page_content_chain]; eassumption.
  - destruct (add_page_contents d page c) as [d' r] eqn:E. cbn [fst].
    apply Hsame; [eapply add_page_contents_stable | eapply add_page_contents_chain]; eassumption.
  - unfold add_to_page_content. destruct (add_page_contents d page (encode_content ops)) as [d' r] eqn:E. cbn [fst].
    apply Hsame; [eapply add_page_contents_stable | eapply add_page_contents_chain]; eassumption.
  - destruct (get_or_create_resources d page) as [d' loc] eqn:E. cbn [fst].
    apply Hsame; [eapply gocr_stable | eapply gocr_chain]; exact E.
  - unfold add_xobject. destruct (add_resource true K_XObject d page name x) as [d' r] eqn:E. cbn [fst]. apply Hsame.
    + exact (add_resource_stable true K_XObject d page name x d' r K_XObject_ns (fun _ => Dm) E).
    + eapply add_resource_chain; exact E.
  - unfold add_graphics_state. destruct (add_resource false K_ExtGState d page name g) as [d' r] eqn:E. cbn [fst]. apply Hsame.
    + apply (add_resource_stable false K_ExtGState d page name g d' r K_ExtGState_ns); [intro H0; discriminate H0 | exact E].
    + eapply add_resource_chain; exact E.
  - cbn [fst]. exact Hrefl.
  - (* save *)
    split; [|exact Hh]. destruct (save_effect_shape stream d) as [Eo _].
    destruct (save_effect_trailer stream d Wt) as [Wt' Rt'].
    apply (page_doc_ref_frame d _ t PD). split; [exact Wt'|]. split; [exact Rt'|]. split.
    + intro x. apply stable_same. rewrite Eo. reflexivity.
    + apply chain_same_eq. intro x. rewrite Eo. reflexivity.
Qed.

(* ---------- whole programs ---------- *)
Fixpoint tree_prog_dom_ref (O : oracles) (d : doc) (t : ptree) (ops : list op) : Prop :=
  match ops with
  | [] => True
  | o :: r => tree_op_dom_ref d t o /\ tree_prog_dom_ref O (fst (step O d o)) (tree_after d t o) r
  end.

Theorem run_ops_page_doc_ref O : forall ops d t,
  doc_wf d -> alloc_ok d -> page_doc_ref d t -> hbound t -> tree_prog_dom_ref O d t ops ->
  let d' := run_ops O d ops in let t' := tree_end O d t ops in
  doc_wf d' /\ alloc_ok d' /\ page_doc_ref d' t' /\ hbound t' /\
  page_iter d' = leaves t' /\ counts_exact (d_objects d') t'.
Proof.
  induction ops as [|o ops IH]; intros d t W A PD Hh Dm; cbn [run_ops fold_left tree_end tree_prog_dom_ref] in *.
  - repeat (split; [assumption|]). split; [apply page_doc_ref_iter; assumption | apply (page_doc_ref_tree_wf d t PD)].
  - destruct Dm as [Do Dr]. destruct (step_page_doc_ref O d t o W A PD Hh Do) as [PD' Hh'].
    pose proof (tree_op_dom_op_dom d t o (tree_op_dom_ref_dom d t o Do)) as Od.
    apply (IH (fst (step O d o)) (tree_after d t o)); try assumption.
    + apply step_wf; assumption.
    + apply step_alloc; assumption.
Qed.

(* ---------- non-vacuity: a program on the document of Proofs/EditProofsTreeRef.v (pages 3 and 5 are reference objects, the
   Counts of 2 and 4 sit behind references) ---------- *)
Definition tree_prog_ref : list op :=
  [AddObject (OInt 5); SetObject (15, 0)%N (OInt 7); AddPageContents (11, 0)%N (bs "q Q"); AddXObject (11, 0)%N K_Im1' (15, 0)%N;
   DeleteObject (15, 0)%N; DeletePages [2%N]; PruneObjects; Save false; Compress; DeletePages [1; 1]%N].

Lemma tree_prog_ref_example :
  doc_wf tree_doc_ref /\ alloc_ok tree_doc_ref /\ page_doc_ref tree_doc_ref tree_ex_ind /\ hbound tree_ex_ind /\
  tree_prog_dom_ref O_id tree_doc_ref tree_ex_ind tree_prog_ref /\
  tree_end O_id tree_doc_ref tree_ex_ind tree_prog_ref = PNode (2,0)%N [PNode (4,0)%N []; PNode (10,0)%N [PLeaf (11,0)%N]] /\
  page_iter (run_ops O_id tree_doc_ref tree_prog_ref) = [(11,0)%N] /\
  ~ tree_support tree_doc_ref tree_ex_ind (15,0)%N /\
  tree_support tree_doc_ref tree_ex_ind (8,0)%N /\ tree_support tree_doc_ref tree_ex_ind (13,0)%N.
Proof.
  destruct tree_ref_example as [W [PD [Hh _]]].
  assert (Out : forall d, let m := d_objects d in
            dict_get (d_trailer d) K_Root = Some (ORef 1 0) ->
            forallb (fun y => negb (oid_eqb y (15,0)%N)) (support_list m (ids tree_ex_ind) (leaves tree_ex_ind)) = true ->
            ~ tree_support d tree_ex_ind (15,0)%N).
  { intros d m R H [Hs|Hs]; [rewrite R in Hs; discriminate Hs|]. apply sup_in_list in Hs. fold m in Hs.
    rewrite forallb_forall in H. specialize (H _ Hs). rewrite oid_eqb_refl in H. discriminate H. }
  split; [exact W|]. split; [|split; [exact PD|split; [exact Hh|]]].
  - intros id H. cbn in H. repeat (destruct H as [<-|H]; [cbn; lia|]). destruct H.
  - split; [|split; [vm_compute; reflexivity|split; [vm_compute; reflexivity|split; [|split]]]].
    + cbn [tree_prog_ref tree_prog_dom_ref tree_op_dom_ref]. split; [exact I|].
      split; [split; [apply Out; vm_compute; reflexivity | vm_compute; discriminate]|].
      split; [exact I|]. split; [cbn; intuition discriminate|].
      split; [apply Out; vm_compute; reflexivity|]. repeat (split; [exact I|]). exact I.
    + apply Out; vm_compute; reflexivity.
    + right. right. right. exists (2,0)%N. eexists. exists (ORef 7 0). split; [left; reflexivity|].
      split; [reflexivity|]. split; [reflexivity|]. split; [reflexivity|]. vm_compute. right. left. reflexivity.
    + right. right. left. exists (5,0)%N, (ORef 12 0), [(12,0); (13,0)]%N. eexists. split; [cbn; tauto|].
      split; [reflexivity|]. split; [|split; [vm_compute; discriminate | right; left; reflexivity]].
      eapply LRef; [reflexivity|]. eapply LRef; [reflexivity|]. constructor.
Qed.
