(* C07Bytes.v -- C07, byte level, part 1 (format generic).
   The loader model (Model/Loader.v, [load]) on a file that is a CHAIN OF REVISIONS.

   THE INVARIANT ([good_file F v m xs xt entries t objs]), in words: the file F starts with the header line of
   version v and the binary-mark line m, ends with "startxref / xs / %%EOF"; at offset xs stands a well-formed
   cross-reference section whose trailer's Prev leads through a strictly decreasing chain of k further
   well-formed sections; [entries] is the table the loader merges from that chain (newest section first): it
   is sorted, holds only in-use entries, and maps each object number to the EXACT offset of the object in the
   newest revision that defines it; [objs] lists the objects found at those offsets, in key order.  Every
   fact is stated for F followed by ARBITRARY further bytes, which is what a later append preserves.

   Theorem A ([good_file_loads]): load F returns exactly (v, m, t, objs, largest key) for such a file.
   [good_extend]: appending one more well-formed revision whose Prev is xs gives a good file again, whose
   objects are the new objects laid over the old ones. *)
From LV Require Import Base.Bytes Base.Sx Model.Obj Model.Writer Model.Parser Model.Save Model.Xref Model.Loader
  Model.Utf Gen.Lex Gen.SaveFmt Proofs.LexProofs Proofs.RealProofs Proofs.ObjectRtProofs Proofs.SaveProofs
  Proofs.FilterProofsDict Spec.SaveSpec Proofs.LoadProofs Proofs.LoadProofsFile Proofs.LoadProofsXref
  Proofs.LoadProofsTable.

Local Open Scope N_scope.

(* ====================================================================================== *)
(* sorted cross-reference maps (the loader's type)                                         *)
(* ====================================================================================== *)
Fixpoint xincr (lo : N) (m : Xref.xmap) : Prop :=
  match m with
  | [] => True
  | (k, _) :: m' => lo <= k /\ xincr (k + 1) m'
  end.

Lemma xincr_weaken : forall m lo lo', lo' <= lo -> xincr lo m -> xincr lo' m.
Proof. destruct m as [|[k e] m]; intros lo lo' H Hi; [exact I|]. cbn [xincr] in *. destruct Hi. split; [lia | assumption]. Qed.

Lemma xincr_conv : forall x lo, incr lo x -> xincr lo (conv_map x).
Proof.
  induction x as [|[k e] x IH]; intros lo H; [exact I|]. cbn [incr] in H. destruct H as [H1 H2].
  cbn [conv_map map conv_entry fst xincr]. split; [exact H1 | apply IH; exact H2].
Qed.

Lemma xget_none_xincr : forall m lo j, xincr lo m -> j < lo -> Xref.xget m j = None.
Proof.
  induction m as [|[k e] m IH]; intros lo j Hi Hj; [reflexivity|]. cbn [xincr Xref.xget] in *. destruct Hi as [H1 H2].
  replace (k =? j) with false by (symmetry; apply N.eqb_neq; lia). apply (IH (k + 1)); [exact H2 | lia].
Qed.

Lemma xxget_xinsert (m : Xref.xmap) k e j :
  Xref.xget (Xref.xinsert m k e) j = if k =? j then Some e else Xref.xget m j.
Proof.
  induction m as [|[a ea] m IH]; cbn [Xref.xinsert Xref.xget]; [reflexivity|].
  destruct (a =? k) eqn:Eak.
  - apply N.eqb_eq in Eak; subst a. cbn [Xref.xget]. destruct (k =? j); reflexivity.
  - destruct (k <? a).
    + cbn [Xref.xget]. destruct (k =? j); reflexivity.
    + cbn [Xref.xget]. rewrite IH. destruct (a =? j) eqn:Eaj; [|reflexivity].
      apply N.eqb_eq in Eaj; subst a. rewrite N.eqb_sym, Eak. reflexivity.
Qed.

Lemma xinsert_xincr : forall m lo k e, xincr lo m -> xincr (N.min lo k) (Xref.xinsert m k e).
Proof.
  induction m as [|[i e'] m IH]; intros lo k e H; cbn [Xref.xinsert].
  - cbn [xincr]. split; [lia | exact I].
  - cbn [xincr] in H. destruct H as [H1 H2]. destruct (i =? k) eqn:E1.
    + apply N.eqb_eq in E1. subst i. cbn [xincr]. split; [lia | exact H2].
    + apply N.eqb_neq in E1. destruct (k <? i) eqn:E2.
      * apply N.ltb_lt in E2. cbn [xincr]. split; [lia|]. split; [lia | exact H2].
      * apply N.ltb_ge in E2. cbn [xincr]. split; [lia|].
        specialize (IH (i + 1) k e H2). replace (N.min (i + 1) k) with (i + 1) in IH by lia. exact IH.
Qed.

Lemma xinsert_sorted m k e : xincr 0 m -> xincr 0 (Xref.xinsert m k e).
Proof. intro H. apply (xinsert_xincr m 0 k e) in H. replace (N.min 0 k) with 0 in H by lia. exact H. Qed.

Lemma xinsert_forall (P : N * Xref.xentry -> Prop) : forall m k e,
  Forall P m -> P (k, e) -> Forall P (Xref.xinsert m k e).
Proof.
  induction m as [|[i e'] m IH]; intros k e Hm Hp; cbn [Xref.xinsert]; [constructor; [exact Hp | constructor]|].
  inversion Hm; subst. destruct (i =? k) eqn:E1.
  - apply N.eqb_eq in E1. subst i. constructor; assumption.
  - destruct (k <? i); [constructor; [exact Hp | exact Hm] | constructor; [assumption | apply IH; assumption]].
Qed.

(* two sorted maps with the same lookups are the same list *)
Lemma xincr_ext : forall a b lo, xincr lo a -> xincr lo b ->
  (forall j, Xref.xget a j = Xref.xget b j) -> a = b.
Proof.
  induction a as [|[k e] a IH]; intros b lo Ha Hb H.
  - destruct b as [|[k' e'] b]; [reflexivity|]. specialize (H k'). cbn [Xref.xget] in H. rewrite N.eqb_refl in H. discriminate H.
  - destruct b as [|[k' e'] b].
    + specialize (H k). cbn [Xref.xget] in H. rewrite N.eqb_refl in H. discriminate H.
    + cbn [xincr] in Ha, Hb. destruct Ha as [Ha1 Ha2]. destruct Hb as [Hb1 Hb2].
      assert (Ek : k = k').
      { destruct (N.lt_trichotomy k k') as [L|[L|L]]; [|exact L|]; exfalso.
        - specialize (H k). cbn [Xref.xget] in H. rewrite N.eqb_refl in H.
          replace (k' =? k) with false in H by (symmetry; apply N.eqb_neq; lia).
          rewrite (xget_none_xincr b (k' + 1) k Hb2) in H by lia. discriminate H.
        - specialize (H k'). cbn [Xref.xget] in H. rewrite N.eqb_refl in H.
          replace (k =? k') with false in H by (symmetry; apply N.eqb_neq; lia).
          rewrite (xget_none_xincr a (k + 1) k' Ha2) in H by lia. discriminate H. }
      subst k'. pose proof (H k) as Hk. cbn [Xref.xget] in Hk. rewrite N.eqb_refl in Hk. inversion Hk; subst e'.
      f_equal. apply (IH b (k + 1) Ha2 Hb2). intro j.
      destruct (N.lt_ge_cases j (k + 1)) as [L|L].
      * rewrite (xget_none_xincr a (k + 1) j Ha2 L), (xget_none_xincr b (k + 1) j Hb2 L). reflexivity.
      * specialize (H j). cbn [Xref.xget] in H.
        replace (k =? j) with false in H by (symmetry; apply N.eqb_neq; lia). exact H.
Qed.

(* ---------- Xref::merge, by lookups ---------- *)
Lemma xget_xinsert_new (m : Xref.xmap) k e j :
  Xref.xget (xinsert_new m k e) j =
  match Xref.xget m j with Some x => Some x | None => if k =? j then Some e else None end.
Proof.
  unfold xinsert_new. destruct (Xref.xget m k) as [x|] eqn:E.
  - destruct (Xref.xget m j) as [y|] eqn:Ej; [reflexivity|].
    destruct (k =? j) eqn:Ekj; [|reflexivity]. apply N.eqb_eq in Ekj. subst j. rewrite E in Ej. discriminate Ej.
  - rewrite xxget_xinsert. destruct (k =? j) eqn:Ekj.
    + apply N.eqb_eq in Ekj. subst j. rewrite E. reflexivity.
    + destruct (Xref.xget m j); reflexivity.
Qed.

Lemma xget_fold_new : forall (l m : Xref.xmap) j,
  Xref.xget (fold_left (fun m ke => xinsert_new m (fst ke) (snd ke)) l m) j =
  match Xref.xget m j with Some x => Some x | None => Xref.xget l j end.
Proof.
  induction l as [|[k e] l IH]; intros m j; cbn [fold_left fst snd].
  - destruct (Xref.xget m j); reflexivity.
  - rewrite IH, xget_xinsert_new. destruct (Xref.xget m j); [reflexivity|]. cbn [Xref.xget].
    destruct (k =? j); reflexivity.
Qed.

Fixpoint first_of (secs : list xref) (j : N) : option Xref.xentry :=
  match secs with
  | [] => None
  | s :: r => match Xref.xget (x_entries s) j with Some e => Some e | None => first_of r j end
  end.

Lemma xget_fold_merge : forall secs x j,
  Xref.xget (x_entries (fold_left xref_merge secs x)) j =
  match Xref.xget (x_entries x) j with Some e => Some e | None => first_of secs j end.
Proof.
  induction secs as [|s secs IH]; intros x j; cbn [fold_left first_of].
  - destruct (Xref.xget (x_entries x) j); reflexivity.
  - rewrite IH. unfold xref_merge at 1. cbn [x_entries]. rewrite xget_fold_new.
    destruct (Xref.xget (x_entries x) j); reflexivity.
Qed.

Lemma xinsert_new_sorted m k e : xincr 0 m -> xincr 0 (xinsert_new m k e).
Proof. intro H. unfold xinsert_new. destruct (Xref.xget m k); [exact H | apply xinsert_sorted; exact H]. Qed.

Lemma fold_new_sorted : forall (l m : Xref.xmap),
  xincr 0 m -> xincr 0 (fold_left (fun m ke => xinsert_new m (fst ke) (snd ke)) l m).
Proof. induction l as [|[k e] l IH]; intros m H; [exact H|]. cbn [fold_left fst snd]. apply IH. apply xinsert_new_sorted. exact H. Qed.

Lemma fold_merge_sorted : forall secs x, xincr 0 (x_entries x) -> xincr 0 (x_entries (fold_left xref_merge secs x)).
Proof.
  induction secs as [|s secs IH]; intros x H; [exact H|]. cbn [fold_left]. apply IH.
  unfold xref_merge. cbn [x_entries]. apply fold_new_sorted. exact H.
Qed.

Lemma fold_merge_type : forall secs x, x_type (fold_left xref_merge secs x) = x_type x.
Proof. induction secs as [|s secs IH]; intro x; [reflexivity|]. cbn [fold_left]. rewrite IH. reflexivity. Qed.

(* ---------- laying a sorted map over another ---------- *)
Definition xins (m : Xref.xmap) (ke : N * Xref.xentry) : Xref.xmap := Xref.xinsert m (fst ke) (snd ke).

Lemma fold_xins_sorted : forall (l m : Xref.xmap), xincr 0 m -> xincr 0 (fold_left xins l m).
Proof. induction l as [|[k e] l IH]; intros m H; [exact H|]. cbn [fold_left]. apply IH. apply xinsert_sorted. exact H. Qed.

Lemma xget_fold_xins : forall (l : Xref.xmap) lo m j, xincr lo l ->
  Xref.xget (fold_left xins l m) j = match Xref.xget l j with Some e => Some e | None => Xref.xget m j end.
Proof.
  induction l as [|[k e] l IH]; intros lo m j H; [reflexivity|]. cbn [xincr] in H. destruct H as [H1 H2].
  cbn [fold_left]. rewrite (IH (k + 1)) by exact H2. unfold xins at 1. cbn [fst snd]. rewrite xxget_xinsert. cbn [Xref.xget].
  destruct (k =? j) eqn:E; [|reflexivity]. apply N.eqb_eq in E. subst j.
  rewrite (xget_none_xincr l (k + 1) k H2) by lia. reflexivity.
Qed.

Lemma fold_xins_forall (P : N * Xref.xentry -> Prop) : forall (l m : Xref.xmap),
  Forall P l -> Forall P m -> Forall P (fold_left xins l m).
Proof.
  induction l as [|[k e] l IH]; intros m Hl Hm; [exact Hm|]. inversion Hl; subst. cbn [fold_left]. apply IH; [assumption|].
  apply xinsert_forall; assumption.
Qed.

(* the loader's merge (old sections added where the newer ones have nothing) = the new section laid over
   the merge of the old ones *)
Lemma merge_is_overlay x0' x0 secs :
  xincr 0 (x_entries x0') -> xincr 0 (x_entries (fold_left xref_merge secs x0)) ->
  x_entries (fold_left xref_merge (x0 :: secs) x0') =
  fold_left xins (x_entries x0') (x_entries (fold_left xref_merge secs x0)).
Proof.
  intros H1 H2. apply (xincr_ext _ _ 0).
  - apply fold_merge_sorted. exact H1.
  - apply fold_xins_sorted. exact H2.
  - intro j. rewrite xget_fold_merge. cbn [first_of]. rewrite (xget_fold_xins _ 0) by exact H1.
    rewrite xget_fold_merge. reflexivity.
Qed.

Definition xmap_max (m : Xref.xmap) : N := fold_left (fun a ke => N.max a (fst ke)) m 0.

Lemma fold_xmax_le : forall (m : Xref.xmap) a B,
  a <= B -> Forall (fun ke => fst ke <= B) m -> fold_left (fun a (ke : N * Xref.xentry) => N.max a (fst ke)) m a <= B.
Proof.
  induction m as [|ke m IH]; intros a B Ha Hf; [exact Ha|]. inversion Hf; subst. cbn [fold_left].
  apply IH; [apply N.max_lub; assumption | assumption].
Qed.

Lemma fold_xmax_ge0 : forall (m : Xref.xmap) a, a <= fold_left (fun a (ke : N * Xref.xentry) => N.max a (fst ke)) m a.
Proof.
  induction m as [|ke m IH]; intro a; cbn [fold_left]; [lia|]. eapply N.le_trans; [|apply IH]. lia.
Qed.

Lemma xmap_max_ge : forall (m : Xref.xmap) ke, In ke m -> fst ke <= xmap_max m.
Proof.
  unfold xmap_max. intros m. generalize 0. induction m as [|ke0 m IH]; intros a ke Hin; [contradiction|].
  cbn [fold_left]. destruct Hin as [->|Hin]; [|apply IH; exact Hin].
  eapply N.le_trans; [|apply fold_xmax_ge0]. lia.
Qed.

(* ====================================================================================== *)
(* the Prev chain                                                                          *)
(* ====================================================================================== *)
Inductive chain_lt (buf : bytes) : Z -> option obj -> list xref -> Prop :=
| clt_nil ub prev : (forall p, prev <> Some (OInt p)) -> chain_lt buf ub prev []
| clt_cons ub p px pt secs :
    (0 <= p < ub)%Z -> Z.to_N p <= Loader.blen buf ->
    xref_and_trailer buf (Z.to_N p) = SOk (px, pt) ->
    dict_get pt K_XRefStm = None ->          (* no hybrid-reference section in the chain *)
    chain_lt buf p (dict_get pt Xref.K_Prev) secs ->
    chain_lt buf ub (Some (OInt p)) (px :: secs).

Lemma chain_length buf ub prev secs : chain_lt buf ub prev secs -> (Z.of_nat (length secs) <= Z.max ub 0)%Z.
Proof. induction 1; cbn [length]; lia. Qed.

Lemma swap_remove_absent_get d k : dict_get d k = None -> dict_swap_remove d k = d.
Proof. intro H. unfold dict_swap_remove, dict_has. rewrite H. reflexivity. Qed.

Lemma existsb_seen p seen ub : (forall q, In q seen -> (ub <= q)%Z) -> (p < ub)%Z -> existsb (Z.eqb p) seen = false.
Proof.
  intros H Hp. induction seen as [|q seen IH]; [reflexivity|]. cbn [existsb].
  replace (p =? q)%Z with false by (symmetry; apply Z.eqb_neq; specialize (H q (or_introl eq_refl)); lia).
  apply IH. intros q' Hq'. apply H. right. exact Hq'.
Qed.

(* the loop over Prev follows the chain and merges its sections in order *)
Lemma prev_loop_chain buf ub prev secs : chain_lt buf ub prev secs ->
  forall fuel x t seen,
  (forall q, In q seen -> (ub <= q)%Z) -> (length secs <= fuel)%nat -> dict_get t K_XRefStm = None ->
  prev_loop fuel buf x t prev seen = SOk (fold_left xref_merge secs x, t).
Proof.
  induction 1 as [ub prev Hn | ub p px pt secs Hp Hb Hx Hps Hc IH]; intros fuel x t seen Hseen Hf Ht.
  - cbn [fold_left]. destruct fuel; cbn [prev_loop]; destruct prev as [[]|]; try reflexivity; exfalso; eapply Hn; reflexivity.
  - destruct fuel as [|f]; [cbn [length] in Hf; lia|]. cbn [prev_loop].
    rewrite (existsb_seen p seen ub Hseen) by lia.
    replace (p <? 0)%Z with false by (symmetry; apply Z.ltb_ge; lia).
    replace (Loader.blen buf <? Z.to_N p) with false by (symmetry; apply N.ltb_ge; exact Hb).
    cbn [orb]. rewrite Ht. cbn [merge_xref_stream]. rewrite Hx, Hps. cbn [merge_xref_stream]. rewrite (swap_remove_absent_get t K_XRefStm Ht).
    cbn [fold_left]. apply IH.
    + intros q [Hq|Hq]; [lia|]. specialize (Hseen q Hq). lia.
    + cbn [length] in Hf. lia.
    + exact Ht.
Qed.

(* ====================================================================================== *)
(* objects at the offsets of a map                                                         *)
(* ====================================================================================== *)
Definition obj_at (buf : bytes) (ke : N * Xref.xentry) (io : oid * obj) : Prop :=
  exists off g, snd ke = Xref.XNormal off g /\ fst io = (fst ke, g) /\ off <= Loader.blen buf /\
    indirect_object (from off buf) None = IOk (fst io) (snd io) /\
    (forall d c, snd io = OStream d c -> has_type d K_ObjStm = false).

Lemma obj_at_numbers buf : forall es os lo, Forall2 (obj_at buf) es os -> xincr lo es ->
  Forall (fun io : oid * obj => lo <= fst (fst io)) os.
Proof.
  intros es os lo H. revert lo. induction H as [|[k e] [id o] es os Hat _ IH]; intros lo Hi; [constructor|].
  cbn [xincr] in Hi. destruct Hi as [H1 H2]. destruct Hat as [off [g [_ [Hid _]]]]. cbn [fst snd] in *. subst id.
  constructor; [cbn [fst]; exact H1|]. eapply Forall_impl; [|apply (IH (k + 1) H2)]. intros a Ha. cbn beta in *. lia.
Qed.

(* keys of the table = numbers of the objects *)
Lemma obj_at_keys buf es os : Forall2 (obj_at buf) es os -> map fst es = obj_numbers os.
Proof.
  induction 1 as [|[k e] [id o] es os [off [g [_ [Hid _]]]] _ IH]; [reflexivity|]. cbn [fst snd] in Hid. subst id.
  cbn [map fst obj_numbers]. f_equal. exact IH.
Qed.

Lemma obj_at_forall buf (P : N -> Prop) es os :
  Forall2 (obj_at buf) es os -> Forall (fun ke : N * Xref.xentry => P (fst ke)) es ->
  Forall (fun io : oid * obj => P (fst (fst io))) os.
Proof.
  induction 1 as [|[k e] [id o] es os [off [g [_ [Hid _]]]] _ IH]; intro H; [constructor|]. inversion H; subst.
  cbn [fst snd] in *. subst id. constructor; [cbn [fst]; assumption | apply IH; assumption].
Qed.

(* read_entries over such a map appends the objects in key order *)
Lemma read_entries_at buf : forall es os, Forall2 (obj_at buf) es os ->
  forall lo acc, xincr lo es -> Forall (fun io : oid * obj => fst (fst io) < lo) acc ->
  read_entries buf es acc = SOk (acc ++ os).
Proof.
  induction 1 as [|[k e] [id o] es os Hat _ IH]; intros lo acc Hi Hacc.
  - cbn. rewrite app_nil_r. reflexivity.
  - cbn [xincr] in Hi. destruct Hi as [H1 H2]. destruct Hat as [off [g [He [Hid [Hoff [Hio Hst]]]]]].
    cbn [fst snd] in *. subst e id.
    rewrite (read_entries_cons buf k off g es acc (k, g) o); [| apply N.ltb_ge; exact Hoff | exact Hio | exact Hst].
    rewrite insert_last.
    2:{ cbn [fst]. eapply Forall_impl; [|exact Hacc]. intros a Ha. cbn beta in *. exact (N.lt_le_trans _ _ _ Ha H1). }
    rewrite (IH (k + 1)); [rewrite <- app_assoc; reflexivity | exact H2 |].
    apply Forall_app. split; [eapply Forall_impl; [|exact Hacc]; intros a Ha; cbn beta in *; lia|].
    constructor; [cbn [fst]; lia | constructor].
Qed.

(* ---------- laying new objects over old ones ---------- *)
Definition oins (m : objmap) (io : oid * obj) : objmap := insert m (fst io) (snd io).

(* an update of object number k keeps the generation the table records for k *)
Definition gen_ok (entries : Xref.xmap) (io : oid * obj) : Prop :=
  forall off g0, Xref.xget entries (fst (fst io)) = Some (Xref.XNormal off g0) -> g0 = snd (fst io).

Lemma insert_step buf : forall es os, Forall2 (obj_at buf) es os ->
  forall k e id o, obj_at buf (k, e) (id, o) -> gen_ok es (id, o) ->
  Forall2 (obj_at buf) (Xref.xinsert es k e) (insert os id o).
Proof.
  induction 1 as [|[k0 e0] [id0 o0] es os Hat0 Hrest IH]; intros k e id o Hat Hg.
  - cbn [Xref.xinsert insert]. constructor; [exact Hat | constructor].
  - pose proof Hat0 as Hat0'. pose proof Hat as Hat'.
    destruct Hat0 as [off0 [g0 [He0 [Hid0 _]]]]. destruct Hat as [off [g [He [Hid _]]]].
    cbn [fst snd] in *. subst e0 id0 e id.
    cbn [Xref.xinsert insert]. unfold oid_eqb, oid_ltb. cbn [fst snd].
    destruct (k0 =? k) eqn:E1.
    + apply N.eqb_eq in E1. subst k0.
      assert (g0 = g).
      { apply (Hg off0 g0). cbn [fst Xref.xget]. rewrite N.eqb_refl. reflexivity. }
      subst g0. rewrite N.eqb_refl. cbn [andb]. constructor; [exact Hat' | exact Hrest].
    + cbn [andb]. apply N.eqb_neq in E1. destruct (k <? k0) eqn:E2.
      * cbn [orb]. constructor; [exact Hat' | constructor; [exact Hat0' | exact Hrest]].
      * replace (k =? k0) with false by (symmetry; apply N.eqb_neq; lia). cbn [andb orb].
        constructor; [exact Hat0'|]. apply IH; [exact Hat'|].
        intros off1 g1 Hx. apply (Hg off1 g1). cbn [fst Xref.xget] in *.
        replace (k0 =? k) with false by (symmetry; apply N.eqb_neq; lia). exact Hx.
Qed.

Lemma overlay_step buf : forall nes nos, Forall2 (obj_at buf) nes nos ->
  forall lo es os, xincr lo nes -> Forall2 (obj_at buf) es os -> Forall (gen_ok es) nos ->
  Forall2 (obj_at buf) (fold_left xins nes es) (fold_left oins nos os).
Proof.
  induction 1 as [|[k e] [id o] nes nos Hat Hrest IH]; intros lo es os Hi Hold Hg; [exact Hold|].
  cbn [xincr] in Hi. destruct Hi as [H1 H2]. inversion Hg as [|? ? Hg1 Hg2]; subst.
  cbn [fold_left]. unfold xins at 2, oins at 2. cbn [fst snd].
  apply (IH (k + 1)); [exact H2 | apply insert_step; assumption |].
  pose proof (obj_at_numbers buf nes nos (k + 1) Hrest H2) as Hnum.
  rewrite Forall_forall in *. intros io Hin off1 g1 Hx. specialize (Hnum io Hin). cbn beta in Hnum.
  rewrite xxget_xinsert in Hx. replace (k =? fst (fst io)) with false in Hx by (symmetry; apply N.eqb_neq; lia).
  apply (Hg2 io Hin off1 g1 Hx).
Qed.

(* the hypothesis in terms of identifiers: the new identifier is one of the old identifiers, or its number is new *)
Lemma xget_in_sorted : forall (m : Xref.xmap) lo k e, xincr lo m -> In (k, e) m -> Xref.xget m k = Some e.
Proof.
  induction m as [|[k0 e0] m IH]; intros lo k e Hi Hin; [contradiction|]. cbn [xincr] in Hi. destruct Hi as [H1 H2].
  cbn [Xref.xget]. destruct Hin as [Hin|Hin].
  - inversion Hin; subst. rewrite N.eqb_refl. reflexivity.
  - destruct (k0 =? k) eqn:E.
    + apply N.eqb_eq in E. subst k0. pose proof (IH (k + 1) k e H2 Hin) as Hx.
      rewrite (xget_none_xincr m (k + 1) k H2) in Hx by lia. discriminate Hx.
    + apply (IH (k0 + 1)); assumption.
Qed.

Lemma xget_keys : forall (m : Xref.xmap) k e, Xref.xget m k = Some e -> In k (map fst m).
Proof.
  induction m as [|[k0 e0] m IH]; intros k e H; [discriminate H|]. cbn [Xref.xget] in H. cbn [map fst].
  destruct (k0 =? k) eqn:E; [left; apply N.eqb_eq; exact E | right; eapply IH; exact H].
Qed.

Lemma ids_gen_ok buf es os io lo :
  Forall2 (obj_at buf) es os -> xincr lo es ->
  (In (fst io) (map fst os) \/ ~ In (fst (fst io)) (map fst es)) -> gen_ok es io.
Proof.
  intros H2 Hi [Hin|Hnot] off g0 Hx.
  - apply in_map_iff in Hin as [[id o] [Eid Hin]]. cbn [fst] in Eid. subst id.
    assert (Hex : exists ke, In ke es /\ obj_at buf ke (fst io, o)).
    { clear - H2 Hin. induction H2 as [|ke x es os Hat _ IH]; [contradiction|]. destruct Hin as [Hin|Hin].
      - subst x. exists ke. split; [left; reflexivity | exact Hat].
      - destruct (IH Hin) as [ke' [K1 K2]]. exists ke'. split; [right; exact K1 | exact K2]. }
    destruct Hex as [[k e] [Hke [off' [g' [He [Hid _]]]]]]. cbn [fst snd] in *. subst e.
    rewrite Hid in *. cbn [fst snd] in *.
    rewrite (xget_in_sorted es lo k _ Hi Hke) in Hx. inversion Hx; subst. reflexivity.
  - exfalso. apply Hnot. eapply xget_keys. exact Hx.
Qed.

(* ====================================================================================== *)
(* the invariant                                                                           *)
(* ====================================================================================== *)
Record good_file (F v m : bytes) (xs : N) (xt : xtype) (entries : Xref.xmap) (t : dict) (objs : objmap) : Prop := {
  gf_head : exists body, F = bs "%PDF-" ++ v ++ x0a :: x25 :: m ++ x0a :: body;
  gf_v_eol : no_eol v;
  gf_v_utf8 : utf8_decode v <> None;
  gf_mark : binary_mark_ok m = true;
  gf_tail : exists front, F = front ++ startxref_bytes xs /\ xs <= Loader.blen front /\ 25 < Loader.blen front /\ xs < 10 ^ 14;
  gf_chain : exists x0 t0 secs,
      x_entries (fold_left xref_merge secs x0) = entries /\ x_type x0 = xt /\ dict_swap_remove t0 Xref.K_Prev = t /\
      dict_get t0 K_XRefStm = None /\
      forall rest, xref_and_trailer (F ++ rest) xs = SOk (x0, t0) /\
                   chain_lt (F ++ rest) (Z.of_N xs) (dict_get t0 Xref.K_Prev) secs;
  gf_no_stm : dict_get t K_XRefStm = None;
  gf_no_enc : dict_has t Loader.K_Encrypt = false;
  gf_sorted : xincr 0 entries;
  gf_keys : Forall (fun ke => fst ke < u32_max) entries;
  gf_objs : forall rest, Forall2 (obj_at (F ++ rest)) entries objs;
}.

Definition loaded (v m : bytes) (entries : Xref.xmap) (t : dict) (objs : objmap) : doc :=
  {| d_version := v; d_binary_mark := m; d_trailer := t; d_objects := objs; d_max_id := xmap_max entries |}.

(* THEOREM A *)
Theorem good_file_loads F v m xs xt entries t objs :
  good_file F v m xs xt entries t objs -> load F = LOk (loaded v m entries t objs) xt.
Proof.
  intros [[body Eh] Hve Hvu Hm [front [Et [Hxs [Hfr Hdig]]]] [x0 [t0 [secs [Hent [Hty [Ht [Hstm0 Hch]]]]]]] Hstm Henc Hsort Hkeys Hobjs].
  destruct (Hch []) as [Hxt Hchain]. specialize (Hobjs []). rewrite app_nil_r in *.
  unfold load.
  assert (Hoff : pdf_offset F = 0) by (rewrite Eh; apply pdf_offset_header).
  rewrite Hoff, from_0.
  assert (Hhead : header F = Some v) by (rewrite Eh; apply header_rt; assumption).
  rewrite Hhead.
  assert (Hmark : read_binary_mark F = m) by (rewrite Eh; apply binary_mark_rt; assumption).
  rewrite Hmark.
  assert (Hstart : get_xref_start F = Some xs) by (rewrite Et; apply get_xref_start_rt; assumption).
  rewrite Hstart, Hxt, Ht.
  assert (HlenF : xs <= Loader.blen F).
  { rewrite Et. unfold Loader.blen in *. rewrite app_length. lia. }
  rewrite (prev_loop_chain F (Z.of_N xs) _ secs Hchain).
  - assert (Hmax : xref_max_id (fold_left xref_merge secs x0) = xmap_max entries).
    { unfold xref_max_id, xmap_max. rewrite Hent. reflexivity. }
    rewrite Hmax.
    assert (Hle : xmap_max entries < u32_max).
    { unfold xmap_max. destruct entries as [|ke0 es0]; [cbn; unfold u32_max; lia|].
      assert (H : fold_left (fun a (ke : N * Xref.xentry) => N.max a (fst ke)) (ke0 :: es0) 0 <= u32_max - 1).
      { apply fold_xmax_le; [lia|]. eapply Forall_impl; [|exact Hkeys]. intros a Ha. cbn beta in *. lia. }
      unfold u32_max in *. lia. }
    replace (u32_max <=? xmap_max entries) with false by (symmetry; apply N.leb_gt; exact Hle).
    rewrite Henc, Hent.
    rewrite (read_entries_at F entries objs Hobjs 0 []); [| exact Hsort | constructor].
    cbn [app]. rewrite fold_merge_type, Hty. reflexivity.
  - intros q [].
  - pose proof (chain_length _ _ _ _ Hchain) as Hl. unfold Loader.blen in HlenF. lia.
  - exact Hstm.
Qed.

(* ====================================================================================== *)
(* appending one revision                                                                  *)
(* ====================================================================================== *)
Definition overlay_objs (objs nobjs : objmap) : objmap := fold_left oins nobjs objs.

Theorem good_extend F v m xs xt entries t objs suffix front' xs' x0' t0' nobjs :
  good_file F v m xs xt entries t objs ->
  F ++ suffix = front' ++ startxref_bytes xs' ->
  xs' <= Loader.blen front' -> 25 < Loader.blen front' -> xs' < 10 ^ 14 -> Loader.blen F <= xs' ->
  (forall rest, xref_and_trailer ((F ++ suffix) ++ rest) xs' = SOk (x0', t0')) ->
  dict_get t0' Xref.K_Prev = Some (OInt (Z.of_N xs)) ->
  dict_get t0' K_XRefStm = None ->
  dict_get (dict_swap_remove t0' Xref.K_Prev) K_XRefStm = None ->
  dict_has (dict_swap_remove t0' Xref.K_Prev) Loader.K_Encrypt = false ->
  xincr 0 (x_entries x0') -> Forall (fun ke => fst ke < u32_max) (x_entries x0') ->
  (forall rest, Forall2 (obj_at ((F ++ suffix) ++ rest)) (x_entries x0') nobjs) ->
  Forall (gen_ok entries) nobjs ->
  good_file (F ++ suffix) v m xs' (x_type x0') (fold_left xins (x_entries x0') entries)
            (dict_swap_remove t0' Xref.K_Prev) (overlay_objs objs nobjs).
Proof.
  intros [[body Eh] Hve Hvu Hm [front [Et [Hxs [Hfr Hdig]]]] [x0 [t0 [secs [Hent [Hty [Ht [Hstm0 Hch]]]]]]] Hstm Henc Hsort Hkeys Hobjs]
         Etail Hxs' Hfr' Hdig' Hlen Hxt' Hprev Hstm0' Hstm' Henc' Hsort' Hkeys' Hnobjs Hgen.
  assert (HxsF : xs < Loader.blen F).
  { rewrite Et. unfold Loader.blen in *. rewrite app_length. unfold startxref_bytes. cbn [length]. lia. }
  constructor.
  - exists (body ++ suffix). rewrite Eh. repeat (rewrite <- app_assoc; cbn [app]). reflexivity.
  - exact Hve.
  - exact Hvu.
  - exact Hm.
  - exists front'. repeat split; assumption.
  - exists x0', t0', (x0 :: secs). split; [|split; [reflexivity | split; [reflexivity | split; [exact Hstm0'|]]]].
    + rewrite merge_is_overlay; [rewrite Hent; reflexivity | exact Hsort' | rewrite Hent; exact Hsort].
    + intro rest. split; [apply Hxt'|]. rewrite Hprev.
      destruct (Hch (suffix ++ rest)) as [Hx0 Hc0]. rewrite app_assoc in Hx0, Hc0.
      apply (clt_cons _ _ _ x0 t0).
      * lia.
      * rewrite N2Z.id. unfold Loader.blen in *. rewrite !app_length. lia.
      * rewrite N2Z.id. exact Hx0.
      * exact Hstm0.
      * exact Hc0.
  - exact Hstm'.
  - exact Henc'.
  - apply fold_xins_sorted. exact Hsort.
  - apply fold_xins_forall; assumption.
  - intro rest. unfold overlay_objs. apply (overlay_step _ _ _ (Hnobjs rest) 0); [exact Hsort' | | exact Hgen].
    rewrite <- app_assoc. apply Hobjs.
Qed.

Print Assumptions good_file_loads.
Print Assumptions good_extend.
