(* C07ResProofs.v -- IncrementalDocument::get_or_create_resources (Model/Incremental.v, the code after /repo e57537a)
   keeps what a page could use: evaluated on the document the update DENOTES ([cur_objects]: the objects of the new
   document over those of the previous documents) with the effective resources of Spec/AbstractDoc.v (nearest
   Resources entry up the Parent chain, flattened to category / name / value), every entry the page had before the
   call is an entry it has after it.  The code before the repair ([get_or_create_resources_v0]: an EMPTY own
   dictionary) loses the inherited entries: refuted on a concrete update.

   Method: a call either leaves every id of the denoted document as it was ([agree]; the copies made by
   opt_clone_object_to_new_document do not change what an id names when the copied object is not a bare reference
   object), or gives the page dictionary -- which has no Resources entry -- the entry Resources = the dictionary the
   walk of the CODE finds; that walk ([inherited_loop]) finds what the walk of the SPECIFICATION ([nearest_resources])
   finds, and dereferencing / flattening are monotone when one dictionary object gains an entry. *)
From LV Require Import Base.Bytes Model.Obj Model.DocQ Model.Save Model.Incremental Spec.AbstractDoc Gen.Consts Proofs.IncrementalProofs.

Local Open Scope N_scope.

(* ---------- small facts ---------- *)
Lemma oid_eqb_refl' a : oid_eqb a a = true.
Proof. apply oid_eqb_eq. reflexivity. Qed.

Lemma oid_eqb_sym' a b : oid_eqb a b = oid_eqb b a.
Proof.
  destruct (oid_eqb a b) eqn:E.
  - apply oid_eqb_eq in E. subst. symmetry. apply oid_eqb_refl'.
  - destruct (oid_eqb b a) eqn:E'; [|reflexivity]. apply oid_eqb_eq in E'. subst. rewrite oid_eqb_refl' in E. discriminate.
Qed.

Lemma lookup_insert' m id o id' :
  lookup (insert m id o) id' = if oid_eqb id id' then Some o else lookup m id'.
Proof.
  induction m as [|[i o0] m IH]; cbn [insert lookup].
  - reflexivity.
  - destruct (oid_eqb i id) eqn:E0.
    + apply oid_eqb_eq in E0. subst i. cbn [lookup]. destruct (oid_eqb id id'); reflexivity.
    + destruct (oid_ltb id i).
      * cbn [lookup]. destruct (oid_eqb id id'); reflexivity.
      * cbn [lookup]. destruct (oid_eqb i id') eqn:E1.
        -- apply oid_eqb_eq in E1. subst i. rewrite oid_eqb_sym', E0. reflexivity.
        -- exact IH.
Qed.

Lemma length_insert_ge m id o : (length m <= length (insert m id o))%nat.
Proof.
  induction m as [|[i o0] m IH]; cbn [insert length]; [lia|].
  destruct (oid_eqb i id); [cbn [length]; lia|].
  destruct (oid_ltb id i); cbn [length]; lia.
Qed.

(* lookup in new ++ prev = new_document.objects.get(id).or_else(|| prev_documents.objects.get(id)) *)
Lemma lookup_app (a b : objmap) id :
  lookup (a ++ b) id = match lookup a id with Some o => Some o | None => lookup b id end.
Proof.
  induction a as [|[i o] a IH]; cbn [app lookup]; [reflexivity|].
  destruct (oid_eqb i id); [reflexivity|exact IH].
Qed.

Definition nonref (o : obj) : Prop := match o with ORef _ _ => False | _ => True end.

Lemma deref_aux_nonref m f l o : nonref o -> deref_aux m f l o = Some (l, o).
Proof. intro H. destruct f, o; try reflexivity; contradiction. Qed.

Lemma dereference_nonref m o : nonref o -> dereference m o = Some (None, o).
Proof. intro H. unfold dereference. apply deref_aux_nonref. exact H. Qed.

Lemma get_object_nonref m id o : lookup m id = Some o -> nonref o -> get_object m id = Some o.
Proof. intros L H. unfold get_object. rewrite L, (dereference_nonref m o H). reflexivity. Qed.

Lemma dict_set_absent d k v : dict_get d k = None -> dict_set d k v = d ++ [(k, v)].
Proof.
  induction d as [|[k' v'] d IH]; cbn [dict_get dict_set app]; [reflexivity|].
  destruct (bytes_eqb k' k); [discriminate|]. intro H. rewrite (IH H). reflexivity.
Qed.

(* ---------- two object lists that name the same objects ---------- *)
Definition agree (m1 m2 : objmap) : Prop := forall id, lookup m1 id = lookup m2 id.

Lemma deref_aux_agree m1 m2 : agree m1 m2 -> forall f l o, deref_aux m1 f l o = deref_aux m2 f l o.
Proof.
  intro A. induction f as [|f IH]; intros l o; destruct o as [| | | | | | | | |i g]; cbn [deref_aux]; try reflexivity; rewrite (A (i, g)).
  - reflexivity.
  - destruct (lookup m2 (i, g)); [apply IH|reflexivity].
Qed.

Lemma dereference_agree m1 m2 o : agree m1 m2 -> dereference m1 o = dereference m2 o.
Proof. intro A. unfold dereference. apply deref_aux_agree. exact A. Qed.

Lemma get_dictionary_agree m1 m2 id : agree m1 m2 -> get_dictionary m1 id = get_dictionary m2 id.
Proof.
  intro A. unfold get_dictionary, get_object. rewrite (A id).
  destruct (lookup m2 id); [|reflexivity]. rewrite (dereference_agree m1 m2 _ A). reflexivity.
Qed.

Lemma inherited_loop_agree m1 m2 : agree m1 m2 -> forall k node, inherited_loop k m1 node = inherited_loop k m2 node.
Proof.
  intro A. induction k as [|k IH]; intro node; cbn [inherited_loop]; [reflexivity|].
  destruct (dict_get node K_Parent) as [[| | | | | | | | |i g]|]; try reflexivity.
  rewrite (get_dictionary_agree m1 m2 _ A). destruct (get_dictionary m2 (i, g)) as [pn|]; [|reflexivity].
  destruct (dict_get pn K_Resources) as [r|]; [|apply IH].
  rewrite (dereference_agree m1 m2 _ A). reflexivity.
Qed.

Lemma flatten_agree m1 m2 rd : agree m1 m2 -> flatten_resources m1 rd = flatten_resources m2 rd.
Proof.
  intro A. unfold flatten_resources. apply flat_map_ext. intro kv. rewrite (dereference_agree m1 m2 _ A). reflexivity.
Qed.

(* ---------- a node with a Resources entry of its own: the walk stops at once, whatever the fuel ---------- *)
Lemma nearest_own k m pd r : dict_get pd K_Resources = Some r -> nearest_resources k m pd = Some r.
Proof. intro H. destruct k; cbn [nearest_resources]; change S_Resources with K_Resources; rewrite H; reflexivity. Qed.

Lemma effective_own m page pd r :
  get_dictionary m page = Some pd -> dict_get pd K_Resources = Some r ->
  effective_resources m page = match dereference m r with
                               | Some (_, ODict rd) => Some (flatten_resources m rd)
                               | _ => None
                               end.
Proof. intros G H. unfold effective_resources. rewrite G, (nearest_own _ m pd r H). reflexivity. Qed.

(* ---------- the code's walk finds what the specification's walk finds ---------- *)
Lemma inherited_is_nearest m : forall k node r,
  dict_get node K_Resources = None -> nearest_resources k m node = Some r ->
  forall k', (k <= k')%nat ->
  inherited_loop k' m node = match dereference m r with Some (_, ODict rd) => Some rd | _ => None end.
Proof.
  induction k as [|k IH]; intros node r En Hn k' Hk; cbn [nearest_resources] in Hn; change S_Resources with K_Resources in Hn;
    rewrite En in Hn; [discriminate|].
  destruct k' as [|k']; [lia|]. cbn [inherited_loop].
  destruct (dict_get node K_Parent) as [[| | | | | | | | |i g]|]; try discriminate.
  destruct (get_dictionary m (i, g)) as [pn|]; [|discriminate].
  destruct (dict_get pn K_Resources) as [r0|] eqn:E0.
  - destruct k; cbn [nearest_resources] in Hn; change S_Resources with K_Resources in Hn; rewrite E0 in Hn; inversion Hn; subst; reflexivity.
  - apply (IH pn r E0 Hn). lia.
Qed.

(* ---------- one dictionary object gains entries: dereferencing and flattening only grow ---------- *)
Section Grow.
  Variables (m m' : objmap) (page : oid) (pd pd' : dict).
  Hypothesis Hm : lookup m page = Some (ODict pd).
  Hypothesis Hm' : forall k, lookup m' k = if oid_eqb page k then Some (ODict pd') else lookup m k.
  Hypothesis Hincl : incl pd pd'.

  Lemma deref_aux_grow : forall f l o l1 x,
    deref_aux m f l o = Some (l1, x) ->
    deref_aux m' f l o = Some (l1, x) \/ (x = ODict pd /\ deref_aux m' f l o = Some (l1, ODict pd')).
  Proof.
    induction f as [|f IH]; intros l o l1 x H; destruct o as [| | | | | | | | |i g]; cbn [deref_aux] in *; try (left; exact H).
    - destruct (lookup m (i, g)); discriminate.
    - rewrite Hm'. destruct (oid_eqb page (i, g)) eqn:E.
      + apply oid_eqb_eq in E. rewrite <- E in H. rewrite Hm in H.
        change (deref_aux m f (Some page) (ODict pd) = Some (l1, x)) in H.
        rewrite (deref_aux_nonref m f (Some page) (ODict pd) I) in H. inversion H; subst.
        right. split; [reflexivity|]. apply deref_aux_nonref. exact I.
      + destruct (lookup m (i, g)); [apply IH; exact H|discriminate].
  Qed.

  Lemma flatten_grow rd : incl (flatten_resources m rd) (flatten_resources m' rd).
  Proof.
    intros e He. unfold flatten_resources in *. apply in_flat_map in He. destruct He as [kv [Hkv He]].
    apply in_flat_map. exists kv. split; [exact Hkv|].
    unfold dereference in *.
    destruct (deref_aux m (N.to_nat DEREF_LIMIT) None (snd kv)) as [[l1 x]|] eqn:D; [|contradiction].
    destruct (deref_aux_grow _ _ _ _ _ D) as [D'|[Hx D']]; rewrite D'; [exact He|].
    subst x. apply in_map_iff in He. destruct He as [nx [<- Hnx]].
    apply in_map_iff. exists nx. split; [reflexivity|apply Hincl; exact Hnx].
  Qed.
End Grow.

(* ---------- opt_clone_object_to_new_document does not change what an id names, unless it copies through a bare
   reference object of the previous documents ---------- *)
Definition plain_in_prev (s : incdoc) (id : oid) : Prop :=
  lookup (new_objects s) id = None -> forall o, lookup (prev_objects s) id = Some o -> nonref o.

Lemma cur_set_new s m : cur_objects (set_new_objects s m) = m ++ prev_objects s.
Proof. reflexivity. Qed.

Lemma opt_clone_facts s id s' : opt_clone s id = Some s' ->
  prev_objects s' = prev_objects s /\
  (forall k, lookup (new_objects s') k = None -> lookup (new_objects s) k = None) /\
  (length (cur_objects s) <= length (cur_objects s'))%nat /\
  (plain_in_prev s id -> agree (cur_objects s') (cur_objects s)).
Proof.
  unfold opt_clone. destruct (lookup (new_objects s) id) as [o|] eqn:L.
  - intro H; inversion H; subst s'. repeat split; auto.
  - destruct (get_object (prev_objects s) id) as [o|] eqn:G; [|discriminate].
    intro H; inversion H; subst s'. unfold set_object. split; [reflexivity|]. split; [|split].
    + intros k. change (new_objects (set_new_objects s (insert (new_objects s) id o))) with (insert (new_objects s) id o).
      rewrite lookup_insert'. destruct (oid_eqb id k); [discriminate|auto].
    + rewrite cur_set_new. unfold cur_objects. rewrite !app_length.
      pose proof (length_insert_ge (new_objects s) id o). lia.
    + intros P k. rewrite cur_set_new. unfold cur_objects. rewrite !lookup_app, lookup_insert'.
      destruct (oid_eqb id k) eqn:E; [|reflexivity].
      apply oid_eqb_eq in E. subst k. rewrite L.
      unfold get_object in G. destruct (lookup (prev_objects s) id) as [o0|] eqn:L0; [|discriminate].
      rewrite (dereference_nonref _ o0 (P L o0 L0)) in G. cbn [option_map snd] in G. congruence.
Qed.

(* copying a dictionary object of the denoted document: it is then an object of the new document, nothing else moves *)
Lemma opt_clone_dict s id d : lookup (cur_objects s) id = Some (ODict d) ->
  exists s1, opt_clone s id = Some s1 /\ lookup (new_objects s1) id = Some (ODict d) /\
             agree (cur_objects s1) (cur_objects s).
Proof.
  intro L. unfold cur_objects in L. rewrite lookup_app in L. unfold opt_clone.
  destruct (lookup (new_objects s) id) as [o|] eqn:L1.
  - inversion L; subst o. exists s. split; [reflexivity|]. split; [exact L1|]. intro k. reflexivity.
  - rewrite (get_object_nonref _ id (ODict d) L I). eexists. split; [reflexivity|]. split.
    + unfold set_object. change (new_objects (set_new_objects s (insert (new_objects s) id (ODict d)))) with (insert (new_objects s) id (ODict d)).
      rewrite lookup_insert', oid_eqb_refl'. reflexivity.
    + intro k. unfold set_object. rewrite cur_set_new. unfold cur_objects. rewrite !lookup_app, lookup_insert'.
      destruct (oid_eqb id k) eqn:E; [|reflexivity]. apply oid_eqb_eq in E. subst k. rewrite L1. symmetry. exact L.
Qed.

(* ---------- the theorem ---------- *)
Definition res_target_plain (s : incdoc) (pd : dict) : Prop :=
  forall i g, dict_get pd K_Resources = Some (ORef i g) -> plain_in_prev s (i, g).

Lemma effective_agree_own m1 m2 page pd r :
  agree m1 m2 -> get_dictionary m2 page = Some pd -> dict_get pd K_Resources = Some r ->
  effective_resources m1 page = effective_resources m2 page.
Proof.
  intros A G H. rewrite (effective_own m2 page pd r G H).
  rewrite <- (get_dictionary_agree m1 m2 page A) in G. rewrite (effective_own m1 page pd r G H).
  rewrite (dereference_agree m1 m2 r A). destruct (dereference m2 r) as [[l [| | | | | | |rd| |]]|]; try reflexivity.
  rewrite (flatten_agree m1 m2 rd A). reflexivity.
Qed.

Theorem inc_resources_keep : forall s page pd,
  lookup (cur_objects s) page = Some (ODict pd) ->
  res_target_plain s pd ->
  forall l, effective_resources (cur_objects s) page = Some l ->
  exists l', effective_resources (cur_objects (fst (get_or_create_resources s page))) page = Some l' /\ incl l l'.
Proof.
  intros s page pd Hpage Hplain l Heff.
  assert (Gd : get_dictionary (cur_objects s) page = Some pd).
  { unfold get_dictionary. rewrite (get_object_nonref _ page (ODict pd) Hpage I). reflexivity. }
  destruct (opt_clone_dict s page pd Hpage) as [s1 [C1 [L1 A1]]].
  destruct (opt_clone_facts s page s1 C1) as [P1 [N1 [Len1 _]]].
  unfold get_or_create_resources, get_or_create_resources_with. rewrite C1.
  rewrite (get_object_nonref _ page (ODict pd) L1 I).
  assert (Same : forall s', agree (cur_objects s') (cur_objects s) -> forall r, dict_get pd K_Resources = Some r ->
                 exists l', effective_resources (cur_objects s') page = Some l' /\ incl l l').
  { intros s' A r Hr. exists l. split; [|apply incl_refl].
    rewrite (effective_agree_own _ _ page pd r A Gd Hr). exact Heff. }
  assert (Mut : get_object_mut_id (new_objects s1) page = Some page).
  { unfold get_object_mut_id. rewrite L1, (dereference_nonref _ (ODict pd) I). reflexivity. }
  unfold dict_has. destruct (dict_get pd K_Resources) as [r|] eqn:Hr.
  - (* the page has a Resources entry of its own: no id of the denoted document changes *)
    destruct r as [| | | | | | | | |i g];
      try (rewrite Mut, L1; unfold dict_has; rewrite Hr; cbn [fst]; apply (Same s1 A1 _ eq_refl)).
    destruct (opt_clone s1 (i, g)) as [s2|] eqn:C2; [|cbn [fst]; apply (Same s1 A1 _ eq_refl)].
    destruct (opt_clone_facts s1 (i, g) s2 C2) as [_ [_ [_ A2]]].
    assert (A : agree (cur_objects s2) (cur_objects s)).
    { intro k. rewrite (A2 (fun Hn o Ho => Hplain i g Hr (N1 _ Hn) o (eq_trans (f_equal (fun m => lookup m (i, g)) (eq_sym P1)) Ho)) k).
      apply A1. }
    destruct (get_object_mut_id (new_objects s2) (i, g)); cbn [fst]; apply (Same s2 A _ eq_refl).
  - (* the page only inherits: its own dictionary starts as the dictionary the walk finds *)
    rewrite Mut, L1. unfold dict_has. rewrite Hr. cbn [fst].
    set (init := initial_resources s1 pd).
    set (pd' := dict_set pd K_Resources (ODict init)).
    rewrite cur_set_new.
    assert (Lk : forall k, lookup (insert (new_objects s1) page (ODict pd') ++ prev_objects s1) k =
                           if oid_eqb page k then Some (ODict pd') else lookup (cur_objects s) k).
    { intro k. rewrite lookup_app, lookup_insert'. destruct (oid_eqb page k); [reflexivity|].
      rewrite <- (A1 k). unfold cur_objects. rewrite lookup_app. reflexivity. }
    assert (Lp : lookup (insert (new_objects s1) page (ODict pd') ++ prev_objects s1) page = Some (ODict pd')).
    { rewrite Lk, oid_eqb_refl'. reflexivity. }
    assert (G' : get_dictionary (insert (new_objects s1) page (ODict pd') ++ prev_objects s1) page = Some pd').
    { unfold get_dictionary. rewrite (get_object_nonref _ page (ODict pd') Lp I). reflexivity. }
    rewrite (effective_own _ page pd' (ODict init) G' (dict_get_set_same pd K_Resources (ODict init))).
    rewrite (dereference_nonref _ (ODict init) I).
    eexists. split; [reflexivity|].
    unfold effective_resources in Heff. rewrite Gd in Heff.
    destruct (nearest_resources (length (cur_objects s)) (cur_objects s) pd) as [r|] eqn:Hn.
    + destruct (dereference (cur_objects s) r) as [[lr [| | | | | | |rd| |]]|] eqn:Dr; try discriminate.
      inversion Heff; subst l.
      assert (Hinit : init = rd).
      { unfold init, initial_resources, inherited_resources.
        rewrite (inherited_loop_agree _ _ A1).
        rewrite (inherited_is_nearest (cur_objects s) _ pd r Hr Hn _ Len1), Dr. reflexivity. }
      rewrite Hinit.
      apply (flatten_grow (cur_objects s) _ page pd pd' Hpage Lk).
      unfold pd'. rewrite (dict_set_absent pd K_Resources _ Hr). apply incl_appl, incl_refl.
    + inversion Heff; subst l. intros e He. destruct He.
Qed.

(* ---------- a concrete update (the witness replayed on the crate, corpus/C07/repaired.sx): page 3 has no Resources of
   its own and inherits  /Font << /F1 5 0 R >>  from the Pages node 2 through the indirect object 4 ---------- *)
Definition ex_prev_objects : objmap :=
  [ ((1, 0), ODict [(K_Type, OName (bs "Catalog")); (K_Pages, ORef 2 0)]);
    ((2, 0), ODict [(K_Type, OName (bs "Pages")); (bs "Kids", OArr [ORef 3 0]); (bs "Count", OInt 1); (K_Resources, ORef 4 0)]);
    ((3, 0), ODict [(K_Type, OName (bs "Page")); (K_Parent, ORef 2 0)]);
    ((4, 0), ODict [(bs "Font", ODict [(bs "F1", ORef 5 0)])]);
    ((5, 0), ODict [(K_Type, OName (bs "Font"))]) ].
Definition ex_prev : xdoc :=
  {| xd_doc := {| d_version := bs "1.5"; d_binary_mark := []; d_trailer := [(bs "Root", ORef 1 0)];
                  d_objects := ex_prev_objects; d_max_id := 5 |};
     xd_start := 400; xd_type := XTable |}.
Definition ex_state : incdoc := create_from [] ex_prev.
Definition ex_page : oid := (3, 0).
Definition ex_page_dict : dict := [(K_Type, OName (bs "Page")); (K_Parent, ORef 2 0)].
Definition ex_font_row : bytes * bytes * obj := (bs "Font", bs "F1", ORef 5 0).

Lemma ex_hypotheses :
  lookup (cur_objects ex_state) ex_page = Some (ODict ex_page_dict) /\ res_target_plain ex_state ex_page_dict /\
  effective_resources (cur_objects ex_state) ex_page = Some [ex_font_row].
Proof.
  split; [vm_compute; reflexivity|]. split; [|vm_compute; reflexivity].
  intros i g H. vm_compute in H. discriminate.
Qed.

(* the repaired code: get_or_create_resources alone keeps the font; add_xobject on top of it adds the image *)
Lemma ex_repaired :
  effective_resources (cur_objects (fst (get_or_create_resources ex_state ex_page))) ex_page = Some [ex_font_row] /\
  effective_resources (cur_objects (fst (add_xobject ex_state ex_page (bs "Im1") (5, 0)))) ex_page =
    Some [ex_font_row; (bs "XObject", bs "Im1", ORef 5 0)].
Proof. split; vm_compute; reflexivity. Qed.

(* the code before the repair: the page's new own dictionary is empty and hides the inherited one *)
Theorem inc_resources_shadow_v0_refuted : exists s page pd l,
  lookup (cur_objects s) page = Some (ODict pd) /\ res_target_plain s pd /\
  effective_resources (cur_objects s) page = Some l /\ l <> [] /\
  effective_resources (cur_objects (fst (get_or_create_resources_v0 s page))) page = Some [].
Proof.
  exists ex_state, ex_page, ex_page_dict, [ex_font_row].
  destruct ex_hypotheses as [H1 [H2 H3]].
  split; [exact H1|]. split; [exact H2|]. split; [exact H3|]. split; [discriminate|vm_compute; reflexivity].
Qed.
