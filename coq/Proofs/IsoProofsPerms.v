(* IsoProofsPerms.v -- C06: Algorithm 13 and Algorithm 2.A in both directions.
   lopdf's validate_permissions compares bytes 0-2 of the decrypted Perms with P (the standard: bytes 0-3) and
   additionally byte 8 with EncryptMetadata; compute_file_encryption_key_r6 validates Perms on the user path only
   (the standard: Algorithm 2.A (f), both paths).  Exact characterisations of both, and the equivalence with the
   standard's algorithms on every Perms a conforming writer can have produced (byte 3 of the block of Algorithm 10 is
   0xFF for every conforming P: bits 25-32 are reserved ones). *)
From LV Require Import Base.Bytes Base.Sx Model.Obj Model.DocQ Gen.Crypto
  Model.Crypto.Word Model.Crypto.RC4 Model.Crypto.PKCS5 Model.Crypto.Handler
  Spec.Crypto.Iso Spec.Crypto.IsoConcrete Proofs.CryptoProofs Proofs.IsoProofsArith Proofs.IsoProofs.
Local Open Scope N_scope.

Definition TF (em : bool) : byte := if em then "T"%byte else "F"%byte.

Lemma byte3_sweep :
  below_nat 4096 (fun f => byte_eqb (nth 3 (le_bytes 4 (N.lor (N.land f 3900) 4294963392)) x00) xff) = true.
Proof. vm_compute. reflexivity. Qed.

(* byte 3 of a conforming P (bits 25-32) is 0xFF *)
Lemma conforming_byte3 p : conforming_P p = true -> nth 3 (le_bytes 4 (P_u32 p)) x00 = xff.
Proof.
  intro C. destruct (conforming_P_u32 p C) as (_ & _ & _ & _ & Hsplit). rewrite Hsplit.
  set (f := N.land (P_u32 p) 3900).
  assert (Hf : f < 4096) by (apply (land_small_mod _ 3900 12); reflexivity).
  pose proof (below_nat_spec _ _ byte3_sweep f Hf) as Hs. cbv beta in Hs. apply byte_eqb_eq in Hs.
  assert (Hff : N.land f 3900 = f) by (unfold f; rewrite <- N.land_assoc; reflexivity).
  rewrite Hff in Hs. exact Hs.
Qed.

Lemma firstn4_split (b : bytes) : (4 <= length b)%nat -> firstn 4 b = firstn 3 b ++ [nth 3 b x00].
Proof.
  destruct b as [|b0 [|b1 [|b2 [|b3 r]]]]; cbn [length]; intro H; try lia. reflexivity.
Qed.

Lemma le4_split x : le_bytes 4 x = firstn 3 (le_bytes 4 x) ++ [nth 3 (le_bytes 4 x) x00].
Proof. reflexivity. Qed.

Section Perms.
Variable P : prims.
Let I := iprims_of P.

Section V.
Variables (a : palg) (Pz : Z) (em : bool) (fek : bytes).
Hypothesis HPm : pa_perms a = perms_of_Z Pz.
Hypothesis HC : conforming_P Pz = true.
Hypothesis Hem : pa_encrypt_metadata a = em.
Let b := p_aes_dec P fek (pa_perms_enc a).

(* what lopdf's validate_permissions checks, exactly *)
Theorem validate_permissions_iff :
  validate_permissions P a fek = Ok tt <->
  (bytes_eqb (sub b 9 3) [x61; x64; x62] = true /\ firstn 3 b = firstn 3 (le_bytes 4 (P_u32 Pz)) /\ nth 8 b x00 = TF em).
Proof.
  unfold validate_permissions. cbv zeta. fold b. rewrite slice_eq. change (bs "adb") with [x61; x64; x62].
  destruct (p_value_conforming Pz HC) as [Hv _].
  rewrite HPm, Hv, Hem, le_bytes_eq.
  replace (firstn 3 (le_bytes 8 (P_u32 Pz + 4294967295 * 4294967296))) with (firstn 3 (le_bytes 4 (P_u32 Pz))).
  2:{ change 3%nat with (Nat.min 3 4). rewrite <- !firstn_firstn. rewrite le_bytes8_first4, le_bytes4_high. reflexivity. }
  fold (TF em).
  destruct (bytes_eqb (sub b 9 3) [x61; x64; x62]); cbn [negb].
  - destruct (bytes_eqb (firstn 3 b) (firstn 3 (le_bytes 4 (P_u32 Pz)))) eqn:E3; cbn [negb].
    + apply bytes_eqb_eq in E3. destruct (byte_eqb (nth 8 b x00) (TF em)) eqn:E8; cbn [negb].
      * apply byte_eqb_eq in E8. split; [intros _; repeat split; assumption|reflexivity].
      * split; [discriminate|]. intros (_ & _ & H8). apply byte_eqb_neq in E8. contradiction.
    + split; [discriminate|]. intros (_ & H3 & _). rewrite H3, bytes_eqb_refl in E3. discriminate.
  - split; [discriminate|]. intros (H & _). discriminate.
Qed.

(* what the standard's Algorithm 13 checks *)
Theorem alg13_iff :
  alg13 I Pz fek (pa_perms_enc a) = true <->
  (bytes_eqb (sub b 9 3) [x61; x64; x62] = true /\ firstn 4 b = le_bytes 4 (P_u32 Pz)).
Proof.
  unfold alg13. cbn [i_AES_D I iprims_of]. fold b. rewrite andb_true_iff, (bytes_eqb_eq (firstn 4 b)). reflexivity.
Qed.

(* Algorithm 13 in both directions: on a Perms whose decrypted block has the byte 3 every conforming writer puts
   there, lopdf accepts exactly what the standard accepts and whose byte 8 is the T/F of Algorithm 10 (c) *)
Theorem alg13_two_way : (4 <= length b)%nat -> nth 3 b x00 = xff ->
  (validate_permissions P a fek = Ok tt <-> alg13 I Pz fek (pa_perms_enc a) = true /\ nth 8 b x00 = TF em).
Proof.
  intros HL H3. rewrite validate_permissions_iff, alg13_iff.
  rewrite (firstn4_split b HL), H3, (le4_split (P_u32 Pz)), (conforming_byte3 Pz HC).
  split.
  - intros (A & B & C). rewrite B. repeat split; assumption.
  - intros ((A & B) & C). apply app_inv_tail in B. repeat split; assumption.
Qed.
End V.

(* the block of Algorithm 10 has that byte, for every conforming P, EncryptMetadata and filler *)
Lemma perms_block_shape Pz em rnd : conforming_P Pz = true ->
  length (perms_block Pz em rnd) = 16%nat /\ nth 3 (perms_block Pz em rnd) x00 = xff /\ nth 8 (perms_block Pz em rnd) x00 = TF em.
Proof.
  intro C. unfold perms_block.
  assert (L8 : length (le_bytes 8 (P_u32 Pz + 4294967295 * 4294967296)) = 8%nat) by apply le_bytes_length.
  repeat split.
  - rewrite !app_length, L8, firstn_length, app_length, repeat_length. cbn [length]. lia.
  - rewrite app_nth1 by lia.
    change (nth 3 (le_bytes 8 ?x) x00) with (nth 3 (firstn 4 (le_bytes 8 x)) x00).
    rewrite le_bytes8_first4, le_bytes4_high. apply conforming_byte3. exact C.
Qed.

(* ---------- Algorithm 2.A ---------- *)
Section A.
Variables (a : palg) (R : Z) (O U OE UE Perms : bytes) (Pz : Z) (em : bool).
Hypothesis M : matches_r6 a R O U OE UE Perms Pz em.

(* a password that is neither the owner nor the user password is rejected by both *)
Theorem alg2A_reject pw : alg12 I R O U pw = false -> alg11 I R U pw = false ->
  compute_fek_r6 P a pw = Err D_IncorrectPassword /\ alg2A I R O U OE UE Perms Pz pw = None.
Proof.
  intros H12 H11. unfold alg2A. rewrite H12, H11. split; [|reflexivity].
  unfold compute_fek_r6. cbv zeta. rewrite !(alg2B_refines P a R) by exact (m6_R _ _ _ _ _ _ _ _ _ M).
  rewrite (m6_O _ _ _ _ _ _ _ _ _ M), (m6_U _ _ _ _ _ _ _ _ _ M). rewrite trunc_pw_eq. unfold slice.
  unfold alg12, alg11, sub in H12, H11. fold I. rewrite H12, H11. reflexivity.
Qed.

(* the converse of C06_alg2A: a key lopdf retrieves is the key the standard retrieves, provided the Perms entry is
   valid for it by the standard's Algorithm 13 -- lopdf does not look at Perms on the owner path (Algorithm 2.A (f)
   does), and compares one byte less on the user path *)
Theorem alg2A_converse pw k :
  compute_fek_r6 P a pw = Ok k -> alg13 I Pz k Perms = true -> alg2A I R O U OE UE Perms Pz pw = Some k.
Proof.
  intros Hk H13. unfold compute_fek_r6 in Hk. cbv zeta in Hk.
  rewrite !(alg2B_refines P a R) in Hk by exact (m6_R _ _ _ _ _ _ _ _ _ M).
  rewrite (m6_O _ _ _ _ _ _ _ _ _ M), (m6_U _ _ _ _ _ _ _ _ _ M), (m6_OE _ _ _ _ _ _ _ _ _ M), (m6_UE _ _ _ _ _ _ _ _ _ M) in Hk.
  rewrite trunc_pw_eq in Hk. unfold slice in Hk.
  rewrite !cbc_decrypt_nopad_eq in Hk
    by (rewrite ?(m6_OE_len _ _ _ _ _ _ _ _ _ M), ?(m6_UE_len _ _ _ _ _ _ _ _ _ M); reflexivity).
  unfold alg2A, alg12, alg11, sub, aes_cbc_nopad_d. cbn [i_AES_D I iprims_of]. fold I in Hk.
  set (ko := cbc_d (length OE / 16) (p_aes_dec P (hash_r56 I R (trunc127 pw) (firstn 8 (skipn 40 O)) U)) zero_iv OE) in *.
  set (ku := cbc_d (length UE / 16) (p_aes_dec P (hash_r56 I R (trunc127 pw) (firstn 8 (skipn 40 U)) [])) zero_iv UE) in *.
  change (zeros 16) with zero_iv in Hk. fold ko ku in Hk.
  destruct (bytes_eqb (hash_r56 I R (trunc127 pw) (firstn 8 (skipn 32 O)) U) (firstn 32 O)).
  - assert (Ek : ko = k) by congruence. rewrite Ek, H13. reflexivity.
  - destruct (bytes_eqb (hash_r56 I R (trunc127 pw) (firstn 8 (skipn 32 U)) []) (firstn 32 U)); [|discriminate].
    destruct (validate_permissions P a ku); try discriminate. cbn [rbind] in Hk.
    assert (Ek : ku = k) by congruence. rewrite Ek, H13. reflexivity.
Qed.
End A.
End Perms.
