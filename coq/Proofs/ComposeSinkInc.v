(* ComposeSinkInc.v -- C19 "a later save of the same document to a healthy sink produces a valid file that loads to the
   same content", for IncrementalDocument::save_to, composed with C07's byte-level reload (Proofs/C07BytesHistory.v).
   C19_incremental_failed_save_residue says what a failed incremental save leaves in the IncrementalDocument: the previous
   bytes as they were, and (max_id, trailer) of new_document either untouched or exactly as a successful save leaves them
   (table: Size; stream: max_id + 1 and the cross-reference stream keys).  Here: new_document in either state is still in the
   domain [upd_dom] of C07's update step -- the mutated trailer is a well-formed direct dictionary, nests no deeper, and
   keeps Prev / no XRefStm / no Encrypt because the mutation touches none of these keys -- so the re-save is again a step
   of a [lopdf_history]: it succeeds, the file loads, and the loaded objects are the overlay of the new objects over the
   previous ones (plus, in the stream format, the cross-reference stream object), exactly as for a pristine incremental save
   up to the number of that cross-reference stream object.
   Proofs/ComposeSink.v's [trailer_ok] requires "no Prev" (C01's domain); the lemmas here are its set / remove lemmas without
   the clauses about particular keys ([trailer_fine]) plus a frame statement for every key the mutation does not touch
   ([trailer_keeps]); [trailer_ok_of_fine] gives the old ones back. *)
From LV Require Import Base.Bytes Base.Sx Model.Obj Model.DocQ Model.Writer Model.Parser Model.Save Model.Xref Model.Loader
  Model.Incremental Model.Utf Gen.Lex Gen.SaveFmt Gen.Inc Proofs.IncrementalProofs Proofs.LexProofs Proofs.RealProofs
  Proofs.ObjectRtProofs Proofs.SaveProofs Proofs.FilterProofsDict Spec.SaveSpec Proofs.LoadProofs Proofs.LoadProofsFile
  Proofs.LoadProofsXref Proofs.LoadProofsTable Proofs.LoadProofsAgain Proofs.LoadProofsStream Proofs.LoadProofsFull
  Proofs.StrictLoadProofs Proofs.StrictRevisionProofs Proofs.StrictIncrementalProofs Proofs.C07Bytes Proofs.C07BytesTable
  Proofs.C07BytesStream Proofs.C07BytesHistory Proofs.ComposeReload Proofs.ComposeSink.
From LV Require Model.Sink Model.SaveState Proofs.SinkProofs Proofs.SaveStateProofs Proofs.SaveStateIncProofs
  Proofs.SinkSaveProofs Proofs.C07BytesExample.

Local Open Scope N_scope.

(* ---------- a trailer update by dict_set / swap_remove: what holds whatever the keys are ---------- *)
(* a well-formed direct dictionary (unique keys, i64 integers, ...) outside the known class C01-deep-nesting *)
Definition trailer_fine (t : dict) : Prop :=
  obj_wf (ODict t) /\ (MAX_DEPTH <? Nat.max 2 (nest (ODict t)))%nat = false.
(* the keys write_trailer / write_cross_reference_stream write or remove *)
Definition touched : list bytes := [K_Type; SaveState.K_Size; SaveState.K_W; SaveState.K_Index; K_Filter; K_Length].
Definition trailer_keeps (t t' : dict) : Prop := forall k, ~ In k touched -> dict_get t' k = dict_get t k.

Lemma trailer_fine_set t k v : trailer_fine t -> obj_wf v -> (nest v <= 1)%nat -> trailer_fine (dict_set t k v).
Proof.
  intros [W Hn] Hv Hnv. inversion W as [| | | | | | |tr Wd Wf|]; subst. split.
  - constructor; [apply dict_set_wf; exact Wd | apply dict_set_forall; [exact Wf | exact Hv]].
  - apply Nat.ltb_ge. apply Nat.ltb_ge in Hn. apply nest_dict_S. apply nest_dict_S in Hn. destruct Hn as [H2 Hn].
    split; [exact H2|]. assert (nest_dict (dict_set t k v) <= MAX_DEPTH - 1)%nat; [|lia].
    apply nest_dict_bound. apply dict_set_forall; [apply nest_dict_bound; lia | cbn [snd]; lia].
Qed.

Lemma trailer_fine_remove t k : trailer_fine t -> trailer_fine (dict_swap_remove t k).
Proof.
  intros [W Hn]. inversion W as [| | | | | | |tr Wd Wf|]; subst.
  assert (Hin : forall kv, In kv (dict_swap_remove t k) -> In kv t).
  { intros [k' v'] H. apply (swap_remove_in t k k' v' Wd) in H. tauto. }
  split.
  - constructor; [apply swap_remove_wf; exact Wd|]. apply Forall_forall. intros kv H. rewrite Forall_forall in Wf. apply Wf, Hin, H.
  - apply Nat.ltb_ge. apply Nat.ltb_ge in Hn. apply nest_dict_S. apply nest_dict_S in Hn. destruct Hn as [H2 Hn].
    split; [exact H2|]. assert (nest_dict (dict_swap_remove t k) <= MAX_DEPTH - 1)%nat; [|lia].
    apply nest_dict_bound. apply Forall_forall. intros kv H.
    assert (G : Forall (fun kv => (nest (snd kv) <= MAX_DEPTH - 1)%nat) t) by (apply nest_dict_bound; lia).
    rewrite Forall_forall in G. apply G, Hin, H.
Qed.

Lemma trailer_fine_wf t : trailer_fine t -> dict_wf t.
Proof. intros [W _]. inversion W; assumption. Qed.

Lemma keeps_set t k v : In k touched -> trailer_keeps t (dict_set t k v).
Proof. intros Hk k' Hk'. apply SaveStateProofs.dict_get_set_other. intro E. subst k'. contradiction. Qed.

Lemma keeps_remove t k : dict_wf t -> In k touched -> trailer_keeps t (dict_swap_remove t k).
Proof. intros W Hk k' Hk'. apply FilterProofsDict.dict_get_swap_remove_other; [exact W|]. intro E. subst k'. contradiction. Qed.

Lemma keeps_trans a b c : trailer_keeps a b -> trailer_keeps b c -> trailer_keeps a c.
Proof. intros H1 H2 k Hk. rewrite (H2 k Hk). apply H1. exact Hk. Qed.

Lemma keeps_refl a : trailer_keeps a a.
Proof. intros k _. reflexivity. Qed.

Lemma in_touched (k : bytes) : existsb (bytes_eqb k) touched = true -> In k touched.
Proof. intro H. apply existsb_exists in H as [x [Hin E]]. apply bytes_eqb_eq in E. subst. exact Hin. Qed.

Lemma not_in_touched (k : bytes) : existsb (bytes_eqb k) touched = false -> ~ In k touched.
Proof.
  intros H Hin. assert (E : existsb (bytes_eqb k) touched = true); [|congruence].
  apply existsb_exists. exists k. split; [exact Hin | apply bytes_eqb_refl].
Qed.

Lemma keeps_has t t' k : trailer_keeps t t' -> ~ In k touched -> dict_has t' k = dict_has t k.
Proof. intros H Hk. unfold dict_has. rewrite (H k Hk). reflexivity. Qed.

(* ComposeSink.trailer_ok = trailer_fine + two absent keys, neither of them touched: the lemmas above generalise
   trailer_ok_set / trailer_ok_remove *)
Lemma trailer_ok_fine t : trailer_ok t <-> trailer_fine t /\ dict_has t Save.K_Prev = false /\ dict_has t K_Encrypt = false.
Proof. unfold trailer_ok, trailer_fine. tauto. Qed.

Lemma trailer_ok_of_fine t t' : trailer_ok t -> trailer_fine t' -> trailer_keeps t t' -> trailer_ok t'.
Proof.
  intros T F Kp. apply trailer_ok_fine in T as [_ [Hp He]]. apply trailer_ok_fine. split; [exact F|]. split.
  - rewrite (keeps_has t t' _ Kp) by (apply not_in_touched; reflexivity). exact Hp.
  - rewrite (keeps_has t t' _ Kp) by (apply not_in_touched; reflexivity). exact He.
Qed.

(* write_trailer: Size *)
Lemma mutate_table_fine st : trailer_fine (s_trailer st) -> s_max_id st + 2 < u32_mod ->
  trailer_fine (s_trailer (SaveState.mutate_table st)) /\ trailer_keeps (s_trailer st) (s_trailer (SaveState.mutate_table st)).
Proof.
  intros T Hm. unfold SaveState.mutate_table. cbn [s_trailer]. split.
  - apply trailer_fine_set; [exact T | | cbn; lia]. constructor. apply in_i64_N. unfold u32_mod in Hm. lia.
  - apply keeps_set. apply in_touched. reflexivity.
Qed.

(* write_cross_reference_stream: max_id + 1, Type Size W Index (Filter removed) Length -- for ANY recorded ids *)
Lemma mutate_stream_fine ids st : trailer_fine (s_trailer st) -> s_max_id st + 3 < u32_mod ->
  trailer_fine (s_trailer (SaveState.mutate_stream ids st)) /\
  trailer_keeps (s_trailer st) (s_trailer (SaveState.mutate_stream ids st)) /\
  s_max_id (SaveState.mutate_stream ids st) = s_max_id st + 1.
Proof.
  intros T Hm. unfold SaveState.mutate_stream. cbv zeta. cbn [s_trailer s_max_id].
  set (m := s_max_id st + 1).
  set (present := fun i => existsb (N.eqb i) ids || (i =? m)).
  set (secs := SaveState.xref_sections (N.to_nat m) present 1 (0, 0)).
  assert (Hsecs : Forall (fun s : N * N => fst s <= m + 1 /\ snd s <= m + 1) secs).
  { apply xref_sections_bound; cbn [fst snd]; lia. }
  assert (Hent : SaveState.entries_of secs <= m).
  { pose proof (xref_sections_entries (N.to_nat m) present 1 (0, 0)) as H. fold secs in H. cbn [snd] in H. lia. }
  assert (Hm62 : m + 1 < 2 ^ 62) by (unfold u32_mod in Hm; subst m; lia).
  destruct (index_of_wf secs (m + 1) Hm62 Hsecs) as [Wi Ni].
  set (t1 := dict_set (s_trailer st) K_Type (OName SaveState.K_XRef)).
  set (t2 := dict_set t1 SaveState.K_Size (OInt (Z.of_N (m + 1)))).
  set (t3 := dict_set t2 SaveState.K_W (OArr [OInt 1; OInt 4; OInt 2])).
  set (t4 := dict_set t3 SaveState.K_Index (SaveState.index_of secs)).
  set (t5 := dict_swap_remove t4 K_Filter).
  assert (T1 : trailer_fine t1) by (apply trailer_fine_set; [exact T | constructor | cbn; lia]).
  assert (T2 : trailer_fine t2).
  { apply trailer_fine_set; [exact T1 | | cbn; lia]. constructor. apply in_i64_N. lia. }
  assert (T3 : trailer_fine t3).
  { apply trailer_fine_set; [exact T2 | | cbn; lia]. constructor. repeat constructor. }
  assert (T4 : trailer_fine t4) by (apply trailer_fine_set; [exact T3 | exact Wi | exact Ni]).
  assert (T5 : trailer_fine t5) by (apply trailer_fine_remove; exact T4).
  split; [|split; [|reflexivity]].
  - apply trailer_fine_set; [exact T5 | | cbn; lia]. constructor. apply in_i64_N. unfold u32_mod in Hm. lia.
  - eapply keeps_trans; [|apply keeps_set; apply in_touched; reflexivity].
    eapply keeps_trans; [|apply keeps_remove; [apply trailer_fine_wf; exact T4 | apply in_touched; reflexivity]].
    eapply keeps_trans; [|apply keeps_set; apply in_touched; reflexivity].
    eapply keeps_trans; [|apply keeps_set; apply in_touched; reflexivity].
    eapply keeps_trans; [|apply keeps_set; apply in_touched; reflexivity].
    apply keeps_set. apply in_touched. reflexivity.
Qed.

(* ---------- the IncrementalDocument of Model/Incremental.v and the state of Model/SaveState.v ---------- *)
(* the format of an incremental save is the PREVIOUS document's cross_reference_type *)
Definition mode_of (fmt : xref_type) : SaveState.xmode :=
  match fmt with XTable => SaveState.XTable | XStream => SaveState.XStream end.
Definition inc_state_of (s : incdoc) : SaveState.istate :=
  {| SaveState.is_prev := i_bytes s; SaveState.is_new := state_of (xd_doc (i_new s)) |}.
(* the IncrementalDocument after a save: bytes_documents, prev_documents and version, mark, objects of new_document as
   they were; (max_id, trailer) of new_document = the state *)
Definition with_inc_state (s : incdoc) (st : sstate) : incdoc :=
  {| i_bytes := i_bytes s; i_prev := i_prev s;
     i_new := {| xd_doc := with_state (xd_doc (i_new s)) st; xd_start := xd_start (i_new s); xd_type := xd_type (i_new s) |} |}.

Lemma with_state_same d : with_state d (state_of d) = d.
Proof. destruct d; reflexivity. Qed.

Lemma with_inc_state_same s : with_inc_state s (state_of (xd_doc (i_new s))) = s.
Proof. destruct s as [b p [nd xs xt]]. unfold with_inc_state. cbn [i_bytes i_prev i_new xd_doc xd_start xd_type]. rewrite with_state_same. reflexivity. Qed.

(* the residue of C19_incremental_failed_save_residue as a predicate on new_document's state: no raise in between *)
Definition inc_residue (mode : SaveState.xmode) (ids : list N) (nd : doc) (st' : sstate) : Prop :=
  st' = state_of nd \/ st' = SaveState.mutate mode ids (state_of nd).
(* one spare object number when the format is the stream format (a save that reached the cross-reference stream has
   consumed one; [rev_dom] keeps max_id + 2 < 2^32 for the re-save) *)
Definition inc_fits (mode : SaveState.xmode) (nd : doc) : Prop :=
  match mode with SaveState.XTable => True | SaveState.XStream => d_max_id nd + 3 < u32_mod end.

Lemma upd_dom_fine xs nd : upd_dom xs nd -> trailer_fine (d_trailer nd).
Proof.
  intro U. split; [apply (rd_trailer nd (ud_rev _ _ U))|].
  pose proof (ud_deep _ _ U) as K. unfold known_deep in K. apply orb_false_iff in K as [_ K]. exact K.
Qed.

(* C07's domain of an update survives a change of (max_id, trailer) that keeps the trailer fine, keeps the untouched
   keys and does not lower max_id *)
Lemma upd_dom_with_state xs nd st :
  upd_dom xs nd -> trailer_fine (s_trailer st) -> trailer_keeps (d_trailer nd) (s_trailer st) ->
  d_max_id nd <= s_max_id st -> s_max_id st + 2 < u32_mod ->
  upd_dom xs (with_state nd st).
Proof.
  intros [[Hm Hn Ho Ht] K Hmk Hp Hstm Henc] [W Hd] Kp Hle Hlt.
  constructor; cbn [with_state d_version d_binary_mark d_trailer d_objects d_max_id].
  - constructor; cbn [with_state d_version d_binary_mark d_trailer d_objects d_max_id]; [exact Hlt | exact Hn | | exact W].
    eapply Forall_impl; [|exact Ho]. intros io [H1 H2]. split; [lia | exact H2].
  - unfold known_deep in *. cbn [with_state d_objects d_trailer]. apply orb_false_iff in K as [K1 _].
    apply orb_false_iff. split; assumption.
  - exact Hmk.
  - rewrite (Kp Save.K_Prev) by (apply not_in_touched; reflexivity). exact Hp.
  - rewrite (Kp K_XRefStm) by (apply not_in_touched; reflexivity). exact Hstm.
  - rewrite (keeps_has _ _ Save.K_Encrypt Kp) by (apply not_in_touched; reflexivity). exact Henc.
Qed.

(* new_document as ANY incremental save (failed anywhere, or successful) leaves it is still in the domain of an update *)
Theorem inc_residue_upd_dom xs mode ids nd st' :
  upd_dom xs nd -> inc_fits mode nd -> inc_residue mode ids nd st' ->
  upd_dom xs (with_state nd st') /\
  d_max_id nd <= s_max_id st' /\ s_max_id st' <= d_max_id nd + 1 /\ (mode = SaveState.XTable -> s_max_id st' = d_max_id nd).
Proof.
  intros U Hfit Hres. pose proof (upd_dom_fine xs nd U) as T. pose proof (rd_max_id nd (ud_rev _ _ U)) as Hm.
  destruct Hres as [-> | ->].
  - rewrite with_state_same. cbn [state_of SinkSaveProofs.state_of s_max_id]. split; [exact U|]. repeat split; lia.
  - destruct mode; cbn [SaveState.mutate].
    + destruct (mutate_table_fine (state_of nd)) as [T1 Kp]; [exact T | exact Hm|].
      cbn [SaveState.mutate_table s_max_id SinkSaveProofs.state_of]. split; [|repeat split; lia].
      apply upd_dom_with_state; [exact U | exact T1 | exact Kp | |]; cbn [SaveState.mutate_table s_max_id SinkSaveProofs.state_of]; lia.
    + cbn [inc_fits] in Hfit.
      destruct (mutate_stream_fine ids (state_of nd)) as [T1 [Kp Emax]]; [exact T | exact Hfit|].
      cbn [SinkSaveProofs.state_of s_max_id] in Emax. rewrite Emax. split; [|repeat split; try lia; discriminate].
      apply upd_dom_with_state; [exact U | exact T1 | exact Kp | |]; rewrite Emax; lia.
Qed.

(* ---------- what the re-saved file loads to, compared with a pristine incremental save ---------- *)
Lemma xso_is_xref nd p : dict_wf (d_trailer nd) -> is_xref_stream (snd (xso nd p)) = true.
Proof.
  intro W. unfold xso. cbn [snd]. unfold is_xref_stream, has_type.
  rewrite dict_get_norm, str_dict_eq, xs_trailer_get by exact W. reflexivity.
Qed.

Lemma user_objects_app a b : user_objects (a ++ b) = user_objects a ++ user_objects b.
Proof. unfold user_objects. apply filter_app. Qed.

(* same objects of new_document, (max_id, trailer) possibly different: the loaded objects are the same overlay; in the
   stream format the cross-reference stream object at the end (number max_id + 1, dictionary with its own Size / Index)
   differs, and nothing else *)
Lemma step_objs_same_overlay fmt objs nd nd' p p' :
  d_objects nd' = d_objects nd -> dict_wf (d_trailer nd) -> dict_wf (d_trailer nd') ->
  user_objects (step_objs fmt objs nd' p') = user_objects (step_objs fmt objs nd p) /\
  (fmt = XTable -> step_objs fmt objs nd' p' = step_objs fmt objs nd p) /\
  (fmt = XStream ->
     step_objs fmt objs nd' p' = Incremental.overlay objs (norm_objects (d_objects nd)) ++ [xso nd' p'] /\
     step_objs fmt objs nd p = Incremental.overlay objs (norm_objects (d_objects nd)) ++ [xso nd p] /\
     fst (fst (xso nd' p')) = d_max_id nd' + 1).
Proof.
  intros Ho W W'. destruct fmt; cbn [step_objs]; rewrite Ho.
  - split; [reflexivity|]. split; [reflexivity | discriminate].
  - split.
    + rewrite !user_objects_app. f_equal. unfold user_objects. cbn [filter].
      rewrite (xso_is_xref nd p W), (xso_is_xref nd' p' W'). reflexivity.
    + split; [discriminate|]. intros _. repeat split; reflexivity.
Qed.

(* ---------- THE COMPOSITION ---------- *)
Section Resave.
  Variables (F : bytes) (xs : N) (fmt : xref_type) (objs : objmap) (pd : doc) (s : incdoc).
  Let nd := xd_doc (i_new s).
  (* C07's hypotheses on one update step (hist_update) *)
  Hypothesis Hhist : lopdf_history F xs fmt objs.
  Hypothesis Hload : load F = LOk pd (xtype_of fmt).
  Hypothesis Hbytes : i_bytes s = F.
  Hypothesis Hprev : i_prev s = {| xd_doc := pd; xd_start := xs; xd_type := fmt |}.
  Hypothesis Hdom : upd_dom xs nd.
  Hypothesis Hmax : d_max_id pd <= d_max_id nd.
  Hypothesis Hids : Forall (fun io : oid * obj => In (fst io) (map fst (d_objects pd)) \/ ~ In (fst (fst io)) (obj_numbers (d_objects pd)))
                           (d_objects nd).

  (* after whatever an incremental save (failed or not) left in new_document, a re-save succeeds, its file is again a
     step of the history -- so it loads, and can be updated again -- and what it loads to is the overlay a pristine
     incremental save loads to: identical in the table format; identical apart from the cross-reference stream object
     (the last element, number max_id' + 1) in the stream format, hence the same [user_objects] *)
  Theorem inc_resave_loads ids st' :
    inc_fits (mode_of fmt) nd -> inc_residue (mode_of fmt) ids nd st' ->
    let s' := with_inc_state s st' in
    let nd' := xd_doc (i_new s') in
    Save.blen (io_bytes (inc_save s')) < u32_mod ->
    io_status (inc_save s') = IncOk /\
    lopdf_history (io_bytes (inc_save s')) (io_start (inc_save s')) fmt (step_objs fmt objs nd' (Save.blen (F ++ inc_lines nd'))) /\
    (exists v m t mx,
       load (io_bytes (inc_save s')) =
       LOk {| d_version := v; d_binary_mark := m; d_trailer := t;
              d_objects := step_objs fmt objs nd' (Save.blen (F ++ inc_lines nd')); d_max_id := mx |} (xtype_of fmt)) /\
    user_objects (step_objs fmt objs nd' (Save.blen (F ++ inc_lines nd'))) =
    user_objects (step_objs fmt objs nd (Save.blen (F ++ inc_lines nd))) /\
    (fmt = XTable -> step_objs fmt objs nd' (Save.blen (F ++ inc_lines nd')) = step_objs fmt objs nd (Save.blen (F ++ inc_lines nd))) /\
    (fmt = XStream ->
       step_objs fmt objs nd' (Save.blen (F ++ inc_lines nd')) =
       Incremental.overlay objs (norm_objects (d_objects nd)) ++ [xso nd' (Save.blen (F ++ inc_lines nd'))] /\
       fst (fst (xso nd' (Save.blen (F ++ inc_lines nd')))) = d_max_id nd' + 1) /\
    d_max_id nd <= d_max_id nd' /\ d_max_id nd' <= d_max_id nd + 1.
  Proof.
    intros Hfit Hres s' nd' Hlen.
    destruct (inc_residue_upd_dom xs (mode_of fmt) ids nd st' Hdom Hfit Hres) as [U' [Hle [Hle1 _]]].
    assert (Hb' : i_bytes s' = F) by exact Hbytes.
    assert (Hp' : i_prev s' = {| xd_doc := pd; xd_start := xs; xd_type := fmt |}) by exact Hprev.
    assert (End' : nd' = with_state nd st') by reflexivity.
    assert (Hmax' : d_max_id pd <= d_max_id nd') by (rewrite End'; cbn [with_state d_max_id]; lia).
    assert (Hids' : Forall (fun io : oid * obj => In (fst io) (map fst (d_objects pd)) \/ ~ In (fst (fst io)) (obj_numbers (d_objects pd)))
                           (d_objects nd')) by exact Hids.
    assert (U'' : upd_dom xs nd') by (rewrite End'; exact U').
    pose proof (hist_update F xs fmt objs pd s' Hhist Hload Hb' Hp' U'' Hmax' Hlen Hids') as Hh'.
    split; [exact (history_update_ok F xs fmt objs pd s' Hhist Hb' Hp' U'' Hlen)|].
    split; [exact Hh'|].
    split; [exact (proj2 (history_loads _ _ _ _ Hh'))|].
    destruct (step_objs_same_overlay fmt objs nd nd' (Save.blen (F ++ inc_lines nd)) (Save.blen (F ++ inc_lines nd')))
      as [Hu [Ht Hs]];
      [reflexivity | apply (trailer_fine_wf _ (upd_dom_fine _ _ Hdom)) | apply (trailer_fine_wf _ (upd_dom_fine _ _ U''))|].
    split; [exact Hu|]. split; [exact Ht|]. split.
    - intro E. destruct (Hs E) as [H1 [_ H3]]. split; [exact H1 | exact H3].
    - rewrite End'. cbn [with_state d_max_id]. split; lia.
  Qed.

  (* IncrementalDocument::save_to with a sink that fails anywhere (or not at all), then save_to with a healthy sink.
     The format of both saves is the previous document's.  [ids], [pre], [post]: any. *)
  Theorem inc_resave_after_failure_loads wa : SinkProofs.wa_sound wa ->
    forall ids pre post sc r delivered ist',
      SaveState.save_inc_with wa (mode_of fmt) ids pre post (inc_state_of s) sc = (r, delivered, ist') ->
      inc_fits (mode_of fmt) nd ->
      let s' := with_inc_state s (SaveState.is_new ist') in
      let nd' := xd_doc (i_new s') in
      Save.blen (io_bytes (inc_save s')) < u32_mod ->
      SaveState.is_prev ist' = i_bytes s' /\ i_prev s' = i_prev s /\
      io_status (inc_save s') = IncOk /\
      lopdf_history (io_bytes (inc_save s')) (io_start (inc_save s')) fmt (step_objs fmt objs nd' (Save.blen (F ++ inc_lines nd'))) /\
      (exists v m t mx,
         load (io_bytes (inc_save s')) =
         LOk {| d_version := v; d_binary_mark := m; d_trailer := t;
                d_objects := step_objs fmt objs nd' (Save.blen (F ++ inc_lines nd')); d_max_id := mx |} (xtype_of fmt)) /\
      user_objects (step_objs fmt objs nd' (Save.blen (F ++ inc_lines nd'))) =
      user_objects (step_objs fmt objs nd (Save.blen (F ++ inc_lines nd))) /\
      (fmt = XTable -> step_objs fmt objs nd' (Save.blen (F ++ inc_lines nd')) = step_objs fmt objs nd (Save.blen (F ++ inc_lines nd))) /\
      (fmt = XStream ->
         step_objs fmt objs nd' (Save.blen (F ++ inc_lines nd')) =
         Incremental.overlay objs (norm_objects (d_objects nd)) ++ [xso nd' (Save.blen (F ++ inc_lines nd'))] /\
         fst (fst (xso nd' (Save.blen (F ++ inc_lines nd')))) = d_max_id nd' + 1) /\
      d_max_id nd <= d_max_id nd' /\ d_max_id nd' <= d_max_id nd + 1.
  Proof.
    intros Hwa ids pre post sc r delivered ist' Hsave Hfit s' nd' Hlen.
    destruct (SaveStateIncProofs.incremental_failed_save_residue wa Hwa _ _ _ _ _ _ _ _ _ Hsave) as [Hp [_ Hcase]].
    split; [exact Hp|]. split; [reflexivity|].
    apply (inc_resave_loads ids (SaveState.is_new ist') Hfit); [|exact Hlen].
    destruct Hcase as [[_ [E _]] | [_ E]]; rewrite E; [left | right]; reflexivity.
  Qed.
End Resave.

(* ---------- non-vacuity, computed: the stream-format update of Proofs/C07BytesExample.v ([ex_ss]: a two-object document saved
   with a cross-reference stream (object 3), loaded, object 1 replaced and object 4 added through the modelled API).  An
   incremental save_to whose sink answers Ok(0) inside the cross-reference stream object leaves max_id 4 -> 5 and the
   stream keys in new_document's trailer (Prev kept).  Every hypothesis of [inc_resave_after_failure_loads] holds; the
   re-saved file loads to objects 1 2 3 4 and the cross-reference stream object, now number 6 (a pristine save: 5). ---------- *)
Definition ex_inc_ids : list N := [1; 4].
Definition ex_inc_left : sstate := SaveState.mutate_stream ex_inc_ids (state_of (xd_doc (i_new C07BytesExample.ex_ss))).
Definition ex_inc_s' : incdoc := with_inc_state C07BytesExample.ex_ss ex_inc_left.

Theorem ex_inc_resave :
  let s := C07BytesExample.ex_ss in
  let F := C07BytesExample.ex_Fs in
  let objs := d_objects (reloaded XStream C07BytesExample.ex_d) in
  lopdf_history F (Save.blen (body_of C07BytesExample.ex_d)) XStream objs /\
  load F = LOk (reloaded XStream C07BytesExample.ex_d) XTStream /\
  upd_dom (Save.blen (body_of C07BytesExample.ex_d)) (xd_doc (i_new s)) /\
  inc_fits SaveState.XStream (xd_doc (i_new s)) /\
  SaveState.save_inc_with Sink.write_all SaveState.XStream ex_inc_ids [[x0a]; bs "%PDF-1.5"; bs "objects"] [bs "xrefstream"]
    (inc_state_of s) [Sink.Accept 1000; Sink.Accept 1; Sink.Accept 8; Sink.Accept 7; Sink.Accept 3; Sink.Zero]
    = (Sink.WErr Sink.EWriteZero, F ++ [x0a] ++ bs "%PDF-1.5objectsxre",
       {| SaveState.is_prev := F; SaveState.is_new := ex_inc_left |}) /\
  d_max_id (xd_doc (i_new s)) = 4 /\ d_max_id (xd_doc (i_new ex_inc_s')) = 5 /\
  dict_get (d_trailer (xd_doc (i_new ex_inc_s'))) Save.K_Prev = dict_get (d_trailer (xd_doc (i_new s))) Save.K_Prev /\
  dict_get (d_trailer (xd_doc (i_new ex_inc_s'))) SaveState.K_Size = Some (OInt 6) /\
  Save.blen (io_bytes (inc_save ex_inc_s')) < u32_mod /\
  io_status (inc_save ex_inc_s') = IncOk /\
  (exists d', load (io_bytes (inc_save ex_inc_s')) = LOk d' XTStream /\
              obj_numbers (d_objects d') = [1; 2; 3; 4; 6] /\
              lookup (d_objects d') (1, 0) = Some C07BytesExample.ex_cat2 /\
              lookup (d_objects d') (4, 0) = Some (OStr (bs "new") false) /\
              user_objects (d_objects d') =
              user_objects (step_objs XStream objs (xd_doc (i_new s)) (Save.blen (F ++ inc_lines (xd_doc (i_new s)))))) /\
  obj_numbers (step_objs XStream objs (xd_doc (i_new s)) (Save.blen (F ++ inc_lines (xd_doc (i_new s))))) = [1; 2; 3; 4; 5].
Proof.
  intros s F objs.
  assert (H1 := C07BytesExample.ex_d_savable).
  assert (H2 : known_deep C07BytesExample.ex_d = false) by (vm_compute; reflexivity).
  assert (H3 : small_file XStream C07BytesExample.ex_d) by (vm_compute; reflexivity).
  assert (H4 : dict_get (d_trailer C07BytesExample.ex_d) K_XRefStm = None) by reflexivity.
  pose proof (hist_save XStream C07BytesExample.ex_d H1 H2 H3 H4) as Hh.
  assert (Hl : load (so_bytes (save XStream C07BytesExample.ex_d)) = LOk (reloaded XStream C07BytesExample.ex_d) XTStream).
  { apply (load_save_gen XStream C07BytesExample.ex_d);
      [apply savable_written; exact H1 | rewrite known_deep_written by exact H1; exact H2 | exact H3]. }
  assert (End : xd_doc (i_new s) =
                {| d_version := INC_VERSION; d_binary_mark := INC_BINARY_MARK;
                   d_trailer := [(K_Root, ORef 1 0); (K_Type, OName K_XRef); (Save.K_Size, OInt 4); (Save.K_Prev, OInt 67)];
                   d_objects := [((1, 0), C07BytesExample.ex_cat2); ((4, 0), OStr (bs "new") false)];
                   d_max_id := 4 |}) by (vm_compute; reflexivity).
  assert (Hdom : upd_dom (Save.blen (body_of C07BytesExample.ex_d)) (xd_doc (i_new s))).
  { rewrite End. constructor; try (vm_compute; reflexivity).
    constructor; cbn [d_max_id d_objects d_trailer].
    - vm_compute. reflexivity.
    - cbn [obj_numbers map fst increasing]. repeat split; reflexivity.
    - apply Forall_cons; [|apply Forall_cons; [|apply Forall_nil]]; cbn [fst snd].
      + split; [vm_compute; discriminate|]. split; [vm_compute; discriminate|]. split; [|reflexivity].
        cbn [top_wf C07BytesExample.ex_cat2]. constructor; [repeat constructor; cbn; intuition discriminate|].
        constructor; [constructor|]. constructor; [|constructor]. cbn [snd]. constructor. reflexivity.
      + split; [vm_compute; discriminate|]. split; [vm_compute; discriminate|]. split; [|reflexivity]. constructor.
    - constructor; [repeat constructor; cbn; intuition discriminate|].
      constructor; [cbn [snd]; constructor; vm_compute; discriminate|].
      constructor; [cbn [snd]; constructor|].
      constructor; [cbn [snd]; constructor; reflexivity|].
      constructor; [cbn [snd]; constructor; reflexivity | constructor]. }
  assert (Hmx : d_max_id (reloaded XStream C07BytesExample.ex_d) <= d_max_id (xd_doc (i_new s))) by (vm_compute; discriminate).
  assert (Hids : Forall (fun io : oid * obj => In (fst io) (map fst (d_objects (reloaded XStream C07BytesExample.ex_d))) \/
                            ~ In (fst (fst io)) (obj_numbers (d_objects (reloaded XStream C07BytesExample.ex_d))))
                        (d_objects (xd_doc (i_new s)))).
  { rewrite End. cbn [d_objects].
    apply Forall_cons; [left; left; reflexivity|]. apply Forall_cons; [|apply Forall_nil].
    right. vm_compute. intros [H|[H|[H|[]]]]; discriminate H. }
  assert (Hfit : inc_fits SaveState.XStream (xd_doc (i_new s))) by (vm_compute; reflexivity).
  assert (Hlen : Save.blen (io_bytes (inc_save ex_inc_s')) < u32_mod) by (vm_compute; reflexivity).
  destruct (inc_resave_loads C07BytesExample.ex_Fs _ XStream _ (reloaded XStream C07BytesExample.ex_d) s Hh Hl eq_refl eq_refl
              Hdom Hmx Hids ex_inc_ids ex_inc_left Hfit (or_intror eq_refl) Hlen)
    as [Hst [_ [[v [m [t [mx Hload]]]] [Hu _]]]].
  split; [exact Hh|]. split; [exact Hl|]. split; [exact Hdom|]. split; [exact Hfit|].
  split; [vm_compute; reflexivity|]. split; [vm_compute; reflexivity|]. split; [vm_compute; reflexivity|].
  split; [vm_compute; reflexivity|]. split; [vm_compute; reflexivity|]. split; [exact Hlen|]. split; [exact Hst|].
  split; [|vm_compute; reflexivity].
  eexists. split; [exact Hload|]. cbn [d_objects]. split; [vm_compute; reflexivity|].
  split; [vm_compute; reflexivity|]. split; [vm_compute; reflexivity | exact Hu].
Qed.
