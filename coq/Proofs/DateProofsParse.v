(* Proofs/DateProofsParse.v -- C18, part 2: what datetime_string hands to the parsers, the parse
   patterns of the three back ends recompiled from Gen/DateFmt.v, one lemma per directive and
   back end (decimal-digit arithmetic, no enumeration of field values; the offset scanners of
   chrono and jiff by a sweep over the 2 879 offsets -23:59 .. +23:59), resolution of the parsed
   fields, and for each back end the five textual forms of the specification. *)
From LV Require Import Base.Bytes Gen.DateFmt Model.DateTime Spec.PdfDate Proofs.DateProofs.
Local Open Scope Z_scope.
Import PdfDate.

(* ---------- the text datetime_string hands to the parsers ---------- *)
Definition d2 (n : Z) : bytes := [dg (n / 10); dg (n mod 10)].
Definition d4 (n : Z) : bytes := [dg (n / 1000); dg (n / 100 mod 10); dg (n / 10 mod 10); dg (n mod 10)].
Definition sgn (m : Z) : byte := if m <? 0 then x2d else x2b.
Definition date_txt (f : civil) : bytes := d4 (cy f) ++ d2 (cmo f) ++ d2 (cd f).
Definition hm_txt (f : civil) : bytes := d2 (ch f) ++ d2 (cmi f).
Definition off_txt (m : Z) : bytes := sgn m :: d2 (Z.abs m / 60) ++ d2 (Z.abs m mod 60).

Lemma dts_app a b ta tb :
  datetime_string a = Some ta -> datetime_string b = Some tb -> datetime_string (a ++ b) = Some (ta ++ tb).
Proof.
  unfold datetime_string. intros Ha Hb.
  destruct (forallb _ (filter _ a)) eqn:Ea; [|discriminate].
  destruct (forallb _ (filter _ b)) eqn:Eb; [|discriminate].
  injection Ha as <-. injection Hb as <-.
  rewrite filter_app, forallb_app, Ea, Eb. reflexivity.
Qed.

Lemma dts_dg d : 0 <= d <= 9 -> datetime_string [dg d] = Some [dg d].
Proof. intro H. digit_split d H; vm_compute; reflexivity. Qed.

Lemma dts_d2 n : 0 <= n <= 99 -> datetime_string (digits 2 n) = Some (d2 n).
Proof.
  intro H. rewrite digits2_dg by exact H. unfold d2.
  apply (dts_app [_] [_] [_] [_]); apply dts_dg; zdiv.
Qed.

Lemma dts_d4 n : 0 <= n <= 9999 -> datetime_string (digits 4 n) = Some (d4 n).
Proof.
  intro H. rewrite digits4_dg by exact H. unfold d4.
  apply (dts_app [_] [_; _; _] [_] [_; _; _]); [apply dts_dg; zdiv|].
  apply (dts_app [_] [_; _] [_] [_; _]); [apply dts_dg; zdiv|].
  apply (dts_app [_] [_] [_] [_]); apply dts_dg; zdiv.
Qed.

Lemma dts_prefix : datetime_string prefix = Some [].
Proof. vm_compute. reflexivity. Qed.
Lemma dts_prefix_app s t : datetime_string s = Some t -> datetime_string (prefix ++ s) = Some t.
Proof. intro H. exact (dts_app prefix s [] t dts_prefix H). Qed.
Lemma dts_Z : datetime_string [x5a] = Some [x5a].
Proof. vm_compute. reflexivity. Qed.
Lemma dts_apos : datetime_string [x27] = Some [].
Proof. vm_compute. reflexivity. Qed.

Lemma dts_offset m : valid_offset m -> datetime_string (offset_part m) = Some (off_txt m).
Proof.
  intro H. unfold valid_offset in H. unfold offset_part, off_txt.
  change (?s :: ?a ++ [x27] ++ ?b ++ [x27]) with ([s] ++ a ++ [x27] ++ b ++ [x27]).
  change (sgn m :: ?a ++ ?b) with ([sgn m] ++ a ++ (b ++ [])).
  apply dts_app; [unfold sgn; destruct (m <? 0); vm_compute; reflexivity|].
  apply dts_app; [apply dts_d2; zdiv|].
  replace (d2 (Z.abs m mod 60) ++ []) with ([] ++ d2 (Z.abs m mod 60) ++ []) by reflexivity.
  apply dts_app; [exact dts_apos|].
  apply dts_app; [apply dts_d2; zdiv|exact dts_apos].
Qed.

Section Fields.
Variable f : civil.
Hypothesis Hv : valid (spec_of f).

Lemma valid_bounds : 1 <= cy f <= 9999 /\ 1 <= cmo f <= 12 /\ 1 <= cd f <= 31 /\ 0 <= ch f <= 23 /\ 0 <= cmi f <= 59 /\ 0 <= cs f <= 59.
Proof.
  destruct Hv as (Hy & Hmo & Hd & Hh & Hmi & Hs). cbn in Hy, Hmo, Hd, Hh, Hmi, Hs.
  assert (cd f <= 31).
  { pose proof (dim_spec (cy f) (cmo f) Hmo) as E. unfold dim in E.
    destruct (cmo f =? 2); [destruct (leap (cy f))|destruct ((cmo f =? 4) || (cmo f =? 6) || (cmo f =? 9) || (cmo f =? 11))]; lia. }
  lia.
Qed.

Lemma dts_date : datetime_string (date_part (spec_of f)) = Some (date_txt f).
Proof.
  pose proof valid_bounds as B. unfold date_part, date_txt. cbn [spec_of year month day].
  apply dts_app; [apply dts_d4; lia|]. apply dts_app; apply dts_d2; lia.
Qed.
Lemma dts_hm : datetime_string (hm_part (spec_of f)) = Some (hm_txt f).
Proof.
  pose proof valid_bounds as B. unfold hm_part, hm_txt. cbn [spec_of hour minute].
  apply dts_app; apply dts_d2; lia.
Qed.
Lemma dts_sec : datetime_string (digits 2 (second (spec_of f))) = Some (d2 (cs f)).
Proof. pose proof valid_bounds as B. cbn [spec_of second]. apply dts_d2; lia. Qed.

Lemma dts_print m : valid_offset m ->
  datetime_string (print (spec_of f) m) = Some (date_txt f ++ hm_txt f ++ d2 (cs f) ++ off_txt m).
Proof.
  intro Hm. unfold print. apply dts_prefix_app.
  apply dts_app; [exact dts_date|]. apply dts_app; [exact dts_hm|]. apply dts_app; [exact dts_sec|].
  apply dts_offset; exact Hm.
Qed.
Lemma dts_print_utc : datetime_string (print_utc (spec_of f)) = Some (date_txt f ++ hm_txt f ++ d2 (cs f) ++ [x5a]).
Proof.
  unfold print_utc. apply dts_prefix_app.
  apply dts_app; [exact dts_date|]. apply dts_app; [exact dts_hm|]. apply dts_app; [exact dts_sec|exact dts_Z].
Qed.
Lemma dts_print_minute m : valid_offset m ->
  datetime_string (print_minute (spec_of f) m) = Some (date_txt f ++ hm_txt f ++ off_txt m).
Proof.
  intro Hm. unfold print_minute. apply dts_prefix_app.
  apply dts_app; [exact dts_date|]. apply dts_app; [exact dts_hm|]. apply dts_offset; exact Hm.
Qed.
Lemma dts_print_minute_utc : datetime_string (print_minute_utc (spec_of f)) = Some (date_txt f ++ hm_txt f ++ [x5a]).
Proof.
  unfold print_minute_utc. apply dts_prefix_app.
  apply dts_app; [exact dts_date|]. apply dts_app; [exact dts_hm|exact dts_Z].
Qed.
Lemma dts_print_date : datetime_string (print_date (spec_of f)) = Some (date_txt f).
Proof. unfold print_date. apply dts_prefix_app. exact dts_date. Qed.
End Fields.

(* ---------- cascades over compiled patterns ---------- *)
Definition run_its (sem : item -> bytes -> parsed -> option (bytes * parsed)) (resolve : N -> parsed -> option (civil * Z))
           (st : N * list item) (s : bytes) : option (civil * Z) :=
  do sp <- run_items sem (snd st) s [];
  match fst sp with [] => resolve (fst st) (snd sp) | _ :: _ => None end.

Fixpoint cascade_its (run : N * list item -> bytes -> option (civil * Z)) (cs : list (N * list item)) (s : bytes) : option (civil * Z) :=
  match cs with
  | [] => None
  | c :: r => match run c s with Some v => Some v | None => cascade_its run r s end
  end.

Definition compiled (compile : bytes -> option (list item)) (steps : list (N * bytes)) : list (N * option (list item)) :=
  map (fun st => (fst st, compile (snd st))) steps.
Definition some_steps (cs : list (N * list item)) : list (N * option (list item)) := map (fun c => (fst c, Some (snd c))) cs.

Lemma cascade_compiled compile sem resolve steps cs s :
  compiled compile steps = some_steps cs ->
  cascade (run_step compile sem resolve) steps s = cascade_its (run_its sem resolve) cs s.
Proof.
  revert cs. induction steps as [|st steps IH]; intros [|c cs] H; try discriminate; [reflexivity|].
  cbn [compiled some_steps map] in H. injection H as H1 H2 H3.
  cbn [cascade cascade_its]. rewrite (IH cs H3).
  unfold run_step, run_its. rewrite H2, H1. cbn [obind]. reflexivity.
Qed.

Definition five : list item := [INum CYear; INum CMonth; INum CDay; INum CHour; INum CMinute].
Definition three : list item := [INum CYear; INum CMonth; INum CDay].
Definition six := strf_date_items.

Definition CHRONO_STEPS : list (N * list item) :=
  [(0%N, six ++ [IOff true 0]); (0%N, five ++ [IOff true 0]); (2%N, three)].
Definition JIFF_STEPS : list (N * list item) :=
  [(0%N, six ++ [IOff true 0]); (1%N, six ++ [ILit x5a]); (0%N, five ++ [IOff true 0]); (1%N, five ++ [ILit x5a]); (2%N, three)].
Definition TIME_STEPS : list (N * list item) :=
  [(0%N, six ++ [ITOffHour true; ITOffMin]); (1%N, six ++ [ILit x5a]); (0%N, five ++ [ITOffHour true; ITOffMin]);
   (1%N, five ++ [ILit x5a]); (2%N, three)].

(* the parse patterns of the three back ends, recompiled from Gen on every run *)
Lemma chrono_parse_compiled : compiled strf_items CHRONO_PARSE = some_steps CHRONO_STEPS.
Proof. vm_compute. reflexivity. Qed.
Lemma jiff_parse_compiled : compiled strf_items JIFF_PARSE = some_steps JIFF_STEPS.
Proof. vm_compute. reflexivity. Qed.
Lemma time_parse_compiled : compiled td_items TIME_PARSE = some_steps TIME_STEPS.
Proof. vm_compute. reflexivity. Qed.

Lemma parse_chrono_steps s : parse_chrono s = cascade_its (run_its chrono_sem chrono_resolve) CHRONO_STEPS s.
Proof. apply cascade_compiled. exact chrono_parse_compiled. Qed.
Lemma parse_jiff_steps s : parse_jiff s = cascade_its (run_its jiff_sem jiff_resolve) JIFF_STEPS s.
Proof. apply cascade_compiled. exact jiff_parse_compiled. Qed.
Lemma parse_time_steps s : parse_time s = cascade_its (run_its time_sem time_resolve) TIME_STEPS s.
Proof. apply cascade_compiled. exact time_parse_compiled. Qed.

(* ---------- field ranges ---------- *)
Definition comp_lo (c : comp) : Z := match c with CYear | CMonth | CDay => 1 | _ => 0 end.
Definition comp_hi (c : comp) : Z :=
  match c with CYear => 9999 | CMonth => 12 | CDay => 31 | CHour => 23 | CMinute => 59 | CSecond => 59 end.

Lemma take_digits_2 a b r : 0 <= a <= 9 -> 0 <= b <= 9 -> (forall c r', r = c :: r' -> True) ->
  take_digits 2 (dg a :: dg b :: r) = ([a; b], r).
Proof.
  intros Ha Hb _. cbn [take_digits]. rewrite !digit_val_dg by assumption.
  destruct r; reflexivity.
Qed.

Lemma dval2 n : 0 <= n <= 99 -> dval [n / 10; n mod 10] = n.
Proof. intro H. unfold dval. cbn [fold_left]. zdiv. Qed.
Lemma dval4 n : 0 <= n <= 9999 -> dval [n / 1000; n / 100 mod 10; n / 10 mod 10; n mod 10] = n.
Proof. intro H. unfold dval. cbn [fold_left]. zdiv. Qed.

(* ---------- chrono ---------- *)
Lemma chrono_num2 c n r P : c <> CYear -> comp_lo c <= n <= comp_hi c ->
  chrono_sem (INum c) (dg (n / 10) :: dg (n mod 10) :: r) P = Some (r, pset (ckey c) n P).
Proof.
  intros Hc Hn.
  assert (0 <= n <= 99) as H99 by (destruct c; try congruence; cbn in Hn; lia).
  assert (0 <= n / 10 <= 9 /\ 0 <= n mod 10 <= 9) as [Ha Hb] by zdiv.
  assert (chrono_num false 2 (dg (n / 10) :: dg (n mod 10) :: r) = Some (n, r)) as E.
  { unfold chrono_num. cbn [skip]. rewrite ws_char_dg by exact Ha. cbn [andb]. unfold chrono_number.
    rewrite take_digits_2 by auto. rewrite dval2 by exact H99.
    replace (n <=? I64_MAX) with true by (symmetry; apply Z.leb_le; unfold I64_MAX; lia). reflexivity. }
  destruct c; try congruence; cbn [chrono_sem chrono_spec]; rewrite E; cbn [obind fst snd];
    rewrite in_range_true by (cbn in Hn; lia); reflexivity.
Qed.

Lemma chrono_year n r P : 0 <= n <= 9999 ->
  chrono_sem (INum CYear) (dg (n / 1000) :: dg (n / 100 mod 10) :: dg (n / 10 mod 10) :: dg (n mod 10) :: r) P = Some (r, pset KY n P).
Proof.
  intro Hn.
  assert (0 <= n / 1000 <= 9 /\ 0 <= n / 100 mod 10 <= 9 /\ 0 <= n / 10 mod 10 <= 9 /\ 0 <= n mod 10 <= 9) as (H1 & H2 & H3 & H4) by zdiv.
  cbn [chrono_sem chrono_spec]. unfold chrono_num. cbn [skip]. rewrite ws_char_dg by exact H1.
  rewrite !is_b_dg by (auto; lia). cbn [andb]. unfold chrono_number. cbn [take_digits].
  rewrite !digit_val_dg by assumption.
  replace (take_digits 0 r) with (@nil Z, r) by (destruct r; reflexivity).
  rewrite dval4 by exact Hn.
  replace (n <=? I64_MAX) with true by (symmetry; apply Z.leb_le; unfold I64_MAX; lia).
  cbn [obind fst snd]. rewrite in_range_true by lia. reflexivity.
Qed.

Lemma chrono_num_nil c P : chrono_sem (INum c) [] P = None.
Proof. destruct c; reflexivity. Qed.
Lemma chrono_sec_Z r P : chrono_sem (INum CSecond) (x5a :: r) P = None.
Proof. reflexivity. Qed.
Lemma chrono_sec_sgn m r P : chrono_sem (INum CSecond) (sgn m :: r) P = None.
Proof. unfold sgn. destruct (m <? 0); reflexivity. Qed.
Lemma chrono_off_Z h P : chrono_sem (IOff true h) [x5a] P = Some ([], pset KOff 0 P).
Proof. reflexivity. Qed.

Definition off_parse_ok (m : Z) : bool :=
  (match chrono_tz true true (skip ws_char (off_txt m)) with Some (v, []) => v =? 60 * m | _ => false end) &&
  (match jiff_tz (off_txt m) with Some (v, []) => v =? 60 * m | _ => false end).
Lemma off_parse_sweep : zrange_forallb (- 1439) 1439 off_parse_ok = true.
Proof. vm_compute. reflexivity. Qed.

Lemma chrono_off_txt m h P : valid_offset m -> chrono_sem (IOff true h) (off_txt m) P = Some ([], pset KOff (60 * m) P).
Proof.
  intro H. pose proof (zrange_forallb_spec _ _ _ off_parse_sweep m H) as S. unfold off_parse_ok in S.
  apply andb_true_iff in S as [S _]. cbn [chrono_sem].
  destruct (chrono_tz true true (skip ws_char (off_txt m))) as [[v [|]]|]; try discriminate.
  apply Z.eqb_eq in S. subst v. reflexivity.
Qed.
Lemma jiff_off_txt m h P : valid_offset m -> jiff_sem (IOff h 0) (off_txt m) P = Some ([], pset KOff (60 * m) P).
Proof.
  intro H. pose proof (zrange_forallb_spec _ _ _ off_parse_sweep m H) as S. unfold off_parse_ok in S.
  apply andb_true_iff in S as [_ S]. cbn [jiff_sem].
  destruct (jiff_tz (off_txt m)) as [[v [|]]|]; try discriminate.
  apply Z.eqb_eq in S. subst v. reflexivity.
Qed.

(* ---------- jiff ---------- *)
Lemma jiff_num2 c n r P : c <> CYear -> comp_lo c <= n <= comp_hi c ->
  jiff_sem (INum c) (dg (n / 10) :: dg (n mod 10) :: r) P = Some (r, pset (ckey c) n P).
Proof.
  intros Hc Hn.
  assert (0 <= n <= 99) as H99 by (destruct c; try congruence; cbn in Hn; lia).
  assert (0 <= n / 10 <= 9 /\ 0 <= n mod 10 <= 9) as [Ha Hb] by zdiv.
  assert (jiff_number 2 (dg (n / 10) :: dg (n mod 10) :: r) = Some (n, r)) as E.
  { unfold jiff_number. cbn [skip]. rewrite ws_ascii_dg by exact Ha.
    rewrite take_digits_2 by auto. rewrite dval2 by exact H99. reflexivity. }
  destruct c; try congruence; cbn [jiff_sem jiff_spec]; rewrite E; cbn [obind fst snd];
    try (replace (n =? 60) with false by (symmetry; apply Z.eqb_neq; cbn in Hn; lia));
    try rewrite Z.mul_1_l; rewrite in_range_true by (cbn in Hn; lia); reflexivity.
Qed.

Lemma jiff_year n r P : 0 <= n <= 9999 ->
  jiff_sem (INum CYear) (dg (n / 1000) :: dg (n / 100 mod 10) :: dg (n / 10 mod 10) :: dg (n mod 10) :: r) P = Some (r, pset KY n P).
Proof.
  intro Hn.
  assert (0 <= n / 1000 <= 9 /\ 0 <= n / 100 mod 10 <= 9 /\ 0 <= n / 10 mod 10 <= 9 /\ 0 <= n mod 10 <= 9) as (H1 & H2 & H3 & H4) by zdiv.
  cbn [jiff_sem jiff_spec]. rewrite !is_b_dg by (auto; lia).
  unfold jiff_number. cbn [skip]. rewrite ws_ascii_dg by exact H1. cbn [take_digits].
  rewrite !digit_val_dg by assumption.
  replace (take_digits 0 r) with (@nil Z, r) by (destruct r; reflexivity).
  rewrite dval4 by exact Hn. cbn [obind fst snd]. rewrite Z.mul_1_l. rewrite in_range_true by lia. reflexivity.
Qed.

Lemma jiff_num_nil c P : jiff_sem (INum c) [] P = None.
Proof. destruct c; reflexivity. Qed.
Lemma jiff_sec_Z r P : jiff_sem (INum CSecond) (x5a :: r) P = None.
Proof. reflexivity. Qed.
Lemma jiff_sec_sgn m r P : jiff_sem (INum CSecond) (sgn m :: r) P = None.
Proof. unfold sgn. destruct (m <? 0); reflexivity. Qed.
Lemma jiff_off_Z h P : jiff_sem (IOff h 0) [x5a] P = None.
Proof. reflexivity. Qed.
Lemma jiff_lit_Z P : jiff_sem (ILit x5a) [x5a] P = Some ([], P).
Proof. reflexivity. Qed.
Lemma jiff_lit_Z_sgn m r P : jiff_sem (ILit x5a) (sgn m :: r) P = None.
Proof. unfold sgn. destruct (m <? 0); reflexivity. Qed.

(* ---------- time ---------- *)
Lemma time_num2 c n r P : c <> CYear -> comp_lo c <= n <= comp_hi c ->
  time_sem (INum c) (dg (n / 10) :: dg (n mod 10) :: r) P = Some (r, pset (ckey c) n P).
Proof.
  intros Hc Hn.
  assert (0 <= n <= 99) as H99 by (destruct c; try congruence; cbn in Hn; lia).
  assert (0 <= n / 10 <= 9 /\ 0 <= n mod 10 <= 9) as [Ha Hb] by zdiv.
  assert (exactly 2 (dg (n / 10) :: dg (n mod 10) :: r) = Some ([n / 10; n mod 10], r)) as E.
  { cbn [exactly]. rewrite !digit_val_dg by assumption. reflexivity. }
  destruct c; try congruence; cbn [time_sem]; rewrite E; cbn [obind fst snd]; rewrite dval2 by exact H99;
    rewrite in_range_true by (cbn in Hn; lia); reflexivity.
Qed.

Lemma time_year n r P : 0 <= n <= 9999 ->
  time_sem (INum CYear) (dg (n / 1000) :: dg (n / 100 mod 10) :: dg (n / 10 mod 10) :: dg (n mod 10) :: r) P = Some (r, pset KY n P).
Proof.
  intro Hn.
  assert (0 <= n / 1000 <= 9 /\ 0 <= n / 100 mod 10 <= 9 /\ 0 <= n / 10 mod 10 <= 9 /\ 0 <= n mod 10 <= 9) as (H1 & H2 & H3 & H4) by zdiv.
  cbn [time_sem]. unfold opt_sign. rewrite !is_b_dg by (auto; lia).
  cbn [exactly]. rewrite !digit_val_dg by assumption. cbn [obind fst snd]. rewrite dval4 by exact Hn. reflexivity.
Qed.

Lemma time_offhour neg h r P : 0 <= h <= 25 ->
  time_sem (ITOffHour true) ((if neg : bool then x2d else x2b) :: dg (h / 10) :: dg (h mod 10) :: r) P =
  Some (r, pset KTOH h (pset KTNeg (if neg then 1 else 0) P)).
Proof.
  intro Hh. assert (0 <= h / 10 <= 9 /\ 0 <= h mod 10 <= 9) as [Ha Hb] by zdiv.
  assert (exactly 2 (dg (h / 10) :: dg (h mod 10) :: r) = Some ([h / 10; h mod 10], r)) as E.
  { cbn [exactly]. rewrite !digit_val_dg by assumption. reflexivity. }
  destruct neg; cbn [time_sem]; unfold opt_sign;
    [change (is_b 45 x2d) with true | change (is_b 45 x2b) with false; change (is_b 43 x2b) with true];
    cbv iota; rewrite E; cbn [obind fst snd]; rewrite dval2 by lia; rewrite in_range_true by lia; reflexivity.
Qed.
Lemma time_offmin n r P : 0 <= n <= 59 ->
  time_sem ITOffMin (dg (n / 10) :: dg (n mod 10) :: r) P = Some (r, pset KTOM n P).
Proof.
  intro Hn. assert (0 <= n / 10 <= 9 /\ 0 <= n mod 10 <= 9) as [Ha Hb] by zdiv.
  cbn [time_sem exactly]. rewrite !digit_val_dg by assumption. cbn [obind fst snd]. rewrite dval2 by lia.
  rewrite in_range_true by lia. reflexivity.
Qed.
Lemma time_num_nil c P : time_sem (INum c) [] P = None.
Proof. destruct c; reflexivity. Qed.
Lemma time_sec_Z r P : time_sem (INum CSecond) (x5a :: r) P = None.
Proof. reflexivity. Qed.
Lemma time_sec_sgn m r P : time_sem (INum CSecond) (sgn m :: r) P = None.
Proof. unfold sgn. destruct (m <? 0); reflexivity. Qed.
Lemma time_offhour_Z r P : time_sem (ITOffHour true) (x5a :: r) P = None.
Proof. reflexivity. Qed.
Lemma time_lit_Z P : time_sem (ILit x5a) [x5a] P = Some ([], P).
Proof. reflexivity. Qed.
Lemma time_lit_Z_sgn m r P : time_sem (ILit x5a) (sgn m :: r) P = None.
Proof. unfold sgn. destruct (m <? 0); reflexivity. Qed.

(* ---------- resolving the parsed fields ---------- *)
Section Resolve.
Variables y mo d h mi s : Z.
Let f := mkCivil y mo d h mi s.
Hypothesis Hc : civil_ok f = true.
Hypothesis Hy : 1 <= y <= 9999.

Let Pdate : parsed := pset KD d (pset KMo mo (pset KY y [])).
Let Pmin : parsed := pset KMi mi (pset KH h Pdate).
Let Psec : parsed := pset KS s Pmin.

Lemma civil_ok_parts : date_ok y mo d = true /\ 0 <= h <= 23 /\ 0 <= mi <= 59 /\ 0 <= s <= 59.
Proof.
  unfold civil_ok, f, in_range in Hc. cbn [cy cmo cd ch cmi cs] in Hc.
  apply andb_true_iff in Hc as [H1 H4]. apply andb_true_iff in H1 as [H1 H3]. apply andb_true_iff in H1 as [H1 H2].
  apply andb_true_iff in H2 as [A2 B2]. apply andb_true_iff in H3 as [A3 B3]. apply andb_true_iff in H4 as [A4 B4].
  apply Z.leb_le in A2, B2, A3, B3, A4, B4. split; [exact H1|lia].
Qed.

Lemma chrono_date_ok P : pget KY P = Some y -> pget KMo P = Some mo -> pget KD P = Some d -> chrono_date P = Some (y, mo, d).
Proof.
  unfold chrono_date. intros -> -> ->. cbn [obind]. destruct civil_ok_parts as (Hd & _). rewrite Hd.
  rewrite in_range_true by (unfold CHRONO_MIN_YEAR, CHRONO_MAX_YEAR; lia). reflexivity.
Qed.

Lemma chrono_resolve_full off : - 86399 <= off <= 86399 -> chrono_resolve 0 (pset KOff off Psec) = Some (f, off).
Proof.
  intro Ho. destruct civil_ok_parts as (_ & _ & _ & Hs).
  cbn [chrono_resolve]. rewrite chrono_date_ok by reflexivity.
  unfold Psec, Pmin, Pdate, pset. cbn [pget key_eqb obind].
  replace (s =? 60) with false by (symmetry; apply Z.eqb_neq; lia).
  rewrite in_range_true by lia. reflexivity.
Qed.
Lemma chrono_resolve_minute off : s = 0 -> - 86399 <= off <= 86399 -> chrono_resolve 0 (pset KOff off Pmin) = Some (f, off).
Proof.
  intros Hs Ho. cbn [chrono_resolve]. rewrite chrono_date_ok by reflexivity.
  unfold Pmin, Pdate, pset. cbn [pget key_eqb obind].
  rewrite in_range_true by lia. unfold f. rewrite Hs. reflexivity.
Qed.
Lemma chrono_resolve_date : h = 0 -> mi = 0 -> s = 0 -> chrono_resolve 2 Pdate = Some (f, 0).
Proof.
  intros Hh Hmi Hs. cbn [chrono_resolve]. rewrite chrono_date_ok by reflexivity.
  cbn [obind]. unfold f. rewrite Hh, Hmi, Hs. reflexivity.
Qed.

Ltac res_go Hd :=
  unfold jiff_civil, time_date, time_hms, Psec, Pmin, Pdate, pset; cbn [pget key_eqb obind];
  rewrite Hd; cbn [negb obind].

Lemma jiff_resolve_full off : jiff_zoned_ok f off = true -> jiff_resolve 0 (pset KOff off Psec) = Some (f, off).
Proof.
  intro Hz. destruct civil_ok_parts as (Hd & _). cbn [jiff_resolve]. res_go Hd. fold f. rewrite Hz. reflexivity.
Qed.
Lemma jiff_resolve_full_utc : jiff_zoned_ok f 0 = true -> jiff_resolve 1 Psec = Some (f, 0).
Proof.
  intro Hz. destruct civil_ok_parts as (Hd & _). cbn [jiff_resolve]. res_go Hd. fold f. rewrite Hz. reflexivity.
Qed.
Lemma jiff_resolve_minute off : s = 0 -> jiff_zoned_ok f off = true -> jiff_resolve 0 (pset KOff off Pmin) = Some (f, off).
Proof.
  intros Hs Hz. destruct civil_ok_parts as (Hd & _). cbn [jiff_resolve]. res_go Hd.
  unfold f in Hz. rewrite Hs in Hz. rewrite Hz. unfold f. rewrite Hs. reflexivity.
Qed.
Lemma jiff_resolve_minute_utc : s = 0 -> jiff_zoned_ok f 0 = true -> jiff_resolve 1 Pmin = Some (f, 0).
Proof.
  intros Hs Hz. destruct civil_ok_parts as (Hd & _). cbn [jiff_resolve]. res_go Hd.
  unfold f in Hz. rewrite Hs in Hz. rewrite Hz. unfold f. rewrite Hs. reflexivity.
Qed.
Lemma jiff_resolve_date : h = 0 -> mi = 0 -> s = 0 -> jiff_zoned_ok f 0 = true -> jiff_resolve 2 Pdate = Some (f, 0).
Proof.
  intros Hh Hmi Hs Hz. destruct civil_ok_parts as (Hd & _). cbn [jiff_resolve]. res_go Hd.
  unfold f in Hz. rewrite Hh, Hmi, Hs in Hz. rewrite Hz. unfold f. rewrite Hh, Hmi, Hs. reflexivity.
Qed.

Definition signed_off (neg : bool) (hh mm : Z) : Z := if neg then - (hh * 3600 + mm * 60) else hh * 3600 + mm * 60.

Lemma time_resolve_full neg hh mm :
  time_resolve 0 (pset KTOM mm (pset KTOH hh (pset KTNeg (if neg : bool then 1 else 0) Psec))) = Some (f, signed_off neg hh mm).
Proof.
  destruct civil_ok_parts as (Hd & _ & _ & Hs). cbn [time_resolve]. res_go Hd.
  replace (s <=? 59) with true by (symmetry; apply Z.leb_le; lia). cbn [obind].
  destruct neg; reflexivity.
Qed.
Lemma time_resolve_full_utc : time_resolve 1 Psec = Some (f, 0).
Proof.
  destruct civil_ok_parts as (Hd & _ & _ & Hs). cbn [time_resolve]. res_go Hd.
  replace (s <=? 59) with true by (symmetry; apply Z.leb_le; lia). reflexivity.
Qed.
Lemma time_resolve_minute neg hh mm : s = 0 ->
  time_resolve 0 (pset KTOM mm (pset KTOH hh (pset KTNeg (if neg : bool then 1 else 0) Pmin))) = Some (f, signed_off neg hh mm).
Proof.
  intro Hs. destruct civil_ok_parts as (Hd & _). cbn [time_resolve]. res_go Hd. unfold f. rewrite Hs.
  destruct neg; reflexivity.
Qed.
Lemma time_resolve_minute_utc : s = 0 -> time_resolve 1 Pmin = Some (f, 0).
Proof.
  intro Hs. destruct civil_ok_parts as (Hd & _). cbn [time_resolve]. res_go Hd. unfold f. rewrite Hs. reflexivity.
Qed.
Lemma time_resolve_date : h = 0 -> mi = 0 -> s = 0 -> time_resolve 2 Pdate = Some (f, 0).
Proof.
  intros Hh Hmi Hs. destruct civil_ok_parts as (Hd & _). cbn [time_resolve]. res_go Hd. unfold f. rewrite Hh, Hmi, Hs. reflexivity.
Qed.
End Resolve.

Lemma signed_off_min m : valid_offset m -> signed_off (m <? 0) (Z.abs m / 60) (Z.abs m mod 60) = 60 * m.
Proof.
  unfold valid_offset, signed_off. intro H. destruct (m <? 0) eqn:E; [apply Z.ltb_lt in E | apply Z.ltb_ge in E]; zdiv.
Qed.

Lemma chrono_sec_off m P : chrono_sem (INum CSecond) (off_txt m) P = None.
Proof. apply chrono_sec_sgn. Qed.
Lemma jiff_sec_off m P : jiff_sem (INum CSecond) (off_txt m) P = None.
Proof. apply jiff_sec_sgn. Qed.
Lemma jiff_lit_Z_off m P : jiff_sem (ILit x5a) (off_txt m) P = None.
Proof. apply jiff_lit_Z_sgn. Qed.

Ltac side := first [discriminate | assumption | cbn [comp_lo comp_hi]; lia | lia].
Ltac sem_step :=
  cbn [obind fst snd run_items ckey];
  first
    [ rewrite chrono_year by lia | rewrite chrono_num2 by side | rewrite chrono_off_txt by assumption
    | rewrite chrono_sec_off | rewrite jiff_sec_off | rewrite jiff_lit_Z_off | rewrite chrono_sec_Z | rewrite chrono_sec_sgn | rewrite chrono_num_nil | rewrite chrono_off_Z
    | rewrite jiff_year by lia | rewrite jiff_num2 by side | rewrite jiff_off_txt by assumption
    | rewrite jiff_sec_Z | rewrite jiff_sec_sgn | rewrite jiff_num_nil | rewrite jiff_off_Z | rewrite jiff_lit_Z | rewrite jiff_lit_Z_sgn
    | rewrite time_year by lia | rewrite time_num2 by side | rewrite time_offhour by zdiv | rewrite time_offmin by zdiv
    | rewrite time_sec_Z | rewrite time_sec_sgn | rewrite time_num_nil | rewrite time_offhour_Z | rewrite time_lit_Z | rewrite time_lit_Z_sgn ].
Ltac use_res L := let R := fresh "R" in pose proof L as R; cbv zeta in R; rewrite R; clear R.

Ltac start f Hv :=
  let B := fresh "B" in let Hc := fresh "Hc" in
  pose proof (valid_bounds f Hv) as B; pose proof (valid_civil_ok f Hv) as Hc;
  destruct f as [y mo d h mi s]; cbn [cy cmo cd ch cmi cs] in *;
  unfold date_txt, hm_txt, d2, d4, CHRONO_STEPS, JIFF_STEPS, TIME_STEPS, six, five, three, strf_date_items;
  cbn [cy cmo cd ch cmi cs app cascade_its]; unfold run_its; cbn [fst snd].

Ltac steps := repeat sem_step; cbn [obind fst snd run_items ckey].

Lemma chrono_full f m : valid (spec_of f) -> valid_offset m ->
  parse_chrono (date_txt f ++ hm_txt f ++ d2 (cs f) ++ off_txt m) = Some (f, 60 * m).
Proof.
  intros Hv Hm. rewrite parse_chrono_steps. start f Hv. steps.
  use_res (chrono_resolve_full y mo d h mi s Hc ltac:(lia) (60 * m) ltac:(unfold valid_offset in Hm; lia)). reflexivity.
Qed.
Lemma chrono_full_utc f : valid (spec_of f) ->
  parse_chrono (date_txt f ++ hm_txt f ++ d2 (cs f) ++ [x5a]) = Some (f, 0).
Proof.
  intros Hv. rewrite parse_chrono_steps. start f Hv. steps.
  use_res (chrono_resolve_full y mo d h mi s Hc ltac:(lia) 0 ltac:(lia)). reflexivity.
Qed.
Lemma chrono_minute f m : valid (spec_of f) -> valid_offset m -> cs f = 0 ->
  parse_chrono (date_txt f ++ hm_txt f ++ off_txt m) = Some (f, 60 * m).
Proof.
  intros Hv Hm Hs. rewrite parse_chrono_steps. start f Hv. steps.
  use_res (chrono_resolve_minute y mo d h mi s Hc ltac:(lia) (60 * m) Hs ltac:(unfold valid_offset in Hm; lia)). reflexivity.
Qed.
Lemma chrono_minute_utc f : valid (spec_of f) -> cs f = 0 ->
  parse_chrono (date_txt f ++ hm_txt f ++ [x5a]) = Some (f, 0).
Proof.
  intros Hv Hs. rewrite parse_chrono_steps. start f Hv. steps.
  use_res (chrono_resolve_minute y mo d h mi s Hc ltac:(lia) 0 Hs ltac:(lia)). reflexivity.
Qed.
Lemma chrono_date_only f : valid (spec_of f) -> ch f = 0 -> cmi f = 0 -> cs f = 0 ->
  parse_chrono (date_txt f) = Some (f, 0).
Proof.
  intros Hv Hh Hmi Hs. rewrite parse_chrono_steps. start f Hv. steps.
  use_res (chrono_resolve_date y mo d h mi s Hc ltac:(lia) Hh Hmi Hs). reflexivity.
Qed.

(* ---------- jiff ---------- *)
Lemma jiff_full f m : valid (spec_of f) -> valid_offset m -> jiff_zoned_ok f (60 * m) = true ->
  parse_jiff (date_txt f ++ hm_txt f ++ d2 (cs f) ++ off_txt m) = Some (f, 60 * m).
Proof.
  intros Hv Hm Hz. rewrite parse_jiff_steps. start f Hv. steps.
  use_res (jiff_resolve_full y mo d h mi s Hc (60 * m) Hz). reflexivity.
Qed.
Lemma jiff_full_utc f : valid (spec_of f) -> jiff_zoned_ok f 0 = true ->
  parse_jiff (date_txt f ++ hm_txt f ++ d2 (cs f) ++ [x5a]) = Some (f, 0).
Proof.
  intros Hv Hz. rewrite parse_jiff_steps. start f Hv. steps.
  use_res (jiff_resolve_full_utc y mo d h mi s Hc Hz). reflexivity.
Qed.
Lemma jiff_minute f m : valid (spec_of f) -> valid_offset m -> cs f = 0 -> jiff_zoned_ok f (60 * m) = true ->
  parse_jiff (date_txt f ++ hm_txt f ++ off_txt m) = Some (f, 60 * m).
Proof.
  intros Hv Hm Hs Hz. rewrite parse_jiff_steps. start f Hv. steps.
  use_res (jiff_resolve_minute y mo d h mi s Hc (60 * m) Hs Hz). reflexivity.
Qed.
Lemma jiff_minute_utc f : valid (spec_of f) -> cs f = 0 -> jiff_zoned_ok f 0 = true ->
  parse_jiff (date_txt f ++ hm_txt f ++ [x5a]) = Some (f, 0).
Proof.
  intros Hv Hs Hz. rewrite parse_jiff_steps. start f Hv. steps.
  use_res (jiff_resolve_minute_utc y mo d h mi s Hc Hs Hz). reflexivity.
Qed.
Lemma jiff_date_only f : valid (spec_of f) -> ch f = 0 -> cmi f = 0 -> cs f = 0 -> jiff_zoned_ok f 0 = true ->
  parse_jiff (date_txt f) = Some (f, 0).
Proof.
  intros Hv Hh Hmi Hs Hz. rewrite parse_jiff_steps. start f Hv. steps.
  use_res (jiff_resolve_date y mo d h mi s Hc Hh Hmi Hs Hz). reflexivity.
Qed.

(* ---------- time ---------- *)
Lemma time_full f m : valid (spec_of f) -> valid_offset m ->
  parse_time (date_txt f ++ hm_txt f ++ d2 (cs f) ++ off_txt m) = Some (f, 60 * m).
Proof.
  intros Hv Hm. rewrite parse_time_steps. start f Hv. unfold off_txt, sgn, d2. cbn [app]. unfold valid_offset in Hm. steps.
  use_res (time_resolve_full y mo d h mi s Hc (m <? 0) (Z.abs m / 60) (Z.abs m mod 60)).
  rewrite signed_off_min by exact Hm. reflexivity.
Qed.
Lemma time_full_utc f : valid (spec_of f) ->
  parse_time (date_txt f ++ hm_txt f ++ d2 (cs f) ++ [x5a]) = Some (f, 0).
Proof.
  intros Hv. rewrite parse_time_steps. start f Hv. steps.
  use_res (time_resolve_full_utc y mo d h mi s Hc). reflexivity.
Qed.
Lemma time_minute f m : valid (spec_of f) -> valid_offset m -> cs f = 0 ->
  parse_time (date_txt f ++ hm_txt f ++ off_txt m) = Some (f, 60 * m).
Proof.
  intros Hv Hm Hs. rewrite parse_time_steps. start f Hv. unfold off_txt, d2. cbn [app]. unfold valid_offset in Hm. steps.
  unfold sgn. steps.
  use_res (time_resolve_minute y mo d h mi s Hc (m <? 0) (Z.abs m / 60) (Z.abs m mod 60) Hs).
  rewrite signed_off_min by exact Hm. reflexivity.
Qed.
Lemma time_minute_utc f : valid (spec_of f) -> cs f = 0 ->
  parse_time (date_txt f ++ hm_txt f ++ [x5a]) = Some (f, 0).
Proof.
  intros Hv Hs. rewrite parse_time_steps. start f Hv. steps.
  use_res (time_resolve_minute_utc y mo d h mi s Hc Hs). reflexivity.
Qed.
Lemma time_date_only f : valid (spec_of f) -> ch f = 0 -> cmi f = 0 -> cs f = 0 ->
  parse_time (date_txt f) = Some (f, 0).
Proof.
  intros Hv Hh Hmi Hs. rewrite parse_time_steps. start f Hv. steps.
  use_res (time_resolve_date y mo d h mi s Hc Hh Hmi Hs). reflexivity.
Qed.
