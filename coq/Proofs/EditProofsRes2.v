(* EditProofsRes2.v -- C11, part 6b: I_resources for add_xobject when the XObject entry of the resource dictionary is an
   INDIRECT reference.  The call then writes  name -> Reference(x)  into a separate dictionary object t (the one
   get_object_mut reaches from the reference).  Two regimes:
   * the name is new in t and is not Parent / Resources: t only gains an entry that none of its possible roles (page-tree
     node, resource dictionary, category) reads -- safe on EVERY graph (Proofs/EditProofsRes.v's relation);
   * the name exists in t (its value is overwritten): safe when t is not ALSO the Resources dictionary of some dictionary
     ([no_resources_leads_to]); as a category t keeps all its names, as a node it keeps Parent and Resources.
   [alias_witness]: without the second condition the clause fails (the XObject entry leads back to the resource dictionary
   itself, the name is that of another category); the witness is replayed on the crate in notes/C11.md. *)
From LV Require Import Base.Bytes Model.Obj Model.DocQ Model.PageTree Model.Traverse Model.Edit Gen.Consts
  Spec.AbstractDoc Proofs.RenumberProofsMap Proofs.EditProofs Proofs.EditProofsRes.
From LV Require Proofs.FilterProofsDict.

(* ---------- one dictionary object gets one entry set ---------- *)
Section One.
  Variables (m : objmap) (t : oid) (xd : dict) (nm : bytes) (e : obj).
  Hypothesis Lt : lookup m t = Some (ODict xd).
  Hypothesis N1 : nm <> K_Parent.
  Hypothesis N2 : nm <> K_Resources.
  Let xd' := dict_set xd nm e.
  Let m' := update m t (ODict xd').

  Lemma lookup_one id : lookup m' id = if oid_eqb t id then Some (ODict xd') else lookup m id.
  Proof. unfold m'. rewrite lookup_update. destruct (oid_eqb t id); [rewrite Lt|]; reflexivity. Qed.

  Lemma deref_one : forall fuel last o,
    match deref_aux m fuel last o with
    | None => deref_aux m' fuel last o = None
    | Some (r, x) => exists x', deref_aux m' fuel last o = Some (r, x') /\
                                (x' = x \/ (r = Some t /\ x = ODict xd /\ x' = ODict xd'))
    end.
  Proof.
    induction fuel as [|f IH]; intros last o;
      destruct o as [| | | | | | | | |i g]; cbn [deref_aux]; try (eexists; split; [reflexivity | left; reflexivity]).
    - rewrite lookup_one. destruct (oid_eqb t (i, g)) eqn:E.
      + apply oid_eqb_eq in E. rewrite <- E, Lt. reflexivity.
      + destruct (lookup m (i, g)); reflexivity.
    - rewrite lookup_one. destruct (oid_eqb t (i, g)) eqn:E.
      + apply oid_eqb_eq in E. rewrite <- E, Lt. rewrite !deref_aux_dict.
        eexists. split; [reflexivity|]. right. auto.
      + destruct (lookup m (i, g)) as [o1|]; [apply IH | reflexivity].
  Qed.

  Definition npair2 (nd nd' : dict) : Prop := nd' = nd \/ (nd = xd /\ nd' = xd').

  Lemma npair2_keys nd nd' : npair2 nd nd' ->
    dict_get nd' K_Parent = dict_get nd K_Parent /\ dict_get nd' K_Resources = dict_get nd K_Resources.
  Proof.
    intros [->|[-> ->]]; [split; reflexivity|]. unfold xd'.
    split; apply FilterProofsDict.dict_get_set_other; congruence.
  Qed.

  Lemma get_dictionary_one id :
    match get_dictionary m id with
    | None => get_dictionary m' id = None
    | Some nd => exists nd', get_dictionary m' id = Some nd' /\ npair2 nd nd'
    end.
  Proof.
    unfold get_dictionary, get_object. rewrite lookup_one. destruct (oid_eqb t id) eqn:E.
    - apply oid_eqb_eq in E. rewrite <- E, Lt. rewrite !dereference_dict. cbn [option_map snd].
      eexists. split; [reflexivity | right; auto].
    - destruct (lookup m id) as [o|]; [|reflexivity].
      pose proof (deref_one (N.to_nat DEREF_LIMIT) None o) as H. fold (dereference m o) in H. fold (dereference m' o) in H.
      destruct (dereference m o) as [[r x]|].
      + destruct H as [x' [H1 H2]]. rewrite H1. cbn [option_map snd].
        destruct H2 as [->|[_ [-> ->]]].
        * destruct x; try reflexivity. eexists. split; [reflexivity | left; reflexivity].
        * eexists. split; [reflexivity | right; auto].
      + rewrite H. reflexivity.
  Qed.

  Lemma nearest_one : forall k node node', npair2 node node' ->
    nearest_resources k m' node' = nearest_resources k m node.
  Proof.
    induction k as [|k IH]; intros node node' NP; destruct (npair2_keys _ _ NP) as [Hp Hr];
      cbn [nearest_resources]; change S_Resources with K_Resources; rewrite Hr; [reflexivity|].
    destruct (dict_get node K_Resources); [reflexivity|]. rewrite Hp.
    destruct (dict_get node K_Parent) as [[| | | | | | | | |i g]|]; try reflexivity.
    pose proof (get_dictionary_one (i, g)) as Hg. destruct (get_dictionary m (i, g)) as [pn|].
    - destruct Hg as [pn' [-> NP']]. apply IH. exact NP'.
    - rewrite Hg. reflexivity.
  Qed.

  (* a Resources value found by the walk is the Resources entry of some dictionary of the graph *)
  Definition res_source (r : obj) : Prop :=
    exists id nd, get_dictionary m id = Some nd /\ dict_get nd K_Resources = Some r.

  Lemma nearest_source : forall k node r,
    (exists id, get_dictionary m id = Some node) -> nearest_resources k m node = Some r -> res_source r.
  Proof.
    induction k as [|k IH]; intros node r [id Hid]; cbn [nearest_resources]; change S_Resources with K_Resources;
      destruct (dict_get node K_Resources) as [r0|] eqn:Er.
    - intro H; inversion H; subst. exists id, node. auto.
    - discriminate.
    - intro H; inversion H; subst. exists id, node. auto.
    - destruct (dict_get node K_Parent) as [[| | | | | | | | |i g]|]; try discriminate.
      destruct (get_dictionary m (i, g)) as [pn|] eqn:Ep; [|discriminate].
      apply IH. exists (i, g). exact Ep.
  Qed.

  Lemma flatten_one rd c n x :
    In (c, n, x) (flatten_resources m rd) -> exists x', In (c, n, x') (flatten_resources m' rd).
  Proof.
    unfold flatten_resources. intro H. apply in_flat_map in H. destruct H as [[c0 v] [Hin He]]. cbn [fst snd] in He.
    pose proof (deref_one (N.to_nat DEREF_LIMIT) None v) as D. fold (dereference m v) in D. fold (dereference m' v) in D.
    destruct (dereference m v) as [[l y]|]; [|destruct He]. destruct D as [y' [D1 D2]].
    assert (G : exists x', In (c, n, x') (match dereference m' v with
                                          | Some (_, ODict cd) => map (fun nx : bytes * obj => (c0, fst nx, snd nx)) cd
                                          | Some (_, y0) => [(c0, [], y0)]
                                          | None => []
                                          end)).
    { rewrite D1. destruct D2 as [->|[_ [-> ->]]]; [exists x; exact He|].
      apply in_map_iff in He. destruct He as [[n0 x0] [E0 H0]]. cbn [fst snd] in E0. inversion E0; subst.
      assert (Hk : In n (map fst xd')).
      { apply (dict_set_kp xd nm e). apply in_map_iff. exists (n, x). split; [reflexivity | exact H0]. }
      apply in_map_iff in Hk. destruct Hk as [[n1 x1] [E1 H1]]. cbn [fst] in E1. subst n1.
      exists x1. apply in_map_iff. exists (n, x1). split; [reflexivity | exact H1]. }
    destruct G as [x' G]. exists x'. apply in_flat_map. exists (c0, v). split; [exact Hin | exact G].
  Qed.

  (* t is not the dictionary any Resources entry leads to *)
  Hypothesis NA : forall r, res_source r -> forall x, dereference m r <> Some (Some t, x).

  Theorem resources_one q : res_le (effective_resources m q) (effective_resources m' q).
  Proof.
    unfold effective_resources. replace (length m') with (length m) by (symmetry; apply length_update).
    pose proof (get_dictionary_one q) as Hg. destruct (get_dictionary m q) as [qd|] eqn:Eq; [|exact I].
    destruct Hg as [qd' [-> NP]]. rewrite (nearest_one _ _ _ NP).
    destruct (nearest_resources (length m) m qd) as [r|] eqn:En; [|apply res_le_nil].
    pose proof (nearest_source _ _ _ (ex_intro _ q Eq) En) as Src.
    pose proof (deref_one (N.to_nat DEREF_LIMIT) None r) as D. fold (dereference m r) in D. fold (dereference m' r) in D.
    destruct (dereference m r) as [[l x]|] eqn:Ed; [|exact I].
    destruct D as [x' [D1 D2]]. rewrite D1.
    destruct D2 as [->|[-> _]]; [|exfalso; exact (NA r Src x Ed)].
    destruct x as [| | | | | | |rd| |]; try exact I.
    apply res_le_some. apply flatten_one.
  Qed.
End One.

(* ---------- add_xobject, every shape of the XObject entry ---------- *)
(* the object the name is written into when the XObject entry is a reference: the map at that moment, the object, its dictionary *)
Definition xobject_target (d : doc) (page : oid) : option (objmap * oid * dict) :=
  let '(d1, loc) := get_or_create_resources d page in
  match loc with
  | Some l =>
    match loc_get (d_objects d1) l with
    | Some (ODict rd) =>
      let rd1 := if dict_has rd K_XObject then rd else dict_set rd K_XObject (ODict []) in
      let m2 := loc_set (d_objects d1) l (ODict rd1) in
      match dict_get rd1 K_XObject with
      | Some (ORef i g) =>
        match get_object_mut_id m2 (i, g) with
        | Some t => match lookup m2 t with Some (ODict xd) => Some (m2, t, xd) | _ => None end
        | None => None
        end
      | _ => None
      end
    | _ => None
    end
  | None => None
  end.

Definition no_resources_leads_to (m : objmap) (t : oid) : Prop :=
  forall id nd r x, get_dictionary m id = Some nd -> dict_get nd K_Resources = Some r ->
    dereference m r <> Some (Some t, x).

(* the typing the reference case needs *)
Definition xobject_typed (d : doc) (page : oid) (nm : bytes) : Prop :=
  forall m2 t xd, xobject_target d page = Some (m2, t, xd) ->
    nm <> K_Parent /\ nm <> K_Resources /\ (dict_get xd nm = None \/ no_resources_leads_to m2 t).

Theorem add_xobject_resources d page nm x d' r :
  xobject_typed d page nm ->
  add_xobject d page nm x = (d', r) ->
  forall q, res_le (effective_resources (d_objects d) q) (effective_resources (d_objects d') q).
Proof.
  intro Hty. unfold add_xobject, add_resource, xobject_typed, xobject_target in *.
  destruct (get_or_create_resources d page) as [d1 loc] eqn:Eg.
  pose proof (gocr_resources d page d1 loc Eg) as S1.
  destruct loc as [loc|]; [|intro H; injection H as <- _; exact S1].
  assert (Same1 : forall r0, (d1, r0) = (d', r) ->
                  forall q, res_le (effective_resources (d_objects d) q) (effective_resources (d_objects d') q)).
  { intros r0 H. injection H as <- _. exact S1. }
  destruct (loc_get (d_objects d1) loc) as [[| | | | | | |rd| |]|] eqn:El;
    [apply Same1 | apply Same1 | apply Same1 | apply Same1 | apply Same1 | apply Same1 | apply Same1 | | apply Same1 | apply Same1 | apply Same1].
  set (m1 := d_objects d1) in *.
  set (rd1 := if dict_has rd K_XObject then rd else dict_set rd K_XObject (ODict [])) in *.
  set (m2 := loc_set m1 loc (ODict rd1)) in *.
  destruct K_XObject_neq as [NX1 NX2].
  assert (C1 : cg rd rd1 /\ (forall k', k' <> K_XObject -> dict_get rd1 k' = dict_get rd k')).
  { unfold rd1. destruct (dict_has rd K_XObject) eqn:Eh; [split; [apply cg_refl | reflexivity]|].
    split; [apply cg_set_absent; apply dict_has_false; exact Eh|].
    intros k' Hk. apply FilterProofsDict.dict_get_set_other. exact Hk. }
  destruct C1 as [C1 O1].
  assert (S2 : forall q, res_le (effective_resources (d_objects d) q) (effective_resources m2 q)).
  { intro q. eapply res_le_trans; [apply S1|]. apply (loc_set_safe m1 loc rd rd1 K_XObject El C1 NX1 NX2 O1). }
  assert (El2 : loc_get m2 loc = Some (ODict rd1)) by (eapply loc_get_set; exact El).
  assert (Same : forall r0, (with_objs d1 m2, r0) = (d', r) ->
                 forall q, res_le (effective_resources (d_objects d) q) (effective_resources (d_objects d') q)).
  { intros r0 H. injection H as <- _. exact S2. }
  destruct (dict_get rd1 K_XObject) as [[| | | | | | |xd| |i g]|] eqn:Ek;
    [apply Same | apply Same | apply Same | apply Same | apply Same | apply Same | apply Same | | apply Same | | apply Same].
  - (* the category is a direct dictionary: the name goes into it *)
    intro H; injection H as <- _. cbn [d_objects with_objs]. intro q.
    eapply res_le_trans; [apply S2|].
    apply (loc_set_safe m2 loc rd1 _ K_XObject El2).
    + apply (cg_set_grown rd1 K_XObject xd); [exact Ek | apply dict_set_kp].
    + exact NX1.
    + exact NX2.
    + intros k' Hk. apply FilterProofsDict.dict_get_set_other. exact Hk.
  - (* the category is a reference: the name goes into the dictionary object it leads to *)
    destruct (get_object m2 (i, g)); [|apply Same].
    destruct (get_object_mut_id m2 (i, g)) as [t|]; [|apply Same].
    destruct (lookup m2 t) as [[| | | | | | |xd| |]|] eqn:Lt;
      [apply Same | apply Same | apply Same | apply Same | apply Same | apply Same | apply Same | | apply Same | apply Same | apply Same].
    destruct (Hty m2 t xd eq_refl) as [N1 [N2 Hcase]].
    intro H; injection H as <- _. cbn [d_objects with_objs]. intro q.
    eapply res_le_trans; [apply S2|].
    destruct Hcase as [Hnew|Hna].
    + apply (step_safe m2 t xd _ Lt).
      * apply (dg_top xd _ nm N1 N2); [apply cg_set_absent; exact Hnew|].
        intros k' Hk. apply FilterProofsDict.dict_get_set_other. exact Hk.
      * intro E. rewrite FilterProofsDict.dict_get_set_other by congruence. exact E.
    + apply (resources_one m2 t xd nm _ Lt N1 N2).
      intros r0 [id [nd [Hid Hr0]]] x0. exact (Hna id nd r0 x0 Hid Hr0).
Qed.

(* ---------- the second condition cannot be dropped ---------- *)
Definition K_Font' := Eval cbv in bs "Font".
Definition K_F1' := Eval cbv in bs "F1".
Definition K_Catalog'' := Eval cbv in bs "Catalog".

(* page 3's Resources is object 4, whose XObject entry leads back to object 4 itself *)
Definition alias_doc : doc :=
  {| d_version := bs "1.5"; d_binary_mark := []; d_max_id := 6;
     d_trailer := [(K_Root, ORef 1 0)];
     d_objects := [((1,0), ODict [(K_Type, OName K_Catalog''); (K_Pages, ORef 2 0)]);
                   ((2,0), ODict [(K_Type, OName K_Pages); (K_Kids, OArr [ORef 3 0]); (K_Count, OInt 1)]);
                   ((3,0), ODict [(K_Type, OName K_Page); (K_Parent, ORef 2 0); (K_Resources, ORef 4 0)]);
                   ((4,0), ODict [(K_Font', ODict [(K_F1', ORef 5 0)]); (K_XObject, ORef 4 0)]);
                   ((5,0), ODict [(K_Type, OName K_Font')]);
                   ((6,0), OStream [(K_Length, OInt 0)] [])]%N |}.

Lemma alias_witness :
  exists d', add_xobject alias_doc (3, 0)%N K_Font' (6, 0)%N = (d', OOk) /\
    effective_resources (d_objects alias_doc) (3, 0)%N =
      Some [(K_Font', K_F1', ORef 5 0); (K_XObject, K_Font', ODict [(K_F1', ORef 5 0)]); (K_XObject, K_XObject, ORef 4 0)] /\
    ~ res_le (effective_resources (d_objects alias_doc) (3, 0)%N) (effective_resources (d_objects d') (3, 0)%N) /\
    ~ xobject_typed alias_doc (3, 0)%N K_Font'.
Proof.
  eexists. split; [vm_compute; reflexivity|]. split; [vm_compute; reflexivity|]. split.
  - vm_compute. intro H. destruct (H K_Font' K_F1' (ORef 5 0) (or_introl eq_refl)) as [x' Hx].
    repeat (destruct Hx as [Hx|Hx]; [discriminate Hx|]). exact Hx.
  - intro H. destruct (H _ _ _ eq_refl) as [_ [_ [Hn|Hn]]].
    + vm_compute in Hn. discriminate Hn.
    + apply (Hn (3, 0)%N [(K_Type, OName K_Page); (K_Parent, ORef 2 0); (K_Resources, ORef 4 0)] (ORef 4 0)
                (ODict [(K_Font', ODict [(K_F1', ORef 5 0)]); (K_XObject, ORef 4 0)]));
        vm_compute; reflexivity.
Qed.

(* ---------- a decidable check of [no_resources_leads_to], and a concrete instance (non-vacuity) ---------- *)
Definition nrl_b (m : objmap) (t : oid) : bool :=
  forallb (fun io : oid * obj =>
             match get_dictionary m (fst io) with
             | Some nd => match dict_get nd K_Resources with
                          | Some r => match dereference m r with
                                      | Some (Some t', _) => negb (oid_eqb t' t)
                                      | _ => true
                                      end
                          | None => true
                          end
             | None => true
             end) m.

Lemma nrl_b_ok m t : nrl_b m t = true -> no_resources_leads_to m t.
Proof.
  unfold nrl_b. rewrite forallb_forall. intros H id nd r x Hid Hr Hd.
  assert (Hin : exists o, In (id, o) m).
  { unfold get_dictionary, get_object in Hid. destruct (lookup m id) as [o|] eqn:L; [|discriminate].
    exists o. apply lookup_In. exact L. }
  destruct Hin as [o Hin]. specialize (H _ Hin). cbn [fst] in H. rewrite Hid, Hr, Hd in H.
  apply negb_true_iff in H. rewrite oid_eqb_refl in H. discriminate.
Qed.

Definition K_Im0 := Eval cbv in bs "Im0".
(* page 3 has its own Resources whose XObject entry is a reference to the dictionary object 4, which already holds Im0 *)
Definition xref_doc : doc :=
  {| d_version := bs "1.5"; d_binary_mark := []; d_max_id := 6;
     d_trailer := [(K_Root, ORef 1 0)];
     d_objects := [((1,0), ODict [(K_Type, OName K_Catalog''); (K_Pages, ORef 2 0)]);
                   ((2,0), ODict [(K_Type, OName K_Pages); (K_Kids, OArr [ORef 3 0]); (K_Count, OInt 1)]);
                   ((3,0), ODict [(K_Type, OName K_Page); (K_Parent, ORef 2 0);
                                  (K_Resources, ODict [(K_Font', ODict [(K_F1', ORef 5 0)]); (K_XObject, ORef 4 0)])]);
                   ((4,0), ODict [(K_Im0, ORef 6 0)]);
                   ((5,0), ODict [(K_Type, OName K_Font')]);
                   ((6,0), OStream [(K_Length, OInt 0)] [])]%N |}.

Lemma xref_example :
  (exists m2, xobject_target xref_doc (3, 0)%N = Some (m2, (4, 0)%N, [(K_Im0, ORef 6 0)])) /\
  xobject_typed xref_doc (3, 0)%N K_Im0 /\ xobject_typed xref_doc (3, 0)%N K_F1' /\
  effective_resources (d_objects (fst (add_xobject xref_doc (3, 0)%N K_F1' (6, 0)%N))) (3, 0)%N =
    Some [(K_Font', K_F1', ORef 5 0); (K_XObject, K_Im0, ORef 6 0); (K_XObject, K_F1', ORef 6 0)].
Proof.
  split; [eexists; vm_compute; reflexivity|]. split; [|split; [|vm_compute; reflexivity]].
  - intros m2 t xd H. vm_compute in H. inversion H; subst. split; [discriminate|]. split; [discriminate|].
    right. apply nrl_b_ok. vm_compute. reflexivity.
  - intros m2 t xd H. vm_compute in H. inversion H; subst. split; [discriminate|]. split; [discriminate|].
    left. vm_compute. reflexivity.
Qed.
