(* QueryProofs.v -- totality of the read-only queries of Model/Query.v on arbitrary object graphs.
   Part 1: dereference / get_object / get_dictionary / catalog, get_page_contents, get_page_resources,
   the page-level queries, size_hint and the allocation request of get_pages. *)
From LV Require Import Base.Bytes Base.Sx Model.Obj Model.DocQ Model.PageTree Model.Utf Model.Query
  Gen.Consts Gen.QueryC.
From LV Require Model.Toc Proofs.PageTreeProofs.

(* a call returns: a value or an error -- not a panic, not out of fuel *)
Definition returns {A} (o : out A) : Prop :=
  match o with Ok _ | Err => True | Panic _ | OutOfFuel => False end.

Lemma returns_of_opt {A} (o : option A) : returns (of_opt o).
Proof. destruct o; exact I. Qed.

Lemma returns_bind {A B} (o : out A) (f : A -> out B) :
  returns o -> (forall a, o = Ok a -> returns (f a)) -> returns (obind' o f).
Proof. destruct o; cbn; intros H Hf; try exact H. apply Hf. reflexivity. Qed.

Lemma returns_iff {A} (o : out A) : returns o <-> (exists v, o = Ok v) \/ o = Err.
Proof.
  destruct o; cbn; split; intro H; try exact I; try contradiction.
  - left. eexists. reflexivity.
  - right. reflexivity.
  - destruct H as [[v H]|H]; discriminate.
  - destruct H as [[v H]|H]; discriminate.
Qed.

(* ---------------------------------------------------------------------------------------- *)
(* dereference: the loop with its counter equals the limit-recursive DocQ.dereference        *)
(* ---------------------------------------------------------------------------------------- *)

Lemma deref_loop_eq m : forall k fuel nb last o,
  (N.of_nat k + nb = DEREF_LIMIT)%N -> k + 2 <= fuel ->
  deref_loop fuel m nb last o = of_opt (deref_aux m k last o).
Proof.
  induction k as [|k IH]; intros fuel nb last o Hk Hf.
  - destruct fuel as [|f]; [lia|]. cbn [deref_loop deref_aux].
    destruct o; try reflexivity.
    destruct (lookup m (id, gen)); [|reflexivity].
    replace (DEREF_LIMIT <? nb + 1)%N with true by (symmetry; apply N.ltb_lt; lia). reflexivity.
  - destruct fuel as [|f]; [lia|]. cbn [deref_loop deref_aux].
    destruct o; try reflexivity.
    destruct (lookup m (id, gen)); [|reflexivity].
    replace (DEREF_LIMIT <? nb + 1)%N with false by (symmetry; apply N.ltb_ge; lia).
    apply IH; lia.
Qed.

Lemma q_dereference_eq m o : q_dereference m o = of_opt (dereference m o).
Proof.
  unfold q_dereference, dereference, fuel_deref. apply deref_loop_eq; [|lia].
  rewrite N2Nat.id. lia.
Qed.

Lemma q_get_object_eq m id : q_get_object m id = of_opt (get_object m id).
Proof.
  unfold q_get_object, get_object. destruct (lookup m id); [|reflexivity].
  rewrite q_dereference_eq. destruct (dereference m o); reflexivity.
Qed.

Lemma q_get_dictionary_eq m id : q_get_dictionary m id = of_opt (get_dictionary m id).
Proof.
  unfold q_get_dictionary, get_dictionary. rewrite q_get_object_eq.
  destruct (get_object m id) as [o|]; [|reflexivity]. destruct o; reflexivity.
Qed.

Lemma q_catalog_eq d : q_catalog d = of_opt (catalog d).
Proof.
  unfold q_catalog, catalog. destruct (dict_get (d_trailer d) K_Root) as [o|]; [|reflexivity].
  destruct o; try reflexivity. apply q_get_dictionary_eq.
Qed.

(* more fuel changes nothing *)
Lemma deref_loop_total m fuel o :
  fuel_deref <= fuel -> deref_loop fuel m 0 None o = of_opt (dereference m o).
Proof.
  intro H. unfold dereference. apply deref_loop_eq; [|unfold fuel_deref in H; lia].
  rewrite N2Nat.id. lia.
Qed.

(* ---------------------------------------------------------------------------------------- *)
(* get_page_contents                                                                          *)
(* ---------------------------------------------------------------------------------------- *)

Lemma contents_loop_total m : forall k fuel nb c,
  (N.of_nat k + nb = DEREF_LIMIT)%N -> k + 1 <= fuel ->
  exists l, contents_loop fuel m nb c = Ok l.
Proof.
  induction k as [|k IH]; intros fuel nb c Hk Hf; (destruct fuel as [|f]; [lia|]); cbn [contents_loop].
  - destruct c; try (eexists; reflexivity).
    destruct (lookup m (id, gen)) as [o|]; [|eexists; reflexivity].
    replace (nb + 1 <? DEREF_LIMIT)%N with false by (symmetry; apply N.ltb_ge; lia).
    destruct o; eexists; reflexivity.
  - destruct c; try (eexists; reflexivity).
    destruct (lookup m (id, gen)) as [o|]; [|eexists; reflexivity].
    assert (Hrec : exists l, contents_loop f m (nb + 1) o = Ok l) by (apply IH; lia).
    destruct (nb + 1 <? DEREF_LIMIT)%N; destruct o; try exact Hrec; eexists; reflexivity.
Qed.

Lemma get_page_contents_total m pid fuel :
  fuel_contents <= fuel -> exists l, get_page_contents fuel m pid = Ok l.
Proof.
  intro H. unfold get_page_contents.
  destruct (get_dictionary m pid) as [page|]; [|eexists; reflexivity].
  destruct (dict_get page Q_Contents); [|eexists; reflexivity].
  apply contents_loop_total with (k := N.to_nat DEREF_LIMIT); [rewrite N2Nat.id; lia|].
  unfold fuel_contents in H. lia.
Qed.

Lemma get_page_content_total decomp m pid fuel :
  fuel_contents <= fuel -> exists b, get_page_content decomp fuel m pid = Ok b.
Proof.
  intro H. unfold get_page_content. destruct (get_page_contents_total m pid fuel H) as [l ->].
  cbn. eexists. reflexivity.
Qed.

(* ---------------------------------------------------------------------------------------- *)
(* get_page_resources: the visited set bounds the Parent walk by the number of objects        *)
(* ---------------------------------------------------------------------------------------- *)

Lemma lookup_In m id o : lookup m id = Some o -> In id (map fst m).
Proof.
  induction m as [|[i o'] m IH]; cbn [lookup map fst]; [discriminate|].
  destruct (oid_eqb i id) eqn:E.
  - intros _. left. apply oid_eqb_eq. exact E.
  - intro H. right. apply IH. exact H.
Qed.

Lemma get_object_In m id o : get_object m id = Some o -> In id (map fst m).
Proof.
  unfold get_object. destruct (lookup m id) eqn:E; [|discriminate]. intros _. eapply lookup_In. exact E.
Qed.

Lemma get_dictionary_In m id d : get_dictionary m id = Some d -> In id (map fst m).
Proof.
  unfold get_dictionary. destruct (get_object m id) eqn:E; [|discriminate]. intros _. eapply get_object_In. exact E.
Qed.

Lemma oid_mem_false id l : oid_mem id l = false -> ~ In id l.
Proof.
  unfold oid_mem. intros H Hin.
  assert (existsb (oid_eqb id) l = true); [|congruence].
  apply existsb_exists. exists id. split; [exact Hin|]. apply oid_eqb_eq. reflexivity.
Qed.

Lemma collect_resources_total m : forall fuel node ids seen,
  NoDup seen -> incl seen (map fst m) -> length m - length seen + 1 <= fuel ->
  returns (collect_resources fuel m node ids seen).
Proof.
  induction fuel as [|f IH]; intros node ids seen Hnd Hin Hf; [lia|].
  cbn [collect_resources].
  destruct (dict_get node K_Parent) as [p|]; [|exact I].
  destruct p; try exact I.
  destruct (oid_mem (id, gen) seen) eqn:Em; [exact I|].
  destruct (get_dictionary m (id, gen)) as [pd|] eqn:Ed; [|exact I].
  assert (Hnd' : NoDup ((id, gen) :: seen)) by (constructor; [apply oid_mem_false; exact Em | exact Hnd]).
  assert (Hin' : incl ((id, gen) :: seen) (map fst m)).
  { intros x [<-|Hx]; [eapply get_dictionary_In; exact Ed | apply Hin; exact Hx]. }
  apply IH; [exact Hnd' | exact Hin' |].
  pose proof (NoDup_incl_length Hnd' Hin') as Hl. rewrite map_length in Hl. cbn [length] in *. unfold oid in *. lia.
Qed.

Lemma get_page_resources_total m pid fuel :
  fuel_resources m <= fuel -> returns (get_page_resources fuel m pid).
Proof.
  intro H. unfold get_page_resources.
  destruct (get_dictionary m pid) as [page|]; [|exact I].
  apply returns_bind; [|intros; exact I].
  apply collect_resources_total; [constructor | intros x [] |].
  unfold fuel_resources in H. cbn [length]. lia.
Qed.

Lemma get_page_fonts_total m pid fuel :
  fuel_resources m <= fuel -> returns (get_page_fonts fuel m pid).
Proof.
  intro H. unfold get_page_fonts. apply returns_bind; [apply get_page_resources_total; exact H | intros; exact I].
Qed.

(* ---------------------------------------------------------------------------------------- *)
(* pages: one next() is a prefix of the C12 iteration; the size hint never exceeds the budget *)
(* ---------------------------------------------------------------------------------------- *)

Lemma iter_next_iter m : forall limit kids stack,
  iter limit m kids stack =
  match iter_next limit m kids stack with
  | (None, _) => []
  | (Some id, (l', ks', st')) => id :: iter l' m ks' st'
  end.
Proof.
  induction limit as [|l IH]; intros kids stack; cbn [iter iter_next].
  - destruct (pop_nonempty kids stack) as [[[k r] st]|]; reflexivity.
  - destruct (pop_nonempty kids stack) as [[[k r] st]|]; [|reflexivity].
    destruct k; try apply IH.
    destruct (node_type m (id, gen)); [reflexivity | | apply IH].
    destruct (N.of_nat (length st) <? PAGE_TREE_DEPTH_LIMIT)%N; apply IH.
Qed.

Lemma iter_next_limit m : forall limit kids stack,
  fst (fst (snd (iter_next limit m kids stack))) <= limit.
Proof.
  induction limit as [|l IH]; intros kids stack; cbn [iter_next].
  - destruct (pop_nonempty kids stack) as [[[k r] st]|]; cbn; lia.
  - destruct (pop_nonempty kids stack) as [[[k r] st]|]; [|cbn; lia].
    assert (H : forall ks st', fst (fst (snd (iter_next l m ks st'))) <= S l)
      by (intros; specialize (IH ks st'); lia).
    destruct k; try apply H.
    destruct (node_type m (id, gen)); [cbn; lia | | apply H].
    destruct (N.of_nat (length st) <? PAGE_TREE_DEPTH_LIMIT)%N; apply H.
Qed.

Lemma size_hint_le m limit kids stack :
  (fst (size_hint m limit kids stack) <= N.of_nat limit)%N /\ snd (size_hint m limit kids stack) = N.of_nat limit.
Proof. unfold size_hint. cbn [fst snd]. split; [apply N.le_min_r | reflexivity]. Qed.

(* the promised upper bound is one: no more than [limit] ids are ever yielded from a state *)
Lemma size_hint_upper_sound m limit kids stack :
  (N.of_nat (length (iter limit m kids stack)) <= snd (size_hint m limit kids stack))%N.
Proof.
  destruct (Proofs.PageTreeProofs.iter_total m limit kids stack) as [H _]. unfold size_hint. cbn [snd]. lia.
Qed.

Lemma sat_add_le a b : (sat_add a b <= a + b)%N.
Proof. unfold sat_add. apply N.le_min_l. Qed.

(* the allocation request of get_pages (in elements) is bounded by the number of objects *)
Lemma get_pages_alloc_bounded d :
  (get_pages_alloc d <= N.max 4 (N.of_nat (length (d_objects d)) + 1))%N.
Proof.
  unfold get_pages_alloc, hint_probe.
  pose proof (iter_next_limit (d_objects d) (length (d_objects d)) (root_kids d) []) as Hl.
  destruct (iter_next (length (d_objects d)) (d_objects d) (root_kids d) []) as [y [[l' ks'] st']].
  cbn [fst snd] in Hl.
  destruct y; [|lia].
  destruct (size_hint_le (d_objects d) l' ks' st') as [Hs _].
  pose proof (sat_add_le (fst (size_hint (d_objects d) l' ks' st')) 1) as Ha.
  lia.
Qed.

Lemma hint_probe_bounded d :
  let '(h0, _, h1) := hint_probe d in
  (fst h0 <= snd h0 <= N.of_nat (length (d_objects d)))%N /\ (fst h1 <= snd h1 <= N.of_nat (length (d_objects d)))%N.
Proof.
  unfold hint_probe.
  pose proof (iter_next_limit (d_objects d) (length (d_objects d)) (root_kids d) []) as Hl.
  destruct (iter_next (length (d_objects d)) (d_objects d) (root_kids d) []) as [y [[l' ks'] st']].
  cbn [fst snd] in Hl.
  destruct (size_hint_le (d_objects d) (length (d_objects d)) (root_kids d) []) as [A B].
  destruct (size_hint_le (d_objects d) l' ks' st') as [C D].
  rewrite B, D. lia.
Qed.

Lemma iter_nil m limit : iter limit m [] [] = [].
Proof. destruct limit; reflexivity. Qed.

Lemma page_iter_root d : page_iter d = iter (length (d_objects d)) (d_objects d) (root_kids d) [].
Proof.
  unfold page_iter, root_kids.
  destruct (catalog d) as [cat|]; [|rewrite iter_nil; reflexivity].
  destruct (dict_get cat K_Pages) as [p|]; [|rewrite iter_nil; reflexivity].
  destruct p; try (rewrite iter_nil; reflexivity). reflexivity.
Qed.

(* the first next() of the probe is the head of page_iter *)
Lemma hint_probe_first d :
  snd (fst (hint_probe d)) = hd_error (page_iter d).
Proof.
  rewrite page_iter_root, iter_next_iter. unfold hint_probe.
  destruct (iter_next (length (d_objects d)) (d_objects d) (root_kids d) []) as [[y|] [[l' ks'] st']];
    reflexivity.
Qed.

(* before the first next() the promised upper bound covers everything page_iter yields *)
Lemma hint_upper_sound d :
  (N.of_nat (length (page_iter d)) <= snd (fst (fst (hint_probe d))))%N.
Proof.
  unfold hint_probe.
  destruct (iter_next (length (d_objects d)) (d_objects d) (root_kids d) []) as [y [[l' ks'] st']].
  cbn [fst snd]. rewrite page_iter_root. apply size_hint_upper_sound.
Qed.

