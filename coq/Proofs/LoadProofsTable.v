(* LoadProofsTable.v -- composition for the cross-reference TABLE format:
   load (save_table d) returns the reloaded document, for every savable document outside the
   known-finding class. *)
From LV Require Import Base.Bytes Base.Sx Model.Obj Model.Writer Model.Parser Model.Save Model.Xref Model.Loader
  Model.Utf Gen.Lex Gen.SaveFmt Proofs.LexProofs Proofs.RealProofs Proofs.ObjectRtProofs Proofs.SaveProofs
  Proofs.FilterProofsDict Spec.SaveSpec Proofs.LoadProofs Proofs.LoadProofsFile Proofs.LoadProofsXref.

Local Open Scope N_scope.

(* ---------- the object loop without its counters ---------- *)
Definition objs_bytes (objs : objmap) : bytes :=
  flat_map (fun io => if skipped (snd io) then [] else write_indirect_object (fst (fst io)) (snd (fst io)) (snd io)) objs.

Lemma write_objects_bytes : forall objs pos x, fst (fst (write_objects pos objs x)) = objs_bytes objs.
Proof.
  induction objs as [|[[id g] o] rest IH]; intros pos x; [reflexivity|].
  cbn [write_objects objs_bytes flat_map fst snd]. destruct (skipped o); [apply IH|].
  specialize (IH (pos + Save.blen (write_indirect_object id g o)) (Save.xinsert x id (Save.XNormal (pos mod u32_mod) g))).
  destruct (write_objects _ rest _) as [[b p] x']. cbn [fst] in *. rewrite IH. reflexivity.
Qed.

Fixpoint entries_of (pos : N) (objs : objmap) : Save.xmap :=
  match objs with
  | [] => []
  | ((id, g), o) :: rest =>
    if skipped o then entries_of pos rest
    else (id, Save.XNormal (pos mod u32_mod) g) :: entries_of (pos + Save.blen (write_indirect_object id g o)) rest
  end.

Lemma save_xinsert_last : forall (m : Save.xmap) k e,
  Forall (fun ke => fst ke < k) m -> Save.xinsert m k e = m ++ [(k, e)].
Proof.
  induction m as [|[i e'] m IH]; intros k e H; [reflexivity|]. inversion H; subst. cbn [fst] in *.
  cbn [Save.xinsert app]. replace (i =? k) with false by (symmetry; apply N.eqb_neq; lia).
  replace (k <? i) with false by (symmetry; apply N.ltb_ge; lia). rewrite IH by assumption. reflexivity.
Qed.

Lemma write_objects_map : forall objs pos x lo,
  increasing lo (obj_numbers objs) -> Forall (fun ke => fst ke <= lo) x ->
  snd (write_objects pos objs x) = x ++ entries_of pos objs.
Proof.
  induction objs as [|[[id g] o] rest IH]; intros pos x lo Hinc Hx; [cbn; rewrite app_nil_r; reflexivity|].
  cbn [obj_numbers map fst increasing] in Hinc. destruct Hinc as [Hlo Hinc].
  cbn [write_objects entries_of]. destruct (skipped o).
  - apply (IH pos x id); [exact Hinc|]. eapply Forall_impl; [|exact Hx]. intros a Ha. cbn beta in *. lia.
  - specialize (IH (pos + Save.blen (write_indirect_object id g o))
                   (Save.xinsert x id (Save.XNormal (pos mod u32_mod) g)) id Hinc).
    destruct (write_objects _ rest _) as [[b p] x']. cbn [snd] in *.
    rewrite save_xinsert_last in IH by (eapply Forall_impl; [|exact Hx]; intros a Ha; cbn beta in *; lia).
    rewrite IH.
    + rewrite <- app_assoc. reflexivity.
    + apply Forall_app. split; [eapply Forall_impl; [|exact Hx]; intros a Ha; cbn beta in *; lia|].
      constructor; [cbn [fst]; lia | constructor].
Qed.

(* ---------- inserting in increasing identifier order appends ---------- *)
Lemma insert_last : forall (m : objmap) k v,
  Forall (fun io => fst (fst io) < fst k) m -> insert m k v = m ++ [(k, v)].
Proof.
  induction m as [|[i o] m IH]; intros k v H; [reflexivity|]. inversion H; subst. cbn [fst] in *.
  cbn [insert app]. unfold oid_eqb, oid_ltb.
  replace (fst i =? fst k) with false by (symmetry; apply N.eqb_neq; lia).
  replace (fst k <? fst i) with false by (symmetry; apply N.ltb_ge; lia).
  replace (fst k =? fst i) with false by (symmetry; apply N.eqb_neq; lia).
  cbn [andb orb]. rewrite IH by assumption. reflexivity.
Qed.

(* ---------- read_entries over the written objects ---------- *)
Definition obj_ok (io : oid * obj) : Prop :=
  fst (fst io) <= u32_max /\ snd (fst io) <= u16_max /\ top_wf (snd io) /\
  (nest (snd io) <= MAX_DEPTH)%nat /\ skipped (snd io) = false.

Lemma norm_obj_name_inv v n : norm_obj v = OName n -> v = OName n.
Proof.
  destruct v; cbn [norm_obj]; intro H; try discriminate H; try exact H.
  unfold norm_real in H. destruct (strip_minus r) as [neg t].
  destruct (forallb is_dec_digit t); [destruct (REAL_POINT_DISPLAY_THRESHOLD <=? digits_val t)|]; discriminate H.
Qed.

Lemma not_objstm d c : skipped (OStream d c) = false -> has_type (norm_dict d) K_ObjStm = false.
Proof.
  intro Hs. unfold has_type. rewrite dict_get_norm.
  destruct (dict_get d K_Type) as [v|] eqn:Et; [|reflexivity]. cbn [option_map].
  destruct (norm_obj v) as [| | | |n| | | | |] eqn:En; try reflexivity.
  apply norm_obj_name_inv in En. subst v.
  unfold skipped, type_name, get_type in Hs. rewrite Et in Hs.
  unfold SKIP_TYPES in Hs. cbn [existsb] in Hs. apply orb_false_iff in Hs as [Hs _]. exact Hs.
Qed.

Lemma read_entries_cons buf k off g es acc id no :
  Loader.blen buf <? off = false -> indirect_object (from off buf) None = IOk id no ->
  (forall d c, no = OStream d c -> has_type d K_ObjStm = false) ->
  read_entries buf ((k, Xref.XNormal off g) :: es) acc = read_entries buf es (insert acc id no).
Proof.
  intros H1 H2 H3. cbn [read_entries]. rewrite H1, H2.
  destruct no; try reflexivity. rewrite (H3 _ _ eq_refl). reflexivity.
Qed.

Lemma objs_bytes_cons id g o rest :
  skipped o = false -> objs_bytes (((id, g), o) :: rest) = write_indirect_object id g o ++ objs_bytes rest.
Proof. intro H. unfold objs_bytes. cbn [flat_map fst snd]. rewrite H. reflexivity. Qed.

Lemma read_entries_objs : forall objs pre tail acc lo,
  Forall obj_ok objs -> increasing lo (obj_numbers objs) ->
  Forall (fun io => fst (fst io) <= lo) acc ->
  Loader.blen (pre ++ objs_bytes objs ++ tail) < u32_mod ->
  read_entries (pre ++ objs_bytes objs ++ tail) (conv_map (entries_of (Save.blen pre) objs)) acc =
  SOk (acc ++ norm_objects objs).
Proof.
  induction objs as [|[[id g] o] rest IH]; intros pre tail acc lo Hok Hinc Hacc Hsmall.
  - cbn. rewrite app_nil_r. reflexivity.
  - inversion Hok as [|? ? [Hid [Hg [Hw [Hn Hsk]]]] Hok']; subst. cbn [fst snd] in *.
    cbn [obj_numbers map fst increasing] in Hinc. destruct Hinc as [Hlo Hinc].
    rewrite objs_bytes_cons in * by exact Hsk.
    cbn [entries_of]. rewrite Hsk. cbn [conv_map map conv_entry fst snd].
    assert (Hpos : Save.blen pre mod u32_mod = Save.blen pre).
    { apply N.mod_small. unfold Loader.blen, Save.blen in *. rewrite app_length in Hsmall. lia. }
    rewrite Hpos. unfold conv_entry at 1. cbn [fst snd].
    fold (conv_map (entries_of (Save.blen pre + Save.blen (write_indirect_object id g o)) rest)).
    rewrite (read_entries_cons _ _ _ _ _ _ (id, g) (norm_obj o)).
    + rewrite insert_last by (cbn [fst]; eapply Forall_impl; [|exact Hacc]; intros a Ha; cbn beta in *; lia).
      replace (pre ++ (write_indirect_object id g o ++ objs_bytes rest) ++ tail)
        with ((pre ++ write_indirect_object id g o) ++ objs_bytes rest ++ tail)
        by (rewrite <- !app_assoc; reflexivity).
      replace (Save.blen pre + Save.blen (write_indirect_object id g o))
        with (Save.blen (pre ++ write_indirect_object id g o)) by apply blen_app.
      rewrite (IH _ tail _ id); try assumption.
      * rewrite <- app_assoc. reflexivity.
      * apply Forall_app. split; [eapply Forall_impl; [|exact Hacc]; intros a Ha; cbn beta in *; lia|].
        constructor; [cbn [fst]; lia | constructor].
      * rewrite <- app_assoc. rewrite <- app_assoc in Hsmall. exact Hsmall.
    + apply N.ltb_ge. unfold Loader.blen, Save.blen. rewrite app_length. lia.
    + change (Save.blen pre) with (Loader.blen pre). rewrite <- app_assoc. rewrite from_app.
      apply indirect_object_rt; assumption.
    + intros d c E. destruct o; cbn [norm_obj] in E; try discriminate E.
      * exfalso. unfold norm_real in E. destruct (strip_minus r) as [neg t].
        destruct (forallb is_dec_digit t); [destruct (REAL_POINT_DISPLAY_THRESHOLD <=? digits_val t)|]; discriminate E.
      * inversion E; subst. apply not_objstm with (c := c). exact Hsk.
Qed.

(* ---------- the writer's map is sorted, bounded and holds in-range Normal entries ---------- *)
Lemma entries_of_props : forall objs pos lo B,
  Forall obj_ok objs -> increasing lo (obj_numbers objs) -> Forall (fun io => fst (fst io) < B) objs ->
  incr (lo + 1) (entries_of pos objs) /\ Forall (fun ke => fst ke < B) (entries_of pos objs) /\
  Forall normal_ok (entries_of pos objs).
Proof.
  induction objs as [|[[id g] o] rest IH]; intros pos lo B Hok Hinc Hb; [repeat split; constructor|].
  inversion Hok as [|? ? [Hid [Hg [Hw [Hn Hsk]]]] Hok']; subst. inversion Hb; subst. cbn [fst snd] in *.
  cbn [obj_numbers map fst increasing] in Hinc. destruct Hinc as [Hlo Hinc].
  cbn [entries_of]. rewrite Hsk.
  destruct (IH (pos + Save.blen (write_indirect_object id g o)) id B Hok' Hinc) as [K1 [K2 K3]]; [assumption|].
  split; [|split].
  - cbn [incr]. split; [lia | exact K1].
  - constructor; [cbn [fst]; assumption | exact K2].
  - constructor; [|exact K3]. unfold normal_ok. cbn [snd]. split; [|exact Hg].
    pose proof (N.mod_lt pos u32_mod ltac:(unfold u32_mod; lia)). unfold u32_max, u32_mod in *. lia.
Qed.
