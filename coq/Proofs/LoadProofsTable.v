(* LoadProofsTable.v -- composition for the cross-reference TABLE format:
   load (so_bytes (save_core XTable d)) returns the reloaded document, for every savable_core document outside the
   known-finding class. *)
From LV Require Import Base.Bytes Base.Sx Model.Obj Model.Writer Model.Parser Model.Save Model.Xref Model.Loader
  Model.LoaderEnc Proofs.LoaderEncProofs Model.Utf Gen.Lex Gen.SaveFmt Proofs.LexProofs Proofs.RealProofs Proofs.ObjectRtProofs Proofs.SaveProofs
  Proofs.FilterProofsDict Spec.SaveSpec Proofs.LoadProofs Proofs.LoadProofsFile Proofs.LoadProofsXref.

Local Open Scope N_scope.

(* ---------- the object loop without its counters ---------- *)
Definition objs_bytes (objs : objmap) : bytes :=
  flat_map (fun io => if skipped (snd io) then [] else write_indirect_object (fst (fst io)) (snd (fst io)) (snd io)) objs.

Lemma write_objects_bytes : forall objs pos x, fst (fst (write_objects pos objs x)) = objs_bytes objs.
Proof.
  induction objs as [|[[id g] o] rest IH]; intros pos x; [reflexivity|].
  cbn [write_objects objs_bytes flat_map fst snd]. destruct (skipped o); [apply IH|].
  specialize (IH (pos + Save.blen (write_indirect_object id g o)) (Save.xinsert x id (Save.XNormal (pos mod u32_mod) g))).
  destruct (write_objects _ rest _) as [[b p] x']. cbn [fst] in *. rewrite IH. reflexivity.
Qed.

Fixpoint entries_of (pos : N) (objs : objmap) : Save.xmap :=
  match objs with
  | [] => []
  | ((id, g), o) :: rest =>
    if skipped o then entries_of pos rest
    else (id, Save.XNormal (pos mod u32_mod) g) :: entries_of (pos + Save.blen (write_indirect_object id g o)) rest
  end.

Lemma save_xinsert_last : forall (m : Save.xmap) k e,
  Forall (fun ke => fst ke < k) m -> Save.xinsert m k e = m ++ [(k, e)].
Proof.
  induction m as [|[i e'] m IH]; intros k e H; [reflexivity|]. inversion H; subst. cbn [fst] in *.
  cbn [Save.xinsert app]. replace (i =? k) with false by (symmetry; apply N.eqb_neq; lia).
  replace (k <? i) with false by (symmetry; apply N.ltb_ge; lia). rewrite IH by assumption. reflexivity.
Qed.

Lemma write_objects_map : forall objs pos x lo,
  increasing lo (obj_numbers objs) -> Forall (fun ke => fst ke <= lo) x ->
  snd (write_objects pos objs x) = x ++ entries_of pos objs.
Proof.
  induction objs as [|[[id g] o] rest IH]; intros pos x lo Hinc Hx; [cbn; rewrite app_nil_r; reflexivity|].
  cbn [obj_numbers map fst increasing] in Hinc. destruct Hinc as [Hlo Hinc].
  cbn [write_objects entries_of]. destruct (skipped o).
  - apply (IH pos x id); [exact Hinc|]. eapply Forall_impl; [|exact Hx]. intros a Ha. cbn beta in *. lia.
  - specialize (IH (pos + Save.blen (write_indirect_object id g o))
                   (Save.xinsert x id (Save.XNormal (pos mod u32_mod) g)) id Hinc).
    destruct (write_objects _ rest _) as [[b p] x']. cbn [snd] in *.
    rewrite save_xinsert_last in IH by (eapply Forall_impl; [|exact Hx]; intros a Ha; cbn beta in *; lia).
    rewrite IH.
    + rewrite <- app_assoc. reflexivity.
    + apply Forall_app. split; [eapply Forall_impl; [|exact Hx]; intros a Ha; cbn beta in *; lia|].
      constructor; [cbn [fst]; lia | constructor].
Qed.

(* ---------- inserting in increasing identifier order appends ---------- *)
Lemma insert_last : forall (m : objmap) k v,
  Forall (fun io => fst (fst io) < fst k) m -> insert m k v = m ++ [(k, v)].
Proof.
  induction m as [|[i o] m IH]; intros k v H; [reflexivity|]. inversion H; subst. cbn [fst] in *.
  cbn [insert app]. unfold oid_eqb, oid_ltb.
  replace (fst i =? fst k) with false by (symmetry; apply N.eqb_neq; lia).
  replace (fst k <? fst i) with false by (symmetry; apply N.ltb_ge; lia).
  replace (fst k =? fst i) with false by (symmetry; apply N.eqb_neq; lia).
  cbn [andb orb]. rewrite IH by assumption. reflexivity.
Qed.

(* ---------- read_entries over the written objects ---------- *)
Definition obj_ok (io : oid * obj) : Prop :=
  fst (fst io) <= u32_max /\ snd (fst io) <= u16_max /\ top_wf (snd io) /\
  (nest (snd io) <= MAX_DEPTH)%nat /\ skipped (snd io) = false.

Lemma norm_obj_name_inv v n : norm_obj v = OName n -> v = OName n.
Proof.
  destruct v; cbn [norm_obj]; intro H; try discriminate H; try exact H.
  unfold norm_real in H. destruct (strip_minus r) as [neg t].
  destruct (forallb is_dec_digit t); [destruct (REAL_POINT_DISPLAY_THRESHOLD <=? digits_val t)|]; discriminate H.
Qed.

Lemma not_objstm d c : skipped (OStream d c) = false -> has_type (norm_dict d) K_ObjStm = false.
Proof.
  intro Hs. unfold has_type. rewrite dict_get_norm.
  destruct (dict_get d K_Type) as [v|] eqn:Et; [|reflexivity]. cbn [option_map].
  destruct (norm_obj v) as [| | | |n| | | | |] eqn:En; try reflexivity.
  apply norm_obj_name_inv in En. subst v.
  unfold skipped, type_name, get_type in Hs. rewrite Et in Hs.
  unfold SKIP_TYPES in Hs. cbn [existsb] in Hs. apply orb_false_iff in Hs as [Hs _]. exact Hs.
Qed.

Lemma read_entries_cons buf k off g es acc id no :
  Loader.blen buf <? off = false -> indirect_object (from off buf) None = IOk id no ->
  (forall d c, no = OStream d c -> has_type d K_ObjStm = false) ->
  read_entries buf ((k, Xref.XNormal off g) :: es) acc = read_entries buf es (insert acc id no).
Proof.
  intros H1 H2 H3. cbn [read_entries]. rewrite H1, H2.
  destruct no; try reflexivity. rewrite (H3 _ _ eq_refl). reflexivity.
Qed.

Lemma objs_bytes_cons id g o rest :
  skipped o = false -> objs_bytes (((id, g), o) :: rest) = write_indirect_object id g o ++ objs_bytes rest.
Proof. intro H. unfold objs_bytes. cbn [flat_map fst snd]. rewrite H. reflexivity. Qed.

Lemma read_entries_objs : forall objs pre tail acc lo,
  Forall obj_ok objs -> increasing lo (obj_numbers objs) ->
  Forall (fun io => fst (fst io) <= lo) acc ->
  Loader.blen (pre ++ objs_bytes objs ++ tail) < u32_mod ->
  read_entries (pre ++ objs_bytes objs ++ tail) (conv_map (entries_of (Save.blen pre) objs)) acc =
  SOk (acc ++ norm_objects objs).
Proof.
  induction objs as [|[[id g] o] rest IH]; intros pre tail acc lo Hok Hinc Hacc Hsmall.
  - cbn. rewrite app_nil_r. reflexivity.
  - inversion Hok as [|? ? [Hid [Hg [Hw [Hn Hsk]]]] Hok']; subst. cbn [fst snd] in *.
    cbn [obj_numbers map fst increasing] in Hinc. destruct Hinc as [Hlo Hinc].
    rewrite objs_bytes_cons in * by exact Hsk.
    cbn [entries_of]. rewrite Hsk. cbn [conv_map map conv_entry fst snd].
    assert (Hpos : Save.blen pre mod u32_mod = Save.blen pre).
    { apply N.mod_small. unfold Loader.blen, Save.blen in *. rewrite app_length in Hsmall. lia. }
    rewrite Hpos. unfold conv_entry at 1. cbn [fst snd].
    fold (conv_map (entries_of (Save.blen pre + Save.blen (write_indirect_object id g o)) rest)).
    rewrite (read_entries_cons _ _ _ _ _ _ (id, g) (norm_obj o)).
    + rewrite insert_last by (cbn [fst]; eapply Forall_impl; [|exact Hacc]; intros a Ha; cbn beta in *; lia).
      replace (pre ++ (write_indirect_object id g o ++ objs_bytes rest) ++ tail)
        with ((pre ++ write_indirect_object id g o) ++ objs_bytes rest ++ tail)
        by (rewrite <- !app_assoc; reflexivity).
      replace (Save.blen pre + Save.blen (write_indirect_object id g o))
        with (Save.blen (pre ++ write_indirect_object id g o)) by apply blen_app.
      rewrite (IH _ tail _ id); try assumption.
      * rewrite <- app_assoc. reflexivity.
      * apply Forall_app. split; [eapply Forall_impl; [|exact Hacc]; intros a Ha; cbn beta in *; lia|].
        constructor; [cbn [fst]; lia | constructor].
      * rewrite <- app_assoc. rewrite <- app_assoc in Hsmall. exact Hsmall.
    + apply N.ltb_ge. unfold Loader.blen, Save.blen. rewrite app_length. lia.
    + change (Save.blen pre) with (Loader.blen pre). rewrite <- app_assoc. rewrite from_app.
      apply indirect_object_rt; assumption.
    + intros d c E. destruct o; cbn [norm_obj] in E; try discriminate E.
      * exfalso. unfold norm_real in E. destruct (strip_minus r) as [neg t].
        destruct (forallb is_dec_digit t); [destruct (REAL_POINT_DISPLAY_THRESHOLD <=? digits_val t)|]; discriminate E.
      * inversion E; subst. apply not_objstm with (c := c). exact Hsk.
Qed.

(* ---------- the writer's map is sorted, bounded and holds in-range Normal entries ---------- *)
Lemma entries_of_props : forall objs pos lo B,
  Forall obj_ok objs -> increasing lo (obj_numbers objs) -> Forall (fun io => fst (fst io) < B) objs ->
  incr (lo + 1) (entries_of pos objs) /\ Forall (fun ke => fst ke < B) (entries_of pos objs) /\
  Forall normal_ok (entries_of pos objs).
Proof.
  induction objs as [|[[id g] o] rest IH]; intros pos lo B Hok Hinc Hb; [repeat split; constructor|].
  inversion Hok as [|? ? [Hid [Hg [Hw [Hn Hsk]]]] Hok']; subst. inversion Hb; subst. cbn [fst snd] in *.
  cbn [obj_numbers map fst increasing] in Hinc. destruct Hinc as [Hlo Hinc].
  cbn [entries_of]. rewrite Hsk.
  destruct (IH (pos + Save.blen (write_indirect_object id g o)) id B Hok' Hinc) as [K1 [K2 K3]]; [assumption|].
  split; [|split].
  - cbn [incr]. split; [lia | exact K1].
  - constructor; [cbn [fst]; assumption | exact K2].
  - constructor; [|exact K3]. unfold normal_ok. cbn [snd]. split; [|exact Hg].
    pose proof (N.mod_lt pos u32_mod ltac:(unfold u32_mod; lia)). unfold u32_max, u32_mod in *. lia.
Qed.

(* ---------- facts that follow from savable_core ----------
   The lemmas are proved on [savable_core_enc] (the domain without "no Encrypt entry"); the statements on
   [savable_core] follow by [core_enc]. *)
Lemma core_enc d : savable_core d -> savable_core_enc d.
Proof.
  intro S. constructor;
    [apply (sv_max_id d S) | apply (sv_mark d S) | apply (sv_version_eol d S) | apply (sv_version_utf8 d S)
    | apply (sv_numbers d S) | apply (sv_objects d S) | apply (sv_trailer d S) | apply (sv_no_prev d S)].
Qed.

Lemma core_of_enc d : savable_core_enc d -> dict_has (d_trailer d) Save.K_Encrypt = false -> savable_core d.
Proof.
  intros S E. constructor;
    [apply (se_max_id d S) | apply (se_mark d S) | apply (se_version_eol d S) | apply (se_version_utf8 d S)
    | apply (se_numbers d S) | apply (se_objects d S) | apply (se_trailer d S) | apply (se_no_prev d S) | exact E].
Qed.

Lemma dict_set_forall (P : bytes * obj -> Prop) : forall d k v,
  Forall P d -> P (k, v) -> (forall k' v', P (k', v') -> P (k', v)) -> Forall P (dict_set d k v).
Proof.
  induction d as [|[k' v'] d IH]; intros k v Hd Hp Hrepl; cbn [dict_set]; [constructor; [exact Hp|constructor]|].
  inversion Hd; subst. destruct (bytes_eqb k' k).
  - constructor; [apply (Hrepl k' v'); assumption | assumption].
  - constructor; [assumption | apply IH; assumption].
Qed.

Lemma nest_dict_set : forall d k z, (nest_dict (dict_set d k (OInt z)) <= nest_dict d)%nat.
Proof.
  induction d as [|[k' v'] d IH]; intros k z; cbn [dict_set nest_dict fold_right snd nest]; [lia|].
  destruct (bytes_eqb k' k); cbn [nest_dict fold_right snd nest].
  - fold (nest_dict d). lia.
  - fold (nest_dict d). fold (nest_dict (dict_set d k (OInt z))). specialize (IH k z). lia.
Qed.

Lemma trailer_table_wf_enc d :
  savable_core_enc d -> obj_wf (ODict (trailer_table d)).
Proof.
  intro S. pose proof (se_trailer d S) as Hw. inversion Hw as [| | | | | | |tr Hnd Hf|]; subst.
  unfold trailer_table. constructor.
  - apply (dict_set_wf (d_trailer d) Save.K_Size _ Hnd).
  - apply dict_set_forall; [exact Hf | | intros; constructor].
    + cbn [snd]. constructor. pose proof (se_max_id d S). unfold in_i64, i64_min, i64_max, u32_mod in *.
      apply andb_true_iff; split; apply Z.leb_le; lia.
    + cbn [snd]. pose proof (se_max_id d S). unfold in_i64, i64_min, i64_max, u32_mod in *.
      apply andb_true_iff; split; apply Z.leb_le; lia.
Qed.

Lemma trailer_table_wf d :
  savable_core d -> obj_wf (ODict (trailer_table d)).
Proof. intro S. apply trailer_table_wf_enc. apply core_enc. exact S. Qed.

Lemma trailer_table_nest d :
  known_deep d = false -> (nest (ODict (trailer_table d)) <= MAX_DEPTH)%nat.
Proof.
  intro K. unfold known_deep in K. apply orb_false_iff in K as [_ K]. apply Nat.ltb_ge in K.
  unfold trailer_table. cbn [nest] in *. fold (nest_dict (d_trailer d)) in K.
  fold (nest_dict (dict_set (d_trailer d) Save.K_Size (OInt (Z.of_N (d_max_id d + 1))))).
  pose proof (nest_dict_set (d_trailer d) Save.K_Size (Z.of_N (d_max_id d + 1))). pose proof (Nat.le_max_r 2 (S (nest_dict (d_trailer d)))). lia.
Qed.

Lemma savable_objs_ok_enc d :
  savable_core_enc d -> known_deep d = false -> Forall obj_ok (d_objects d).
Proof.
  intros S K. pose proof (se_objects d S) as Ho. pose proof (se_max_id d S) as Hm.
  unfold known_deep in K. apply orb_false_iff in K as [K _].
  rewrite Forall_forall in *. intros io Hin. specialize (Ho io Hin). destruct Ho as [H1 [H2 [H3 H4]]].
  unfold obj_ok. split; [|split; [|split; [|split]]]; try assumption.
  - unfold u32_max, u32_mod in *. apply N.le_trans with (d_max_id d); [exact H1|]. clear - Hm. lia.
  - assert (Hk : (MAX_DEPTH <? nest (snd io))%nat = false).
    { destruct (MAX_DEPTH <? nest (snd io))%nat eqn:E; [|reflexivity].
      assert (existsb (fun io => (MAX_DEPTH <? nest (snd io))%nat) (d_objects d) = true)
        by (apply existsb_exists; exists io; split; assumption). congruence. }
    apply Nat.ltb_ge in Hk. exact Hk.
Qed.

Lemma savable_objs_ok d :
  savable_core d -> known_deep d = false -> Forall obj_ok (d_objects d).
Proof. intro S. apply savable_objs_ok_enc. apply core_enc. exact S. Qed.

Lemma save_table_ok_enc d : savable_core_enc d -> so_status (save_core XTable d) = SaveOk.
Proof.
  intro S. unfold save_core.
  replace (u32_top <=? d_max_id d) with false
    by (symmetry; apply N.leb_gt; pose proof (se_max_id d S); unfold u32_top, u32_mod in *; lia).
  rewrite (se_mark d S). cbn [negb]. destruct (save_body d) as [[b xs] x]. reflexivity.
Qed.

Lemma save_table_ok d : savable_core d -> so_status (save_core XTable d) = SaveOk.
Proof. intro S. apply save_table_ok_enc. apply core_enc. exact S. Qed.

Lemma max_id_fold : forall objs pos a,
  Forall obj_ok objs ->
  fold_left (fun a ke => N.max a (fst ke)) (conv_map (entries_of pos objs)) a =
  fold_left (fun a (io : oid * obj) => N.max a (fst (fst io))) objs a.
Proof.
  induction objs as [|[[id g] o] rest IH]; intros pos a Hok; [reflexivity|].
  inversion Hok as [|? ? [_ [_ [_ [_ Hsk]]]] Hok']; subst. cbn [snd] in Hsk.
  cbn [entries_of]. rewrite Hsk. cbn [conv_map map fold_left]. unfold conv_entry at 1. cbn [fst snd].
  apply IH. exact Hok'.
Qed.

Lemma fold_max_le : forall (objs : objmap) a B,
  a <= B -> Forall (fun io => fst (fst io) <= B) objs ->
  fold_left (fun a (io : oid * obj) => N.max a (fst (fst io))) objs a <= B.
Proof.
  induction objs as [|io objs IH]; intros a B Ha Hf; [exact Ha|]. inversion Hf; subst. cbn [fold_left]. apply IH; [apply N.max_lub; assumption | assumption].
Qed.

Lemma dict_has_false_get d k : dict_has d k = false -> dict_get d k = None.
Proof. unfold dict_has. destruct (dict_get d k); [discriminate | reflexivity]. Qed.

Lemma table_sections_nonempty (x : Save.xmap) size : table_sections x size <> [].
Proof.
  intro E. pose proof (flatten_sections_loop (N.to_nat (size - 1)) 1 x table_conv 0 [Save.XUnusable] (or_intror eq_refl)) as F.
  unfold table_sections in E. rewrite E in F. discriminate F.
Qed.

Lemma sections_loop_nonempty : forall n id (x : Save.xmap) conv start cur,
  Forall (fun s : xsection => snd s <> []) (sections_loop n id x conv start cur).
Proof.
  induction n as [|n IH]; intros id x conv start cur; cbn [sections_loop].
  - destruct cur; [constructor|]. constructor; [cbn [snd]; discriminate | constructor].
  - destruct (Save.xget x id); [apply IH|]. destruct cur; [apply IH|].
    constructor; [cbn [snd]; discriminate | apply IH].
Qed.

Lemma write_xref_long (x : Save.xmap) size : (6 <= length (write_xref x size))%nat.
Proof.
  unfold write_xref. rewrite app_length. cbn [length].
  pose proof (table_sections_nonempty x size) as Hne.
  pose proof (sections_loop_nonempty (N.to_nat (size - 1)) 1 x table_conv 0 [Save.XUnusable]) as Hn.
  fold (table_sections x size) in Hn.
  destruct (table_sections x size) as [|[s es] secs]; [contradiction|].
  inversion Hn as [|? ? Hes _]; subst. cbn [snd] in Hes.
  cbn [flat_map]. rewrite app_length. rewrite write_xref_section_eq by exact Hes. rewrite app_length.
  pose proof (N_dec_nonempty s). destruct (N_dec s); [contradiction|]. cbn [length].
  pose proof (eq_refl : length (bs "xref") = 4%nat). lia.
Qed.

(* ---------- the composition ----------
   [front_save_table]: the reader's front (header, mark, startxref, table, trailer, Prev, size) on the bytes save wrote,
   and the objects its table leads to -- for every document of the domain, with or without an Encrypt entry.
   [load_save_table] (no Encrypt: Loader.load) and Proofs/LoadProofsFull.v's theorems about LoaderEnc.load_encx (the
   decrypt attempt gets exactly this document) both follow from it. *)
Definition table_xref (x : Save.xmap) (size : N) : xref :=
  {| x_type := XTTable; x_entries := conv_map x; x_size := i64_as_u32 (Z.of_N size) |}.

Theorem front_save_table d :
  savable_core_enc d -> known_deep d = false -> small_file_core XTable d ->
  exists x : Save.xmap,
    load_front (so_bytes (save_core XTable d)) =
      SOk {| f_buf := so_bytes (save_core XTable d); f_version := d_version d; f_mark := d_binary_mark d;
             f_xref := table_xref x (d_max_id d + 1); f_trailer := norm_dict (trailer_table d) |} /\
    xref_max_id (table_xref x (d_max_id d + 1)) = last_number (d_objects d) /\
    Forall normal_ok x /\
    read_entries (so_bytes (save_core XTable d)) (conv_map x) [] = SOk (norm_objects (d_objects d)).
Proof.
  intros S K Hsmall.
  pose proof (save_table_ok_enc d S) as Hok.
  destruct (save_core_shape XTable d Hok) as [mid [Hbytes Hmid]].
  set (v := d_version d). set (m := d_binary_mark d). set (objs := d_objects d).
  set (t := trailer_table d). set (size := d_max_id d + 1).
  set (HM := header_bytes d ++ mark_bytes d).
  assert (Hobjs : Forall obj_ok objs) by (apply savable_objs_ok_enc; assumption).
  assert (Hinc : increasing 0 (obj_numbers objs)) by (apply (se_numbers d S)).
  assert (Ebody : body_of d = HM ++ objs_bytes objs).
  { unfold body_of. rewrite save_body_eq. cbv zeta. cbn [fst]. fold HM. fold objs. rewrite write_objects_bytes. reflexivity. }
  assert (Ex : xmap_of d = entries_of (Save.blen HM) objs).
  { unfold xmap_of. rewrite save_body_eq. cbv zeta. cbn [snd]. fold HM. fold objs.
    rewrite (write_objects_map objs (Save.blen HM) [] 0 Hinc (Forall_nil _)). reflexivity. }
  set (n := Save.blen (body_of d)).
  set (sx := startxref_bytes n).
   rewrite Hbytes. fold n. fold sx. subst mid. rewrite Ex. fold t. fold size.
  set (x := entries_of (Save.blen HM) objs).
  set (file := body_of d ++ (write_xref x size ++ trailer_bytes t) ++ sx).
  assert (Hsm : Loader.blen file < u32_mod).
  { unfold small_file_core in Hsmall. rewrite Hbytes in Hsmall. rewrite Ex in Hsmall. exact Hsmall. }
  (* three views of the file *)
  assert (E1 : file = bs "%PDF-" ++ v ++ x0a :: x25 :: m ++ x0a :: (objs_bytes objs ++ (write_xref x size ++ trailer_bytes t) ++ sx)).
  { unfold file. rewrite Ebody. unfold HM, header_bytes, mark_bytes. fold v. fold m.
    repeat (rewrite <- app_assoc; cbn [app]). reflexivity. }
  assert (E2 : file = (body_of d ++ write_xref x size ++ trailer_bytes t) ++ sx).
  { unfold file. rewrite <- !app_assoc. reflexivity. }
  assert (E3 : file = HM ++ objs_bytes objs ++ ((write_xref x size ++ trailer_bytes t) ++ sx)).
  { unfold file. rewrite Ebody. rewrite <- !app_assoc. reflexivity. }
  (* the map *)
  destruct (entries_of_props objs (Save.blen HM) 0 size Hobjs Hinc) as [Hxi [Hxb Hxn]].
  { pose proof (se_objects d S) as Ho. eapply Forall_impl; [|exact Ho]. intros io [H1 _]. unfold size. lia. }
  fold x in Hxi, Hxb, Hxn. replace (0 + 1) with 1 in Hxi by lia.
  pose proof (se_max_id d S) as Hmax.
  exists x.
  assert (Hmaxid : xref_max_id (table_xref x size) = last_number objs).
  { unfold xref_max_id, last_number, table_xref. cbn [x_entries]. unfold x. apply max_id_fold. exact Hobjs. }
  split; [|split; [exact Hmaxid|split; [exact Hxn|]]].
  - (* the front *)
    unfold load_front.
    assert (Hoff : pdf_offset file = 0) by (rewrite E1; apply pdf_offset_header).
    rewrite Hoff, from_0.
    assert (Hhead : header file = Some v).
    { rewrite E1. apply header_rt; [apply (se_version_eol d S) | apply (se_version_utf8 d S)]. }
    rewrite Hhead.
    assert (Hmark : read_binary_mark file = m).
    { rewrite E1. apply binary_mark_rt; [apply (se_version_eol d S) | apply (se_mark d S)]. }
    rewrite Hmark.
    assert (Hn_len : n = Loader.blen (body_of d)) by reflexivity.
    assert (Hstart : get_xref_start file = Some n).
    { rewrite E2. apply get_xref_start_rt.
      - rewrite Hn_len. unfold Loader.blen. rewrite app_length. lia.
      - pose proof (write_xref_long x size) as Hxl.
        unfold Loader.blen. rewrite Ebody. unfold HM, header_bytes, mark_bytes, trailer_bytes.
        repeat (rewrite app_length; cbn [length]).
        pose proof (eq_refl : length (bs "%PDF-") = 5%nat). pose proof (eq_refl : length (bs "trailer") = 7%nat).
        assert (4 <= length (write_dictionary t))%nat.
        { unfold write_dictionary. rewrite write_dict_eq. cbn [length]. rewrite app_length. cbn [length]. lia. }
        lia.
      - assert (n < u32_mod).
        { rewrite Hn_len. unfold file, Loader.blen in *. rewrite app_length in Hsm. lia. }
        unfold u32_mod in *. change (10 ^ 14) with 100000000000000. lia. }
    rewrite Hstart.
    (* xref and trailer *)
    assert (Hwf : obj_wf (ODict t)) by (apply trailer_table_wf_enc; exact S).
    assert (Hnest : (nest (ODict t) <= MAX_DEPTH)%nat) by (apply trailer_table_nest; exact K).
    assert (Hxt : xref_and_trailer file n = SOk (table_xref x size, norm_dict t)).
    { unfold xref_and_trailer. rewrite Hn_len. unfold file. rewrite from_app.
      unfold xref_and_trailer_table.
      assert (Etr : trailer_bytes t ++ sx = bs "trailer" ++ x0a :: write_dictionary t ++ sx).
      { unfold trailer_bytes. repeat (rewrite <- app_assoc; cbn [app]). reflexivity. }
      rewrite <- app_assoc. rewrite Etr.
      rewrite xref_table_roundtrip; [| unfold size; lia | unfold size, two32, u32_mod in *; lia | exact Hxi | exact Hxb | exact Hxn].
      rewrite <- Etr. rewrite trailer_rt by assumption.
      rewrite dict_get_norm. unfold t, trailer_table. rewrite dict_get_set_same. cbn [option_map norm_obj].
      reflexivity. }
    rewrite Hxt.
    (* Prev, size *)
    assert (Hprev : dict_get (norm_dict t) Xref.K_Prev = None).
    { change Xref.K_Prev with Save.K_Prev. rewrite dict_get_norm. unfold t, trailer_table. rewrite dict_get_set_other by discriminate.
      rewrite (dict_has_false_get _ _ (se_no_prev d S)). reflexivity. }
    rewrite Hprev.
    assert (Hsr : dict_swap_remove (norm_dict t) Xref.K_Prev = norm_dict t).
    { unfold dict_swap_remove, dict_has. rewrite Hprev. reflexivity. }
    rewrite Hsr. cbn [prev_loop].
    rewrite Hmaxid.
    assert (Hlast : last_number objs <= d_max_id d).
    { unfold last_number. apply fold_max_le; [lia|]. pose proof (se_objects d S) as Ho.
      eapply Forall_impl; [|exact Ho]. intros io [H1 _]. exact H1. }
    replace (u32_max <=? last_number objs) with false
      by (symmetry; apply N.leb_gt; unfold u32_max, u32_mod in *; lia).
    reflexivity.
  - (* the objects *)
    rewrite E3. unfold x. rewrite (read_entries_objs objs HM _ [] 0); try assumption.
    + reflexivity.
    + constructor.
    + rewrite E3 in Hsm. exact Hsm.
Qed.

Theorem load_save_table d :
  savable_core d -> known_deep d = false -> small_file_core XTable d ->
  load (so_bytes (save_core XTable d)) = LOk (reloaded_table d) XTTable.
Proof.
  intros S K Hsmall.
  destruct (front_save_table d (core_enc d S) K Hsmall) as [x [Hf [Hm [_ Hr]]]].
  rewrite load_front_eq, Hf. unfold of_front, load_tail. cbn [f_trailer f_buf f_xref].
  assert (Henc : dict_has (norm_dict (trailer_table d)) Loader.K_Encrypt = false).
  { unfold dict_has. rewrite dict_get_norm. unfold trailer_table. rewrite dict_get_set_other by discriminate.
    change Loader.K_Encrypt with Save.K_Encrypt. rewrite (dict_has_false_get _ _ (sv_no_encrypt d S)). reflexivity. }
  rewrite Henc. change (x_entries (table_xref x (d_max_id d + 1))) with (conv_map x). rewrite Hr.
  unfold doc_of. cbn [f_version f_mark f_trailer f_xref]. rewrite Hm. reflexivity.
Qed.
