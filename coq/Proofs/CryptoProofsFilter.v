(* CryptoProofsFilter.v -- C05 rung 1: each crypt filter decrypts what it encrypted (filter_rt), and an
   AES ciphertext is longer than its plaintext. *)
From LV Require Import Base.Bytes Model.Obj Model.Crypto.Word Model.Crypto.RC4 Model.Crypto.PKCS5
  Model.Crypto.Handler Proofs.CryptoProofs.
Local Open Scope N_scope.

(* what the theorems assume about the third-party block cipher: decryption inverts encryption on
   16-byte blocks under the same key, and blocks stay 16 bytes long *)
Definition aes_key_ok (P : prims) (k : bytes) : Prop :=
  forall b, length b = 16%nat ->
    p_aes_dec P k (p_aes_enc P k b) = b /\ length (p_aes_enc P k b) = 16%nat.
(* ... for AES-128 and AES-256 keys *)
Definition aes_ok (P : prims) : Prop :=
  forall k, (length k = 16 \/ length k = 32)%nat -> aes_key_ok P k.

Lemma fit_length n l : length (fit n l) = n.
Proof.
  unfold fit. rewrite firstn_length, app_length. unfold zeros. rewrite repeat_length. lia.
Qed.

Lemma take_iv_length ivs : length (fst (take_iv ivs)) = 16%nat.
Proof.
  destruct ivs as [|iv r]; cbn [take_iv fst].
  - unfold zeros. apply repeat_length.
  - apply fit_length.
Qed.

Lemma aes_cbc_rt P key iv pt :
  aes_key_ok P key -> length iv = 16%nat -> aes_cbc_decrypt P key (aes_cbc_encrypt P key iv pt) = Ok pt.
Proof.
  intros HP Hiv. unfold aes_cbc_decrypt, aes_cbc_encrypt.
  assert (He : forall b, length b = 16%nat -> length (p_aes_enc P key b) = 16%nat) by (intros b Hb; apply HP; exact Hb).
  assert (Hd : forall b, length b = 16%nat -> p_aes_dec P key (p_aes_enc P key b) = b) by (intros b Hb; apply HP; exact Hb).
  destruct (cbc_encrypt_padded_length (p_aes_enc P key) He iv pt Hiv) as [q [Lq _]].
  rewrite app_length, Lq, Hiv.
  replace (16 + 16 * S q)%nat with ((S (S q)) * 16)%nat by lia.
  rewrite Nat.mod_mul by lia. cbn [Nat.eqb negb].
  destruct (Nat.eqb_spec (S (S q) * 16) 0); [lia|].
  destruct (Nat.eqb_spec (S (S q) * 16) 16); [lia|]. cbn [orb].
  rewrite firstn_app, skipn_app, Hiv, Nat.sub_diag.
  rewrite firstn_all2 by lia. rewrite skipn_all2 by lia.
  change (firstn 0 (cbc_encrypt_padded (p_aes_enc P key) iv pt)) with (@nil byte).
  change (skipn 0 (cbc_encrypt_padded (p_aes_enc P key) iv pt)) with (cbc_encrypt_padded (p_aes_enc P key) iv pt).
  rewrite app_nil_r. cbn [app].
  rewrite (cbc_padded_rt _ _ Hd He iv pt Hiv). reflexivity.
Qed.

(* filter_rt: for the four crypt filters, whatever [encrypt] produced under a key, [decrypt] under the
   same key returns the plaintext *)
Theorem filter_rt P f key pt ivs ct ivs' :
  aes_ok P -> cf_encrypt P f key pt ivs = Ok (ct, ivs') -> cf_decrypt P f key ct = Ok pt.
Proof.
  intros HP H. destruct f; cbn [cf_encrypt cf_decrypt] in *.
  - inversion H; subst. reflexivity.
  - unfold rc4r in *. destruct (rc4 key pt) as [c|] eqn:E; cbn [rbind] in H; [|discriminate].
    inversion H; subst. rewrite (rc4_involutive _ _ _ E). reflexivity.
  - destruct (Nat.eqb_spec (length key) 16) as [Hk|Hk]; cbn [negb] in *; [|discriminate].
    destruct (take_iv ivs) as [iv r] eqn:Et. inversion H; subst.
    apply aes_cbc_rt; [apply HP; left; exact Hk|]. pose proof (take_iv_length ivs) as L. rewrite Et in L. exact L.
  - destruct (Nat.eqb_spec (length key) 32) as [Hk|Hk]; cbn [negb] in *; [|discriminate].
    destruct (take_iv ivs) as [iv r] eqn:Et. inversion H; subst.
    apply aes_cbc_rt; [apply HP; right; exact Hk|]. pose proof (take_iv_length ivs) as L. rewrite Et in L. exact L.
Qed.

(* an AES ciphertext (IV + padded blocks) is at least 17 bytes longer than the plaintext: never equal to it *)
Theorem aes_ciphertext_longer P f key pt ivs ct ivs' :
  aes_ok P -> is_aes f = true -> cf_encrypt P f key pt ivs = Ok (ct, ivs') ->
  (length pt + 17 <= length ct)%nat /\ Nat.modulo (length ct) 16 = 0%nat.
Proof.
  intros HP0 Hf H.
  assert (G : forall iv, aes_key_ok P key -> length iv = 16%nat ->
              (length pt + 17 <= length (aes_cbc_encrypt P key iv pt))%nat /\
              Nat.modulo (length (aes_cbc_encrypt P key iv pt)) 16 = 0%nat).
  { intros iv HP Hiv. unfold aes_cbc_encrypt.
    assert (He : forall b, length b = 16%nat -> length (p_aes_enc P key b) = 16%nat) by (intros b Hb; apply HP; exact Hb).
    destruct (cbc_encrypt_padded_length (p_aes_enc P key) He iv pt Hiv) as [q [Lq B]].
    rewrite app_length, Lq, Hiv. split; [lia|].
    replace (16 + 16 * S q)%nat with ((S (S q)) * 16)%nat by lia. apply Nat.mod_mul. lia. }
  destruct f; try discriminate; cbn [cf_encrypt] in H.
  - destruct (Nat.eqb_spec (length key) 16) as [Hk|Hk]; cbn [negb] in *; [|discriminate].
    destruct (take_iv ivs) as [iv r] eqn:Et. inversion H; subst.
    apply G; [apply HP0; left; exact Hk|]. pose proof (take_iv_length ivs) as L. rewrite Et in L. exact L.
  - destruct (Nat.eqb_spec (length key) 32) as [Hk|Hk]; cbn [negb] in *; [|discriminate].
    destruct (take_iv ivs) as [iv r] eqn:Et. inversion H; subst.
    apply G; [apply HP0; right; exact Hk|]. pose proof (take_iv_length ivs) as L. rewrite Et in L. exact L.
Qed.

(* RC4: the ciphertext is the plaintext xor the key stream, so it equals the plaintext exactly when the
   key stream prefix is all zero (a cryptographic, not a logical, impossibility: stated conditionally) *)
Lemma xor_bytes_fixed m s : length s = length m -> xor_bytes m s = m -> Forall (fun b => b = x00) s.
Proof.
  revert s; induction m as [|a m IH]; intros [|b s] L H; cbn in L; try discriminate; [constructor|].
  cbn [xor_bytes] in H. inversion H as [[H1 H2]]. constructor.
  - assert (Z : forall a b, bxor a b = a -> b = x00).
    { intros a0 b0 E0. apply byte_eqb_eq.
      pose proof (byte2_forallb_spec (fun a b => implb (byte_eqb (bxor a b) a) (byte_eqb b x00)) eq_refl a0 b0) as Q.
      cbv beta in Q. rewrite E0, byte_eqb_refl in Q. exact Q. }
    eapply Z; exact H1.
  - apply IH; [lia | exact H2].
Qed.

Theorem rc4_ciphertext_differs key st m :
  rc4_new key = Some st ->
  ~ Forall (fun b => b = x00) (rc4_stream st 0 0 (length m)) ->
  rc4 key m <> Some m.
Proof.
  intros E Hk H. unfold rc4 in H. rewrite E in H. inversion H as [H1].
  unfold rc4_encrypt, rc4_decrypt in H1. rewrite rc4_apply_stream in H1.
  apply Hk. apply (xor_bytes_fixed m); [|exact H1].
  apply rc4_stream_length.
Qed.
