(* EditProofsDelete.v -- C11, part 3: delete_object leaves no reference to the deleted object anywhere a
   traversal from the trailer reaches; its frame; it always terminates. *)
From LV Require Import Base.Bytes Model.Obj Model.Traverse Model.Edit Spec.RenumberSpec
  Proofs.RenumberProofsMap Proofs.RenumberProofs Proofs.RenumberProofsTrav Proofs.EditProofs Proofs.EditProofsTrav.

(* ---------- swap_remove only ever drops entries ---------- *)
Lemma removelast_incl {A} (l : list A) x : In x (removelast l) -> In x l.
Proof.
  induction l as [|a l IH]; cbn [removelast]; [tauto|].
  destruct l as [|b l]; [intros []|]. intros [->|H]; [left; reflexivity | right; apply IH; exact H].
Qed.

Lemma rev_head_In {A} (l : list A) x r : rev l = x :: r -> In x l.
Proof. intro H. apply in_rev. rewrite H. left; reflexivity. Qed.

Lemma swap_remove_incl d k e : In e (dict_swap_remove d k) -> In e d.
Proof.
  unfold dict_swap_remove. destruct (dict_has d k); [|auto].
  destruct (rev d) as [|[kl vl] r] eqn:Er; [intros []|].
  pose proof (rev_head_In _ _ _ Er) as Hlast.
  destruct (bytes_eqb kl k); [apply removelast_incl|].
  match goal with |- In e (?g d) -> _ => set (go := g) end.
  assert (G : forall d0, In e (go d0) -> e = (kl, vl) \/ In e d0).
  { induction d0 as [|[k' v'] d0 IH]; [intros []|]. unfold go; fold go.
    destruct (bytes_eqb k' k).
    - intros [<-|H]; [left; reflexivity | right; right; apply removelast_incl; exact H].
    - intros [<-|H]; [right; left; reflexivity|]. destruct (IH H) as [->|H']; [left; reflexivity | right; right; exact H']. }
  intro H. destruct (G d H) as [->|H']; [exact Hlast | exact H'].
Qed.

Lemma remove_keys_incl ks : forall d e, In e (remove_keys ks d) -> In e d.
Proof.
  unfold remove_keys. induction ks as [|k ks IH]; intros d e H; cbn [fold_left] in H; [exact H|].
  apply IH in H. eapply swap_remove_incl; exact H.
Qed.

(* ---------- one object: after the action no reference to the deleted id is left ---------- *)
Lemma strip_arr id l :
  strip id (OArr l) = OArr (flat_map (fun x => if is_ref_to id x then [] else [strip id x]) l).
Proof.
  cbn [strip]. f_equal. induction l as [|x l IH]; cbn [flat_map]; [reflexivity|].
  destruct (is_ref_to id x); cbn [app]; rewrite IH; reflexivity.
Qed.

Lemma strip_go_values id d :
  (fix go (d : list (bytes * obj)) : list (bytes * obj) :=
     match d with [] => [] | (k, v) :: d0 => (k, strip id v) :: go d0 end) d = strip_values id d.
Proof.
  unfold strip_values. induction d as [|[k v] d IH]; cbn [map fst snd]; [reflexivity|]. rewrite IH. reflexivity.
Qed.

Lemma strip_dict id d : strip id (ODict d) = ODict (remove_keys (ref_keys id d) (strip_values id d)).
Proof. cbn [strip]. rewrite strip_go_values. reflexivity. Qed.

Lemma strip_stream id d c : strip id (OStream d c) = OStream (remove_keys (ref_keys id d) (strip_values id d)) c.
Proof. cbn [strip]. rewrite strip_go_values. reflexivity. Qed.

Lemma no_ref_entries id (d d' : dict) :
  Forall (fun kv => ~ In id (refs_of (strip id (snd kv)))) d ->
  (forall e, In e d' -> In e (strip_values id d)) ->
  ~ In id (flat_map (fun kv => refs_of (snd kv)) d').
Proof.
  intros F Hincl Hin. apply in_flat_map in Hin. destruct Hin as [e [He Hr]].
  apply Hincl in He. unfold strip_values in He. apply in_map_iff in He. destruct He as [[k v] [<- Hkv]].
  rewrite Forall_forall in F. exact (F _ Hkv Hr).
Qed.

Theorem strip_no_ref id o : ~ In id (refs_of (strip id o)).
Proof.
  induction o as [|b|z|r|n|s h|l Hl|d Hd|d c Hd|i g] using obj_ind'; try (cbn; tauto).
  - rewrite strip_arr. cbn [refs_of]. intro Hin. apply in_flat_map in Hin. destruct Hin as [y [Hy Hr]].
    apply in_flat_map in Hy. destruct Hy as [x [Hx Hy]]. rewrite Forall_forall in Hl.
    destruct (is_ref_to id x); [destruct Hy|]. destruct Hy as [<-|[]]. exact (Hl _ Hx Hr).
  - rewrite strip_dict. cbn [refs_of]. eapply no_ref_entries; [exact Hd|]. intros e. apply remove_keys_incl.
  - rewrite strip_stream. cbn [refs_of]. eapply no_ref_entries; [exact Hd|]. intros e. apply remove_keys_incl.
  - cbn [strip]. destruct (oid_eqb (i, g) id) eqn:E; [cbn; tauto|].
    cbn [refs_of In]. intros [H|[]]. apply oid_eqb_neq in E. congruence.
Qed.

Lemma strip_trailer_no_ref id tr : ~ In id (refs_of_dict (strip_trailer id tr)).
Proof.
  unfold strip_trailer, refs_of_dict. eapply no_ref_entries; [|intros e; apply remove_keys_incl].
  apply Forall_forall. intros kv _. apply strip_no_ref.
Qed.

(* ---------- the whole operation ---------- *)
Definition del_trailer (d : doc) (id : oid) : dict := strip_trailer id (d_trailer d).
Definition del_graph (d : doc) (id : oid) : objmap := mapv (strip id) (d_objects d).

(* what delete_object does, in terms of reachability in the stripped graph: reachable objects are stripped,
   the others are untouched, the object itself goes away and is returned, trailer entries that were direct
   references are dropped *)
Theorem delete_object_spec d id :
  doc_wf d ->
  exists d' r,
    delete_object d id = Some (d', r) /\
    d_trailer d' = del_trailer d id /\ d_max_id d' = d_max_id d /\
    lookup (d_objects d') id = None /\
    (forall x, x <> id -> reach (del_trailer d id) (del_graph d id) x ->
               lookup (d_objects d') x = option_map (strip id) (lookup (d_objects d) x)) /\
    (forall x, x <> id -> ~ reach (del_trailer d id) (del_graph d id) x ->
               lookup (d_objects d') x = lookup (d_objects d) x) /\
    (r = lookup (d_objects d) id \/ r = option_map (strip id) (lookup (d_objects d) id)).
Proof.
  intro W. unfold delete_object.
  destruct (act_traverse_spec (strip id) (strip_trailer id) (d_trailer d) (d_objects d) _ (le_n _))
    as [m' [refs [E [_ [_ [K [L1 L2]]]]]]].
  unfold mapv in E. rewrite E. eexists. eexists. split; [reflexivity|].
  cbn [d_trailer d_objects d_max_id with_graph].
  assert (S' : sorted_keys m') by (unfold sorted_keys; rewrite K; exact W).
  split; [reflexivity|]. split; [reflexivity|]. split; [|split; [|split]].
  - rewrite lookup_remove by exact S'. rewrite oid_eqb_refl. reflexivity.
  - intros x Hx Hr. rewrite lookup_remove by exact S'.
    replace (oid_eqb id x) with false by (symmetry; apply oid_eqb_neq; congruence). apply L1. exact Hr.
  - intros x Hx Hr. rewrite lookup_remove by exact S'.
    replace (oid_eqb id x) with false by (symmetry; apply oid_eqb_neq; congruence). apply L2. exact Hr.
  - destruct (in_dec oid_eq_dec id refs) as [Hin|Hnin].
    + right. apply L1. fold (del_trailer d id). fold (del_graph d id).
      destruct (act_traverse_spec (strip id) (strip_trailer id) (d_trailer d) (d_objects d) _ (le_n _))
        as [m2 [refs2 [E2 [_ [R2 _]]]]].
      unfold mapv in E2. rewrite E in E2. inversion E2; subst. apply R2. exact Hin.
    + left. apply L2. intro Hr.
      destruct (act_traverse_spec (strip id) (strip_trailer id) (d_trailer d) (d_objects d) _ (le_n _))
        as [m2 [refs2 [E2 [_ [R2 _]]]]].
      unfold mapv in E2. rewrite E in E2. inversion E2; subst. apply Hnin. apply R2. exact Hr.
Qed.

Corollary delete_object_total d id : doc_wf d -> delete_object d id <> None.
Proof. intro W. destruct (delete_object_spec d id W) as [d' [r [E _]]]. congruence. Qed.

(* the property: after delete_object(id) no reference to id is left in the trailer or in any object that a
   traversal from the trailer reaches *)
Theorem delete_object_no_ref d id d' r :
  doc_wf d -> delete_object d id = Some (d', r) ->
  ~ In id (refs_of_dict (d_trailer d')) /\
  forall x o, reach (d_trailer d') (d_objects d') x -> lookup (d_objects d') x = Some o -> ~ In id (refs_of o).
Proof.
  intros W H. destruct (delete_object_spec d id W) as [d2 [r2 [E [T [_ [Lid [L1 _]]]]]]].
  rewrite E in H. inversion H; subst d2 r2; clear H.
  split; [rewrite T; apply strip_trailer_no_ref|].
  assert (Hsub : forall x, reach (d_trailer d') (d_objects d') x -> reach (del_trailer d id) (del_graph d id) x).
  { induction 1 as [r0 Hr | y o r0 Hy IHy Hl Hr].
    - apply reach_root. rewrite <- T. exact Hr.
    - assert (Hne : y <> id) by (intro; subst; congruence).
      eapply reach_step; [exact IHy | | exact Hr].
      unfold del_graph. rewrite lookup_mapv. rewrite <- (L1 y Hne IHy). exact Hl. }
  intros x o Hx Hl. assert (Hne : x <> id) by (intro; subst; congruence).
  rewrite (L1 x Hne (Hsub x Hx)) in Hl. destruct (lookup (d_objects d) x) as [o0|]; [|discriminate].
  cbn in Hl. inversion Hl; subst. apply strip_no_ref.
Qed.
