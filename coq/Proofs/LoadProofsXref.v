(* LoadProofsXref.v -- the cross-reference table printed by Save.write_xref is parsed back by
   Xref.xref_table (C02's model of parser::xref) to the entries the writer recorded. *)
From LV Require Import Base.Bytes Base.Sx Model.Obj Model.Writer Model.Parser Model.Save Model.Xref Model.Loader
  Gen.Lex Gen.SaveFmt Proofs.LexProofs Proofs.ObjectRtProofs Proofs.SaveProofs Proofs.LoadProofs.

Local Open Scope N_scope.

(* ---------- zero-padded numbers ---------- *)
Lemma fold_dstep_zeros k l : fold_left dstep (repeat x30 k ++ l) 0 = fold_left dstep l 0.
Proof. induction k as [|k IH]; [reflexivity|]. cbn [repeat app fold_left]. exact IH. Qed.

Lemma digits_val_pad0 w ds : digits_val (pad0 w ds) = digits_val ds.
Proof. unfold pad0. rewrite !digits_val_fold. apply fold_dstep_zeros. Qed.

Lemma pad0_digits w ds : forallb is_dec_digit ds = true -> forallb is_dec_digit (pad0 w ds) = true.
Proof.
  intro H. unfold pad0. rewrite forallb_app, H, andb_true_r.
  induction (w - length ds)%nat as [|k IH]; [reflexivity|]. cbn [repeat forallb]. rewrite IH. reflexivity.
Qed.

Lemma pad0_nonempty w ds : ds <> [] -> pad0 w ds <> [].
Proof. intros H E. unfold pad0 in E. apply app_eq_nil in E as [_ E]. contradiction. Qed.

Lemma unsigned_int_pad0 maxv w n rest :
  n <= maxv -> starts_with is_dec_digit rest = false ->
  unsigned_int maxv (pad0 w (N_dec n) ++ rest) = POk n rest.
Proof.
  intros Hn Hr. unfold unsigned_int.
  rewrite (take_while_app _ _ _ (pad0_digits w _ (N_dec_digits n)) Hr).
  rewrite (match_nonempty _ _ _ (pad0_nonempty w _ (N_dec_nonempty n))), digits_val_pad0, N_dec_val.
  assert (n <=? maxv = true) as -> by lia. reflexivity.
Qed.

(* ---------- one entry ---------- *)
Definition triple (e : Save.xentry) : N * N * bool :=
  match e with
  | Save.XNormal off g => (off, g, true)
  | Save.XFree => (0, 0, false)
  | _ => (0, 65535, false)
  end.

Lemma xref_entry_line a b k kb rest :
  a <= u32_max -> b <= u32_max -> (k = x6e /\ kb = true \/ k = x66 /\ kb = false) ->
  xref_entry (xentry_line a b k ++ rest) = POk (a, b, kb) rest.
Proof.
  intros Ha Hb Hk. unfold xentry_line, XREF_ENTRY_SEP1, XREF_ENTRY_SEP2, XREF_ENTRY_TAIL.
  repeat (rewrite <- app_assoc; cbn [app]).
  unfold xref_entry.
  rewrite (unsigned_int_pad0 u32_max XREF_ENTRY_W1 a _ Ha) by reflexivity. cbn [pbind].
  change (ptag [x20] (x20 :: ?r)) with (POk tt r).
  replace (ptag [x20] (x20 :: pad0 XREF_ENTRY_W2 (N_dec b) ++ x20 :: k :: x20 :: x0a :: rest))
    with (POk tt (pad0 XREF_ENTRY_W2 (N_dec b) ++ x20 :: k :: x20 :: x0a :: rest)) by reflexivity.
  cbn [pbind].
  rewrite (unsigned_int_pad0 u32_max XREF_ENTRY_W2 b _ Hb) by reflexivity. cbn [pbind].
  replace (ptag [x20] (x20 :: k :: x20 :: x0a :: rest)) with (POk tt (k :: x20 :: x0a :: rest)) by reflexivity.
  cbn [pbind].
  destruct Hk as [[-> ->] | [-> ->]]; reflexivity.
Qed.

Definition entry_ok (e : Save.xentry) : Prop :=
  match e with Save.XNormal off g => off <= u32_max /\ g <= u32_max | _ => True end.

Lemma xref_entry_written e rest :
  entry_ok e -> xref_entry (write_xref_entry e ++ rest) = POk (triple e) rest.
Proof.
  destruct e as [| |off g|c i]; cbn [entry_ok write_xref_entry triple]; intro H.
  - apply xref_entry_line; [unfold u32_max; lia | unfold u32_max; lia | right; split; reflexivity].
  - apply xref_entry_line; [unfold u32_max; lia | unfold u32_max, XREF_FREE_GEN_UNUSABLE; lia | right; split; reflexivity].
  - destruct H. apply xref_entry_line; [assumption | assumption | left; split; reflexivity].
  - apply xref_entry_line; [unfold u32_max; lia | unfold u32_max, XREF_FREE_GEN_UNUSABLE; lia | right; split; reflexivity].
Qed.

(* ---------- a run of entries ---------- *)
Lemma many0_entries_written : forall es fuel rest,
  Forall entry_ok es -> xref_entry rest = PErr -> (length es < fuel)%nat ->
  many0_entries fuel (flat_map write_xref_entry es ++ rest) = POk (map triple es) rest.
Proof.
  induction es as [|e es IH]; intros fuel rest Hok Hstop Hf.
  - destruct fuel as [|f]; [cbn in Hf; lia|]. cbn [flat_map app many0_entries map]. rewrite Hstop. reflexivity.
  - destruct fuel as [|f]; [cbn in Hf; lia|]. inversion Hok; subst.
    cbn [flat_map many0_entries map]. rewrite <- app_assoc. rewrite xref_entry_written by assumption.
    rewrite IH by (try assumption; cbn in Hf; lia). reflexivity.
Qed.

(* what stops a run of entries: the next sub-section header, or the trailer keyword *)
Lemma xref_entry_stops_header s c more :
  s <= u32_max -> c <= u32_max ->
  xref_entry (N_dec s ++ x20 :: N_dec c ++ x0a :: more) = PErr.
Proof.
  intros Hs Hc. unfold xref_entry.
  rewrite (unsigned_int_rt u32_max s _ Hs) by reflexivity. cbn [pbind].
  replace (ptag [x20] (x20 :: N_dec c ++ x0a :: more)) with (POk tt (N_dec c ++ x0a :: more)) by reflexivity.
  cbn [pbind]. rewrite (unsigned_int_rt u32_max c _ Hc) by reflexivity. reflexivity.
Qed.

Lemma xref_entry_stops_trailer more : xref_entry (bs "trailer" ++ more) = PErr.
Proof. reflexivity. Qed.

(* ---------- sub-sections ---------- *)
Definition sec_ok (s : xsection) : Prop :=
  snd s <> [] /\ fst s <= u32_max /\ N.of_nat (length (snd s)) <= u32_max /\ Forall entry_ok (snd s).

Lemma write_xref_section_eq s es :
  es <> [] ->
  write_xref_section (s, es) = N_dec s ++ x20 :: N_dec (N.of_nat (length es)) ++ x0a :: flat_map write_xref_entry es.
Proof. intro H. unfold write_xref_section. cbn [fst snd]. destruct es; [contradiction | reflexivity]. Qed.

Lemma xref_section_written s es fuel rest :
  sec_ok (s, es) -> xref_entry rest = PErr -> (length es < fuel)%nat ->
  xref_section fuel (write_xref_section (s, es) ++ rest) = POk (s, map triple es) rest.
Proof.
  intros [Hne [Hs [Hl Hok]]] Hstop Hf. cbn [fst snd] in *.
  rewrite write_xref_section_eq by exact Hne. repeat (rewrite <- app_assoc; cbn [app]).
  unfold xref_section.
  rewrite (unsigned_int_rt usize_max s) by (try reflexivity; unfold usize_max, u32_max in *; lia). cbn [pbind].
  replace (ptag [x20] (x20 :: N_dec (N.of_nat (length es)) ++ x0a :: flat_map write_xref_entry es ++ rest))
    with (POk tt (N_dec (N.of_nat (length es)) ++ x0a :: flat_map write_xref_entry es ++ rest)) by reflexivity.
  cbn [pbind]. rewrite (unsigned_int_rt u32_max _ _ Hl) by reflexivity. cbn [pbind eol].
  rewrite many0_entries_written by assumption. reflexivity.
Qed.

(* the reader's view of a list of printed sections *)
Fixpoint parsed_sections (secs : list xsection) (m : Xref.xmap) : Xref.xmap :=
  match secs with
  | [] => m
  | (s, es) :: secs' => parsed_sections secs' (add_section m s 0 (map triple es))
  end.

Lemma sections_head_stops secs more :
  Forall sec_ok secs -> xref_entry (flat_map write_xref_section secs ++ bs "trailer" ++ more) = PErr.
Proof.
  intro H. destruct secs as [|[s es] secs]; [apply xref_entry_stops_trailer|].
  inversion H as [|? ? [Hne [Hs [Hl _]]] _]; subst. cbn [fst snd] in *.
  cbn [flat_map]. rewrite write_xref_section_eq by exact Hne. repeat (rewrite <- app_assoc; cbn [app]).
  apply xref_entry_stops_header; assumption.
Qed.

Lemma xref_section_trailer fuel more : xref_section fuel (bs "trailer" ++ more) = PErr.
Proof. reflexivity. Qed.

Lemma fold_sections_written : forall secs n fuel more m,
  Forall sec_ok secs -> Forall (fun s => (length (snd s) < fuel)%nat) secs -> (length secs < n)%nat ->
  fold_sections n fuel (flat_map write_xref_section secs ++ bs "trailer" ++ more) m =
  POk (parsed_sections secs m) (bs "trailer" ++ more).
Proof.
  induction secs as [|[s es] secs IH]; intros n fuel more m Hok Hf Hn.
  - destruct n as [|n]; [cbn in Hn; lia|]. cbn [flat_map app fold_sections]. rewrite xref_section_trailer. reflexivity.
  - destruct n as [|n]; [cbn in Hn; lia|]. inversion Hok; subst. inversion Hf; subst. cbn [snd] in *.
    cbn [flat_map fold_sections]. rewrite <- app_assoc.
    rewrite xref_section_written; [| assumption | apply sections_head_stops; assumption | assumption].
    cbn [parsed_sections]. apply IH; [assumption | assumption | cbn in Hn; lia].
Qed.

(* the whole table *)
Theorem xref_table_written secs more :
  secs <> [] -> Forall sec_ok secs ->
  xref_table (bs "xref" ++ x0a :: flat_map write_xref_section secs ++ bs "trailer" ++ more) =
  POk {| x_type := XTTable; x_entries := parsed_sections secs []; x_size := 0 |} (bs "trailer" ++ more).
Proof.
  intros Hne Hok. destruct secs as [|[s es] secs]; [contradiction|]. inversion Hok; subst.
  unfold xref_table. rewrite ptag_app. cbn [pbind eol flat_map].
  set (whole := bs "xref" ++ x0a :: (write_xref_section (s, es) ++ flat_map write_xref_section secs) ++ bs "trailer" ++ more).
  assert (Hlen : forall s', In s' ((s, es) :: secs) -> (length (snd s') < S (length whole))%nat).
  { intros [s' es'] Hin. cbn [snd].
    assert (Hsub : (length (flat_map write_xref_entry es') <= length (flat_map write_xref_section ((s, es) :: secs)))%nat).
    { clear - Hin. induction ((s, es) :: secs) as [|[a b] l IH]; [contradiction|].
      cbn [flat_map]. rewrite app_length. destruct Hin as [E|Hin].
      - inversion E; subst. destruct es' as [|e0 es0]; [cbn [flat_map length]; lia|].
        rewrite write_xref_section_eq by discriminate. repeat (rewrite app_length; cbn [length]). lia.
      - specialize (IH Hin). lia. }
    assert (Hle : (length es' <= length (flat_map write_xref_entry es'))%nat).
    { clear. induction es' as [|e l IH]; [cbn; lia|]. cbn [flat_map length]. rewrite app_length.
      assert (1 <= length (write_xref_entry e))%nat.
      { destruct e; cbn [write_xref_entry]; unfold xentry_line; rewrite !app_length; cbn [length];
          unfold XREF_ENTRY_TAIL; cbn [length]; lia. }
      lia. }
    unfold whole. cbn [flat_map] in Hsub. repeat (rewrite app_length; cbn [length]). rewrite app_length in Hsub. lia. }
  rewrite <- app_assoc.
  rewrite xref_section_written; [| assumption | apply sections_head_stops; assumption | apply (Hlen (s, es)); left; reflexivity].
  rewrite fold_sections_written; [| assumption | | ].
  - cbn [pbind parsed_sections]. rewrite space_tok by reflexivity. reflexivity.
  - apply Forall_forall. intros s' Hin. apply Hlen. right. exact Hin.
  - unfold whole. rewrite !app_length. cbn [length]. rewrite !app_length.
    assert (length secs <= length (flat_map write_xref_section secs))%nat.
    { clear - H2. induction H2 as [|[a b] l [Hne _] _ IH]; [cbn; lia|]. cbn [flat_map length fst snd] in *.
      rewrite app_length. rewrite write_xref_section_eq by exact Hne. rewrite app_length. cbn [length].
      pose proof (N_dec_nonempty a). destruct (N_dec a); [contradiction|]. cbn [length]. lia. }
    lia.
Qed.
