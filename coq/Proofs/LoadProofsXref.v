(* LoadProofsXref.v -- the cross-reference table printed by Save.write_xref is parsed back by
   Xref.xref_table (C02's model of parser::xref) to the entries the writer recorded. *)
From LV Require Import Base.Bytes Base.Sx Model.Obj Model.Writer Model.Parser Model.Save Model.Xref Model.Loader
  Gen.Lex Gen.SaveFmt Proofs.LexProofs Proofs.ObjectRtProofs Proofs.SaveProofs Proofs.LoadProofs.

Local Open Scope N_scope.

(* ---------- zero-padded numbers ---------- *)
Lemma fold_dstep_zeros k l : fold_left dstep (repeat x30 k ++ l) 0 = fold_left dstep l 0.
Proof. induction k as [|k IH]; [reflexivity|]. cbn [repeat app fold_left]. exact IH. Qed.

Lemma digits_val_pad0 w ds : digits_val (pad0 w ds) = digits_val ds.
Proof. unfold pad0. rewrite !digits_val_fold. apply fold_dstep_zeros. Qed.

Lemma pad0_digits w ds : forallb is_dec_digit ds = true -> forallb is_dec_digit (pad0 w ds) = true.
Proof.
  intro H. unfold pad0. rewrite forallb_app, H, andb_true_r.
  induction (w - length ds)%nat as [|k IH]; [reflexivity|]. cbn [repeat forallb]. rewrite IH. reflexivity.
Qed.

Lemma pad0_nonempty w ds : ds <> [] -> pad0 w ds <> [].
Proof. intros H E. unfold pad0 in E. apply app_eq_nil in E as [_ E]. contradiction. Qed.

Lemma unsigned_int_pad0 maxv w n rest :
  n <= maxv -> starts_with is_dec_digit rest = false ->
  unsigned_int maxv (pad0 w (N_dec n) ++ rest) = POk n rest.
Proof.
  intros Hn Hr. unfold unsigned_int.
  rewrite (take_while_app _ _ _ (pad0_digits w _ (N_dec_digits n)) Hr).
  rewrite (match_nonempty _ _ _ (pad0_nonempty w _ (N_dec_nonempty n))), digits_val_pad0, N_dec_val.
  assert (n <=? maxv = true) as -> by lia. reflexivity.
Qed.

(* ---------- one entry ---------- *)
Definition triple (e : Save.xentry) : N * N * bool :=
  match e with
  | Save.XNormal off g => (off, g, true)
  | Save.XFree => (0, 0, false)
  | _ => (0, 65535, false)
  end.

Lemma xref_entry_line a b k kb rest :
  a <= u32_max -> b <= u32_max -> (k = x6e /\ kb = true \/ k = x66 /\ kb = false) ->
  xref_entry (xentry_line a b k ++ rest) = POk (a, b, kb) rest.
Proof.
  intros Ha Hb Hk. unfold xentry_line, XREF_ENTRY_SEP1, XREF_ENTRY_SEP2, XREF_ENTRY_TAIL.
  repeat (rewrite <- app_assoc; cbn [app]).
  unfold xref_entry.
  rewrite (unsigned_int_pad0 u32_max XREF_ENTRY_W1 a _ Ha) by reflexivity. cbn [pbind].
  change (ptag [x20] (x20 :: ?r)) with (POk tt r).
  replace (ptag [x20] (x20 :: pad0 XREF_ENTRY_W2 (N_dec b) ++ x20 :: k :: x20 :: x0a :: rest))
    with (POk tt (pad0 XREF_ENTRY_W2 (N_dec b) ++ x20 :: k :: x20 :: x0a :: rest)) by reflexivity.
  cbn [pbind].
  rewrite (unsigned_int_pad0 u32_max XREF_ENTRY_W2 b _ Hb) by reflexivity. cbn [pbind].
  replace (ptag [x20] (x20 :: k :: x20 :: x0a :: rest)) with (POk tt (k :: x20 :: x0a :: rest)) by reflexivity.
  cbn [pbind].
  destruct Hk as [[-> ->] | [-> ->]]; reflexivity.
Qed.

Definition entry_ok (e : Save.xentry) : Prop :=
  match e with Save.XNormal off g => off <= u32_max /\ g <= u32_max | _ => True end.

Lemma xref_entry_written e rest :
  entry_ok e -> xref_entry (write_xref_entry e ++ rest) = POk (triple e) rest.
Proof.
  destruct e as [| |off g|c i]; cbn [entry_ok write_xref_entry triple]; intro H.
  - apply xref_entry_line; [unfold u32_max; lia | unfold u32_max; lia | right; split; reflexivity].
  - apply xref_entry_line; [unfold u32_max; lia | unfold u32_max, XREF_FREE_GEN_UNUSABLE; lia | right; split; reflexivity].
  - destruct H. apply xref_entry_line; [assumption | assumption | left; split; reflexivity].
  - apply xref_entry_line; [unfold u32_max; lia | unfold u32_max, XREF_FREE_GEN_UNUSABLE; lia | right; split; reflexivity].
Qed.

(* ---------- a run of entries ---------- *)
Lemma many0_entries_written : forall es fuel rest,
  Forall entry_ok es -> xref_entry rest = PErr -> (length es < fuel)%nat ->
  many0_entries fuel (flat_map write_xref_entry es ++ rest) = POk (map triple es) rest.
Proof.
  induction es as [|e es IH]; intros fuel rest Hok Hstop Hf.
  - destruct fuel as [|f]; [cbn in Hf; lia|]. cbn [flat_map app many0_entries map]. rewrite Hstop. reflexivity.
  - destruct fuel as [|f]; [cbn in Hf; lia|]. inversion Hok; subst.
    cbn [flat_map many0_entries map]. rewrite <- app_assoc. rewrite xref_entry_written by assumption.
    rewrite IH by (try assumption; cbn in Hf; lia). reflexivity.
Qed.

(* what stops a run of entries: the next sub-section header, or the trailer keyword *)
Lemma xref_entry_stops_header s c more :
  s <= u32_max -> c <= u32_max ->
  xref_entry (N_dec s ++ x20 :: N_dec c ++ x0a :: more) = PErr.
Proof.
  intros Hs Hc. unfold xref_entry.
  rewrite (unsigned_int_rt u32_max s _ Hs) by reflexivity. cbn [pbind].
  replace (ptag [x20] (x20 :: N_dec c ++ x0a :: more)) with (POk tt (N_dec c ++ x0a :: more)) by reflexivity.
  cbn [pbind]. rewrite (unsigned_int_rt u32_max c _ Hc) by reflexivity. reflexivity.
Qed.

Lemma xref_entry_stops_trailer more : xref_entry (bs "trailer" ++ more) = PErr.
Proof. reflexivity. Qed.

(* ---------- sub-sections ---------- *)
Definition sec_ok (s : xsection) : Prop :=
  snd s <> [] /\ fst s <= u32_max /\ N.of_nat (length (snd s)) <= u32_max /\ Forall entry_ok (snd s).

Lemma write_xref_section_eq s es :
  es <> [] ->
  write_xref_section (s, es) = N_dec s ++ x20 :: N_dec (N.of_nat (length es)) ++ x0a :: flat_map write_xref_entry es.
Proof. intro H. unfold write_xref_section. cbn [fst snd]. destruct es; [contradiction | reflexivity]. Qed.

Lemma xref_section_written s es fuel rest :
  sec_ok (s, es) -> xref_entry rest = PErr -> (length es < fuel)%nat ->
  xref_section fuel (write_xref_section (s, es) ++ rest) = POk (s, map triple es) rest.
Proof.
  intros [Hne [Hs [Hl Hok]]] Hstop Hf. cbn [fst snd] in *.
  rewrite write_xref_section_eq by exact Hne. repeat (rewrite <- app_assoc; cbn [app]).
  unfold xref_section.
  rewrite (unsigned_int_rt usize_max s) by (try reflexivity; unfold usize_max, u32_max in *; lia). cbn [pbind].
  replace (ptag [x20] (x20 :: N_dec (N.of_nat (length es)) ++ x0a :: flat_map write_xref_entry es ++ rest))
    with (POk tt (N_dec (N.of_nat (length es)) ++ x0a :: flat_map write_xref_entry es ++ rest)) by reflexivity.
  cbn [pbind]. rewrite (unsigned_int_rt u32_max _ _ Hl) by reflexivity. cbn [pbind eol].
  rewrite many0_entries_written by assumption. reflexivity.
Qed.

(* the reader's view of a list of printed sections *)
Fixpoint parsed_sections (secs : list xsection) (m : Xref.xmap) : Xref.xmap :=
  match secs with
  | [] => m
  | (s, es) :: secs' => parsed_sections secs' (add_section m s 0 (map triple es))
  end.

Lemma sections_head_stops secs more :
  Forall sec_ok secs -> xref_entry (flat_map write_xref_section secs ++ bs "trailer" ++ more) = PErr.
Proof.
  intro H. destruct secs as [|[s es] secs]; [apply xref_entry_stops_trailer|].
  inversion H as [|? ? [Hne [Hs [Hl _]]] _]; subst. cbn [fst snd] in *.
  cbn [flat_map]. rewrite write_xref_section_eq by exact Hne. repeat (rewrite <- app_assoc; cbn [app]).
  apply xref_entry_stops_header; assumption.
Qed.

Lemma xref_section_trailer fuel more : xref_section fuel (bs "trailer" ++ more) = PErr.
Proof. reflexivity. Qed.

Lemma fold_sections_written : forall secs n fuel more m,
  Forall sec_ok secs -> Forall (fun s => (length (snd s) < fuel)%nat) secs -> (length secs < n)%nat ->
  fold_sections n fuel (flat_map write_xref_section secs ++ bs "trailer" ++ more) m =
  POk (parsed_sections secs m) (bs "trailer" ++ more).
Proof.
  induction secs as [|[s es] secs IH]; intros n fuel more m Hok Hf Hn.
  - destruct n as [|n]; [cbn in Hn; lia|]. cbn [flat_map app fold_sections]. rewrite xref_section_trailer. reflexivity.
  - destruct n as [|n]; [cbn in Hn; lia|]. inversion Hok; subst. inversion Hf; subst. cbn [snd] in *.
    cbn [flat_map fold_sections]. rewrite <- app_assoc.
    rewrite xref_section_written; [| assumption | apply sections_head_stops; assumption | assumption].
    cbn [parsed_sections]. apply IH; [assumption | assumption | cbn in Hn; lia].
Qed.

(* the whole table *)
Theorem xref_table_written secs more :
  secs <> [] -> Forall sec_ok secs ->
  xref_table (bs "xref" ++ x0a :: flat_map write_xref_section secs ++ bs "trailer" ++ more) =
  POk {| x_type := XTTable; x_entries := parsed_sections secs []; x_size := 0 |} (bs "trailer" ++ more).
Proof.
  intros Hne Hok. destruct secs as [|[s es] secs]; [contradiction|]. inversion Hok; subst.
  unfold xref_table. rewrite ptag_app. cbn [pbind eol flat_map].
  set (whole := bs "xref" ++ x0a :: (write_xref_section (s, es) ++ flat_map write_xref_section secs) ++ bs "trailer" ++ more).
  assert (Hlen : forall s', In s' ((s, es) :: secs) -> (length (snd s') < S (length whole))%nat).
  { intros [s' es'] Hin. cbn [snd].
    assert (Hsub : (length (flat_map write_xref_entry es') <= length (flat_map write_xref_section ((s, es) :: secs)))%nat).
    { clear - Hin. induction ((s, es) :: secs) as [|[a b] l IH]; [contradiction|].
      cbn [flat_map]. rewrite app_length. destruct Hin as [E|Hin].
      - inversion E; subst. destruct es' as [|e0 es0]; [cbn [flat_map length]; lia|].
        rewrite write_xref_section_eq by discriminate. repeat (rewrite app_length; cbn [length]). lia.
      - specialize (IH Hin). lia. }
    assert (Hle : (length es' <= length (flat_map write_xref_entry es'))%nat).
    { clear. induction es' as [|e l IH]; [cbn; lia|]. cbn [flat_map length]. rewrite app_length.
      assert (1 <= length (write_xref_entry e))%nat.
      { destruct e; cbn [write_xref_entry]; unfold xentry_line; rewrite !app_length; cbn [length];
          unfold XREF_ENTRY_TAIL; cbn [length]; lia. }
      lia. }
    unfold whole. cbn [flat_map] in Hsub. repeat (rewrite app_length; cbn [length]). rewrite app_length in Hsub. lia. }
  rewrite <- app_assoc.
  rewrite xref_section_written; [| assumption | apply sections_head_stops; assumption | apply (Hlen (s, es)); left; reflexivity].
  rewrite fold_sections_written; [| assumption | | ].
  - cbn [pbind parsed_sections]. rewrite space_tok by reflexivity. reflexivity.
  - apply Forall_forall. intros s' Hin. apply Hlen. right. exact Hin.
  - unfold whole. rewrite !app_length. cbn [length]. rewrite !app_length.
    assert (length secs <= length (flat_map write_xref_section secs))%nat.
    { clear - H2. induction H2 as [|[a b] l [Hne _] _ IH]; [cbn; lia|]. cbn [flat_map length fst snd] in *.
      rewrite app_length. rewrite write_xref_section_eq by exact Hne. rewrite app_length. cbn [length].
      pose proof (N_dec_nonempty a). destruct (N_dec a); [contradiction|]. cbn [length]. lia. }
    lia.
Qed.

(* ---------- what the sections contain ---------- *)
Fixpoint enum (s : N) (es : list Save.xentry) : list (N * Save.xentry) :=
  match es with
  | [] => []
  | e :: es' => (s, e) :: enum (s + 1) es'
  end.
Definition flatten (secs : list xsection) : list (N * Save.xentry) :=
  flat_map (fun s => enum (fst s) (snd s)) secs.

(* the entries the loop meets from [id] on *)
Fixpoint present (x : Save.xmap) (conv : Save.xentry -> Save.xentry) (id : N) (n : nat) : list (N * Save.xentry) :=
  match n with
  | O => []
  | S n' => match Save.xget x id with Some e => [(id, conv e)] | None => [] end ++ present x conv (id + 1) n'
  end.

Lemma enum_snoc : forall es s e, enum s (es ++ [e]) = enum s es ++ [(s + N.of_nat (length es), e)].
Proof.
  induction es as [|a es IH]; intros s e; cbn [app enum length].
  - replace (s + N.of_nat 0) with s by lia. reflexivity.
  - rewrite IH. cbn [app]. replace (s + 1 + N.of_nat (length es)) with (s + N.of_nat (S (length es))) by lia. reflexivity.
Qed.

Lemma flatten_sections_loop : forall n id x conv start cur,
  (cur = [] \/ start + N.of_nat (length cur) = id) ->
  flatten (sections_loop n id x conv start cur) = enum start cur ++ present x conv id n.
Proof.
  induction n as [|n IH]; intros id x conv start cur Hinv; cbn [sections_loop present].
  - destruct cur; [reflexivity|]. unfold flatten. cbn [flat_map fst snd]. rewrite !app_nil_r. reflexivity.
  - destruct (Save.xget x id) as [e|] eqn:Eg.
    + rewrite IH.
      2:{ right. rewrite app_length. cbn [length]. destruct cur; [cbn; lia|]. destruct Hinv as [Hc|Hinv]; [discriminate|]. lia. }
      destruct cur as [|c cur'].
      * cbn [app enum]. reflexivity.
      * destruct Hinv as [Hc|Hinv]; [discriminate|]. rewrite enum_snoc, Hinv. rewrite <- app_assoc. reflexivity.
    + destruct cur as [|c cur'].
      * rewrite IH by (left; reflexivity). reflexivity.
      * unfold flatten. cbn [flat_map fst snd]. fold (flatten (sections_loop n (id + 1) x conv id [])).
        rewrite IH by (left; reflexivity). reflexivity.
Qed.

(* ---------- what the reader inserts ---------- *)
Fixpoint add_all (m : Xref.xmap) (l : list (N * Save.xentry)) : Xref.xmap :=
  match l with
  | [] => m
  | (k, Save.XNormal off g) :: l' =>
    if g <=? u16_max then add_all (Xref.xinsert m k (Xref.XNormal off g)) l' else add_all m l'
  | _ :: l' => add_all m l'
  end.

Lemma add_all_app : forall a b m, add_all m (a ++ b) = add_all (add_all m a) b.
Proof.
  induction a as [|[k e] a IH]; intros b m; [reflexivity|]. cbn [app add_all].
  destruct e as [| |off g|c i]; try apply IH. destruct (g <=? u16_max); apply IH.
Qed.

Lemma add_section_enum : forall es m start index,
  start + index + N.of_nat (length es) <= two32 ->
  add_section m start index (map triple es) = add_all m (enum (start + index) es).
Proof.
  induction es as [|e es IH]; intros m start index Hb; [reflexivity|].
  cbn [map add_section enum add_all length] in *.
  assert (Hmod : (start + index) mod two32 = start + index) by (apply N.mod_small; unfold two32 in *; lia).
  replace (start + index + 1) with (start + (index + 1)) by lia.
  destruct e as [| |off g|c i]; cbn [triple andb]; try (apply IH; lia).
  rewrite Hmod. destruct (g <=? u16_max); apply IH; lia.
Qed.

Definition sec_in (B : N) (s : xsection) : Prop :=
  snd s <> [] /\ fst s + N.of_nat (length (snd s)) <= B /\ Forall entry_ok (snd s).

Lemma parsed_sections_flatten : forall secs m,
  Forall (sec_in two32) secs -> parsed_sections secs m = add_all m (flatten secs).
Proof.
  induction secs as [|[s es] secs IH]; intros m H; [reflexivity|]. inversion H as [|? ? [_ [Hb _]] H']; subst.
  cbn [fst snd] in Hb. cbn [parsed_sections]. unfold flatten. cbn [flat_map fst snd]. rewrite add_all_app.
  rewrite add_section_enum by lia. replace (s + 0) with s by lia. apply IH. exact H'.
Qed.

(* the sections stay inside the range the loop walks over *)
Lemma sections_loop_in : forall n id x conv start cur B,
  (cur = [] \/ start + N.of_nat (length cur) = id) -> Forall entry_ok cur ->
  (forall j e, Save.xget x j = Some e -> entry_ok (conv e)) -> id + N.of_nat n <= B ->
  Forall (sec_in B) (sections_loop n id x conv start cur).
Proof.
  induction n as [|n IH]; intros id x conv start cur B Hinv Hcur Hx Hb; cbn [sections_loop].
  - destruct cur as [|c cur']; [constructor|]. destruct Hinv as [Hc|Hinv]; [discriminate|].
    constructor; [|constructor]. repeat split; cbn [fst snd]; [discriminate | lia | exact Hcur].
  - destruct (Save.xget x id) as [e|] eqn:Eg.
    + apply IH; try assumption; try lia.
      * right. rewrite app_length. cbn [length]. destruct cur; [cbn; lia|]. destruct Hinv as [Hc|Hinv]; [discriminate|]. lia.
      * apply Forall_app. split; [exact Hcur|]. constructor; [|constructor]. apply (Hx id). exact Eg.
    + destruct cur as [|c cur'].
      * apply IH; try assumption; try lia. left; reflexivity.
      * destruct Hinv as [Hc|Hinv]; [discriminate|]. constructor.
        -- repeat split; cbn [fst snd]; [discriminate | lia | exact Hcur].
        -- apply IH; try assumption; try lia; [left; reflexivity | constructor].
Qed.

(* ---------- sorted maps ---------- *)
(* keys at least [lo], strictly increasing *)
Fixpoint incr (lo : N) (x : Save.xmap) : Prop :=
  match x with
  | [] => True
  | (k, _) :: x' => lo <= k /\ incr (k + 1) x'
  end.

Definition normal_ok (ke : N * Save.xentry) : Prop :=
  match snd ke with Save.XNormal off g => off <= u32_max /\ g <= u16_max | _ => False end.

Definition conv_entry (ke : N * Save.xentry) : N * Xref.xentry :=
  (fst ke, match snd ke with
           | Save.XNormal o g => Xref.XNormal o g
           | Save.XCompressed c i => Xref.XCompressed c i
           | Save.XFree => Xref.XFree
           | Save.XUnusable => Xref.XUnusableFree
           end).
Definition conv_map (x : Save.xmap) : Xref.xmap := map conv_entry x.

Lemma incr_weaken : forall x lo lo', lo' <= lo -> incr lo x -> incr lo' x.
Proof. destruct x as [|[k e] x]; intros lo lo' H Hi; [exact I|]. cbn [incr] in *. destruct Hi. split; [lia|assumption]. Qed.

Lemma xget_none_incr : forall x lo j, incr lo x -> j < lo -> Save.xget x j = None.
Proof.
  induction x as [|[k e] x IH]; intros lo j Hi Hj; [reflexivity|]. cbn [incr Save.xget] in *. destruct Hi as [H1 H2].
  replace (k =? j) with false by (symmetry; apply N.eqb_neq; lia). apply (IH (k + 1)); [exact H2 | lia].
Qed.

Lemma present_ext : forall n id x y conv,
  (forall j, id <= j -> Save.xget x j = Save.xget y j) -> present x conv id n = present y conv id n.
Proof.
  induction n as [|n IH]; intros id x y conv H; [reflexivity|]. cbn [present].
  rewrite (H id) by lia. f_equal. apply IH. intros j Hj. apply H. lia.
Qed.

Lemma present_sorted : forall n lo x,
  incr lo x -> Forall (fun ke => fst ke < lo + N.of_nat n) x -> Forall normal_ok x ->
  present x table_conv lo n = x.
Proof.
  induction n as [|n IH]; intros lo x Hi Hb Hn.
  - destruct x as [|[k e] x]; [reflexivity|]. cbn [incr] in Hi. inversion Hb; subst. cbn [fst] in *. lia.
  - cbn [present]. destruct x as [|[k e] x].
    + cbn [Save.xget app]. apply IH; [exact I | constructor | constructor].
    + cbn [incr] in Hi. destruct Hi as [Hk Hi]. inversion Hb; subst. inversion Hn as [|? ? Hne Hn']; subst. cbn [fst] in *.
      destruct (N.eq_dec k lo) as [->|Hne'].
      * cbn [Save.xget]. rewrite N.eqb_refl. unfold normal_ok in Hne. cbn [snd] in Hne.
        destruct e as [| |off g|c i]; try contradiction. cbn [table_conv app]. f_equal.
        rewrite (present_ext n (lo + 1) ((lo, Save.XNormal off g) :: x) x).
        -- apply IH; [exact Hi | | exact Hn']. eapply Forall_impl; [|exact H2]. intros a Ha. cbn beta in *. lia.
        -- intros j Hj. cbn [Save.xget]. replace (lo =? j) with false by (symmetry; apply N.eqb_neq; lia). reflexivity.
      * cbn [Save.xget]. replace (k =? lo) with false by (symmetry; apply N.eqb_neq; lia).
        rewrite (xget_none_incr x (k + 1) lo Hi) by lia. cbn [app].
        apply IH; [cbn [incr]; split; [lia | exact Hi] | | exact Hn].
        constructor; [cbn [fst]; lia|]. eapply Forall_impl; [|exact H2]. intros a Ha. cbn beta in *. lia.
Qed.

Lemma xinsert_last : forall (m : Xref.xmap) k e,
  Forall (fun ke => fst ke < k) m -> Xref.xinsert m k e = m ++ [(k, e)].
Proof.
  induction m as [|[i e'] m IH]; intros k e H; [reflexivity|]. inversion H; subst. cbn [fst] in *.
  cbn [Xref.xinsert app]. replace (i =? k) with false by (symmetry; apply N.eqb_neq; lia).
  replace (k <? i) with false by (symmetry; apply N.ltb_ge; lia). rewrite IH by assumption. reflexivity.
Qed.

Lemma add_all_sorted : forall x lo m,
  incr lo x -> Forall normal_ok x -> Forall (fun ke => fst ke < lo) m ->
  add_all m x = m ++ conv_map x.
Proof.
  induction x as [|[k e] x IH]; intros lo m Hi Hn Hm; [cbn; rewrite app_nil_r; reflexivity|].
  cbn [incr] in Hi. destruct Hi as [Hk Hi]. inversion Hn as [|? ? Hne Hn']; subst.
  unfold normal_ok in Hne. cbn [snd] in Hne. destruct e as [| |off g|c i]; try contradiction. destruct Hne as [_ Hg].
  cbn [add_all]. replace (g <=? u16_max) with true by (symmetry; apply N.leb_le; exact Hg).
  rewrite xinsert_last by (eapply Forall_impl; [|exact Hm]; intros a Ha; cbn beta in *; lia).
  rewrite (IH (k + 1)); [| exact Hi | exact Hn' |].
  - cbn [conv_map map conv_entry fst snd]. rewrite <- app_assoc. reflexivity.
  - apply Forall_app. split; [eapply Forall_impl; [|exact Hm]; intros a Ha; cbn beta in *; lia|].
    constructor; [cbn [fst]; lia | constructor].
Qed.

(* ---------- the table of a sorted map is read back as that map ---------- *)
Theorem xref_table_roundtrip (x : Save.xmap) size more :
  1 <= size -> size < two32 -> incr 1 x -> Forall (fun ke => fst ke < size) x -> Forall normal_ok x ->
  xref_table (write_xref x size ++ bs "trailer" ++ more) =
  POk {| x_type := XTTable; x_entries := conv_map x; x_size := 0 |} (bs "trailer" ++ more).
Proof.
  intros Hs1 Hs2 Hi Hb Hn. unfold write_xref. repeat (rewrite <- app_assoc; cbn [app]).
  assert (Hin : Forall (sec_in size) (table_sections x size)).
  { unfold table_sections. apply sections_loop_in.
    - right. reflexivity.
    - constructor; [exact I | constructor].
    - intros j e Hg. destruct e; exact I || idtac. cbn [table_conv entry_ok].
      assert (Hx : In (j, Save.XNormal offset gen) x).
      { clear - Hg. induction x as [|[k e] x IH]; [discriminate|]. cbn [Save.xget] in Hg.
        destruct (k =? j) eqn:E; [apply N.eqb_eq in E; subst; inversion Hg; left; reflexivity | right; apply IH; exact Hg]. }
      rewrite Forall_forall in Hn. specialize (Hn _ Hx). unfold normal_ok in Hn. cbn [snd] in Hn.
      unfold u32_max, u16_max in *. lia.
    - rewrite N2Nat.id. lia. }
  assert (Hok : Forall sec_ok (table_sections x size)).
  { eapply Forall_impl; [|exact Hin]. intros [s es] [H1 [H2 H3]]. cbn [fst snd] in *.
    unfold sec_ok, u32_max, two32 in *. cbn [fst snd]. repeat split; try assumption; lia. }
  assert (Hin2 : Forall (sec_in two32) (table_sections x size)).
  { eapply Forall_impl; [|exact Hin]. intros [s es] [H1 [H2 H3]]. cbn [fst snd] in *.
    unfold sec_in. cbn [fst snd]. repeat split; try assumption; lia. }
  assert (Hne : table_sections x size <> []).
  { intro E. pose proof (flatten_sections_loop (N.to_nat (size - 1)) 1 x table_conv 0 [Save.XUnusable] (or_intror eq_refl)) as F.
    unfold table_sections in E. rewrite E in F. discriminate F. }
  rewrite xref_table_written by assumption.
  rewrite parsed_sections_flatten by exact Hin2.
  unfold table_sections. rewrite flatten_sections_loop by (right; reflexivity).
  cbn [enum app add_all].
  rewrite present_sorted; [| exact Hi | rewrite N2Nat.id; eapply Forall_impl; [|exact Hb]; intros a Ha; cbn beta in *; lia | exact Hn].
  rewrite (add_all_sorted x 1 []) by (try assumption; constructor). reflexivity.
Qed.
