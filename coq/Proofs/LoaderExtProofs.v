(* LoaderExtProofs.v -- Model/LoaderExt.v extends Model/Loader.v conservatively: wherever Loader.load answers
   (anything but LUnmodelled), load_ext answers the same, for every decompress instance.  So every theorem about
   Loader.load with a definite result (C01_full, C02's loader theorems) is a theorem about load_ext. *)
From LV Require Import Base.Bytes Base.Sx Model.Obj Model.Writer Model.Parser Model.Xref Model.ObjStm Model.Utf
  Model.Loader Model.LoaderExt Gen.Lex Gen.SaveFmt Gen.Consts.

Local Open Scope N_scope.

(* a stream dictionary whose Length is neither an integer nor a reference (absent, or some other object):
   the only streams Loader.v leaves without a body *)
Definition no_length (d : dict) : Prop :=
  match dict_get d K_Length with Some (OInt _) | Some (ORef _ _) => False | _ => True end.
Definition pos_inv (o : obj) (pos : option N) : Prop :=
  pos = None \/ exists d, o = OStream d [] /\ no_length d.

Lemma stream_px_agrees fuel buf s lenref :
  match stream_p fuel s with
  | StOk o r => exists pos, stream_px fuel buf s lenref = SxOk o pos r /\ pos_inv o pos
  | StErr => stream_px fuel buf s lenref = SxErr
  | StFail => stream_px fuel buf s lenref = SxFail
  | StPanic => stream_px fuel buf s lenref = SxPanic
  | StOut => stream_px fuel buf s lenref = SxOut
  | StUnm => True
  end.
Proof.
  unfold stream_p, stream_px.
  destruct (dictionary fuel s) as [d r| | | |]; try reflexivity.
  destruct (ptag (bs "stream") (space r)) as [u r2| | | |]; try reflexivity.
  destruct (eol (skip_while is_space_tab r2)) as [u' r4| | | |]; try reflexivity.
  destruct (dict_get d K_Length) as [v|] eqn:El.
  - destruct v; try (eexists; split; [reflexivity|]; right; exists d; split; [reflexivity|]; unfold no_length; rewrite El; exact I).
    + (* integer *)
      destruct (z <? 0)%Z; [reflexivity|].
      destruct (take_N (Z.to_N z) r4) as [[data r5]|]; [|reflexivity].
      destruct (ptag (bs "endstream") (match eol r5 with POk _ r0 => r0 | _ => r5 end)) as [u'' r7| | | |]; try reflexivity.
      eexists. split; [reflexivity | left; reflexivity].
    + exact I.
  - eexists. split; [reflexivity|]. right. exists d. split; [reflexivity|]. unfold no_length. rewrite El. exact I.
Qed.

Lemma indirect_with_agrees buf s e lenref :
  match indirect_object s e with
  | IOk id o => exists pos, indirect_with buf s e lenref = IxOk id o pos /\ pos_inv o pos
  | IErr => indirect_with buf s e lenref = IxErr
  | IPanic => indirect_with buf s e lenref = IxPanic
  | IOut => indirect_with buf s e lenref = IxOut
  | IUnm => True
  end.
Proof.
  unfold indirect_object, indirect_with.
  destruct (object_id (space s)) as [id r| | | |]; try reflexivity.
  destruct (ptag (bs "obj") r) as [u r1| | | |]; try reflexivity.
  destruct (match e with Some e0 => negb (oid_eqb e0 id) | None => false end); [reflexivity|].
  pose proof (stream_px_agrees (fuel_for s) buf (space r1) lenref) as H.
  destruct (stream_p (fuel_for s) (space r1)) as [o r'| | | | |].
  - destruct H as [pos [-> Hp]]. exists pos. split; [reflexivity | exact Hp].
  - rewrite H. destruct (direct_objects (fuel_for s) (space r1)) as [o r'| | | |]; try reflexivity.
    exists None. split; [reflexivity | left; reflexivity].
  - rewrite H. reflexivity.
  - rewrite H. reflexivity.
  - rewrite H. reflexivity.
  - exact I.
Qed.

(* ---------- association lists ---------- *)
Lemma oid_eqb_refl a : oid_eqb a a = true.
Proof. apply oid_eqb_eq. reflexivity. Qed.

Lemma oid_eqb_false a b : a <> b -> oid_eqb a b = false.
Proof. intro H. destruct (oid_eqb a b) eqn:E; [apply oid_eqb_eq in E; contradiction | reflexivity]. Qed.

Lemma oid_eqb_sym a b : oid_eqb a b = oid_eqb b a.
Proof.
  destruct (oid_eqb a b) eqn:E.
  - apply oid_eqb_eq in E. subst. symmetry. apply oid_eqb_refl.
  - destruct (oid_eqb b a) eqn:E'; [|reflexivity]. apply oid_eqb_eq in E'. subst. rewrite oid_eqb_refl in E. discriminate.
Qed.

Lemma lookup_insert_same : forall m id o, lookup (insert m id o) id = Some o.
Proof.
  induction m as [|[i o'] m IH]; intros id o; cbn [insert lookup]; [rewrite oid_eqb_refl; reflexivity|].
  destruct (oid_eqb i id) eqn:E; [cbn [lookup]; rewrite E; reflexivity|].
  destruct (oid_ltb id i); cbn [lookup]; [rewrite oid_eqb_refl; reflexivity|]. rewrite E. apply IH.
Qed.

Lemma lookup_insert_other : forall m id o id', id <> id' -> lookup (insert m id o) id' = lookup m id'.
Proof.
  induction m as [|[i o'] m IH]; intros id o id' H; cbn [insert lookup]; [rewrite oid_eqb_false by exact H; reflexivity|].
  destruct (oid_eqb i id) eqn:E.
  - apply oid_eqb_eq in E. subst i. cbn [lookup]. rewrite oid_eqb_false by exact H. reflexivity.
  - destruct (oid_ltb id i); cbn [lookup]; [rewrite oid_eqb_false by exact H; reflexivity|].
    destruct (oid_eqb i id'); [reflexivity | apply IH; exact H].
Qed.

Lemma pos_get_remove : forall p id id', pos_get (pos_remove p id) id' = if oid_eqb id id' then None else pos_get p id'.
Proof.
  induction p as [|[i v] p IH]; intros id id'; cbn [pos_remove pos_get]; [destruct (oid_eqb id id'); reflexivity|].
  destruct (oid_eqb i id) eqn:E.
  - apply oid_eqb_eq in E. subst i. rewrite IH. destruct (oid_eqb id id'); reflexivity.
  - cbn [pos_get]. rewrite IH. destruct (oid_eqb i id') eqn:E'; [|reflexivity].
    apply oid_eqb_eq in E'. subst i. rewrite oid_eqb_sym, E. reflexivity.
Qed.

Lemma pos_get_set p id v id' : pos_get (pos_set p id v) id' = if oid_eqb id id' then v else pos_get p id'.
Proof.
  unfold pos_set. destruct v as [n|]; cbn [pos_get]; rewrite pos_get_remove; destruct (oid_eqb id id'); reflexivity.
Qed.

(* ---------- the state of read_entries_x in a file Loader.v covers ---------- *)
Definition st_inv (st : rstate) : Prop :=
  r_ostm st = [] /\
  forall id p, pos_get (r_pos st) id = Some p -> exists d, lookup (r_objs st) id = Some (OStream d []) /\ no_length d.

Lemma st_inv_insert st id o pos z :
  st_inv st -> pos_inv o pos ->
  st_inv {| r_objs := insert (r_objs st) id o; r_pos := pos_set (r_pos st) id pos; r_ostm := r_ostm st; r_zero := z |}.
Proof.
  intros [H1 H2] Hp. split; [exact H1|]. cbn [r_objs r_pos]. intros id' p Hg. rewrite pos_get_set in Hg.
  destruct (oid_eqb id id') eqn:E.
  - apply oid_eqb_eq in E. subst id'. rewrite lookup_insert_same.
    destruct Hp as [->|[d [-> Hd]]]; [discriminate|]. exists d. split; [reflexivity | exact Hd].
  - assert (id <> id') by (intro; subst; rewrite oid_eqb_refl in E; discriminate).
    rewrite lookup_insert_other by assumption. apply (H2 id' p Hg).
Qed.

(* Document::dereference keeps to the loaded objects *)
Lemma deref_id_lookup : forall fuel m id o n tid t,
  lookup m id = Some o -> deref_id fuel m id o n = Some (tid, t) -> lookup m tid = Some t.
Proof.
  induction fuel as [|f IH]; intros m id o n tid t Hl H.
  - destruct o; cbn [deref_id] in H; try (inversion H; subst; exact Hl).
  - destruct o; cbn [deref_id] in H; try (inversion H; subst; exact Hl).
    destruct (lookup m (id0, gen)) as [o'|] eqn:E; [|discriminate].
    destruct (DEREF_LIMIT <? n + 1); [discriminate|]. apply (IH m (id0, gen) o' (n + 1) tid t E H).
Qed.

Lemma deref_nonref fuel m o n : (forall i g, o <> ORef i g) -> deref (S fuel) m o n = Some o.
Proof. intro H. destruct o; try reflexivity. exfalso. apply (H id gen). reflexivity. Qed.

Section Agree.
  Variable decompress : dict -> bytes -> option (dict * bytes).
  Variable can_decompress : dict -> bool.

  Lemma xref_and_trailer_x_agrees buf start :
    xref_and_trailer buf start <> SUnm ->
    xref_and_trailer_x decompress can_decompress buf start = xref_and_trailer buf start.
  Proof.
    unfold xref_and_trailer, xref_and_trailer_x, indirect_x. intro H.
    destruct (xref_and_trailer_table (from start buf)) as [a|e| | |]; try reflexivity.
    pose proof (indirect_with_agrees buf (from start buf) None (get_length (S MAX_LENGTH_CHAIN) buf [] [])) as A.
    destruct (indirect_object (from start buf) None) as [id o| | | |].
    - destruct A as [pos [-> _]]. destruct o; try reflexivity.
      unfold filters_modelled, decode_xref_stream. destruct (dict_has d K_Filter); [exfalso; apply H; reflexivity | reflexivity].
    - rewrite A. reflexivity.
    - rewrite A. reflexivity.
    - rewrite A. reflexivity.
    - exfalso. apply H. reflexivity.
  Qed.

  Lemma merge_xref_stream_x_agrees buf x start :
    merge_xref_stream buf x start <> SUnm ->
    merge_xref_stream_x decompress can_decompress buf x start = merge_xref_stream buf x start.
  Proof.
    unfold merge_xref_stream, merge_xref_stream_x. intro H.
    destruct start as [o|]; [|reflexivity]. destruct o; try reflexivity.
    destruct ((z <? 0)%Z || (Loader.blen buf <? Z.to_N z)); [reflexivity|].
    assert (E : xref_and_trailer buf (Z.to_N z) <> SUnm).
    { intro E. rewrite E in H. apply H. reflexivity. }
    rewrite (xref_and_trailer_x_agrees buf (Z.to_N z) E). reflexivity.
  Qed.

  Lemma prev_loop_x_agrees buf : forall fuel x t prev seen,
    prev_loop fuel buf x t prev seen <> SUnm ->
    prev_loop_x decompress can_decompress fuel buf x t prev seen = prev_loop fuel buf x t prev seen.
  Proof.
    induction fuel as [|f IH]; intros x t prev seen H.
    - destruct prev as [[]|]; try reflexivity.
    - destruct prev as [o|]; [|reflexivity]. destruct o; try reflexivity.
      cbn [prev_loop prev_loop_x] in *.
      destruct (existsb (Z.eqb z) seen); [reflexivity|].
      destruct ((z <? 0)%Z || (Loader.blen buf <? Z.to_N z)); [reflexivity|].
      assert (E0 : merge_xref_stream buf x (dict_get t K_XRefStm) <> SUnm).
      { intro E. rewrite E in H. apply H. reflexivity. }
      rewrite (merge_xref_stream_x_agrees buf x _ E0).
      destruct (merge_xref_stream buf x (dict_get t K_XRefStm)) as [x1|e| | |]; try reflexivity.
      assert (E1 : xref_and_trailer buf (Z.to_N z) <> SUnm).
      { intro E. rewrite E in H. apply H. reflexivity. }
      rewrite (xref_and_trailer_x_agrees buf (Z.to_N z) E1).
      destruct (xref_and_trailer buf (Z.to_N z)) as [[px pt]|e| | |]; try reflexivity.
      assert (E2 : merge_xref_stream buf px (dict_get pt K_XRefStm) <> SUnm).
      { intro E. rewrite E in H. apply H. reflexivity. }
      rewrite (merge_xref_stream_x_agrees buf px _ E2).
      destruct (merge_xref_stream buf px (dict_get pt K_XRefStm)) as [px1|e| | |]; try reflexivity.
      apply IH. exact H.
  Qed.

  Lemma read_entries_x_agrees buf x : forall es acc st,
    r_objs st = acc -> st_inv st ->
    match read_entries buf es acc with
    | SOk objs => exists st', read_entries_x decompress can_decompress buf x es st = SOk st' /\ r_objs st' = objs /\ st_inv st'
    | SErr e => read_entries_x decompress can_decompress buf x es st = SErr e
    | SPanic => read_entries_x decompress can_decompress buf x es st = SPanic
    | SOut => read_entries_x decompress can_decompress buf x es st = SOut
    | SUnm => True
    end.
  Proof.
    induction es as [|[k e] es IH]; intros acc st Hacc Hinv.
    - cbn [read_entries read_entries_x]. exists st. split; [reflexivity|]. split; assumption.
    - cbn [read_entries read_entries_x]. destruct e as [| |off g|c i]; try (apply IH; assumption).
      destruct (Loader.blen buf <? off); [apply IH; assumption|].
      unfold indirect_x.
      pose proof (indirect_with_agrees buf (from off buf) None (get_length (S MAX_LENGTH_CHAIN) buf x [])) as A.
      destruct (indirect_object (from off buf) None) as [id o| | | |].
      + destruct A as [pos [-> Hp]]. destruct o;
          try (apply IH; [cbn [r_objs]; rewrite Hacc; reflexivity | apply st_inv_insert; [exact Hinv | left; reflexivity]]).
        destruct (has_type d K_ObjStm); [exact I|].
        apply IH; [cbn [r_objs]; rewrite Hacc; reflexivity | apply st_inv_insert; assumption].
      + rewrite A. apply IH; assumption.
      + rewrite A. reflexivity.
      + rewrite A. reflexivity.
      + exact I.
  Qed.

  (* the pass over the streams with empty content changes nothing *)
  Lemma read_stream_content_id buf m p id :
    (forall id' q, pos_get p id' = Some q -> exists d, lookup m id' = Some (OStream d []) /\ no_length d) ->
    read_stream_content buf m p id = m.
  Proof.
    intro H. unfold read_stream_content.
    destruct (lookup m id) as [o|] eqn:El; [|reflexivity].
    destruct (dereference_id m id o) as [[tid t]|] eqn:Ed; [|reflexivity].
    destruct t; try reflexivity.
    destruct (dict_get d K_Length) as [v|] eqn:Ev; [|reflexivity].
    destruct (dereference m v) as [r|] eqn:Er; [|reflexivity]. destruct r; try reflexivity.
    destruct (pos_get p tid) as [start|] eqn:Ep; [|reflexivity].
    exfalso. destruct (H tid start Ep) as [d' [Hl Hn]].
    pose proof (deref_id_lookup _ m id o 0 tid (OStream d content) El Ed) as Hl'.
    rewrite Hl in Hl'. inversion Hl'; subst d'. unfold no_length in Hn. rewrite Ev in Hn.
    unfold dereference in Er. destruct v; try contradiction; rewrite deref_nonref in Er by (intros; discriminate); discriminate.
  Qed.

  Lemma zero_pass_id buf m p zs :
    (forall id' q, pos_get p id' = Some q -> exists d, lookup m id' = Some (OStream d []) /\ no_length d) ->
    zero_pass buf m p zs = m.
  Proof.
    intro H. unfold zero_pass. induction zs as [|id zs IH]; [reflexivity|]. cbn [fold_left].
    rewrite read_stream_content_id by exact H. exact IH.
  Qed.

  (* MAIN: the extension is conservative *)
  Theorem load_ext_agrees b :
    load b <> LUnmodelled -> load_ext decompress can_decompress b = load b.
  Proof.
    unfold load, load_ext. intro H.
    destruct (header (from (pdf_offset b) b)) as [version|]; [|reflexivity].
    destruct (get_xref_start (from (pdf_offset b) b)) as [xs|]; [|reflexivity].
    set (buf := from (pdf_offset b) b) in *.
    assert (E1 : xref_and_trailer buf xs <> SUnm).
    { intro E. rewrite E in H. apply H. reflexivity. }
    rewrite (xref_and_trailer_x_agrees buf xs E1).
    destruct (xref_and_trailer buf xs) as [[x0 t0]|e| | |]; try reflexivity.
    assert (E2 : prev_loop (S (S (length buf))) buf x0 (dict_swap_remove t0 K_Prev) (dict_get t0 K_Prev) [] <> SUnm).
    { intro E. rewrite E in H. apply H. reflexivity. }
    rewrite (prev_loop_x_agrees buf _ _ _ _ _ E2).
    destruct (prev_loop (S (S (length buf))) buf x0 (dict_swap_remove t0 K_Prev) (dict_get t0 K_Prev) []) as [[x t]|e| | |];
      try reflexivity.
    destruct (u32_max <=? xref_max_id x); [reflexivity|].
    destruct (dict_has t Loader.K_Encrypt); [reflexivity|].
    pose proof (read_entries_x_agrees buf (x_entries x) (x_entries x) []
                  {| r_objs := []; r_pos := []; r_ostm := []; r_zero := [] |} eq_refl) as A.
    assert (I0 : st_inv {| r_objs := []; r_pos := []; r_ostm := []; r_zero := [] |}).
    { split; [reflexivity|]. intros id p Hp. discriminate Hp. }
    specialize (A I0).
    destruct (read_entries buf (x_entries x) []) as [objs|e| | |].
    - destruct A as [st' [-> [Ho [Hs1 Hs2]]]]. rewrite Hs1. unfold merge_object_streams. cbn [fold_left].
      rewrite zero_pass_id by exact Hs2. rewrite Ho. reflexivity.
    - rewrite A. reflexivity.
    - rewrite A. reflexivity.
    - rewrite A. reflexivity.
    - exfalso. apply H. reflexivity.
  Qed.
End Agree.
