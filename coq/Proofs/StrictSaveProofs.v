(* StrictSaveProofs.v -- C03, part 6: the statements of the property about [save] itself (the writer
   as it is now: max_id is raised to the largest object number first, /repo 19ab1a6), on the
   property's domain [strict_savable] = C01's [savable] + version "d.d" + binary mark of >= 4 bytes:
     strict_load_save        strict_load (so_bytes (save x d)) = SOk (sdoc_of x d), both formats
     strict_load_save_fields the recovered document, field by field
     all_bytes_accounted     the spans the reader counted tile [0, |file|) *)
From LV Require Import Base.Bytes Base.Sx Model.Obj Model.Writer Model.Save Gen.Lex Gen.SaveFmt
  Proofs.LexProofs Proofs.RealProofs Proofs.ObjectRtProofs Proofs.SaveProofs Spec.SaveSpec
  Proofs.FilterProofsDict Proofs.LoadProofs Proofs.LoadProofsXref Proofs.LoadProofsTable Proofs.LoadProofsFull
  Proofs.StrictReaderProofs Proofs.SaveStrictProofs Proofs.StrictObjectProofs Proofs.StrictFileProofs
  Proofs.StrictTilingProofs Proofs.StrictLoadProofs Proofs.StrictLoadStreamProofs.
From LV Require Spec.StrictReader.

Local Open Scope N_scope.

(* the domain of the property: C01's [savable] (notes/C01.md) and the two rules of ISO 32000-1 7.5.2
   that lopdf's writer leaves to the caller *)
Record strict_savable (d : doc) : Prop := {
  st_savable : savable d;
  st_version : SR.version_ok (d_version d) = true;           (* "%PDF-" digits "." digits *)
  st_mark : (4 <= length (d_binary_mark d))%nat;             (* at least four bytes (all >= 128 by savable) *)
}.

Lemma strict_savable_raise d : strict_savable d -> strict_savable_core (raise_max_id d).
Proof.
  intros [S Hv Hm]. constructor.
  - rewrite <- (written_savable d S). apply savable_written. exact S.
  - exact Hv.
  - exact Hm.
Qed.

(* what the strict reader returns for a saved file *)
Definition sdoc_of (x : xref_type) (d : doc) : SR.sdoc :=
  match x with
  | XTable => sdoc_table (raise_max_id d)
  | XStream => sdoc_stream (raise_max_id d)
  end.

Theorem strict_load_save x d :
  strict_savable d -> small_file x d ->
  SR.strict_load (so_bytes (save x d)) = SR.SOk (sdoc_of x d).
Proof.
  intros Hs Hsm. pose proof (strict_savable_raise d Hs) as Hc. unfold small_file, sdoc_of in *. unfold save in *.
  destruct x; [apply strict_load_table | apply strict_load_stream]; assumption.
Qed.

(* the trailer the writer leaves in the document *)
Lemma so_doc_trailer_table d :
  so_status (save_core XTable d) = SaveOk -> d_trailer (so_doc (save_core XTable d)) = trailer_table d.
Proof.
  unfold save_core. destruct (u32_top <=? d_max_id d); [discriminate|].
  destruct (negb (binary_mark_ok (d_binary_mark d))); [discriminate|].
  destruct (save_body d) as [[b xs] x]. reflexivity.
Qed.

Lemma so_doc_trailer_stream d :
  savable_core d -> blen (body_of d) < u32_mod ->
  d_trailer (so_doc (save_core XStream d)) = xs_dict d.
Proof.
  intros Sv Hn. pose proof (sv_max_id d Sv) as Hm. pose proof (xref_start_is_length d) as Hl.
  pose proof (xmap_shape d (sv_numbers d Sv)) as Ex.
  unfold save_core, xref_start_of, body_of, xmap_of in *.
  replace (u32_top <=? d_max_id d) with false by (symmetry; apply N.leb_gt; unfold u32_top, u32_mod in *; lia).
  rewrite (sv_mark d Sv). cbn [negb]. destruct (save_body d) as [[b xs] x] eqn:E. cbn [fst snd] in *.
  replace (u32_top <=? d_max_id d + 1) with false by (symmetry; apply N.leb_gt; unfold u32_top, u32_mod in *; lia).
  subst xs. rewrite (N.mod_small _ _ Hn). rewrite Ex. rewrite xstream_parts_eq. cbv zeta.
  rewrite (save_xinsert_last _ _ _ (entries_bound_savable d Sv)).
  cbn [so_doc d_trailer with_trailer]. unfold xs_dict, xs_secs, xs_map, body_of. rewrite E. reflexivity.
Qed.

(* field by field: version, objects (normal forms: only an integral real below 2^63 becomes the
   integer), the trailer the writer left in the document, one revision, the offset after startxref *)
Theorem strict_load_save_fields x d :
  strict_savable d -> small_file x d ->
  exists s, SR.strict_load (so_bytes (save x d)) = SR.SOk s /\
    SR.s_version s = d_version d /\
    SR.s_objects s = norm_objects (d_objects d) /\
    SR.s_trailer s = norm_dict (d_trailer (so_doc (save x d))) /\
    SR.s_revisions s = 1 /\
    SR.s_stream s = (match x with XTable => false | XStream => true end) /\
    SR.s_startxref s = blen (body_of d).
Proof.
  intros Hs Hsm. exists (sdoc_of x d). split; [apply strict_load_save; assumption|].
  pose proof (strict_savable_raise d Hs) as [Sv _ _]. unfold small_file in *. unfold save in *.
  destruct x; cbn [sdoc_of sdoc_table sdoc_stream SR.s_version SR.s_objects SR.s_trailer SR.s_revisions SR.s_stream
                   SR.s_startxref]; repeat split.
  - rewrite so_doc_trailer_table by (apply save_table_ok; exact Sv). reflexivity.
  - rewrite so_doc_trailer_stream; [reflexivity | exact Sv|].
    destruct (save_core_shape XStream _ (save_stream_ok _ Sv)) as [mid [Hb _]].
    rewrite Hb in Hsm. rewrite blen_app in Hsm. lia.
Qed.

(* every byte of a saved file lies in exactly one of the spans the strict reader counted: the spans
   of [sdoc_of] (header, one per object, cross-reference section, startxref marker; empty and
   repeated spans dropped) are consecutive from 0 to |file| *)
Theorem all_bytes_accounted x d :
  strict_savable d -> small_file x d ->
  let file := so_bytes (save x d) in
  let spans := effective (0, 0) (SR.s_spans (sdoc_of x d)) in
  chain 0 spans (SR.lenN file) /\
  (forall p, p < SR.lenN file -> exists a b, In (a, b) spans /\ a <= p < b) /\
  (forall i j a b a' b', (i < j)%nat -> nth_error spans i = Some (a, b) -> nth_error spans j = Some (a', b') -> b <= a').
Proof.
  intros Hs Hsm file spans.
  pose proof (strict_load_sound file (sdoc_of x d) (strict_load_save x d Hs Hsm)) as [_ [_ [_ [_ [_ [_ Hc]]]]]].
  fold spans in Hc. split; [exact Hc|]. split.
  - intros p Hp. apply (chain_cover _ _ _ Hc p). lia.
  - apply (chain_disjoint _ _ _ Hc).
Qed.

(* non-vacuity: a document of the domain (max_id below the largest object number, an integral real, a
   stream of generation 2); the hypotheses hold and the recovered objects are written out *)
Definition ex_doc3 : doc :=
  {| d_version := bs "1.5"; d_binary_mark := [xbb; xad; xc0; xde];
     d_trailer := [(K_Root, ORef 1 0)];
     d_objects := [((1, 0), ODict [(K_Type, OName (bs "Catalog")); (bs "V", OReal (bs "5"))]);
                   ((3, 2), OStream [(K_Length, OInt 3)] (bs "abc"))];
     d_max_id := 1 |}.

Lemma ex_doc3_savable : strict_savable ex_doc3.
Proof.
  constructor; [|reflexivity | cbn; lia].
  constructor; cbn [ex_doc3 d_version d_binary_mark d_trailer d_objects d_max_id].
  - vm_compute. reflexivity.
  - reflexivity.
  - reflexivity.
  - vm_compute. discriminate.
  - cbn [obj_numbers map fst increasing]. repeat split; reflexivity.
  - apply Forall_cons; [|apply Forall_cons; [|apply Forall_nil]]; cbn [fst snd].
    + split; [vm_compute; discriminate|]. split; [|reflexivity].
      cbn [top_wf]. constructor; [repeat constructor; cbn; intuition discriminate|].
      constructor; [constructor|]. constructor; [|constructor]. cbn [snd]. constructor. apply real_wfb_spec. reflexivity.
    + split; [vm_compute; discriminate|]. split; [|reflexivity].
      cbn [top_wf]. split; [|reflexivity].
      constructor; [repeat constructor; cbn; intuition discriminate|]. repeat constructor.
  - constructor; [repeat constructor; cbn; intuition discriminate|].
    constructor; [|constructor]. cbn [snd]. constructor; vm_compute; discriminate.
  - reflexivity.
  - reflexivity.
Qed.

Theorem strict_example :
  strict_savable ex_doc3 /\ small_file XTable ex_doc3 /\ small_file XStream ex_doc3 /\
  (SR.s_objects (sdoc_of XTable ex_doc3) =
    [((1, 0), ODict [(K_Type, OName (bs "Catalog")); (bs "V", OInt 5)]); ((3, 2), OStream [(K_Length, OInt 3)] (bs "abc"))]) /\
  (SR.s_objects (sdoc_of XStream ex_doc3) = SR.s_objects (sdoc_of XTable ex_doc3)) /\
  (SR.r_entries (hd (rev_table ex_doc3 0) (SR.s_revs (sdoc_of XStream ex_doc3))) =
    [(1, SR.XUse 15 0); (3, SR.XUse 52 2); (4, SR.XUse 102 0)]).
Proof.
  split; [exact ex_doc3_savable|]. repeat split; vm_compute; reflexivity.
Qed.
