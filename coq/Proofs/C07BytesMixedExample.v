(* C07BytesMixedExample.v -- C07, byte level: non-vacuity of the mixed-format histories.  The two-object document of
   C07BytesExample.v is saved in the TABLE format and updated once in the table format (the type load returned); then
   the caller sets reference_table.cross_reference_type of the loaded document to CrossReferenceStream and updates
   again: the second update is written as a cross-reference STREAM whose Prev names a table section.  A third update
   goes back to the table format over the stream section.  Every hypothesis of [mixed_edit_step] is discharged; the
   executable loader run on the produced bytes gives the document the theorems predict. *)
From LV Require Import Base.Bytes Base.Sx Model.Obj Model.DocQ Model.Writer Model.Parser Model.Save Model.Xref Model.Loader
  Model.Incremental Model.Utf Gen.Lex Gen.SaveFmt Gen.Inc Proofs.IncrementalProofs Proofs.LexProofs Proofs.RealProofs
  Proofs.ObjectRtProofs Proofs.SaveProofs Proofs.FilterProofsDict Spec.SaveSpec Proofs.LoadProofs Proofs.LoadProofsFile
  Proofs.LoadProofsXref Proofs.LoadProofsTable Proofs.LoadProofsAgain Proofs.LoadProofsStream Proofs.LoadProofsFull
  Proofs.StrictLoadProofs Proofs.StrictRevisionProofs Proofs.StrictIncrementalProofs Proofs.C07Bytes Proofs.C07BytesTable
  Proofs.C07BytesStream Proofs.C07BytesHistory Proofs.C07BytesExample Proofs.C07BytesMixed.

Local Open Scope N_scope.

(* step 1: table over table, as in C07BytesExample.v *)
Lemma mx_history1 :
  mixed_history XTTable [(XTable, XTTable)] ex_F2 (io_start (inc_save ex_s)) (d_objects ex_result).
Proof.
  destruct example_reload as (H1 & H2 & H3 & H4 & H5 & H6 & H7 & _).
  pose proof (mh_save XTable ex_d H1 H2 H3 H4) as Hh.
  assert (Hl : load (so_bytes (save XTable ex_d)) = LOk (reloaded XTable ex_d) XTTable).
  { apply (load_save_gen XTable ex_d); [apply savable_written; exact H1 | rewrite known_deep_written by exact H1; exact H2 | exact H3]. }
  assert (Hids : Forall (fun io : oid * obj => In (fst io) (map fst (d_objects (reloaded XTable ex_d))) \/
                            ~ In (fst (fst io)) (obj_numbers (d_objects (reloaded XTable ex_d)))) (d_objects ex_nd)).
  { rewrite ex_nd_eq. cbn [d_objects].
    apply Forall_cons; [left; left; reflexivity|]. apply Forall_cons; [|apply Forall_nil].
    right. vm_compute. intros [H|[H|[]]]; discriminate H. }
  destruct (mixed_edit_step _ _ _ _ _ (reloaded XTable ex_d) XTTable XTable ex_edits Hh Hl H5 H6 H7 Hids) as [_ Hm].
  cbn [step_objs] in Hm.
  replace (d_objects ex_result) with
    (Incremental.overlay (d_objects (reloaded XTable ex_d)) (norm_objects (d_objects (xd_doc (i_new ex_s)))))
    by (vm_compute; reflexivity).
  exact Hm.
Qed.

(* step 2: the caller switches the loaded document to the stream format *)
Definition mx_prev2 : xdoc := {| xd_doc := ex_result; xd_start := io_start (inc_save ex_s); xd_type := XStream |}.
Definition mx_edits2 : list edit := [ESet (3, 0) (OStr (bs "newer") false); EAdd (ORef 1 0)].
Definition mx_s2 : incdoc := fold_left apply_edit mx_edits2 (create_from ex_F2 mx_prev2).
Definition mx_F3 : bytes := io_bytes (inc_save mx_s2).

Lemma mx_nd2_eq :
  xd_doc (i_new mx_s2) =
  {| d_version := INC_VERSION; d_binary_mark := INC_BINARY_MARK;
     d_trailer := [(K_Root, ORef 1 0); (Save.K_Size, OInt 4); (Save.K_Prev, OInt (Z.of_N (io_start (inc_save ex_s))))];
     d_objects := [((3, 0), OStr (bs "newer") false); ((4, 0), ORef 1 0)];
     d_max_id := 4 |}.
Proof. vm_compute. reflexivity. Qed.

Lemma mx_nd2_rev : rev_dom (xd_doc (i_new mx_s2)).
Proof.
  rewrite mx_nd2_eq. constructor; cbn [d_max_id d_objects d_trailer].
  - vm_compute. reflexivity.
  - cbn [obj_numbers map fst increasing]. repeat split; reflexivity.
  - apply Forall_cons; [|apply Forall_cons; [|apply Forall_nil]]; cbn [fst snd].
    + split; [vm_compute; discriminate|]. split; [vm_compute; discriminate|]. split; [|reflexivity]. constructor.
    + split; [vm_compute; discriminate|]. split; [vm_compute; discriminate|]. split; [|reflexivity].
      constructor; vm_compute; discriminate.
  - constructor; [repeat constructor; cbn; intuition discriminate|].
    constructor; [cbn [snd]; constructor; vm_compute; discriminate|].
    constructor; [cbn [snd]; constructor; reflexivity|].
    constructor; [cbn [snd]; constructor; vm_compute; reflexivity | constructor].
Qed.

(* what the theorems predict for the file after step 2: the objects 1-4 and the cross-reference stream object 5 *)
Definition mx_objs3 : objmap :=
  step_objs XStream (d_objects ex_result) (xd_doc (i_new mx_s2)) (Save.blen (ex_F2 ++ inc_lines (xd_doc (i_new mx_s2)))).

Lemma mx_history2 :
  mixed_history XTTable [(XStream, XTTable); (XTable, XTTable)] mx_F3 (io_start (inc_save mx_s2)) mx_objs3.
Proof.
  assert (Hk : known_deep (xd_doc (i_new mx_s2)) = false) by (vm_compute; reflexivity).
  assert (Hlen : Save.blen (io_bytes (inc_save mx_s2)) < u32_mod) by (vm_compute; reflexivity).
  assert (Hids : Forall (fun io : oid * obj => In (fst io) (map fst (d_objects ex_result)) \/
                            ~ In (fst (fst io)) (obj_numbers (d_objects ex_result))) (d_objects (xd_doc (i_new mx_s2)))).
  { rewrite mx_nd2_eq. cbn [d_objects].
    apply Forall_cons; [left; right; right; left; reflexivity|]. apply Forall_cons; [|apply Forall_nil].
    right. vm_compute. intros [H|[H|[H|[]]]]; discriminate H. }
  exact (proj2 (mixed_edit_step _ _ _ _ _ ex_result XTTable XStream mx_edits2 mx_history1 example_reload_computed
                                mx_nd2_rev Hk Hlen Hids)).
Qed.

Theorem example_mixed :
  mixed_history XTTable [(XStream, XTTable); (XTable, XTTable)] mx_F3 (io_start (inc_save mx_s2)) mx_objs3 /\
  ~ Forall inherits [(XStream, XTTable); (XTable, XTTable)] /\
  obj_numbers mx_objs3 = [1; 2; 3; 4; 5] /\
  lookup mx_objs3 (3, 0) = Some (OStr (bs "newer") false) /\ lookup mx_objs3 (2, 0) = Some (OInt 7) /\
  exists d', load mx_F3 = LOk d' XTStream /\ d_objects d' = mx_objs3 /\ d_max_id d' = 5.
Proof.
  split; [exact mx_history2|].
  split; [intro H; apply Forall_inv in H; discriminate H|].
  split; [vm_compute; reflexivity|]. split; [vm_compute; reflexivity|]. split; [vm_compute; reflexivity|].
  eexists. split; [vm_compute; reflexivity|]. split; vm_compute; reflexivity.
Qed.

Print Assumptions example_mixed.
