(* C07BytesMixedExample.v -- C07, byte level: non-vacuity of the mixed-format histories.  The two-object document of
   C07BytesExample.v is saved in the TABLE format and updated once in the table format (the type load returned); then
   the caller sets reference_table.cross_reference_type of the loaded document to CrossReferenceStream and updates
   again: the second update is written as a cross-reference STREAM whose Prev names a table section.  A third update
   goes back to the table format over the stream section.  Every hypothesis of [mixed_edit_step] is discharged; the
   executable loader run on the produced bytes gives the document the theorems predict. *)
From LV Require Import Base.Bytes Base.Sx Model.Obj Model.DocQ Model.Writer Model.Parser Model.Save Model.Xref Model.Loader
  Model.Incremental Model.Utf Gen.Lex Gen.SaveFmt Gen.Inc Proofs.IncrementalProofs Proofs.LexProofs Proofs.RealProofs
  Proofs.ObjectRtProofs Proofs.SaveProofs Proofs.FilterProofsDict Spec.SaveSpec Proofs.LoadProofs Proofs.LoadProofsFile
  Proofs.LoadProofsXref Proofs.LoadProofsTable Proofs.LoadProofsAgain Proofs.LoadProofsStream Proofs.LoadProofsFull
  Proofs.StrictLoadProofs Proofs.StrictRevisionProofs Proofs.StrictIncrementalProofs Proofs.C07Bytes Proofs.C07BytesTable
  Proofs.C07BytesStream Proofs.C07BytesHistory Proofs.C07BytesExample Proofs.C07BytesMixed.

Local Open Scope N_scope.

(* step 1: table over table, as in C07BytesExample.v *)
Lemma mx_history1 :
  mixed_history XTTable [(XTable, XTTable)] ex_F2 (io_start (inc_save ex_s)) (d_objects ex_result).
Proof.
  destruct example_reload as (H1 & H2 & H3 & H4 & H5 & H6 & H7 & _).
  pose proof (mh_save XTable ex_d H1 H2 H3 H4) as Hh.
  assert (Hl : load (so_bytes (save XTable ex_d)) = LOk (reloaded XTable ex_d) XTTable).
  { apply (load_save_gen XTable ex_d); [apply savable_written; exact H1 | rewrite known_deep_written by exact H1; exact H2 | exact H3]. }
  assert (Hids : Forall (fun io : oid * obj => In (fst io) (map fst (d_objects (reloaded XTable ex_d))) \/
                            ~ In (fst (fst io)) (obj_numbers (d_objects (reloaded XTable ex_d)))) (d_objects ex_nd)).
  { rewrite ex_nd_eq. cbn [d_objects].
    apply Forall_cons; [left; left; reflexivity|]. apply Forall_cons; [|apply Forall_nil].
    right. vm_compute. intros [H|[H|[]]]; discriminate H. }
  destruct (mixed_edit_step _ _ _ _ _ (reloaded XTable ex_d) XTTable XTable ex_edits Hh Hl H5 H6 H7 Hids) as [_ Hm].
  cbn [step_objs] in Hm.
  replace (d_objects ex_result) with
    (Incremental.overlay (d_objects (reloaded XTable ex_d)) (norm_objects (d_objects (xd_doc (i_new ex_s)))))
    by (vm_compute; reflexivity).
  exact Hm.
Qed.

(* step 2: the caller switches the loaded document to the stream format *)
Definition mx_prev2 : xdoc := {| xd_doc := ex_result; xd_start := io_start (inc_save ex_s); xd_type := XStream |}.
Definition mx_edits2 : list edit := [ESet (3, 0) (OStr (bs "newer") false); EAdd (ORef 1 0)].
Definition mx_s2 : incdoc := fold_left apply_edit mx_edits2 (create_from ex_F2 mx_prev2).
Definition mx_F3 : bytes := io_bytes (inc_save mx_s2).

Lemma mx_nd2_eq :
  xd_doc (i_new mx_s2) =
  {| d_version := INC_VERSION; d_binary_mark := INC_BINARY_MARK;
     d_trailer := [(K_Root, ORef 1 0); (Save.K_Size, OInt 4); (Save.K_Prev, OInt (Z.of_N (io_start (inc_save ex_s))))];
     d_objects := [((3, 0), OStr (bs "newer") false); ((4, 0), ORef 1 0)];
     d_max_id := 4 |}.
Proof. vm_compute. reflexivity. Qed.

Lemma mx_nd2_rev : rev_dom (xd_doc (i_new mx_s2)).
Proof.
  rewrite mx_nd2_eq. constructor; cbn [d_max_id d_objects d_trailer].
  - vm_compute. reflexivity.
  - cbn [obj_numbers map fst increasing]. repeat split; reflexivity.
  - apply Forall_cons; [|apply Forall_cons; [|apply Forall_nil]]; cbn [fst snd].
    + split; [vm_compute; discriminate|]. split; [vm_compute; discriminate|]. split; [|reflexivity]. constructor.
    + split; [vm_compute; discriminate|]. split; [vm_compute; discriminate|]. split; [|reflexivity].
      constructor; vm_compute; discriminate.
  - constructor; [repeat constructor; cbn; intuition discriminate|].
    constructor; [cbn [snd]; constructor; vm_compute; discriminate|].
    constructor; [cbn [snd]; constructor; reflexivity|].
    constructor; [cbn [snd]; constructor; vm_compute; reflexivity | constructor].
Qed.

(* what the theorems predict for the file after step 2: the objects 1-4 and the cross-reference stream object 5 *)
Definition mx_objs3 : objmap :=
  step_objs XStream (d_objects ex_result) (xd_doc (i_new mx_s2)) (Save.blen (ex_F2 ++ inc_lines (xd_doc (i_new mx_s2)))).

Lemma mx_history2 :
  mixed_history XTTable [(XStream, XTTable); (XTable, XTTable)] mx_F3 (io_start (inc_save mx_s2)) mx_objs3.
Proof.
  assert (Hk : known_deep (xd_doc (i_new mx_s2)) = false) by (vm_compute; reflexivity).
  assert (Hlen : Save.blen (io_bytes (inc_save mx_s2)) < u32_mod) by (vm_compute; reflexivity).
  assert (Hids : Forall (fun io : oid * obj => In (fst io) (map fst (d_objects ex_result)) \/
                            ~ In (fst (fst io)) (obj_numbers (d_objects ex_result))) (d_objects (xd_doc (i_new mx_s2)))).
  { rewrite mx_nd2_eq. cbn [d_objects].
    apply Forall_cons; [left; right; right; left; reflexivity|]. apply Forall_cons; [|apply Forall_nil].
    right. vm_compute. intros [H|[H|[H|[]]]]; discriminate H. }
  exact (proj2 (mixed_edit_step _ _ _ _ _ ex_result XTTable XStream mx_edits2 mx_history1 example_reload_computed
                                mx_nd2_rev Hk Hlen Hids)).
Qed.

Theorem example_mixed :
  mixed_history XTTable [(XStream, XTTable); (XTable, XTTable)] mx_F3 (io_start (inc_save mx_s2)) mx_objs3 /\
  ~ Forall inherits [(XStream, XTTable); (XTable, XTTable)] /\
  obj_numbers mx_objs3 = [1; 2; 3; 4; 5] /\
  lookup mx_objs3 (3, 0) = Some (OStr (bs "newer") false) /\ lookup mx_objs3 (2, 0) = Some (OInt 7) /\
  exists d', load mx_F3 = LOk d' XTStream /\ d_objects d' = mx_objs3 /\ d_max_id d' = 5.
Proof.
  split; [exact mx_history2|].
  split; [intro H; apply Forall_inv in H; discriminate H|].
  split; [vm_compute; reflexivity|]. split; [vm_compute; reflexivity|]. split; [vm_compute; reflexivity|].
  eexists. split; [vm_compute; reflexivity|]. split; vm_compute; reflexivity.
Qed.

(* step 3: back to the table format, over the stream section *)
Definition mx_d3 : doc := Eval vm_compute in match load mx_F3 with LOk d _ => d | _ => ex_d end.
Lemma mx_load3 : load mx_F3 = LOk mx_d3 XTStream.
Proof. vm_compute. reflexivity. Qed.

Definition mx_prev3 : xdoc := {| xd_doc := mx_d3; xd_start := io_start (inc_save mx_s2); xd_type := XTable |}.
Definition mx_edits3 : list edit := [ESet (2, 0) (OInt 9); EAdd (OInt 11)].
Definition mx_s3 : incdoc := fold_left apply_edit mx_edits3 (create_from mx_F3 mx_prev3).
Definition mx_F4 : bytes := io_bytes (inc_save mx_s3).

Lemma mx_nd3_eq :
  xd_doc (i_new mx_s3) =
  {| d_version := INC_VERSION; d_binary_mark := INC_BINARY_MARK;
     d_trailer := [(K_Root, ORef 1 0); (Save.K_Size, OInt 6); (K_Type, OName K_XRef); (Save.K_Prev, OInt 452)];
     d_objects := [((2, 0), OInt 9); ((6, 0), OInt 11)];
     d_max_id := 6 |}.
Proof. vm_compute. reflexivity. Qed.

Lemma mx_nd3_rev : rev_dom (xd_doc (i_new mx_s3)).
Proof.
  rewrite mx_nd3_eq. constructor; cbn [d_max_id d_objects d_trailer].
  - vm_compute. reflexivity.
  - cbn [obj_numbers map fst increasing]. repeat split; reflexivity.
  - apply Forall_cons; [|apply Forall_cons; [|apply Forall_nil]]; cbn [fst snd];
      (split; [vm_compute; discriminate|]; split; [vm_compute; discriminate|]; split; [|reflexivity]; constructor; reflexivity).
  - constructor; [repeat constructor; cbn; intuition discriminate|].
    constructor; [cbn [snd]; constructor; vm_compute; discriminate|].
    constructor; [cbn [snd]; constructor; reflexivity|].
    constructor; [cbn [snd]; constructor|].
    constructor; [cbn [snd]; constructor; reflexivity | constructor].
Qed.

Definition mx_steps4 : list mstep := [(XTable, XTStream); (XStream, XTTable); (XTable, XTTable)].
Definition mx_objs4 : objmap :=
  step_objs XTable mx_objs3 (xd_doc (i_new mx_s3)) (Save.blen (mx_F3 ++ inc_lines (xd_doc (i_new mx_s3)))).

(* table / table / stream / table: the newest section is a table whose Prev names a cross-reference stream whose Prev
   names a table; the loaded max_id is max 5 6 (the table rule of C07BytesMaxId.step_max) *)
Theorem example_mixed_back :
  mixed_history XTTable mx_steps4 mx_F4 (io_start (inc_save mx_s3)) mx_objs4 /\
  obj_numbers mx_objs4 = [1; 2; 3; 4; 5; 6] /\
  lookup mx_objs4 (2, 0) = Some (OInt 9) /\ lookup mx_objs4 (3, 0) = Some (OStr (bs "newer") false) /\
  exists d', load mx_F4 = LOk d' XTTable /\ d_objects d' = mx_objs4 /\ d_max_id d' = 6.
Proof.
  assert (Hk : known_deep (xd_doc (i_new mx_s3)) = false) by (vm_compute; reflexivity).
  assert (Hlen : Save.blen (io_bytes (inc_save mx_s3)) < u32_mod) by (vm_compute; reflexivity).
  assert (Hids : Forall (fun io : oid * obj => In (fst io) (map fst (d_objects mx_d3)) \/
                            ~ In (fst (fst io)) (obj_numbers (d_objects mx_d3))) (d_objects (xd_doc (i_new mx_s3)))).
  { rewrite mx_nd3_eq. cbn [d_objects].
    apply Forall_cons; [left; right; left; reflexivity|]. apply Forall_cons; [|apply Forall_nil].
    right. vm_compute. intros [H|[H|[H|[H|[H|[]]]]]]; discriminate H. }
  split.
  - exact (proj2 (mixed_edit_step _ _ _ _ _ mx_d3 XTStream XTable mx_edits3 mx_history2 mx_load3 mx_nd3_rev Hk Hlen Hids)).
  - split; [vm_compute; reflexivity|]. split; [vm_compute; reflexivity|]. split; [vm_compute; reflexivity|].
    eexists. split; [vm_compute; reflexivity|]. split; vm_compute; reflexivity.
Qed.

Print Assumptions example_mixed.
Print Assumptions example_mixed_back.
