(* ContentProofs.v -- C14: Content::encode then Content::decode is the identity (up to the
   normal form of reals) on every sequence of operations in the domain of the property,
   including inline images in the BI/ID/EI syntax.
   Built on Proofs/ObjectRtProofs.v (object_rt for the operands).  The byte-class facts about
   operator characters and content white space are 256-case sweeps over Gen/Lex.v. *)
From LV Require Import Base.Bytes Base.Sx Model.Obj Model.Writer Model.Parser Gen.Lex
  Proofs.LexProofs Proofs.LitStringProofs Proofs.RealProofs Proofs.ObjectRtProofs.
From Coq Require Import ZifyBool ZifyN ZifyNat.
Local Open Scope N_scope.

(* ---------- operations in the domain of the property ---------- *)

(* an operator: non-empty, over the alphabet the parser accepts (letters, star, quote, double quote), and not
   one of the three keywords of the operand grammar (a keyword is a whole token since the repair of
   C14-keyword-operator, so an operator may BEGIN with one: nullify, trueType) *)
Definition K_null : bytes := Eval cbv in bs "null".
Definition K_true : bytes := Eval cbv in bs "true".
Definition K_false : bytes := Eval cbv in bs "false".
Definition K_BI : bytes := Eval cbv in bs "BI".
Definition keyword_op (op : bytes) : bool :=
  bytes_eqb K_null op || bytes_eqb K_true op || bytes_eqb K_false op.
Definition operator_ok (op : bytes) : bool :=
  match op with [] => false | _ => true end && forallb is_operator_char op && negb (keyword_op op).

(* an operand: a direct object other than a reference, nested at most MAX_NESTING container levels *)
Definition operand_wf (o : obj) : Prop := obj_wf o /\ ref_ok false o /\ (nest o <= MAX_DEPTH)%nat.

Definition plain_op_wf (op : operation) : Prop :=
  operator_ok (op_operator op) = true /\
  Forall operand_wf (op_operands op) /\
  (op_operands op = [] -> bytes_eqb K_BI (op_operator op) = false).

(* the data length an inline-image dictionary implies (image_data_stream, without the input) *)
Definition img_len (d : dict) : option N :=
  match get_abbr d (bs "W") (bs "Width"), get_abbr d (bs "H") (bs "Height"),
        get_abbr d (bs "BPC") (bs "BitsPerComponent") with
  | Some (OInt w), Some (OInt h), Some (OInt bpc) =>
    match get_abbr d (bs "CS") (bs "ColorSpace") with
    | Some (OName cs) =>
      let nc :=
        if bytes_eqb cs (bs "DeviceGray") || bytes_eqb cs (bs "Gray") then Some 1
        else if bytes_eqb cs (bs "DeviceRGB") || bytes_eqb cs (bs "RGB") then Some 3
        else if bytes_eqb cs (bs "DeviceRGBA") || bytes_eqb cs (bs "RGBA") then Some 4
        else if bytes_eqb cs (bs "DeviceCMYK") || bytes_eqb cs (bs "CMYK") then Some 4
        else None in
      match nc with
      | None => None
      | Some nc =>
        match usize_mul nc (as_usize bpc) with
        | None => None
        | Some a =>
          match usize_mul (as_usize w) a with
          | None => None
          | Some b =>
            match usize_add b 7 with
            | None => None
            | Some c =>
              match usize_mul (as_usize h) (c / 8) with
              | None => None
              | Some len =>
                match get_abbr d (bs "F") (bs "Filter") with
                | Some _ => None
                | None => Some len
                end
              end
            end
          end
        end
      end
    | _ => None
    end
  | _, _, _ => None
  end.

Lemma image_data_stream_len s d :
  image_data_stream s d =
  match img_len d with
  | None => IdsErr
  | Some len => if N.of_nat (length s) <? len then IdsErr
                else match take_n (N.to_nat len) s with Some (c, r) => IdsOk c r | None => IdsErr end
  end.
Proof.
  unfold image_data_stream, img_len.
  repeat match goal with
         | |- context [match ?x with _ => _ end] =>
           lazymatch x with
           | context [match _ with _ => _ end] => fail
           | N.ltb _ _ => fail
           | take_n _ _ => fail
           | _ => destruct x eqn:?
           end
         end; try reflexivity.
Qed.

Definition image_op_wf (op : operation) : Prop :=
  op_operator op = bs "BI" /\
  exists d c, op_operands op = [OStream d c] /\
    NoDup (map fst d) /\ Forall (fun kv => obj_wf (snd kv) /\ (nest (snd kv) < MAX_DEPTH)%nat) d /\
    img_len (norm_dict d) = Some (N.of_nat (length c)).

Definition op_wf (op : operation) : Prop := plain_op_wf op \/ image_op_wf op.

(* what an operation is read back as *)
Definition norm_operand (o : obj) : obj :=
  match o with OStream d c => stream_new (norm_dict d) c | _ => norm_obj o end.
Definition norm_op (op : operation) : operation :=
  {| op_operator := op_operator op; op_operands := map norm_operand (op_operands op) |}.

(* ---------- facts about operator characters ---------- *)

Definition opchar_facts (c : byte) : bool :=
  negb (is_operator_char c) ||
  (negb (byte_eqb c x25) && negb (is_content_space c) && is_regular c &&
   (byte_eqb c x6e || byte_eqb c x74 || byte_eqb c x66 || no_lead c)).
Lemma opchar_sweep : byte_forallb opchar_facts = true.
Proof. vm_compute. reflexivity. Qed.

Lemma opchar_spec c : is_operator_char c = true ->
  byte_eqb c x25 = false /\ is_content_space c = false /\
  (byte_eqb c x6e || byte_eqb c x74 || byte_eqb c x66 || no_lead c = true).
Proof.
  intro H. pose proof (byte_forallb_spec _ opchar_sweep c) as K. unfold opchar_facts in K.
  rewrite H in K. cbn [negb orb] in K.
  apply andb_true_iff in K as [K K3]. apply andb_true_iff in K as [K K4]. apply andb_true_iff in K as [K1 K2].
  apply negb_true_iff in K1. apply negb_true_iff in K2. auto.
Qed.

Lemma opchar_regular c : is_operator_char c = true -> is_regular c = true.
Proof.
  intro H. pose proof (byte_forallb_spec _ opchar_sweep c) as K. unfold opchar_facts in K.
  rewrite H in K. cbn [negb orb] in K.
  apply andb_true_iff in K as [K K3]. apply andb_true_iff in K as [K K4]. exact K4.
Qed.

(* a keyword parser (tag + token_end) does not accept a different operator text: either the tag
   does not match, or it matches a proper prefix and an operator character (a regular byte) follows *)
Lemma pkeyword_cons a t s : pkeyword (a :: t) (a :: s) = pkeyword t s.
Proof. unfold pkeyword, ptag. cbn [prefixb length drop]. rewrite byte_eqb_refl. reflexivity. Qed.

Lemma pkeyword_cons_neq a b t s : byte_eqb a b = false -> pkeyword (a :: t) (b :: s) = PErr.
Proof. intro H. unfold pkeyword, ptag. cbn [prefixb]. rewrite H. reflexivity. Qed.

Lemma kw_op_err : forall t op tail,
  forallb is_operator_char t = true -> forallb is_operator_char op = true ->
  bytes_eqb t op = false -> starts_with is_operator_char tail = false ->
  pkeyword t (op ++ tail) = PErr.
Proof.
  induction t as [|a t IH]; intros op tail Ht Hop Hne Hs.
  - destruct op as [|c op]; [discriminate|]. cbn [forallb] in Hop. apply andb_true_iff in Hop as [Hc _].
    unfold pkeyword, ptag. cbn [prefixb length drop app token_end]. rewrite (opchar_regular c Hc). reflexivity.
  - cbn [forallb] in Ht. apply andb_true_iff in Ht as [Ha Ht].
    destruct op as [|b op]; cbn [app].
    + destruct tail as [|b tail]; [reflexivity|]. cbn [starts_with] in Hs.
      apply pkeyword_cons_neq. apply byte_eqb_neq. intro E. subst. congruence.
    + cbn [forallb] in Hop. apply andb_true_iff in Hop as [Hb Hop]. cbn [bytes_eqb] in Hne.
      destruct (byte_eqb a b) eqn:E.
      * apply byte_eqb_eq in E. subst b. rewrite pkeyword_cons. apply IH; assumption.
      * apply pkeyword_cons_neq. exact E.
Qed.

Lemma obj_lead_spec c : obj_lead c = true ->
  byte_eqb c x25 = false /\ is_content_space c = false /\ byte_eqb x42 c = false.
Proof.
  intro H. pose proof (byte_forallb_spec _ lead_sweep c) as K. unfold lead_facts in K.
  rewrite H in K. cbn [negb orb] in K.
  repeat (apply andb_true_iff in K as [K ?]).
  repeat match goal with X : negb _ = true |- _ => apply negb_true_iff in X end.
  repeat split; try assumption. apply byte_eqb_neq. intro E. subst c. discriminate.
Qed.

(* a keyword that is not a prefix of the operator is not a prefix of operator ++ tail either *)
Lemma prefixb_app_false : forall t op tail,
  prefixb t op = false -> forallb is_operator_char t = true ->
  starts_with is_operator_char tail = false -> prefixb t (op ++ tail) = false.
Proof.
  induction t as [|a t IH]; intros op tail Hp Ht Hs; [discriminate|].
  cbn [forallb] in Ht. apply andb_true_iff in Ht as [Ha Ht].
  destruct op as [|b op]; cbn [app].
  - destruct tail as [|b tail]; [reflexivity|]. cbn [prefixb starts_with] in *.
    destruct (byte_eqb a b) eqn:E; [|reflexivity]. apply byte_eqb_eq in E. subst. congruence.
  - cbn [prefixb] in *. destruct (byte_eqb a b); [|reflexivity]. cbn [andb] in *. apply IH; assumption.
Qed.

Lemma many0_comment_id c s : byte_eqb c x25 = false -> many0_comment (c :: s) = c :: s.
Proof. intro H. unfold many0_comment. cbn [many0_comment_aux]. rewrite H. reflexivity. Qed.

Lemma content_space_sp s : content_space (x20 :: s) = content_space s.
Proof. reflexivity. Qed.
Lemma content_space_lf s : content_space (x0a :: s) = content_space s.
Proof. reflexivity. Qed.

(* the operand parser does not take (a prefix of) a well-formed operator for an operand *)
Lemma alts_kw_lead elem cont n c s :
  byte_eqb c x6e || byte_eqb c x74 || byte_eqb c x66 = true ->
  null (c :: s) = PErr -> boolean (c :: s) = PErr -> object_alts_c elem cont false n (c :: s) = PErr.
Proof.
  intros Hc H1 H2. unfold object_alts_c. rewrite H1, H2. cbn [palt].
  apply orb_true_iff in Hc as [Hc|Hc]; [apply orb_true_iff in Hc as [Hc|Hc]|];
    apply byte_eqb_eq in Hc; subst c; destruct cont; reflexivity.
Qed.

Lemma ptag_false t s : prefixb t s = false -> ptag t s = PErr.
Proof. intro H. unfold ptag. rewrite H. reflexivity. Qed.

Lemma operator_ok_parts op : operator_ok op = true ->
  op <> [] /\ forallb is_operator_char op = true /\
  bytes_eqb K_null op = false /\ bytes_eqb K_true op = false /\ bytes_eqb K_false op = false.
Proof.
  unfold operator_ok, keyword_op. intro H. apply andb_true_iff in H as [H H3]. apply andb_true_iff in H as [H1 H2].
  apply negb_true_iff in H3. apply orb_false_iff in H3 as [H3 H5]. apply orb_false_iff in H3 as [H3 H4].
  repeat split; try assumption. destruct op; [discriminate|discriminate].
Qed.

Lemma operand_operator_err f op tail :
  operator_ok op = true -> starts_with is_operator_char tail = false ->
  operand (S f) (op ++ tail) = PErr.
Proof.
  intros Hop Ht. destruct (operator_ok_parts op Hop) as [Hne [Hall [Hn [Htr Hfa]]]].
  destruct op as [|c op]; [contradiction|].
  assert (Hc : is_operator_char c = true) by (cbn [forallb] in Hall; apply andb_true_iff in Hall; tauto).
  destruct (opchar_spec c Hc) as [_ [_ Hk]].
  assert (E : object_alts_c (direct_objects_at f (pred MAX_DEPTH)) (depth_ok MAX_DEPTH) false f ((c :: op) ++ tail) = PErr).
  { apply orb_true_iff in Hk as [Hk|Hk].
    - cbn [app]. apply alts_kw_lead; [exact Hk| |].
      + unfold null. change (c :: op ++ tail) with ((c :: op) ++ tail). change (bs "null") with K_null.
        rewrite (kw_op_err K_null (c :: op) tail eq_refl Hall Hn Ht). reflexivity.
      + unfold boolean. change (c :: op ++ tail) with ((c :: op) ++ tail).
        change (bs "true") with K_true. change (bs "false") with K_false.
        rewrite (kw_op_err K_true (c :: op) tail eq_refl Hall Htr Ht),
                (kw_op_err K_false (c :: op) tail eq_refl Hall Hfa Ht). reflexivity.
    - cbn [app]. apply alts_no_lead. exact Hk. }
  unfold operand. rewrite E. reflexivity.
Qed.

Lemma operator_rt op tail :
  operator_ok op = true -> starts_with is_operator_char tail = false ->
  operator (op ++ tail) = POk op tail.
Proof.
  intros Hop Ht. destruct (operator_ok_parts op Hop) as [Hne [Hall _]].
  unfold operator. rewrite take_while_app by assumption. destruct op; [contradiction|reflexivity].
Qed.

(* ---------- operands ---------- *)

Definition write_operands (ops : list obj) : bytes := flat_map (fun o => write_object o ++ [x20]) ops.

Lemma follow_sp o R : follow_ok false o (x20 :: R).
Proof.
  destruct o; cbn [follow_ok]; try exact I; try reflexivity; (split; [reflexivity|discriminate]).
Qed.

Lemma elem_rt_of_wf f dp x : obj_wf x -> (nest x <= dp)%nat -> elem_rt f dp x.
Proof.
  intros Hw Hn rest Hc Hlen. cbn [direct_objects_at].
  apply object_rt; [assumption|apply ref_ok_true|apply cont_follow; exact Hc|exact Hlen|exact Hn].
Qed.

Lemma write_operands_cs ops Y : cs_start Y = true -> Forall operand_wf ops ->
  cs_start (write_operands ops ++ Y) = true.
Proof.
  intros HY H. destruct H as [|o ops [Hw _] _]; [exact HY|].
  cbn [write_operands flat_map]. rewrite <- !app_assoc.
  destruct (write_object_lead o Hw) as [c [t [E Hl]]]. rewrite E. apply obj_lead_cs. exact Hl.
Qed.

Lemma many0_operand_rt f : forall ops Y n,
  Forall operand_wf ops ->
  operand (S f) Y = PErr -> cs_start Y = true ->
  (length (write_operands ops ++ Y) <= f)%nat -> (length (write_operands ops ++ Y) < n)%nat ->
  many0_operand (S f) n (write_operands ops ++ Y) = POk (map norm_obj ops) Y.
Proof.
  induction ops as [|o ops IH]; intros Y n Hw HY Hcs Hf Hn.
  - cbn [write_operands flat_map app] in *. destruct n as [|n]; [lia|]. cbn [many0_operand]. rewrite HY. reflexivity.
  - inversion Hw as [|? ? [Hwo [Hro Hno]] Hws]; subst.
    cbn [write_operands flat_map] in *. fold (write_operands ops) in *.
    rewrite <- !app_assoc in *. cbn [app] in *.
    pose proof (write_object_nonempty o Hwo) as H1.
    rewrite !app_length in Hf, Hn. cbn [length] in Hf, Hn.
    destruct n as [|n]; [lia|]. cbn [many0_operand]. unfold operand at 1.
    rewrite (object_rt o false (x20 :: write_operands ops ++ Y) f MAX_DEPTH Hwo Hro (follow_sp o _))
      by (try exact Hno; rewrite !app_length; cbn [length]; lia).
    cbn [pbind]. rewrite content_space_sp, (content_space_tok _ (write_operands_cs ops Y Hcs Hws)).
    rewrite IH; [reflexivity|assumption|assumption|assumption|lia|lia].
Qed.

(* ---------- one plain operation ---------- *)

Lemma encode_plain op : Forall operand_wf (op_operands op) ->
  encode_operation op = write_operands (op_operands op) ++ op_operator op.
Proof.
  unfold encode_operation, write_operands.
  destruct (op_operands op) as [|o [|o2 l]]; intro H; try reflexivity.
  - inversion H as [|? ? [Hw _] _]; subst. destruct o; try reflexivity. inversion Hw.
  - destruct o; reflexivity.
Qed.

Definition op_tail (tail : bytes) : Prop := starts_with is_operator_char tail = false.

Lemma inline_image_not f s : pkeyword K_BI s = PErr -> inline_image f s = PErr.
Proof. intro H. unfold inline_image. change (bs "BI") with K_BI. rewrite H. reflexivity. Qed.

Lemma operator_head op : operator_ok op = true ->
  exists c t, op = c :: t /\ is_operator_char c = true.
Proof.
  intro H. destruct (operator_ok_parts op H) as [Hne [Hall _]].
  destruct op as [|c t]; [contradiction|]. exists c, t. split; [reflexivity|].
  cbn [forallb] in Hall; apply andb_true_iff in Hall; tauto.
Qed.

Lemma plain_head op tail : plain_op_wf op ->
  exists c t, encode_operation op ++ tail = c :: t /\ byte_eqb c x25 = false /\ is_content_space c = false.
Proof.
  intros [Hop [Hw Hbi]]. rewrite (encode_plain op Hw). destruct Hw as [|o ops [Hwo _] _].
  - cbn [write_operands flat_map app]. destruct (operator_head _ Hop) as [c [t [-> Hc]]].
    exists c, (t ++ tail). split; [reflexivity|]. destruct (opchar_spec c Hc) as [A [B _]]. auto.
  - cbn [write_operands flat_map]. destruct (write_object_lead o Hwo) as [c [t [E Hl]]]. rewrite E.
    rewrite <- !app_assoc. cbn [app]. eexists c, _. split; [reflexivity|].
    destruct (obj_lead_spec c Hl) as [A [B _]]. auto.
Qed.

Lemma plain_not_bi op tail : plain_op_wf op -> op_tail tail ->
  pkeyword K_BI (encode_operation op ++ tail) = PErr.
Proof.
  intros [Hop [Hw Hbi]] Ht. rewrite (encode_plain op Hw). destruct Hw as [|o ops [Hwo _] _].
  - cbn [write_operands flat_map app]. destruct (operator_ok_parts _ Hop) as [_ [Hall _]].
    apply kw_op_err; [reflexivity|exact Hall|apply Hbi; reflexivity|exact Ht].
  - cbn [write_operands flat_map]. destruct (write_object_lead o Hwo) as [c [t [E Hl]]]. rewrite E.
    rewrite <- !app_assoc. cbn [app]. destruct (obj_lead_spec c Hl) as [_ [_ C]].
    apply pkeyword_cons_neq. exact C.
Qed.

Lemma operation_plain_rt op tail fuel :
  plain_op_wf op -> op_tail tail ->
  (length (encode_operation op ++ tail) + 2 <= fuel)%nat ->
  operation_p fuel (encode_operation op ++ tail) =
  POk (norm_op op) (content_space tail).
Proof.
  intros Hwf Ht Hlen. pose proof Hwf as [Hop [Hw Hbi]].
  destruct (plain_head op tail Hwf) as [c [t [E [Hc _]]]].
  unfold operation_p. rewrite E, (many0_comment_id c t Hc), <- E.
  rewrite (inline_image_not _ _ (plain_not_bi op tail Hwf Ht)). cbn [pmap palt].
  rewrite (encode_plain op Hw) in *. rewrite <- app_assoc in *.
  destruct fuel as [|f]; [lia|].
  rewrite (many0_operand_rt f (op_operands op) (op_operator op ++ tail) (S f) Hw
             (operand_operator_err f _ _ Hop Ht)); [| |lia|lia].
  - cbn [pbind]. rewrite (operator_rt _ _ Hop Ht). cbn [pbind]. unfold norm_op. f_equal. f_equal.
    apply map_ext_in. intros o Ho. rewrite Forall_forall in Hw. destruct (Hw o Ho) as [Hwo _].
    destruct o; try reflexivity. inversion Hwo.
  - destruct (operator_head _ Hop) as [c0 [t0 [-> Hc0]]]. cbn [app cs_start].
    destruct (opchar_spec c0 Hc0) as [_ [B _]]. rewrite B. reflexivity.
Qed.

(* ---------- one inline image ---------- *)

Definition bi_entry (kv : bytes * obj) : bytes := x20 :: write_name (fst kv) ++ x20 :: write_object (snd kv).
Definition bi_body (d : dict) : bytes := flat_map bi_entry d.

Lemma encode_image_eq d c :
  encode_inline_image d c = x42 :: x49 :: bi_body d ++ x20 :: x49 :: x44 :: x20 :: c ++ [x20; x45; x49].
Proof. reflexivity. Qed.

Lemma encode_image_app d c tail :
  encode_inline_image d c ++ tail =
  x42 :: x49 :: bi_body d ++ x20 :: x49 :: x44 :: x20 :: c ++ x20 :: x45 :: x49 :: tail.
Proof.
  rewrite encode_image_eq. cbn [app]. do 2 f_equal. rewrite <- app_assoc. f_equal. cbn [app]. do 4 f_equal.
  rewrite <- app_assoc. reflexivity.
Qed.

(* after the entries comes " ID"; in both cases the text starts with a space followed by a
   byte that is neither white space nor a comment *)
Lemma bi_strip d T : exists X, bi_body d ++ x20 :: x49 :: x44 :: T = x20 :: X /\
                               tok_start X = true /\ cs_start X = true /\ cont_ok (x20 :: X).
Proof.
  destruct d as [|[k v] d].
  - eexists. split; [reflexivity|]. repeat split; reflexivity.
  - eexists. split; [reflexivity|]. repeat split; reflexivity.
Qed.

Lemma inner_dict_bi f dp T : forall d n acc,
  Forall (fun kv => obj_wf (snd kv) /\ (nest (snd kv) <= dp)%nat) d ->
  (length (bi_body d ++ x20 :: x49 :: x44 :: T) <= f)%nat ->
  (length (bi_body d ++ x20 :: x49 :: x44 :: T) <= n)%nat ->
  inner_dictionary (direct_objects_at (S f) dp) n (space (bi_body d ++ x20 :: x49 :: x44 :: T)) acc =
  POk (fold_left set_kv d acc) (x49 :: x44 :: T).
Proof.
  induction d as [|[k v] d IH]; intros n acc Hw Hf Hn.
  - cbn [bi_body flat_map app] in *. destruct n as [|n]; [cbn in Hn; lia|]. reflexivity.
  - inversion Hw as [|? ? [Hwv Hnv] Hwd]; subst. cbn [snd] in *.
    cbn [bi_body flat_map] in *. fold (bi_body d) in *. unfold bi_entry in *. cbn [fst snd] in *.
    cbn [app] in *. rewrite <- !app_assoc in *. cbn [app] in *.
    pose proof (write_object_nonempty v Hwv) as H1.
    repeat (progress (cbn [length] in Hf, Hn; rewrite ?app_length in Hf, Hn)).
    destruct n as [|n]; [lia|].
    rewrite space_sp. rewrite space_tok by reflexivity. cbn [inner_dictionary].
    rewrite (name_rt k (x20 :: write_object v ++ bi_body d ++ x20 :: x49 :: x44 :: T) eq_refl). rewrite space_sp.
    destruct (write_object_lead v Hwv) as [c [t [E Hl]]].
    rewrite (space_tok (write_object v ++ _)) by (rewrite E; apply obj_lead_tok; exact Hl).
    destruct (bi_strip d T) as [X [EX [_ [_ HX]]]].
    assert (HC : cont_ok (bi_body d ++ x20 :: x49 :: x44 :: T)) by (rewrite EX; exact HX).
    rewrite (elem_rt_of_wf f dp v Hwv Hnv (bi_body d ++ x20 :: x49 :: x44 :: T) HC)
      by (repeat (progress (cbn [length]; rewrite ?app_length)); lia).
    rewrite IH; [reflexivity|assumption| |]; repeat (progress (cbn [length]; rewrite ?app_length)); lia.
Qed.

Lemma take_n_app : forall (c X : bytes), take_n (length c) (c ++ X) = Some (c, X).
Proof. induction c as [|b c IH]; intro X; [reflexivity|]. cbn [length take_n app]. rewrite IH. reflexivity. Qed.

Lemma image_data_rt c X d :
  img_len d = Some (N.of_nat (length c)) -> image_data_stream (c ++ X) d = IdsOk c X.
Proof.
  intro H. rewrite image_data_stream_len, H, Nat2N.id, take_n_app.
  assert (N.of_nat (length (c ++ X)) <? N.of_nat (length c) = false) as ->
    by (rewrite app_length; lia).
  reflexivity.
Qed.

Lemma operation_image_rt op tail fuel :
  image_op_wf op -> op_tail tail ->
  (length (encode_operation op ++ tail) + 2 <= fuel)%nat ->
  operation_p fuel (encode_operation op ++ tail) = POk (norm_op op) (content_space tail).
Proof.
  intros [Hop [d [c [Hops [Hnd [Hw Hlen]]]]]] Ht Hf.
  destruct op as [oper operands]. cbn [op_operator op_operands] in *. subst oper operands.
  assert (EE : encode_operation {| op_operator := bs "BI"; op_operands := [OStream d c] |} = encode_inline_image d c)
    by reflexivity.
  rewrite EE, encode_image_app in *. clear EE.
  unfold operation_p. rewrite many0_comment_id by reflexivity.
  unfold inline_image.
  set (T := x20 :: c ++ x20 :: x45 :: x49 :: tail) in *.
  destruct (bi_strip d T) as [X [EX [HX1 [HX2 _]]]].
  assert (pkeyword (bs "BI") (x42 :: x49 :: bi_body d ++ x20 :: x49 :: x44 :: T) = POk tt (bi_body d ++ x20 :: x49 :: x44 :: T)) as ->
    by (rewrite EX; reflexivity).
  destruct fuel as [|f]; [lia|]. destruct f as [|f]; [lia|].
  assert (Ecs : content_space (bi_body d ++ x20 :: x49 :: x44 :: T) = space (bi_body d ++ x20 :: x49 :: x44 :: T)).
  { rewrite EX, content_space_sp, space_sp, (content_space_tok _ HX2), (space_tok _ HX1). reflexivity. }
  cbn [length] in Hf.
  assert (Hw' : Forall (fun kv => obj_wf (snd kv) /\ (nest (snd kv) <= pred MAX_DEPTH)%nat) d).
  { eapply Forall_impl; [|exact Hw]. intros kv [A B]. split; [exact A|lia]. }
  rewrite Ecs, (inner_dict_bi f (pred MAX_DEPTH) T d (S f) [] Hw') by lia.
  assert (ptag (bs "ID") (x49 :: x44 :: T) = POk tt T) as -> by reflexivity.
  rewrite (fold_set_kv d [] Hnd). cbn [app].
  (* the data: exactly one space is taken after ID, the data follow whatever their first byte is *)
  set (Y := x20 :: x45 :: x49 :: tail).
  assert (E1 : id_sep T = c ++ Y) by reflexivity.
  assert (E2 : content_space Y = x45 :: x49 :: tail) by reflexivity.
  rewrite E1, (image_data_rt c Y _ Hlen), E2.
  assert (ptag (bs "EI") (x45 :: x49 :: tail) = POk tt tail) as -> by reflexivity.
  cbn [pmap palt fst snd]. reflexivity.
Qed.

(* ---------- sequences of operations ---------- *)

Lemma operation_rt op tail fuel :
  op_wf op -> op_tail tail -> (length (encode_operation op ++ tail) + 2 <= fuel)%nat ->
  operation_p fuel (encode_operation op ++ tail) = POk (norm_op op) (content_space tail).
Proof. intros [H|H]; [apply operation_plain_rt|apply operation_image_rt]; exact H. Qed.

(* an encoded operation is not empty and starts with a byte that is no content white space *)
Lemma encode_operation_head op tail : op_wf op ->
  exists c t, encode_operation op ++ tail = c :: t /\ is_content_space c = false.
Proof.
  intros [H|H].
  - destruct (plain_head op tail H) as [c [t [E [_ Hc]]]]. eauto.
  - destruct H as [Hop [d [c [Hops _]]]]. destruct op as [oper operands]. cbn [op_operator op_operands] in *.
    subst. eexists x42, _. split; reflexivity.
Qed.

Lemma encode_content_cons op ops :
  encode_content (op :: ops) =
  encode_operation op ++ match ops with [] => [] | _ => x0a :: encode_content ops end.
Proof. destruct ops; cbn [encode_content]; [rewrite app_nil_r|]; reflexivity. Qed.

Lemma encode_content_cs ops : Forall op_wf ops -> cs_start (encode_content ops) = true.
Proof.
  intro H. destruct H as [|op ops Hop _]; [reflexivity|]. rewrite encode_content_cons.
  destruct (encode_operation_head op (match ops with [] => [] | _ => x0a :: encode_content ops end) Hop)
    as [c [t [E Hc]]].
  rewrite E. cbn [cs_start]. rewrite Hc. reflexivity.
Qed.

Lemma operation_nil fuel : operation_p (S fuel) [] = PErr.
Proof. reflexivity. Qed.

Lemma many0_operation_rt fuel : forall ops n,
  Forall op_wf ops ->
  (length (encode_content ops) + 2 <= fuel)%nat -> (length (encode_content ops) < n)%nat ->
  many0_operation fuel n (encode_content ops) = POk (map norm_op ops) [].
Proof.
  induction ops as [|op ops IH]; intros n Hw Hf Hn.
  - destruct n as [|n]; [cbn in Hn; lia|]. destruct fuel as [|fuel]; [lia|]. reflexivity.
  - inversion Hw as [|? ? Hop Hops]; subst. rewrite encode_content_cons in *.
    set (tail := match ops with [] => [] | _ => x0a :: encode_content ops end) in *.
    assert (Ht : op_tail tail) by (unfold tail; destruct ops; reflexivity).
    assert (Ec : content_space tail = encode_content ops).
    { unfold tail. destruct ops as [|o2 ops']; [reflexivity|]. rewrite content_space_lf.
      apply content_space_tok, encode_content_cs. exact Hops. }
    assert (Hl : (length (encode_content ops) <= length tail)%nat)
      by (unfold tail; destruct ops; [cbn; lia|cbn [length]; lia]).
    destruct (encode_operation_head op [] Hop) as [c [t [E _]]]. rewrite app_nil_r in E.
    assert (H1 : (1 <= length (encode_operation op))%nat) by (rewrite E; cbn [length]; lia).
    rewrite app_length in *.
    destruct n as [|n]; [lia|]. cbn [many0_operation].
    rewrite (operation_rt op tail fuel Hop Ht) by (rewrite app_length; lia).
    rewrite Ec, IH by (assumption || lia). reflexivity.
Qed.

(* ---------- C14 ---------- *)

Theorem content_rt ops :
  Forall op_wf ops -> decode_content (encode_content ops) = DecOk (map norm_op ops).
Proof.
  intro Hw. unfold decode_content.
  rewrite (content_space_tok _ (encode_content_cs ops Hw)).
  rewrite many0_operation_rt; [reflexivity|assumption|unfold fuel_for; lia|unfold fuel_for; lia].
Qed.

(* ---------- the domain of the property and the known classes ---------- *)

(* operators over the alphabet the parser documents *)
Definition alphabet_op (o : bytes) : bool :=
  match o with [] => false | _ => true end && forallb is_operator_char o.

(* inline image: operator BI, one stream operand whose dictionary implies exactly the data length
   (supported colour space, geometry within usize, no filter); the data are arbitrary bytes (since the
   repair of C14-image-leading-space they may begin with white space) *)
Definition image_dom (op : operation) : Prop :=
  op_operator op = bs "BI" /\
  exists d c, op_operands op = [OStream d c] /\
    NoDup (map fst d) /\ Forall (fun kv => obj_wf (snd kv)) d /\
    img_len (norm_dict d) = Some (N.of_nat (length c)).

(* plain operation: the operator is not one of the three keywords of the operand grammar (null, true,
   false are objects, not operators), operands are direct objects other than references, and BI
   (the inline-image operator) does not stand alone *)
Definition plain_dom (op : operation) : Prop :=
  keyword_op (op_operator op) = false /\
  Forall (fun o => obj_wf o /\ ref_ok false o) (op_operands op) /\
  (op_operands op = [] -> bytes_eqb K_BI (op_operator op) = false).

Definition op_dom (op : operation) : Prop :=
  alphabet_op (op_operator op) = true /\ (plain_dom op \/ image_dom op).

(* known finding C14-deep-nesting: an operand nests containers deeper than MAX_NESTING (reader.rs; 16 since /repo ce95661, before: MAX_BRACKET) *)
Definition too_deep_op (op : operation) : bool :=
  existsb (fun o => Nat.ltb MAX_DEPTH (nest o)) (op_operands op).

Definition known_class (op : operation) : bool := too_deep_op op.

Lemma dom_wf op : op_dom op -> known_class op = false -> op_wf op.
Proof.
  intros [Ha Hd] Hdeep. unfold known_class, too_deep_op in Hdeep.
  assert (Hn : forall o, In o (op_operands op) -> (nest o <= MAX_DEPTH)%nat).
  { intros o Ho. destruct (Nat.ltb MAX_DEPTH (nest o)) eqn:E; [|apply Nat.ltb_ge in E; exact E].
    exfalso. assert (existsb (fun o => Nat.ltb MAX_DEPTH (nest o)) (op_operands op) = true)
      by (apply existsb_exists; eauto). congruence. }
  destruct Hd as [[Hk [Hp Hbi]]|Hi].
  - left. split; [|split].
    + unfold operator_ok. unfold alphabet_op in Ha. apply andb_true_iff in Ha as [A1 A2].
      rewrite A1, A2, Hk. reflexivity.
    + rewrite Forall_forall in *. intros o Ho. destruct (Hp o Ho) as [A B]. split; [exact A|]. split; [exact B|auto].
    + exact Hbi.
  - right. destruct Hi as [Hop [d [c [Hops [Hnd [Hw Hl]]]]]]. split; [exact Hop|].
    exists d, c. split; [exact Hops|]. split; [exact Hnd|]. split; [|auto].
    rewrite Hops in Hn. specialize (Hn _ (or_introl eq_refl)). cbn [nest] in Hn. fold (nest_dict d) in Hn.
    pose proof (nest_dict_le d (pred MAX_DEPTH) ltac:(lia)) as Hle.
    rewrite Forall_forall in *. intros kv Hkv. split; [apply Hw; exact Hkv|]. specialize (Hle kv Hkv). lia.
Qed.

Theorem content_rt_dom ops :
  Forall op_dom ops -> Forall (fun op => known_class op = false) ops ->
  decode_content (encode_content ops) = DecOk (map norm_op ops).
Proof.
  intros Hd Hk. apply content_rt. rewrite Forall_forall in *. intros op Hop.
  apply dom_wf; auto.
Qed.

(* ---------- a concrete sequence in the domain (non-vacuity) ---------- *)

Definition mkop (o : String.string) (l : list obj) : operation := {| op_operator := bs o; op_operands := l |}.
Arguments mkop o%string_scope l.

Definition ex_ops : list operation :=
  [ mkop "q" [];
    mkop "cm" [OInt 1; OReal (bs "0.5"); OReal (bs "-3"); OInt (-7); OReal (bs "100000000000000000000"); OReal (bs "-0")];
    mkop "Tj" [OStr (bs "a(b\c)d)(") false];
    mkop "TJ" [OArr [OStr [x00; xff; x28] true; OInt 120; ONull; OBool true;
                     ODict [(bs "K /#", OName (bs "a b#")); (bs "", OArr [ORef 12 0; OInt 5; OInt 0])]]];
    mkop "BI" [OStream [(bs "W", OInt 2); (bs "H", OInt 1); (bs "CS", OName (bs "RGB")); (bs "BPC", OInt 8)]
                       (bs "ab) EI")];
    mkop "'" [OStr [x0d; x0a; x5c] false];
    mkop "f*" [] ].

Ltac solve_obj_wf :=
  repeat (first [ exact I | reflexivity | lia | (unfold u32_max, u16_max; lia)
                | apply real_wfb_spec; reflexivity
                | match goal with
                  | |- NoDup _ => constructor
                  | |- ~ In _ _ => cbn; intuition discriminate
                  | |- _ /\ _ => split
                  | |- Forall _ _ => constructor
                  | |- obj_wf _ => constructor
                  end ]).

Lemma ex_ops_dom : Forall op_dom ex_ops /\ Forall (fun op => known_class op = false) ex_ops.
Proof.
  split.
  - unfold ex_ops. repeat (apply Forall_cons; [split; [reflexivity|]|]); try apply Forall_nil;
      cbn [op_operands op_operator mkop snd fst].
    5: { right. split; [reflexivity|]. eexists _, _. split; [reflexivity|]. solve_obj_wf. }
    all: left; (split; [reflexivity|split; [solve_obj_wf|try reflexivity; try discriminate]]).
  - repeat constructor.
Qed.

Lemma ex_ops_result :
  decode_content (encode_content ex_ops) =
  DecOk [ mkop "q" [];
          mkop "cm" [OInt 1; OReal (bs "0.5"); OInt (-3); OInt (-7); OReal (bs "100000000000000000000.0"); OInt 0];
          mkop "Tj" [OStr (bs "a(b\c)d)(") false];
          mkop "TJ" [OArr [OStr [x00; xff; x28] true; OInt 120; ONull; OBool true;
                           ODict [(bs "K /#", OName (bs "a b#")); (bs "", OArr [ORef 12 0; OInt 5; OInt 0])]]];
          mkop "BI" [OStream [(bs "W", OInt 2); (bs "H", OInt 1); (bs "CS", OName (bs "RGB")); (bs "BPC", OInt 8);
                              (bs "Length", OInt 6)] (bs "ab) EI")];
          mkop "'" [OStr [x0d; x0a; x5c] false];
          mkop "f*" [] ].
Proof. vm_compute. reflexivity. Qed.

(* ---------- the known class is real; the repaired classes now round-trip ---------- *)

Definition kw_witness : operation := mkop "nullify" [].
Definition bi_witness : operation := mkop "BIx" [].
Fixpoint nested (k : nat) : obj := match k with O => OInt 1 | S k' => OArr [nested k'] end.
Definition deep_witness : operation := mkop "x" [nested (S MAX_DEPTH)].

Lemma nested_wf k : obj_wf (nested k).
Proof.
  induction k; cbn [nested]; [apply wf_int; reflexivity|]. apply wf_arr. constructor; [assumption|constructor].
Qed.

Lemma plain_dom_nil o : keyword_op (bs o) = false -> bytes_eqb K_BI (bs o) = false -> plain_dom (mkop o []).
Proof. intros H1 H2. split; [exact H1|]. split; [constructor|intros _; exact H2]. Qed.

(* the former witnesses of C14-keyword-operator (fixed): operators that merely begin with a keyword *)
Lemma kw_witness_fixed :
  op_dom kw_witness /\ known_class kw_witness = false /\
  decode_content (encode_content [kw_witness; bi_witness; mkop "trueType" [OBool true; ONull]; mkop "falsey" [ONull]]) =
  DecOk [kw_witness; bi_witness; mkop "trueType" [OBool true; ONull]; mkop "falsey" [ONull]].
Proof.
  split; [split; [reflexivity|left; apply plain_dom_nil; reflexivity]|]. split; vm_compute; reflexivity.
Qed.

(* the restriction that remains is necessary: the three keywords themselves are operands, and a lone BI
   starts the inline-image grammar *)
Lemma keyword_operator_refuted :
  decode_content (encode_content [mkop "null" []]) = DecOk [] /\
  decode_content (encode_content [mkop "true" [OInt 1]]) = DecOk [] /\
  decode_content (encode_content [mkop "q" []; mkop "false" []; mkop "Q" []]) = DecOk [mkop "q" []; mkop "Q" [OBool false]] /\
  decode_content (encode_content [mkop "BI" []]) = DecErr.
Proof. repeat split; vm_compute; reflexivity. Qed.

Lemma deep_witness_refutes :
  op_dom deep_witness /\ known_class deep_witness = true /\
  decode_content (encode_content [deep_witness]) = DecOk [].
Proof.
  split; [split; [reflexivity|left; split; [reflexivity|split; [constructor; [split; [apply nested_wf|exact I]|constructor]|discriminate]]]|].
  split; vm_compute; reflexivity.
Qed.

(* exactly at the limit the round trip still holds *)
Lemma deep_limit_ok :
  decode_content (encode_content [mkop "x" [nested MAX_DEPTH]]) = DecOk [mkop "x" [nested MAX_DEPTH]].
Proof. vm_compute. reflexivity. Qed.

(* outside the domain (documented restrictions): a reference as an operand, a non-finite real *)
Lemma reference_operand_refuted :
  decode_content (encode_content [mkop "x" [ORef 1 0]]) = DecOk [mkop "R" [OInt 1; OInt 0]; mkop "x" []].
Proof. vm_compute. reflexivity. Qed.
Lemma nan_operand_refuted :
  decode_content (encode_content [mkop "x" [OReal (bs "NaN")]]) = DecOk [mkop "NaN" []; mkop "x" []].
Proof. vm_compute. reflexivity. Qed.
(* inline-image data beginning with white space (fixed finding C14-image-leading-space): one byte is
   taken after ID, the samples are read back exactly *)
Lemma image_space_data_fixed :
  decode_content (encode_content
    [mkop "BI" [OStream [(bs "W", OInt 2); (bs "H", OInt 1); (bs "CS", OName (bs "Gray")); (bs "BPC", OInt 8)] [x20; x0a]]]) =
  DecOk [mkop "BI" [OStream [(bs "W", OInt 2); (bs "H", OInt 1); (bs "CS", OName (bs "Gray")); (bs "BPC", OInt 8);
                             (bs "Length", OInt 2)] [x20; x0a]]].
Proof. vm_compute. reflexivity. Qed.

(* ---------- what decode delivers for an inline image ---------- *)

Lemma dict_set_keys d k v :
  map fst (dict_set d k v) = if dict_has d k then map fst d else map fst d ++ [k].
Proof.
  unfold dict_has. induction d as [|[k' v'] d IH]; [reflexivity|]. cbn [dict_set dict_get map fst].
  destruct (bytes_eqb k' k) eqn:E; [reflexivity|]. cbn [map fst]. rewrite IH.
  destruct (dict_get d k); reflexivity.
Qed.

Lemma dict_has_In d k : dict_has d k = false -> ~ In k (map fst d).
Proof.
  unfold dict_has. induction d as [|[k' v'] d IH]; [intros _ []|]. cbn [dict_get map fst In].
  destruct (bytes_eqb k' k) eqn:E; [discriminate|]. intros H [K|K].
  - subst. rewrite bytes_eqb_refl in E. discriminate.
  - apply IH; assumption.
Qed.

Lemma nodup_snoc {A} (l : list A) x : NoDup l -> ~ In x l -> NoDup (l ++ [x]).
Proof.
  induction 1 as [|y l Hy Hl IH]; intro Hx; cbn [app]; [constructor; [intros []|constructor]|].
  constructor.
  - rewrite in_app_iff. intros [K|[K|[]]]; [contradiction|]. subst. apply Hx. left. reflexivity.
  - apply IH. intro K. apply Hx. right. exact K.
Qed.

Lemma dict_set_nodup d k v : NoDup (map fst d) -> NoDup (map fst (dict_set d k v)).
Proof.
  intro H. rewrite dict_set_keys. destruct (dict_has d k) eqn:E; [exact H|].
  apply nodup_snoc; [exact H|apply dict_has_In; exact E].
Qed.

Lemma inner_dictionary_nodup elem : forall n s acc d r,
  inner_dictionary elem n s acc = POk d r -> NoDup (map fst acc) -> NoDup (map fst d).
Proof.
  induction n as [|n IH]; intros s acc d r H Hn; [discriminate|]. cbn [inner_dictionary] in H.
  destruct (name s) as [k r1| | | |]; try (inversion H; subst; exact Hn).
  destruct (elem (space r1)) as [v r2| | | |]; try discriminate; try (inversion H; subst; exact Hn).
  apply (IH _ _ _ _ H). apply dict_set_nodup. exact Hn.
Qed.

Lemma dict_get_set_same d k v : dict_get (dict_set d k v) k = Some v.
Proof.
  induction d as [|[k' v'] d IH]; cbn [dict_set dict_get]; [rewrite bytes_eqb_refl; reflexivity|].
  destruct (bytes_eqb k' k) eqn:E; cbn [dict_get]; rewrite E; [reflexivity|exact IH].
Qed.

Lemma dict_get_set_other d k v k' : bytes_eqb k k' = false -> dict_get (dict_set d k v) k' = dict_get d k'.
Proof.
  intro Hk. induction d as [|[k0 v0] d IH]; cbn [dict_set dict_get].
  - rewrite Hk. reflexivity.
  - destruct (bytes_eqb k0 k) eqn:E; cbn [dict_get].
    + apply bytes_eqb_eq in E. subst k0. rewrite Hk. reflexivity.
    + rewrite IH. reflexivity.
Qed.

Lemma dict_set_same d k v : dict_get d k = Some v -> dict_set d k v = d.
Proof.
  induction d as [|[k0 v0] d IH]; cbn [dict_set dict_get]; [discriminate|].
  destruct (bytes_eqb k0 k) eqn:E; intro H; [inversion H; reflexivity|]. rewrite IH by exact H. reflexivity.
Qed.

Lemma img_len_set_length d v : img_len (dict_set d K_Length v) = img_len d.
Proof.
  unfold img_len, get_abbr. rewrite !dict_get_set_other by reflexivity. reflexivity.
Qed.

Lemma take_n_spec : forall n (s a r : bytes), take_n n s = Some (a, r) -> s = a ++ r /\ length a = n.
Proof.
  induction n as [|n IH]; intros s a r H; cbn [take_n] in H.
  - inversion H; subst. split; reflexivity.
  - destruct s as [|c t]; [discriminate|]. destruct (take_n n t) as [[a' r']|] eqn:E; [|discriminate].
    inversion H; subst. destruct (IH _ _ _ E) as [-> Hl]. split; [reflexivity|cbn; lia].
Qed.

Lemma content_space_cs s : cs_start (content_space s) = true.
Proof.
  unfold content_space. induction s as [|c t IH]; [reflexivity|]. cbn [skip_while].
  destruct (is_content_space c) eqn:E; [exact IH|]. cbn [cs_start]. rewrite E. reflexivity.
Qed.

Lemma cs_start_prefix a r : cs_start (a ++ r) = true -> cs_start a = true.
Proof. destruct a; [reflexivity|]. cbn. auto. Qed.

(* the image-specific part of [image_dom] holds for everything the inline-image parser returns *)
Theorem inline_image_sound fuel s ops op r :
  inline_image fuel s = POk (ops, op) r ->
  op = bs "BI" /\
  exists d c, ops = [OStream d c] /\ NoDup (map fst d) /\
              img_len d = Some (N.of_nat (length c)) /\
              dict_get d K_Length = Some (OInt (Z.of_nat (length c))).
Proof.
  unfold inline_image. destruct (pkeyword (bs "BI") s) as [u r0| | | |]; try discriminate.
  destruct fuel as [|f]; [discriminate|].
  destruct (inner_dictionary _ f (content_space r0) []) as [d r1| | | |] eqn:Ed; try discriminate.
  destruct (ptag (bs "ID") r1) as [u1 r2| | | |]; try discriminate.
  destruct (image_data_stream (id_sep r2) d) as [c r3| |] eqn:Ei; try discriminate.
  destruct (ptag (bs "EI") (content_space r3)) as [u2 r4| | | |]; try discriminate.
  intro H. inversion H; subst. split; [reflexivity|].
  rewrite image_data_stream_len in Ei. destruct (img_len d) as [len|] eqn:El; [|discriminate].
  destruct (_ <? len); [discriminate|].
  destruct (take_n (N.to_nat len) (id_sep r2)) as [[c' r']|] eqn:Et; [|discriminate].
  inversion Ei; subst c' r'. destruct (take_n_spec _ _ _ _ Et) as [Es Hl].
  exists (dict_set d K_Length (OInt (Z.of_nat (length c)))), c. split; [reflexivity|].
  split; [apply dict_set_nodup; apply (inner_dictionary_nodup _ _ _ _ _ _ Ed); constructor|].
  split; [rewrite img_len_set_length, El, Hl, N2Nat.id; reflexivity|].
  apply dict_get_set_same.
Qed.
