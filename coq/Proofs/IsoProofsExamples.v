(* IsoProofsExamples.v -- C06: non-vacuity of the hypotheses, whole-document instances computed with the concrete
   primitives (the specification encrypts, the model of lopdf decrypts, and the other way round), and instances of
   the three repaired finding classes (EFF, DecodeParms arrays, direct encryption dictionary). *)
From LV Require Import Base.Bytes Base.Sx Model.Obj Model.DocQ Gen.Crypto
  Model.Crypto.Word Model.Crypto.MD5 Model.Crypto.RC4 Model.Crypto.PKCS5 Model.Crypto.Handler Model.Crypto.Concrete
  Spec.Crypto.Iso Spec.Crypto.IsoConcrete
  Proofs.CryptoProofs Proofs.CryptoProofsFilter Proofs.CryptoProofsObject Proofs.CryptoProofsDoc Proofs.IsoProofs Proofs.IsoProofsData
  Proofs.IsoProofsObj Proofs.IsoProofsFilter Proofs.IsoProofsAuth Proofs.IsoProofsDoc Proofs.IsoProofsRT Proofs.IsoProofsDoc2 Proofs.IsoProofsDoc6 Proofs.IsoProofsDoc7.
Local Open Scope N_scope.

(* the Gallina MD5 yields 16 bytes: the one fact about MD5 the refinement theorems use *)
Lemma N_to_le_length n x : length (N_to_le n x) = n.
Proof. revert x; induction n as [|n IH]; intro x; cbn [N_to_le length]; [reflexivity|rewrite IH; reflexivity]. Qed.

Lemma md5_length m : length (md5 m) = 16%nat.
Proof.
  unfold md5. destruct (fold_left md5_block _ md5_init) as [[[a b] c] d].
  rewrite !app_length, !N_to_le_length. reflexivity.
Qed.

Lemma iprims_concrete : iprims_of concrete = iconcrete.
Proof. reflexivity. Qed.

(* ---------- the hypotheses are satisfiable ---------- *)
Definition ex_palg : palg :=
  {| pa_encrypt_metadata := true; pa_length := Some 128; pa_version := 2; pa_revision := 3;
     pa_O := zeros 32; pa_OE := []; pa_U := zeros 32; pa_UE := []; pa_perms := perms_of_Z (-1340); pa_perms_enc := [] |}.

Lemma ex_matches_r4 : matches_r4 ex_palg 3 128 (zeros 32) (zeros 32) (-1340) true.
Proof. constructor; try reflexivity; cbn; intros; lia. Qed.

Definition KS := Eval cbv in bs "StdCF".
Definition KP := Eval cbv in bs "Plain".
Definition ex_ip : iparams :=
  {| ip_V := 4; ip_R := 4; ip_Length := 128; ip_O := zeros 32; ip_U := zeros 32; ip_OE := []; ip_UE := []; ip_Perms := [];
     ip_P := -1340; ip_EncryptMetadata := false; ip_CF := [(KS, ICF_AESV2); (KP, ICF_None)];
     ip_StmF := KS; ip_StrF := iN_Identity; ip_EFF := None |}.
Definition ex_st : estate :=
  {| es_version := 4; es_revision := 4; es_key_length := Some 128; es_encrypt_metadata := false;
     es_crypt_filters := [(KP, CF_Identity); (KS, CF_AESV2)];      (* BTreeMap order *)
     es_key := zeros 16; es_stmf := KS; es_strf := N_Identity; es_eff := None; es_O := zeros 32; es_OE := []; es_U := zeros 32;
     es_UE := []; es_perms := perms_of_Z (-1340); es_perms_enc := [] |}.

Lemma ex_sorted : bt_insert (bt_insert [] KS CF_AESV2) KP CF_Identity = es_crypt_filters ex_st.
Proof. reflexivity. Qed.

Lemma ex_cf_agree : cf_agree (es_crypt_filters ex_st) (ip_CF ex_ip).
Proof.
  intro n. cbn [es_crypt_filters ex_st ip_CF ex_ip bt_get cf_lookup].
  destruct (bytes_eqb KP n) eqn:E1, (bytes_eqb KS n) eqn:E2; try reflexivity.
  apply bytes_eqb_eq in E1, E2. subst n. discriminate.
Qed.

Lemma ex_state_matches : state_matches ex_st ex_ip (zeros 16).
Proof.
  constructor; try reflexivity; try discriminate.
  - cbn; lia.
  - intros _. exact ex_cf_agree.
  - intros _. split; [reflexivity|]. right. vm_compute. discriminate.
  - intros _. split; [reflexivity|]. left. reflexivity.
  - intros _. split; [reflexivity|discriminate].
  - intros _ n. unfold resolve. destruct (bytes_eqb n iN_Identity); [exact Logic.I|].
    cbn [ip_CF ex_ip cf_lookup].
    destruct (bytes_eqb KS n); [cbn; lia|]. destruct (bytes_eqb KP n); exact Logic.I.
Qed.

(* ---------- a whole document, computed: V 2 (revision 3, RC4, 128 bits) with a string inside a stream
   dictionary and a no-owner-password request ---------- *)
Definition ex_doc : doc :=
  {| d_version := bs "1.7"; d_binary_mark := [];
     d_trailer := [(bs "Root", ORef 1 0); (bs "ID", OArr [OStr (bs "0123456789abcdef") false; OStr (bs "0123456789abcdef") false])];
     d_objects := [((1, 0), ODict [(bs "Type", OName (bs "Catalog")); (bs "Lang", OStr (bs "en-US") false)]);
                   ((2, 0), OStream [(bs "Length", OInt 5); (bs "Desc", OStr (bs "in a stream dictionary") false)] (bs "hello"));
                   ((4, 7), OArr [OStr (bs "abc") true; OInt 3; ODict [(bs "K", OStr [] false)]])];
     d_max_id := 4 |}.

Definition ex_rq_v2 : irequest :=
  {| rq_V := 2; rq_R := 3; rq_Length := 128; rq_EncryptMetadata := true; rq_CF := []; rq_StmF := []; rq_StrF := [];
     rq_EFF := None; rq_owner := None; rq_user := bs "user"; rq_P := P_of_flags 2052; rq_fek := [] |}.

Definition ex_enc_v2 : doc := encrypt_document iconcrete ex_rq_v2 (Some (5, 0)) [bs "arbitrary padding"] [] ex_doc.

(* the specification encrypts, the model of lopdf opens with the user password and gets the document back *)
Example iso_encrypt_lopdf_decrypt_v2 :
  match doc_decrypt concrete ex_enc_v2 (bs "user") with
  | DOk d' _ => bytes_eqb (sx_print (objmap_to_sx (d_objects d'))) (sx_print (objmap_to_sx (d_objects ex_doc)))
  | _ => false
  end = true.
Proof. vm_compute. reflexivity. Qed.

(* lopdf's model encrypts (V2, no owner password = empty owner password), the specification opens it *)
Definition ex_lopdf_enc_v2 : option doc :=
  match try_from_version concrete ex_doc (EV2 [] (bs "user") 128 2052) [bs "arbitrary padding"] with
  | Ok st => match doc_encrypt concrete st ex_doc [] with DOk d' _ => Some d' | _ => None end
  | _ => None
  end.

Example lopdf_encrypt_iso_decrypt_v2 :
  match ex_lopdf_enc_v2 with
  | Some e => match open_document iconcrete e (bs "user") with
              | Opened d' _ => bytes_eqb (sx_print (objmap_to_sx (d_objects d'))) (sx_print (objmap_to_sx (d_objects ex_doc)))
              | _ => false
              end
  | None => false
  end = true.
Proof. vm_compute. reflexivity. Qed.

(* and the two writers produce the same bytes, object for object (same padding of U) *)
Example writers_agree_v2 :
  match ex_lopdf_enc_v2 with
  | Some e => bytes_eqb (sx_print (objmap_to_sx (remove (d_objects e) (5, 0))))
                        (sx_print (objmap_to_sx (remove (d_objects ex_enc_v2) (5, 0))))
  | None => false
  end = true.
Proof. vm_compute. reflexivity. Qed.

(* the empty password does not open it (there is no owner password) *)
Example empty_password_rejected_v2 :
  match open_document iconcrete ex_enc_v2 [] with WrongPassword => true | _ => false end = true.
Proof. vm_compute. reflexivity. Qed.

(* ---------- the three former known-finding classes, now fixed in /repo (0fbc00d, f8740d3, fbda92c): instances on the
   model of the repaired code ---------- *)
(* EFF: with an EFF entry naming another filter, an embedded file stream gets that filter's method *)
Definition ex_ip_eff : iparams :=
  {| ip_V := 4; ip_R := 4; ip_Length := 128; ip_O := zeros 32; ip_U := zeros 32; ip_OE := []; ip_UE := []; ip_Perms := [];
     ip_P := -1340; ip_EncryptMetadata := false; ip_CF := [(KS, ICF_AESV2); (KP, ICF_None)];
     ip_StmF := KS; ip_StrF := iN_Identity; ip_EFF := Some KP |}.
Definition ex_st_eff : estate :=
  {| es_version := 4; es_revision := 4; es_key_length := Some 128; es_encrypt_metadata := false;
     es_crypt_filters := [(KP, CF_Identity); (KS, CF_AESV2)];
     es_key := zeros 16; es_stmf := KS; es_strf := N_Identity; es_eff := Some KP; es_O := zeros 32; es_OE := []; es_U := zeros 32;
     es_UE := []; es_perms := perms_of_Z (-1340); es_perms_enc := [] |}.
Lemma ex_state_matches_eff : state_matches ex_st_eff ex_ip_eff (zeros 16).
Proof.
  constructor; try reflexivity; try discriminate.
  - cbn; lia.
  - intros _. exact ex_cf_agree.
  - intros _. split; [reflexivity|]. right. vm_compute. discriminate.
  - intros _. split; [reflexivity|]. left. reflexivity.
  - intros _. split; [reflexivity|]. intros e He. inversion He; subst e. right. vm_compute. discriminate.
  - intros _ n. unfold resolve. destruct (bytes_eqb n iN_Identity); [exact Logic.I|].
    cbn [ip_CF ex_ip_eff cf_lookup].
    destruct (bytes_eqb KS n); [cbn; lia|]. destruct (bytes_eqb KP n); exact Logic.I.
Qed.
Lemma eff_example :
  stream_cf ex_st_eff (OStream [(bs "Type", OName (bs "EmbeddedFile"))] []) = CF_Identity /\
  stream_method ex_ip_eff [(bs "Type", OName (bs "EmbeddedFile"))] = M_Identity /\
  stream_cf ex_st_eff (OStream [] []) = CF_AESV2.
Proof. repeat split; vm_compute; reflexivity. Qed.

(* DecodeParms given as the array parallel to Filter: the Name is found at the position of Crypt *)
Definition ex_sd_dparr : dict :=
  [(bs "Filter", OArr [OName (bs "ASCIIHexDecode"); OName (bs "Crypt")]);
   (bs "DecodeParms", OArr [ONull; ODict [(bs "Name", OName KP)]])].
Lemma decodeparms_array_example :
  stream_cf ex_st (OStream ex_sd_dparr []) = CF_Identity /\ stream_method ex_ip ex_sd_dparr = M_Identity /\
  stream_ok ex_ip ex_sd_dparr.
Proof.
  repeat split; try (vm_compute; reflexivity).
  - cbn. repeat constructor.
  - discriminate.
Qed.

(* the encryption dictionary as a direct object of the trailer: the standard's writer puts it there, lopdf's model
   recognises it and opens the document *)
Definition ex_doc_direct : doc := encrypt_document iconcrete ex_rq_v2 None [] [] ex_doc.
Definition opens_direct (d plain : doc) (pw : bytes) : bool :=
  is_encrypted d &&
  match find_encrypt d with Some (None, _) => true | _ => false end &&
  match doc_decrypt concrete d pw with
  | DOk d' _ => bytes_eqb (sx_print (objmap_to_sx (d_objects d'))) (sx_print (objmap_to_sx (d_objects plain)))
                && match dict_get (d_trailer d') K_Encrypt with None => true | _ => false end
  | _ => false
  end.
Lemma direct_encrypt_example : opens_direct ex_doc_direct ex_doc (bs "user") = true.
Proof. vm_compute. reflexivity. Qed.

(* ---------- the hypotheses of the document-level theorems are satisfiable: the V 2 request and document above, and a
   V 4 request with two crypt filters, EFF and EncryptMetadata false ---------- *)
Lemma ex_doc_objs_ok ip : Forall (fun io => indirect_ok ip (snd io)) (d_objects ex_doc).
Proof.
  unfold ex_doc. cbn [d_objects]. repeat constructor; cbn [snd indirect_ok no_streams no_streams_dict]; auto.
Qed.

Lemma ex_request_ok_v2 : request_ok_r4 ex_rq_v2 /\ doc_ok (rq_core ex_rq_v2) ex_doc (Some (5, 0)) /\
  doc_ok (rq_core ex_rq_v2) ex_doc None /\ file_id_0 ex_doc = Ok (bs "0123456789abcdef").
Proof.
  split; [|split; [|split]].
  - constructor.
    + right. left. repeat split; try reflexivity; cbv; discriminate.
    + intro HV. discriminate HV.
    + reflexivity.
  - constructor; try reflexivity; [|apply ex_doc_objs_ok].
    intros s Hs. inversion Hs; subst s. cbn [ex_doc d_objects map fst In]. intros [H|[H|[H|[]]]]; discriminate H.
  - constructor; try reflexivity; [|apply ex_doc_objs_ok]. intros s Hs. discriminate Hs.
  - reflexivity.
Qed.

Definition ex_rq_v4 : irequest :=
  {| rq_V := 4; rq_R := 4; rq_Length := 128; rq_EncryptMetadata := false; rq_CF := [(KS, ICF_AESV2); (KP, ICF_None)];
     rq_StmF := KS; rq_StrF := iN_Identity; rq_EFF := Some KP; rq_owner := Some (bs "owner"); rq_user := bs "user";
     rq_P := P_of_flags 2052; rq_fek := [] |}.
Lemma ex_request_ok_v4 : request_ok_r4 ex_rq_v4 /\ doc_ok (rq_core ex_rq_v4) ex_doc None.
Proof.
  split.
  - constructor.
    + right. right. repeat split; reflexivity.
    + intros _. constructor; cbn [rq_core ex_rq_v4 ip_CF ip_StmF ip_StrF ip_EFF ip_V map fst rq_CF rq_StmF rq_StrF rq_EFF rq_V].
      * constructor; [cbn [In]; intros [H|[]]; discriminate H|]. constructor; [intros []|constructor].
      * reflexivity.
      * right. vm_compute. discriminate.
      * left. reflexivity.
      * intros e H. inversion H; subst e. right. vm_compute. discriminate.
      * intros _. repeat constructor; cbn [snd]; discriminate.
    + reflexivity.
  - constructor; try reflexivity; [|apply ex_doc_objs_ok]. intros s Hs. discriminate Hs.
Qed.

(* ---------- direction lopdf -> standard: the hypotheses are satisfiable (V2 128 bits without owner password; V4 with
   two crypt filters) ---------- *)
Lemma ex_version_ok :
  version_ok (EV2 [] (bs "user") 128 2052) /\
  version_ok (EV4 false [(KP, CF_Identity); (KS, CF_AESV2)] KS N_Identity (bs "owner") (bs "user") 2052) /\
  max_id_ok ex_doc /\ dict_get (d_trailer ex_doc) K_Encrypt = None.
Proof.
  split; [|split; [|split]].
  - split; [reflexivity|]. split; [split; cbv; discriminate|reflexivity].
  - split; [reflexivity|]. split.
    + constructor; [cbn [map fst In]; intros [H|[]]; discriminate H|]. constructor; [intros []|constructor].
    + split; [reflexivity|]. split; [right; vm_compute; discriminate|]. split; [left; reflexivity|].
      repeat constructor; cbn [snd]; discriminate.
  - intros id Hin. cbn [ex_doc d_objects map fst In d_max_id] in *.
    destruct Hin as [H|[H|[H|[]]]]; subst id; cbv; discriminate.
  - reflexivity.
Qed.

(* ---------- revisions 5 / 6: a satisfiable request (V 5, R 6, AESV3 crypt filter, EncryptMetadata false) ---------- *)
Definition ex_rq_v5 : irequest :=
  {| rq_V := 5; rq_R := 6; rq_Length := 256; rq_EncryptMetadata := false; rq_CF := [(KS, ICF_AESV3)];
     rq_StmF := KS; rq_StrF := KS; rq_EFF := None; rq_owner := Some (bs "owner"); rq_user := bs "user";
     rq_P := P_of_flags 2052; rq_fek := zeros 32 |}.
Lemma ex_request_ok_v5 : IsoProofsDoc6.request_ok_r6 ex_rq_v5 /\ doc_ok (rq_core ex_rq_v5) ex_doc (Some (5, 0)).
Proof.
  split.
  - constructor.
    + split; [reflexivity|right; reflexivity].
    + intros _. constructor; cbn [rq_core ex_rq_v5 ip_CF ip_StmF ip_StrF ip_EFF ip_V map fst rq_CF rq_StmF rq_StrF rq_EFF rq_V].
      * constructor; [intros []|constructor].
      * reflexivity.
      * right. vm_compute. discriminate.
      * right. vm_compute. discriminate.
      * intros e H. discriminate H.
      * intro H. discriminate H.
    + reflexivity.
    + reflexivity.
  - constructor; try reflexivity; [|apply ex_doc_objs_ok].
    intros s Hs. inversion Hs; subst s. cbn [ex_doc d_objects map fst In]. intros [H|[H|[H|[]]]]; discriminate H.
Qed.

Lemma ex_version_ok6 :
  IsoProofsDoc7.version_ok6 (EV5 false [(KS, CF_AESV3)] (zeros 32) KS KS (bs "owner") (bs "user") 2052) /\
  IsoProofsDoc7.version_ok6 (ER5 true [(KP, CF_Identity); (KS, CF_AESV3)] (zeros 32) KS N_Identity [] (bs "user") 0).
Proof.
  split.
  - split; [reflexivity|]. split; [reflexivity|]. split; [constructor; [intros []|constructor]|].
    split; [reflexivity|]. split; right; vm_compute; discriminate.
  - split; [reflexivity|]. split; [reflexivity|]. split.
    + constructor; [cbn [map fst In]; intros [H|[]]; discriminate H|]. constructor; [intros []|constructor].
    + split; [reflexivity|]. split; [right; vm_compute; discriminate|left; reflexivity].
Qed.
