(* RenumberProofsMap.v -- C10, part 1: the order on object ids, sorted association lists
   (BTreeMap) with lookup / insert / remove / update, induction principle for objects. *)
From LV Require Import Base.Bytes Model.Obj Model.Traverse Spec.RenumberSpec.
From Coq Require Import Sorting.Sorted.

(* ---------- order on ids ---------- *)
Lemma oid_eqb_refl a : oid_eqb a a = true.
Proof. apply oid_eqb_eq; reflexivity. Qed.

Lemma oid_eqb_neq a b : oid_eqb a b = false <-> a <> b.
Proof.
  split; intro H.
  - intro E. apply oid_eqb_eq in E. congruence.
  - destruct (oid_eqb a b) eqn:E; [apply oid_eqb_eq in E; contradiction | reflexivity].
Qed.

Lemma oid_eqb_sym a b : oid_eqb a b = oid_eqb b a.
Proof.
  destruct (oid_eqb a b) eqn:E.
  - apply oid_eqb_eq in E; subst. symmetry; apply oid_eqb_refl.
  - symmetry. apply oid_eqb_neq. apply oid_eqb_neq in E. congruence.
Qed.

Lemma oid_eq_dec (a b : oid) : {a = b} + {a <> b}.
Proof. destruct (oid_eqb a b) eqn:E; [left; apply oid_eqb_eq; exact E | right; apply oid_eqb_neq; exact E]. Qed.

Lemma oid_ltb_lt a b :
  oid_ltb a b = true <-> (fst a < fst b \/ (fst a = fst b /\ snd a < snd b))%N.
Proof.
  unfold oid_ltb. rewrite orb_true_iff, andb_true_iff, !N.ltb_lt, N.eqb_eq. reflexivity.
Qed.

Lemma oid_lt_irrefl a : ~ oid_lt a a.
Proof. unfold oid_lt. rewrite oid_ltb_lt. lia. Qed.

Lemma oid_lt_trans a b c : oid_lt a b -> oid_lt b c -> oid_lt a c.
Proof. unfold oid_lt. rewrite !oid_ltb_lt. lia. Qed.

Lemma oid_lt_total a b : a = b \/ oid_lt a b \/ oid_lt b a.
Proof.
  unfold oid_lt. rewrite !oid_ltb_lt. destruct a as [a1 a2], b as [b1 b2]; cbn [fst snd].
  destruct (N.lt_trichotomy a1 b1) as [H|[H|H]]; [lia| |lia].
  destruct (N.lt_trichotomy a2 b2) as [H2|[H2|H2]]; [lia| |lia].
  left. subst. reflexivity.
Qed.

Lemma oid_lt_neq a b : oid_lt a b -> a <> b.
Proof. intros H E. subst. exact (oid_lt_irrefl _ H). Qed.

Lemma oid_ltb_false a b : oid_ltb a b = false -> a = b \/ oid_lt b a.
Proof.
  intro H. destruct (oid_lt_total a b) as [E|[E|E]]; auto. unfold oid_lt in E. congruence.
Qed.

(* ---------- sorted lists of ids ---------- *)
Lemma sorted_nodup l : StronglySorted oid_lt l -> NoDup l.
Proof.
  induction 1 as [|a l Hs IH Hf]; constructor; auto.
  intro Hin. rewrite Forall_forall in Hf. exact (oid_lt_irrefl _ (Hf _ Hin)).
Qed.

Lemma sorted_ext l1 : forall l2,
  StronglySorted oid_lt l1 -> StronglySorted oid_lt l2 ->
  (forall x, In x l1 <-> In x l2) -> l1 = l2.
Proof.
  induction l1 as [|a l1 IH]; intros l2 H1 H2 Hx.
  - destruct l2 as [|b l2]; auto. exfalso. apply (proj2 (Hx b)). left; reflexivity.
  - destruct l2 as [|b l2]; [exfalso; apply (proj1 (Hx a)); left; reflexivity|].
    inversion H1 as [|? ? Hs1 Hf1]; inversion H2 as [|? ? Hs2 Hf2]; subst.
    rewrite Forall_forall in Hf1, Hf2.
    assert (a = b) as ->.
    { destruct (proj1 (Hx a) (or_introl eq_refl)) as [E|Hin]; [congruence|].
      destruct (proj2 (Hx b) (or_introl eq_refl)) as [E|Hin2]; [congruence|].
      exfalso. apply (oid_lt_irrefl a). eapply oid_lt_trans; [apply Hf1; exact Hin2 | apply Hf2; exact Hin]. }
    f_equal. apply IH; auto. intro x. split; intro Hin.
    + destruct (proj1 (Hx x) (or_intror Hin)) as [E|]; auto. subst. exfalso. exact (oid_lt_irrefl _ (Hf1 _ Hin)).
    + destruct (proj2 (Hx x) (or_intror Hin)) as [E|]; auto. subst. exfalso. exact (oid_lt_irrefl _ (Hf2 _ Hin)).
Qed.

(* ---------- lookup ---------- *)
Lemma lookup_In m id o : lookup m id = Some o -> In (id, o) m.
Proof.
  induction m as [|[i o'] m IH]; cbn [lookup]; [discriminate|].
  destruct (oid_eqb i id) eqn:E.
  - intro H; inversion H; subst. apply oid_eqb_eq in E; subst. left; reflexivity.
  - intro H. right. auto.
Qed.

Lemma lookup_has m id o : lookup m id = Some o -> has_obj m id.
Proof. intro H. apply lookup_In in H. unfold has_obj. apply in_map_iff. exists (id, o). auto. Qed.

Lemma lookup_none m id : lookup m id = None <-> ~ has_obj m id.
Proof.
  unfold has_obj. induction m as [|[i o'] m IH]; cbn [lookup map fst In].
  - tauto.
  - destruct (oid_eqb i id) eqn:E.
    + apply oid_eqb_eq in E. subst. split; [discriminate | intro H; exfalso; apply H; left; reflexivity].
    + apply oid_eqb_neq in E. rewrite IH. tauto.
Qed.

Lemma has_lookup m id : has_obj m id -> exists o, lookup m id = Some o.
Proof.
  intro H. destruct (lookup m id) eqn:E; [eauto|]. apply lookup_none in E. contradiction.
Qed.

(* ---------- insert ---------- *)
Lemma lookup_insert m id o x :
  lookup (insert m id o) x = if oid_eqb id x then Some o else lookup m x.
Proof.
  induction m as [|[i o'] m IH]; cbn [insert lookup].
  - reflexivity.
  - destruct (oid_eqb i id) eqn:E.
    + apply oid_eqb_eq in E. subst. cbn [lookup]. destruct (oid_eqb id x); reflexivity.
    + destruct (oid_ltb id i).
      * cbn [lookup]. reflexivity.
      * cbn [lookup]. rewrite IH. destruct (oid_eqb i x) eqn:E2; [|reflexivity].
        apply oid_eqb_eq in E2. subst. rewrite oid_eqb_sym, E. reflexivity.
Qed.

Lemma keys_insert m id o x : In x (map fst (insert m id o)) <-> x = id \/ In x (map fst m).
Proof.
  induction m as [|[i o'] m IH]; cbn [insert map fst In].
  - intuition.
  - destruct (oid_eqb i id) eqn:E.
    + apply oid_eqb_eq in E. subst. cbn [map fst In]. intuition.
    + destruct (oid_ltb id i); cbn [map fst In]; [intuition|]. rewrite IH. intuition.
Qed.

Lemma sorted_insert m id o : sorted_keys m -> sorted_keys (insert m id o).
Proof.
  unfold sorted_keys. induction m as [|[i o'] m IH]; cbn [insert map fst]; intro H.
  - repeat constructor.
  - inversion H as [|? ? Hs Hf]; subst.
    destruct (oid_eqb i id) eqn:E.
    + cbn [map fst]. exact H.
    + destruct (oid_ltb id i) eqn:L.
      * cbn [map fst]. constructor; [exact H|]. constructor; [exact L|].
        eapply Forall_impl; [|exact Hf]. intros a Ha. eapply oid_lt_trans; [exact L | exact Ha].
      * cbn [map fst]. constructor; [apply IH; exact Hs|].
        apply Forall_forall. intros x Hx. apply keys_insert in Hx. destruct Hx as [->|Hx].
        -- destruct (oid_ltb_false _ _ L) as [E2|E2]; [|exact E2]. subst. rewrite oid_eqb_refl in E. discriminate.
        -- rewrite Forall_forall in Hf. auto.
Qed.

(* ---------- remove ---------- *)
Lemma keys_remove_incl m id x : In x (map fst (remove m id)) -> In x (map fst m).
Proof.
  induction m as [|[i o'] m IH]; cbn [remove map fst In]; [tauto|].
  destruct (oid_eqb i id); cbn [map fst In]; intuition.
Qed.

Lemma sorted_remove m id : sorted_keys m -> sorted_keys (remove m id).
Proof.
  unfold sorted_keys. induction m as [|[i o'] m IH]; cbn [remove map fst]; intro H; [constructor|].
  inversion H as [|? ? Hs Hf]; subst. destruct (oid_eqb i id); [exact Hs|].
  cbn [map fst]. constructor; [auto|]. apply Forall_forall. intros x Hx.
  apply keys_remove_incl in Hx. rewrite Forall_forall in Hf. auto.
Qed.

Lemma lookup_remove m id x : sorted_keys m ->
  lookup (remove m id) x = if oid_eqb id x then None else lookup m x.
Proof.
  unfold sorted_keys. induction m as [|[i o'] m IH]; cbn [remove lookup map fst]; intro H.
  - destruct (oid_eqb id x); reflexivity.
  - inversion H as [|? ? Hs Hf]; subst. destruct (oid_eqb i id) eqn:E.
    + apply oid_eqb_eq in E. subst. destruct (oid_eqb id x) eqn:E2; [|reflexivity].
      apply oid_eqb_eq in E2. subst. apply lookup_none. unfold has_obj. intro Hin.
      rewrite Forall_forall in Hf. exact (oid_lt_irrefl _ (Hf _ Hin)).
    + cbn [lookup]. rewrite IH by exact Hs. destruct (oid_eqb i x) eqn:E2; [|reflexivity].
      apply oid_eqb_eq in E2. subst. rewrite oid_eqb_sym, E. reflexivity.
Qed.

(* ---------- update ---------- *)
Lemma keys_update m id o : map fst (update m id o) = map fst m.
Proof.
  induction m as [|[i o'] m IH]; cbn [update map fst]; [reflexivity|].
  destruct (oid_eqb i id); cbn [map fst]; congruence.
Qed.

Lemma lookup_update m id o x :
  lookup (update m id o) x =
  if oid_eqb id x then match lookup m id with Some _ => Some o | None => None end else lookup m x.
Proof.
  induction m as [|[i o'] m IH]; cbn [update lookup].
  - destruct (oid_eqb id x); reflexivity.
  - destruct (oid_eqb i id) eqn:E.
    + apply oid_eqb_eq in E. subst. cbn [lookup]. destruct (oid_eqb id x); reflexivity.
    + cbn [lookup]. rewrite IH. destruct (oid_eqb i x) eqn:E2; [|reflexivity].
      apply oid_eqb_eq in E2. subst. rewrite oid_eqb_sym, E. reflexivity.
Qed.

(* ---------- induction principle for the nested type of objects ---------- *)
Lemma obj_ind' (P : obj -> Prop) :
  P ONull -> (forall b, P (OBool b)) -> (forall z, P (OInt z)) -> (forall r, P (OReal r)) ->
  (forall n, P (OName n)) -> (forall s h, P (OStr s h)) ->
  (forall l, Forall P l -> P (OArr l)) ->
  (forall d, Forall (fun kv => P (snd kv)) d -> P (ODict d)) ->
  (forall d c, Forall (fun kv => P (snd kv)) d -> P (OStream d c)) ->
  (forall i g, P (ORef i g)) ->
  forall o, P o.
Proof.
  intros H1 H2 H3 H4 H5 H6 HA HD HS HR.
  fix IH 1. intro o. destruct o as [|b|z|r|n|s h|l|d|d c|i g].
  - exact H1.
  - apply H2.
  - apply H3.
  - apply H4.
  - apply H5.
  - apply H6.
  - apply HA. induction l as [|x l IHl]; constructor; [apply IH | exact IHl].
  - apply HD. induction d as [|[k v] d IHd]; constructor; [apply IH | exact IHd].
  - apply HS. induction d as [|[k v] d IHd]; constructor; [apply IH | exact IHd].
  - apply HR.
Qed.

(* ---------- mem_oid ---------- *)
Lemma mem_oid_In x l : mem_oid x l = true <-> In x l.
Proof.
  unfold mem_oid. rewrite existsb_exists. split.
  - intros [y [Hy E]]. apply oid_eqb_eq in E. subst. exact Hy.
  - intro H. exists x. split; [exact H | apply oid_eqb_refl].
Qed.

Lemma mem_oid_nIn x l : mem_oid x l = false <-> ~ In x l.
Proof.
  rewrite <- mem_oid_In. destruct (mem_oid x l).
  - split; [discriminate | intro H; exfalso; apply H; reflexivity].
  - split; [intros _ H; discriminate | reflexivity].
Qed.
