(* LoadsLoopProofs.v -- C02 rung 3: the three passes of c01's extended reader (Model/LoaderExt.v load_ext) over a file
   whose cross-reference entries in use name (a) plain indirect objects, (b) streams whose body could not be read while
   parsing (Length is a reference the reader cannot resolve yet: the stream comes back empty with the position of its
   data), (c) object-stream containers that ObjectStream::new opens.  Format independent (any cross-reference format,
   any number of sections: the table [x] is the merged one):
     read_entries_x        = one insert per entry in use, the members of every container, the positions and the list of
                             streams without content, in entry order                                   (read_entries_x_loop);
     merge_object_streams  = when every member is one the table places in its container: the members are added where no
                             object is present yet, earlier containers first                          (merge_all_named);
     zero_pass             = every stream left without content whose Length is a reference to a loaded integer gets
                             exactly its data and an integer Length                                   (zero_pass_lookup);
     load_ext_frame_loop   = Reader::read reduced to these pieces. *)
From LV Require Import Base.Bytes Base.Sx Model.Obj Model.Writer Model.Parser Model.Xref Model.ObjStm Model.Loader Model.Utf Gen.Lex
  Model.LoaderExt Proofs.LoaderExtProofs Proofs.LoadsFrameProofs.
From LV Require Proofs.LengthRefProofs.
From LV Require Import Proofs.LoadProofs.
From Coq Require Import Lia.
Local Open Scope N_scope.

Lemma filter_true_In {A} (f : A -> bool) : forall l, (forall a, In a l -> f a = true) -> filter f l = l.
Proof.
  induction l as [|a l IH]; intro H; [reflexivity|]. cbn [filter]. rewrite (H a (or_introl eq_refl)).
  f_equal. apply IH. intros b Hb. apply H. right. exact Hb.
Qed.

Lemma filter_false_In {A} (f : A -> bool) : forall l, (forall a, In a l -> f a = false) -> filter f l = [].
Proof.
  induction l as [|a l IH]; intro H; [reflexivity|]. cbn [filter]. rewrite (H a (or_introl eq_refl)).
  apply IH. intros b Hb. apply H. right. exact Hb.
Qed.

(* ---------- or_insert / merge_members ---------- *)
Lemma lookup_or_insert m id o i :
  lookup (or_insert m id o) i = match lookup m i with Some v => Some v | None => if oid_eqb id i then Some o else None end.
Proof.
  unfold or_insert. destruct (lookup m id) as [v|] eqn:E.
  - destruct (lookup m i) eqn:Ei; [reflexivity|]. destruct (oid_eqb id i) eqn:Eq; [|reflexivity].
    apply oid_eqb_eq in Eq. subst i. rewrite E in Ei. discriminate Ei.
  - rewrite lookup_insert_gen. destruct (oid_eqb id i) eqn:Eq.
    + apply oid_eqb_eq in Eq. subst i. rewrite E. reflexivity.
    + destruct (lookup m i); reflexivity.
Qed.

Lemma lookup_merge_members : forall mems m i,
  lookup (merge_members m mems) i = match lookup m i with Some v => Some v | None => lookup mems i end.
Proof.
  unfold merge_members. induction mems as [|[id o] mems IH]; intros m i; cbn [fold_left lookup fst snd].
  - destruct (lookup m i); reflexivity.
  - rewrite IH, lookup_or_insert. destruct (lookup m i); [reflexivity|]. destruct (oid_eqb id i); reflexivity.
Qed.

(* the first container that holds the identifier *)
Fixpoint find_member (ostm : list (N * objmap)) (i : oid) : option obj :=
  match ostm with
  | [] => None
  | (_, mems) :: t => match lookup mems i with Some o => Some o | None => find_member t i end
  end.

Lemma merge_all_named (x : xmap) : forall ostm m,
  (forall k mems io, In (k, mems) ostm -> In io mems -> is_named x k (fst io) = true) ->
  forall i, lookup (merge_object_streams x m ostm) i = match lookup m i with Some v => Some v | None => find_member ostm i end.
Proof.
  intros ostm m H. unfold merge_object_streams.
  assert (HB : forall (l : list (N * objmap)) acc, (forall k mems io, In (k, mems) l -> In io mems -> is_named x k (fst io) = true) ->
             fold_left (fun acc eo => merge_rest acc (filter (fun io => negb (is_named x (fst eo) (fst io))) (snd eo))) l acc = acc).
  { induction l as [|[k mems] l IH]; intros acc Hl; [reflexivity|]. cbn [fold_left fst snd].
    rewrite filter_false_In.
    - unfold merge_rest at 2. cbn [fold_left]. apply IH. intros k' mems' io Hin. apply Hl. right. exact Hin.
    - intros io Hio. rewrite (Hl k mems io (or_introl eq_refl) Hio). reflexivity. }
  rewrite HB by exact H. clear HB. revert m H.
  induction ostm as [|[k mems] l IH]; intros m H i; cbn [fold_left find_member fst snd].
  - destruct (lookup m i); reflexivity.
  - rewrite filter_true_In by (intros io Hio; apply (H k mems io (or_introl eq_refl) Hio)).
    rewrite IH by (intros k' mems' io Hin; apply H; right; exact Hin).
    rewrite lookup_merge_members. destruct (lookup m i); [reflexivity|]. destruct (lookup mems i); reflexivity.
Qed.

Section Loop.
  Variable dec : dict -> bytes -> option (dict * bytes).
  Variable can : dict -> bool.
  Variable buf : bytes.
  Variable x : xmap.
  Variable objf : N -> N -> obj.          (* what document.objects holds under (number, generation) after the first pass *)
  Variable posf : N -> N -> option N.     (* the position of the data of a stream read without content *)
  Variable memf : N -> option objmap.     (* the members, when the entry with this number is an object-stream container *)

  (* what the reader finds at an entry in use *)
  Definition entry_spec (n off g : N) : Prop :=
    off <= blen buf /\
    match memf n with
    | None => indirect_x buf x (from off buf) None = IxOk (n, g) (objf n g) (posf n g) /\ no_objstm (objf n g) /\
              match objf n g with OStream _ _ => True | _ => posf n g = None end
    | Some mems =>
      exists d c d' c', indirect_x buf x (from off buf) None = IxOk (n, g) (OStream d c) (posf n g) /\
                        has_type d K_ObjStm = true /\ filters_modelled can d = true /\
                        objstm_new dec d c = ((d', c'), OsOk mems) /\ objf n g = OStream d' c'
    end.

  Definition pstep (p : posmap) (ke : N * xentry) : posmap :=
    match snd ke with XNormal _ g => pos_set p (fst ke, g) (posf (fst ke) g) | _ => p end.
  Definition ostm_of (ke : N * xentry) : list (N * objmap) :=
    match snd ke with
    | XNormal _ _ => match memf (fst ke) with Some mems => [(fst ke, mems)] | None => [] end
    | _ => []
    end.
  Definition zero_of (ke : N * xentry) : list oid :=
    match snd ke with
    | XNormal _ g => match memf (fst ke), objf (fst ke) g with None, OStream _ [] => [(fst ke, g)] | _, _ => [] end
    | _ => []
    end.

  Lemma rstate_eq o o' p p' s s' z z' : o = o' -> p = p' -> s = s' -> z = z' ->
    {| r_objs := o; r_pos := p; r_ostm := s; r_zero := z |} = {| r_objs := o'; r_pos := p'; r_ostm := s'; r_zero := z' |}.
  Proof. intros; subst; reflexivity. Qed.

  Lemma read_entries_x_loop : forall es st,
    (forall n off g, In (n, XNormal off g) es -> entry_spec n off g) ->
    read_entries_x dec can buf x es st =
    SOk {| r_objs := fold_left (ins objf) es (r_objs st); r_pos := fold_left pstep es (r_pos st);
           r_ostm := r_ostm st ++ flat_map ostm_of es; r_zero := r_zero st ++ flat_map zero_of es |}.
  Proof.
    induction es as [|[k e] es IH]; intros st H.
    - cbn [read_entries_x fold_left flat_map]. rewrite !app_nil_r. destruct st; reflexivity.
    - assert (Ht : forall n off g, In (n, XNormal off g) es -> entry_spec n off g) by (intros; apply H; right; assumption).
      cbn [read_entries_x fold_left flat_map].
      destruct e as [| |off g|c i]; try (rewrite (IH st Ht); reflexivity).
      destruct (H k off g (or_introl eq_refl)) as [H1 H2].
      assert (blen buf <? off = false) as -> by (apply N.ltb_ge; exact H1).
      unfold ins at 2. unfold pstep at 2. unfold ostm_of at 1. unfold zero_of at 1. cbn [fst snd].
      destruct (memf k) as [mems|] eqn:Em.
      + destruct H2 as [d [c [d' [c' [P1 [P2 [P3 [P4 P5]]]]]]]]. rewrite P1, P2, P3, P4, P5.
        rewrite IH by exact Ht. cbn [r_objs r_pos r_ostm r_zero]. f_equal.
        apply rstate_eq; try reflexivity.
        * rewrite <- app_assoc. reflexivity.
      + destruct H2 as [P1 [P2 P3]]. rewrite P1.
        destruct (objf k g) as [| | | | | | | |d c|] eqn:Eo;
          try (rewrite P3; rewrite IH by exact Ht; cbn [r_objs r_pos r_ostm r_zero app]; f_equal; apply rstate_eq; reflexivity).
        cbn [no_objstm] in P2. rewrite P2. rewrite IH by exact Ht. cbn [r_objs r_pos r_ostm r_zero app]. f_equal.
        apply rstate_eq; try reflexivity.
        destruct c; [rewrite <- app_assoc; reflexivity|reflexivity].
  Qed.

  (* the positions, by identifier *)
  Variable E : N -> option xentry.

  Lemma pos_get_fold : forall es p id,
    (forall n e, In (n, e) es -> E n = Some e) ->
    pos_get (fold_left pstep es p) id = if hit E es id then posf (fst id) (snd id) else pos_get p id.
  Proof.
    induction es as [|[k e] es IH]; intros p id H; [reflexivity|].
    assert (Ht : forall n e0, In (n, e0) es -> E n = Some e0) by (intros; apply H; right; assumption).
    cbn [fold_left]. rewrite (IH _ id Ht). unfold hit. cbn [existsb fst].
    pose proof (H k e (or_introl eq_refl)) as Hk.
    destruct (existsb (fun ke => fst ke =? fst id) es) eqn:Ex.
    - rewrite orb_true_r. cbn [andb].
      destruct (match E (fst id) with Some (XNormal _ g) => g =? snd id | _ => false end) eqn:Ec; [reflexivity|].
      unfold pstep. cbn [fst snd]. destruct e as [| |off g|c i]; try reflexivity.
      rewrite pos_get_set. destruct id as [i1 g1]. rewrite oid_eqb_pair. cbn [fst snd] in *.
      destruct (k =? i1) eqn:Ek; [|reflexivity]. apply N.eqb_eq in Ek. subst i1. rewrite Hk in Ec. rewrite Ec. reflexivity.
    - rewrite orb_false_r. unfold pstep. cbn [fst snd]. destruct id as [i1 g1]. cbn [fst snd] in *.
      destruct (k =? i1) eqn:Ek.
      + apply N.eqb_eq in Ek. subst i1. rewrite Hk. cbn [andb].
        destruct e as [| |off g|c i]; try reflexivity.
        rewrite pos_get_set, oid_eqb_pair, N.eqb_refl. cbn [andb].
        destruct (g =? g1) eqn:Eg; [|reflexivity]. apply N.eqb_eq in Eg. subst g1. reflexivity.
      + cbn [andb]. destruct e as [| |off g|c i]; try reflexivity.
        rewrite pos_get_set, oid_eqb_pair, Ek. reflexivity.
  Qed.

  (* ---------- the pass over the streams without content ---------- *)
  Lemma read_stream_content_nopos m p id d c :
    lookup m id = Some (OStream d c) -> pos_get p id = None -> read_stream_content buf m p id = m.
  Proof.
    intros Hl Hp. unfold read_stream_content. rewrite Hl.
    change (dereference_id m id (OStream d c)) with (Some (id, OStream d c)). cbv iota.
    destruct (dict_get d K_Length) as [v|]; [|reflexivity].
    destruct (dereference m v) as [r|]; [|reflexivity]. destruct r; try reflexivity. rewrite Hp. reflexivity.
  Qed.

  Variable F : oid -> obj.      (* the stream with its data *)
  Definition deferred_ok (m : objmap) (p : posmap) : Prop :=
    forall id start, pos_get p id = Some start ->
      exists dct li lg content rest,
        lookup m id = Some (OStream dct []) /\ dict_get dct K_Length = Some (ORef li lg) /\
        lookup m (li, lg) = Some (OInt (Z.of_nat (length content))) /\ start <= blen buf /\ from start buf = content ++ rest /\
        F id = OStream (dict_set dct K_Length (OInt (Z.of_nat (length content)))) content.

  Definition has_pos (p : posmap) (i : oid) : bool := match pos_get p i with Some _ => true | None => false end.

  Lemma zero_pass_step m0 p : deferred_ok m0 p -> forall zs m, NoDup zs ->
    (forall id, In id zs -> exists d c, lookup m0 id = Some (OStream d c)) ->
    (forall id, In id zs -> lookup m id = lookup m0 id) ->
    (forall li lg z, lookup m0 (li, lg) = Some (OInt z) -> lookup m (li, lg) = Some (OInt z)) ->
    forall i, lookup (zero_pass buf m p zs) i = if existsb (oid_eqb i) zs && has_pos p i then Some (F i) else lookup m i.
  Proof.
    intros Hok. unfold zero_pass. induction zs as [|id zs IH]; intros m Hnd Hs Ha Hb i; [reflexivity|].
    cbn [fold_left existsb]. inversion Hnd as [|? ? Hn Hnd']; subst.
    destruct (Hs id (or_introl eq_refl)) as [d [c Hl0]].
    assert (Hl : lookup m id = Some (OStream d c)) by (rewrite (Ha id (or_introl eq_refl)); exact Hl0).
    destruct (pos_get p id) as [start|] eqn:Ep.
    - destruct (Hok id start Ep) as [dct [li [lg [content [rest [G1 [G2 [G3 [G4 [G5 G6]]]]]]]]]].
      rewrite G1 in Hl0. inversion Hl0; subst d c. clear Hl0.
      rewrite (LengthRefProofs.read_stream_content_sets buf m p id dct li lg start content rest Hl G2 (Hb _ _ _ G3) Ep G4 G5).
      rewrite <- G6.
      rewrite IH; [| exact Hnd' | intros id' Hin; apply Hs; right; exact Hin | |].
      + destruct (oid_eqb i id) eqn:Ei.
        * apply oid_eqb_eq in Ei. subst i. cbn [orb andb]. unfold has_pos. rewrite Ep.
          destruct (existsb (oid_eqb id) zs); [reflexivity|]. cbn [andb]. apply lookup_insert_same.
        * cbn [orb]. destruct (existsb (oid_eqb i) zs && has_pos p i); [reflexivity|].
          apply lookup_insert_other. intro K. subst i. rewrite oid_eqb_refl in Ei. discriminate Ei.
      + intros id' Hin. rewrite lookup_insert_other by (intro K; subst id'; contradiction). apply Ha. right. exact Hin.
      + intros li' lg' z Hz. rewrite lookup_insert_other; [apply Hb; exact Hz|].
        intro K. subst id. rewrite G1 in Hz. discriminate Hz.
    - rewrite (read_stream_content_nopos m p id d c Hl Ep).
      rewrite IH; [| exact Hnd' | intros id' Hin; apply Hs; right; exact Hin | intros id' Hin; apply Ha; right; exact Hin | exact Hb].
      destruct (oid_eqb i id) eqn:Ei; [|reflexivity].
      apply oid_eqb_eq in Ei. subst i. cbn [orb andb]. unfold has_pos. rewrite Ep, andb_false_r. reflexivity.
  Qed.

  Theorem zero_pass_lookup m p zs : deferred_ok m p -> NoDup zs ->
    (forall id, In id zs -> exists d c, lookup m id = Some (OStream d c)) ->
    (forall id start, pos_get p id = Some start -> In id zs) ->
    forall i, lookup (zero_pass buf m p zs) i = match pos_get p i with Some _ => Some (F i) | None => lookup m i end.
  Proof.
    intros Hok Hnd Hs Hall i.
    rewrite (zero_pass_step m p Hok zs m Hnd Hs (fun _ _ => eq_refl) (fun _ _ _ H => H) i).
    unfold has_pos. destruct (pos_get p i) as [start|] eqn:Ep; [|rewrite andb_false_r; reflexivity].
    rewrite andb_true_r.
    assert (Hx : existsb (oid_eqb i) zs = true).
    { apply existsb_exists. exists i. split; [apply (Hall i start Ep)|apply oid_eqb_refl]. }
    rewrite Hx. reflexivity.
  Qed.

  (* ---------- Reader::read reduced to the three passes ---------- *)
  Theorem load_ext_frame_loop (junk Fb : bytes) version xs x0 t0 xm t :
    pdf_offset (junk ++ Fb) = blen junk -> Fb = buf ->
    Loader.header Fb = Some version ->
    get_xref_start Fb = Some xs ->
    xref_and_trailer_x dec can Fb xs = SOk (x0, t0) ->
    prev_loop_x dec can (S (S (length Fb))) Fb x0 (dict_swap_remove t0 K_Prev) (dict_get t0 K_Prev) [] = SOk (xm, t) ->
    x_entries xm = x ->
    dict_has t K_Encrypt = false -> xref_max_id xm < u32_max ->
    (forall n off g, In (n, XNormal off g) x -> entry_spec n off g) ->
    load_ext dec can (junk ++ Fb) =
    LOk {| d_version := version; d_binary_mark := read_binary_mark Fb; d_trailer := t;
           d_objects := zero_pass buf (merge_object_streams x (fold_left (ins objf) x []) (flat_map ostm_of x))
                                  (fold_left pstep x []) (flat_map zero_of x);
           d_max_id := xref_max_id xm |} (x_type xm).
  Proof.
    intros H1 HF H2 H3 H4 H5 Hx H6 H7 H8. unfold load_ext. rewrite H1, from_app, H2, H3, H4, H5.
    assert (u32_max <=? xref_max_id xm = false) as -> by (apply N.leb_gt; exact H7).
    rewrite H6, Hx, HF. rewrite (read_entries_x_loop x _ H8). cbn [r_objs r_pos r_ostm r_zero app]. reflexivity.
  Qed.
End Loop.

(* ---------- cross-reference maps built by insertion are strictly increasing in their keys ---------- *)
Fixpoint xinc (lo : N) (m : xmap) : Prop :=
  match m with [] => True | (k, _) :: t => lo <= k /\ xinc (k + 1) t end.

Lemma xinc_weaken : forall m lo lo', lo' <= lo -> xinc lo m -> xinc lo' m.
Proof. destruct m as [|[k e] m]; intros lo lo' H K; [exact I|]. cbn [xinc] in *. destruct K. split; [lia|assumption]. Qed.

Lemma xinsert_inc : forall m lo k e, xinc lo m -> xinc (N.min lo k) (xinsert m k e).
Proof.
  induction m as [|[k0 e0] m IH]; intros lo k e H; cbn [xinsert].
  - cbn [xinc]. split; [lia|exact I].
  - destruct H as [H1 H2]. destruct (k0 =? k) eqn:E1.
    + apply N.eqb_eq in E1. subst. cbn [xinc]. split; [lia|exact H2].
    + apply N.eqb_neq in E1. destruct (k <? k0) eqn:E2.
      * apply N.ltb_lt in E2. cbn [xinc]. split; [lia|]. split; [lia|exact H2].
      * apply N.ltb_ge in E2. cbn [xinc]. split; [lia|].
        apply (xinc_weaken _ (N.min (k0 + 1) k)); [lia|apply IH; exact H2].
Qed.

Lemma xinc_keys_ge : forall m lo k, xinc lo m -> In k (map fst m) -> lo <= k.
Proof.
  induction m as [|[k0 e0] m IH]; intros lo k H Hin; [contradiction|]. destruct H as [H1 H2]. destruct Hin as [<-|Hin]; [exact H1|].
  pose proof (IH _ _ H2 Hin). lia.
Qed.

Lemma xinc_nodup : forall m lo, xinc lo m -> NoDup (map fst m).
Proof.
  induction m as [|[k0 e0] m IH]; intros lo H; [constructor|]. destruct H as [H1 H2]. cbn [map fst]. constructor.
  - intro K. pose proof (xinc_keys_ge _ _ _ H2 K). lia.
  - apply (IH _ H2).
Qed.

Lemma zero_of_nodup objf memf : forall (x : xmap), NoDup (map fst x) -> NoDup (flat_map (zero_of objf memf) x).
Proof.
  assert (Hk : forall (x : xmap) id, In id (flat_map (zero_of objf memf) x) -> In (fst id) (map fst x)).
  { induction x as [|[k e] x IH]; intros id H; [contradiction|]. cbn [flat_map] in H. apply in_app_or in H as [H|H].
    - left. unfold zero_of in H. cbn [fst snd] in H. destruct e as [| |off g|c i]; try contradiction. destruct (memf k); [contradiction|].
      destruct (objf k g) as [| | | | | | | |d c|]; try contradiction. destruct c; [|contradiction]. destruct H as [<-|[]]. reflexivity.
    - right. apply IH. exact H. }
  induction x as [|[k e] x IH]; intro H; [constructor|]. inversion H as [|? ? Hn Hd]; subst. cbn [flat_map].
  assert (Hone : zero_of objf memf (k, e) = [] \/ exists g, zero_of objf memf (k, e) = [(k, g)]).
  { unfold zero_of. cbn [fst snd]. destruct e as [| |off g|c i]; try (left; reflexivity). destruct (memf k); [left; reflexivity|].
    destruct (objf k g) as [| | | | | | | |d c|]; try (left; reflexivity). destruct c; [right; eexists; reflexivity|left; reflexivity]. }
  destruct Hone as [->|[g ->]]; [apply IH; exact Hd|]. cbn [app]. constructor; [|apply IH; exact Hd].
  intro K. apply Hk in K. cbn [fst] in K. contradiction.
Qed.

(* ---------- the Prev loop over a chain of sections ---------- *)
(* sections behind the one startxref names, newest first: (offset, what parser::xref_and_trailer finds there).  Each is
   named by the Prev entry of the section before it, none carries XRefStm (hybrid files are outside C02's domain), the
   offsets decrease (a section precedes the sections that name it: an appended file) *)
Definition csec := (N * (xref * dict))%type.
Definition prev_of (rest : list csec) : option obj :=
  match rest with [] => None | (off, _) :: _ => Some (OInt (Z.of_N off)) end.

Section Chain.
  Variable dec : dict -> bytes -> option (dict * bytes).
  Variable can : dict -> bool.
  Variable buf : bytes.

  Fixpoint chain_ok (hi : N) (rest : list csec) : Prop :=
    match rest with
    | [] => True
    | (off, (x, t)) :: rest' =>
      off < hi /\ xref_and_trailer_x dec can buf off = SOk (x, t) /\ dict_get t K_XRefStm = None /\
      dict_get t K_Prev = prev_of rest' /\ chain_ok off rest'
    end.

  Lemma chain_len : forall rest hi, chain_ok hi rest -> (length rest <= N.to_nat hi)%nat.
  Proof.
    induction rest as [|[off [x t]] rest IH]; intros hi H; [cbn; lia|]. destruct H as [H1 [_ [_ [_ H5]]]].
    specialize (IH off H5). cbn [length]. lia.
  Qed.

  Lemma prev_loop_chain : forall rest fuel x t seen hi,
    chain_ok hi rest -> hi <= blen buf + 1 -> dict_get t K_XRefStm = None ->
    (forall q, In q seen -> (Z.of_N hi <= q)%Z) -> (length rest <= fuel)%nat ->
    prev_loop_x dec can fuel buf x t (prev_of rest) seen =
    SOk (fold_left xref_merge (map (fun s => fst (snd s)) rest) x, t).
  Proof.
    induction rest as [|[off [px pt]] rest IH]; intros fuel x t seen hi Hc Hhi Ht Hs Hf.
    - destruct fuel; reflexivity.
    - destruct Hc as [H1 [H2 [H3 [H4 H5]]]]. cbn [prev_of length map fold_left fst snd] in *.
      destruct fuel as [|f]; [lia|]. cbn [prev_loop_x].
      assert (Hseen : existsb (Z.eqb (Z.of_N off)) seen = false).
      { destruct (existsb (Z.eqb (Z.of_N off)) seen) eqn:E; [|reflexivity]. apply existsb_exists in E as [q [Hq Eq]].
        apply Z.eqb_eq in Eq. subst q. specialize (Hs _ Hq). lia. }
      rewrite Hseen.
      assert (Hb : (Z.of_N off <? 0)%Z || (blen buf <? Z.to_N (Z.of_N off)) = false).
      { rewrite N2Z.id. apply orb_false_iff. split; [apply Z.ltb_ge; lia|apply N.ltb_ge; lia]. }
      rewrite Hb, Ht. cbn [merge_xref_stream_x].
      assert (R : dict_swap_remove t K_XRefStm = t) by (unfold dict_swap_remove, dict_has; rewrite Ht; reflexivity).
      rewrite R, N2Z.id, H2, H3. cbn [merge_xref_stream_x]. rewrite H4.
      apply (IH f (xref_merge x px) t (Z.of_N off :: seen) off H5); [lia|exact Ht| |lia].
      intros q [<-|Hq]; [lia|]. specialize (Hs _ Hq). lia.
  Qed.

  (* Reader::read on a file whose sections form such a chain: the three passes over the merged table *)
  Theorem load_ext_frame_chain x objf posf memf (junk Fb : bytes) version xs x0 t0 rest :
    pdf_offset (junk ++ Fb) = blen junk -> Fb = buf ->
    Loader.header Fb = Some version -> get_xref_start Fb = Some xs -> xs <= blen buf ->
    xref_and_trailer_x dec can Fb xs = SOk (x0, t0) -> dict_get (dict_swap_remove t0 K_Prev) K_XRefStm = None ->
    dict_get t0 K_Prev = prev_of rest -> chain_ok xs rest ->
    x_entries (fold_left xref_merge (map (fun s => fst (snd s)) rest) x0) = x ->
    dict_has (dict_swap_remove t0 K_Prev) K_Encrypt = false ->
    xref_max_id (fold_left xref_merge (map (fun s => fst (snd s)) rest) x0) < u32_max ->
    (forall n off g, In (n, XNormal off g) x -> entry_spec dec can buf x objf posf memf n off g) ->
    load_ext dec can (junk ++ Fb) =
    LOk {| d_version := version; d_binary_mark := read_binary_mark Fb; d_trailer := dict_swap_remove t0 K_Prev;
           d_objects := zero_pass buf (merge_object_streams x (fold_left (ins objf) x []) (flat_map (ostm_of memf) x))
                                  (fold_left (pstep posf) x []) (flat_map (zero_of objf memf) x);
           d_max_id := xref_max_id (fold_left xref_merge (map (fun s => fst (snd s)) rest) x0) |} (x_type x0).
  Proof.
    intros H1 HF H2 H3 Hxs H4 Hst Hp Hc Hx He Hm Hspec.
    assert (Ety : forall l y, x_type (fold_left xref_merge l y) = x_type y).
    { induction l as [|z l IH]; intro y; [reflexivity|]. cbn [fold_left]. rewrite IH. reflexivity. }
    rewrite <- (Ety (map (fun s => fst (snd s)) rest) x0).
    apply (load_ext_frame_loop dec can buf x objf posf memf junk Fb version xs x0 t0 _ (dict_swap_remove t0 K_Prev));
      try assumption.
    rewrite Hp, HF.
    apply (prev_loop_chain rest (S (S (length buf))) x0 (dict_swap_remove t0 K_Prev) [] xs Hc); [lia|exact Hst|intros q []|].
    pose proof (chain_len rest xs Hc) as K. unfold blen in Hxs. lia.
  Qed.
End Chain.

(* the merged table: for every number the entry of the NEWEST section that has one (Xref::merge = entry().or_insert) *)
Lemma xget_fold_new : forall (l m : xmap) k,
  xget (fold_left (fun m ke => xinsert_new m (fst ke) (snd ke)) l m) k =
  match xget m k with Some e => Some e | None => xget l k end.
Proof.
  induction l as [|[k0 e0] l IH]; intros m k; cbn [fold_left xget fst snd].
  - destruct (xget m k); reflexivity.
  - rewrite IH. unfold xinsert_new. destruct (xget m k0) as [e1|] eqn:E0.
    + destruct (xget m k) as [e|] eqn:E; [reflexivity|]. destruct (k0 =? k) eqn:Ek; [|reflexivity].
      apply N.eqb_eq in Ek. subst k0. rewrite E in E0. discriminate E0.
    + rewrite XrefProofs.xget_xinsert. destruct (k0 =? k) eqn:Ek.
      * apply N.eqb_eq in Ek. subst k0. rewrite E0. reflexivity.
      * destruct (xget m k); reflexivity.
Qed.

Fixpoint first_entry (l : list xref) (k : N) : option xentry :=
  match l with [] => None | x :: t => match xget (x_entries x) k with Some e => Some e | None => first_entry t k end end.

Theorem xget_merge_chain : forall (l : list xref) (x : xref) k,
  xget (x_entries (fold_left xref_merge l x)) k = first_entry (x :: l) k.
Proof.
  induction l as [|y l IH]; intros x k; cbn [fold_left first_entry].
  - destruct (xget (x_entries x) k); reflexivity.
  - rewrite IH. cbn [first_entry]. unfold xref_merge at 1. cbn [x_entries]. rewrite xget_fold_new.
    destruct (xget (x_entries x) k); reflexivity.
Qed.
