(* SpellingProofs.v -- rung 2 of C02: for every spelling the reference writer's style denotes (Spec/RefWriter.v),
   the token parsers of Model/Parser.v return the denoted value.  These generalise c14's round trips (which
   cover the one spelling lopdf's own writer uses) and are proved against Model/Parser.v directly.
   Fillers, names, hexadecimal strings, integers, reals here; literal strings in SpellingProofsLit.v. *)
From LV Require Import Base.Bytes Base.Sx Model.Obj Model.Writer Model.Parser Gen.Lex
  Spec.XrefSpec Spec.RefWriter Proofs.LexProofs.
Local Open Scope N_scope.

(* ---------- the specification's character classes are the parser's ---------- *)
Definition class_agree (b : byte) : bool :=
  Bool.eqb (is_ws b) (is_whitespace b) && Bool.eqb (is_delim b) (is_delimiter b) && Bool.eqb (is_reg b) (is_regular b).
Lemma class_sweep : byte_forallb class_agree = true. Proof. vm_compute. reflexivity. Qed.
Lemma class_agree_spec b : is_ws b = is_whitespace b /\ is_delim b = is_delimiter b /\ is_reg b = is_regular b.
Proof.
  pose proof (byte_forallb_spec _ class_sweep b) as H. unfold class_agree in H.
  apply andb_true_iff in H as [H H3]. apply andb_true_iff in H as [H1 H2].
  apply Bool.eqb_prop in H1, H2, H3. auto.
Qed.

(* ---------- fillers ---------- *)
Lemma ws_byte_ws k : is_whitespace (ws_byte k) = true.
Proof.
  unfold ws_byte. assert (H : k mod 6 < 6) by (apply N.mod_lt; discriminate).
  destruct (k mod 6) as [|p]; [reflexivity|].
  do 3 (destruct p as [p|p|]; try reflexivity; try (exfalso; lia)).
Qed.

(* inside a comment everything up to the end-of-line marker is skipped *)
Lemma space_aux_comment : forall t s0 e rest,
  forallb (fun b => negb (is_eol_byte b)) t = true ->
  space_aux (t ++ eol_bytes e ++ rest) (Some s0) = space_aux rest None.
Proof.
  induction t as [|c t IH]; intros s0 e rest H.
  - (* CR LF: the CR ends the comment, the LF is white space *)
    cbn [app]. destruct e; reflexivity.
  - cbn [forallb] in H. apply andb_true_iff in H as [Hc Ht]. cbn [app space_aux].
    assert (E : is_comment_end c = false).
    { unfold is_eol_byte in Hc. apply negb_true_iff in Hc. apply orb_false_iff in Hc as [H1 H2].
      unfold is_comment_end, COMMENT_END, byte_in. cbn [existsb]. rewrite H1, H2. reflexivity. }
    rewrite E. apply IH. exact Ht.
Qed.

Lemma filter_not_eol t : forallb (fun b => negb (is_eol_byte b)) (filter (fun b => negb (is_eol_byte b)) t) = true.
Proof. induction t as [|c t IH]; [reflexivity|]. cbn [filter]. destruct (negb (is_eol_byte c)) eqn:E; [cbn [forallb]; rewrite E|]; exact IH. Qed.

Theorem filler_skipped : forall (f : filler) rest, space (fill_bytes f ++ rest) = space rest.
Proof.
  unfold space. induction f as [|x f IH]; intro rest; [reflexivity|].
  unfold fill_bytes in *. cbn [flat_map]. rewrite <- app_assoc. destruct x as [k|t e]; cbn [fill1_bytes app].
  - cbn [space_aux]. rewrite ws_byte_ws. apply IH.
  - cbn [space_aux]. change (is_whitespace x25) with false. cbv iota. rewrite byte_eqb_refl.
    rewrite <- app_assoc. rewrite space_aux_comment by apply filter_not_eol. apply IH.
Qed.

(* white-space only (hexadecimal strings, object-stream index) *)
Lemma ws_bytes_ws l : forallb is_whitespace (ws_bytes l) = true.
Proof. induction l as [|k l IH]; [reflexivity|]. cbn [ws_bytes map forallb]. rewrite ws_byte_ws. exact IH. Qed.

(* ---------- hexadecimal digits in either case ---------- *)
Definition hexd_ok (d : N) : bool :=
  match hex_val (hexd true d), hex_val (hexd false d) with
  | Some a, Some b => (a =? d) && (b =? d) && negb (is_whitespace (hexd true d)) && negb (is_whitespace (hexd false d))
  | _, _ => false
  end.
Lemma hexd_sweep : below_nat 16 hexd_ok = true. Proof. vm_compute. reflexivity. Qed.
Lemma hexd_val u d : d < 16 -> hex_val (hexd u d) = Some d /\ is_whitespace (hexd u d) = false.
Proof.
  intro H. pose proof (below_nat_spec 16 _ hexd_sweep d H) as K. unfold hexd_ok in K.
  destruct (hex_val (hexd true d)) as [a|] eqn:Ea; [|discriminate].
  destruct (hex_val (hexd false d)) as [b|] eqn:Eb; [|discriminate].
  apply andb_true_iff in K as [K K4]. apply andb_true_iff in K as [K K3]. apply andb_true_iff in K as [K1 K2].
  apply N.eqb_eq in K1, K2. apply negb_true_iff in K3, K4. subst a b.
  destruct u; split; assumption.
Qed.

(* ---------- names: any mixture of raw and #xx spellings, either hex case ---------- *)
Definition name_plain_ok (b : byte) : bool := name_must_escape b || (negb (byte_eqb b x23) && is_regular b).
Lemma name_plain_sweep : byte_forallb name_plain_ok = true. Proof. vm_compute. reflexivity. Qed.

Lemma name_body_esc u1 u2 b tl :
  name_body (x23 :: hexd u1 (N_of_byte b / 16) :: hexd u2 (N_of_byte b mod 16) :: tl) =
  let '(n, r) := name_body tl in (b :: n, r).
Proof.
  cbn [name_body]. rewrite byte_eqb_refl.
  rewrite (proj1 (hexd_val u1 _ (hi_lt b))), (proj1 (hexd_val u2 _ (lo_lt b))), byte_nibbles. reflexivity.
Qed.

Lemma name_body_byte b c tl :
  name_body (w_name_byte b c ++ tl) = let '(n, r) := name_body tl in (b :: n, r).
Proof.
  unfold w_name_byte. destruct c as [|u1 u2].
  - destruct (name_must_escape b) eqn:E.
    + cbn [app]. apply name_body_esc.
    + pose proof (byte_forallb_spec _ name_plain_sweep b) as K. unfold name_plain_ok in K. rewrite E in K.
      cbn [orb] in K. apply andb_true_iff in K as [K1 K2]. apply negb_true_iff in K1.
      cbn [app name_body]. rewrite K1, K2. reflexivity.
  - cbn [app]. apply name_body_esc.
Qed.

Lemma name_body_any : forall n st rest, name_follow rest = true -> name_body (w_name_body n st ++ rest) = (n, rest).
Proof.
  induction n as [|b n IH]; intros st rest Hr.
  - cbn [w_name_body app]. apply name_body_stop. exact Hr.
  - destruct st as [|c st]; cbn [w_name_body]; rewrite <- app_assoc, name_body_byte, IH by exact Hr; reflexivity.
Qed.

Theorem name_any_spelling : forall n (st : nstyle) rest,
  name_follow rest = true -> name (w_name n st ++ rest) = POk n rest.
Proof.
  intros n st rest Hr. unfold name, w_name. cbn [app]. rewrite byte_eqb_refl, name_body_any by exact Hr. reflexivity.
Qed.

(* ---------- hexadecimal strings: white-space anywhere, either case, odd final digit ---------- *)
Lemma hex_body_ws : forall w tl p, forallb is_whitespace w = true -> hex_body (w ++ tl) p = hex_body tl p.
Proof.
  induction w as [|c w IH]; intros tl p H; [reflexivity|]. cbn [forallb] in H. apply andb_true_iff in H as [Hc Hw].
  cbn [app hex_body]. rewrite Hc. apply IH. exact Hw.
Qed.

Lemma hex_body_digit u d tl p : d < 16 ->
  hex_body (hexd u d :: tl) p =
  match p with
  | None => hex_body tl (Some d)
  | Some h => let '(out, r) := hex_body tl None in (byte_of_N (h * 16 + d) :: out, r)
  end.
Proof. intro H. destruct (hexd_val u d H) as [Hv Hw]. cbn [hex_body]. rewrite Hw, Hv. reflexivity. Qed.

Lemma hex_body_any : forall s st dl tw rest,
  hex_body (w_hex_body s st dl ++ ws_bytes tw ++ x3e :: rest) None = (s, x3e :: rest).
Proof.
  assert (Hend : forall tw rest p, hex_body (ws_bytes tw ++ x3e :: rest) p =
                 (match p with Some h => [byte_of_N (h * 16)] | None => [] end, x3e :: rest)).
  { intros tw rest p. rewrite hex_body_ws by apply ws_bytes_ws. reflexivity. }
  induction s as [|b s IH]; intros st dl tw rest.
  - cbn [w_hex_body app]. apply Hend.
  - cbn [w_hex_body]. destruct st as [|p st].
    + destruct s as [|b2 s2].
      * (* last byte *)
        destruct (dl && (N_of_byte b mod 16 =? 0)) eqn:Ed.
        -- apply andb_true_iff in Ed as [_ E0]. apply N.eqb_eq in E0.
           cbn [default_hpos h_ws1 h_u1 ws_bytes map app].
           rewrite hex_body_digit by apply hi_lt. rewrite Hend.
           f_equal. f_equal. rewrite <- (byte_nibbles b) at 2. rewrite E0, N.add_0_r. reflexivity.
        -- cbn [default_hpos h_ws1 h_ws2 h_u1 h_u2 ws_bytes map app].
           rewrite hex_body_digit by apply hi_lt. rewrite hex_body_digit by apply lo_lt.
           rewrite Hend, byte_nibbles. reflexivity.
      * cbn [default_hpos h_ws1 h_ws2 h_u1 h_u2 ws_bytes map app].
        rewrite hex_body_digit by apply hi_lt. rewrite hex_body_digit by apply lo_lt.
        rewrite (IH [] dl tw rest), byte_nibbles. reflexivity.
    + destruct s as [|b2 s2].
      * destruct (dl && (N_of_byte b mod 16 =? 0)) eqn:Ed.
        -- apply andb_true_iff in Ed as [_ E0]. apply N.eqb_eq in E0.
           rewrite <- !app_assoc. rewrite hex_body_ws by apply ws_bytes_ws. cbn [app].
           rewrite hex_body_digit by apply hi_lt. rewrite Hend.
           f_equal. f_equal. rewrite <- (byte_nibbles b) at 2. rewrite E0, N.add_0_r. reflexivity.
        -- rewrite <- !app_assoc. rewrite hex_body_ws by apply ws_bytes_ws. cbn [app].
           rewrite hex_body_digit by apply hi_lt. rewrite <- !app_assoc.
           rewrite hex_body_ws by apply ws_bytes_ws. cbn [app].
           rewrite hex_body_digit by apply lo_lt. rewrite Hend, byte_nibbles. reflexivity.
      * rewrite <- !app_assoc. rewrite hex_body_ws by apply ws_bytes_ws. cbn [app].
        rewrite hex_body_digit by apply hi_lt. rewrite <- !app_assoc.
        rewrite hex_body_ws by apply ws_bytes_ws. cbn [app].
        rewrite hex_body_digit by apply lo_lt.
        rewrite (IH st dl tw rest), byte_nibbles. reflexivity.
Qed.

Theorem hex_string_any_spelling : forall s (st : list hpos) (tw : list N) (dl : bool) rest,
  hexadecimal_string (w_hexstr s st tw dl ++ rest) = POk s rest.
Proof.
  intros. unfold hexadecimal_string, w_hexstr. cbn [app]. rewrite byte_eqb_refl.
  rewrite <- !app_assoc. cbn [app]. rewrite hex_body_any. rewrite byte_eqb_refl. reflexivity.
Qed.

(* ---------- integers: optional plus sign, leading zeros ---------- *)
Lemma zeros_digits k : forallb is_dec_digit (zeros k) = true.
Proof. induction k; [reflexivity|]. cbn [zeros repeat forallb]. change (is_dec_digit x30) with true. exact IHk. Qed.

Lemma digits_val_zeros' k ds : digits_val (zeros k ++ ds) = digits_val ds.
Proof.
  unfold digits_val, zeros. rewrite fold_left_app.
  replace (fold_left (fun acc c => acc * 10 + (N_of_byte c - 48)) (repeat x30 k) 0) with 0; [reflexivity|].
  induction k as [|k IH]; [reflexivity|]. cbn [repeat fold_left]. change (0 * 10 + (N_of_byte x30 - 48)) with 0. exact IH.
Qed.

Lemma padded_digits k n rest : starts_with is_dec_digit rest = false ->
  take_while is_dec_digit (zeros k ++ N_dec n ++ rest) = (zeros k ++ N_dec n, rest) /\
  zeros k ++ N_dec n <> [] /\ digits_val (zeros k ++ N_dec n) = n /\
  opt_sign (zeros k ++ N_dec n ++ rest) = (None, zeros k ++ N_dec n ++ rest).
Proof.
  intro Hr. assert (Hd : forallb is_dec_digit (zeros k ++ N_dec n) = true)
    by (rewrite forallb_app, zeros_digits, N_dec_digits; reflexivity).
  assert (Hne : zeros k ++ N_dec n <> []).
  { intro E. apply app_eq_nil in E as [_ E]. exact (N_dec_nonempty n E). }
  split; [|split; [|split]].
  - rewrite app_assoc. apply take_while_app; [exact Hd | exact Hr].
  - exact Hne.
  - rewrite digits_val_zeros'. apply N_dec_val.
  - rewrite app_assoc. apply opt_sign_digits; [exact Hne | exact Hd].
Qed.

Theorem integer_any_spelling : forall z (plus : bool) (lz : nat) rest,
  in_i64 z = true -> starts_with is_dec_digit rest = false ->
  integer (w_int z plus lz ++ rest) = POk z rest.
Proof.
  intros z plus lz rest Hz Hr. unfold in_i64 in Hz. unfold integer, w_int.
  destruct z as [|p|p].
  - destruct (padded_digits lz 0 rest Hr) as [Ht [Hne [Hv Hs]]]. change (Z.to_N 0) with 0.
    destruct plus; rewrite <- ?app_assoc; cbn [app opt_sign].
    + rewrite Ht. rewrite (match_nonempty _ _ _ Hne), Hv. reflexivity.
    + rewrite Hs, Ht. rewrite (match_nonempty _ _ _ Hne), Hv. reflexivity.
  - destruct (padded_digits lz (Npos p) rest Hr) as [Ht [Hne [Hv Hs]]]. change (Z.to_N (Zpos p)) with (Npos p).
    destruct plus; rewrite <- ?app_assoc; cbn [app opt_sign].
    + rewrite Ht. rewrite (match_nonempty _ _ _ Hne), Hv. cbn [Z.of_N]. rewrite Hz. reflexivity.
    + rewrite Hs, Ht. rewrite (match_nonempty _ _ _ Hne), Hv. cbn [Z.of_N]. rewrite Hz. reflexivity.
  - destruct (padded_digits lz (Npos p) rest Hr) as [Ht [Hne [Hv Hs]]].
    cbn [app]. rewrite <- ?app_assoc. cbn [opt_sign]. rewrite Ht. rewrite (match_nonempty _ _ _ Hne), Hv.
    cbn [Z.of_N Z.opp]. rewrite Hz. reflexivity.
Qed.
