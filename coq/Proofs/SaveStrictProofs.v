(* SaveStrictProofs.v -- C03, part 2: the pieces the model of the writer (Model/Save.v,
   Model/Writer.v) produces are accepted by the corresponding pieces of the strict reader
   (Spec/StrictReader.v), with the same numbers.  The strict reader and the writer model share no
   definition; every lemma here relates one to the other. *)
From LV Require Import Base.Bytes Base.Sx Model.Obj Model.Writer Model.Save Gen.SaveFmt
  Proofs.LexProofs Proofs.SaveProofs Proofs.StrictReaderProofs.
From LV Require Spec.StrictReader.
Module SR := Spec.StrictReader.

Local Open Scope N_scope.

(* ---------- decimal numbers: what N_dec prints, the strict reader reads ---------- *)
Lemma is_digit_eq : SR.is_digit = is_dec_digit.
Proof. reflexivity. Qed.

Lemma dec_val_eq ds : SR.dec_val ds = digits_val ds.
Proof. reflexivity. Qed.

Lemma span_app : forall p (a r : bytes),
  forallb p a = true -> (match r with [] => true | c :: _ => negb (p c) end) = true ->
  SR.span p (a ++ r) = (a, r).
Proof.
  intros p a r Ha Hr. induction a as [|c a IH]; cbn [app SR.span].
  - destruct r as [|c r]; [reflexivity|]. cbn [SR.span]. apply negb_true_iff in Hr. rewrite Hr. reflexivity.
  - cbn [forallb] in Ha. apply andb_true_iff in Ha as [Hc Ha]. rewrite Hc, (IH Ha). reflexivity.
Qed.

Definition no_digit_ahead (r : bytes) : bool :=
  match r with [] => true | c :: _ => negb (SR.is_digit c) end.

Lemma p_nat_N_dec : forall n r, no_digit_ahead r = true -> SR.p_nat (N_dec n ++ r) = Some (n, r).
Proof.
  intros n r Hr. unfold SR.p_nat.
  rewrite (span_app SR.is_digit (N_dec n) r); [|rewrite is_digit_eq; apply N_dec_digits | exact Hr].
  destruct (N_dec n) eqn:E; [exfalso; eapply N_dec_nonempty; exact E|].
  rewrite <- E, dec_val_eq, N_dec_val. reflexivity.
Qed.

Lemma fixed_digits_app : forall ds r acc,
  forallb SR.is_digit ds = true ->
  SR.fixed_digits (length ds) (ds ++ r) acc = Some (fold_left dstep ds acc, r).
Proof.
  induction ds as [|c ds IH]; intros r acc H; cbn [length app SR.fixed_digits fold_left]; [reflexivity|].
  cbn [forallb] in H. apply andb_true_iff in H as [Hc Hd]. rewrite Hc. rewrite (IH r _ Hd). reflexivity.
Qed.

Lemma fold_zeros : forall k, fold_left dstep (repeat x30 k) 0 = 0.
Proof. induction k as [|k IH]; cbn [repeat fold_left]; [reflexivity|]. exact IH. Qed.

Lemma zeros_digits : forall k, forallb SR.is_digit (repeat x30 k) = true.
Proof. induction k as [|k IH]; cbn [repeat forallb]; [reflexivity|]. rewrite IH. reflexivity. Qed.

(* "{:>0w}" of n is read back as n by "exactly w digits" *)
Lemma fixed_digits_pad0 : forall w n r,
  (0 < w)%nat -> n < 10 ^ N.of_nat w ->
  SR.fixed_digits w (pad0 w (N_dec n) ++ r) 0 = Some (n, r).
Proof.
  intros w n r Hw Hn.
  pose proof (N_dec_length w n Hw Hn) as Hl.
  pose proof (pad0_length w (N_dec n) Hl) as Hp.
  rewrite <- Hp at 1. rewrite fixed_digits_app.
  - unfold pad0. rewrite fold_left_app, fold_zeros. rewrite <- digits_val_fold, N_dec_val. reflexivity.
  - unfold pad0. rewrite forallb_app, zeros_digits. rewrite is_digit_eq. apply N_dec_digits.
Qed.

(* ---------- T1: a table entry written by the model is a valid 20-byte entry with the same numbers ---------- *)
Definition xent_of (e : xentry) : SR.xent :=
  match e with
  | XNormal off g => SR.XUse off g
  | XCompressed _ _ => SR.XFree 0 65535
  | Save.XFree => SR.XFree 0 0
  | XUnusable => SR.XFree 0 65535
  end.

Lemma entry_line_accepted : forall a b k r,
  a < 10000000000 -> b < 100000 -> (k = x6e \/ k = x66) ->
  SR.p_entry (xentry_line a b k ++ r) =
  Some ((if byte_eqb k x6e then SR.XUse a b else SR.XFree a b), r).
Proof.
  intros a b k r Ha Hb Hk. unfold xentry_line, XREF_ENTRY_SEP1, XREF_ENTRY_SEP2, XREF_ENTRY_TAIL.
  unfold SR.p_entry. rewrite <- !app_assoc.
  rewrite (fixed_digits_pad0 XREF_ENTRY_W1 a);
    [| unfold XREF_ENTRY_W1; lia | unfold XREF_ENTRY_W1; change (10 ^ N.of_nat 10) with 10000000000; lia].
  cbn [SR.obnd snd fst app]. rewrite byte_eqb_refl.
  rewrite (fixed_digits_pad0 XREF_ENTRY_W2 b);
    [| unfold XREF_ENTRY_W2; lia | unfold XREF_ENTRY_W2; change (10 ^ N.of_nat 5) with 100000; lia].
  cbn [SR.obnd snd fst app]. rewrite byte_eqb_refl.
  destruct Hk as [-> | ->]; reflexivity.
Qed.

Theorem save_entry_accepted : forall e r,
  xentry_in_range e -> SR.p_entry (write_xref_entry e ++ r) = Some (xent_of e, r).
Proof.
  intros e r H. destruct e as [| |off g|c i]; cbn [write_xref_entry xent_of];
    unfold XREF_KIND_NORMAL, XREF_KIND_FREE, XREF_FREE_GEN_UNUSABLE.
  - rewrite entry_line_accepted by (try lia; auto). reflexivity.
  - rewrite entry_line_accepted by (try lia; auto). reflexivity.
  - destruct H as [Ho Hg]. unfold u32_mod in Ho.
    rewrite entry_line_accepted by (try lia; auto). reflexivity.
  - rewrite entry_line_accepted by (try lia; auto). reflexivity.
Qed.

(* ---------- T2: a subsection body ---------- *)
Fixpoint number_from (id : N) (es : list xentry) : list (N * SR.xent) :=
  match es with
  | [] => []
  | e :: es' => (id, xent_of e) :: number_from (id + 1) es'
  end.

Theorem save_entries_accepted : forall es id r,
  Forall xentry_in_range es ->
  SR.p_entries (length es) id (flat_map write_xref_entry es ++ r) = Some (number_from id es, r).
Proof.
  induction es as [|e es IH]; intros id r H; cbn [length flat_map SR.p_entries number_from app]; [reflexivity|].
  inversion H; subst. rewrite <- app_assoc, save_entry_accepted by assumption.
  rewrite IH by assumption. reflexivity.
Qed.

(* a whole subsection "first count\n" + entries, as the strict reader's subsection loop reads it *)
Lemma nat_dec_len (es : list xentry) : N.of_nat (length es) = N.of_nat (length es).
Proof. reflexivity. Qed.

(* ---------- T4: the end of the file ---------- *)
Definition digit_facts_b (c : byte) : bool :=
  implb (is_dec_digit c) (negb (SR.is_ws c) && negb (SR.is_eol c) && SR.is_regular c).
Lemma digit_facts_sweep : byte_forallb digit_facts_b = true.
Proof. vm_compute. reflexivity. Qed.
Lemma digit_facts : forall c, is_dec_digit c = true ->
  SR.is_ws c = false /\ SR.is_eol c = false /\ SR.is_regular c = true.
Proof.
  intros c H. pose proof (byte_forallb_spec _ digit_facts_sweep c) as K.
  unfold digit_facts_b in K. rewrite H in K. cbn [implb] in K.
  apply andb_true_iff in K as [K K3]. apply andb_true_iff in K as [K1 K2].
  apply negb_true_iff in K1, K2. auto.
Qed.

Lemma KW_startxref_eq : SR.KW_startxref = bs "startxref". Proof. reflexivity. Qed.
Lemma KW_eof_eq : SR.KW_eof = bs "%%EOF". Proof. reflexivity. Qed.

(* forward: after the white space that follows the cross-reference section *)
Theorem save_tail_accepted : forall xs rest,
  SR.p_tail (bs "startxref" ++ x0a :: N_dec xs ++ x0a :: bs "%%EOF" ++ rest) = Some (xs, rest).
Proof.
  intros xs rest. unfold SR.p_tail.
  rewrite KW_startxref_eq, strip_app. cbn [SR.obnd SR.ws1 SR.is_ws].
  destruct (N_dec_cons xs) as [c [t [E Hc]]].
  destruct (digit_facts c Hc) as [Hnw _].
  assert (Hsk : SR.skip_sp (N_dec xs ++ x0a :: bs "%%EOF" ++ rest) = N_dec xs ++ x0a :: bs "%%EOF" ++ rest).
  { rewrite E. cbn [app SR.skip_sp]. rewrite Hnw. reflexivity. }
  rewrite Hsk. rewrite p_nat_N_dec by reflexivity.
  cbn [SR.obnd snd fst SR.ws1 SR.is_ws].
  change (bs "%%EOF" ++ rest) with (x25 :: x25 :: x45 :: x4f :: x46 :: rest).
  cbn [SR.skip_sp SR.is_ws]. rewrite KW_eof_eq. reflexivity.
Qed.

(* backward: the strict reader finds the same number from the END of the file *)
Lemma forallb_rev {A} (p : A -> bool) l : forallb p l = true -> forallb p (rev l) = true.
Proof. rewrite !forallb_forall. intros H x Hx. apply H. apply in_rev. exact Hx. Qed.

Lemma skip_sp_digits : forall ds r, ds <> [] -> forallb is_dec_digit ds = true -> SR.skip_sp (ds ++ r) = ds ++ r.
Proof.
  intros ds r Hne Hd. destruct ds as [|c ds]; [contradiction|]. cbn [forallb] in Hd.
  apply andb_true_iff in Hd as [Hc _]. destruct (digit_facts c Hc) as [Hw _].
  cbn [app SR.skip_sp]. rewrite Hw. reflexivity.
Qed.

Theorem save_find_tail : forall pre xs,
  SR.find_tail (pre ++ startxref_bytes xs) = Some xs.
Proof.
  intros pre xs. unfold SR.find_tail, startxref_bytes.
  rewrite rev_append_rev, app_nil_r.
  assert (R : rev (pre ++ x0a :: bs "startxref" ++ x0a :: N_dec xs ++ x0a :: bs "%%EOF") =
              rev (bs "%%EOF") ++ x0a :: rev (N_dec xs) ++ x0a :: rev (bs "startxref") ++ x0a :: rev pre).
  { change (pre ++ x0a :: bs "startxref" ++ x0a :: N_dec xs ++ x0a :: bs "%%EOF")
      with (pre ++ [x0a] ++ bs "startxref" ++ [x0a] ++ N_dec xs ++ [x0a] ++ bs "%%EOF").
    rewrite !rev_app_distr. change (rev [x0a]) with [x0a]. rewrite <- !app_assoc. reflexivity. }
  rewrite R. clear R.
  change (rev (bs "%%EOF")) with [x46; x4f; x45; x25; x25].
  cbn [app]. change (byte_eqb x46 x0a) with false. change (byte_eqb x46 x0d) with false. cbv iota.
  change (x46 :: x4f :: x45 :: x25 :: x25 :: x0a :: rev (N_dec xs) ++ x0a :: rev (bs "startxref") ++ x0a :: rev pre)
    with (rev SR.KW_eof ++ x0a :: rev (N_dec xs) ++ x0a :: rev (bs "startxref") ++ x0a :: rev pre).
  rewrite strip_app. cbn [SR.obnd SR.ws1 SR.is_ws].
  assert (Hne : rev (N_dec xs) <> []).
  { intro E. apply (f_equal (@rev byte)) in E. rewrite rev_involutive in E. exact (N_dec_nonempty xs E). }
  assert (Hd : forallb is_dec_digit (rev (N_dec xs)) = true) by (apply forallb_rev, N_dec_digits).
  rewrite skip_sp_digits by assumption.
  rewrite (span_app SR.is_digit (rev (N_dec xs))); [|rewrite is_digit_eq; exact Hd | reflexivity].
  destruct (rev (N_dec xs)) as [|c0 t0] eqn:E; [contradiction|]. rewrite <- E.
  cbn [SR.obnd SR.ws1 SR.is_ws].
  change (rev (bs "startxref")) with [x66; x65; x72; x78; x74; x72; x61; x74; x73].
  cbn [app SR.skip_sp SR.is_ws].
  change (x66 :: x65 :: x72 :: x78 :: x74 :: x72 :: x61 :: x74 :: x73 :: x0a :: rev pre)
    with (rev SR.KW_startxref ++ x0a :: rev pre).
  rewrite strip_app. cbn [SR.obnd].
  rewrite rev_involutive, dec_val_eq, N_dec_val. reflexivity.
Qed.

(* ---------- T6: "id gen obj" ---------- *)
Lemma KW_obj_eq : SR.KW_obj = bs "obj". Proof. reflexivity. Qed.

Theorem save_objhdr_accepted : forall id g o rest,
  exists r, SR.p_objhdr (write_indirect_object id g o ++ rest) = Some (id, g, x0a :: r).
Proof.
  intros id g o rest. unfold write_indirect_object, SR.p_objhdr.
  rewrite <- !app_assoc. cbn [app].
  rewrite p_nat_N_dec by reflexivity. cbn [SR.obnd snd fst SR.ws1 SR.is_ws].
  rewrite <- !app_assoc.
  rewrite skip_sp_digits by (try apply N_dec_nonempty; apply N_dec_digits).
  change (bs " obj" ++ ?x) with (x20 :: bs "obj" ++ x).
  rewrite p_nat_N_dec by reflexivity. cbn [SR.obnd snd fst SR.ws1 SR.is_ws].
  change (bs "obj" ++ ?x) with (x6f :: x62 :: x6a :: x) at 1.
  cbn [SR.skip_sp SR.is_ws].
  match goal with |- context [SR.kw_tok SR.KW_obj (x6f :: x62 :: x6a :: ?t)] =>
    change (x6f :: x62 :: x6a :: t) with (SR.KW_obj ++ t) end.
  unfold SR.kw_tok. rewrite strip_app. cbn [app SR.tok_end].
  change (SR.is_regular x0a) with false. cbn [negb SR.obnd fst]. eexists. reflexivity.
Qed.

(* drop exactly a prefix *)
Lemma drop_app_len {A} (pre r : list A) : drop (length pre) (pre ++ r) = r.
Proof. induction pre as [|a pre IH]; cbn [length drop app]; [destruct r; reflexivity | exact IH]. Qed.

Lemma at_off_prefix (pre r : bytes) : SR.at_off (pre ++ r) (blen pre) = r.
Proof. unfold SR.at_off, blen. rewrite Nat2N.id. apply drop_app_len. Qed.

(* Every entry the writer records holds the exact offset of "id gen obj" with the same id and gen,
   in the file as a whole (both formats), as long as the body is shorter than 2^32 bytes (the
   writer stores offsets in a u32). *)
Theorem save_offsets_exact : forall xt d id off g,
  so_status (save xt d) = SaveOk ->
  blen (body_of d) <= u32_mod ->
  xget (xmap_of d) id = Some (XNormal off g) ->
  exists rest, SR.p_objhdr (SR.at_off (so_bytes (save xt d)) off) = Some (id, g, rest) /\
               off < SR.lenN (so_bytes (save xt d)).
Proof.
  intros xt d id off g Hok Hlen Hx.
  destruct (save_ok_shape xt d Hok) as [mid [Hb _]].
  destruct (offsets_sound d id off g Hx) as [o [pre [post [Hin [Hsk [Hbody Hoff]]]]]].
  assert (Hpre : blen pre < blen (body_of d)).
  { rewrite Hbody, !blen_app. unfold write_indirect_object. rewrite !blen_app.
    pose proof (N_dec_nonempty id) as Hne. destruct (N_dec id); [contradiction|]. unfold blen. cbn [length]. lia. }
  rewrite N.mod_small in Hoff by lia. subst off.
  rewrite Hb, Hbody, <- !app_assoc. rewrite at_off_prefix.
  destruct (save_objhdr_accepted id g o (post ++ mid ++ startxref_bytes (blen (pre ++ write_indirect_object id g o ++ post))))
    as [r Hr].
  exists (x0a :: r). split; [exact Hr|].
  unfold SR.lenN. fold (blen (pre ++ write_indirect_object id g o ++ post ++ mid ++
                               startxref_bytes (blen (pre ++ write_indirect_object id g o ++ post)))).
  rewrite !blen_app. unfold write_indirect_object. rewrite !blen_app.
  pose proof (N_dec_nonempty id) as Hne. destruct (N_dec id); [contradiction|]. unfold blen. cbn [length]. lia.
Qed.

(* and every object that is saved has such an entry *)
Theorem save_objects_all_listed : forall xt d id g o,
  so_status (save xt d) = SaveOk ->
  blen (body_of d) <= u32_mod ->
  NoDup (obj_numbers (d_objects d)) ->
  In ((id, g), o) (d_objects d) -> skipped o = false ->
  exists off rest, xget (xmap_of d) id = Some (XNormal off g) /\
                   SR.p_objhdr (SR.at_off (so_bytes (save xt d)) off) = Some (id, g, rest).
Proof.
  intros xt d id g o Hok Hlen Hnd Hin Hsk.
  destruct (offsets_complete d id g o Hnd Hin Hsk) as [pre [post [Hb Hx]]].
  destruct (save_offsets_exact xt d id _ g Hok Hlen Hx) as [rest [Hr _]].
  eauto.
Qed.

(* ---------- T7: startxref ---------- *)
(* the number at the end of the file is the length of the body, and that is where the
   cross-reference section starts: the keyword xref (table) or the header of object
   max_id + 1 generation 0 (stream) *)
Lemma KW_xref_eq : SR.KW_xref = bs "xref". Proof. reflexivity. Qed.

Theorem save_startxref_exact : forall xt d,
  so_status (save xt d) = SaveOk ->
  SR.find_tail (so_bytes (save xt d)) = Some (blen (body_of d)) /\
  match xt with
  | XTable => exists rest, SR.strip SR.KW_xref (SR.at_off (so_bytes (save xt d)) (blen (body_of d))) = Some rest
  | XStream => exists rest, SR.p_objhdr (SR.at_off (so_bytes (save xt d)) (blen (body_of d))) =
                            Some (d_max_id (raise_max_id d) + 1, 0, rest)
  end.
Proof.
  intros xt d Hok. destruct (save_ok_shape xt d Hok) as [mid [Hb Hmid]].
  split.
  - rewrite Hb, app_assoc. apply save_find_tail.
  - rewrite Hb, at_off_prefix. destruct xt.
    + subst mid. unfold write_xref. rewrite <- !app_assoc. rewrite KW_xref_eq, strip_app. eauto.
    + cbv zeta in Hmid. subst mid.
      destruct (save_objhdr_accepted (d_max_id (raise_max_id d) + 1) 0
                  (OStream (fst (fst (xstream_parts (raise_max_id d) (xmap_of d) (blen (body_of d) mod u32_mod))))
                           (snd (fst (xstream_parts (raise_max_id d) (xmap_of d) (blen (body_of d) mod u32_mod)))))
                  (startxref_bytes (blen (body_of d)))) as [r Hr].
      eexists. exact Hr.
Qed.

(* ---------- stream Length on the writer's output ---------- *)
Lemma take_n_app : forall (c r : bytes), SR.take_n (length c) (c ++ r) = Some (c, r).
Proof. induction c as [|b c IH]; intro r; cbn [length app SR.take_n]; [reflexivity|]. rewrite IH. reflexivity. Qed.

(* what follows the dictionary in the writer's rendering of an indirect stream object *)
Definition stream_tail (c rest : bytes) : bytes :=
  bs "stream" ++ x0a :: c ++ x0a :: bs "endstream" ++ x20 :: x0a :: bs "endobj" ++ x0a :: rest.

Lemma write_indirect_stream_shape : forall id g d c rest,
  write_indirect_object id g (OStream d c) ++ rest =
  N_dec id ++ x20 :: N_dec g ++ bs " obj" ++ x0a :: write_dictionary d ++ stream_tail c rest.
Proof.
  intros. unfold write_indirect_object, stream_tail, write_dictionary.
  change (need_separator (OStream d c)) with false. change (need_end_separator (OStream d c)) with true.
  cbn [sp_if write_object]. repeat (rewrite <- ?app_assoc; cbn [app]). reflexivity.
Qed.

(* If the strict tokenizer reads the stream dictionary back (object-level round trip, the
   hypothesis), then the strict reader takes exactly the saved content: Length bytes lie between
   "stream" LF and LF "endstream". *)
Theorem save_stream_length_exact : forall resolve id d c rest,
  SR.p_object (write_dictionary d ++ stream_tail c rest) = Some (ODict d, stream_tail c rest) ->
  SR.length_value resolve d = Some (blen c) ->
  SR.p_objbody resolve id (x0a :: write_dictionary d ++ stream_tail c rest) =
  SR.SOk (OStream d c, SR.skip_sp rest).
Proof.
  intros resolve id d c rest Hdict Hlen. unfold SR.p_objbody.
  assert (Hws : SR.skip_ws (x0a :: write_dictionary d ++ stream_tail c rest) false =
                write_dictionary d ++ stream_tail c rest).
  { unfold write_dictionary. cbn [write_object app SR.skip_ws SR.is_ws]. reflexivity. }
  rewrite Hws, Hdict. cbn [SR.of_opt SR.sbind].
  assert (Hst : SR.skip_ws (stream_tail c rest) false = stream_tail c rest) by reflexivity.
  rewrite Hst. unfold stream_tail at 1.
  change SR.KW_stream with (bs "stream"). rewrite strip_app.
  cbn [SR.of_opt SR.sbind]. change (byte_eqb x0a x0a) with true. cbv iota. cbn [SR.of_opt SR.sbind].
  rewrite Hlen. cbn [SR.of_opt SR.sbind]. unfold blen. rewrite Nat2N.id, take_n_app.
  cbn [SR.of_opt SR.sbind SR.p_eol]. change (byte_eqb x0a x0d) with false. change (byte_eqb x0a x0a) with true.
  cbv iota.
  unfold SR.kw_tok. change SR.KW_endstream with (bs "endstream"). rewrite strip_app.
  cbn [SR.tok_end]. change (SR.is_regular x20) with false. cbn [negb SR.of_opt SR.sbind].
  cbn [SR.skip_ws SR.is_ws]. change (byte_eqb x20 x25) with false.
  change (bs "endobj" ++ x0a :: rest) with (x65 :: x6e :: x64 :: x6f :: x62 :: x6a :: x0a :: rest).
  cbn [SR.skip_ws SR.is_ws]. change (byte_eqb x65 x25) with false. cbv iota.
  change (x65 :: x6e :: x64 :: x6f :: x62 :: x6a :: x0a :: rest) with (SR.KW_endobj ++ x0a :: rest).
  rewrite strip_app. cbn [SR.tok_end]. change (SR.is_regular x0a) with false.
  cbn [negb SR.of_opt SR.sbind SR.skip_sp SR.is_ws]. reflexivity.
Qed.

(* ---------- header and binary comment ---------- *)
Lemma span_spec : forall p (s a r : bytes), SR.span p s = (a, r) -> s = a ++ r /\ forallb p a = true.
Proof.
  intro p. induction s as [|c s IH]; intros a r H; cbn [SR.span] in H.
  - inversion H; subst. split; reflexivity.
  - destruct (p c) eqn:P.
    + destruct (SR.span p s) as [a' r'] eqn:E. inversion H; subst.
      destruct (IH _ _ eq_refl) as [-> F]. cbn. rewrite P, F. split; reflexivity.
    + inversion H; subst. split; reflexivity.
Qed.

Definition digit_or_dot_b (c : byte) : bool :=
  implb (is_dec_digit c || byte_eqb c x2e) (SR.not_eol c).
Lemma digit_or_dot_sweep : byte_forallb digit_or_dot_b = true.
Proof. vm_compute. reflexivity. Qed.
Definition high_not_eol_b (c : byte) : bool := implb (SR.is_high c) (SR.not_eol c).
Lemma high_not_eol_sweep : byte_forallb high_not_eol_b = true.
Proof. vm_compute. reflexivity. Qed.

Lemma forallb_impl_sweep (p q : byte -> bool) :
  byte_forallb (fun c => implb (p c) (q c)) = true ->
  forall l, forallb p l = true -> forallb q l = true.
Proof.
  intros H l. induction l as [|c l IH]; cbn [forallb]; [reflexivity|].
  intro K. apply andb_true_iff in K as [Kc Kl].
  pose proof (byte_forallb_spec _ H c) as Hc. cbv beta in Hc. rewrite Kc in Hc. cbn [implb] in Hc.
  rewrite Hc, (IH Kl). reflexivity.
Qed.

Lemma version_ok_not_eol v : SR.version_ok v = true -> forallb SR.not_eol v = true.
Proof.
  unfold SR.version_ok. destruct (SR.span SR.is_digit v) as [a r] eqn:E.
  destruct (span_spec _ _ _ _ E) as [-> Fa].
  destruct a as [|a0 a]; [discriminate|]. destruct r as [|dot r']; [discriminate|].
  intro H. apply andb_true_iff in H as [Hd Hr]. apply byte_eqb_eq in Hd. subst dot.
  destruct (SR.span SR.is_digit r') as [b r2] eqn:E2.
  destruct (span_spec _ _ _ _ E2) as [-> Fb].
  destruct b as [|b0 b]; [discriminate|]. destruct r2; [|discriminate]. rewrite app_nil_r.
  apply (forallb_impl_sweep (fun c => is_dec_digit c || byte_eqb c x2e) SR.not_eol digit_or_dot_sweep).
  rewrite forallb_app. cbn [forallb]. rewrite is_digit_eq in Fa, Fb.
  cbn [forallb] in Fa, Fb. apply andb_true_iff in Fa as [Fa0 Fa]. apply andb_true_iff in Fb as [Fb0 Fb].
  rewrite Fa0, Fb0. cbn [orb andb]. change (byte_eqb x2e x2e) with true. rewrite orb_true_r. cbn [andb].
  apply andb_true_iff. split.
  - clear -Fa. induction a as [|c a IH]; cbn [forallb] in *; [reflexivity|].
    apply andb_true_iff in Fa as [F1 F2]. rewrite F1, (IH F2). reflexivity.
  - clear -Fb. induction b as [|c b IH]; cbn [forallb] in *; [reflexivity|].
    apply andb_true_iff in Fb as [F1 F2]. rewrite F1, (IH F2). reflexivity.
Qed.

Lemma filter_all {A} (p : A -> bool) l : forallb p l = true -> filter p l = l.
Proof.
  induction l as [|c l IH]; cbn [forallb filter]; [reflexivity|].
  intro H. apply andb_true_iff in H as [H1 H2]. rewrite H1, (IH H2). reflexivity.
Qed.

(* the header line and the binary-mark line the writer emits are a valid header and binary
   comment for the strict reader, which recovers the version *)
Theorem save_header_accepted : forall d rest,
  SR.version_ok (d_version d) = true ->
  binary_mark_ok (d_binary_mark d) = true -> (4 <= length (d_binary_mark d))%nat ->
  SR.p_header (header_bytes d ++ mark_bytes d ++ rest) = SR.SOk (d_version d, SR.skip_ws rest false).
Proof.
  intros d rest Hv Hm Hl. unfold header_bytes, mark_bytes, SR.p_header.
  rewrite <- !app_assoc. change SR.KW_pdf with (bs "%PDF-"). rewrite strip_app.
  cbn [SR.of_opt SR.sbind].
  rewrite (span_app SR.not_eol (d_version d)); [|apply version_ok_not_eol; exact Hv | reflexivity].
  rewrite Hv. cbn [negb app SR.p_eol]. change (byte_eqb x0a x0d) with false. change (byte_eqb x0a x0a) with true.
  cbv iota. cbn [SR.of_opt SR.sbind]. rewrite byte_eqb_refl.
  assert (Hhigh : forallb SR.is_high (d_binary_mark d) = true) by exact Hm.
  rewrite <- app_assoc.
  rewrite (span_app SR.not_eol (d_binary_mark d));
    [| apply (forallb_impl_sweep SR.is_high SR.not_eol high_not_eol_sweep); exact Hhigh | reflexivity].
  rewrite (filter_all _ _ Hhigh). apply Nat.leb_le in Hl. rewrite Hl.
  cbn [app SR.p_eol]. change (byte_eqb x0a x0d) with false. change (byte_eqb x0a x0a) with true.
  cbv iota. cbn [SR.of_opt SR.sbind]. reflexivity.
Qed.
