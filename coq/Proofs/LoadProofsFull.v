(* LoadProofsFull.v -- property C01 in full: both cross-reference formats, the property's own domain
   ([savable]: max_id need not bound the object numbers, save raises it), the comparison [same_doc], and the
   second cycle.  The cycle theorems of LoadProofsTable / LoadProofsStream are about [save_core] on a document
   whose max_id is already raised and that holds no object the writer drops; [written d] is that document. *)
From LV Require Import Base.Bytes Base.Sx Model.Obj Model.Writer Model.Parser Model.Save Model.Xref Model.Loader
  Model.Utf Gen.Lex Gen.SaveFmt Proofs.LexProofs Proofs.RealProofs Proofs.ObjectRtProofs Proofs.SaveProofs
  Proofs.FilterProofsDict Spec.SaveSpec Proofs.LoadProofs Proofs.LoadProofsFile Proofs.LoadProofsXref
  Proofs.LoadProofsTable Proofs.LoadProofsAgain Proofs.LoadProofsStream
  Model.ObjStm Model.LoaderExt Model.LoaderEnc Proofs.LoaderExtProofs Proofs.LoaderEncProofs.

Local Open Scope N_scope.

(* ---------- the writer never sees the objects it drops ---------- *)
Definition kept (objs : objmap) : objmap := filter (fun io => negb (skipped (snd io))) objs.

Lemma write_objects_kept : forall objs pos x, write_objects pos (kept objs) x = write_objects pos objs x.
Proof.
  induction objs as [|[[id g] o] rest IH]; intros pos x; [reflexivity|].
  cbn [kept filter snd write_objects]. destruct (skipped o) eqn:E; cbn [negb].
  - apply IH.
  - cbn [write_objects]. rewrite E. fold (kept rest). rewrite IH. reflexivity.
Qed.

Lemma save_body_kept d : save_body (with_objects d (kept (d_objects d))) = save_body d.
Proof. unfold save_body. cbn [with_objects d_objects]. rewrite write_objects_kept. reflexivity. Qed.

Lemma save_core_kept xt d :
  so_bytes (save_core xt (with_objects d (kept (d_objects d)))) = so_bytes (save_core xt d) /\
  so_status (save_core xt (with_objects d (kept (d_objects d)))) = so_status (save_core xt d).
Proof.
  unfold save_core. rewrite save_body_kept. cbn [with_objects d_max_id d_binary_mark].
  destruct (u32_top <=? d_max_id d); [split; reflexivity|].
  destruct (negb (binary_mark_ok (d_binary_mark d))); [split; reflexivity|].
  destruct (save_body d) as [[body xs] x]. destruct xt; [split; reflexivity|].
  destruct (u32_top <=? d_max_id d + 1); [split; reflexivity|].
  change (xstream_parts (with_objects d (kept (d_objects d))) x (xs mod u32_mod)) with (xstream_parts d x (xs mod u32_mod)).
  destruct (xstream_parts d x (xs mod u32_mod)) as [[t c] x1]. split; reflexivity.
Qed.

Lemma save_written xt d : so_bytes (save xt d) = so_bytes (save_core xt (written d)).
Proof. unfold save, written. symmetry. apply (save_core_kept xt (raise_max_id d)). Qed.

Lemma kept_all : forall objs : objmap, Forall (fun io => skipped (snd io) = false) objs -> kept objs = objs.
Proof. induction 1 as [|io objs H _ IH]; [reflexivity|]. cbn [kept filter]. rewrite H. cbn [negb]. fold (kept objs). rewrite IH. reflexivity. Qed.

(* ---------- one cycle, either format ---------- *)
Theorem load_save_gen xt d :
  savable_core (written d) -> known_deep (written d) = false -> small_file xt d ->
  load (so_bytes (save xt d)) = LOk (reloaded xt d) (xtype_of xt).
Proof.
  intros S K Hs. unfold small_file in Hs. rewrite save_written in *. destruct xt; cbn [reloaded xtype_of].
  - apply load_save_table; assumption.
  - apply load_save_stream; assumption.
Qed.

(* ---------- the property's domain is inside the domain of the pipeline ---------- *)
Lemma savable_kept d : savable d -> kept (d_objects d) = d_objects d.
Proof.
  intro S. apply kept_all. pose proof (sd_objects d S) as Ho. eapply Forall_impl; [|exact Ho]. intros io [_ [_ H]]. exact H.
Qed.

Lemma written_savable d : savable d -> written d = raise_max_id d.
Proof. intro S. unfold written. rewrite savable_kept by exact S. reflexivity. Qed.

Lemma savable_written d : savable d -> savable_core (written d).
Proof.
  intro S. rewrite written_savable by exact S.
  constructor; cbn [raise_max_id with_trailer d_max_id d_binary_mark d_version d_objects d_trailer].
  - apply (sd_max_id d S).
  - apply (sd_mark d S).
  - apply (sd_version_eol d S).
  - apply (sd_version_utf8 d S).
  - apply (sd_numbers d S).
  - pose proof (sd_objects d S) as Ho. rewrite Forall_forall in *. intros io Hin. destruct (Ho io Hin) as [H2 [H3 H4]].
    split; [|split; [|split]]; try assumption.
    eapply N.le_trans; [apply (le_last_number (d_objects d) io 0 Hin)|]. apply N.le_max_r.
  - apply (sd_trailer d S).
  - apply (sd_no_prev d S).
  - apply (sd_no_encrypt d S).
Qed.

Lemma known_deep_written d : savable d -> known_deep (written d) = known_deep d.
Proof. intro S. rewrite written_savable by exact S. reflexivity. Qed.

(* ---------- the document reloaded from the stream format ---------- *)
Lemma xstream_of_shape_enc d : savable_core_enc d -> small_file_core XStream d ->
  exists secs len,
    fst (fst (xstream_of d)) =
      xs_trailer (d_trailer d) (Z.of_N (d_max_id d + 1 + 1)) (xstream_index secs) (Z.of_nat len) /\
    Forall (fun s : xsection => fst s + N.of_nat (length (snd s)) <= two32) secs /\
    (Z.of_nat len < 4294967296)%Z.
Proof.
  intros S Hsmall. pose proof (se_max_id d S) as Hm.
  pose proof (save_stream_ok_enc d S) as Hok.
  destruct (save_core_shape XStream d Hok) as [mid [Hbytes Hmid]]. cbv zeta in Hmid.
  unfold small_file_core in Hsmall. rewrite Hbytes in Hsmall.
  fold (xstream_of d) in Hmid. revert Hmid.
  unfold xstream_of. rewrite xstream_parts_eq. cbv zeta. cbn [fst snd]. intro Hmid.
  eexists. eexists. split; [reflexivity|]. split.
  - assert (Hall : Forall (fun s : xsection => fst s + N.of_nat (length (snd s)) <= two32 /\ Forall (fun _ => True) (snd s))
                     (stream_sections (Save.xinsert (xmap_of d) (d_max_id d + 1) (Save.XNormal (Save.blen (body_of d) mod u32_mod) 0)) (d_max_id d + 1))).
    { unfold stream_sections. apply sections_loop_all; [left; reflexivity | constructor | intros; exact I |].
      rewrite N2Nat.id. unfold two32, u32_mod in *. lia. }
    eapply Forall_impl; [|exact Hall]. intros s [H _]. exact H.
  - match goal with |- (Z.of_nat (length ?c) < _)%Z => assert (length c <= length mid)%nat end.
    { rewrite Hmid, wio_eq, write_stream_eq. repeat (rewrite app_length; cbn [length]). lia. }
    unfold Save.blen, u32_mod in Hsmall. rewrite !app_length in Hsmall. lia.
Qed.

Lemma xstream_of_shape d : savable_core d -> small_file_core XStream d ->
  exists secs len,
    fst (fst (xstream_of d)) =
      xs_trailer (d_trailer d) (Z.of_N (d_max_id d + 1 + 1)) (xstream_index secs) (Z.of_nat len) /\
    Forall (fun s : xsection => fst s + N.of_nat (length (snd s)) <= two32) secs /\
    (Z.of_nat len < 4294967296)%Z.
Proof. intro S. apply xstream_of_shape_enc, core_enc. exact S. Qed.

Definition six_keys : list bytes := [K_Type; Save.K_Size; Save.K_W; Save.K_Index; K_Length; K_Filter].

Lemma not_in_neq (k : bytes) l k' : ~ In k l -> In k' l -> bytes_eqb k k' = false.
Proof. intros H Hin. apply bytes_eqb_neq. intro E. subst k'. contradiction. Qed.

(* apart from the six keys write_cross_reference_stream / decode_xref_stream touch, the reloaded trailer is
   the normal form of the original one *)
Lemma reloaded_stream_trailer_get d k : dict_wf (d_trailer d) -> ~ In k six_keys ->
  dict_get (d_trailer (reloaded_stream d)) k = dict_get (norm_dict (d_trailer d)) k.
Proof.
  intros W Hk. unfold reloaded_stream, xstream_of. rewrite xstream_parts_eq. cbv zeta. cbn [fst snd d_trailer].
  match goal with |- dict_get (dict_swap_remove (dict_swap_remove (dict_swap_remove ?t _) _) _) _ = _ =>
    change (dict_get (sr3 t) k = dict_get (norm_dict (d_trailer d)) k) end.
  rewrite sr3_get by (apply norm_dict_wf, xs_trailer_wf; exact W).
  rewrite !dict_get_norm, xs_trailer_get by exact W.
  change Xref.K_Index with Save.K_Index. change Xref.K_W with Save.K_W.
  rewrite (not_in_neq k six_keys Save.K_Index Hk) by (cbn; tauto).
  rewrite (not_in_neq k six_keys Save.K_W Hk) by (cbn; tauto).
  rewrite (not_in_neq k six_keys K_Length Hk) by (cbn; tauto).
  rewrite (not_in_neq k six_keys K_Filter Hk) by (cbn; tauto).
  rewrite (not_in_neq k six_keys Save.K_Size Hk) by (cbn; tauto).
  rewrite (not_in_neq k six_keys K_Type Hk) by (cbn; tauto).
  reflexivity.
Qed.

Lemma xstream_obj_type d : dict_wf (d_trailer d) ->
  dict_get (norm_dict (fst (fst (xstream_of d)))) K_Type = Some (OName K_XRef).
Proof.
  intro W. unfold xstream_of. rewrite xstream_parts_eq. cbv zeta. cbn [fst].
  rewrite dict_get_norm, xs_trailer_get by exact W. reflexivity.
Qed.

Lemma xstream_obj_skipped d : dict_wf (d_trailer d) -> skipped (xstream_obj d) = true /\ is_xref_stream (xstream_obj d) = true.
Proof.
  intro W. pose proof (xstream_obj_type d W) as Ht. unfold xstream_obj. split.
  - unfold skipped, type_name, get_type. rewrite Ht. reflexivity.
  - unfold is_xref_stream, has_type. rewrite Ht. reflexivity.
Qed.

(* an object the writer keeps is not a cross-reference stream, before and after normalisation *)
Lemma not_skipped_not_xref o : skipped o = false -> is_xref_stream o = false /\ is_xref_stream (norm_obj o) = false.
Proof.
  intro Hs. assert (G : forall o', skipped o' = false -> is_xref_stream o' = false).
  { intros o' H. destruct o' as [| | | | | | | |d c|]; try reflexivity. unfold is_xref_stream, has_type.
    unfold skipped, type_name, get_type in H. destruct (dict_get d K_Type) as [v|]; [|reflexivity].
    destruct v; try reflexivity. unfold SKIP_TYPES in H. cbn [existsb] in H.
    apply orb_false_iff in H as [_ H]. apply orb_false_iff in H as [H _]. exact H. }
  split; [apply G; exact Hs | apply G; rewrite skipped_norm; exact Hs].
Qed.

Lemma user_objects_all : forall objs : objmap,
  Forall (fun io => is_xref_stream (snd io) = false) objs -> user_objects objs = objs.
Proof. induction 1 as [|io objs H _ IH]; [reflexivity|]. cbn [user_objects filter]. rewrite H. cbn [negb]. fold (user_objects objs). rewrite IH. reflexivity. Qed.

Lemma last_object_number_app (a b : objmap) :
  last_object_number (a ++ b) = fold_left (fun m (io : oid * obj) => N.max m (fst (fst io))) b (last_object_number a).
Proof. unfold last_object_number. apply fold_left_app. Qed.

(* the stream-format reload, as save sees it at the next cycle: the cross-reference stream object dropped *)
Definition restream (d : doc) : doc := with_objects (reloaded_stream d) (norm_objects (d_objects d)).

Lemma written_reloaded_stream_enc d : savable_core_enc d -> written (reloaded_stream d) = restream d.
Proof.
  intro S. pose proof (se_trailer d S) as Hw. inversion Hw as [| | | | | | |tr W _|]; subst.
  destruct (xstream_obj_skipped d W) as [Hsk _].
  assert (Hlast : last_number (d_objects d) <= d_max_id d).
  { unfold last_number. apply fold_max_le; [lia|]. pose proof (se_objects d S) as Ho.
    eapply Forall_impl; [|exact Ho]. intros io [H1 _]. exact H1. }
  unfold written, restream, with_objects, raise_max_id, with_trailer.
  cbn [reloaded_stream d_version d_binary_mark d_trailer d_objects d_max_id]. f_equal.
  - unfold kept. rewrite filter_app. cbn [filter snd]. rewrite Hsk. cbn [negb]. rewrite app_nil_r.
    apply kept_all. unfold norm_objects. apply Forall_forall. intros io' Hin. apply in_map_iff in Hin as [io [<- Hin]].
    cbn [snd]. rewrite skipped_norm. pose proof (se_objects d S) as Ho. rewrite Forall_forall in Ho. apply (Ho io Hin).
  - rewrite last_object_number_app. cbn [fold_left fst]. fold (last_number (norm_objects (d_objects d))).
    rewrite last_number_norm. lia.
Qed.

Lemma written_reloaded_stream d : savable_core d -> written (reloaded_stream d) = restream d.
Proof. intro S. apply written_reloaded_stream_enc, core_enc. exact S. Qed.

Lemma savable_restream_enc d :
  savable_core_enc d -> known_deep d = false -> small_file_core XStream d -> d_max_id d + 3 < u32_mod ->
  savable_core_enc (restream d) /\ known_deep (restream d) = false.
Proof.
  intros S K Hsmall Hfit.
  pose proof (se_trailer d S) as Hw. inversion Hw as [| | | | | | |tr W Hf|]; subst.
  destruct (xstream_of_shape_enc d S Hsmall) as [secs [len [Et [Hsecs Hlen]]]].
  pose proof (t6_wf d S secs len Hsecs Hlen) as Hwf6.
  pose proof (t6_nest d S K secs len Hsecs) as Hn6.
  rewrite <- Et in Hwf6, Hn6.
  set (t6 := fst (fst (xstream_of d))) in *.
  assert (Hnw : obj_wf (ODict (norm_dict t6))) by (apply (norm_obj_wf (ODict t6)); exact Hwf6).
  inversion Hnw as [| | | | | | |tn Wn Hfn|]; subst.
  assert (Etr : d_trailer (restream d) = sr3 (norm_dict t6)) by reflexivity.
  split.
  - constructor; cbn [restream with_objects reloaded_stream d_max_id d_binary_mark d_version d_objects].
    + lia.
    + apply (se_mark d S).
    + apply (se_version_eol d S).
    + apply (se_version_utf8 d S).
    + rewrite obj_numbers_norm. apply (se_numbers d S).
    + pose proof (se_objects d S) as Ho. unfold norm_objects. apply Forall_forall. intros io' Hin.
      apply in_map_iff in Hin as [io [<- Hin]]. rewrite Forall_forall in Ho. destruct (Ho io Hin) as [H1 [H2 [H3 H4]]].
      cbn [fst snd]. split; [eapply N.le_trans; [exact H1 | lia]|]. split; [exact H2|]. split; [apply top_wf_norm; exact H3 | rewrite skipped_norm; exact H4].
    + rewrite Etr. constructor; [apply sr3_wf; exact Wn | apply sr3_forall; assumption].
    + change (dict_has (d_trailer (reloaded_stream d)) Save.K_Prev = false).
      unfold dict_has. rewrite reloaded_stream_trailer_get by (try exact W; cbn; intuition discriminate).
      rewrite dict_get_norm. rewrite (dict_has_false_get _ _ (se_no_prev d S)). reflexivity.
  - unfold known_deep in *. apply orb_false_iff in K as [K1 K2]. apply orb_false_iff. split.
    + cbn [restream with_objects d_objects]. unfold norm_objects.
      apply not_true_is_false. intro E. apply existsb_exists in E as [io' [Hin E]].
      apply in_map_iff in Hin as [io [<- Hin]]. cbn [snd] in E. rewrite nest_norm in E.
      assert (existsb (fun io => (MAX_DEPTH <? nest (snd io))%nat) (d_objects d) = true)
        by (apply existsb_exists; exists io; split; assumption). congruence.
    + rewrite Etr. apply Nat.ltb_ge. apply Nat.ltb_ge in K2.
      assert (H2 : (2 <= MAX_DEPTH)%nat) by (pose proof (Nat.le_max_l 2 (nest (ODict (d_trailer d)))); lia).
      apply Nat.max_lub; [exact H2|].
      change (nest (OStream t6 [])) with (Datatypes.S (nest_dict t6)) in Hn6.
      change (nest (ODict (sr3 (norm_dict t6)))) with (Datatypes.S (nest_dict (sr3 (norm_dict t6)))).
      assert (nest_dict (sr3 (norm_dict t6)) <= nest_dict t6)%nat; [|lia].
      apply nest_dict_bound. apply sr3_forall; [exact Wn|]. apply nest_dict_bound.
      pose proof (nest_norm (ODict t6)) as En. change (Datatypes.S (nest_dict (norm_dict t6)) = Datatypes.S (nest_dict t6)) in En. lia.
Qed.

Lemma savable_restream d :
  savable_core d -> known_deep d = false -> small_file_core XStream d -> d_max_id d + 3 < u32_mod ->
  savable_core (restream d) /\ known_deep (restream d) = false.
Proof.
  intros S K Hsmall Hfit. destruct (savable_restream_enc d (core_enc d S) K Hsmall Hfit) as [S1 K1].
  split; [|exact K1]. apply core_of_enc; [exact S1|].
  pose proof (sv_trailer d S) as Hw. inversion Hw as [| | | | | | |tr W Hf|]; subst.
  change (dict_has (d_trailer (reloaded_stream d)) Save.K_Encrypt = false).
  unfold dict_has. rewrite reloaded_stream_trailer_get by (try exact W; cbn; intuition discriminate).
  rewrite dict_get_norm. rewrite (dict_has_false_get _ _ (sv_no_encrypt d S)). reflexivity.
Qed.

Lemma written_reloaded_table_enc d : savable_core_enc d -> written (reloaded_table d) = reloaded_table d.
Proof.
  intro S. unfold written, with_objects, raise_max_id, with_trailer, reloaded_table.
  cbn [d_version d_binary_mark d_trailer d_objects d_max_id]. f_equal.
  - apply kept_all. unfold norm_objects. apply Forall_forall. intros io' Hin. apply in_map_iff in Hin as [io [<- Hin]].
    cbn [snd]. rewrite skipped_norm. pose proof (se_objects d S) as Ho. rewrite Forall_forall in Ho. apply (Ho io Hin).
  - fold (last_number (norm_objects (d_objects d))). rewrite last_number_norm. apply N.max_id.
Qed.

Lemma written_reloaded_table d : savable_core d -> written (reloaded_table d) = reloaded_table d.
Proof. intro S. apply written_reloaded_table_enc, core_enc. exact S. Qed.

(* ---------- the comparison ---------- *)
Lemma user_objects_norm_kept (objs : objmap) :
  Forall (fun io => skipped (snd io) = false) objs ->
  user_objects objs = objs /\ user_objects (norm_objects objs) = norm_objects objs.
Proof.
  intro H. split; apply user_objects_all.
  - eapply Forall_impl; [|exact H]. intros io Hs. apply (not_skipped_not_xref _ Hs).
  - unfold norm_objects. apply Forall_forall. intros io' Hin. apply in_map_iff in Hin as [io [<- Hin]]. cbn [snd].
    rewrite Forall_forall in H. apply (not_skipped_not_xref _ (H io Hin)).
Qed.

Lemma core_not_skipped_enc d : savable_core_enc d -> Forall (fun io : oid * obj => skipped (snd io) = false) (d_objects d).
Proof. intro S. pose proof (se_objects d S) as Ho. eapply Forall_impl; [|exact Ho]. intros io [_ [_ [_ H]]]. exact H. Qed.

Lemma core_not_skipped d : savable_core d -> Forall (fun io : oid * obj => skipped (snd io) = false) (d_objects d).
Proof. intro S. apply core_not_skipped_enc, core_enc. exact S. Qed.

Lemma in_six_bookkeeping k : ~ In k bookkeeping -> ~ In k six_keys.
Proof. unfold bookkeeping, six_keys. cbn [In]. tauto. Qed.

Lemma same_doc_reloaded_table_enc d : savable_core_enc d -> same_doc d (reloaded_table d).
Proof.
  intro S. destruct (user_objects_norm_kept _ (core_not_skipped_enc d S)) as [U1 U2].
  split; [reflexivity|]. split.
  - cbn [reloaded_table d_objects]. rewrite U1, U2. reflexivity.
  - intros k Hk. cbn [reloaded_table d_trailer]. rewrite !dict_get_norm. unfold trailer_table.
    destruct (bytes_eqb k Save.K_Size) eqn:E.
    + apply bytes_eqb_eq in E. subst k. exfalso. apply Hk. right. left. reflexivity.
    + apply bytes_eqb_neq in E. rewrite dict_get_set_other by exact E. reflexivity.
Qed.

Lemma same_doc_reloaded_stream_enc d : savable_core_enc d -> same_doc d (reloaded_stream d).
Proof.
  intro S. destruct (user_objects_norm_kept _ (core_not_skipped_enc d S)) as [U1 U2].
  pose proof (se_trailer d S) as Hw. inversion Hw as [| | | | | | |tr W _|]; subst.
  destruct (xstream_obj_skipped d W) as [_ Hx].
  split; [reflexivity|]. split.
  - cbn [reloaded_stream d_objects]. unfold user_objects at 1. rewrite filter_app. cbn [filter snd]. rewrite Hx. cbn [negb].
    rewrite app_nil_r. fold (user_objects (norm_objects (d_objects d))). rewrite U1, U2. reflexivity.
  - intros k Hk. apply reloaded_stream_trailer_get; [exact W | apply in_six_bookkeeping; exact Hk].
Qed.

Lemma same_doc_reloaded_table d : savable_core d -> same_doc d (reloaded_table d).
Proof. intro S. apply same_doc_reloaded_table_enc, core_enc. exact S. Qed.
Lemma same_doc_reloaded_stream d : savable_core d -> same_doc d (reloaded_stream d).
Proof. intro S. apply same_doc_reloaded_stream_enc, core_enc. exact S. Qed.

(* the comparison looks at the first document only through version, user objects and trailer *)
Lemma same_doc_ext a a' b :
  d_version a = d_version a' -> user_objects (d_objects a) = user_objects (d_objects a') -> d_trailer a = d_trailer a' ->
  same_doc a' b -> same_doc a b.
Proof. intros E1 E2 E3 [H1 [H2 H3]]. unfold same_doc. rewrite E1, E2, E3. tauto. Qed.

Lemma norm_dict_idem t : obj_wf (ODict t) -> norm_dict (norm_dict t) = norm_dict t.
Proof. intro H. destruct (norm_obj_wf (ODict t) H) as [_ E]. cbn [norm_obj] in E. inversion E as [E']. exact E'. Qed.

Lemma same_doc_trans d a b :
  Forall (fun io : oid * obj => top_wf (snd io)) (user_objects (d_objects d)) -> obj_wf (ODict (d_trailer d)) ->
  same_doc d a -> same_doc a b -> same_doc d b.
Proof.
  intros Hw Ht [A1 [A2 A3]] [B1 [B2 B3]]. split; [congruence|]. split.
  - rewrite B2, A2. apply norm_objects_idem. exact Hw.
  - intros k Hk. rewrite (B3 k Hk). rewrite dict_get_norm. rewrite (A3 k Hk). rewrite <- dict_get_norm.
    rewrite norm_dict_idem by exact Ht. reflexivity.
Qed.

(* ---------- THE PROPERTY: both formats, two cycles ---------- *)
Theorem load_save_full xt d :
  savable d -> known_deep d = false -> small_file xt d -> cycles_fit xt d ->
  load (so_bytes (save xt d)) = LOk (reloaded xt d) (xtype_of xt) /\
  same_doc d (reloaded xt d) /\
  (small_file xt (reloaded xt d) ->
   load (so_bytes (save xt (reloaded xt d))) = LOk (reloaded xt (reloaded xt d)) (xtype_of xt) /\
   same_doc (reloaded xt d) (reloaded xt (reloaded xt d)) /\
   same_doc d (reloaded xt (reloaded xt d))).
Proof.
  intros S K Hs Hfit.
  pose proof (savable_written d S) as S0.
  assert (K0 : known_deep (written d) = false) by (rewrite known_deep_written; assumption).
  assert (Hs0 : small_file_core xt (written d)).
  { unfold small_file_core. rewrite <- save_written. exact Hs. }
  assert (L1 : load (so_bytes (save xt d)) = LOk (reloaded xt d) (xtype_of xt)) by (apply load_save_gen; assumption).
  assert (D1 : same_doc d (reloaded xt d)).
  { apply (same_doc_ext d (written d)); [reflexivity | rewrite written_savable by exact S; reflexivity | reflexivity |].
    destruct xt; [apply same_doc_reloaded_table | apply same_doc_reloaded_stream]; exact S0. }
  split; [exact L1|]. split; [exact D1|]. intro Hs1.
  assert (Hw : Forall (fun io : oid * obj => top_wf (snd io)) (user_objects (d_objects d))).
  { destruct (user_objects_norm_kept (d_objects d)) as [U _].
    - pose proof (sd_objects d S) as Ho. eapply Forall_impl; [|exact Ho]. intros io [_ [_ H]]. exact H.
    - rewrite U. pose proof (sd_objects d S) as Ho. eapply Forall_impl; [|exact Ho]. intros io [_ [H _]]. exact H. }
  assert (Hsecond : savable_core (written (reloaded xt d)) /\ known_deep (written (reloaded xt d)) = false /\
                    same_doc (reloaded xt d) (reloaded xt (reloaded xt d))).
  { destruct xt; cbn [reloaded] in *.
    - rewrite written_reloaded_table by exact S0.
      split; [apply savable_reloaded; exact S0|]. split; [apply known_deep_reloaded; exact K0|].
      apply same_doc_reloaded_table. apply savable_reloaded. exact S0.
    - rewrite written_reloaded_stream by exact S0.
      assert (Hm : d_max_id (written d) + 3 < u32_mod).
      { rewrite written_savable by exact S. exact Hfit. }
      destruct (savable_restream (written d) S0 K0 Hs0 Hm) as [S1 K1].
      split; [exact S1|]. split; [exact K1|].
      apply (same_doc_ext _ (restream (written d))); [reflexivity | | reflexivity | apply same_doc_reloaded_stream; exact S1].
      pose proof (sv_trailer _ S0) as Hwt. inversion Hwt as [| | | | | | |tr W _|]; subst.
      destruct (xstream_obj_skipped (written d) W) as [_ Hx].
      cbn [reloaded_stream restream with_objects d_objects]. unfold user_objects at 1. rewrite filter_app. cbn [filter snd].
      rewrite Hx. cbn [negb]. rewrite app_nil_r. reflexivity. }
  destruct Hsecond as [S1 [K1 D2]].
  split; [apply load_save_gen; assumption|]. split; [exact D2|].
  apply (same_doc_trans d (reloaded xt d)); [exact Hw | apply (sd_trailer d S) | exact D1 | exact D2].
Qed.

(* ==========================================================================================================
   Documents that may carry an Encrypt entry ([savable_enc] = [savable] without "no Encrypt"), read by
   Model/LoaderEnc.v's reader: the decrypt attempt [after] is handed EXACTLY the reloaded document (and the
   cross-reference table of the file, which holds Normal entries only); without an Encrypt entry the answer is the
   reloaded document, as for Loader.load.  Both formats, the property's comparison, the second cycle.
   ========================================================================================================== *)
Lemma savable_enc_of d : savable d -> savable_enc d.
Proof.
  intro S. constructor;
    [apply (sd_max_id d S) | apply (sd_mark d S) | apply (sd_version_eol d S) | apply (sd_version_utf8 d S)
    | apply (sd_numbers d S) | apply (sd_objects d S) | apply (sd_trailer d S) | apply (sd_no_prev d S)].
Qed.

Lemma savable_of_enc d : savable_enc d -> dict_has (d_trailer d) Save.K_Encrypt = false -> savable d.
Proof.
  intros S E. constructor;
    [apply (sn_max_id d S) | apply (sn_mark d S) | apply (sn_version_eol d S) | apply (sn_version_utf8 d S)
    | apply (sn_numbers d S) | apply (sn_objects d S) | apply (sn_trailer d S) | apply (sn_no_prev d S) | exact E].
Qed.

Lemma written_savable_enc d : savable_enc d -> written d = raise_max_id d.
Proof.
  intro S. unfold written. fold (kept (d_objects d)). rewrite kept_all; [reflexivity|].
  pose proof (sn_objects d S) as Ho. eapply Forall_impl; [|exact Ho]. intros io [_ [_ H]]. exact H.
Qed.

Lemma savable_written_enc d : savable_enc d -> savable_core_enc (written d).
Proof.
  intro S. rewrite written_savable_enc by exact S.
  constructor; cbn [raise_max_id with_trailer d_max_id d_binary_mark d_version d_objects d_trailer].
  - apply (sn_max_id d S).
  - apply (sn_mark d S).
  - apply (sn_version_eol d S).
  - apply (sn_version_utf8 d S).
  - apply (sn_numbers d S).
  - pose proof (sn_objects d S) as Ho. rewrite Forall_forall in *. intros io Hin. destruct (Ho io Hin) as [H2 [H3 H4]].
    split; [|split; [|split]]; try assumption.
    eapply N.le_trans; [apply (le_last_number (d_objects d) io 0 Hin)|]. apply N.le_max_r.
  - apply (sn_trailer d S).
  - apply (sn_no_prev d S).
Qed.

Lemma known_deep_written_enc d : savable_enc d -> known_deep (written d) = known_deep d.
Proof. intro S. rewrite written_savable_enc by exact S. reflexivity. Qed.

Lemma dict_has_option_map (t : dict) k (o : option obj) :
  dict_get t k = option_map norm_obj o -> dict_has t k = match o with Some _ => true | None => false end.
Proof. intro H. unfold dict_has. rewrite H. destruct o; reflexivity. Qed.

(* the trailer the reader ends up with has an Encrypt entry exactly when the document's trailer has one *)
Lemma has_encrypt_table d :
  dict_has (norm_dict (trailer_table d)) Loader.K_Encrypt = dict_has (d_trailer d) Save.K_Encrypt.
Proof.
  rewrite (dict_has_option_map _ _ (dict_get (d_trailer d) Save.K_Encrypt)).
  - unfold dict_has. reflexivity.
  - rewrite dict_get_norm. unfold trailer_table. change Loader.K_Encrypt with Save.K_Encrypt.
    rewrite dict_get_set_other by discriminate. reflexivity.
Qed.

Section EncCycle.
  Variable decompress : dict -> bytes -> option (dict * bytes).
  Variable can_decompress : dict -> bool.
  Variable R : Type.
  Variable ret : lres -> R.
  Variable after : Xref.xmap -> doc -> xtype -> R.

  Definition enc_answer (x : Save.xmap) (t : dict) (d' : doc) (xt : xref_type) : R :=
    if dict_has t Save.K_Encrypt then after (conv_map x) d' (xtype_of xt) else ret (LOk d' (xtype_of xt)).

  (* one cycle, either format, on the pipeline's domain *)
  Theorem load_save_gen_enc xt d :
    savable_core_enc (written d) -> known_deep (written d) = false -> small_file xt d ->
    exists x : Save.xmap, Forall normal_ok x /\
      load_encx decompress can_decompress R ret after (so_bytes (save xt d)) =
      enc_answer x (d_trailer d) (reloaded xt d) xt.
  Proof.
    intros S K Hs. unfold small_file in Hs. rewrite save_written in *. unfold enc_answer.
    change (d_trailer d) with (d_trailer (written d)).
    destruct xt; cbn [reloaded xtype_of].
    - destruct (front_save_table (written d) S K Hs) as [x [Hf [Hm [Hn Hr]]]]. exists x. split; [exact Hn|].
      rewrite (load_encx_of_front_any decompress can_decompress R ret after _ _ _ Hf Hr).
      cbn [f_trailer f_xref]. rewrite has_encrypt_table.
      assert (E : doc_of {| f_buf := so_bytes (save_core XTable (written d)); f_version := d_version (written d);
                            f_mark := d_binary_mark (written d); f_xref := table_xref x (d_max_id (written d) + 1);
                            f_trailer := norm_dict (trailer_table (written d)) |} (norm_objects (d_objects (written d)))
                  = reloaded_table (written d)).
      { unfold doc_of, reloaded_table. cbn [f_version f_mark f_trailer f_xref]. rewrite Hm. reflexivity. }
      rewrite E. reflexivity.
    - destruct (front_save_stream (written d) S K Hs) as [x1 [Hf [Hm [Hn [Hr Hk]]]]]. exists x1. split; [exact Hn|].
      rewrite (load_encx_of_front_any decompress can_decompress R ret after _ _ _ Hf Hr).
      cbn [f_trailer f_xref].
      assert (He : dict_has (d_trailer (reloaded_stream (written d))) Loader.K_Encrypt =
                   dict_has (d_trailer (written d)) Save.K_Encrypt).
      { rewrite (dict_has_option_map _ _ (dict_get (d_trailer (written d)) Save.K_Encrypt));
          [unfold dict_has; reflexivity|].
        rewrite Hk. reflexivity. }
      rewrite He.
      assert (E : doc_of {| f_buf := so_bytes (save_core XStream (written d)); f_version := d_version (written d);
                            f_mark := d_binary_mark (written d); f_xref := stream_xref x1 (d_max_id (written d) + 1 + 1);
                            f_trailer := d_trailer (reloaded_stream (written d)) |} (d_objects (reloaded_stream (written d)))
                  = reloaded_stream (written d)).
      { unfold doc_of. cbn [f_version f_mark f_trailer f_xref]. rewrite Hm. reflexivity. }
      rewrite E. reflexivity.
  Qed.

  (* THE PROPERTY on the wider domain: both formats, two cycles *)
  Theorem load_save_enc xt d :
    savable_enc d -> known_deep d = false -> small_file xt d -> cycles_fit xt d ->
    (exists x : Save.xmap, Forall normal_ok x /\
       load_encx decompress can_decompress R ret after (so_bytes (save xt d)) =
       enc_answer x (d_trailer d) (reloaded xt d) xt) /\
    same_doc d (reloaded xt d) /\
    (small_file xt (reloaded xt d) ->
     (exists x : Save.xmap, Forall normal_ok x /\
        load_encx decompress can_decompress R ret after (so_bytes (save xt (reloaded xt d))) =
        enc_answer x (d_trailer (reloaded xt d)) (reloaded xt (reloaded xt d)) xt) /\
     same_doc (reloaded xt d) (reloaded xt (reloaded xt d)) /\
     same_doc d (reloaded xt (reloaded xt d))).
  Proof.
    intros S K Hs Hfit.
    pose proof (savable_written_enc d S) as S0.
    assert (K0 : known_deep (written d) = false) by (rewrite known_deep_written_enc; assumption).
    assert (Hs0 : small_file_core xt (written d)).
    { unfold small_file_core. rewrite <- save_written. exact Hs. }
    assert (D1 : same_doc d (reloaded xt d)).
    { apply (same_doc_ext d (written d)); [reflexivity | rewrite written_savable_enc by exact S; reflexivity | reflexivity |].
      destruct xt; [apply same_doc_reloaded_table_enc | apply same_doc_reloaded_stream_enc]; exact S0. }
    split; [apply load_save_gen_enc; assumption|]. split; [exact D1|]. intro Hs1.
    assert (Hw : Forall (fun io : oid * obj => top_wf (snd io)) (user_objects (d_objects d))).
    { destruct (user_objects_norm_kept (d_objects d)) as [U _].
      - pose proof (sn_objects d S) as Ho. eapply Forall_impl; [|exact Ho]. intros io [_ [_ H]]. exact H.
      - rewrite U. pose proof (sn_objects d S) as Ho. eapply Forall_impl; [|exact Ho]. intros io [_ [H _]]. exact H. }
    assert (Hsecond : savable_core_enc (written (reloaded xt d)) /\ known_deep (written (reloaded xt d)) = false /\
                      same_doc (reloaded xt d) (reloaded xt (reloaded xt d))).
    { destruct xt; cbn [reloaded] in *.
      - rewrite written_reloaded_table_enc by exact S0.
        split; [apply savable_reloaded_enc; exact S0|]. split; [apply known_deep_reloaded; exact K0|].
        apply same_doc_reloaded_table_enc. apply savable_reloaded_enc. exact S0.
      - rewrite written_reloaded_stream_enc by exact S0.
        assert (Hm : d_max_id (written d) + 3 < u32_mod).
        { rewrite written_savable_enc by exact S. exact Hfit. }
        destruct (savable_restream_enc (written d) S0 K0 Hs0 Hm) as [S1 K1].
        split; [exact S1|]. split; [exact K1|].
        apply (same_doc_ext _ (restream (written d))); [reflexivity | | reflexivity | apply same_doc_reloaded_stream_enc; exact S1].
        pose proof (se_trailer _ S0) as Hwt. inversion Hwt as [| | | | | | |tr W _|]; subst.
        destruct (xstream_obj_skipped (written d) W) as [_ Hx].
        cbn [reloaded_stream restream with_objects d_objects]. unfold user_objects at 1. rewrite filter_app. cbn [filter snd].
        rewrite Hx. cbn [negb]. rewrite app_nil_r. reflexivity. }
    destruct Hsecond as [S1 [K1 D2]].
    split; [apply load_save_gen_enc; assumption|]. split; [exact D2|].
    apply (same_doc_trans d (reloaded xt d)); [exact Hw | apply (sn_trailer d S) | exact D1 | exact D2].
  Qed.
End EncCycle.
