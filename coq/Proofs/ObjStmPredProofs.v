(* ObjStmPredProofs.v -- C02: a PNG PREDICTOR ON AN OBJECT STREAM.  The payload of an object stream has no row structure
   of its own: the reference writer (Spec/RefWriter.v predict with natural width 0) chooses a row width (Columns x Colors x
   BitsPerComponent), fills the payload up with spaces to whole rows -- legal: white-space after the last object -- and
   filters row by row.  Decoding (Model/StreamFilt.v on the Gallina decoders) returns the padded payload, and
   ObjectStream::new reads the same members from it: the padded payload IS the payload of the same members with a longer
   white-space run after the last one (pad_last / pad_sts), so Proofs/ObjStmSpellProofs.v applies unchanged. *)
From LV Require Import Base.Bytes Base.Sx Model.Obj Model.Writer Model.Parser Model.Utf Model.ObjStm Gen.Lex Gen.Filters
  Model.A85 Model.Png Model.StreamFilt Spec.XrefSpec Spec.RefWriter Spec.StreamCodecSpec Spec.ZlibStoredSpec Spec.PngSpec
  Proofs.SpellingObjProofs Proofs.ObjStmProofs Proofs.ObjStmSpellProofs Proofs.LoadsFilterProofs Proofs.FilterProofsDict
  Proofs.ObjStmFilterProofs.
From LV Require Proofs.LoadsObjStmProofs.
From Coq Require Import Lia.
Local Open Scope N_scope.

(* ---------- the padded payload is a payload ---------- *)
Fixpoint pad_last (items : list ositem) (k : nat) : list ositem :=
  match items with
  | [] => []
  | it :: t =>
    match t with
    | [] => [{| oi_num := oi_num it; oi_ws1 := oi_ws1 it; oi_ws2 := oi_ws2 it; oi_text := oi_text it ++ repeat x20 k |}]
    | _ => it :: pad_last t k
    end
  end.

Lemma pad_last_nums : forall items k, map oi_num (pad_last items k) = map oi_num items.
Proof.
  induction items as [|it t IH]; intro k; [reflexivity|]. cbn [pad_last]. destruct t as [|it2 t2]; [reflexivity|].
  cbn [map]. f_equal. apply (IH k).
Qed.

Lemma pad_last_header : forall items k offs, os_header (pad_last items k) offs = os_header items offs.
Proof.
  induction items as [|it t IH]; intros k offs; [reflexivity|]. cbn [pad_last]. destruct t as [|it2 t2].
  - destruct offs; reflexivity.
  - destruct offs as [|o offs]; [reflexivity|]. cbn [os_header]. rewrite (IH k offs). reflexivity.
Qed.

Lemma pad_last_offsets : forall items k pos, os_offsets pos (pad_last items k) = os_offsets pos items.
Proof.
  induction items as [|it t IH]; intros k pos; [reflexivity|]. cbn [pad_last]. destruct t as [|it2 t2]; [reflexivity|].
  cbn [os_offsets]. f_equal. apply (IH k).
Qed.

Lemma pad_last_text : forall items k, items <> [] -> flat_map oi_text (pad_last items k) = flat_map oi_text items ++ repeat x20 k.
Proof.
  induction items as [|it t IH]; intros k H; [contradiction|]. cbn [pad_last]. destruct t as [|it2 t2].
  - cbn [flat_map oi_text]. rewrite !app_nil_r. reflexivity.
  - cbn [flat_map]. rewrite <- app_assoc. f_equal. apply IH. discriminate.
Qed.

Lemma pad_last_payload items k he : items <> [] ->
  os_payload (pad_last items k) he = (fst (os_payload items he), snd (os_payload items he) ++ repeat x20 k).
Proof.
  intro H. unfold os_payload. cbn [fst snd]. rewrite pad_last_offsets, pad_last_header, (pad_last_text items k H), <- !app_assoc. reflexivity.
Qed.

Lemma fold_pad_last (g : N -> obj) : forall items k acc,
  fold_left (fun m it => insert m (oi_num it, 0) (g (oi_num it))) (pad_last items k) acc =
  fold_left (fun m it => insert m (oi_num it, 0) (g (oi_num it))) items acc.
Proof.
  induction items as [|it t IH]; intros k acc; [reflexivity|]. cbn [pad_last]. destruct t as [|it2 t2]; [reflexivity|].
  cbn [fold_left]. apply (IH k).
Qed.

(* the same members, the white-space after the last one made longer by k spaces *)
Definition sts_head (sts : list (ostyle * list N * list N * list N)) :=
  match sts with [] => (YDefault, @nil N, @nil N, @nil N, @nil (ostyle * list N * list N * list N)) | (sy, wa, w1, w2) :: t => (sy, wa, w1, w2, t) end.

Fixpoint pad_sts (members : list N) (sts : list (ostyle * list N * list N * list N)) (k : nat)
  : list (ostyle * list N * list N * list N) :=
  match members with
  | [] => sts
  | m :: ms =>
    let '(sy, wa, w1, w2, t) := sts_head sts in
    match ms with
    | [] => (sy, (match wa with [] => [0] | _ => wa end) ++ repeat 0 k, w1, w2) :: t
    | _ => (sy, wa, w1, w2) :: pad_sts ms t k
    end
  end.

Lemma at_least_ws_pad wa k :
  at_least_ws ((match wa with [] => [0] | _ => wa end) ++ repeat 0 k) = at_least_ws wa ++ repeat x20 k.
Proof.
  assert (R : ws_bytes (repeat 0 k) = repeat x20 k).
  { unfold ws_bytes. induction k as [|k IH]; [reflexivity|]. cbn [repeat map]. rewrite IH. reflexivity. }
  destruct wa as [|w wa].
  - cbn [app at_least_ws ws_bytes map]. fold (ws_bytes (repeat 0 k)). rewrite R. reflexivity.
  - cbn [app at_least_ws]. unfold ws_bytes at 1. cbn [map]. rewrite map_app. fold (ws_bytes (repeat 0 k)). rewrite R. reflexivity.
Qed.

Lemma os_build_pad objs k : forall members sts first items,
  os_build objs members sts first = Some items ->
  os_build objs members (pad_sts members sts k) first = Some (pad_last items k).
Proof.
  induction members as [|m ms IH]; intros sts first items H.
  - cbn [os_build] in H. inversion H; subst. cbn [pad_sts]. destruct sts; reflexivity.
  - cbn [os_build] in H. fold (sts_head sts) in H.
    destruct (sts_head sts) as [[[[sy wa] w1] w2] t] eqn:Eh.
    destruct (find_obj objs m) as [[g o]|] eqn:Ef; [|discriminate H]. destruct g as [|gp]; [|discriminate H].
    destruct (os_build objs ms t false) as [rest|] eqn:Eb; [|discriminate H].
    destruct ms as [|m2 ms2].
    + cbn [os_build] in Eb. inversion Eb; subst rest. cbn [pad_sts]. fold (sts_head sts). rewrite Eh. cbn [os_build]. rewrite Ef.
      destruct o; try discriminate H; injection H as <-; cbn [pad_last oi_text oi_num oi_ws1 oi_ws2];
        rewrite at_least_ws_pad, app_assoc; reflexivity.
    + assert (Hr : rest <> []).
      { intro E. subst rest. pose proof (LoadsObjStmProofs.os_build_nums _ _ _ _ _ Eb) as K. discriminate K. }
      remember (m2 :: ms2) as ms' eqn:Ems.
      assert (Ep : pad_sts (m :: ms') sts k = (sy, wa, w1, w2) :: pad_sts ms' t k).
      { subst ms'. cbn [pad_sts]. fold (sts_head sts). rewrite Eh. reflexivity. }
      rewrite Ep. cbn [os_build]. rewrite Ef, (IH t false rest Eb).
      destruct o; try discriminate H; injection H as <-; destruct rest as [|r1 rest']; try contradiction; reflexivity.
Qed.

Lemma os_pairs_pad objs k : forall members sts, os_pairs objs members (pad_sts members sts k) = os_pairs objs members sts.
Proof.
  induction members as [|m ms IH]; intro sts; [reflexivity|]. cbn [os_pairs pad_sts]. fold (sts_head sts).
  destruct (sts_head sts) as [[[[sy wa] w1] w2] t] eqn:Eh.
  destruct ms as [|m2 ms2].
  - destruct (find_obj objs m) as [[g o]|]; reflexivity.
  - rewrite (IH t). destruct (find_obj objs m) as [[g o]|]; reflexivity.
Qed.

(* ---------- the predictor stage on data without a row width of its own ---------- *)
Definition row_of (p : pstyle) : nat :=
  (Nat.max 1 (N.to_nat (p_cols p)) * (S (N.to_nat (p_colors p mod 4)) * ((if p_bpc16 p then 16 else 8) / 8)))%nat.

Lemma pad_to_rows row data : (0 < row)%nat -> exists m, length (pad_to row data) = (m * row)%nat.
Proof.
  intro Hr. unfold pad_to. rewrite app_length, repeat_length.
  set (l := length data). pose proof (Nat.div_mod l row ltac:(lia)) as Hd. pose proof (Nat.mod_upper_bound l row ltac:(lia)) as Hm.
  destruct (Nat.eq_dec (l mod row) 0) as [E|E].
  - exists (l / row)%nat. rewrite E, Nat.sub_0_r, Nat.mod_same by lia. lia.
  - exists (S (l / row))%nat. rewrite Nat.mod_small by lia. lia.
Qed.

Lemma predict_decodes0 p data :
  data <> [] -> N.of_nat (row_of p) <= Png.USIZE_MAX ->
  exists cols colors bpc e1 e2 k, (k <= row_of p)%nat /\
    snd (predict p 0 data) = pparms (p_pred p mod 6) cols colors bpc e1 e2 /\
    decompress_predictor (fst (predict p 0 data)) (Some (pparms (p_pred p mod 6) cols colors bpc e1 e2)) = Ok (data ++ repeat x20 k).
Proof.
  intros Hne Hu. unfold predict. destruct data as [|b0 t0] eqn:Ed; [contradiction|]. rewrite <- Ed in *. clear Hne.
  change (N.to_nat 0) with O. unfold geometry.
  set (colors := S (N.to_nat (p_colors p mod 4))). set (bpc := if p_bpc16 p then 16%nat else 8%nat).
  set (c := Nat.max 1 (N.to_nat (p_cols p))).
  assert (Hcol : (1 <= colors <= 4)%nat).
  { unfold colors. pose proof (N.mod_lt (p_colors p) 4 ltac:(discriminate)). lia. }
  assert (Hb : (bpc = 8 \/ bpc = 16)%nat) by (unfold bpc; destruct (p_bpc16 p); auto).
  assert (Hbpp : (0 < colors * (bpc / 8))%nat) by (destruct Hb as [-> | ->]; [change (8/8)%nat with 1%nat|change (16/8)%nat with 2%nat]; lia).
  assert (Hc : (1 <= c)%nat) by (unfold c; lia).
  set (row := (c * (colors * (bpc / 8)))%nat).
  assert (Hrow : (0 < row)%nat) by (unfold row; nia).
  assert (Erow : row_of p = row) by reflexivity. rewrite Erow in Hu.
  cbv iota. set (pd := pad_to row data).
  destruct (pad_to_rows row data Hrow) as [m Hl]. fold pd in Hl.
  assert (Hm : (m <= length pd)%nat) by (rewrite Hl; nia).
  destruct (chunks_exact m row pd (length pd) Hrow Hl Hm) as [C1 [C2 C3]].
  assert (Hpr : p_pred p mod 6 < 6) by (apply N.mod_lt; discriminate).
  exists c, colors, bpc, (p_explicit p || negb (Nat.eqb colors 1)), (p_explicit p || negb (Nat.eqb bpc 8)),
         (Nat.modulo (row - Nat.modulo (length data) row) row).
  split; [rewrite Erow; apply Nat.lt_le_incl, Nat.mod_upper_bound; lia|].
  cbn [fst snd]. split; [reflexivity|].
  pose proof (pred_decodes (p_pred p mod 6) c colors bpc
                (p_explicit p || negb (Nat.eqb colors 1)) (p_explicit p || negb (Nat.eqb bpc 8))
                (cyc_types (length (chunks (length pd) row pd)) (p_types p) (p_types p)) (chunks (length pd) row pd)) as K.
  assert (Er : (colors * (bpc / 8) * c)%nat = row) by (unfold row; lia).
  rewrite Er in K. rewrite C1 in K. apply K; try assumption.
  - intro E. apply orb_false_iff in E as [_ E]. apply negb_false_iff, Nat.eqb_eq in E. exact E.
  - intro E. apply orb_false_iff in E as [_ E]. apply negb_false_iff, Nat.eqb_eq in E. exact E.
  - rewrite cyc_types_length. reflexivity.
  - apply cyc_types_valid.
Qed.

Definition pad_max (f : sfilter) : nat :=
  match f with SfFlate _ (Some p) | SfA85Flate _ (Some p) => row_of p | _ => O end.
Definition pred_row_ok (f : sfilter) : Prop :=
  match f with
  | SfFlate _ (Some p) | SfA85Flate _ (Some p) => N.of_nat (row_of p) <= Png.USIZE_MAX
  | _ => True
  end.

(* every chain of the reference writer on data without a row width: the data, possibly followed by spaces *)
Theorem chain_decodes0 f arr raw D :
  f <> SfNone -> raw <> [] -> pred_row_ok f ->
  dict_get D K_Filter = dict_get (snd (apply_filter f 0 arr raw)) K_Filter ->
  dict_get D K_DecodeParms = dict_get (snd (apply_filter f 0 arr raw)) K_DecodeParms ->
  exists k, (k <= pad_max f)%nat /\
            decompressed_content gallina_inflate gallina_lzw
              {| s_dict := D; s_content := fst (apply_filter f 0 arr raw) |} = Ok (raw ++ repeat x20 k).
Proof.
  intros Hne Hr Hu HF HP.
  destruct f as [| |blk [p|]|blk [p|]|u ws];
    try (exists O; split; [apply Nat.le_0_l|]; cbn [repeat]; rewrite app_nil_r; apply chain_decodes_nopred; [exact Hne|exact I|exact HF|exact HP]).
  - destruct (predict_decodes0 p raw Hr Hu) as [cols [colors [bpc [e1 [e2 [k [Hk [Es Ed]]]]]]]]. exists k. split; [exact Hk|].
    unfold decompressed_content. cbn [s_dict s_content]. cbn [apply_filter] in *.
    destruct (predict p 0 raw) as [pd parms] eqn:Ep. cbn [fst snd] in *. subst parms.
    unfold pparms in HF, HP. cbn [app] in HF, HP. cbn [fst snd] in HF, HP.
    rewrite (filters_one D arr N_Flate) by (rewrite HF; destruct arr; reflexivity).
    cbn [decode_loop]. rewrite stage_flate.
    assert (Hp : params_for D 0 = Some (pparms (p_pred p mod 6) cols colors bpc e1 e2)).
    { unfold params_for. change K_DecodeParms_ with K_DecodeParms. rewrite HP. destruct arr; reflexivity. }
    rewrite Hp, Ed. reflexivity.
  - destruct (predict_decodes0 p raw Hr Hu) as [cols [colors [bpc [e1 [e2 [k [Hk [Es Ed]]]]]]]]. exists k. split; [exact Hk|].
    unfold decompressed_content. cbn [s_dict s_content]. cbn [apply_filter] in *.
    destruct (predict p 0 raw) as [pd parms] eqn:Ep. cbn [fst snd] in *. subst parms.
    unfold pparms in HF, HP. cbn [app] in HF, HP. cbn [fst snd] in HF, HP.
    rewrite (filters_two D N_A85 N_Flate) by (rewrite HF; reflexivity).
    cbn [decode_loop]. rewrite stage_a85, stage_flate.
    assert (Hp : params_for D 1 = Some (pparms (p_pred p mod 6) cols colors bpc e1 e2)).
    { unfold params_for. change K_DecodeParms_ with K_DecodeParms. rewrite HP. reflexivity. }
    rewrite Hp, Ed. reflexivity.
Qed.

(* ---------- ObjectStream::new on the container, any filter chain incl. predictors ---------- *)
Section ContainerP.
  Variable objs : list (oid * obj).
  Variable s : ostm.
  Variable items : list ositem.
  Variable sts : list (nstyle * filler * ostyle * filler).
  Hypothesis Hb : os_build objs (os_members s) (os_items s) true = Some items.
  Hypothesis Hne : os_members s <> [].
  Hypothesis Hnd : NoDup (os_members s).
  Hypothesis Hm : Forall (fun m => m <= u32_max) (os_members s).
  Hypothesis Hok : Forall (fun oy => mem_ok (fst oy) (snd oy)) (os_pairs objs (os_members s) (os_items s)).
  Hypothesis Hlen : N.of_nat (length (flat_map oi_text items) + pad_max (os_filter s)) <= u32_max.
  Hypothesis Hrow : pred_row_ok (os_filter s).

  Lemma items_ne : items <> [].
  Proof.
    intro E. subst items. pose proof (LoadsObjStmProofs.os_build_nums _ _ _ _ _ Hb) as K. cbn [map] in K.
    apply Hne. symmetry. exact K.
  Qed.

  (* the members are read from the payload followed by any number of spaces up to the row width *)
  Lemma plain_members_pad d' k : (k <= pad_max (os_filter s))%nat ->
    dict_get d' K_First = Some (OInt (Z.of_N (firstv s items))) -> dict_get d' K_N = Some (OInt (Z.of_nat (length items))) ->
    objstm_plain d' (payload s items ++ repeat x20 k) = OsOk (members_val objs s items).
  Proof.
    intros Hk HF HN.
    pose proof (os_build_pad objs k _ _ _ _ Hb) as Hb'.
    pose proof (pad_last_payload items k (at_least_ws (os_hdr_end s)) items_ne) as Ep.
    assert (Hok' : Forall (fun oy => mem_ok (fst oy) (snd oy)) (os_pairs objs (os_members s) (pad_sts (os_members s) (os_items s) k)))
      by (rewrite os_pairs_pad; exact Hok).
    assert (Hlen' : N.of_nat (length (flat_map oi_text (pad_last items k))) <= u32_max).
    { rewrite (pad_last_text items k items_ne), app_length, repeat_length. lia. }
    assert (HF' : dict_get d' K_First = Some (OInt (Z.of_N (fst (os_payload (pad_last items k) (at_least_ws (os_hdr_end s))))))).
    { rewrite Ep. exact HF. }
    pose proof (objstm_any_spelling objs (os_members s) (pad_sts (os_members s) (os_items s) k) (os_hdr_end s) (pad_last items k) d' _
                  Hb' Hne Hnd Hm Hok' Hlen' HF' HN) as K.
    rewrite Ep in K. cbn [snd] in K. unfold payload. rewrite K. f_equal.
    rewrite os_pairs_pad. unfold members_val, val_of.
    apply (fold_pad_last (assoc_val (os_members s) (map (fun oy => denote (fst oy) (snd oy)) (os_pairs objs (os_members s) (os_items s))))).
  Qed.

  Lemma D_wf_any : os_filter s <> SfNone -> dict_wf (D s items sts).
  Proof.
    intro Hf. apply D_wf; unfold enc; destruct (os_filter s) as [| |blk [p|]|blk [p|]|u ws]; try (exfalso; apply Hf; reflexivity);
      cbn [apply_filter snd map fst];
      try (destruct (predict p 0 (payload s items)) as [pd parms]; destruct parms; cbn [map fst snd]);
      match goal with
      | |- NoDup _ => repeat (constructor; [cbn [In]; intuition discriminate|]); constructor
      | |- ~ In _ _ => cbn [In]; intuition discriminate
      end.
  Qed.

  Theorem objstm_new_ref_any :
    exists d' k, objstm_new decompress_ref (D s items sts) (fst (enc s items)) =
                 ((d', payload s items ++ repeat x20 k), OsOk (members_val objs s items)).
  Proof.
    unfold objstm_new.
    assert (Hcase : os_filter s = SfNone \/ os_filter s <> SfNone) by (destruct (os_filter s); [left; reflexivity|right; discriminate..]).
    destruct Hcase as [Ef|Hf].
    - (* no filter: Stream::decompress fails (no Filter entry), the stream stays as it is *)
      assert (Hn : dict_get (D s items sts) K_Filter = None).
      { rewrite dC_fent by (try discriminate; reflexivity). unfold enc. rewrite Ef. reflexivity. }
      assert (Hd : decompress_ref (D s items sts) (fst (enc s items)) = None).
      { unfold decompress_ref, StreamFilt.decompress, decompressed_content, filters. cbn [s_dict]. rewrite Hn. reflexivity. }
      assert (Ep : fst (enc s items) = payload s items) by (unfold enc; rewrite Ef; reflexivity).
      rewrite Hd. cbn [fst snd]. exists (D s items sts), O. cbn [repeat]. rewrite app_nil_r, Ep. f_equal.
      rewrite <- (app_nil_r (payload s items)). change (@nil byte) with (repeat x20 0).
      apply plain_members_pad; [apply Nat.le_0_l|apply dC_first|apply dC_n].
    - assert (Hpay : payload s items <> []).
      { unfold payload, os_payload. cbn [snd]. intro E. apply app_eq_nil in E as [E _]. apply app_eq_nil in E as [_ E].
        exact (at_least_ws_ne _ E). }
      destruct (chain_decodes0 (os_filter s) (os_array s) (payload s items) (D s items sts) Hf Hpay Hrow) as [k [Hk Hdec]];
        [apply dC_fent; try discriminate; reflexivity|apply dC_fent; try discriminate; reflexivity|].
      fold (enc s items) in Hdec.
      rewrite (decompress_ref_ok (D s items sts) (fst (enc s items)) _ Hdec). eexists. exists k. cbn [fst snd]. f_equal.
      pose proof (D_wf_any Hf) as W.
      apply plain_members_pad; [exact Hk| |];
        (rewrite dict_get_set_other by discriminate;
         rewrite dict_get_swap_remove_other; [|apply swap_remove_wf; exact W|discriminate];
         rewrite dict_get_swap_remove_other; [|exact W|discriminate]); [apply dC_first|apply dC_n].
  Qed.
End ContainerP.
