(* LoadsStreamProofs.v -- C02 rung 3 for the cross-reference STREAM format (no filter on the stream, no object streams):
   Model/Loader.load on the files of the reference writer (Spec/RefWriter.v) whose cross-reference information is a
   cross-reference stream with ANY field widths (W[0] = 0 and W[2] = 0 included, widened by the writer where too
   narrow), ANY Index partition (or Index left out when it is the default), the stream object in any spelling; the
   rest of the file as in Proofs/LoadsTableProofs.v (bytes before the header, object order, fillers, startxref block).
   Part 1: the frame for either format.  Part 2: the field widths.  Part 3: the assembly.  Part 4: the writer. *)
From LV Require Import Base.Bytes Base.Sx Model.Obj Model.Writer Model.Parser Model.Xref Model.Loader Model.Utf Gen.Lex
  Spec.XrefSpec Spec.RefWriter Proofs.LexProofs Proofs.LoadProofs Proofs.LoadProofsFile Proofs.XrefProofs
  Proofs.XrefTableProofs Proofs.ObjectRtProofs Proofs.SpellingProofs Proofs.SpellingObjProofs Proofs.SpellingFileProofs
  Proofs.LoadsFrameProofs Proofs.LoadsTableProofs Proofs.FilterProofsDict.
From LV Require Proofs.LoadProofsStream.
From LV Require Import Model.LoaderExt Proofs.LoaderExtProofs.
From LV Require Import Proofs.LoadsFilterProofs.
From LV Require Model.Png Spec.StreamCodecSpec Model.StreamFilt.
From Coq Require Import Lia.
Local Open Scope N_scope.

(* ======================================================================================================
   Part 1: Reader::read reduced to its pieces, whatever the format of the cross-reference section
   ====================================================================================================== *)
Theorem load_frame_at (junk F pre : bytes) version x0 t0 objs :
  pdf_offset (junk ++ F) = blen junk ->
  Loader.header F = Some version ->
  get_xref_start F = Some (blen pre) ->
  xref_and_trailer F (blen pre) = SOk (x0, t0) ->
  dict_get t0 K_Prev = None -> dict_has t0 K_Encrypt = false ->
  xref_max_id x0 < u32_max ->
  read_entries F (x_entries x0) [] = SOk objs ->
  load (junk ++ F) =
  LOk {| d_version := version; d_binary_mark := read_binary_mark F; d_trailer := dict_swap_remove t0 K_Prev;
         d_objects := objs; d_max_id := xref_max_id x0 |} (x_type x0).
Proof.
  intros H1 H2 H3 H4 H5 H6 H7 H8. unfold load. rewrite H1, from_app, H2, H3, H4.
  rewrite H5. cbn [prev_loop].
  assert (u32_max <=? xref_max_id x0 = false) as -> by (apply N.leb_gt; exact H7).
  assert (R : dict_swap_remove t0 K_Prev = t0) by (unfold dict_swap_remove, dict_has; rewrite H5; reflexivity).
  rewrite R, H6, H8. reflexivity.
Qed.


(* the same for c01's extended reader (Model/LoaderExt.v load_ext), for any Stream::decompress: the objects are those
   Model/Loader.read_entries reads (no object stream, no Length reference among them) *)
Theorem load_ext_frame_at dec can (junk F pre : bytes) version x0 t0 objs :
  pdf_offset (junk ++ F) = blen junk ->
  Loader.header F = Some version ->
  get_xref_start F = Some (blen pre) ->
  xref_and_trailer_x dec can F (blen pre) = SOk (x0, t0) ->
  dict_get t0 K_Prev = None -> dict_has t0 K_Encrypt = false ->
  xref_max_id x0 < u32_max ->
  read_entries F (x_entries x0) [] = SOk objs ->
  load_ext dec can (junk ++ F) =
  LOk {| d_version := version; d_binary_mark := read_binary_mark F; d_trailer := dict_swap_remove t0 K_Prev;
         d_objects := objs; d_max_id := xref_max_id x0 |} (x_type x0).
Proof.
  intros H1 H2 H3 H4 H5 H6 H7 H8. unfold load_ext. rewrite H1, from_app, H2, H3, H4.
  rewrite H5. cbn [prev_loop_x].
  assert (u32_max <=? xref_max_id x0 = false) as -> by (apply N.leb_gt; exact H7).
  assert (R : dict_swap_remove t0 K_Prev = t0) by (unfold dict_swap_remove, dict_has; rewrite H5; reflexivity).
  rewrite R, H6.
  pose proof (read_entries_x_agrees dec can F (x_entries x0) (x_entries x0) []
                {| r_objs := []; r_pos := []; r_ostm := []; r_zero := [] |} eq_refl) as A.
  assert (I0 : st_inv {| r_objs := []; r_pos := []; r_ostm := []; r_zero := [] |}).
  { split; [reflexivity|]. intros id p Hp. discriminate Hp. }
  specialize (A I0). rewrite H8 in A. destruct A as [st' [-> [Ho [Hs1 Hs2]]]].
  rewrite Hs1. unfold merge_object_streams. cbn [fold_left].
  rewrite zero_pass_id by exact Hs2. rewrite Ho. reflexivity.
Qed.

(* ======================================================================================================
   Part 2: the field widths the writer settles on
   ====================================================================================================== *)
Fixpoint fit_go (v : N) (k : nat) (w : nat) : nat :=
  match k with O => w | S k' => if v <? 256 ^ N.of_nat w then w else fit_go v k' (S w) end.
(* the writer's own formulation (a local fixpoint with [v] free) *)
Definition fitw (w : nat) (v : N) : nat :=
  (fix go (k : nat) (w : nat) : nat :=
     match k with O => w | S k' => if v <? 256 ^ N.of_nat w then w else go k' (S w) end) 8%nat w.
Lemma fit_local_eq v : forall k w,
  (fix go (k : nat) (w : nat) : nat :=
     match k with O => w | S k' => if v <? 256 ^ N.of_nat w then w else go k' (S w) end) k w = fit_go v k w.
Proof.
  induction k as [|k IH]; intro w; [reflexivity|].
  cbn [fit_go]. destruct (v <? 256 ^ N.of_nat w); [reflexivity|]. apply IH.
Qed.
Lemma fitw_eq w v : fitw w v = fit_go v 8%nat w.
Proof. exact (fit_local_eq v 8%nat w). Qed.

Lemma fit_go_ge v : forall k w, (w <= fit_go v k w)%nat.
Proof. induction k as [|k IH]; intro w; cbn [fit_go]; [lia|]. destruct (v <? _); [lia|]. specialize (IH (S w)). lia. Qed.

Lemma fit_go_fits v : forall k w, v < 256 ^ N.of_nat (w + k) -> v < 256 ^ N.of_nat (fit_go v k w).
Proof.
  induction k as [|k IH]; intros w H; cbn [fit_go].
  - rewrite Nat.add_0_r in H. exact H.
  - destruct (v <? 256 ^ N.of_nat w) eqn:E; [apply N.ltb_lt; exact E|]. apply IH.
    replace (S w + k)%nat with (w + S k)%nat by lia. exact H.
Qed.

Lemma fitw_ge w v : (w <= fitw w v)%nat. Proof. rewrite fitw_eq. apply fit_go_ge. Qed.

Lemma fitw_fits w v x : x <= v -> v < 256 ^ 8 -> fits (fitw w v) x.
Proof.
  intros Hx Hv. unfold fits. rewrite fitw_eq. apply N.le_lt_trans with (m := v); [exact Hx|]. apply fit_go_fits.
  apply N.lt_le_trans with (m := 256 ^ 8); [exact Hv|].
  change 8 with (N.of_nat 8). apply N.pow_le_mono_r; lia.
Qed.

Definition t_of (e : sentry) : N := fst (fst (entry_fields e)).
Definition a_of (e : sentry) : N := snd (fst (entry_fields e)).
Definition b_of (e : sentry) : N := snd (entry_fields e).
Definition needf (sel : sentry -> N) (ents : list sentry) : N := fold_left N.max (map sel ents) 0.

Lemma needf_ge sel ents e : In e ents -> sel e <= needf sel ents.
Proof. intro H. unfold needf. apply (max_num_ge (map sel ents)). apply in_map. exact H. Qed.

Lemma fold_max_lt : forall l a B, a < B -> (forall x, In x l -> x < B) -> fold_left N.max l a < B.
Proof.
  induction l as [|y l IH]; intros a B Ha H; [exact Ha|]. cbn [fold_left]. apply IH.
  - pose proof (H y (or_introl eq_refl)). lia.
  - intros x Hx. apply H. right. exact Hx.
Qed.

Lemma needf_lt sel ents B : 0 < B -> (forall e, In e ents -> sel e < B) -> needf sel ents < B.
Proof.
  intros HB H. unfold needf. apply fold_max_lt; [exact HB|]. intros x Hx. apply in_map_iff in Hx as [e [<- He]]. apply H. exact He.
Qed.

Definition W0 (w0 : nat) (ents : list sentry) : nat :=
  if forallb (fun e => t_of e =? 1) ents then w0 else fitw (Nat.max w0 1) (needf t_of ents).
Definition W1 (w1 : nat) (ents : list sentry) : nat := fitw w1 (needf a_of ents).
Definition W2 (w2 : nat) (ents : list sentry) : nat :=
  if forallb (fun e => b_of e =? 0) ents then w2 else fitw (Nat.max w2 1) (needf b_of ents).

Lemma pow256_gt1 n : 1 < 256 ^ N.of_nat (S n).
Proof.
  rewrite Nat2N.inj_succ, N.pow_succ_r by lia.
  assert (0 < 256 ^ N.of_nat n) by (apply N.neq_0_lt_0, N.pow_nonzero; lia). lia.
Qed.

Lemma t_of_le2 e : t_of e <= 2. Proof. destruct e; cbn; lia. Qed.

(* every entry can be written with the widths chosen *)
Lemma widths_ok w0 w1 w2 ents :
  (forall e, In e ents -> a_of e < two32 /\ b_of e < 65536) ->
  Forall (entry_ok (W0 w0 ents) (W1 w1 ents) (W2 w2 ents)) ents.
Proof.
  intro Hr. apply Forall_forall. intros e He. destruct (Hr e He) as [Ha Hb].
  assert (H8a : needf a_of ents < 256 ^ 8).
  { apply needf_lt; [reflexivity|]. intros e' He'. destruct (Hr e' He') as [K _]. unfold two32 in K.
    apply N.lt_trans with (m := 4294967296); [exact K|reflexivity]. }
  assert (H8b : needf b_of ents < 256 ^ 8).
  { apply needf_lt; [reflexivity|]. intros e' He'. destruct (Hr e' He') as [_ K].
    apply N.lt_trans with (m := 65536); [exact K|reflexivity]. }
  assert (H8t : needf t_of ents < 256 ^ 8).
  { apply needf_lt; [reflexivity|]. intros e' _. pose proof (t_of_le2 e'). apply N.le_lt_trans with (m := 2); [assumption|reflexivity]. }
  assert (G : (match W0 w0 ents with O => t_of e = 1 | _ => fits (W0 w0 ents) (t_of e) end) /\ fits (W1 w1 ents) (a_of e) /\
              (match W2 w2 ents with O => b_of e = 0 | _ => fits (W2 w2 ents) (b_of e) end)).
  { split; [|split].
    - unfold W0. destruct (forallb (fun e0 => t_of e0 =? 1) ents) eqn:Ef.
      + rewrite forallb_forall in Ef. specialize (Ef e He). apply N.eqb_eq in Ef.
        destruct w0 as [|n]; [exact Ef|]. unfold fits. rewrite Ef. apply pow256_gt1.
      + pose proof (fitw_ge (Nat.max w0 1) (needf t_of ents)) as Hge.
        destruct (fitw (Nat.max w0 1) (needf t_of ents)) as [|n] eqn:En; [lia|]. rewrite <- En.
        apply fitw_fits; [apply needf_ge; exact He|exact H8t].
    - unfold W1. apply fitw_fits; [apply needf_ge; exact He|exact H8a].
    - unfold W2. destruct (forallb (fun e0 => b_of e0 =? 0) ents) eqn:Ef.
      + rewrite forallb_forall in Ef. specialize (Ef e He). apply N.eqb_eq in Ef.
        destruct w2 as [|n]; [exact Ef|]. unfold fits. rewrite Ef. apply N.neq_0_lt_0, N.pow_nonzero. lia.
      + pose proof (fitw_ge (Nat.max w2 1) (needf b_of ents)) as Hge.
        destruct (fitw (Nat.max w2 1) (needf b_of ents)) as [|n] eqn:En; [lia|]. rewrite <- En.
        apply fitw_fits; [apply needf_ge; exact He|exact H8b]. }
  unfold entry_ok. unfold t_of, a_of, b_of in G. destruct (entry_fields e) as [[t a0] b0]. cbn [fst snd] in G. exact G.
Qed.

(* with a positive second field somewhere the entries occupy at least one byte *)
Lemma widths_pos w0 w1 w2 ents e : In e ents -> 0 < a_of e -> a_of e < two32 ->
  (forall e', In e' ents -> a_of e' < two32) -> (1 <= W0 w0 ents + W1 w1 ents + W2 w2 ents)%nat.
Proof.
  intros He Hpos Ha Hall.
  assert (H8a : needf a_of ents < 256 ^ 8).
  { apply needf_lt; [reflexivity|]. intros e' He'. pose proof (Hall e' He') as K. unfold two32 in K.
    apply N.lt_trans with (m := 4294967296); [exact K|reflexivity]. }
  pose proof (fitw_fits w1 (needf a_of ents) (a_of e) (needf_ge a_of ents e He) H8a) as Hf. fold (W1 w1 ents) in Hf.
  unfold fits in Hf. destruct (W1 w1 ents) as [|n]; [|lia]. cbn in Hf. lia.
Qed.

(* ======================================================================================================
   Part 3: what is read back without change -- integers and arrays of integers
   ====================================================================================================== *)
Fixpoint plain_ints (l : list obj) : Prop :=
  match l with [] => True | OInt _ :: l' => plain_ints l' | _ => False end.

Lemma denote_list_ints : forall l sts, plain_ints l -> denote_list l sts = l.
Proof.
  induction l as [|o l IH]; intros sts H; [reflexivity|]. destruct o; try contradiction.
  cbn [denote_list denote]. rewrite IH by exact H. reflexivity.
Qed.

Lemma dict_get_denote_arr : forall d sts k l,
  dict_get d k = Some (OArr l) -> plain_ints l -> dict_get (denote_dict d sts) k = Some (OArr l).
Proof.
  induction d as [|[k0 v] d IH]; intros sts k l H Hp; [discriminate H|].
  cbn [denote_dict dict_get] in *. destruct (bytes_eqb k0 k).
  - inversion H; subst. rewrite denote_arr, denote_list_ints by exact Hp. reflexivity.
  - apply IH; assumption.
Qed.

Lemma dict_get_denote_name : forall d sts k n,
  dict_get d k = Some (OName n) -> dict_get (denote_dict d sts) k = Some (OName n).
Proof.
  induction d as [|[k0 v] d IH]; intros sts k n H; [discriminate H|].
  cbn [denote_dict dict_get] in *. destruct (bytes_eqb k0 k).
  - inversion H; subst. reflexivity.
  - apply IH; assumption.
Qed.

Lemma index_array_ints secs : match index_array secs with OArr l => plain_ints l | _ => False end.
Proof. unfold index_array. induction secs as [|[f es] secs IH]; [exact I|]. cbn [flat_map app plain_ints fst snd]. exact IH. Qed.

Lemma NoDup_app_l {A} : forall (a b : list A), NoDup (a ++ b) -> NoDup a.
Proof.
  induction a as [|x a IH]; intros b H; [constructor|]. cbn [app] in H. inversion H as [|? ? Hn Hd]; subst.
  constructor; [intro K; apply Hn; apply in_or_app; left; exact K|apply (IH b Hd)].
Qed.

Lemma dict_get_denote_plain : forall d sts k v,
  dict_get d k = Some v -> (forall y, denote v y = v) -> dict_get (denote_dict d sts) k = Some v.
Proof.
  induction d as [|[k0 v0] d IH]; intros sts k v H Hp; [discriminate H|].
  cbn [denote_dict dict_get] in *. destruct (bytes_eqb k0 k).
  - inversion H; subst. rewrite Hp. reflexivity.
  - apply IH; assumption.
Qed.

Lemma enc_sections_length w0 w1 w2 : forall secs,
  length (enc_sections w0 w1 w2 secs) = (length (flat_map snd secs) * (w0 + w1 + w2))%nat.
Proof.
  unfold enc_sections. induction secs as [|[f es] secs IH]; [reflexivity|].
  cbn [flat_map snd]. rewrite !app_length, enc_rows_length, IH. lia.
Qed.

Lemma find_off_app : forall offs1 offs2 n,
  find_off (offs1 ++ offs2) n = match find_off offs1 n with Some r => Some r | None => find_off offs2 n end.
Proof.
  induction offs1 as [|[[i g] p] offs1 IH]; intros offs2 n; [reflexivity|]. cbn [app find_off].
  destruct (i =? n); [reflexivity|apply IH].
Qed.

Lemma find_off_none : forall tops pos n, ~ In n (map top_num tops) -> find_off (offs_of pos tops) n = None.
Proof.
  induction tops as [|t0 tops IH]; intros pos n H; [reflexivity|]. cbn [offs_of find_off].
  destruct (fst (fst (fst t0)) =? n) eqn:E.
  - exfalso. apply N.eqb_eq in E. apply H. left. exact E.
  - apply IH. intro K. apply H. right. exact K.
Qed.

(* ======================================================================================================
   Part 4: the assembly
   ====================================================================================================== *)
Definition K_XRefName := Eval cbv in bs "XRef".

Section StreamFile.
  Variable st : fstyle.
  Variable a : adoc.
  Variable x : xsstyle.
  Hypothesis Hos : s_ostms st = [].
  (* the filter entries of the cross-reference stream dictionary and the encoded data (both empty / the raw data when
     there is no filter) *)
  Variable fent : dict.
  Variable data : bytes.

  Definition xid : N := xs_id x.
  Definition numsS : list N := nums a ++ [xid].
  Definition sizeS : N := 1 + max_num numsS.
  Definition offsS : list (N * N * N) := offs st a ++ [(xid, 0, xpos st a)].
  Definition entryS : N -> sentry := entry_of offsS st.
  Definition usedS (n : N) : bool := is_used (entryS n).
  Definition secsS : list (N * N) := use_secs (xs_secs x) sizeS usedS.
  Definition xsecs : xsections := plain_secs entryS secsS.
  Definition ents : list sentry := flat_map snd xsecs.
  Definition w0' : nat := W0 (fst (fst (xs_w x))) ents.
  Definition w1' : nat := W1 (snd (fst (xs_w x))) ents.
  Definition w2' : nat := W2 (snd (xs_w x)) ents.
  Definition raw : bytes := enc_sections w0' w1' w2' xsecs.
  Definition idx_part : dict :=
    match secsS with
    | [(0, c)] => if xs_omit_index x && (c =? sizeS) then [] else [(bs "Index", index_array xsecs)]
    | _ => [(bs "Index", index_array xsecs)]
    end.
  (* the dictionary of the cross-reference stream for the data [data] with the filter entries [fent] *)
  Definition xd_of (fent : dict) (data : bytes) : dict :=
    [(bs "Type", OName (bs "XRef")); (RefWriter.K_Size, OInt (Z.of_N sizeS));
     (bs "W", OArr [OInt (Z.of_nat w0'); OInt (Z.of_nat w1'); OInt (Z.of_nat w2')])] ++
    idx_part ++ a_trailer a ++ fent ++ [(RefWriter.K_Length, OInt (Z.of_nat (length data)))].
  Definition xd : dict := xd_of fent data.
  Definition xobj_text (d : dict) (data : bytes) : bytes :=
    w_indirect xid 0 (OStream d data) (xs_istyle x) ++ gap_bytes (i_gap (xs_istyle x)).
  Definition FS : bytes := hdr st a ++ body_of (otops st a) ++ xobj_text xd data ++ startxref_text st (xpos st a).

  (* the domain *)
  Hypothesis Hnd : NoDup numsS.
  Hypothesis H0 : ~ In 0 numsS.
  Hypothesis Htops : Forall top_ok (tops st a).
  Hypothesis Hver : no_eolb (a_version a) = true /\ utf8_decode (a_version a) <> None.
  Hypothesis Hjunk : contains (bs "%PDF-") (s_junk st) = false.
  Hypothesis Hxd : spell_wf (ODict xd) (i_obj (xs_istyle x)) /\ (nest (ODict xd) <= MAX_DEPTH)%nat /\
                   dict_get (a_trailer a) K_Prev = None /\ dict_get (a_trailer a) K_Encrypt = None /\
                   dict_get (a_trailer a) K_Filter = None /\ dict_get (a_trailer a) Xref.K_Index = None.
  Hypothesis Hfent : forall k, k <> K_Filter -> k <> K_DecodeParms -> dict_get fent k = None.
  Hypothesis Hsmall : xpos st a <= u32_max /\ sizeS <= u32_max /\ 25 < xpos st a.
  Hypothesis Hsx : (9 + length (sx_mid (s_sx_eol1 st) (s_sx_sp1 st) (xpos st a) (s_sx_sp2 st) (s_sx_eol2 st)) <= 25)%nat.

  Lemma nd_nums : NoDup (nums a).
  Proof. unfold numsS in Hnd. apply (NoDup_app_l _ _ Hnd). Qed.

  Lemma xid_fresh : ~ In xid (nums a).
  Proof.
    unfold numsS in Hnd. intro K. apply NoDup_remove_2 in Hnd. apply Hnd. rewrite app_nil_r. exact K.
  Qed.

  Lemma xid_pos : 1 <= xid /\ xid <= max_num numsS.
  Proof.
    split.
    - assert (xid <> 0) by (intro E; apply H0; unfold numsS; apply in_or_app; right; left; exact E). lia.
    - apply max_num_ge. unfold numsS. apply in_or_app. right. left. reflexivity.
  Qed.

  Lemma otopS_ok tp : In tp (otops st a) -> top_ok tp /\ 1 <= top_num tp /\ top_num tp <= max_num numsS.
  Proof.
    intro H. apply otop_in in H. pose proof (proj1 (Forall_forall _ _) Htops tp H) as Hk. split; [exact Hk|].
    split.
    - destruct tp as [[[i g] o] y]. cbn in Hk. unfold top_num. cbn [fst]. tauto.
    - apply max_num_ge. unfold numsS. apply in_or_app. left. rewrite <- (tops_nums st a). apply in_map. exact H.
  Qed.

  Lemma otopS_unique tp tp' : In tp (otops st a) -> In tp' (otops st a) -> top_num tp = top_num tp' -> tp = tp'.
  Proof. apply otop_unique. exact nd_nums. Qed.

  (* an entry in use names an object of the file at the position where it is, or the cross-reference stream *)
  Lemma entryS_inuse n off g : entryS n = SInUse off g ->
    (exists pre tp post, otops st a = pre ++ tp :: post /\ fst (fst tp) = (n, g) /\
                         off = N.of_nat (length (hdr st a)) + N.of_nat (length (body_of pre))) \/
    (n = xid /\ g = 0 /\ off = xpos st a).
  Proof.
    unfold entryS, entry_of, offsS. destruct (n =? 0); [discriminate|]. rewrite find_off_app.
    destruct (find_off (offs st a) n) as [[g0 p0]|] eqn:Ef.
    - intro H. inversion H; subst. left. apply find_off_In in Ef. unfold offs in Ef.
      destruct (offs_of_In _ _ _ _ _ Ef) as [pre [o [y [post [E Ep]]]]]. exists pre, ((n, g), o, y), post. auto.
    - cbn [find_off]. destruct (xid =? n) eqn:Ex.
      + intro H. inversion H; subst. right. apply N.eqb_eq in Ex. auto.
      + rewrite Hos. cbn [find_comp]. discriminate.
  Qed.

  Lemma entryS_not_comp n c i : entryS n <> SComp c i.
  Proof.
    unfold entryS, entry_of, offsS. destruct (n =? 0); [discriminate|]. rewrite find_off_app.
    destruct (find_off (offs st a) n) as [[g0 p0]|]; [discriminate|]. cbn [find_off].
    destruct (xid =? n); [discriminate|]. rewrite Hos. cbn [find_comp]. discriminate.
  Qed.

  Lemma entryS_free n nx g : entryS n = SFree nx g -> nx = 0 /\ g <= 65535.
  Proof.
    unfold entryS, entry_of, offsS. destruct (n =? 0); [intro H; inversion H; subst; lia|]. rewrite find_off_app.
    destruct (find_off (offs st a) n) as [[g0 p0]|]; [discriminate|]. cbn [find_off].
    destruct (xid =? n); [discriminate|]. rewrite Hos. cbn [find_comp]. intro H. inversion H; subst. lia.
  Qed.

  Lemma entryS_xid : entryS xid = SInUse (xpos st a) 0.
  Proof.
    unfold entryS, entry_of, offsS. destruct xid_pos as [H1 _].
    replace (xid =? 0) with false by (symmetry; apply N.eqb_neq; lia). rewrite find_off_app.
    assert (Hn : ~ In xid (map top_num (otops st a))).
    { intro K. apply in_map_iff in K as [tp [E Hin]]. apply otop_in in Hin. apply xid_fresh.
      rewrite <- E, <- (tops_nums st a). apply in_map. exact Hin. }
    unfold offs. rewrite (find_off_none _ _ _ Hn).
    cbn [find_off]. rewrite N.eqb_refl. reflexivity.
  Qed.

  Lemma entryS_of_top tp : In tp (otops st a) -> exists off, entryS (top_num tp) = SInUse off (snd (fst (fst tp))).
  Proof.
    intro H. destruct (otopS_ok tp H) as [_ [H1 _]].
    destruct (find_off_exists (otops st a) (N.of_nat (length (hdr st a))) tp H) as [g [p Ef]].
    assert (En : entryS (top_num tp) = SInUse p g).
    { unfold entryS, entry_of, offsS. replace (top_num tp =? 0) with false by (symmetry; apply N.eqb_neq; lia).
      rewrite find_off_app. unfold offs. rewrite Ef. reflexivity. }
    destruct (entryS_inuse _ _ _ En) as [[pre [tp' [post [E [Ek _]]]]]|[Ex _]].
    - assert (tp' = tp).
      { apply otopS_unique; [rewrite E; apply in_or_app; right; left; reflexivity|exact H|]. unfold top_num. rewrite Ek. reflexivity. }
      subst tp'. exists p. rewrite Ek. cbn [snd]. exact En.
    - exfalso. apply xid_fresh. rewrite <- Ex, <- (tops_nums st a). apply in_map. apply otop_in. exact H.
  Qed.

  Lemma sizeS_ge : 1 <= sizeS. Proof. unfold sizeS. lia. Qed.
  Lemma secsS_good : secs_good secsS sizeS usedS. Proof. apply use_secs_good, sizeS_ge. Qed.

  Definition numbS := map (fun k => (k, entryS k)) (keys_of secsS).
  Lemma numberedS_eq : numbered xsecs = numbS. Proof. apply numbered_plain. Qed.
  Lemma numbS_keys_nodup : NoDup (map fst numbS).
  Proof.
    unfold numbS. rewrite map_map. cbn [fst]. rewrite map_id.
    destruct secsS_good as [H _]. apply (keys_increasing secsS 0 H).
  Qed.

  (* the entries listed *)
  Lemma ents_in e : In e ents -> exists k, In k (keys_of secsS) /\ e = entryS k.
  Proof.
    unfold ents, xsecs, plain_secs. rewrite flat_map_concat_map, map_map. cbn [snd]. rewrite <- flat_map_concat_map.
    intro H. apply in_flat_map in H as [[f c] [H1 H2]]. apply in_map_iff in H2 as [k [<- Hk]].
    exists k. split; [|reflexivity]. unfold keys_of. apply in_flat_map. exists (f, c). split; [exact H1|exact Hk].
  Qed.

  Lemma xid_key : In xid (keys_of secsS).
  Proof.
    apply keys_of_In. destruct secsS_good as [_ [Hc _]]. destruct xid_pos as [_ Hm]. apply Hc; [unfold sizeS; lia|].
    unfold usedS. rewrite entryS_xid. reflexivity.
  Qed.

  Lemma ents_xid : In (SInUse (xpos st a) 0) ents.
  Proof.
    unfold ents, xsecs, plain_secs. rewrite flat_map_concat_map, map_map. cbn [snd]. rewrite <- flat_map_concat_map.
    pose proof xid_key as K. unfold keys_of in K. apply in_flat_map in K as [[f c] [K1 K2]].
    apply in_flat_map. exists (f, c). split; [exact K1|]. rewrite <- entryS_xid. apply in_map. exact K2.
  Qed.

  Lemma entryS_range k : a_of (entryS k) < two32 /\ b_of (entryS k) < 65536 /\ entry_in_range (entryS k).
  Proof.
    destruct Hsmall as [Hx _].
    destruct (entryS k) as [nx g|off g|c i] eqn:E.
    - destruct (entryS_free _ _ _ E) as [-> Hg]. cbn. unfold two32. repeat split; lia.
    - cbn [a_of b_of entry_fields fst snd entry_in_range].
      destruct (entryS_inuse _ _ _ E) as [[pre [tp [post [Eo [Ek Ep]]]]]|[_ [-> ->]]].
      + assert (Hin : In tp (otops st a)) by (rewrite Eo; apply in_or_app; right; left; reflexivity).
        destruct (otopS_ok tp Hin) as [Hk _]. destruct tp as [[[i g0] o] y]. cbn [fst] in Ek. inversion Ek; subst.
        cbn in Hk. destruct Hk as [_ [Hg _]]. unfold u16_max in Hg. unfold u32_max, two32 in *.
        unfold xpos in Hx. rewrite Eo, body_of_app, app_length in Hx. repeat split; lia.
      + unfold u32_max, two32 in *. repeat split; lia.
    - exfalso. exact (entryS_not_comp _ _ _ E).
  Qed.

  Lemma widths_sum : (1 <= w0' + w1' + w2')%nat.
  Proof.
    unfold w0', w1', w2'. apply (widths_pos _ _ _ ents (SInUse (xpos st a) 0) ents_xid).
    - cbn [a_of entry_fields fst snd]. destruct Hsmall as [_ [_ H]]. lia.
    - cbn [a_of entry_fields fst snd]. destruct Hsmall as [H _]. unfold u32_max, two32 in *. lia.
    - intros e He. destruct (ents_in e He) as [k [_ ->]]. apply entryS_range.
  Qed.

  Lemma xsecs_ok : Forall (sec_ok w0' w1' w2') xsecs.
  Proof.
    assert (Hw : Forall (entry_ok w0' w1' w2') ents).
    { apply widths_ok. intros e He. destruct (ents_in e He) as [k [_ ->]]. destruct (entryS_range k) as [A [B _]]. auto. }
    rewrite Forall_forall in Hw.
    apply Forall_forall. intros [f es] Hin. unfold xsecs, plain_secs in Hin. apply in_map_iff in Hin as [[f0 c] [E Hfc]].
    cbn [fst snd] in E. inversion E; subst f es. clear E.
    assert (Hsub : forall e, In e (map entryS (range_N f0 (N.to_nat c))) -> In e ents).
    { intros e He. unfold ents, xsecs, plain_secs. rewrite flat_map_concat_map, map_map. cbn [snd]. rewrite <- flat_map_concat_map.
      apply in_flat_map. exists (f0, c). split; [exact Hfc|exact He]. }
    unfold sec_ok. cbn [fst snd]. split; [|split].
    - apply Forall_forall. intros e He. apply Hw, Hsub, He.
    - apply Forall_forall. intros e He. apply in_map_iff in He as [k [<- _]]. apply entryS_range.
    - rewrite map_length, range_N_length, N2Nat.id. destruct secsS_good as [_ [_ H]]. destruct (H _ _ Hfc) as [_ K].
      destruct Hsmall as [_ [Hs _]]. unfold u32_max, two32 in *. lia.
  Qed.

  (* ---------- the dictionary of the cross-reference stream, as written and as read back ---------- *)
  Definition ysts := dict_sts (i_obj (xs_istyle x)).
  Definition dd : dict := denote_dict xd ysts.
  Definition d1 : dict := dict_set dd K_Length (OInt (Z.of_nat (length data))).
  Definition x0S : xref := {| x_type := XTStream; x_entries := spec_map numbS; x_size := i64_as_u32 (Z.of_N sizeS) |}.

  Lemma xd_wf : dict_wf xd.
  Proof. destruct Hxd as [Hw _]. apply spell_wf_dict in Hw. exact (proj1 Hw). Qed.

  Lemma dd_wf : dict_wf dd.
  Proof. unfold dict_wf, keys, dd. rewrite denote_dict_keys. exact xd_wf. Qed.

  Lemma d1_wf : dict_wf d1. Proof. apply dict_set_wf, dd_wf. Qed.

  Lemma xd_get_length : dict_get xd K_Length = Some (OInt (Z.of_nat (length data))).
  Proof.
    apply (dict_get_In xd _ _ xd_wf). unfold xd, xd_of. apply in_or_app. right. apply in_or_app. right.
    apply in_or_app. right. apply in_or_app. right. left. reflexivity.
  Qed.

  Lemma xd_get_size : dict_get xd Xref.K_Size = Some (OInt (Z.of_N sizeS)). Proof. reflexivity. Qed.
  Lemma xd_get_w : dict_get xd Xref.K_W = Some (OArr [OInt (Z.of_nat w0'); OInt (Z.of_nat w1'); OInt (Z.of_nat w2')]).
  Proof. reflexivity. Qed.
  Lemma xd_get_type : dict_get xd K_Type = Some (OName (bs "XRef")). Proof. reflexivity. Qed.

  Lemma dict_get_cons_ne k0 (v : obj) (d : dict) k : bytes_eqb k0 k = false -> dict_get ((k0, v) :: d) k = dict_get d k.
  Proof. intro E. cbn [dict_get]. rewrite E. reflexivity. Qed.

  Lemma dict_get_app (d e : dict) k :
    dict_get (d ++ e) k = match dict_get d k with Some v => Some v | None => dict_get e k end.
  Proof. induction d as [|[k0 v0] d IH]; cbn [app dict_get]; [reflexivity|]. destruct (bytes_eqb k0 k); [reflexivity|exact IH]. Qed.

  Lemma idx_part_cases : idx_part = [(bs "Index", index_array xsecs)] \/ (idx_part = [] /\ secsS = [(0, sizeS)]).
  Proof.
    unfold idx_part. destruct secsS as [|[f c] l]; [left; reflexivity|]. destruct l as [|p l]; [|destruct f; left; reflexivity].
    destruct f as [|f]; [|left; reflexivity].
    destruct (xs_omit_index x && (c =? sizeS)) eqn:Eo; [|left; reflexivity].
    right. apply andb_true_iff in Eo as [_ Ec]. apply N.eqb_eq in Ec. subst c. split; reflexivity.
  Qed.

  (* a key that is none of Type Size W Index Length is looked up in the document's trailer *)
  Lemma xd_get_other k :
    bytes_eqb (bs "Type") k = false -> bytes_eqb RefWriter.K_Size k = false -> bytes_eqb (bs "W") k = false ->
    bytes_eqb (bs "Index") k = false -> bytes_eqb RefWriter.K_Length k = false -> dict_get fent k = None ->
    dict_get xd k = dict_get (a_trailer a) k.
  Proof.
    intros E1 E2 E3 E4 E5 Hfk. unfold xd, xd_of. cbn [app dict_get]. rewrite E1, E2, E3.
    rewrite !dict_get_app.
    assert (Hi : dict_get idx_part k = None).
    { destruct idx_part_cases as [->|[-> _]]; [cbn [dict_get]; rewrite E4; reflexivity|reflexivity]. }
    rewrite Hi. destruct (dict_get (a_trailer a) k); [reflexivity|]. rewrite Hfk. cbn [dict_get]. rewrite E5. reflexivity.
  Qed.

  Lemma d1_get k : k <> K_Length -> dict_get d1 k = dict_get dd k.
  Proof. intro H. unfold d1. apply dict_get_set_other. exact H. Qed.

  Lemma d1_none k : k <> K_Length -> dict_get xd k = None -> dict_get d1 k = None.
  Proof. intros H1 H2. rewrite (d1_get k H1). apply dict_get_denote_none. exact H2. Qed.

  (* ---------- the cross-reference section ---------- *)
  Lemma xobj_parse post :
    indirect_object (xobj_text xd data ++ post) None = IOk (xid, 0) (stream_new dd data).
  Proof.
    unfold xobj_text. rewrite <- app_assoc. destruct Hxd as [Hw [Hn _]].
    apply indirect_stream_any_spelling; [|unfold u16_max; lia|exact Hw|exact Hn|exact xd_get_length].
    destruct xid_pos as [_ Hm]. destruct Hsmall as [_ [Hs _]]. unfold sizeS in Hs. lia.
  Qed.

  Lemma xobj_not_table post : xref_and_trailer_table (xobj_text xd data ++ post) = XNoMatch.
  Proof.
    unfold xobj_text. rewrite <- app_assoc. destruct Hxd as [Hw _].
    rewrite (w_indirect_stream_text xid 0 xd data (xs_istyle x) _ Hw). unfold head_text. cbv zeta.
    rewrite <- ?app_assoc. unfold xref_and_trailer_table. rewrite LoadProofsStream.xref_table_number. reflexivity.
  Qed.

  Lemma FS_split : FS = (hdr st a ++ body_of (otops st a)) ++ xobj_text xd data ++ startxref_text st (xpos st a).
  Proof. unfold FS. rewrite <- app_assoc. reflexivity. Qed.

  Lemma blen_front : blen (hdr st a ++ body_of (otops st a)) = xpos st a.
  Proof. unfold blen, xpos. rewrite app_length. reflexivity. Qed.

  Lemma from_xpos : from (xpos st a) FS = xobj_text xd data ++ startxref_text st (xpos st a).
  Proof. rewrite FS_split, <- blen_front. apply from_app. Qed.

  (* ---------- the entries ---------- *)
  Definition ES (n : N) : option xentry := entry_meaning (entryS n).

  Lemma entries_funS n e : In (n, e) (x_entries x0S) -> ES n = Some e.
  Proof.
    intro H. cbn [x_entries x0S] in H. unfold spec_map in H.
    destruct (spec_map_sound _ _ _ _ H) as [[]|[se [K1 K2]]].
    unfold numbS in K1. apply in_map_iff in K1 as [k [Ek _]]. inversion Ek; subst. exact K2.
  Qed.

  Definition objfS (n g : N) : obj := if n =? xid then stream_new dd data else objf st a n g.

  Lemma xobj_no_objstm : no_objstm (stream_new dd data).
  Proof.
    unfold stream_new, no_objstm, has_type. fold d1. rewrite d1_get by discriminate.
    unfold dd. rewrite (dict_get_denote_name xd ysts K_Type _ xd_get_type). reflexivity.
  Qed.

  Lemma entries_readS : forall n off g, In (n, XNormal off g) (x_entries x0S) ->
    off <= blen FS /\ indirect_object (from off FS) None = IOk (n, g) (objfS n g) /\ no_objstm (objfS n g).
  Proof.
    intros n off g H. pose proof (entries_funS _ _ H) as En. unfold ES in En.
    destruct (entryS n) as [a0 b0|off' g'|c i] eqn:Ee; cbn [entry_meaning] in En; inversion En; subst off' g'.
    destruct (entryS_inuse _ _ _ Ee) as [[pre [tp [post [Eo [Ek Ep]]]]]|[-> [-> ->]]].
    - assert (Hin : In tp (otops st a)) by (rewrite Eo; apply in_or_app; right; left; reflexivity).
      destruct (otopS_ok tp Hin) as [Hk [H1 H2]].
      assert (Hn : top_num tp = n) by (unfold top_num; rewrite Ek; reflexivity).
      assert (Hg : snd (fst (fst tp)) = g) by (rewrite Ek; reflexivity).
      assert (Hi : fst (fst (fst tp)) <= u32_max).
      { fold (top_num tp). destruct Hsmall as [_ [Hs _]]. unfold sizeS in Hs. lia. }
      assert (Hne : (n =? xid) = false).
      { apply N.eqb_neq. intro K. apply xid_fresh. rewrite <- K, <- Hn, <- (tops_nums st a). apply in_map, otop_in, Hin. }
      unfold objfS. rewrite Hne. split.
      + subst off. unfold FS, blen. rewrite Eo, body_of_app, !app_length. lia.
      + subst off. unfold FS. rewrite Eo.
        replace (N.of_nat (length (hdr st a))) with (blen (hdr st a)) by reflexivity.
        rewrite from_at_offset.
        destruct (indirect_top tp (body_of post ++ xobj_text xd data ++ startxref_text st (xpos st a)) Hk Hi) as [P1 P2].
        rewrite <- Hn, <- Hg, (objf_top st a nd_nums tp Hin). rewrite P1. split; [|exact P2]. f_equal. clear. destruct tp as [[[? ?] ?] ?]. reflexivity.
    - unfold objfS. rewrite N.eqb_refl. split; [|split].
      + rewrite FS_split. unfold blen. rewrite app_length. pose proof blen_front as B. unfold blen in B. lia.
      + rewrite from_xpos. apply xobj_parse.
      + exact xobj_no_objstm.
  Qed.

  Lemma max_id_smallS : xref_max_id x0S < u32_max.
  Proof.
    unfold xref_max_id. apply N.le_lt_trans with (m := max_num numsS).
    - apply max_id_le; [lia|]. intros k v H. pose proof (entries_funS _ _ H) as En. unfold ES in En.
      destruct (entryS k) as [a0 b0|off g|c i] eqn:Ee; cbn [entry_meaning] in En; try discriminate En.
      + destruct (entryS_inuse _ _ _ Ee) as [[pre [tp [post [Eo [Ek _]]]]]|[-> _]].
        * assert (Hin : In tp (otops st a)) by (rewrite Eo; apply in_or_app; right; left; reflexivity).
          destruct (otopS_ok tp Hin) as [_ [_ H2]]. unfold top_num in H2. rewrite Ek in H2. exact H2.
        * apply xid_pos.
      + exfalso. exact (entryS_not_comp _ _ _ Ee).
    - destruct Hsmall as [_ [Hs _]]. unfold sizeS in Hs. lia.
  Qed.


  (* ---------- what is independent of the loader: the frame facts and the objects read ---------- *)
  Definition objsS : objmap := fold_left (ins objfS) (x_entries x0S) [].

  Lemma objs_read : read_entries FS (x_entries x0S) [] = SOk objsS.
  Proof. apply read_entries_all. exact entries_readS. Qed.

  Lemma frame_facts :
    pdf_offset (s_junk st ++ FS) = blen (s_junk st) /\ Loader.header FS = Some (a_version a) /\
    get_xref_start FS = Some (blen (hdr st a ++ body_of (otops st a))).
  Proof.
    assert (Hhdr : exists rest, FS = bs "%PDF-" ++ a_version a ++ eol_bytes (s_hdr_eol st) ++ rest).
    { unfold FS, hdr, RefWriter.header. rewrite <- !app_assoc. eexists. reflexivity. }
    destruct Hhdr as [rest Er]. destruct Hsmall as [Hx [Hs H25]].
    split; [rewrite Er; apply pdf_offset_junk; exact Hjunk|].
    split; [rewrite Er; apply header_any_eol; apply Hver|].
    rewrite FS_split, blen_front, app_assoc, startxref_text_block.
    apply get_xref_start_styled; [|unfold blen in *; rewrite !app_length in *; pose proof blen_front as B; unfold blen in B; rewrite app_length in B; lia
                                  |unfold u32_max in Hx; lia|exact Hsx].
    unfold blen. rewrite !app_length. pose proof blen_front as B. unfold blen in B. rewrite app_length in B. lia.
  Qed.

  Lemma objs_lookup :
    (forall tp, In tp (tops st a) -> lookup objsS (fst (fst tp)) = Some (loaded_top tp)) /\
    lookup objsS (xid, 0) = Some (stream_new dd data) /\
    (forall id o, lookup objsS id = Some o -> (exists tp, In tp (tops st a) /\ fst (fst tp) = id) \/ id = (xid, 0)).
  Proof.
    assert (Hlk : forall id, lookup objsS id = if hit ES (x_entries x0S) id then Some (objfS (fst id) (snd id)) else None).
    { intro id. unfold objsS. rewrite (lookup_fold_ins objfS ES _ [] id entries_funS). reflexivity. }
    assert (Hkey : forall k off g, In k (keys_of secsS) -> entryS k = SInUse off g ->
                    hit ES (x_entries x0S) (k, g) = true).
    { intros k off g Hk Ee.
      assert (Hxg : xget (x_entries x0S) k = Some (XNormal off g)).
      { cbn [x_entries x0S]. rewrite (xget_spec_map numbS k (entryS k) numbS_keys_nodup).
        - rewrite Ee. reflexivity.
        - unfold numbS. apply in_map_iff. exists k. split; [reflexivity|exact Hk]. }
      apply xget_In in Hxg. unfold hit. cbn [fst snd].
      rewrite (xget_some_key _ _ _ Hxg). unfold ES. rewrite Ee. cbn [entry_meaning andb]. apply N.eqb_refl. }
    split; [|split].
    + intros tp Hin. apply otop_in in Hin. rewrite Hlk.
      destruct (entryS_of_top tp Hin) as [off Ee]. destruct (otopS_ok tp Hin) as [_ [H1 H2]].
      assert (Hk : In (top_num tp) (keys_of secsS)).
      { apply keys_of_In. destruct secsS_good as [_ [Hc _]]. apply Hc; [unfold sizeS; lia|].
        unfold usedS. rewrite Ee. reflexivity. }
      replace (fst (fst tp)) with (top_num tp, snd (fst (fst tp))) by (destruct tp as [[[? ?] ?] ?]; reflexivity).
      rewrite (Hkey _ _ _ Hk Ee). cbn [fst snd]. unfold objfS.
      replace (top_num tp =? xid) with false.
      2:{ symmetry. apply N.eqb_neq. intro K. apply xid_fresh. rewrite <- K, <- (tops_nums st a). apply in_map, otop_in, Hin. }
      rewrite (objf_top st a nd_nums tp Hin). reflexivity.
    + rewrite Hlk, (Hkey _ _ _ xid_key entryS_xid). cbn [fst snd]. unfold objfS. rewrite N.eqb_refl. reflexivity.
    + intros id o Hl. rewrite Hlk in Hl. destruct (hit ES (x_entries x0S) id) eqn:Eh; [|discriminate Hl].
      unfold hit in Eh. apply andb_true_iff in Eh as [Eh1 Eh2].
      unfold ES in Eh2. destruct (entryS (fst id)) as [a0 b0|off g|c i] eqn:Ee; cbn [entry_meaning] in Eh2; try discriminate Eh2.
      apply N.eqb_eq in Eh2.
      destruct (entryS_inuse _ _ _ Ee) as [[pre [tp [post [Eo [Ek _]]]]]|[Ex [Eg _]]].
      * left. exists tp. split; [apply otop_in; rewrite Eo; apply in_or_app; right; left; reflexivity|].
        rewrite Ek. destruct id; cbn [fst snd] in *. subst. reflexivity.
      * right. destruct id; cbn [fst snd] in *. subst. reflexivity.
  Qed.

  (* the decoding of the section from the dictionary [dx] the decoder sees (d1 itself, or what Stream::decompress
     leaves of it) and the raw data: needs Size, W, Index as written *)
  Lemma decode_from (dx : dict) :
    dict_get dx Xref.K_Size = Some (OInt (Z.of_N sizeS)) ->
    dict_get dx Xref.K_W = Some (OArr [OInt (Z.of_nat w0'); OInt (Z.of_nat w1'); OInt (Z.of_nat w2')]) ->
    dict_get dx Xref.K_Index = dict_get d1 Xref.K_Index ->
    decode_xref_plain dx raw = XOk (x0S, LoadProofsStream.sr3 dx).
  Proof.
    intros HS HW HI.
    unfold x0S, LoadProofsStream.sr3. rewrite <- numberedS_eq.
    pose proof idx_part_cases as Hidx.
    destruct Hidx as [Hi|[Hi Hsec]].
    - apply xref_stream_any_W_Index; [exact widths_sum|exact xsecs_ok|exact HS|exact HW|].
      rewrite HI. rewrite d1_get by discriminate.
      pose proof (index_array_ints xsecs) as Hp. destruct (index_array xsecs) as [| | | | | |l| | |] eqn:Ei; try contradiction.
      apply dict_get_denote_arr; [|exact Hp].
      apply (dict_get_In xd _ _ xd_wf). unfold xd, xd_of. rewrite Hi.
      apply in_or_app. right. apply in_or_app. left. left. reflexivity.
    - assert (Ex : xsecs = [(0, map entryS (range_N 0 (N.to_nat sizeS)))]).
      { unfold xsecs, plain_secs. rewrite Hsec. reflexivity. }
      assert (El : Z.of_nat (length (map entryS (range_N 0 (N.to_nat sizeS)))) = Z.of_N sizeS).
      { rewrite map_length, range_N_length. apply N_nat_Z. }
      pose proof xsecs_ok as Hok. unfold raw. rewrite Ex in *. inversion Hok as [|? ? Hs0 _]; subst.
      rewrite <- El. rewrite <- El in HS.
      apply xref_stream_default_Index; [exact widths_sum|exact Hs0|exact HS|exact HW|].
      rewrite HI. apply d1_none; [discriminate|].
      unfold xd, xd_of. rewrite Hi. cbn [app].
      rewrite !dict_get_cons_ne by reflexivity. rewrite !dict_get_app.
      replace (dict_get (a_trailer a) Xref.K_Index) with (@None obj) by (symmetry; apply Hxd).
      rewrite Hfent by discriminate. reflexivity.
  Qed.

  Lemma d1_size : dict_get d1 Xref.K_Size = Some (OInt (Z.of_N sizeS)).
  Proof. rewrite d1_get by discriminate. apply dict_get_denote. exact xd_get_size. Qed.
  Lemma d1_w : dict_get d1 Xref.K_W = Some (OArr [OInt (Z.of_nat w0'); OInt (Z.of_nat w1'); OInt (Z.of_nat w2')]).
  Proof. rewrite d1_get by discriminate. apply dict_get_denote_arr; [exact xd_get_w|exact I]. Qed.

  (* a key of the document's trailer domain that the trailer does not hold is absent from the stream dictionary *)
  Lemma d1_absent k :
    bytes_eqb (bs "Type") k = false -> bytes_eqb RefWriter.K_Size k = false -> bytes_eqb (bs "W") k = false ->
    bytes_eqb (bs "Index") k = false -> bytes_eqb RefWriter.K_Length k = false ->
    k <> K_Filter -> k <> K_DecodeParms -> dict_get (a_trailer a) k = None -> dict_get d1 k = None.
  Proof.
    intros E1 E2 E3 E4 E5 N1 N2 Ht. apply d1_none.
    - intro K. subst k. rewrite bytes_eqb_refl in E5. discriminate E5.
    - rewrite xd_get_other by (try assumption; apply Hfent; assumption). exact Ht.
  Qed.

  (* ======== ending A: no filter, Model/Loader.load ======== *)
  Section Plain.
    Hypothesis Hpf : fent = [].
    Hypothesis Hpd : data = raw.
    Definition t0S : dict := LoadProofsStream.sr3 d1.

    Lemma xr_parseS : xref_and_trailer FS (xpos st a) = SOk (x0S, t0S).
    Proof.
      unfold xref_and_trailer. rewrite from_xpos, xobj_not_table, xobj_parse.
      change (stream_new dd data) with (OStream d1 data). cbv iota.
      assert (Hf : dict_has d1 K_Filter = false).
      { unfold dict_has. rewrite d1_none; [reflexivity|discriminate|].
        rewrite xd_get_other; [apply Hxd|reflexivity..|rewrite Hpf; reflexivity]. }
      rewrite Hf, Hpd, (decode_from d1 d1_size d1_w eq_refl). reflexivity.
    Qed.

    Lemma t0S_clean : dict_get t0S K_Prev = None /\ dict_has t0S K_Encrypt = false.
    Proof.
      unfold t0S, dict_has. rewrite !(LoadProofsStream.sr3_get d1 _ d1_wf).
      change (bytes_eqb K_Prev Xref.K_Index || bytes_eqb K_Prev Xref.K_W || bytes_eqb K_Prev K_Length) with false.
      change (bytes_eqb K_Encrypt Xref.K_Index || bytes_eqb K_Encrypt Xref.K_W || bytes_eqb K_Encrypt K_Length) with false.
      cbv iota. rewrite !d1_absent; try reflexivity; try discriminate; try apply Hxd. split; reflexivity.
    Qed.

    Theorem loads_stream :
      exists d, load (s_junk st ++ FS) = LOk d XTStream /\
        d_version d = a_version a /\ d_trailer d = t0S /\
        (forall tp, In tp (tops st a) -> lookup (d_objects d) (fst (fst tp)) = Some (loaded_top tp)) /\
        lookup (d_objects d) (xid, 0) = Some (stream_new dd data) /\
        (forall id o, lookup (d_objects d) id = Some o -> (exists tp, In tp (tops st a) /\ fst (fst tp) = id) \/ id = (xid, 0)).
    Proof.
      destruct frame_facts as [F1 [F2 F3]]. destruct t0S_clean as [Hp He].
      eexists. split.
      - apply (load_frame_at (s_junk st) FS (hdr st a ++ body_of (otops st a)) (a_version a) x0S t0S objsS); try assumption.
        + rewrite blen_front. exact xr_parseS.
        + exact max_id_smallS.
        + exact objs_read.
      - cbn [d_version d_trailer d_objects]. split; [reflexivity|]. split.
        { unfold dict_swap_remove, dict_has. rewrite Hp. reflexivity. }
        exact objs_lookup.
    Qed.
  End Plain.

  (* ======== ending B: a filter chain on the cross-reference stream, c01's Model/LoaderExt.load_ext ======== *)
  Section Filtered.
    Variable decompress : dict -> bytes -> option (dict * bytes).
    Variable can : dict -> bool.
    (* what Stream::decompress leaves of the dictionary: DecodeParms and Filter removed, Length set *)
    Definition d2 : dict :=
      dict_set (dict_swap_remove (dict_swap_remove d1 K_DecodeParms) K_Filter) K_Length (OInt (Z.of_nat (length raw))).
    Hypothesis Hff : dict_has d1 K_Filter = true.
    Hypothesis Hcan : can d1 = true.
    Hypothesis Hdec : decompress d1 data = Some (d2, raw).
    Definition t0F : dict := LoadProofsStream.sr3 d2.

    Lemma d2_wf : dict_wf d2.
    Proof. apply dict_set_wf. repeat apply swap_remove_wf. exact d1_wf. Qed.

    Lemma d2_get k : k <> K_Length -> k <> K_Filter -> k <> K_DecodeParms -> dict_get d2 k = dict_get d1 k.
    Proof.
      intros N1 N2 N3. unfold d2. rewrite dict_get_set_other by exact N1.
      rewrite dict_get_swap_remove_other; [|apply swap_remove_wf; exact d1_wf|exact N2].
      apply dict_get_swap_remove_other; [exact d1_wf|exact N3].
    Qed.

    Lemma xr_parseF : xref_and_trailer_x decompress can FS (xpos st a) = SOk (x0S, t0F).
    Proof.
      unfold xref_and_trailer_x. rewrite from_xpos, xobj_not_table. unfold indirect_x.
      match goal with |- context [indirect_with ?b ?s0 ?e ?l] => pose proof (indirect_with_agrees b s0 e l) as A end.
      rewrite xobj_parse in A. destruct A as [pos [-> _]].
      change (stream_new dd data) with (OStream d1 data). cbv iota.
      unfold filters_modelled. rewrite Hcan, orb_true_r. unfold decode_xref_stream. rewrite Hff, Hdec.
      rewrite (decode_from d2); [reflexivity| | |].
      - rewrite d2_get by discriminate. exact d1_size.
      - rewrite d2_get by discriminate. exact d1_w.
      - apply d2_get; discriminate.
    Qed.

    Lemma t0F_clean : dict_get t0F K_Prev = None /\ dict_has t0F K_Encrypt = false.
    Proof.
      unfold t0F, dict_has. rewrite !(LoadProofsStream.sr3_get d2 _ d2_wf).
      change (bytes_eqb K_Prev Xref.K_Index || bytes_eqb K_Prev Xref.K_W || bytes_eqb K_Prev K_Length) with false.
      change (bytes_eqb K_Encrypt Xref.K_Index || bytes_eqb K_Encrypt Xref.K_W || bytes_eqb K_Encrypt K_Length) with false.
      cbv iota. rewrite !d2_get by discriminate.
      rewrite !d1_absent; try reflexivity; try discriminate; try apply Hxd. split; reflexivity.
    Qed.

    Theorem loads_stream_filtered :
      exists d, load_ext decompress can (s_junk st ++ FS) = LOk d XTStream /\
        d_version d = a_version a /\ d_trailer d = t0F /\
        (forall tp, In tp (tops st a) -> lookup (d_objects d) (fst (fst tp)) = Some (loaded_top tp)) /\
        lookup (d_objects d) (xid, 0) = Some (stream_new dd data) /\
        (forall id o, lookup (d_objects d) id = Some o -> (exists tp, In tp (tops st a) /\ fst (fst tp) = id) \/ id = (xid, 0)).
    Proof.
      destruct frame_facts as [F1 [F2 F3]]. destruct t0F_clean as [Hp He].
      eexists. split.
      - apply (load_ext_frame_at decompress can (s_junk st) FS (hdr st a ++ body_of (otops st a)) (a_version a) x0S t0F objsS); try assumption.
        + rewrite blen_front. exact xr_parseF.
        + exact max_id_smallS.
        + exact objs_read.
      - cbn [d_version d_trailer d_objects]. split; [reflexivity|]. split.
        { unfold dict_swap_remove, dict_has. rewrite Hp. reflexivity. }
        exact objs_lookup.
    Qed.
  End Filtered.

  (* ======== ending B with the Gallina decoders: the encodings the reference writer applies ======== *)
  Section FilteredRef.
    Variable f : sfilter.
    Variable arr : bool.
    Hypothesis Hflt : f <> SfNone.
    Hypothesis Henc : apply_filter f (N.of_nat (w0' + w1' + w2')) arr raw = (data, fent).
    Hypothesis Hdp : dict_get (a_trailer a) K_DecodeParms = None.
    Hypothesis Hwmax : N.of_nat (w0' + w1' + w2') <= Png.USIZE_MAX.

    (* a key of the filter entries is found there *)
    Lemma xd_get_fent k :
      bytes_eqb (bs "Type") k = false -> bytes_eqb RefWriter.K_Size k = false -> bytes_eqb (bs "W") k = false ->
      bytes_eqb (bs "Index") k = false -> bytes_eqb RefWriter.K_Length k = false -> dict_get (a_trailer a) k = None ->
      dict_get xd k = dict_get fent k.
    Proof.
      intros E1 E2 E3 E4 E5 Ht. unfold xd, xd_of. cbn [app dict_get]. rewrite E1, E2, E3.
      rewrite !dict_get_app.
      assert (Hi : dict_get idx_part k = None).
      { destruct idx_part_cases as [->|[-> _]]; [cbn [dict_get]; rewrite E4; reflexivity|reflexivity]. }
      rewrite Hi, Ht. destruct (dict_get fent k); [reflexivity|]. cbn [dict_get]. rewrite E5. reflexivity.
    Qed.

    Lemma d1_get_fent k :
      bytes_eqb (bs "Type") k = false -> bytes_eqb RefWriter.K_Size k = false -> bytes_eqb (bs "W") k = false ->
      bytes_eqb (bs "Index") k = false -> bytes_eqb RefWriter.K_Length k = false -> dict_get (a_trailer a) k = None ->
      dict_get d1 k = dict_get fent k.
    Proof.
      intros E1 E2 E3 E4 E5 Ht.
      assert (Hk : k <> K_Length) by (intro K; subst k; rewrite bytes_eqb_refl in E5; discriminate E5).
      rewrite (d1_get k Hk). pose proof (xd_get_fent k E1 E2 E3 E4 E5 Ht) as Hx.
      destruct (dict_get fent k) as [v|] eqn:Ef.
      - unfold dd. apply dict_get_denote_plain; [exact Hx|].
        assert (Ef' : dict_get (snd (apply_filter f (N.of_nat (w0' + w1' + w2')) arr raw)) k = Some v) by (rewrite Henc; exact Ef).
        exact (fent_plain _ _ _ _ _ _ Ef').
      - unfold dd. apply dict_get_denote_none. exact Hx.
    Qed.

    Lemma raw_rows : raw <> [] /\ length raw = (length ents * (w0' + w1' + w2'))%nat.
    Proof.
      assert (Hl : length raw = (length ents * (w0' + w1' + w2'))%nat) by (unfold raw, ents; apply enc_sections_length).
      split; [|exact Hl]. intro E. rewrite E in Hl. cbn [length] in Hl.
      pose proof widths_sum as Hw. pose proof ents_xid as Hx. destruct ents as [|e0 es]; [contradiction|]. cbn [length] in Hl. nia.
    Qed.

    Lemma decompress_d1 : decompress_ref d1 data = Some (d2, raw).
    Proof.
      destruct raw_rows as [Hne Hl].
      assert (Ed : data = fst (apply_filter f (N.of_nat (w0' + w1' + w2')) arr raw)) by (rewrite Henc; reflexivity).
      assert (Ef : fent = snd (apply_filter f (N.of_nat (w0' + w1' + w2')) arr raw)) by (rewrite Henc; reflexivity).
      rewrite Ed. unfold d2.
      apply decompress_ref_ok.
      apply (chain_decodes f (w0' + w1' + w2') (length ents) arr raw d1 Hflt); try assumption.
      - pose proof widths_sum. lia.
      - rewrite <- Ef. apply d1_get_fent; try reflexivity. apply Hxd.
      - rewrite <- Ef. apply d1_get_fent; try reflexivity. exact Hdp.
    Qed.

    Lemma d1_has_filter : dict_has d1 K_Filter = true.
    Proof.
      unfold dict_has. rewrite d1_get_fent; try reflexivity; [|apply Hxd].
      pose proof (fent_has_filter f (N.of_nat (w0' + w1' + w2')) arr raw Hflt) as H. rewrite Henc in H. cbn [snd] in H.
      destruct (dict_get fent K_Filter); [reflexivity|contradiction].
    Qed.

    Theorem loads_stream_filtered_ref :
      exists d, load_ext decompress_ref can_ref (s_junk st ++ FS) = LOk d XTStream /\
        d_version d = a_version a /\ d_trailer d = t0F /\
        (forall tp, In tp (tops st a) -> lookup (d_objects d) (fst (fst tp)) = Some (loaded_top tp)) /\
        lookup (d_objects d) (xid, 0) = Some (stream_new dd data) /\
        (forall id o, lookup (d_objects d) id = Some o -> (exists tp, In tp (tops st a) /\ fst (fst tp) = id) \/ id = (xid, 0)).
    Proof. apply loads_stream_filtered; [exact d1_has_filter|reflexivity|exact decompress_d1]. Qed.
  End FilteredRef.
End StreamFile.

(* ======================================================================================================
   Part 5: the reference writer produces exactly this layout
   ====================================================================================================== *)
Theorem ref_write_stream st a x file :
  s_xref st = XStream x -> s_ostms st = [] -> xs_filter x = SfNone -> ref_write st a = Some file ->
  file = s_junk st ++ FS st a x [] (raw st a x) /\ NoDup (numsS a x) /\ ~ In 0 (numsS a x) /\
  contains (bs "%PDF-") (s_junk st) = false /\ no_eolb (a_version a) = true.
Proof.
  intros Hxs Hos Hf H. unfold ref_write in H. unfold compressed_nums in H. rewrite Hos, Hxs in H.
  cbn [flat_map map containers] in H. rewrite !app_nil_r in H. change ([] ++ [xs_id x]) with [xs_id x] in H.
  destruct (contains (bs "%PDF-") (s_junk st) || contains [x0d] (a_version a) || contains [x0a] (a_version a)) eqn:C1; [discriminate H|].
  apply orb_false_iff in C1 as [C1 C1c]. apply orb_false_iff in C1 as [C1a C1b].
  fold (nums a) in H. change (nums a ++ [xs_id x]) with (numsS a x) in H.
  destruct (negb (nodup_N (numsS a x) && nodup_N [] && negb (mem_N 0 (numsS a x)))) eqn:C2; [discriminate H|].
  apply negb_false_iff in C2. apply andb_true_iff in C2 as [C2 C2c]. apply andb_true_iff in C2 as [C2a _].
  rewrite filter_all_true in H by (intro; reflexivity).
  rewrite emit_objs_eq in H. rewrite Hf in H. destruct (xs_w x) as [[w0 w1] w2] eqn:Ew.
  match type of H with context [apply_filter SfNone ?c ?b ?r] => change (apply_filter SfNone c b r) with (r, @nil (bytes * obj)) in H end.
  cbv iota in H.
  assert (Einj : forall (u v : bytes), Some u = Some v -> u = v) by (intros u v K; inversion K; reflexivity).
  apply Einj in H. subst file. clear Einj.
  split.
  - f_equal. unfold FS, xobj_text. rewrite <- (app_assoc (w_indirect _ _ _ _)).
    unfold xd, xd_of, idx_part, raw, w0', w1', w2'. rewrite Ew. cbn [fst snd].
    reflexivity.
  - split; [apply nodup_N_spec; exact C2a|]. split.
    + intro K. apply negb_true_iff in C2c. unfold mem_N in C2c.
      assert (existsb (N.eqb 0) (numsS a x) = true) by (apply existsb_exists; exists 0; split; [exact K|reflexivity]). congruence.
    + split; [exact C1a|]. apply version_no_eol; assumption.
Qed.

(* the dictionary of an unfiltered cross-reference stream *)
Definition xdp st a x : dict := xd st a x [] (raw st a x).

Theorem loads_stream_file st a x file :
  s_xref st = XStream x -> s_ostms st = [] -> xs_filter x = SfNone -> ref_write st a = Some file ->
  Forall top_ok (tops st a) -> utf8_decode (a_version a) <> None ->
  (spell_wf (ODict (xdp st a x)) (i_obj (xs_istyle x)) /\ (nest (ODict (xdp st a x)) <= MAX_DEPTH)%nat /\
   dict_get (a_trailer a) K_Prev = None /\ dict_get (a_trailer a) K_Encrypt = None /\
   dict_get (a_trailer a) K_Filter = None /\ dict_get (a_trailer a) Xref.K_Index = None) ->
  (xpos st a <= u32_max /\ sizeS a x <= u32_max /\ 25 < xpos st a) ->
  (9 + length (sx_mid (s_sx_eol1 st) (s_sx_sp1 st) (xpos st a) (s_sx_sp2 st) (s_sx_eol2 st)) <= 25)%nat ->
  exists d, load file = LOk d XTStream /\
    d_version d = a_version a /\ d_trailer d = t0S st a x [] (raw st a x) /\
    (forall tp, In tp (tops st a) -> lookup (d_objects d) (fst (fst tp)) = Some (loaded_top tp)) /\
    lookup (d_objects d) (xid x, 0) = Some (stream_new (dd st a x [] (raw st a x)) (raw st a x)) /\
    (forall id o, lookup (d_objects d) id = Some o -> (exists tp, In tp (tops st a) /\ fst (fst tp) = id) \/ id = (xid x, 0)).
Proof.
  intros Hxs Hos Hf Hw Htops Hu Hxd Hsmall Hsx.
  destruct (ref_write_stream st a x file Hxs Hos Hf Hw) as [-> [Hnd [H0 [Hj Hv]]]].
  apply loads_stream; try assumption; try reflexivity. split; assumption.
Qed.

(* what the loaded trailer holds: the dictionary of the cross-reference stream as read back, without Length, W, Index *)
Theorem stream_trailer_reading st a x k :
  spell_wf (ODict (xdp st a x)) (i_obj (xs_istyle x)) ->
  dict_get (t0S st a x [] (raw st a x)) k =
  if bytes_eqb k Xref.K_Index || bytes_eqb k Xref.K_W || bytes_eqb k Obj.K_Length then None
  else dict_get (denote_dict (xdp st a x) (dict_sts (i_obj (xs_istyle x)))) k.
Proof.
  intro Hw. assert (W : dict_wf (xdp st a x)) by (apply spell_wf_dict in Hw; exact (proj1 Hw)).
  assert (W1 : dict_wf (d1 st a x [] (raw st a x))).
  { apply dict_set_wf. unfold dict_wf, keys, dd. rewrite denote_dict_keys. exact W. }
  unfold t0S. rewrite (LoadProofsStream.sr3_get _ k W1).
  destruct (bytes_eqb k Xref.K_Index || bytes_eqb k Xref.K_W || bytes_eqb k Obj.K_Length) eqn:E; [reflexivity|].
  apply orb_false_iff in E as [_ E]. unfold d1. apply dict_get_set_other. intro K. subst k. rewrite bytes_eqb_refl in E. discriminate E.
Qed.

(* ======================================================================================================
   Part 6: any filter on the cross-reference stream
   ====================================================================================================== *)
Definition xs_enc st a x : bytes * dict :=
  apply_filter (xs_filter x) (N.of_nat (w0' st a x + w1' st a x + w2' st a x)) (xs_array x) (raw st a x).

Theorem ref_write_stream_any st a x file :
  s_xref st = XStream x -> s_ostms st = [] -> ref_write st a = Some file ->
  file = s_junk st ++ FS st a x (snd (xs_enc st a x)) (fst (xs_enc st a x)) /\ NoDup (numsS a x) /\ ~ In 0 (numsS a x) /\
  contains (bs "%PDF-") (s_junk st) = false /\ no_eolb (a_version a) = true.
Proof.
  intros Hxs Hos H. unfold ref_write in H. unfold compressed_nums in H. rewrite Hos, Hxs in H.
  cbn [flat_map map containers] in H. rewrite !app_nil_r in H. change ([] ++ [xs_id x]) with [xs_id x] in H.
  destruct (contains (bs "%PDF-") (s_junk st) || contains [x0d] (a_version a) || contains [x0a] (a_version a)) eqn:C1; [discriminate H|].
  apply orb_false_iff in C1 as [C1 C1c]. apply orb_false_iff in C1 as [C1a C1b].
  fold (nums a) in H. change (nums a ++ [xs_id x]) with (numsS a x) in H.
  destruct (negb (nodup_N (numsS a x) && nodup_N [] && negb (mem_N 0 (numsS a x)))) eqn:C2; [discriminate H|].
  apply negb_false_iff in C2. apply andb_true_iff in C2 as [C2 C2c]. apply andb_true_iff in C2 as [C2a _].
  rewrite filter_all_true in H by (intro; reflexivity).
  rewrite emit_objs_eq in H. destruct (xs_w x) as [[w0 w1] w2] eqn:Ew.
  match type of H with context [apply_filter ?f ?c ?b ?r] =>
    assert (Ee : apply_filter f c b r = xs_enc st a x) by (unfold xs_enc, raw, w0', w1', w2'; rewrite Ew; reflexivity);
    rewrite Ee in H end.
  destruct (xs_enc st a x) as [dat fe] eqn:Ex. cbv iota beta in H.
  assert (Einj : forall (u v : bytes), Some u = Some v -> u = v) by (intros u v K; inversion K; reflexivity).
  apply Einj in H. subst file. clear Einj.
  split.
  - f_equal. cbn [fst snd]. unfold FS, xobj_text. rewrite <- (app_assoc (w_indirect _ _ _ _)).
    unfold xd, xd_of, idx_part, raw, w0', w1', w2'. rewrite Ew. cbn [fst snd].
    reflexivity.
  - split; [apply nodup_N_spec; exact C2a|]. split.
    + intro K. apply negb_true_iff in C2c. unfold mem_N in C2c.
      assert (existsb (N.eqb 0) (numsS a x) = true) by (apply existsb_exists; exists 0; split; [exact K|reflexivity]). congruence.
    + split; [exact C1a|]. apply version_no_eol; assumption.
Qed.

(* the dictionary of the cross-reference stream as written, with the filter entries *)
Definition xdf st a x : dict := xd st a x (snd (xs_enc st a x)) (fst (xs_enc st a x)).

Theorem loads_stream_filtered_file st a x file :
  s_xref st = XStream x -> s_ostms st = [] -> xs_filter x <> SfNone -> ref_write st a = Some file ->
  Forall top_ok (tops st a) -> utf8_decode (a_version a) <> None ->
  (spell_wf (ODict (xdf st a x)) (i_obj (xs_istyle x)) /\ (nest (ODict (xdf st a x)) <= MAX_DEPTH)%nat /\
   dict_get (a_trailer a) K_Prev = None /\ dict_get (a_trailer a) K_Encrypt = None /\
   dict_get (a_trailer a) K_Filter = None /\ dict_get (a_trailer a) Xref.K_Index = None) ->
  dict_get (a_trailer a) K_DecodeParms = None ->
  (xpos st a <= u32_max /\ sizeS a x <= u32_max /\ 25 < xpos st a) ->
  N.of_nat (w0' st a x + w1' st a x + w2' st a x) <= Png.USIZE_MAX ->
  (9 + length (sx_mid (s_sx_eol1 st) (s_sx_sp1 st) (xpos st a) (s_sx_sp2 st) (s_sx_eol2 st)) <= 25)%nat ->
  exists d, load_ext decompress_ref can_ref file = LOk d XTStream /\
    d_version d = a_version a /\ d_trailer d = t0F st a x (snd (xs_enc st a x)) (fst (xs_enc st a x)) /\
    (forall tp, In tp (tops st a) -> lookup (d_objects d) (fst (fst tp)) = Some (loaded_top tp)) /\
    lookup (d_objects d) (xid x, 0) =
      Some (stream_new (dd st a x (snd (xs_enc st a x)) (fst (xs_enc st a x))) (fst (xs_enc st a x))) /\
    (forall id o, lookup (d_objects d) id = Some o -> (exists tp, In tp (tops st a) /\ fst (fst tp) = id) \/ id = (xid x, 0)).
Proof.
  intros Hxs Hos Hf Hw Htops Hu Hxd Hdp Hsmall Hwm Hsx.
  destruct (ref_write_stream_any st a x file Hxs Hos Hw) as [-> [Hnd [H0 [Hj Hv]]]].
  apply (loads_stream_filtered_ref st a x Hos (snd (xs_enc st a x)) (fst (xs_enc st a x)) Hnd H0 Htops (conj Hv Hu) Hj Hxd
           (fent_keys _ _ _ _) Hsmall Hsx (xs_filter x) (xs_array x) Hf); try assumption.
  unfold xs_enc. destruct (apply_filter _ _ _ _); reflexivity.
Qed.

(* what the loaded trailer holds: the dictionary as read back, without Filter, DecodeParms, Length, W, Index *)
Theorem filtered_trailer_reading st a x k :
  spell_wf (ODict (xdf st a x)) (i_obj (xs_istyle x)) ->
  dict_get (t0F st a x (snd (xs_enc st a x)) (fst (xs_enc st a x))) k =
  if bytes_eqb k Xref.K_Index || bytes_eqb k Xref.K_W || bytes_eqb k Obj.K_Length then None
  else if bytes_eqb k K_Filter || bytes_eqb k K_DecodeParms then None
  else dict_get (denote_dict (xdf st a x) (dict_sts (i_obj (xs_istyle x)))) k.
Proof.
  intro Hw. assert (W : dict_wf (xdf st a x)) by (apply spell_wf_dict in Hw; exact (proj1 Hw)).
  set (fe := snd (xs_enc st a x)). set (da := fst (xs_enc st a x)).
  assert (W1 : dict_wf (d1 st a x fe da)).
  { apply dict_set_wf. unfold dict_wf, keys, dd. rewrite denote_dict_keys. exact W. }
  assert (W2 : dict_wf (d2 st a x fe da)) by (apply dict_set_wf; repeat apply swap_remove_wf; exact W1).
  unfold t0F. rewrite (LoadProofsStream.sr3_get _ k W2).
  destruct (bytes_eqb k Xref.K_Index || bytes_eqb k Xref.K_W || bytes_eqb k Obj.K_Length) eqn:E; [reflexivity|].
  apply orb_false_iff in E as [_ E].
  assert (Hk : k <> K_Length) by (intro K; subst k; rewrite bytes_eqb_refl in E; discriminate E).
  unfold d2. rewrite dict_get_set_other by exact Hk.
  destruct (bytes_eqb k K_Filter) eqn:Ef.
  { apply bytes_eqb_eq in Ef. subst k. cbn [orb]. apply dict_get_swap_remove_same. apply swap_remove_wf. exact W1. }
  apply bytes_eqb_neq in Ef. rewrite dict_get_swap_remove_other; [|apply swap_remove_wf; exact W1|exact Ef].
  destruct (bytes_eqb k K_DecodeParms) eqn:Ed.
  { apply bytes_eqb_eq in Ed. subst k. cbn [orb]. apply dict_get_swap_remove_same. exact W1. }
  apply bytes_eqb_neq in Ed. rewrite dict_get_swap_remove_other; [|exact W1|exact Ed]. cbn [orb].
  unfold d1. apply dict_get_set_other. exact Hk.
Qed.
