(* OutlineProofsPages.v -- C17: on a document whose page tree is well formed in the sense of C12
   (represented tree, distinct nodes, height within the limit) building and attaching the outline
   does not change the page enumeration, so the page numbers read back are those of the original
   document.  Main results: [represents_final], [pages_unchanged], [reads_back_ops_wf]. *)
From LV Require Import Base.Bytes Base.Sx Model.Obj Model.DocQ Model.PageTree Spec.Dfs Proofs.PageTreeProofs.
From LV Require Import Model.Outline Model.Toc Gen.QueryC Gen.Consts
  Spec.OutlineSpec Proofs.OutlineProofs Proofs.OutlineProofsTitle Proofs.OutlineProofsRead
  Proofs.OutlineProofsOps Proofs.OutlineProofsMain.

Local Open Scope N_scope.

(* b agrees with a on every key but Outlines *)
Definition sim_dict (a b : dict) : Prop := forall k, k <> K_Outlines -> dict_get b k = dict_get a k.

Lemma sim_refl a : sim_dict a a.
Proof. intros k _. reflexivity. Qed.

Lemma sim_cat_with cat n : sim_dict cat (cat_with cat n).
Proof.
  intros k Hk. unfold cat_with. rewrite dict_get_set.
  destruct (bytes_eqb K_Outlines k) eqn:E; [apply bytes_eqb_eq in E; congruence | reflexivity].
Qed.

Section Final.
  Variables (m m2 : objmap) (rid : oid) (cat cat' : dict).
  Hypothesis Hkeep : forall id o, lookup m id = Some o -> id <> rid -> lookup m2 id = Some o.
  Hypothesis Hrid : lookup m rid = Some (ODict cat).
  Hypothesis Hrid2 : lookup m2 rid = Some (ODict cat').
  Hypothesis Hsim : sim_dict cat cat'.

  Lemma deref_keep : forall fuel last o r x,
    deref_aux m fuel last o = Some (r, x) -> (forall c, x <> ODict c) -> deref_aux m2 fuel last o = Some (r, x).
  Proof.
    induction fuel as [|f IH]; intros last o r x H Hx; destruct (is_ref o) eqn:R;
      try (rewrite deref_nonref in * by exact R; exact H);
      destruct o; try discriminate; rewrite deref_ref in *;
      destruct (lookup m (id, gen)) as [o1|] eqn:E; try discriminate.
    destruct (oid_eqb (id, gen) rid) eqn:Q.
    - apply oid_eqb_eq in Q. rewrite Q, Hrid in E. inversion E; subst o1.
      rewrite deref_nonref in H by reflexivity. inversion H; subst. exfalso. exact (Hx cat eq_refl).
    - rewrite (Hkeep _ _ E) by (intro X; rewrite X, oid_eqb_refl in Q; discriminate).
      apply IH; assumption.
  Qed.

  Lemma deref_dict : forall fuel last o r c,
    deref_aux m fuel last o = Some (r, ODict c) ->
    exists c', deref_aux m2 fuel last o = Some (r, ODict c') /\ sim_dict c c'.
  Proof.
    induction fuel as [|f IH]; intros last o r c H; destruct (is_ref o) eqn:R;
      try (rewrite deref_nonref in * by exact R; inversion H; subst; exists c; split; [reflexivity | apply sim_refl]);
      destruct o; try discriminate; rewrite deref_ref in *;
      destruct (lookup m (id, gen)) as [o1|] eqn:E; try discriminate.
    destruct (oid_eqb (id, gen) rid) eqn:Q.
    - apply oid_eqb_eq in Q. rewrite Q in *. rewrite Hrid in E. inversion E; subst o1.
      rewrite deref_nonref in H by reflexivity. inversion H; subst.
      rewrite Hrid2, deref_nonref by reflexivity. exists cat'. split; [reflexivity | exact Hsim].
    - rewrite (Hkeep _ _ E) by (intro X; rewrite X, oid_eqb_refl in Q; discriminate).
      apply IH. exact H.
  Qed.

  Lemma get_dictionary_final id c :
    get_dictionary m id = Some c -> exists c', get_dictionary m2 id = Some c' /\ sim_dict c c'.
  Proof.
    unfold get_dictionary, get_object. destruct (lookup m id) as [o|] eqn:E; [|discriminate].
    destruct (oid_eqb id rid) eqn:Q.
    - apply oid_eqb_eq in Q. subst id. rewrite Hrid in E. inversion E; subst o. rewrite Hrid2.
      cbn. intro H. inversion H; subst. exists cat'. split; [reflexivity | exact Hsim].
    - rewrite (Hkeep _ _ E) by (intro X; rewrite X, oid_eqb_refl in Q; discriminate).
      unfold dereference. destruct (deref_aux m (N.to_nat DEREF_LIMIT) None o) as [[r x]|] eqn:D; [|discriminate].
      cbn [option_map snd]. destruct x; try discriminate. intro H. inversion H; subst.
      destruct (deref_dict _ _ _ _ _ D) as [c' [D' S]]. rewrite D'. exists c'. split; [reflexivity | exact S].
  Qed.

  Lemma get_type_sim a b : sim_dict a b -> get_type b = get_type a.
  Proof.
    intro S. unfold get_type, dict_has.
    rewrite (S K_Type) by discriminate. rewrite (S K_Linearized) by discriminate. reflexivity.
  Qed.

  Lemma get_deref_kids a b l :
    sim_dict a b -> get_deref m a K_Kids = Some (OArr l) -> get_deref m2 b K_Kids = Some (OArr l).
  Proof.
    intros S. unfold get_deref. rewrite (S K_Kids) by discriminate.
    destruct (dict_get a K_Kids) as [o|]; [|discriminate]. unfold dereference.
    destruct (deref_aux m (N.to_nat DEREF_LIMIT) None o) as [[r x]|] eqn:D; [|discriminate].
    cbn [option_map snd]. intro H. inversion H; subst.
    rewrite (deref_keep _ _ _ _ _ D) by discriminate. reflexivity.
  Qed.

  Lemma represents_final : forall t, represents m t -> represents m2 t.
  Proof.
    induction t as [id|id ks IH] using ptree_ind'; intro H.
    - inversion H as [id' d Hd Ht|]; subst.
      destruct (get_dictionary_final _ _ Hd) as [d' [Hd' S]].
      apply (RLeaf m2 id d' Hd'). rewrite (get_type_sim _ _ S). exact Ht.
    - inversion H as [|id' d ks' Hd Ht Hk Hf]; subst.
      destruct (get_dictionary_final _ _ Hd) as [d' [Hd' S]].
      apply (RNode m2 id d' ks Hd').
      + rewrite (get_type_sim _ _ S). exact Ht.
      + apply (get_deref_kids d d' _ S Hk).
      + rewrite Forall_forall in *. intros k Hin. apply (IH k Hin). apply Hf. exact Hin.
  Qed.
End Final.

(* the relation between the objects before the build and after build + attach *)
Lemma final_objects b f cid rid cat fuel b' :
  bookmarks b = map iid f -> f <> [] ->
  Forall (trepr (bookmark_table b)) f ->
  let d := base b in
  let m0 := d_max_id d in
  max_id_bounds d ->
  m0 + 1 + 2 * N.of_nat (fsize f) < U32_LIMIT ->
  root_id d = Some cid ->
  get_object_mut_id (d_objects d) cid = Some (rid, ODict cat) ->
  (fheight f <= fuel)%nat ->
  build_outline fuel b = OOk (Some (m0 + 1, 0), b') ->
  let d2 := attach (base b') cid (m0 + 1, 0) in
  d_trailer d2 = d_trailer d /\
  lookup (d_objects d) rid = Some (ODict cat) /\
  lookup (d_objects d2) rid = Some (ODict (cat_with cat (m0 + 1, 0))) /\
  (forall id o, lookup (d_objects d) id = Some o -> id <> rid -> lookup (d_objects d2) id = Some o).
Proof.
  intros Hroots Hne Htr d m0 Hmax Hlim Hroot Hcat Hfuel Hbuild d2.
  destruct (build_outline_ok b f fuel Hroots Hne Htr Hfuel Hlim)
    as [f' [b'' [Hnum [Hbuild' [Hmax' [Htrailer [Hok [Hframe Hcreated]]]]]]]].
  fold d m0 in Hbuild'. rewrite Hbuild in Hbuild'. inversion Hbuild'; subst b''. clear Hbuild'.
  fold d m0 in Hframe, Htrailer.
  set (d1 := base b') in *.
  assert (Hext : extends (d_objects d) (d_objects d1)).
  { intros id o Hl. rewrite Hframe; [exact Hl|]. intros [Hc _]. apply Hmax in Hl. fold m0 in Hl. lia. }
  assert (Hroot1 : root_id d1 = Some cid) by (unfold root_id in *; rewrite Htrailer; exact Hroot).
  assert (Hcat1 : get_object_mut_id (d_objects d1) cid = Some (rid, ODict cat)).
  { unfold get_object_mut_id in *. destruct (lookup (d_objects d) cid) as [o|] eqn:E; [|discriminate].
    rewrite (Hext _ _ E). unfold dereference in *.
    destruct (deref_aux (d_objects d) (N.to_nat DEREF_LIMIT) None o) as [r|] eqn:D; [|discriminate].
    rewrite (deref_extends _ _ Hext _ _ _ _ D). exact Hcat. }
  destruct (attach_catalog d cid rid cat (m0 + 1, 0) Hroot Hcat) as [_ [_ Hrid]].
  destruct (attach_catalog d1 cid rid cat (m0 + 1, 0) Hroot1 Hcat1) as [Hatt _].
  fold d2 in Hatt.
  split; [rewrite Hatt; cbn [d_trailer set_objects]; exact Htrailer|].
  split; [exact Hrid|].
  split.
  - rewrite Hatt. cbn [d_objects set_objects]. rewrite lookup_insert, oid_eqb_refl. reflexivity.
  - intros id o Hl Hne'. rewrite Hatt. cbn [d_objects set_objects]. rewrite lookup_insert.
    rewrite oid_eqb_neq by congruence. apply Hext. exact Hl.
Qed.

(* page enumeration of a C12-well-formed document is unchanged by build_outline + attach *)
Theorem pages_unchanged b f cid rid cat fuel b' pcat i g ks :
  bookmarks b = map iid f -> f <> [] ->
  Forall (trepr (bookmark_table b)) f ->
  let d := base b in
  let m0 := d_max_id d in
  max_id_bounds d ->
  m0 + 1 + 2 * N.of_nat (fsize f) < U32_LIMIT ->
  root_id d = Some cid ->
  get_object_mut_id (d_objects d) cid = Some (rid, ODict cat) ->
  (fheight f <= fuel)%nat ->
  build_outline fuel b = OOk (Some (m0 + 1, 0), b') ->
  (* C12's hypotheses on the original document *)
  catalog d = Some pcat ->
  dict_get pcat K_Pages = Some (ORef i g) ->
  tree_wf d (PNode (i, g) ks) ->
  (N.of_nat (height (PNode (i, g) ks)) <= PAGE_TREE_DEPTH_LIMIT + 1)%N ->
  get_pages (attach (base b') cid (m0 + 1, 0)) = get_pages d.
Proof.
  intros Hroots Hne Htr d m0 Hmax Hlim Hroot Hcat Hfuel Hbuild Hpcat Hpages [Hrep Hnd] Hh.
  destruct (final_objects b f cid rid cat fuel b' Hroots Hne Htr Hmax Hlim Hroot Hcat Hfuel Hbuild)
    as [Htrailer [Hrid [Hrid2 Hkeep]]].
  fold d m0 in Htrailer, Hrid, Hrid2, Hkeep.
  set (d2 := attach (base b') cid (m0 + 1, 0)) in *.
  pose proof (sim_cat_with cat (m0 + 1, 0)) as Hsim.
  assert (Hcat2 : exists pcat', catalog d2 = Some pcat' /\ sim_dict pcat pcat').
  { unfold catalog in *. rewrite Htrailer. destruct (dict_get (d_trailer d) K_Root) as [[]|]; try discriminate.
    apply (get_dictionary_final _ _ rid cat _ Hkeep Hrid Hrid2 Hsim _ _ Hpcat). }
  destruct Hcat2 as [pcat' [Hpcat' S]].
  unfold get_pages.
  rewrite (page_iter_dfs d pcat i g ks Hpcat Hpages (conj Hrep Hnd) Hh).
  rewrite (page_iter_dfs d2 pcat' i g ks Hpcat'); [reflexivity | | | exact Hh].
  - rewrite (S K_Pages) by discriminate. exact Hpages.
  - split; [|exact Hnd]. apply (represents_final _ _ rid cat _ Hkeep Hrid Hrid2 Hsim). exact Hrep.
Qed.

(* read-back with the page numbers of the ORIGINAL document, for C12-well-formed page trees *)
Theorem reads_back_ops_wf d ops cid rid cat fuel2 pcat i g ks :
  let b := add_all (fresh_bdoc d) ops in
  let f := forest_of_ops (map sop_of ops) in
  let m0 := d_max_id d in
  f <> [] ->
  max_id_bounds d ->
  m0 + 1 + 2 * N.of_nat (OutlineSpec.fsize f) < U32_LIMIT ->
  root_id d = Some cid ->
  get_object_mut_id (d_objects d) cid = Some (rid, ODict cat) ->
  no_name_trees cat ->
  distinct_titles f -> scalar_titles f ->
  N.of_nat (OutlineSpec.fheight f) <= OUTLINE_DEPTH_LIMIT + 1 ->
  (OutlineSpec.fsize f <= fuel2)%nat ->
  catalog d = Some pcat ->
  dict_get pcat K_Pages = Some (ORef i g) ->
  tree_wf d (PNode (i, g) ks) ->
  (N.of_nat (height (PNode (i, g) ks)) <= PAGE_TREE_DEPTH_LIMIT + 1)%N ->
  exists b',
    build_outline (default_fuel b) b = OOk (Some (m0 + 1, 0), b') /\
    let d2 := attach (base b') cid (m0 + 1, 0) in
    get_pages d2 = get_pages d /\
    (targets_are_pages d f -> get_toc fuel2 d2 = TOk (expected_toc d f) 0).
Proof.
  intros b f m0 Hne Hmax Hlim Hroot Hcat Hnn Hdist Hscal Hdeep Hfuel2 Hpcat Hpages Hwf Hh.
  destruct (reads_back_ops d ops cid rid cat fuel2 Hne Hmax Hlim Hroot Hcat Hnn Hdist Hscal Hdeep Hfuel2)
    as [b' [Hbuild Htoc]]. fold b f m0 in Hbuild, Htoc.
  exists b'. split; [exact Hbuild|]. intro d2.
  destruct (add_all_repr d ops) as [Hbase [Hroots [Htr Hdf]]]. fold b f in Hbase, Hroots, Htr, Hdf.
  assert (Hp : get_pages d2 = get_pages d).
  { pose proof (pages_unchanged b f cid rid cat (default_fuel b) b' pcat i g ks Hroots Hne Htr) as H.
    cbv zeta in H. rewrite Hbase in H. fold m0 in H. apply H; try assumption.
    rewrite Hdf. apply forest_height. }
  split; [exact Hp|]. intro Ht.
  unfold expected_toc, targets_are_pages in *. rewrite <- Hp in *. apply Htoc. exact Ht.
Qed.

(* the same over the complete model of get_toc (Model/TocNamed.v), ANY catalog: the build leaves the name tree entries
   of the catalog alone, but whether get_named_destinations accepts the tree is decided on the document that is read *)
From LV Require Model.TocNamed Proofs.OutlineProofsNamed.

Theorem reads_back_ops_wf_nm d ops cid rid cat fuel2 pcat i g ks :
  let b := add_all (fresh_bdoc d) ops in
  let f := forest_of_ops (map sop_of ops) in
  let m0 := d_max_id d in
  f <> [] ->
  max_id_bounds d ->
  m0 + 1 + 2 * N.of_nat (OutlineSpec.fsize f) < U32_LIMIT ->
  root_id d = Some cid ->
  get_object_mut_id (d_objects d) cid = Some (rid, ODict cat) ->
  distinct_titles f -> scalar_titles f ->
  N.of_nat (OutlineSpec.fheight f) <= OUTLINE_DEPTH_LIMIT + 1 ->
  (OutlineSpec.fsize f <= fuel2)%nat ->
  catalog d = Some pcat ->
  dict_get pcat K_Pages = Some (ORef i g) ->
  tree_wf d (PNode (i, g) ks) ->
  (N.of_nat (height (PNode (i, g) ks)) <= PAGE_TREE_DEPTH_LIMIT + 1)%N ->
  exists b',
    build_outline (default_fuel b) b = OOk (Some (m0 + 1, 0), b') /\
    let d2 := attach (base b') cid (m0 + 1, 0) in
    get_pages d2 = get_pages d /\
    (targets_are_pages d f ->
     TocNamed.get_toc fuel2 d2 = if TocNamed.name_tree_readable d2 then TOk (expected_toc d f) 0 else TErr).
Proof.
  intros b f m0 Hne Hmax Hlim Hroot Hcat Hdist Hscal Hdeep Hfuel2 Hpcat Hpages Hwf Hh.
  destruct (OutlineProofsNamed.reads_back_ops_nm d ops cid rid cat fuel2 Hne Hmax Hlim Hroot Hcat Hdist Hscal Hdeep Hfuel2)
    as [b' [Hbuild Htoc]]. fold b f m0 in Hbuild, Htoc.
  exists b'. split; [exact Hbuild|]. intro d2.
  destruct (add_all_repr d ops) as [Hbase [Hroots [Htr Hdf]]]. fold b f in Hbase, Hroots, Htr, Hdf.
  assert (Hp : get_pages d2 = get_pages d).
  { pose proof (pages_unchanged b f cid rid cat (default_fuel b) b' pcat i g ks Hroots Hne Htr) as H.
    cbv zeta in H. rewrite Hbase in H. fold m0 in H. apply H; try assumption.
    rewrite Hdf. apply forest_height. }
  split; [exact Hp|]. intro Ht.
  cbv zeta in Htoc. fold d2 in Htoc. unfold OutlineProofsNamed.toc_or_err in Htoc.
  unfold expected_toc, targets_are_pages in *. rewrite <- Hp in *. apply Htoc. exact Ht.
Qed.

(* non-vacuity: the example document of Proofs/OutlineProofsProps.v meets C12's hypotheses *)
From LV Require Proofs.OutlineProofsProps.
Definition ex17_tree : ptree := PNode (2, 0) [PLeaf (3, 0); PLeaf (4, 0)].
Lemma ex17_wf :
  catalog OutlineProofsProps.ex_doc = Some OutlineProofsProps.ex_cat /\
  dict_get OutlineProofsProps.ex_cat K_Pages = Some (ORef 2 0) /\
  tree_wf OutlineProofsProps.ex_doc ex17_tree /\
  (N.of_nat (height ex17_tree) <= PAGE_TREE_DEPTH_LIMIT + 1)%N /\
  get_pages OutlineProofsProps.ex_final = get_pages OutlineProofsProps.ex_doc /\
  get_pages OutlineProofsProps.ex_doc = [(1, (3, 0)); (2, (4, 0))].
Proof.
  split; [reflexivity|]. split; [reflexivity|]. split.
  - split.
    + eapply (RNode _ (2, 0) _ [PLeaf (3, 0); PLeaf (4, 0)]); [reflexivity | reflexivity | reflexivity|].
      repeat constructor; eapply RLeaf; reflexivity.
    + cbn. repeat constructor; cbn; intuition discriminate.
  - split; [vm_compute; discriminate|]. split; vm_compute; reflexivity.
Qed.
