(* LoadProofsStream.v -- composition for the cross-reference STREAM format:
   (1) lopdf's create_xref_steam (Save.xstream_content / xstream_index) IS the specification encoder of
       ISO 32000-1 7.5.8 (Spec/XrefSpec.v enc_sections / index_array) at W = [1 4 2] with the Index it writes,
       so C02's theorem xref_stream_any_W_Index reads it back;
   (2) the trailer dictionary after the updates of write_cross_reference_stream and the three removals of
       decode_xref_stream;
   (3) load (so_bytes (save_core XStream d)) = reloaded_stream d for every savable_core document outside the known class: the objects,
       plus the cross-reference stream object itself (number max_id + 1), max_id + 1. *)
From LV Require Import Base.Bytes Base.Sx Model.Obj Model.Writer Model.Parser Model.Save Model.Xref Model.Loader
  Model.LoaderEnc Proofs.LoaderEncProofs Model.Utf Gen.Lex Gen.SaveFmt Proofs.LexProofs Proofs.RealProofs Proofs.ObjectRtProofs Proofs.SaveProofs
  Proofs.FilterProofsDict Spec.SaveSpec Spec.XrefSpec Proofs.XrefProofs Proofs.LoadProofs Proofs.LoadProofsFile
  Proofs.LoadProofsXref Proofs.LoadProofsTable.

Local Open Scope N_scope.


(* ---------- the writer's big-endian bytes are the specification's ---------- *)
Lemma byte_of_N_mod n : byte_of_N (n mod 256) = byte_of_N n.
Proof. unfold byte_of_N. rewrite N.mod_mod by discriminate. reflexivity. Qed.

Lemma pow256_succ w : 256 ^ N.of_nat (S w) = 256 * 256 ^ N.of_nat w.
Proof. rewrite Nat2N.inj_succ, N.pow_succ_r'. reflexivity. Qed.

Lemma pow256_pos w : 256 ^ N.of_nat w <> 0.
Proof. apply N.pow_nonzero. discriminate. Qed.

Lemma spec_be_snoc : forall w v, v < 256 ^ N.of_nat (S w) ->
  XrefSpec.be_bytes (S w) v = XrefSpec.be_bytes w (v / 256) ++ [byte_of_N v].
Proof.
  induction w as [|w IH]; intros v Hv.
  - cbn [XrefSpec.be_bytes app]. change (256 ^ N.of_nat 0) with 1. rewrite N.div_1_r. reflexivity.
  - change (XrefSpec.be_bytes (S (S w)) v)
      with (byte_of_N (v / 256 ^ N.of_nat (S w)) :: XrefSpec.be_bytes (S w) (v mod 256 ^ N.of_nat (S w))).
    rewrite IH by (apply N.mod_lt; apply pow256_pos).
    change (XrefSpec.be_bytes (S w) (v / 256))
      with (byte_of_N (v / 256 / 256 ^ N.of_nat w) :: XrefSpec.be_bytes w ((v / 256) mod 256 ^ N.of_nat w)).
    cbn [app]. set (P := 256 ^ N.of_nat w). assert (HP : P <> 0) by apply pow256_pos.
    rewrite pow256_succ. fold P.
    assert (E : v mod (256 * P) = v mod 256 + 256 * ((v / 256) mod P)) by (apply N.mod_mul_r; [discriminate | exact HP]).
    f_equal; [f_equal; rewrite N.div_div by (discriminate || exact HP); reflexivity|].
    f_equal.
    + f_equal. rewrite E. rewrite (N.mul_comm 256). rewrite N.div_add by discriminate.
      rewrite N.div_small by (apply N.mod_lt; discriminate). reflexivity.
    + f_equal. rewrite E. rewrite <- byte_of_N_mod. rewrite (N.mul_comm 256). rewrite N.mod_add by discriminate.
      rewrite N.mod_mod by discriminate. apply byte_of_N_mod.
Qed.

Lemma be_bytes_spec : forall w n, n < 256 ^ N.of_nat w -> Save.be_bytes w n = XrefSpec.be_bytes w n.
Proof.
  induction w as [|w IH]; intros n Hn; [reflexivity|].
  rewrite spec_be_snoc by exact Hn. cbn [Save.be_bytes]. rewrite IH; [reflexivity|].
  rewrite pow256_succ in Hn. apply N.div_lt_upper_bound; [discriminate | exact Hn].
Qed.


(* ---------- create_xref_steam IS the specification encoder at W = [1 4 2] ---------- *)
(* the information an entry of lopdf's table carries, in the specification's terms; a free entry
   is written with its own object number as "next free" *)
Definition to_spec (id : N) (e : Save.xentry) : sentry :=
  match e with
  | Save.XFree => SFree id 0
  | Save.XUnusable => SFree id 65535
  | Save.XNormal off g => SInUse off g
  | Save.XCompressed c i => SComp c i
  end.

(* what lopdf's entry types can hold: u32 / u16 *)
Definition entry_fits (id : N) (e : Save.xentry) : Prop :=
  match e with
  | Save.XNormal a b | Save.XCompressed a b => a < two32 /\ b < 65536
  | _ => id < two32
  end.

Lemma two32_256 : two32 = 256 ^ N.of_nat XS_W2. Proof. reflexivity. Qed.
Lemma two16_256 : 65536 = 256 ^ N.of_nat XS_W3. Proof. reflexivity. Qed.

Theorem xstream_entry_is_spec id e :
  entry_fits id e -> xstream_entry id e = enc_entry XS_W1 XS_W2 XS_W3 (to_spec id e).
Proof.
  destruct e as [| |off g|c i]; cbn [entry_fits to_spec xstream_entry]; intro H;
    unfold enc_entry; cbn [entry_fields].
  - rewrite !be_bytes_spec by (rewrite <- ?two32_256, <- ?two16_256; try exact H; reflexivity). reflexivity.
  - rewrite !be_bytes_spec by (rewrite <- ?two32_256, <- ?two16_256; try exact H; reflexivity). reflexivity.
  - destruct H. rewrite !be_bytes_spec by (rewrite <- ?two32_256, <- ?two16_256; assumption). reflexivity.
  - destruct H. rewrite !be_bytes_spec by (rewrite <- ?two32_256, <- ?two16_256; assumption). reflexivity.
Qed.

Fixpoint spec_entries (id : N) (es : list Save.xentry) : list sentry :=
  match es with
  | [] => []
  | e :: es' => to_spec id e :: spec_entries (id + 1) es'
  end.
Definition spec_secs (secs : list xsection) : xsections :=
  map (fun s => (fst s, spec_entries (fst s) (snd s))) secs.

Fixpoint entries_fit (id : N) (es : list Save.xentry) : Prop :=
  match es with
  | [] => True
  | e :: es' => entry_fits id e /\ entries_fit (id + 1) es'
  end.

Lemma xstream_entries_is_spec : forall es id,
  entries_fit id es -> xstream_entries id es = flat_map (enc_entry XS_W1 XS_W2 XS_W3) (spec_entries id es).
Proof.
  induction es as [|e es IH]; intros id H; [reflexivity|]. destruct H as [H1 H2].
  cbn [xstream_entries spec_entries flat_map]. rewrite xstream_entry_is_spec by exact H1. rewrite IH by exact H2. reflexivity.
Qed.

Lemma spec_entries_length : forall es id, length (spec_entries id es) = length es.
Proof. induction es as [|e es IH]; intro id; [reflexivity|]. cbn [spec_entries length]. rewrite IH. reflexivity. Qed.

Theorem xstream_content_is_spec secs :
  Forall (fun s => entries_fit (fst s) (snd s)) secs ->
  xstream_content secs = enc_sections XS_W1 XS_W2 XS_W3 (spec_secs secs) /\
  xstream_index secs = index_array (spec_secs secs).
Proof.
  intro H. unfold xstream_content, enc_sections, xstream_index, index_array, spec_secs. split.
  - induction H as [|s secs Hs _ IH]; [reflexivity|]. cbn [flat_map map fst snd].
    rewrite xstream_entries_is_spec by exact Hs. rewrite IH. reflexivity.
  - f_equal. clear H. induction secs as [|s secs IH]; [reflexivity|]. cbn [flat_map map fst snd app].
    rewrite spec_entries_length, IH. reflexivity.
Qed.

(* ---------- what the sections denote ---------- *)
Lemma number_from_spec : forall es s,
  number_from s (spec_entries s es) = map (fun ke => (fst ke, to_spec (fst ke) (snd ke))) (enum s es).
Proof.
  induction es as [|e es IH]; intro s; [reflexivity|]. cbn [spec_entries number_from enum map fst snd].
  rewrite IH. reflexivity.
Qed.

Lemma numbered_spec secs :
  numbered (spec_secs secs) = map (fun ke => (fst ke, to_spec (fst ke) (snd ke))) (flatten secs).
Proof.
  unfold numbered, spec_secs, flatten. induction secs as [|s secs IH]; [reflexivity|].
  cbn [map flat_map fst snd]. rewrite map_app, number_from_spec, IH. reflexivity.
Qed.

(* the reader's insertions for Normal entries are the writer's map entries *)
Lemma spec_fold_add_all : forall l m,
  Forall normal_ok l ->
  fold_left spec_step (map (fun ke => (fst ke, to_spec (fst ke) (snd ke))) l) m = add_all m l.
Proof.
  induction l as [|[k e] l IH]; intros m H; [reflexivity|]. inversion H as [|? ? Hn H']; subst.
  unfold normal_ok in Hn. cbn [snd] in Hn. destruct e as [| |off g|c i]; try contradiction.
  cbn [map fold_left fst snd to_spec add_all]. unfold spec_step at 2. cbn [fst snd].
  destruct Hn as [_ Hg]. replace (g <=? u16_max) with true by (symmetry; apply N.leb_le; exact Hg).
  apply IH. exact H'.
Qed.


(* ---------- the sections of the loop hold entries of the map only ---------- *)
Lemma sections_loop_all (P : Save.xentry -> Prop) : forall n id x conv start cur B,
  (cur = [] \/ start + N.of_nat (length cur) = id) -> Forall P cur ->
  (forall j e, Save.xget x j = Some e -> P (conv e)) -> id + N.of_nat n <= B ->
  Forall (fun s : xsection => fst s + N.of_nat (length (snd s)) <= B /\ Forall P (snd s)) (sections_loop n id x conv start cur).
Proof.
  induction n as [|n IH]; intros id x conv start cur B Hinv Hcur Hx Hb; cbn [sections_loop].
  - destruct cur as [|c cur']; [constructor|]. destruct Hinv as [Hc|Hinv]; [discriminate|].
    constructor; [|constructor]. split; cbn [fst snd]; [lia | exact Hcur].
  - destruct (Save.xget x id) as [e|] eqn:Eg.
    + apply IH; try assumption; try lia.
      * right. rewrite app_length. cbn [length]. destruct cur; [cbn; lia|]. destruct Hinv as [Hc|Hinv]; [discriminate|]. lia.
      * apply Forall_app. split; [exact Hcur|]. constructor; [|constructor]. apply (Hx id). exact Eg.
    + destruct cur as [|c cur'].
      * apply IH; try assumption; try lia. left; reflexivity.
      * destruct Hinv as [Hc|Hinv]; [discriminate|]. constructor.
        -- split; cbn [fst snd]; [lia | exact Hcur].
        -- apply IH; try assumption; try lia; [left; reflexivity | constructor].
Qed.

(* a Normal entry with u32 offset and u16 generation *)
Definition normal_fit (e : Save.xentry) : Prop :=
  match e with Save.XNormal a b => a < two32 /\ b < 65536 | _ => False end.

Lemma normal_entries_fit : forall es id, Forall normal_fit es -> entries_fit id es.
Proof.
  induction es as [|e es IH]; intros id H; [exact I|]. inversion H; subst. split; [|apply IH; assumption].
  destruct e; try contradiction. exact H2.
Qed.

Lemma normal_spec_ok : forall es id, Forall normal_fit es ->
  Forall (XrefSpec.entry_ok XS_W1 XS_W2 XS_W3) (spec_entries id es) /\ Forall entry_in_range (spec_entries id es).
Proof.
  induction es as [|e es IH]; intros id H; [split; constructor|]. inversion H as [|? ? He H']; subst.
  destruct (IH (id + 1) H') as [I1 I2]. destruct e as [| |a b|c i]; try contradiction. destruct He as [Ha Hb].
  cbn [spec_entries to_spec]. split; constructor; try assumption.
  - unfold XrefSpec.entry_ok. cbn [entry_fields]. split; [|split].
    + unfold fits. reflexivity.
    + unfold fits. rewrite <- two32_256. exact Ha.
    + unfold fits. rewrite <- two16_256. exact Hb.
  - cbn [entry_in_range]. split; assumption.
Qed.

Lemma xget_in (x : Save.xmap) j e : Save.xget x j = Some e -> In (j, e) x.
Proof.
  induction x as [|[k e'] x IH]; [discriminate|]. cbn [Save.xget].
  destruct (k =? j) eqn:E; intro H; [apply N.eqb_eq in E; subst; inversion H; left; reflexivity | right; apply IH; exact H].
Qed.

(* ---------- present, for any conversion that keeps Normal entries ---------- *)
Lemma present_sorted_gen conv : (forall a b, conv (Save.XNormal a b) = Save.XNormal a b) ->
  forall n lo x,
  incr lo x -> Forall (fun ke => fst ke < lo + N.of_nat n) x -> Forall normal_ok x ->
  present x conv lo n = x.
Proof.
  intro Hc. induction n as [|n IH]; intros lo x Hi Hb Hn.
  - destruct x as [|[k e] x]; [reflexivity|]. cbn [incr] in Hi. inversion Hb; subst. cbn [fst] in *. lia.
  - cbn [present]. destruct x as [|[k e] x].
    + cbn [Save.xget app]. apply IH; [exact I | constructor | constructor].
    + cbn [incr] in Hi. destruct Hi as [Hk Hi]. inversion Hb; subst. inversion Hn as [|? ? Hne Hn']; subst. cbn [fst] in *.
      destruct (N.eq_dec k lo) as [->|Hne'].
      * cbn [Save.xget]. rewrite N.eqb_refl. unfold normal_ok in Hne. cbn [snd] in Hne.
        destruct e as [| |off g|c i]; try contradiction. rewrite Hc. cbn [app]. f_equal.
        rewrite (present_ext n (lo + 1) ((lo, Save.XNormal off g) :: x) x).
        -- apply IH; [exact Hi | | exact Hn']. eapply Forall_impl; [|exact H2]. intros a Ha. cbn beta in *. lia.
        -- intros j Hj. cbn [Save.xget]. replace (lo =? j) with false by (symmetry; apply N.eqb_neq; lia). reflexivity.
      * cbn [Save.xget]. replace (k =? lo) with false by (symmetry; apply N.eqb_neq; lia).
        rewrite (xget_none_incr x (k + 1) lo Hi) by lia. cbn [app].
        apply IH; [cbn [incr]; split; [lia | exact Hi] | | exact Hn].
        constructor; [cbn [fst]; lia|]. eapply Forall_impl; [|exact H2]. intros a Ha. cbn beta in *. lia.
Qed.

(* ---------- the cross-reference stream of a sorted map is read back as that map ---------- *)
Theorem xref_stream_roundtrip (x : Save.xmap) size (d : dict) (sz : Z) :
  size < two32 -> incr 1 x -> Forall (fun ke => fst ke <= size) x -> Forall normal_ok x ->
  dict_get d Xref.K_Size = Some (OInt sz) -> dict_get d Xref.K_W = Some xs_W ->
  dict_get d Xref.K_Index = Some (xstream_index (stream_sections x size)) ->
  decode_xref_plain d (xstream_content (stream_sections x size)) =
  XOk ({| x_type := XTStream; x_entries := conv_map x; x_size := i64_as_u32 sz |},
       dict_swap_remove (dict_swap_remove (dict_swap_remove d K_Length) Xref.K_W) Xref.K_Index).
Proof.
  intros Hs Hi Hb Hn HS HW HI.
  set (secs := stream_sections x size) in *.
  assert (Hall : Forall (fun s : xsection => fst s + N.of_nat (length (snd s)) <= two32 /\ Forall normal_fit (snd s)) secs).
  { unfold secs, stream_sections. apply sections_loop_all.
    - left. reflexivity.
    - constructor.
    - intros j e Hg. apply xget_in in Hg. rewrite Forall_forall in Hn. specialize (Hn _ Hg).
      unfold normal_ok in Hn. cbn [snd] in Hn. destruct e; try contradiction. cbn [normal_fit].
      unfold u32_max, u16_max, two32 in *. lia.
    - rewrite N2Nat.id. unfold two32 in *. lia. }
  assert (Hfit : Forall (fun s => entries_fit (fst s) (snd s)) secs).
  { eapply Forall_impl; [|exact Hall]. intros s [_ H]. apply normal_entries_fit. exact H. }
  destruct (xstream_content_is_spec secs Hfit) as [Ec Ei]. rewrite Ec.
  rewrite (xref_stream_any_W_Index XS_W1 XS_W2 XS_W3 (spec_secs secs) d sz).
  - f_equal. f_equal. f_equal. rewrite numbered_spec. unfold spec_map.
    assert (Efl : flatten secs = x).
    { unfold secs, stream_sections. rewrite flatten_sections_loop by (left; reflexivity). cbn [enum app].
      apply present_sorted_gen; [reflexivity | exact Hi | | exact Hn].
      rewrite N2Nat.id. eapply Forall_impl; [|exact Hb]. intros a Ha. cbn beta in *. lia. }
    rewrite Efl. rewrite spec_fold_add_all by exact Hn.
    rewrite (add_all_sorted x 1 []) by (try assumption; constructor). reflexivity.
  - cbv. lia.
  - unfold spec_secs. apply Forall_forall. intros s' Hin. apply in_map_iff in Hin as [s [<- Hin]].
    rewrite Forall_forall in Hall. destruct (Hall s Hin) as [H1 H2].
    destruct (normal_spec_ok (snd s) (fst s) H2) as [K1 K2].
    unfold XrefProofs.sec_ok. cbn [fst snd]. rewrite spec_entries_length. split; [exact K1|]. split; [exact K2 | exact H1].
  - exact HS.
  - exact HW.
  - rewrite HI, Ei. reflexivity.
Qed.


(* ---------- the dictionary of the cross-reference stream ---------- *)
(* the trailer after the updates of write_cross_reference_stream *)
Definition xs_trailer (tr : dict) (sz : Z) (idx : obj) (len : Z) : dict :=
  dict_set (dict_swap_remove (dict_set (dict_set (dict_set (dict_set tr K_Type (OName K_XRef))
    Save.K_Size (OInt sz)) Save.K_W xs_W) Save.K_Index idx) K_Filter) K_Length (OInt len).

Lemma xstream_parts_eq d x n :
  xstream_parts d x n =
  let x1 := Save.xinsert x (d_max_id d + 1) (Save.XNormal n 0) in
  let secs := stream_sections x1 (d_max_id d + 1) in
  (xs_trailer (d_trailer d) (Z.of_N (d_max_id d + 1 + 1)) (xstream_index secs)
              (Z.of_nat (length (xstream_content secs))), xstream_content secs, x1).
Proof. reflexivity. Qed.

Lemma xs_trailer_wf tr sz idx len : dict_wf tr -> dict_wf (xs_trailer tr sz idx len).
Proof. intro W. unfold xs_trailer. repeat (apply dict_set_wf || apply swap_remove_wf). exact W. Qed.

Lemma swap_remove_forall (P : bytes * obj -> Prop) d k : dict_wf d -> Forall P d -> Forall P (dict_swap_remove d k).
Proof.
  intros W H. rewrite Forall_forall in *. intros [k' v'] Hin. apply swap_remove_in in Hin; [|exact W]. apply H. tauto.
Qed.

Lemma dict_set_forall_val (Q : obj -> Prop) d k v :
  Forall (fun kv => Q (snd kv)) d -> Q v -> Forall (fun kv => Q (snd kv)) (dict_set d k v).
Proof. intros H Hv. apply dict_set_forall; [exact H | exact Hv | intros; exact Hv]. Qed.

Lemma xs_trailer_forall (Q : obj -> Prop) tr sz idx len :
  dict_wf tr -> Forall (fun kv => Q (snd kv)) tr ->
  Q (OName K_XRef) -> Q (OInt sz) -> Q xs_W -> Q idx -> Q (OInt len) ->
  Forall (fun kv => Q (snd kv)) (xs_trailer tr sz idx len).
Proof.
  intros W H Q1 Q2 Q3 Q4 Q5. unfold xs_trailer.
  apply dict_set_forall_val; [|exact Q5]. apply swap_remove_forall; [repeat apply dict_set_wf; exact W|].
  repeat (apply dict_set_forall_val; [|assumption]). exact H.
Qed.

Definition is_key (k k' : bytes) : bool := bytes_eqb k k'.

Lemma xs_trailer_get tr sz idx len k : dict_wf tr ->
  dict_get (xs_trailer tr sz idx len) k =
  if bytes_eqb k K_Length then Some (OInt len)
  else if bytes_eqb k K_Filter then None
  else if bytes_eqb k Save.K_Index then Some idx
  else if bytes_eqb k Save.K_W then Some xs_W
  else if bytes_eqb k Save.K_Size then Some (OInt sz)
  else if bytes_eqb k K_Type then Some (OName K_XRef)
  else dict_get tr k.
Proof.
  intro W. unfold xs_trailer.
  destruct (bytes_eqb k K_Length) eqn:E1; [apply bytes_eqb_eq in E1; subst k; apply dict_get_set_same|].
  apply bytes_eqb_neq in E1. rewrite dict_get_set_other by exact E1.
  assert (W4 : dict_wf (dict_set (dict_set (dict_set (dict_set tr K_Type (OName K_XRef)) Save.K_Size (OInt sz)) Save.K_W xs_W) Save.K_Index idx))
    by (repeat apply dict_set_wf; exact W).
  destruct (bytes_eqb k K_Filter) eqn:E2; [apply bytes_eqb_eq in E2; subst k; apply dict_get_swap_remove_same; exact W4|].
  apply bytes_eqb_neq in E2. rewrite dict_get_swap_remove_other by assumption.
  destruct (bytes_eqb k Save.K_Index) eqn:E3; [apply bytes_eqb_eq in E3; subst k; apply dict_get_set_same|].
  apply bytes_eqb_neq in E3. rewrite dict_get_set_other by exact E3.
  destruct (bytes_eqb k Save.K_W) eqn:E4; [apply bytes_eqb_eq in E4; subst k; apply dict_get_set_same|].
  apply bytes_eqb_neq in E4. rewrite dict_get_set_other by exact E4.
  destruct (bytes_eqb k Save.K_Size) eqn:E5; [apply bytes_eqb_eq in E5; subst k; apply dict_get_set_same|].
  apply bytes_eqb_neq in E5. rewrite dict_get_set_other by exact E5.
  destruct (bytes_eqb k K_Type) eqn:E6; [apply bytes_eqb_eq in E6; subst k; apply dict_get_set_same|].
  apply bytes_eqb_neq in E6. rewrite dict_get_set_other by exact E6. reflexivity.
Qed.

(* the three removals of decode_xref_stream *)
Definition sr3 (d : dict) : dict :=
  dict_swap_remove (dict_swap_remove (dict_swap_remove d K_Length) Xref.K_W) Xref.K_Index.

Lemma sr3_wf d : dict_wf d -> dict_wf (sr3 d).
Proof. intro W. unfold sr3. repeat apply swap_remove_wf. exact W. Qed.

Lemma sr3_forall (P : bytes * obj -> Prop) d : dict_wf d -> Forall P d -> Forall P (sr3 d).
Proof.
  intros W H. unfold sr3. apply swap_remove_forall; [repeat apply swap_remove_wf; exact W|].
  apply swap_remove_forall; [apply swap_remove_wf; exact W|]. apply swap_remove_forall; assumption.
Qed.

Lemma sr3_get d k : dict_wf d ->
  dict_get (sr3 d) k =
  if bytes_eqb k Xref.K_Index || bytes_eqb k Xref.K_W || bytes_eqb k K_Length then None else dict_get d k.
Proof.
  intro W. unfold sr3.
  destruct (bytes_eqb k Xref.K_Index) eqn:E1.
  { apply bytes_eqb_eq in E1; subst k. apply dict_get_swap_remove_same. repeat apply swap_remove_wf. exact W. }
  apply bytes_eqb_neq in E1. rewrite dict_get_swap_remove_other by (try exact E1; repeat apply swap_remove_wf; exact W).
  destruct (bytes_eqb k Xref.K_W) eqn:E2.
  { apply bytes_eqb_eq in E2; subst k. apply dict_get_swap_remove_same. apply swap_remove_wf. exact W. }
  apply bytes_eqb_neq in E2. rewrite dict_get_swap_remove_other by (try exact E2; apply swap_remove_wf; exact W).
  destruct (bytes_eqb k K_Length) eqn:E3.
  { apply bytes_eqb_eq in E3; subst k. apply dict_get_swap_remove_same. exact W. }
  apply bytes_eqb_neq in E3. rewrite dict_get_swap_remove_other by assumption. reflexivity.
Qed.

Lemma norm_dict_keys d : keys (norm_dict d) = keys d.
Proof. unfold keys, norm_dict. rewrite map_map. reflexivity. Qed.

Lemma norm_dict_wf d : dict_wf d -> dict_wf (norm_dict d).
Proof. unfold dict_wf. rewrite norm_dict_keys. tauto. Qed.

(* ---------- nesting as a bound on the values ---------- *)
Lemma nest_dict_bound d B : (nest_dict d <= B)%nat <-> Forall (fun kv => (nest (snd kv) <= B)%nat) d.
Proof.
  induction d as [|[k v] d IH]; cbn [nest_dict fold_right snd]; [split; [constructor | lia]|].
  fold (nest_dict d). split.
  - intro H. constructor; [cbn [snd]; lia | apply IH; lia].
  - intro H. inversion H; subst. cbn [snd] in *. apply IH in H3. lia.
Qed.

(* ---------- the Index array ---------- *)
Lemma index_ints (secs : list xsection) :
  Forall (fun s : xsection => fst s + N.of_nat (length (snd s)) <= two32) secs ->
  Forall (fun o => exists z, o = OInt z /\ in_i64 z = true)
    (flat_map (fun s : xsection => [OInt (Z.of_N (fst s)); OInt (Z.of_nat (length (snd s)))]) secs).
Proof.
  induction 1 as [|s secs Hs _ IH]; [constructor|]. cbn [flat_map app].
  constructor; [|constructor; [|exact IH]]; eexists; (split; [reflexivity|]);
    unfold in_i64, i64_min, i64_max, two32 in *; apply andb_true_iff; split; apply Z.leb_le; lia.
Qed.

Lemma ints_props l : Forall (fun o => exists z, o = OInt z /\ in_i64 z = true) l ->
  obj_wf (OArr l) /\ norm_obj (OArr l) = OArr l /\ nest (OArr l) = 1%nat.
Proof.
  intro H. split; [|split].
  - constructor. eapply Forall_impl; [|exact H]. intros o [z [-> Hz]]. constructor. exact Hz.
  - cbn [norm_obj]. f_equal. induction H as [|o l [z [-> _]] _ IH]; [reflexivity|]. cbn [map norm_obj]. rewrite IH. reflexivity.
  - cbn [nest]. f_equal. induction H as [|o l [z [-> _]] _ IH]; [reflexivity|]. cbn [fold_right nest]. rewrite IH. reflexivity.
Qed.




Lemma save_stream_ok_enc d : savable_core_enc d -> so_status (save_core XStream d) = SaveOk.
Proof.
  intro S. unfold save_core. pose proof (se_max_id d S) as Hm.
  replace (u32_top <=? d_max_id d) with false by (symmetry; apply N.leb_gt; unfold u32_top, u32_mod in *; lia).
  rewrite (se_mark d S). cbn [negb]. destruct (save_body d) as [[b xs] x].
  replace (u32_top <=? d_max_id d + 1) with false by (symmetry; apply N.leb_gt; unfold u32_top, u32_mod in *; lia).
  destruct (xstream_parts d x (xs mod u32_mod)) as [[t c] x1]. reflexivity.
Qed.

Lemma save_stream_ok d : savable_core d -> so_status (save_core XStream d) = SaveOk.
Proof. intro S. apply save_stream_ok_enc. apply core_enc. exact S. Qed.

Lemma digit_not_x c : is_dec_digit c = true -> byte_eqb x78 c = false.
Proof.
  intro H. pose proof (byte_forallb_spec (fun c => negb (is_dec_digit c) || negb (byte_eqb x78 c)) eq_refl c) as K.
  cbv beta in K. rewrite H in K. cbn [negb orb] in K. apply negb_true_iff in K. exact K.
Qed.

Lemma xref_table_number k rest : xref_table (N_dec k ++ rest) = PErr.
Proof.
  destruct (N_dec_cons k) as [c [t [E Hc]]]. rewrite E. cbn [app]. unfold xref_table, ptag.
  cbn [bs String.list_byte_of_string prefixb]. change (prefixb (bs "xref") (c :: t ++ rest)) with (byte_eqb x78 c && prefixb (bs "ref") (t ++ rest)).
  rewrite (digit_not_x c Hc). reflexivity.
Qed.

Lemma read_entries_app buf : forall es1 es2 acc,
  read_entries buf (es1 ++ es2) acc =
  match read_entries buf es1 acc with SOk a => read_entries buf es2 a | r => r end.
Proof.
  induction es1 as [|[k e] es1 IH]; intros es2 acc; [reflexivity|]. cbn [app read_entries].
  destruct e as [| |off g|c i]; try apply IH.
  destruct (Loader.blen buf <? off); [apply IH|].
  destruct (indirect_object (from off buf) None) as [id o| | | |]; try reflexivity; try apply IH.
  destruct o; try apply IH. destruct (has_type d K_ObjStm); [reflexivity | apply IH].
Qed.

Lemma incr_snoc : forall (x : Save.xmap) lo k e,
  incr lo x -> Forall (fun ke => fst ke < k) x -> lo <= k -> incr lo (x ++ [(k, e)]).
Proof.
  induction x as [|[i e'] x IH]; intros lo k e Hi Hb Hk; cbn [app incr]; [split; [exact Hk | exact I]|].
  cbn [incr] in Hi. destruct Hi as [H1 H2]. inversion Hb; subst. cbn [fst] in *.
  split; [exact H1|]. apply IH; [exact H2 | assumption | lia].
Qed.

Lemma fold_max_app (l : Xref.xmap) k e a :
  fold_left (fun a (ke : N * Xref.xentry) => N.max a (fst ke)) (l ++ [(k, e)]) a =
  N.max (fold_left (fun a (ke : N * Xref.xentry) => N.max a (fst ke)) l a) k.
Proof. rewrite fold_left_app. reflexivity. Qed.

Lemma wio_stream_length id g t c : (25 < length (write_indirect_object id g (OStream t c)))%nat.
Proof.
  rewrite wio_eq, write_stream_eq. repeat (rewrite app_length; cbn [length]).
  pose proof (eq_refl : length (bs "stream") = 6%nat). pose proof (eq_refl : length (bs "endstream") = 9%nat).
  pose proof (eq_refl : length (bs "obj") = 3%nat). pose proof (eq_refl : length (bs "endobj") = 6%nat). lia.
Qed.


(* facts about the stream dictionary of a savable_core_enc document (with or without an Encrypt entry) *)
Section StreamDict.
  Variable d : doc.
  Hypothesis S : savable_core_enc d.
  Hypothesis K : known_deep d = false.
  Variable secs : list xsection.
  Variable len : nat.
  Hypothesis Hsecs : Forall (fun s : xsection => fst s + N.of_nat (length (snd s)) <= two32) secs.
  Hypothesis Hlen : (Z.of_nat len < 4294967296)%Z.

  Let t6 := xs_trailer (d_trailer d) (Z.of_N (d_max_id d + 1 + 1)) (xstream_index secs) (Z.of_nat len).

  Lemma trailer_dict_wf : dict_wf (d_trailer d).
  Proof. pose proof (se_trailer d S) as Hw. inversion Hw; subst. assumption. Qed.

  Lemma t6_wf : obj_wf (ODict t6).
  Proof.
    pose proof (se_trailer d S) as Hw. inversion Hw as [| | | | | | |tr Hnd Hf|]; subst.
    pose proof (se_max_id d S) as Hm.
    destruct (ints_props _ (index_ints secs Hsecs)) as [I1 _].
    constructor; [apply xs_trailer_wf; exact Hnd|].
    apply (xs_trailer_forall obj_wf); try assumption.
    - constructor.
    - constructor. unfold in_i64, i64_min, i64_max, u32_mod in *. apply andb_true_iff; split; apply Z.leb_le; lia.
    - unfold xs_W. constructor. repeat constructor.
    - constructor. unfold in_i64, i64_min, i64_max. apply andb_true_iff; split; apply Z.leb_le; lia.
  Qed.

  Lemma t6_nest : (nest (OStream t6 []) <= MAX_DEPTH)%nat.
  Proof.
    unfold known_deep in K. apply orb_false_iff in K as [_ K2]. apply Nat.ltb_ge in K2.
    assert (H2 : (2 <= MAX_DEPTH)%nat) by (pose proof (Nat.le_max_l 2 (nest (ODict (d_trailer d)))); lia).
    assert (Ht : (nest (ODict (d_trailer d)) <= MAX_DEPTH)%nat) by (pose proof (Nat.le_max_r 2 (nest (ODict (d_trailer d)))); lia).
    cbn [nest] in *. fold (nest_dict (d_trailer d)) in Ht. fold (nest_dict t6).
    destruct (ints_props _ (index_ints secs Hsecs)) as [_ [_ I3]].
    assert (nest_dict t6 <= MAX_DEPTH - 1)%nat; [|lia].
    apply nest_dict_bound. apply (xs_trailer_forall (fun o => (nest o <= MAX_DEPTH - 1)%nat)).
    - apply trailer_dict_wf.
    - apply nest_dict_bound. lia.
    - cbn [nest]. lia.
    - cbn [nest]. lia.
    - unfold xs_W. cbn [nest fold_right]. lia.
    - change (nest (xstream_index secs) = 1%nat) in I3. rewrite I3. lia.
    - cbn [nest]. lia.
  Qed.

  Lemma t6_get k :
    dict_get t6 k =
    if bytes_eqb k K_Length then Some (OInt (Z.of_nat len))
    else if bytes_eqb k K_Filter then None
    else if bytes_eqb k Save.K_Index then Some (xstream_index secs)
    else if bytes_eqb k Save.K_W then Some xs_W
    else if bytes_eqb k Save.K_Size then Some (OInt (Z.of_N (d_max_id d + 1 + 1)))
    else if bytes_eqb k K_Type then Some (OName K_XRef)
    else dict_get (d_trailer d) k.
  Proof. apply xs_trailer_get. apply trailer_dict_wf. Qed.

  Lemma norm_t6_wf : dict_wf (norm_dict t6).
  Proof. apply norm_dict_wf. pose proof t6_wf as H. inversion H; assumption. Qed.
End StreamDict.


(* [front_save_stream]: the reader's front on the bytes save wrote in the stream format, and the objects its table leads
   to (the cross-reference stream object last) -- with or without an Encrypt entry; [load_save_stream] (no Encrypt:
   Loader.load) and the theorems about LoaderEnc.load_encx in Proofs/LoadProofsFull.v follow from it. *)
Definition stream_xref (x1 : Save.xmap) (size : N) : xref :=
  {| x_type := XTStream; x_entries := conv_map x1; x_size := i64_as_u32 (Z.of_N size) |}.

Theorem front_save_stream d :
  savable_core_enc d -> known_deep d = false -> small_file_core XStream d ->
  exists x1 : Save.xmap,
    load_front (so_bytes (save_core XStream d)) =
      SOk {| f_buf := so_bytes (save_core XStream d); f_version := d_version d; f_mark := d_binary_mark d;
             f_xref := stream_xref x1 (d_max_id d + 1 + 1); f_trailer := d_trailer (reloaded_stream d) |} /\
    xref_max_id (stream_xref x1 (d_max_id d + 1 + 1)) = d_max_id d + 1 /\
    Forall normal_ok x1 /\
    read_entries (so_bytes (save_core XStream d)) (conv_map x1) [] = SOk (d_objects (reloaded_stream d)) /\
    (forall k, dict_get (d_trailer (reloaded_stream d)) k =
               if bytes_eqb k Xref.K_Index || bytes_eqb k Xref.K_W || bytes_eqb k K_Length then None
               else if bytes_eqb k K_Filter then None
               else if bytes_eqb k Save.K_Size then Some (OInt (Z.of_N (d_max_id d + 1 + 1)))
               else if bytes_eqb k K_Type then Some (OName K_XRef)
               else option_map norm_obj (dict_get (d_trailer d) k)).
Proof.
  intros S K Hsmall.
  pose proof (save_stream_ok_enc d S) as Hok.
  destruct (save_core_shape XStream d Hok) as [mid [Hbytes Hmid]]. cbv zeta in Hmid.
  pose proof (se_max_id d S) as Hmax.
  set (v := d_version d). set (m := d_binary_mark d). set (objs := d_objects d).
  set (HM := header_bytes d ++ mark_bytes d).
  assert (Hobjs : Forall obj_ok objs) by (apply savable_objs_ok_enc; assumption).
  assert (Hinc : increasing 0 (obj_numbers objs)) by (apply (se_numbers d S)).
  assert (Ebody : body_of d = HM ++ objs_bytes objs).
  { unfold body_of. rewrite save_body_eq. cbv zeta. cbn [fst]. fold HM. fold objs. rewrite write_objects_bytes. reflexivity. }
  assert (Ex : xmap_of d = entries_of (Save.blen HM) objs).
  { unfold xmap_of. rewrite save_body_eq. cbv zeta. cbn [snd]. fold HM. fold objs.
    rewrite (write_objects_map objs (Save.blen HM) [] 0 Hinc (Forall_nil _)). reflexivity. }
  set (n := Save.blen (body_of d)) in *.
  set (sx := startxref_bytes n) in *.
  set (new_id := d_max_id d + 1) in *.
  assert (Hsm : Loader.blen (body_of d ++ mid ++ sx) < u32_mod).
  { unfold small_file_core in Hsmall. rewrite Hbytes in Hsmall. exact Hsmall. }
  assert (Hn_len : n = Loader.blen (body_of d)) by reflexivity.
  assert (Hn : n < u32_mod).
  { rewrite Hn_len. unfold Loader.blen in *. rewrite app_length in Hsm. lia. }
  assert (Hnmod : n mod u32_mod = n) by (apply N.mod_small; exact Hn).
  (* the parts of the stream object *)
  unfold reloaded_stream, xstream_obj, xstream_of. cbn [d_trailer d_objects]. fold n. fold new_id. fold v m objs.
  rewrite Hnmod in *. rewrite Ex in *.
  set (x := entries_of (Save.blen HM) objs) in *.
  rewrite xstream_parts_eq in *. cbv zeta in *. cbn [fst snd] in *. fold new_id in Hmid |- *.
  destruct (entries_of_props objs (Save.blen HM) 0 new_id Hobjs Hinc) as [Hxi [Hxb Hxn]].
  { pose proof (se_objects d S) as Ho. eapply Forall_impl; [|exact Ho]. intros io [H1 _]. unfold new_id. lia. }
  fold x in Hxi, Hxb, Hxn. replace (0 + 1) with 1 in Hxi by lia.
  assert (Ex1 : Save.xinsert x new_id (Save.XNormal n 0) = x ++ [(new_id, Save.XNormal n 0)]).
  { apply save_xinsert_last. exact Hxb. }
  rewrite Ex1 in *.
  set (x1 := x ++ [(new_id, Save.XNormal n 0)]) in *.
  set (secs := stream_sections x1 new_id) in *.
  set (content := xstream_content secs) in *.
  set (t6 := xs_trailer (d_trailer d) (Z.of_N (new_id + 1)) (xstream_index secs) (Z.of_nat (length content))) in *.
  assert (Hx1i : incr 1 x1).
  { unfold x1. apply incr_snoc; [exact Hxi | exact Hxb | unfold new_id; lia]. }
  assert (Hx1b : Forall (fun ke => fst ke <= new_id) x1).
  { unfold x1. apply Forall_app. split; [eapply Forall_impl; [|exact Hxb]; intros a Ha; cbn beta in *; lia|].
    constructor; [cbn [fst]; lia | constructor]. }
  assert (Hx1n : Forall normal_ok x1).
  { unfold x1. apply Forall_app. split; [exact Hxn|]. constructor; [|constructor].
    unfold normal_ok. cbn [snd]. unfold u32_max, u16_max, u32_mod in *. lia. }
  assert (Hnew32 : new_id < two32) by (unfold new_id, two32, u32_mod in *; lia).
  assert (Hsecs : Forall (fun s : xsection => fst s + N.of_nat (length (snd s)) <= two32) secs).
  { assert (Hall : Forall (fun s : xsection => fst s + N.of_nat (length (snd s)) <= two32 /\ Forall (fun _ => True) (snd s)) secs).
    { unfold secs, stream_sections. apply sections_loop_all; [left; reflexivity | constructor | intros; exact I |].
      rewrite N2Nat.id. unfold two32 in *. lia. }
    eapply Forall_impl; [|exact Hall]. intros s [H _]. exact H. }
  set (file := body_of d ++ mid ++ sx) in *.
  assert (Hclen : (Z.of_nat (length content) < 4294967296)%Z).
  { assert (length content <= length file)%nat; [|unfold Loader.blen, u32_mod in Hsm; lia].
    unfold file. rewrite Hmid, wio_eq, write_stream_eq. repeat (rewrite app_length; cbn [length]). lia. }
  pose proof (t6_wf d S secs (length content) Hsecs Hclen) as Hwf. fold new_id in Hwf. fold t6 in Hwf.
  pose proof (t6_nest d S K secs (length content) Hsecs) as Hnest. fold new_id in Hnest. fold t6 in Hnest.
  assert (Hget := t6_get d S secs (length content)). fold new_id in Hget. fold t6 in Hget.
  assert (Hdw : dict_wf (norm_dict t6)) by (apply norm_dict_wf; inversion Hwf; assumption).
  assert (Htop : top_wf (OStream t6 content)).
  { cbn [top_wf]. split; [exact Hwf|]. rewrite Hget. reflexivity. }
  assert (Hnest' : (nest (OStream t6 content) <= MAX_DEPTH)%nat) by exact Hnest.
  (* views of the file *)
   rewrite Hbytes. fold file.
  assert (E1 : file = bs "%PDF-" ++ v ++ x0a :: x25 :: m ++ x0a :: (objs_bytes objs ++ mid ++ sx)).
  { unfold file. rewrite Ebody. unfold HM, header_bytes, mark_bytes. fold v. fold m.
    repeat (rewrite <- app_assoc; cbn [app]). reflexivity. }
  assert (E2 : file = (body_of d ++ mid) ++ sx) by (unfold file; rewrite <- !app_assoc; reflexivity).
  assert (E3 : file = HM ++ objs_bytes objs ++ (mid ++ sx)) by (unfold file; rewrite Ebody, <- !app_assoc; reflexivity).
  assert (Hio : indirect_object (from n file) None = IOk (new_id, 0) (OStream (norm_dict t6) content)).
  { rewrite Hn_len. unfold file. rewrite from_app. rewrite Hmid.
    apply (indirect_object_rt new_id 0 (OStream t6 content) sx); try assumption.
    - unfold u32_max, new_id, u32_mod in *. lia.
    - unfold u16_max. lia. }
  assert (Hgn : forall k, dict_get (norm_dict t6) k = option_map norm_obj (dict_get t6 k)) by (intro; apply dict_get_norm).
  assert (Hsr3 : forall k, dict_get (sr3 (norm_dict t6)) k =
                           if bytes_eqb k Xref.K_Index || bytes_eqb k Xref.K_W || bytes_eqb k K_Length then None
                           else option_map norm_obj (dict_get t6 k)).
  { intro k. rewrite sr3_get by exact Hdw. rewrite Hgn. reflexivity. }
  assert (Hlast : last_number objs <= d_max_id d).
  { unfold last_number. apply fold_max_le; [lia|]. pose proof (se_objects d S) as Ho.
    eapply Forall_impl; [|exact Ho]. intros io [H1 _]. exact H1. }
  assert (Hmaxid : xref_max_id (stream_xref x1 (new_id + 1)) = new_id).
  { unfold xref_max_id, stream_xref. cbn [x_entries]. unfold x1, conv_map. rewrite map_app, fold_left_app.
    fold (conv_map x). unfold x. rewrite max_id_fold by exact Hobjs.
    fold (last_number objs). cbn [map fold_left]. unfold conv_entry. cbn [fst]. apply N.max_r. eapply N.le_trans; [exact Hlast | unfold new_id; lia]. }
  exists x1.
  change (dict_swap_remove (dict_swap_remove (dict_swap_remove (norm_dict t6) K_Length) Save.K_W) Save.K_Index)
    with (sr3 (norm_dict t6)).
  split; [|split; [exact Hmaxid|split; [exact Hx1n|split]]].
  - (* the front *)
    unfold load_front.
    assert (Hoff : pdf_offset file = 0) by (rewrite E1; apply pdf_offset_header).
    rewrite Hoff, from_0.
    assert (Hhead : header file = Some v).
    { rewrite E1. apply header_rt; [apply (se_version_eol d S) | apply (se_version_utf8 d S)]. }
    rewrite Hhead.
    assert (Hmark : read_binary_mark file = m).
    { rewrite E1. apply binary_mark_rt; [apply (se_version_eol d S) | apply (se_mark d S)]. }
    rewrite Hmark.
    assert (Hstart : get_xref_start file = Some n).
    { rewrite E2. apply get_xref_start_rt.
      - rewrite Hn_len. unfold Loader.blen. rewrite app_length. lia.
      - unfold Loader.blen. rewrite app_length. rewrite Hmid. pose proof (wio_stream_length new_id 0 t6 content). lia.
      - unfold u32_mod in *. change (10 ^ 14) with 100000000000000. lia. }
    rewrite Hstart.
    (* the cross-reference stream *)
    assert (Hidx : norm_obj (xstream_index secs) = xstream_index secs).
    { destruct (ints_props _ (index_ints secs Hsecs)) as [_ [I2 _]]. exact I2. }
    assert (Hxt : xref_and_trailer file n = SOk (stream_xref x1 (new_id + 1), sr3 (norm_dict t6))).
    { unfold xref_and_trailer.
      assert (Etab : xref_and_trailer_table (from n file) = XNoMatch).
      { rewrite Hn_len. unfold file. rewrite from_app. rewrite Hmid, wio_eq. rewrite <- app_assoc.
        unfold xref_and_trailer_table. rewrite xref_table_number. reflexivity. }
      rewrite Etab, Hio.
      replace (dict_has (norm_dict t6) K_Filter) with false
        by (unfold dict_has; rewrite Hgn, Hget; reflexivity).
      unfold content, secs.
      rewrite (xref_stream_roundtrip x1 new_id (norm_dict t6) (Z.of_N (new_id + 1))); try assumption.
      - reflexivity.
      - change Xref.K_Size with Save.K_Size. rewrite Hgn, Hget. reflexivity.
      - change Xref.K_W with Save.K_W. rewrite Hgn, Hget. reflexivity.
      - change Xref.K_Index with Save.K_Index. fold secs.
        transitivity (option_map norm_obj (Some (xstream_index secs))); [rewrite Hgn, Hget; reflexivity|].
        cbn [option_map]. rewrite Hidx. reflexivity. }
    rewrite Hxt.
    (* Prev, size *)
    assert (Hprev : dict_get (sr3 (norm_dict t6)) Xref.K_Prev = None).
    { rewrite Hsr3, Hget. cbn [bytes_eqb orb]. change Xref.K_Prev with Save.K_Prev.
      rewrite (dict_has_false_get _ _ (se_no_prev d S)). reflexivity. }
    rewrite Hprev.
    assert (Hsr : dict_swap_remove (sr3 (norm_dict t6)) Xref.K_Prev = sr3 (norm_dict t6)).
    { unfold dict_swap_remove at 1, dict_has. rewrite Hprev. reflexivity. }
    rewrite Hsr. cbn [prev_loop].
    rewrite Hmaxid.
    replace (u32_max <=? new_id) with false
      by (symmetry; apply N.leb_gt; unfold u32_max, new_id, u32_mod in *; lia).
    reflexivity.
  - (* the objects, then the cross-reference stream itself *)
    unfold x1, conv_map. rewrite map_app. fold (conv_map x). rewrite read_entries_app.
    assert (R1 : read_entries file (conv_map x) [] = SOk (norm_objects objs)).
    { rewrite E3. unfold x. rewrite (read_entries_objs objs HM _ [] 0); try assumption.
      - reflexivity.
      - constructor.
      - rewrite E3 in Hsm. exact Hsm. }
    rewrite R1. change (map conv_entry [(new_id, Save.XNormal n 0)]) with [(new_id, Xref.XNormal n 0)].
    rewrite (read_entries_cons file new_id n 0 [] (norm_objects objs) (new_id, 0) (OStream (norm_dict t6) content)).
    + cbn [read_entries]. rewrite insert_last; [reflexivity|]. cbn [fst].
      unfold norm_objects. apply Forall_forall. intros io' Hin. apply in_map_iff in Hin as [io [<- Hin]]. cbn [fst].
      pose proof (se_objects d S) as Ho. rewrite Forall_forall in Ho. destruct (Ho io Hin) as [H1 _]. eapply N.le_lt_trans; [exact H1 | unfold new_id; lia].
    + apply N.ltb_ge. rewrite Hn_len. unfold file, Loader.blen. rewrite app_length. lia.
    + exact Hio.
    + intros d0 c0 E. inversion E; subst. unfold has_type. rewrite Hgn, Hget. reflexivity.
  - (* the trailer, key by key *)
    intro k. rewrite Hsr3, Hget.
    destruct (bytes_eqb k Xref.K_Index || bytes_eqb k Xref.K_W || bytes_eqb k K_Length) eqn:E3k; [reflexivity|].
    apply orb_false_iff in E3k as [E3a E3c]. apply orb_false_iff in E3a as [E3a E3b].
    change Xref.K_Index with Save.K_Index in E3a. change Xref.K_W with Save.K_W in E3b.
    rewrite E3c, E3a, E3b.
    destruct (bytes_eqb k K_Filter); [reflexivity|].
    destruct (bytes_eqb k Save.K_Size); [reflexivity|].
    destruct (bytes_eqb k K_Type); reflexivity.
Qed.

Theorem load_save_stream d :
  savable_core d -> known_deep d = false -> small_file_core XStream d ->
  load (so_bytes (save_core XStream d)) = LOk (reloaded_stream d) XTStream.
Proof.
  intros S K Hsmall.
  destruct (front_save_stream d (core_enc d S) K Hsmall) as [x1 [Hf [Hm [_ [Hr Hk]]]]].
  rewrite load_front_eq, Hf. unfold of_front, load_tail. cbn [f_trailer f_buf f_xref].
  assert (Henc : dict_has (d_trailer (reloaded_stream d)) Loader.K_Encrypt = false).
  { unfold dict_has. rewrite Hk. cbn [bytes_eqb orb]. change Loader.K_Encrypt with Save.K_Encrypt.
    rewrite (dict_has_false_get _ _ (sv_no_encrypt d S)). reflexivity. }
  rewrite Henc. change (x_entries (stream_xref x1 (d_max_id d + 1 + 1))) with (conv_map x1). rewrite Hr.
  unfold doc_of. cbn [f_version f_mark f_trailer f_xref]. rewrite Hm. reflexivity.
Qed.
