(* RealProofs.v -- reals.  The model keeps an f32 as the decimal text Rust's Display prints
   (DESIGN 3).  A text with a decimal point is re-read as the same text; an integral text is
   re-read as the integer it denotes (the permitted difference of C01/C14); an integral text at
   or beyond the 2^63 threshold is written with ".0" appended and re-read as that text. *)
From LV Require Import Base.Bytes Base.Sx Model.Obj Model.Writer Model.Parser Gen.Lex Proofs.LexProofs.
From Coq Require Import ZifyBool ZifyN.

Local Open Scope N_scope.

(* the shape of Display output for a finite f32: -?digits(.digits)? *)
Definition real_text (neg : bool) (ds fs : bytes) : bytes :=
  (if neg then [x2d] else []) ++ ds ++ (match fs with [] => [] | _ => x2e :: fs end).

Record real_parts := { rp_neg : bool; rp_int : bytes; rp_frac : bytes }.
Definition real_of (p : real_parts) : bytes := real_text (rp_neg p) (rp_int p) (rp_frac p).
Definition parts_wf (p : real_parts) : Prop :=
  rp_int p <> [] /\ forallb is_dec_digit (rp_int p) = true /\ forallb is_dec_digit (rp_frac p) = true.

Definition digit_or_point (c : byte) : bool := is_dec_digit c || byte_eqb c x2e.

Lemma digits_cons l : l <> [] -> forallb is_dec_digit l = true ->
  exists c t, l = c :: t /\ is_dec_digit c = true.
Proof.
  intros Hne Hd. destruct l as [|c t]; [contradiction|]. exists c, t. split; [reflexivity|].
  cbn in Hd. apply andb_true_iff in Hd. tauto.
Qed.

Lemma point_not_digit : is_dec_digit x2e = false. Proof. reflexivity. Qed.

Definition frac_text (fs : bytes) : bytes := match fs with [] => [] | _ => x2e :: fs end.

Lemma real_text_app neg ds fs rest :
  real_text neg ds fs ++ rest = (if neg then [x2d] else []) ++ ds ++ frac_text fs ++ rest.
Proof. unfold real_text, frac_text. rewrite <- !app_assoc. reflexivity. Qed.

Lemma opt_sign_text neg ds tail :
  ds <> [] -> forallb is_dec_digit ds = true ->
  opt_sign ((if neg then [x2d] else []) ++ ds ++ tail) = (if neg then Some true else None, ds ++ tail).
Proof.
  intros Hne Hd. destruct neg; cbn [app]; [reflexivity|]. apply (opt_sign_digits ds _ Hne Hd).
Qed.

(* with a fractional part: read back verbatim *)
Lemma real_rt_frac neg ds fs rest :
  ds <> [] -> forallb is_dec_digit ds = true -> fs <> [] -> forallb is_dec_digit fs = true ->
  starts_with is_dec_digit rest = false ->
  real (real_text neg ds fs ++ rest) = POk (real_text neg ds fs) rest.
Proof.
  intros Hne Hd Hfne Hf Hr. unfold real. rewrite real_text_app, (opt_sign_text _ _ _ Hne Hd).
  destruct fs as [|f0 fs']; [contradiction|]. set (fs := f0 :: fs') in *.
  change (frac_text fs) with (x2e :: fs). cbn [app].
  rewrite (take_while_app is_dec_digit ds (x2e :: fs ++ rest) Hd) by reflexivity.
  destruct (digits_cons ds Hne Hd) as [c [t [E _]]]. rewrite E at 1.
  change (byte_eqb x2e x2e) with true. cbn iota.
  rewrite (take_while_app is_dec_digit fs rest Hf Hr).
  unfold real_text. change (match fs with [] => [] | _ :: _ => x2e :: fs end) with (x2e :: fs).
  destruct neg; reflexivity.
Qed.

(* without a fractional part the [real] alternative does not match *)
Lemma real_int_err neg ds rest :
  ds <> [] -> forallb is_dec_digit ds = true ->
  starts_with digit_or_point rest = false ->
  real (real_text neg ds [] ++ rest) = PErr.
Proof.
  intros Hne Hd Hr. unfold real. rewrite real_text_app, (opt_sign_text _ _ _ Hne Hd).
  cbn [frac_text app].
  assert (Hr1 : starts_with is_dec_digit rest = false).
  { destruct rest as [|c r]; [reflexivity|]. cbn in *. unfold digit_or_point in Hr.
    apply orb_false_iff in Hr. tauto. }
  rewrite (take_while_app is_dec_digit ds rest Hd Hr1).
  destruct (digits_cons ds Hne Hd) as [c [t [E _]]]. rewrite E.
  destruct rest as [|c0 r]; [reflexivity|]. cbn in Hr. unfold digit_or_point in Hr.
  apply orb_false_iff in Hr as [_ Hr]. rewrite Hr. reflexivity.
Qed.

(* an integral text denotes this integer *)
Definition int_of_text (neg : bool) (ds : bytes) : Z :=
  if neg then Z.opp (Z.of_N (digits_val ds)) else Z.of_N (digits_val ds).

Lemma integer_text neg ds rest :
  ds <> [] -> forallb is_dec_digit ds = true ->
  in_i64 (int_of_text neg ds) = true ->
  starts_with is_dec_digit rest = false ->
  integer (real_text neg ds [] ++ rest) = POk (int_of_text neg ds) rest.
Proof.
  intros Hne Hd Hz Hr. unfold integer. rewrite real_text_app, (opt_sign_text _ _ _ Hne Hd).
  cbn [frac_text app].
  rewrite (take_while_app is_dec_digit ds rest Hd Hr), (match_nonempty _ _ _ Hne).
  unfold int_of_text, in_i64 in *. destruct neg; rewrite Hz; reflexivity.
Qed.

(* what the writer does with a real text *)
Lemma needs_point_text neg ds :
  ds <> [] -> forallb is_dec_digit ds = true ->
  real_needs_point (real_text neg ds []) = (REAL_POINT_DISPLAY_THRESHOLD <=? digits_val ds).
Proof.
  intros Hne Hd. unfold real_needs_point, real_text. rewrite app_nil_r.
  destruct (digits_cons ds Hne Hd) as [c [t [E Hc]]].
  destruct neg; cbn [app].
  - rewrite E at 1. rewrite Hd. reflexivity.
  - rewrite E at 1. destruct (digit_not_sign c Hc) as [Hm _].
    assert ((match c :: t with x2d :: t0 => t0 | _ => c :: t end) = c :: t) as ->
      by (destruct c; try reflexivity; contradiction).
    rewrite <- E, Hd. rewrite E at 1. reflexivity.
Qed.

Lemma needs_point_frac neg ds fs :
  fs <> [] -> real_needs_point (real_text neg ds fs) = false.
Proof.
  intros Hf. unfold real_needs_point, real_text. destruct fs as [|f0 fs]; [contradiction|].
  assert (forall l, forallb is_dec_digit (l ++ x2e :: f0 :: fs) = false) as Hno.
  { induction l as [|c l IH]; cbn [app forallb]; [reflexivity|]. rewrite IH. apply andb_false_r. }
  destruct neg; cbn [app].
  - destruct (ds ++ x2e :: f0 :: fs) eqn:E; [reflexivity|]. rewrite <- E, Hno. reflexivity.
  - destruct (ds ++ x2e :: f0 :: fs) as [|c t] eqn:E; [reflexivity|].
    destruct (byte_eqb c x2d) eqn:Ec.
    + apply byte_eqb_eq in Ec. subst c.
      destruct t as [|c2 t2]; [reflexivity|].
      assert (forallb is_dec_digit (x2d :: c2 :: t2) = false) as H1 by (rewrite <- E; apply Hno).
      cbn [forallb] in H1.
      destruct (forallb is_dec_digit (c2 :: t2)) eqn:E2; [|reflexivity].
      cbn [forallb] in E2. rewrite E2 in H1. cbn in H1. discriminate.
    + assert ((match c :: t with x2d :: t0 => t0 | _ => c :: t end) = c :: t) as ->.
      { apply byte_eqb_neq in Ec. destruct c; try reflexivity; contradiction. }
      rewrite <- E, Hno. reflexivity.
Qed.

Definition i64_threshold_ok : Prop := (Z.of_N REAL_POINT_DISPLAY_THRESHOLD <= i64_max + 1)%Z.
Lemma threshold_ok : i64_threshold_ok. Proof. unfold i64_threshold_ok. vm_compute. discriminate. Qed.

(* below the threshold an integral text is inside the i64 range *)
Lemma below_threshold_i64 neg ds :
  (REAL_POINT_DISPLAY_THRESHOLD <=? digits_val ds) = false -> in_i64 (int_of_text neg ds) = true.
Proof.
  intro H. pose proof threshold_ok as T. unfold i64_threshold_ok in T.
  unfold in_i64, int_of_text, i64_min, i64_max in *. destruct neg; lia.
Qed.
