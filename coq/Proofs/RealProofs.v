(* RealProofs.v -- reals.  The model keeps an f32 as the decimal text Rust's Display prints
   (DESIGN 3).  A text with a decimal point is re-read as the same text; an integral text is
   re-read as the integer it denotes (the permitted difference of C01/C14); an integral text at
   or beyond the 2^63 threshold is written with ".0" appended and re-read as that text. *)
From LV Require Import Base.Bytes Base.Sx Model.Obj Model.Writer Model.Parser Gen.Lex Proofs.LexProofs.
From Coq Require Import ZifyBool ZifyN.

Local Open Scope N_scope.

(* the shape of Display output for a finite f32: -?digits(.digits)? *)
Definition real_text (neg : bool) (ds fs : bytes) : bytes :=
  (if neg then [x2d] else []) ++ ds ++ (match fs with [] => [] | _ => x2e :: fs end).

Record real_parts := { rp_neg : bool; rp_int : bytes; rp_frac : bytes }.
Definition real_of (p : real_parts) : bytes := real_text (rp_neg p) (rp_int p) (rp_frac p).
Definition parts_wf (p : real_parts) : Prop :=
  rp_int p <> [] /\ forallb is_dec_digit (rp_int p) = true /\ forallb is_dec_digit (rp_frac p) = true.

Definition digit_or_point (c : byte) : bool := is_dec_digit c || byte_eqb c x2e.

Lemma digits_cons l : l <> [] -> forallb is_dec_digit l = true ->
  exists c t, l = c :: t /\ is_dec_digit c = true.
Proof.
  intros Hne Hd. destruct l as [|c t]; [contradiction|]. exists c, t. split; [reflexivity|].
  cbn in Hd. apply andb_true_iff in Hd. tauto.
Qed.

Lemma point_not_digit : is_dec_digit x2e = false. Proof. reflexivity. Qed.

Definition frac_text (fs : bytes) : bytes := match fs with [] => [] | _ => x2e :: fs end.

Lemma real_text_app neg ds fs rest :
  real_text neg ds fs ++ rest = (if neg then [x2d] else []) ++ ds ++ frac_text fs ++ rest.
Proof. unfold real_text, frac_text. rewrite <- !app_assoc. reflexivity. Qed.

Lemma opt_sign_text (neg : bool) ds tail :
  ds <> [] -> forallb is_dec_digit ds = true ->
  opt_sign ((if neg then [x2d] else []) ++ ds ++ tail) = (if neg then Some true else None, ds ++ tail).
Proof.
  intros Hne Hd. destruct neg; cbn [app]; [reflexivity|]. apply (opt_sign_digits ds _ Hne Hd).
Qed.

(* with a fractional part: read back verbatim *)
Lemma real_rt_frac neg ds fs rest :
  ds <> [] -> forallb is_dec_digit ds = true -> fs <> [] -> forallb is_dec_digit fs = true ->
  starts_with is_dec_digit rest = false ->
  real (real_text neg ds fs ++ rest) = POk (real_text neg ds fs) rest.
Proof.
  intros Hne Hd Hfne Hf Hr. unfold real. rewrite real_text_app, (opt_sign_text _ _ _ Hne Hd).
  destruct fs as [|f0 fs']; [contradiction|]. set (fs := f0 :: fs') in *.
  change (frac_text fs) with (x2e :: fs). cbn [app].
  rewrite (take_while_app is_dec_digit ds (x2e :: fs ++ rest) Hd) by reflexivity.
  destruct (digits_cons ds Hne Hd) as [c [t [E _]]]. rewrite E at 1.
  change (byte_eqb x2e x2e) with true. cbn iota.
  rewrite (take_while_app is_dec_digit fs rest Hf Hr).
  unfold real_text. change (match fs with [] => [] | _ :: _ => x2e :: fs end) with (x2e :: fs).
  destruct neg; reflexivity.
Qed.

(* without a fractional part the [real] alternative does not match *)
Lemma real_int_err neg ds rest :
  ds <> [] -> forallb is_dec_digit ds = true ->
  starts_with digit_or_point rest = false ->
  real (real_text neg ds [] ++ rest) = PErr.
Proof.
  intros Hne Hd Hr. unfold real. rewrite real_text_app, (opt_sign_text _ _ _ Hne Hd).
  cbn [frac_text app].
  assert (Hr1 : starts_with is_dec_digit rest = false).
  { destruct rest as [|c r]; [reflexivity|]. cbn in *. unfold digit_or_point in Hr.
    apply orb_false_iff in Hr. tauto. }
  rewrite (take_while_app is_dec_digit ds rest Hd Hr1).
  destruct (digits_cons ds Hne Hd) as [c [t [E _]]]. rewrite E.
  destruct rest as [|c0 r]; [reflexivity|]. cbn in Hr. unfold digit_or_point in Hr.
  apply orb_false_iff in Hr as [_ Hr]. rewrite Hr. reflexivity.
Qed.

(* an integral text denotes this integer *)
Definition int_of_text (neg : bool) (ds : bytes) : Z :=
  if neg then Z.opp (Z.of_N (digits_val ds)) else Z.of_N (digits_val ds).

Lemma integer_text neg ds rest :
  ds <> [] -> forallb is_dec_digit ds = true ->
  in_i64 (int_of_text neg ds) = true ->
  starts_with is_dec_digit rest = false ->
  integer (real_text neg ds [] ++ rest) = POk (int_of_text neg ds) rest.
Proof.
  intros Hne Hd Hz Hr. unfold integer. rewrite real_text_app, (opt_sign_text _ _ _ Hne Hd).
  cbn [frac_text app].
  rewrite (take_while_app is_dec_digit ds rest Hd Hr), (match_nonempty _ _ _ Hne).
  unfold int_of_text, in_i64 in *. destruct neg; rewrite Hz; reflexivity.
Qed.

(* what the writer does with a real text *)
Lemma strip_minus_digit c t :
  is_dec_digit c = true -> (match c with x2d => t | _ => c :: t end) = c :: t.
Proof. intro H. destruct (digit_not_sign c H) as [Hm _]. destruct c; try reflexivity; contradiction. Qed.

Lemma needs_point_text neg ds :
  ds <> [] -> forallb is_dec_digit ds = true ->
  real_needs_point (real_text neg ds []) = (REAL_POINT_DISPLAY_THRESHOLD <=? digits_val ds).
Proof.
  intros Hne Hd. unfold real_needs_point, real_text. rewrite app_nil_r.
  destruct (digits_cons ds Hne Hd) as [c [t [E Hc]]]. subst ds.
  destruct neg; cbn [app].
  - rewrite Hd. reflexivity.
  - destruct c; try discriminate Hc; cbv iota; rewrite Hd; reflexivity.
Qed.

Lemma forallb_digit_point l t : forallb is_dec_digit (l ++ x2e :: t) = false.
Proof. induction l as [|c l IH]; cbn [app forallb]; [reflexivity|]. rewrite IH. apply andb_false_r. Qed.

Lemma needs_point_frac neg ds fs :
  ds <> [] -> forallb is_dec_digit ds = true -> fs <> [] ->
  real_needs_point (real_text neg ds fs) = false.
Proof.
  intros Hne Hd Hf. unfold real_needs_point, real_text. destruct fs as [|f0 fs]; [contradiction|].
  destruct (digits_cons ds Hne Hd) as [c [t [E Hc]]]. subst ds.
  destruct neg; cbn [app].
  - change (c :: t ++ x2e :: f0 :: fs) with ((c :: t) ++ x2e :: f0 :: fs).
    rewrite forallb_digit_point. reflexivity.
  - change (c :: t ++ x2e :: f0 :: fs) with ((c :: t) ++ x2e :: f0 :: fs).
    pose proof (forallb_digit_point (c :: t) (f0 :: fs)) as Hp. cbn [app] in *.
    destruct c; try discriminate Hc; cbv iota; rewrite Hp; reflexivity.
Qed.

Definition i64_threshold_ok : Prop := (Z.of_N REAL_POINT_DISPLAY_THRESHOLD <= i64_max + 1)%Z.
Lemma threshold_ok : i64_threshold_ok. Proof. unfold i64_threshold_ok. vm_compute. discriminate. Qed.

(* below the threshold an integral text is inside the i64 range *)
Lemma below_threshold_i64 neg ds :
  (REAL_POINT_DISPLAY_THRESHOLD <=? digits_val ds) = false -> in_i64 (int_of_text neg ds) = true.
Proof.
  intro H. pose proof threshold_ok as T. unfold i64_threshold_ok in T.
  unfold in_i64, int_of_text, i64_min, i64_max in *. destruct neg; lia.
Qed.

(* ---------- the normal form of a real and the round trip ---------- *)

(* well-formed real text: the shape of Display output of a finite f32 (DESIGN 3, assumption a) *)
Definition real_wf (r : bytes) : Prop :=
  exists neg ds fs, r = real_text neg ds fs /\ ds <> [] /\
                    forallb is_dec_digit ds = true /\ forallb is_dec_digit fs = true.

(* what a real text is read back as: an integral text below the threshold comes back as the
   integer it denotes (the difference the property permits), an integral text at or above the
   threshold as the same digits with ".0" appended, any other text verbatim. *)
Definition strip_minus (r : bytes) : bool * bytes :=
  match r with x2d :: t => (true, t) | _ => (false, r) end.
Definition norm_real (r : bytes) : obj :=
  let '(neg, t) := strip_minus r in
  if forallb is_dec_digit t then
    if REAL_POINT_DISPLAY_THRESHOLD <=? digits_val t then OReal (r ++ [x2e; x30])
    else OInt (int_of_text neg t)
  else OReal r.

Lemma strip_minus_text (neg : bool) ds tail :
  ds <> [] -> forallb is_dec_digit ds = true ->
  strip_minus ((if neg then [x2d] else []) ++ ds ++ tail) = (neg, ds ++ tail).
Proof.
  intros Hne Hd. destruct (digits_cons ds Hne Hd) as [c [t [E Hc]]]. subst ds.
  destruct neg; cbn [app]; [reflexivity|].
  unfold strip_minus. destruct c; try discriminate Hc; reflexivity.
Qed.

Lemma norm_real_int neg ds :
  ds <> [] -> forallb is_dec_digit ds = true ->
  norm_real (real_text neg ds []) =
  if REAL_POINT_DISPLAY_THRESHOLD <=? digits_val ds then OReal (real_text neg ds [x30])
  else OInt (int_of_text neg ds).
Proof.
  intros Hne Hd. unfold norm_real, real_text.
  rewrite (strip_minus_text neg ds [] Hne Hd). rewrite !app_nil_r, Hd.
  destruct (REAL_POINT_DISPLAY_THRESHOLD <=? digits_val ds); [|reflexivity].
  rewrite <- !app_assoc. reflexivity.
Qed.

Lemma norm_real_frac neg ds fs :
  ds <> [] -> forallb is_dec_digit ds = true -> fs <> [] ->
  norm_real (real_text neg ds fs) = OReal (real_text neg ds fs).
Proof.
  intros Hne Hd Hf. unfold norm_real, real_text. destruct fs as [|f0 fs]; [contradiction|].
  rewrite (strip_minus_text neg ds _ Hne Hd), forallb_digit_point. reflexivity.
Qed.

(* the two outcomes of reading a written real: either the [real] alternative returns the text,
   or it does not match and the [integer] alternative returns the integer *)
Theorem real_rt r rest :
  real_wf r -> starts_with digit_or_point rest = false ->
  (exists r', norm_real r = OReal r' /\ real (write_real r ++ rest) = POk r' rest) \/
  (exists z, norm_real r = OInt z /\ real (write_real r ++ rest) = PErr /\
             integer (write_real r ++ rest) = POk z rest).
Proof.
  intros [neg [ds [fs [-> [Hne [Hd Hf]]]]]] Hr.
  assert (Hr1 : starts_with is_dec_digit rest = false).
  { destruct rest as [|c t]; [reflexivity|]. cbn in *. unfold digit_or_point in Hr.
    apply orb_false_iff in Hr. tauto. }
  unfold write_real. destruct fs as [|f0 fs'].
  - rewrite (needs_point_text neg ds Hne Hd), (norm_real_int neg ds Hne Hd).
    destruct (REAL_POINT_DISPLAY_THRESHOLD <=? digits_val ds) eqn:ET.
    + left. exists (real_text neg ds [x30]). split; [reflexivity|].
      replace (real_text neg ds [] ++ [x2e; x30]) with (real_text neg ds [x30])
        by (unfold real_text; rewrite <- !app_assoc; reflexivity).
      apply real_rt_frac; auto; discriminate.
    + right. exists (int_of_text neg ds). split; [reflexivity|]. split.
      * apply real_int_err; assumption.
      * apply integer_text; auto. apply below_threshold_i64. exact ET.
  - left. rewrite (needs_point_frac neg ds (f0 :: fs') Hne Hd) by discriminate.
    exists (real_text neg ds (f0 :: fs')). split.
    + apply norm_real_frac; auto; discriminate.
    + apply real_rt_frac; auto; discriminate.
Qed.

(* the first byte of a written real is a minus sign or a digit *)
Lemma write_real_head r : real_wf r ->
  exists c t, write_real r = c :: t /\ (c = x2d \/ is_dec_digit c = true).
Proof.
  intros [neg [ds [fs [-> [Hne [Hd Hf]]]]]].
  destruct (digits_cons ds Hne Hd) as [c [t [E Hc]]]. subst ds.
  unfold write_real. destruct (real_needs_point _); unfold real_text; destruct neg; cbn [app];
    eexists _, _; (split; [reflexivity|]); auto.
Qed.

(* a decidable form of [real_wf] for examples and for the generator's mirror *)
Definition real_wfb (r : bytes) : bool :=
  let '(_, t) := strip_minus r in
  let '(ds, r1) := take_while is_dec_digit t in
  match ds with
  | [] => false
  | _ => match r1 with
         | [] => true
         | c :: fs => byte_eqb c x2e && forallb is_dec_digit fs &&
                      match fs with [] => false | _ => true end
         end
  end.

Lemma take_while_split p : forall s a b, take_while p s = (a, b) -> s = a ++ b /\ forallb p a = true.
Proof.
  induction s as [|c s IH]; intros a b H; cbn [take_while] in H.
  - inversion H; subst. split; reflexivity.
  - destruct (p c) eqn:E.
    + destruct (take_while p s) as [a' b'] eqn:E2. inversion H; subst.
      destruct (IH a' b eq_refl) as [-> Ha]. split; [reflexivity|]. cbn. rewrite E, Ha. reflexivity.
    + inversion H; subst. split; reflexivity.
Qed.

Lemma real_wfb_spec r : real_wfb r = true -> real_wf r.
Proof.
  unfold real_wfb, real_wf. intro H.
  assert (exists neg t, strip_minus r = (neg, t) /\ r = (if neg then [x2d] else []) ++ t) as [neg [t [Es Er]]].
  { unfold strip_minus. destruct r as [|c r']; [exists false, []; split; reflexivity|].
    destruct (byte_eqb c x2d) eqn:E.
    - apply byte_eqb_eq in E. subst c. exists true, r'. split; reflexivity.
    - exists false, (c :: r'). apply byte_eqb_neq in E. split; [|reflexivity].
      destruct c; try reflexivity; contradiction. }
  rewrite Es in H. destruct (take_while is_dec_digit t) as [ds r1] eqn:Et.
  destruct (take_while_split _ _ _ _ Et) as [Ht Hd].
  destruct ds as [|d0 ds']; [discriminate|].
  destruct r1 as [|c fs].
  - exists neg, (d0 :: ds'), []. rewrite app_nil_r in Ht. subst t.
    unfold real_text. rewrite app_nil_r. repeat split; auto; discriminate.
  - apply andb_true_iff in H as [H H3]. apply andb_true_iff in H as [H1 H2].
    apply byte_eqb_eq in H1. subst c. destruct fs as [|f0 fs']; [discriminate|].
    exists neg, (d0 :: ds'), (f0 :: fs'). subst t. unfold real_text. repeat split; auto; discriminate.
Qed.
