(* CryptoProofs.v -- rung 1 of C05: byte xor, RC4 is an involution, PKCS#5 unpad . pad = id,
   CBC decryption inverts CBC encryption for any block cipher with D (E b) = b, chunking lemmas. *)
From LV Require Import Base.Bytes Model.Crypto.Word Model.Crypto.RC4 Model.Crypto.PKCS5.
Local Open Scope N_scope.

(* ---------- byte xor ---------- *)
Lemma bxor_spec a b : bxor a b = byte_lo (N.lxor (N_of_byte a) (N_of_byte b)).
Proof.
  apply byte_eqb_eq.
  apply (byte2_forallb_spec (fun a b => byte_eqb (bxor a b) (byte_lo (N.lxor (N_of_byte a) (N_of_byte b))))).
  vm_compute. reflexivity.
Qed.

Lemma bxor_involutive a k : bxor (bxor a k) k = a.
Proof.
  apply byte_eqb_eq.
  apply (byte2_forallb_spec (fun a k => byte_eqb (bxor (bxor a k) k) a)).
  vm_compute. reflexivity.
Qed.

Lemma bxor_comm a b : bxor a b = bxor b a.
Proof.
  apply byte_eqb_eq.
  apply (byte2_forallb_spec (fun a b => byte_eqb (bxor a b) (bxor b a))).
  vm_compute. reflexivity.
Qed.

Lemma xor_bytes_length a b : length (xor_bytes a b) = Nat.min (length a) (length b).
Proof.
  revert b; induction a as [|x a IH]; intros [|y b]; cbn [xor_bytes length Nat.min]; auto.
Qed.

Lemma xor_bytes_involutive a k : (length a <= length k)%nat -> xor_bytes (xor_bytes a k) k = a.
Proof.
  revert k; induction a as [|x a IH]; intros [|y k] H; cbn [xor_bytes length] in *; try reflexivity; try lia.
  rewrite bxor_involutive, IH by lia. reflexivity.
Qed.

(* ---------- RC4 ---------- *)
(* the key stream: depends on the initial permutation and on the number of bytes only *)
Fixpoint rc4_stream (st : bytes) (i j : N) (n : nat) : bytes :=
  match n with
  | O => []
  | S m =>
    let i' := N.land (i + 1) 255 in
    let j' := N.land (j + N_of_byte (sget st i')) 255 in
    let st' := sswap st i' j' in
    sget st' (N.land (N_of_byte (sget st' i') + N_of_byte (sget st' j')) 255) :: rc4_stream st' i' j' m
  end.

Lemma rc4_stream_length st i j n : length (rc4_stream st i j n) = n.
Proof.
  revert st i j; induction n as [|n IH]; intros; [reflexivity|].
  cbn [rc4_stream length]. cbv zeta. rewrite IH. reflexivity.
Qed.

Lemma rc4_apply_stream st i j m : rc4_apply st i j m = xor_bytes m (rc4_stream st i j (length m)).
Proof.
  revert st i j; induction m as [|b m IH]; intros st i j; [reflexivity|].
  cbn [rc4_apply length rc4_stream xor_bytes]. cbv zeta. rewrite IH. reflexivity.
Qed.

Lemma rc4_apply_involutive st i j m : rc4_apply st i j (rc4_apply st i j m) = m.
Proof.
  rewrite (rc4_apply_stream st i j (rc4_apply st i j m)), (rc4_apply_stream st i j m).
  rewrite xor_bytes_length.
  assert (L : length (rc4_stream st i j (length m)) = length m).
  { clear. revert st i j; induction (length m) as [|n IH]; intros; [reflexivity|].
    cbn [rc4_stream length]. cbv zeta. rewrite IH. reflexivity. }
  rewrite L, Nat.min_id. apply xor_bytes_involutive. lia.
Qed.

Lemma rc4_length key m c : rc4 key m = Some c -> length c = length m.
Proof.
  unfold rc4. destruct (rc4_new key) as [st|]; [|discriminate]. intro H; inversion H; subst.
  unfold rc4_encrypt, rc4_decrypt. rewrite rc4_apply_stream, xor_bytes_length.
  assert (L : forall st i j n, length (rc4_stream st i j n) = n).
  { clear. intros st i j n; revert st i j; induction n as [|n IH]; intros; [reflexivity|].
    cbn [rc4_stream length]. cbv zeta. rewrite IH. reflexivity. }
  rewrite L. apply Nat.min_id.
Qed.

(* Rc4::new(key).decrypt(Rc4::new(key).encrypt(m)) = m for every key the constructor accepts
   (1 .. 256 bytes) and every message *)
Theorem rc4_involutive key m c : rc4 key m = Some c -> rc4 key c = Some m.
Proof.
  unfold rc4. destruct (rc4_new key) as [st|]; [|discriminate]. intro H; inversion H; subst.
  unfold rc4_encrypt, rc4_decrypt. rewrite rc4_apply_involutive. reflexivity.
Qed.

Lemma rc4_new_some key :
  (1 <= length key <= 256)%nat -> exists st, rc4_new key = Some st.
Proof.
  intro H. unfold rc4_new.
  destruct (N.eqb_spec (N.of_nat (length key)) 0) as [E|E]; [lia|].
  destruct (N.ltb_spec 256 (N.of_nat (length key))) as [L|L]; [lia|].
  cbn [orb]. eexists; reflexivity.
Qed.

Lemma rc4_some key m : (1 <= length key <= 256)%nat -> exists c, rc4 key m = Some c.
Proof.
  intro H. destruct (rc4_new_some key H) as [st E]. unfold rc4. rewrite E. eexists; reflexivity.
Qed.

Lemma rc4_none key m : rc4 key m = None <-> (length key = 0 \/ 256 < length key)%nat.
Proof.
  unfold rc4, rc4_new.
  destruct (N.eqb_spec (N.of_nat (length key)) 0) as [E|E];
    destruct (N.ltb_spec 256 (N.of_nat (length key))) as [L|L]; cbn [orb]; split; intro H;
      try reflexivity; try discriminate; try lia.
Qed.

(* ---------- chunking ---------- *)
Lemma chunks_fuel2 n f1 f2 l :
  (0 < n)%nat -> (length l <= f1)%nat -> (length l <= f2)%nat -> chunks n f1 l = chunks n f2 l.
Proof.
  intro Hn. revert f2 l. induction f1 as [|f1 IH]; intros f2 l H1 H2.
  - destruct l; [destruct f2; reflexivity | cbn in H1; lia].
  - destruct l as [|x l]; [destruct f2; reflexivity|].
    destruct f2 as [|f2]; [cbn in H2; lia|].
    cbn [chunks]. f_equal.
    apply IH; rewrite skipn_length; cbn [length] in *; lia.
Qed.

Lemma chunks_fuel n f l : (0 < n)%nat -> (length l <= f)%nat -> chunks n f l = chunks n (length l) l.
Proof. intros Hn H. apply chunks_fuel2; [exact Hn | exact H | lia]. Qed.

Lemma chunks_concat n f l : (0 < n)%nat -> (length l <= f)%nat -> concat (chunks n f l) = l.
Proof.
  intro Hn. revert l. induction f as [|f IH]; intros l H.
  - destruct l; [reflexivity | cbn in H; lia].
  - destruct l as [|x l]; [reflexivity|].
    cbn [chunks concat]. rewrite IH by (rewrite skipn_length; cbn [length] in *; lia).
    apply firstn_skipn.
Qed.

Lemma chunks16_concat l : concat (chunks16 l) = l.
Proof. apply chunks_concat; lia. Qed.

Lemma chunks16_app b rest : length b = 16%nat -> chunks16 (b ++ rest) = b :: chunks16 rest.
Proof.
  intro H. unfold chunks16.
  assert (E : length (b ++ rest) = S (15 + length rest)) by (rewrite app_length; lia).
  rewrite E. destruct b as [|x b]; [discriminate|].
  cbn [chunks app].
  change (x :: b ++ rest) with ((x :: b) ++ rest).
  rewrite firstn_app, skipn_app, H, Nat.sub_diag.
  rewrite firstn_all2 by lia. rewrite skipn_all2 by lia.
  change (firstn 0 rest) with (@nil byte). change (skipn 0 rest) with rest.
  rewrite app_nil_r. cbn [app].
  f_equal. apply chunks_fuel; lia.
Qed.

Lemma chunks16_of_blocks bs : Forall (fun b => length b = 16%nat) bs -> chunks16 (concat bs) = bs.
Proof.
  induction 1 as [|b bs Hb _ IH]; [reflexivity|].
  cbn [concat]. rewrite chunks16_app by exact Hb. rewrite IH. reflexivity.
Qed.

Lemma chunks16_blocks l :
  Nat.modulo (length l) 16 = 0%nat -> Forall (fun b => length b = 16%nat) (chunks16 l).
Proof.
  intro H. apply Nat.mod_divides in H; [|lia]. destruct H as [q Hq].
  revert l Hq. induction q as [|q IH]; intros l Hq.
  - destruct l; [constructor | cbn in Hq; lia].
  - rewrite <- (firstn_skipn 16 l).
    assert (L1 : length (firstn 16 l) = 16%nat) by (rewrite firstn_length; lia).
    rewrite chunks16_app by exact L1. constructor; [exact L1|].
    apply IH. rewrite skipn_length. lia.
Qed.

(* ---------- PKCS#5 ---------- *)
Lemma byte_lo_small n : (n < 256)%nat -> N.to_nat (N_of_byte (byte_lo (N.of_nat n))) = n.
Proof.
  intro H. unfold byte_lo.
  change 255 with (N.ones 8). rewrite N.land_ones.
  rewrite N.mod_small by (change (2 ^ 8) with 256; lia).
  destruct (Strings.Byte.of_N (N.of_nat n)) as [b|] eqn:E.
  - apply Strings.Byte.to_of_N in E. unfold N_of_byte. rewrite E. lia.
  - apply Strings.Byte.of_N_None_iff in E. lia.
Qed.

Lemma forallb_repeat {A} (p : A -> bool) x n : p x = true -> forallb p (repeat x n) = true.
Proof. intro H. induction n; cbn; [reflexivity | rewrite H; exact IHn]. Qed.

Lemma firstn_repeat {A} (x : A) k n : (k <= n)%nat -> firstn k (repeat x n) = repeat x k.
Proof.
  revert n; induction k as [|k IH]; intros [|n] H; cbn; try reflexivity; try lia.
  f_equal. apply IH. lia.
Qed.

Lemma nth_app_repeat (pre : bytes) x n k :
  (length pre <= k < length pre + n)%nat -> nth k (pre ++ repeat x n) x00 = x.
Proof.
  intro H. rewrite app_nth2 by lia.
  assert (G : forall n k, (k < n)%nat -> nth k (repeat x n) x00 = x).
  { clear. induction n as [|n IH]; intros [|k] Hk; cbn; try lia; try reflexivity. apply IH. lia. }
  apply G. lia.
Qed.

Lemma pkcs5_unpad_block_ok (pre : bytes) n :
  (1 <= n <= 16)%nat -> length pre = (16 - n)%nat ->
  pkcs5_unpad_block (pre ++ repeat (byte_lo (N.of_nat n)) n) = Some pre.
Proof.
  intros Hn Hp. unfold pkcs5_unpad_block.
  assert (L : length (pre ++ repeat (byte_lo (N.of_nat n)) n) = 16%nat)
    by (rewrite app_length, repeat_length; lia).
  rewrite L. change (16 - 1)%nat with 15%nat.
  rewrite nth_app_repeat by lia.
  rewrite byte_lo_small by lia.
  destruct (Nat.eqb_spec n 0); [lia|]. destruct (Nat.ltb_spec 16 n); [lia|]. cbn [orb].
  rewrite skipn_app, firstn_app.
  rewrite (skipn_all2 pre) by lia. cbn [firstn length app].
  rewrite Hp, Nat.sub_diag. cbn [skipn].
  replace (15 - (16 - n) - 0)%nat with (n - 1)%nat by lia.
  rewrite firstn_nil. cbn [app]. rewrite firstn_repeat by lia. rewrite forallb_repeat by apply byte_eqb_refl.
  rewrite firstn_app, Hp, Nat.sub_diag. cbn [firstn]. rewrite app_nil_r.
  rewrite firstn_all2 by lia. reflexivity.
Qed.

Lemma pkcs5_pad_length m : exists q, length (pkcs5_pad m) = (16 * S q)%nat /\ (16 * q <= length m < 16 * S q)%nat.
Proof.
  unfold pkcs5_pad. rewrite app_length, repeat_length.
  pose proof (Nat.div_mod (length m) 16 ltac:(lia)) as D.
  pose proof (Nat.mod_upper_bound (length m) 16 ltac:(lia)) as B.
  exists (length m / 16)%nat. lia.
Qed.

Lemma pkcs5_pad_mod m : Nat.modulo (length (pkcs5_pad m)) 16 = 0%nat.
Proof.
  destruct (pkcs5_pad_length m) as [q [E _]]. rewrite E.
  rewrite Nat.mul_comm. apply Nat.mod_mul. lia.
Qed.

Theorem pkcs5_unpad_pad m : pkcs5_unpad (pkcs5_pad m) = Some m.
Proof.
  destruct (pkcs5_pad_length m) as [q [E B]].
  unfold pkcs5_unpad. rewrite E.
  destruct (Nat.eqb_spec (16 * S q) 0); [lia|].
  replace (16 * S q - 16)%nat with (16 * q)%nat by lia.
  unfold pkcs5_pad in *. set (pn := (16 - length m mod 16)%nat) in *.
  rewrite app_length, repeat_length in E.
  pose proof (Nat.mod_upper_bound (length m) 16 ltac:(lia)) as Hm.
  rewrite skipn_app, firstn_app.
  replace (16 * q - length m)%nat with 0%nat by lia. cbn [skipn firstn]. rewrite app_nil_r.
  rewrite pkcs5_unpad_block_ok; [| subst pn; lia | rewrite skipn_length; subst pn; lia].
  rewrite firstn_skipn. reflexivity.
Qed.

(* ---------- CBC ---------- *)
Section CBC.
  Variable E D : bytes -> bytes.
  Hypothesis dec_enc : forall b, length b = 16%nat -> D (E b) = b.
  Hypothesis enc_len : forall b, length b = 16%nat -> length (E b) = 16%nat.

  Lemma cbc_enc_blocks iv bs :
    length iv = 16%nat -> Forall (fun b => length b = 16%nat) bs ->
    Forall (fun b => length b = 16%nat) (cbc_enc E iv bs).
  Proof.
    intros Hiv H. revert iv Hiv. induction H as [|b bs Hb _ IH]; intros iv Hiv; cbn [cbc_enc]; constructor.
    - apply enc_len. rewrite xor_bytes_length. lia.
    - apply IH. apply enc_len. rewrite xor_bytes_length. lia.
  Qed.

  Theorem cbc_dec_enc iv bs :
    length iv = 16%nat -> Forall (fun b => length b = 16%nat) bs ->
    cbc_dec D iv (cbc_enc E iv bs) = bs.
  Proof.
    intros Hiv H. revert iv Hiv. induction H as [|b bs Hb _ IH]; intros iv Hiv; [reflexivity|].
    cbn [cbc_enc cbc_dec].
    assert (Lx : length (xor_bytes b iv) = 16%nat) by (rewrite xor_bytes_length; lia).
    rewrite dec_enc by exact Lx. rewrite xor_bytes_involutive by lia.
    f_equal. apply IH. apply enc_len. exact Lx.
  Qed.

  (* encrypt_padded_mut::<Pkcs5> then decrypt_padded_mut::<Pkcs5> with the same IV *)
  Theorem cbc_padded_rt iv m :
    length iv = 16%nat -> cbc_decrypt_padded D iv (cbc_encrypt_padded E iv m) = Some m.
  Proof.
    intro Hiv. unfold cbc_decrypt_padded, cbc_encrypt_padded.
    pose proof (chunks16_blocks _ (pkcs5_pad_mod m)) as Hb.
    pose proof (cbc_enc_blocks iv _ Hiv Hb) as Hc.
    assert (Lc : Nat.modulo (length (concat (cbc_enc E iv (chunks16 (pkcs5_pad m))))) 16 = 0%nat).
    { clear - Hc. induction Hc as [|b bs Hb _ IH]; [reflexivity|].
      cbn [concat]. rewrite app_length, Hb.
      rewrite <- Nat.add_mod_idemp_r, IH by lia. reflexivity. }
    rewrite Lc. cbn [Nat.eqb negb].
    rewrite chunks16_of_blocks by exact Hc.
    rewrite cbc_dec_enc by assumption.
    rewrite chunks16_concat. apply pkcs5_unpad_pad.
  Qed.

  Lemma cbc_encrypt_padded_length iv m :
    length iv = 16%nat ->
    exists q, length (cbc_encrypt_padded E iv m) = (16 * S q)%nat /\ (16 * q <= length m < 16 * S q)%nat.
  Proof.
    intro Hiv. destruct (pkcs5_pad_length m) as [q [Eq B]]. exists q. split; [|exact B].
    unfold cbc_encrypt_padded.
    pose proof (chunks16_blocks _ (pkcs5_pad_mod m)) as Hb.
    assert (G : forall bs iv, length iv = 16%nat -> Forall (fun b => length b = 16%nat) bs ->
                length (concat (cbc_enc E iv bs)) = length (concat bs)).
    { clear - enc_len. intros bs iv Hiv H. revert iv Hiv.
      induction H as [|b bs Hb _ IH]; intros iv Hiv; [reflexivity|].
      cbn [cbc_enc concat]. rewrite !app_length.
      assert (Lx : length (E (xor_bytes b iv)) = 16%nat) by (apply enc_len; rewrite xor_bytes_length; lia).
      rewrite IH by exact Lx. lia. }
    rewrite G by assumption. rewrite chunks16_concat. exact Eq.
  Qed.
End CBC.
