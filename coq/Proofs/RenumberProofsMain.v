(* RenumberProofsMain.v -- C10, part 8: renumber_objects_with = page-order pass ; dense pass.
   The two pass isomorphisms compose; page order is preserved; dense numbering; u32 boundary. *)
From LV Require Import Base.Bytes Model.Obj Model.DocQ Model.PageTree Model.Traverse Model.Renumber
  Spec.RenumberSpec Proofs.RenumberProofsMap Proofs.RenumberProofsTrav Proofs.RenumberProofs Proofs.RenumberProofsDense
  Proofs.RenumberProofsTop Proofs.RenumberProofsPage Proofs.RenumberProofsIter.

(* ---------- the known-finding class, in words ---------- *)
Lemma KnownClass_spec start d :
  KnownClass start d = true <->
  exists x, (reach (doc_tr d) (doc_m d) x \/ In x (bm_targets d)) /\ ~ has_obj (doc_m d) x /\
            (start <= fst x < start + N.of_nat (length (doc_m d)))%N.
Proof.
  unfold KnownClass, doc_tr, doc_m. rewrite existsb_exists. split.
  - intros [x [Hin Hp]]. apply andb_true_iff in Hp. destruct Hp as [Hp H3]. apply andb_true_iff in Hp. destruct Hp as [H1 H2].
    exists x. split; [|split].
    + apply in_app_iff in Hin. destruct Hin as [Hin|Hin]; [left; apply reach_list_spec; exact Hin | right; exact Hin].
    + apply negb_true_iff in H1. apply mem_oid_nIn in H1. exact H1.
    + apply N.leb_le in H2. apply N.ltb_lt in H3. lia.
  - intros [x [Hu [Hn [R1 R2]]]]. exists x. split.
    + apply in_app_iff. destruct Hu as [Hu|Hu]; [left; apply reach_list_spec; exact Hu | right; exact Hu].
    + apply mem_oid_nIn in Hn. unfold has_obj in Hn. rewrite Hn. cbn [negb andb].
      apply andb_true_iff. split; [apply N.leb_le | apply N.ltb_lt]; assumption.
Qed.

(* a document whose reachable references and bookmark targets all name objects is outside the class *)
Lemma closed_not_known start d :
  closed (doc_tr d) (doc_m d) -> (forall x, In x (bm_targets d) -> has_obj (doc_m d) x) -> KnownClass start d = false.
Proof.
  intros Hc Hb. destruct (KnownClass start d) eqn:E; [|reflexivity]. exfalso.
  apply KnownClass_spec in E. destruct E as [x [[Hr|Hr] [Hn _]]]; apply Hn; [apply Hc | apply Hb]; exact Hr.
Qed.

(* ---------- small algebra ---------- *)
Lemma bm_targets_rename f d d' : bm_table d' = renumber_bookmarks_with f (bm_table d) -> bm_targets d' = map f (bm_targets d).
Proof.
  unfold bm_targets. intros ->. unfold renumber_bookmarks_with. rewrite !map_map. reflexivity.
Qed.

Lemma renumber_bookmarks_comp f g t :
  renumber_bookmarks_with g (renumber_bookmarks_with f t) = renumber_bookmarks_with (fun x => g (f x)) t.
Proof. unfold renumber_bookmarks_with. rewrite map_map. reflexivity. Qed.

Lemma option_map_rename_comp f g (o : option obj) :
  option_map (rename g) (option_map (rename f) o) = option_map (rename (fun x => g (f x))) o.
Proof. destruct o; cbn [option_map]; [rewrite rename_comp|]; reflexivity. Qed.

Lemma keys_length (m1 m2 : objmap) : map fst m1 = map fst m2 -> length m1 = length m2.
Proof. intro H. rewrite <- (map_length fst m1), <- (map_length fst m2), H. reflexivity. Qed.

Lemma dense_max_keys d1 d start : map fst (doc_m d1) = map fst (doc_m d) -> dense_max d1 start = dense_max d start.
Proof.
  unfold doc_m. intro K. pose proof (keys_length _ _ K) as L. unfold dense_max.
  destruct (d_objects (base d1)) as [|a m1]; destruct (d_objects (base d)) as [|b m2]; try discriminate; [reflexivity|].
  rewrite L. reflexivity.
Qed.

Lemma dense_ids_length ids : forall s, length (dense_ids ids s) = length ids.
Proof. induction ids as [|a l IH]; intro s; cbn [dense_ids length]; [reflexivity | f_equal; apply IH]. Qed.

(* ---------- the main theorem ---------- *)
Definition renumber_post (start : N) (d d' : rdoc) (rho : oid -> oid) : Prop :=
  (* one-to-one on the ids the document uses, and onto the ids the new document uses *)
  inj_on (used d) rho /\
  (forall x, used d' x <-> exists id, used d id /\ x = rho id) /\
  (* trailer, reachable objects, bookmarks: the originals with references renamed *)
  doc_tr d' = rename_dict rho (doc_tr d) /\
  (forall id, reach (doc_tr d) (doc_m d) id -> lookup (doc_m d') (rho id) = option_map (rename rho) (lookup (doc_m d) id)) /\
  (forall id, used d id -> ~ reach (doc_tr d) (doc_m d) id -> lookup (doc_m d') (rho id) = lookup (doc_m d) id) /\
  bm_table d' = renumber_bookmarks_with rho (bm_table d) /\
  bookmarks d' = bookmarks d /\ max_bookmark_id d' = max_bookmark_id d /\
  (forall x, reach (doc_tr d') (doc_m d') x <-> exists id, reach (doc_tr d) (doc_m d) id /\ x = rho id) /\
  (forall x, has_obj (doc_m d') x <-> exists id, has_obj (doc_m d) id /\ x = rho id) /\
  (* page order *)
  page_iter (base d') = map rho (page_iter (base d)) /\
  (* dense numbering, generations kept in key order, max_id *)
  map fst (map fst (doc_m d')) = nums_from start (length (doc_m d)) /\
  map snd (map fst (doc_m d')) = map snd (map fst (doc_m d)) /\
  d_max_id (base d') = dense_max d start /\
  sorted_keys (doc_m d') /\
  d_version (base d') = d_version (base d) /\ d_binary_mark (base d') = d_binary_mark (base d).

Theorem renumber_main start d :
  sorted_keys (doc_m d) -> fits start d -> KnownClass start d = false ->
  exists d' rho, renumber_objects_with start d = Done d' /\ renumber_post start d d' rho.
Proof.
  intros Sm F K.
  destruct (page_order_pass_spec d Sm) as [d1 [rho1 [E1 [Iso1 [Fix1 [Keys1 [K1 _]]]]]]].
  destruct Iso1 as [Inj1 [Tr1 [In1 [Out1 [Reach1 [Has1 [S1 [Bm1 [Bk1 [Mb1 [V1 B1]]]]]]]]]]].
  pose proof (keys_length _ _ K1) as L1.
  assert (Hsame : forall x, has_obj (doc_m d1) x <-> has_obj (doc_m d) x) by (intro x; unfold has_obj; rewrite K1; tauto).
  assert (Hdang : forall x, used d1 x -> ~ has_obj (doc_m d1) x -> used d x).
  { intros x U Hn. assert (Hback : forall id, x = rho1 id -> x = id).
    { intros id ->. apply Fix1. intro Hid. apply Hn. apply Hsame. apply Keys1. exact Hid. }
    destruct U as [U|[U|U]]; [contradiction| |].
    - apply Reach1 in U. destruct U as [id [Hid Ex]]. rewrite (Hback id Ex). right; left; exact Hid.
    - rewrite (bm_targets_rename rho1 d d1 Bm1) in U. apply in_map_iff in U. destruct U as [id [Ex Hid]]. symmetry in Ex.
      rewrite (Hback id Ex). right; right; exact Hid. }
  destruct (dense_pass_spec d1 start (used d1) S1) as [d' [rho2 [E2 [F2 [Inj2 [Tr2 [In2 [Out2 [Reach2 [K2 [Mx2 [Bm2 [Bk2 [Mb2 [V2 B2]]]]]]]]]]]]]]].
  { unfold fits in F. unfold doc_m in L1. rewrite L1. unfold U32_MAX. lia. }
  { intros x Hx. left; exact Hx. }
  { intros x Hx. right; left; exact Hx. }
  { intros x U Hn. unfold doc_m in L1. rewrite L1. apply (not_known_out start d K x); [apply Hdang; assumption|].
    intro Hx. apply Hn. apply Hsame. exact Hx. }
  fold (doc_tr d1) in *. fold (doc_m d1) in *.
  assert (ND1 : NoDup (map fst (doc_m d1))) by (apply sorted_nodup; exact S1).
  assert (Has2 : forall x, has_obj (doc_m d') x <-> exists id, has_obj (doc_m d1) id /\ x = rho2 id).
  { intro x. unfold has_obj, doc_m at 1. rewrite K2. rewrite (dense_ids_in _ start x ND1). split.
    - intros [id [Hid ->]]. exists id. split; [exact Hid | symmetry; apply F2].
    - intros [id [Hid ->]]. exists id. split; [exact Hid | apply F2]. }
  assert (Himg : forall id, used d id -> used d1 (rho1 id)).
  { intros id [U|[U|U]].
    - left. apply Has1. exists id. auto.
    - right; left. apply Reach1. exists id. auto.
    - right; right. rewrite (bm_targets_rename rho1 d d1 Bm1). apply in_map. exact U. }
  exists d', (fun x => rho2 (rho1 x)). split.
  { unfold renumber_objects_with. rewrite E1. exact E2. }
  assert (Hin : forall id, reach (doc_tr d) (doc_m d) id ->
            lookup (doc_m d') (rho2 (rho1 id)) = option_map (rename (fun x => rho2 (rho1 x))) (lookup (doc_m d) id)).
  { intros id Hid. unfold doc_m at 1. rewrite In2 by (apply Reach1; exists id; auto). rewrite In1 by exact Hid. apply option_map_rename_comp. }
  assert (Hreach : forall x, reach (doc_tr d') (doc_m d') x <-> exists id, reach (doc_tr d) (doc_m d) id /\ x = rho2 (rho1 id)).
  { intro x. unfold doc_tr at 1, doc_m at 1. rewrite Reach2. split.
    - intros [y [Hy ->]]. apply Reach1 in Hy. destruct Hy as [id [Hid ->]]. exists id. auto.
    - intros [id [Hid ->]]. exists (rho1 id). split; [apply Reach1; exists id; auto | reflexivity]. }
  assert (Hhas : forall x, has_obj (doc_m d') x <-> exists id, has_obj (doc_m d) id /\ x = rho2 (rho1 id)).
  { intro x. rewrite Has2. split.
    - intros [y [Hy ->]]. apply Has1 in Hy. destruct Hy as [id [Hid ->]]. exists id. auto.
    - intros [id [Hid ->]]. exists (rho1 id). split; [apply Has1; exists id; auto | reflexivity]. }
  assert (Hbm : bm_table d' = renumber_bookmarks_with (fun x => rho2 (rho1 x)) (bm_table d))
    by (rewrite Bm2, Bm1; apply renumber_bookmarks_comp).
  assert (Htr : doc_tr d' = rename_dict (fun x => rho2 (rho1 x)) (doc_tr d))
    by (unfold doc_tr at 1; rewrite Tr2, Tr1; apply rename_dict_comp).
  unfold renumber_post.
  split. { intros a b Ua Ub E. apply (Inj1 a b I I). apply (Inj2 _ _ (Himg a Ua) (Himg b Ub) E). }
  split.
  { intro x. unfold used at 1. fold (doc_m d') (doc_tr d'). rewrite Hhas, Hreach, (bm_targets_rename _ d d' Hbm), in_map_iff. split.
    - intros [[id [H ->]]|[[id [H ->]]|[id [<- H]]]]; exists id; (split; [|reflexivity]); [left | right; left | right; right]; exact H.
    - intros [id [[H|[H|H]] ->]]; [left | right; left | right; right]; exists id; auto. }
  split; [exact Htr|]. split; [exact Hin|].
  split.
  { intros id U Hn. unfold doc_m at 1. rewrite Out2.
    - apply Out1; [exact I | exact Hn].
    - apply Himg; exact U.
    - intro R. apply Reach1 in R. destruct R as [id' [Hid' E]]. apply Hn. rewrite (Inj1 id id' I I E). exact Hid'. }
  split; [exact Hbm|]. split; [congruence|]. split; [congruence|]. split; [exact Hreach|]. split; [exact Hhas|].
  split.
  { apply page_iter_sim; [exact Htr | exact Hin|]. fold (doc_m d') (doc_m d). rewrite <- (map_length fst (doc_m d')).
    unfold doc_m at 1. rewrite K2, dense_ids_length, map_length. exact L1. }
  split. { unfold doc_m at 1. rewrite K2, dense_ids_nums, map_length, L1. reflexivity. }
  split. { unfold doc_m at 1. rewrite K2, dense_ids_gens. fold (doc_m d1). rewrite K1. reflexivity. }
  split. { rewrite Mx2. apply dense_max_keys. exact K1. }
  split. { unfold sorted_keys, doc_m. rewrite K2. apply dense_ids_sorted. }
  split; congruence.
Qed.

(* ---------- the u32 boundary: the hypothesis [fits] is necessary ---------- *)
Theorem renumber_panics start d :
  sorted_keys (doc_m d) -> (start <= U32_MAX)%N -> doc_m d <> [] -> ~ fits start d ->
  renumber_objects_with start d = Panic.
Proof.
  intros Sm Hs Hne Hf.
  destruct (page_order_pass_spec d Sm) as [d1 [rho1 [E1 [_ [_ [_ [K1 _]]]]]]].
  unfold renumber_objects_with. rewrite E1. pose proof (keys_length _ _ K1) as L1. unfold doc_m in *.
  apply dense_pass_panics; [exact Hs | | unfold fits in *; rewrite L1; exact Hf].
  intro E. apply Hne. rewrite E in L1. destruct (d_objects (base d)); [reflexivity | discriminate].
Qed.

(* ---------- the consequences named in the property text ---------- *)
Section Consequences.
  Variables (start : N) (d d' : rdoc) (rho : oid -> oid).
  Hypothesis Post : renumber_post start d d' rho.

  (* every reference resolves to the same content as before (with references renamed) *)
  Corollary deref_same id o :
    reach (doc_tr d) (doc_m d) id -> lookup (doc_m d) id = Some o -> lookup (doc_m d') (rho id) = Some (rename rho o).
  Proof. intros R L. destruct Post as [_ [_ [_ [H _]]]]. rewrite H by exact R. rewrite L. reflexivity. Qed.

  (* a reference (or bookmark target) that resolved to nothing still resolves to nothing *)
  Corollary dangling_stays_dangling id :
    used d id -> lookup (doc_m d) id = None -> lookup (doc_m d') (rho id) = None.
  Proof.
    intros U L. destruct Post as [_ [_ [_ [Hin [Hout _]]]]].
    destruct (in_dec oid_eq_dec id (reach_list (doc_tr d) (doc_m d))) as [R|R].
    - apply reach_list_spec in R. rewrite Hin by exact R. rewrite L. reflexivity.
    - rewrite Hout; [exact L | exact U|]. intro H. apply R. apply reach_list_spec. exact H.
  Qed.

  (* a bookmark target that named an object names the same object (renamed if reachable) *)
  Corollary bookmark_targets_same id o :
    In id (bm_targets d) -> lookup (doc_m d) id = Some o ->
    In (rho id) (bm_targets d') /\
    (lookup (doc_m d') (rho id) = Some (rename rho o) \/ lookup (doc_m d') (rho id) = Some o).
  Proof.
    intros B L. destruct Post as [_ [_ [_ [Hin [Hout [Hbm _]]]]]]. split.
    - rewrite (bm_targets_rename rho d d' Hbm). apply in_map. exact B.
    - destruct (in_dec oid_eq_dec id (reach_list (doc_tr d) (doc_m d))) as [R|R].
      + left. apply reach_list_spec in R. rewrite Hin by exact R. rewrite L. reflexivity.
      + right. rewrite Hout; [exact L | right; right; exact B|]. intro H. apply R. apply reach_list_spec. exact H.
  Qed.

  Corollary page_order_preserved : page_iter (base d') = map rho (page_iter (base d)).
  Proof. apply Post. Qed.

  Corollary numbers_consecutive :
    map fst (map fst (doc_m d')) = nums_from start (length (doc_m d)) /\ length (doc_m d') = length (doc_m d).
  Proof.
    destruct Post as [_ [_ [_ [_ [_ [_ [_ [_ [_ [_ [_ [H _]]]]]]]]]]]]. split; [exact H|].
    assert (L : length (map fst (map fst (doc_m d'))) = length (nums_from start (length (doc_m d)))) by (rewrite H; reflexivity).
    rewrite !map_length in L. rewrite L. clear. generalize start. induction (length (doc_m d)); intro s; cbn; [reflexivity | f_equal; auto].
  Qed.

  Corollary max_id_is_last :
    doc_m d <> [] -> d_max_id (base d') = last (map fst (map fst (doc_m d'))) 0%N.
  Proof.
    intro Hne. destruct numbers_consecutive as [H _]. rewrite H.
    destruct Post as [_ [_ [_ [_ [_ [_ [_ [_ [_ [_ [_ [_ [_ [Hm _]]]]]]]]]]]]]]. rewrite Hm.
    apply dense_max_is_last. exact Hne.
  Qed.
End Consequences.

(* ---------- non-vacuity: a concrete document meets the hypotheses and both passes do work ---------- *)
Theorem ex_swap_main :
  sorted_keys (doc_m ex_swap) /\ fits 1 ex_swap /\ KnownClass 1 ex_swap = false /\
  ~ closed (doc_tr ex_swap) (doc_m ex_swap) /\
  page_iter (base ex_swap) = [(8,1); (3,0)]%N /\
  exists d', renumber_objects_with 1 ex_swap = Done d' /\
    map fst (doc_m d') = [(1,0); (2,0); (3,0); (4,0); (5,1)]%N /\
    page_iter (base d') = [(3,0); (5,1)]%N /\
    bm_targets d' = [(3,0); (5,1); (5,1)]%N /\
    lookup (doc_m d') (77,0)%N = None /\
    d_max_id (base d') = 5%N.
Proof.
  destruct ex_swap_hyps as [H1 [H2 [H3 [H4 [d' [E [K [P [B M]]]]]]]]].
  split; [exact H1|]. split; [exact H2|]. split; [exact H3|]. split.
  - intro C. assert (R : reach (doc_tr ex_swap) (doc_m ex_swap) (77,0)%N) by (apply reach_root; right; left; reflexivity).
    apply C in R. unfold has_obj in R. vm_compute in R. intuition discriminate.
  - split; [exact H4|]. exists d'. split; [exact E|]. split; [exact K|]. split; [exact P|]. split; [exact B|]. split; [|exact M].
    assert (E' : renumber_objects_with 1 ex_swap = Done d') by exact E. clear - E'. vm_compute in E'. inversion E'. reflexivity.
Qed.

(* ---------- the statement used by Props/C10.v, written out ---------- *)
Theorem renumber_iso :
  forall start d,
    sorted_keys (d_objects (base d)) -> fits start d -> KnownClass start d = false ->
    exists d' rho,
      renumber_objects_with start d = Done d' /\
      inj_on (used d) rho /\
      (forall x, used d' x <-> exists id, used d id /\ x = rho id) /\
      d_trailer (base d') = rename_dict rho (d_trailer (base d)) /\
      (forall id, reach (d_trailer (base d)) (d_objects (base d)) id ->
                  lookup (d_objects (base d')) (rho id) = option_map (rename rho) (lookup (d_objects (base d)) id)) /\
      (forall id, used d id -> ~ reach (d_trailer (base d)) (d_objects (base d)) id ->
                  lookup (d_objects (base d')) (rho id) = lookup (d_objects (base d)) id) /\
      bm_table d' = renumber_bookmarks_with rho (bm_table d) /\
      bookmarks d' = bookmarks d /\ max_bookmark_id d' = max_bookmark_id d /\
      (forall x, reach (d_trailer (base d')) (d_objects (base d')) x <->
                 exists id, reach (d_trailer (base d)) (d_objects (base d)) id /\ x = rho id) /\
      (forall x, has_obj (d_objects (base d')) x <-> exists id, has_obj (d_objects (base d)) id /\ x = rho id) /\
      (forall id o, reach (d_trailer (base d)) (d_objects (base d)) id -> lookup (d_objects (base d)) id = Some o ->
                    lookup (d_objects (base d')) (rho id) = Some (rename rho o)) /\
      (forall id, used d id -> lookup (d_objects (base d)) id = None -> lookup (d_objects (base d')) (rho id) = None) /\
      page_iter (base d') = map rho (page_iter (base d)) /\
      d_version (base d') = d_version (base d) /\ d_binary_mark (base d') = d_binary_mark (base d).
Proof.
  intros start d Sm F K. destruct (renumber_main start d Sm F K) as [d' [rho [E Post]]].
  pose proof (deref_same start d d' rho Post) as C1. pose proof (dangling_stays_dangling start d d' rho Post) as C2.
  destruct Post as [P1 [P2 [P3 [P4 [P5 [P6 [P7 [P8 [P9 [P10 [P11 [_ [_ [_ [_ [P16 P17]]]]]]]]]]]]]]]].
  exists d', rho. repeat (split; [assumption|]). assumption.
Qed.

Theorem renumber_dense :
  forall start d,
    sorted_keys (d_objects (base d)) -> fits start d -> KnownClass start d = false ->
    exists d',
      renumber_objects_with start d = Done d' /\
      length (d_objects (base d')) = length (d_objects (base d)) /\
      map fst (map fst (d_objects (base d'))) = nums_from start (length (d_objects (base d))) /\
      map snd (map fst (d_objects (base d'))) = map snd (map fst (d_objects (base d))) /\
      sorted_keys (d_objects (base d')) /\
      (d_objects (base d) <> [] -> d_max_id (base d') = last (map fst (map fst (d_objects (base d')))) 0%N) /\
      (d_objects (base d) <> [] -> d_max_id (base d') = (start + N.of_nat (length (d_objects (base d))) - 1)%N) /\
      (d_objects (base d) = [] -> d_max_id (base d') = if (start =? 0)%N then 0%N else (start - 1)%N).
Proof.
  intros start d Sm F K. destruct (renumber_main start d Sm F K) as [d' [rho [E Post]]].
  destruct (numbers_consecutive start d d' rho Post) as [N1 N2]. pose proof (max_id_is_last start d d' rho Post) as N3.
  destruct Post as [_ [_ [_ [_ [_ [_ [_ [_ [_ [_ [_ [_ [G [Mx [S _]]]]]]]]]]]]]]].
  exists d'. split; [exact E|]. split; [exact N2|]. split; [exact N1|]. split; [exact G|]. split; [exact S|].
  split; [exact N3|]. unfold dense_max, doc_m in Mx. split.
  - intro Hne. rewrite Mx. destruct (d_objects (base d)); [congruence | reflexivity].
  - intro He. rewrite Mx, He. reflexivity.
Qed.

(* renumber_objects() is renumber_objects_with(1); a document with fewer than 2^32 objects fits *)
Lemma renumber_objects_is_with_1 d : renumber_objects d = renumber_objects_with 1 d.
Proof. reflexivity. Qed.

Lemma fits_1 d : fits 1 d <-> (N.of_nat (length (d_objects (base d))) <= 4294967295)%N.
Proof. unfold fits. lia. Qed.
