(* RenumberProofsMain.v -- C10, part 8: renumber_objects_with = page-order pass ; dense pass.
   The two pass isomorphisms compose; page order is preserved; dense numbering; u32 boundary. *)
From LV Require Import Base.Bytes Model.Obj Model.DocQ Model.PageTree Model.Traverse Model.Renumber
  Spec.RenumberSpec Proofs.RenumberProofsMap Proofs.RenumberProofsTrav Proofs.RenumberProofsTravO Proofs.RenumberProofs Proofs.RenumberProofsDense
  Proofs.RenumberProofsTop Proofs.RenumberProofsPage Proofs.RenumberProofsIter.

(* ---------- the known-finding class, in words ---------- *)
Lemma KnownClass_spec start d :
  KnownClass start d = true <->
  exists x, (reach (doc_tr d) (doc_m d) x \/ In x (bm_targets d)) /\ ~ has_obj (doc_m d) x /\
            (start <= fst x < start + N.of_nat (length (doc_m d)))%N.
Proof.
  unfold KnownClass, doc_tr, doc_m. rewrite existsb_exists. split.
  - intros [x [Hin Hp]]. apply andb_true_iff in Hp. destruct Hp as [Hp H3]. apply andb_true_iff in Hp. destruct Hp as [H1 H2].
    exists x. split; [|split].
    + apply in_app_iff in Hin. destruct Hin as [Hin|Hin]; [left; apply reach_list_spec; exact Hin | right; exact Hin].
    + apply negb_true_iff in H1. apply mem_oid_nIn in H1. exact H1.
    + apply N.leb_le in H2. apply N.ltb_lt in H3. lia.
  - intros [x [Hu [Hn [R1 R2]]]]. exists x. split.
    + apply in_app_iff. destruct Hu as [Hu|Hu]; [left; apply reach_list_spec; exact Hu | right; exact Hu].
    + apply mem_oid_nIn in Hn. unfold has_obj in Hn. rewrite Hn. cbn [negb andb].
      apply andb_true_iff. split; [apply N.leb_le | apply N.ltb_lt]; assumption.
Qed.

(* a document whose reachable references and bookmark targets all name objects is outside the class *)
Lemma closed_not_known start d :
  closed (doc_tr d) (doc_m d) -> (forall x, In x (bm_targets d) -> has_obj (doc_m d) x) -> KnownClass start d = false.
Proof.
  intros Hc Hb. destruct (KnownClass start d) eqn:E; [|reflexivity]. exfalso.
  apply KnownClass_spec in E. destruct E as [x [[Hr|Hr] [Hn _]]]; apply Hn; [apply Hc | apply Hb]; exact Hr.
Qed.

(* ---------- small algebra ---------- *)
Lemma bm_targets_rename f d d' : bm_table d' = renumber_bookmarks_with f (bm_table d) -> bm_targets d' = map f (bm_targets d).
Proof.
  unfold bm_targets. intros ->. unfold renumber_bookmarks_with. rewrite !map_map. reflexivity.
Qed.

Lemma renumber_bookmarks_comp f g t :
  renumber_bookmarks_with g (renumber_bookmarks_with f t) = renumber_bookmarks_with (fun x => g (f x)) t.
Proof. unfold renumber_bookmarks_with. rewrite map_map. reflexivity. Qed.

Lemma option_map_rename_comp f g (o : option obj) :
  option_map (rename g) (option_map (rename f) o) = option_map (rename (fun x => g (f x))) o.
Proof. destruct o; cbn [option_map]; [rewrite rename_comp|]; reflexivity. Qed.

Lemma keys_length (m1 m2 : objmap) : map fst m1 = map fst m2 -> length m1 = length m2.
Proof. intro H. rewrite <- (map_length fst m1), <- (map_length fst m2), H. reflexivity. Qed.

Lemma dense_max_keys d1 d start : map fst (doc_m d1) = map fst (doc_m d) -> dense_max d1 start = dense_max d start.
Proof.
  unfold doc_m. intro K. pose proof (keys_length _ _ K) as L. unfold dense_max.
  destruct (d_objects (base d1)) as [|a m1]; destruct (d_objects (base d)) as [|b m2]; try discriminate; [reflexivity|].
  rewrite L. reflexivity.
Qed.

Lemma dense_ids_length ids : forall s, length (dense_ids ids s) = length ids.
Proof. induction ids as [|a l IH]; intro s; cbn [dense_ids length]; [reflexivity | f_equal; apply IH]. Qed.

(* ---------- the main theorem ---------- *)
Definition np_of (start : N) (d : rdoc) : oid := no_page start (map fst (doc_m d)).

Definition renumber_post (start : N) (d d' : rdoc) (rho : oid -> oid) : Prop :=
  let a := live (doc_m d) rho in
  (* one-to-one on the ids that name objects, and onto the ids that name objects afterwards *)
  inj_on (has_obj (doc_m d)) rho /\
  (forall x, has_obj (doc_m d') x <-> exists id, has_obj (doc_m d) id /\ x = rho id) /\
  (* trailer, reachable objects: the originals with references renamed; a reference that names no object is
     written as what it denotes, the null object *)
  doc_tr d' = rename_dict_o a (doc_tr d) /\
  (forall id, reach (doc_tr d) (doc_m d) id -> has_obj (doc_m d) id ->
              lookup (doc_m d') (rho id) = option_map (rename_o a) (lookup (doc_m d) id)) /\
  (forall id, has_obj (doc_m d) id -> ~ reach (doc_tr d) (doc_m d) id -> lookup (doc_m d') (rho id) = lookup (doc_m d) id) /\
  (* bookmarks: the target renamed; a target that names no object becomes the "no page" id, which names no object *)
  bm_table d' = renumber_bookmarks_with (live_or (doc_m d) rho (np_of start d)) (bm_table d) /\
  ~ has_obj (doc_m d') (np_of start d) /\ fst (np_of start d) = 0%N /\
  bookmarks d' = bookmarks d /\ max_bookmark_id d' = max_bookmark_id d /\
  (forall x, reach (doc_tr d') (doc_m d') x <-> exists id, reach (doc_tr d) (doc_m d) id /\ has_obj (doc_m d) id /\ x = rho id) /\
  (* page order *)
  page_iter (base d') = map rho (page_iter (base d)) /\
  (* dense numbering, generations kept in key order, max_id *)
  map fst (map fst (doc_m d')) = nums_from start (length (doc_m d)) /\
  map snd (map fst (doc_m d')) = map snd (map fst (doc_m d)) /\
  d_max_id (base d') = dense_max d start /\
  sorted_keys (doc_m d') /\
  d_version (base d') = d_version (base d) /\ d_binary_mark (base d') = d_binary_mark (base d).

Lemma no_page_zero start ids : fst (no_page start ids) = 0%N.
Proof. unfold no_page. destruct ids as [|[i g] ids]; [reflexivity|]. destruct ((g =? 0) && (start =? 0))%N; reflexivity. Qed.

Lemma option_map_rename_o_comp f a (o : option obj) :
  option_map (rename_o a) (option_map (rename f) o) = option_map (rename_o (fun x => a (f x))) o.
Proof. destruct o; cbn [option_map]; [rewrite rename_o_rename|]; reflexivity. Qed.

Lemma option_map_rename_o_ext f g (o : option obj) : (forall x, f x = g x) -> option_map (rename_o f) o = option_map (rename_o g) o.
Proof. intro H. destruct o; cbn [option_map]; [|reflexivity]. f_equal. apply rename_o_ext. intros; apply H. Qed.

Theorem renumber_main start d :
  sorted_keys (doc_m d) -> fits start d ->
  exists d' rho, renumber_objects_with start d = Done d' /\ renumber_post start d d' rho.
Proof.
  intros Sm F.
  destruct (page_order_pass_spec d Sm) as [d1 [rho1 [E1 [Iso1 [Fix1 [Keys1 [K1 _]]]]]]].
  destruct Iso1 as [Inj1 [Tr1 [In1 [Out1 [Reach1 [Has1 [S1 [Bm1 [Bk1 [Mb1 [V1 B1]]]]]]]]]]].
  pose proof (keys_length _ _ K1) as L1.
  assert (Hsame : forall x, has_obj (doc_m d1) x <-> has_obj (doc_m d) x) by (intro x; unfold has_obj; rewrite K1; tauto).
  assert (Hlive : forall x, has_obj (doc_m d1) (rho1 x) <-> has_obj (doc_m d) x).
  { intro x. rewrite Hsame. apply Keys1. }
  destruct (dense_pass_spec d1 start S1) as [d' [rho2 [E2 [F2 [Inj2 [Tr2 [In2 [Out2 [Reach2 [K2 [Mx2 [Bm2 [Bk2 [Mb2 [V2 B2]]]]]]]]]]]]]]].
  { unfold fits in F. unfold doc_m in L1. rewrite L1. unfold U32_MAX. lia. }
  fold (doc_tr d1) in *. fold (doc_m d1) in *.
  assert (ND1 : NoDup (map fst (doc_m d1))) by (apply sorted_nodup; exact S1).
  assert (Has2 : forall x, has_obj (doc_m d') x <-> exists id, has_obj (doc_m d1) id /\ x = rho2 id).
  { intro x. unfold has_obj, doc_m at 1. rewrite K2. rewrite (dense_ids_in _ start x ND1). split.
    - intros [id [Hid ->]]. exists id. split; [exact Hid | symmetry; apply F2].
    - intros [id [Hid ->]]. exists id. split; [exact Hid | apply F2]. }
  set (rho := fun x => rho2 (rho1 x)).
  assert (Ea : forall x, live (doc_m d1) rho2 (rho1 x) = live (doc_m d) rho x).
  { intro x. unfold live, rho. destruct (lookup (doc_m d1) (rho1 x)) eqn:A1; destruct (lookup (doc_m d) x) eqn:A2; try reflexivity; exfalso.
    - apply lookup_has in A1. apply Hlive in A1. apply lookup_none in A2. contradiction.
    - apply lookup_has in A2. apply Hlive in A2. apply lookup_none in A1. contradiction. }
  assert (Eb : forall np x, live_or (doc_m d1) rho2 np (rho1 x) = live_or (doc_m d) rho np x).
  { intros np x. unfold live_or, rho. destruct (lookup (doc_m d1) (rho1 x)) eqn:A1; destruct (lookup (doc_m d) x) eqn:A2; try reflexivity; exfalso.
    - apply lookup_has in A1. apply Hlive in A1. apply lookup_none in A2. contradiction.
    - apply lookup_has in A2. apply Hlive in A2. apply lookup_none in A1. contradiction. }
  exists d', rho. split.
  { unfold renumber_objects_with. rewrite E1. exact E2. }
  assert (Hin : forall id, reach (doc_tr d) (doc_m d) id -> has_obj (doc_m d) id ->
            lookup (doc_m d') (rho id) = option_map (rename_o (live (doc_m d) rho)) (lookup (doc_m d) id)).
  { intros id Hid Hh. unfold doc_m at 1, rho. rewrite In2; [|apply Reach1; exists id; auto | apply Hlive; exact Hh].
    rewrite In1 by exact Hid. rewrite option_map_rename_o_comp. apply option_map_rename_o_ext. exact Ea. }
  assert (Hreach : forall x, reach (doc_tr d') (doc_m d') x <->
                             exists id, reach (doc_tr d) (doc_m d) id /\ has_obj (doc_m d) id /\ x = rho id).
  { intro x. unfold doc_tr at 1, doc_m at 1. rewrite Reach2. split.
    - intros [y [Hy [Hh ->]]]. apply Reach1 in Hy. destruct Hy as [id [Hid ->]]. exists id. split; [exact Hid|]. split; [apply Hlive; exact Hh | reflexivity].
    - intros [id [Hid [Hh ->]]]. exists (rho1 id). split; [apply Reach1; exists id; auto|]. split; [apply Hlive; exact Hh | reflexivity]. }
  assert (Hhas : forall x, has_obj (doc_m d') x <-> exists id, has_obj (doc_m d) id /\ x = rho id).
  { intro x. rewrite Has2. split.
    - intros [y [Hy ->]]. apply Has1 in Hy. destruct Hy as [id [Hid ->]]. exists id. auto.
    - intros [id [Hid ->]]. exists (rho1 id). split; [apply Has1; exists id; auto | reflexivity]. }
  assert (Enp : no_page start (map fst (doc_m d1)) = np_of start d) by (unfold np_of; rewrite K1; reflexivity).
  assert (Hbm : bm_table d' = renumber_bookmarks_with (live_or (doc_m d) rho (np_of start d)) (bm_table d)).
  { rewrite Bm2, Bm1, renumber_bookmarks_comp, Enp. unfold renumber_bookmarks_with. apply map_ext. intro kb. rewrite Eb. reflexivity. }
  assert (Htr : doc_tr d' = rename_dict_o (live (doc_m d) rho) (doc_tr d)).
  { unfold doc_tr at 1. rewrite Tr2, Tr1, rename_dict_o_rename. apply rename_dict_o_ext. intros; apply Ea. }
  unfold renumber_post. cbv zeta.
  split. { intros x y Hx Hy E. apply (Inj1 x y I I). apply Inj2; [apply Hlive; exact Hx | apply Hlive; exact Hy | exact E]. }
  split; [exact Hhas|]. split; [exact Htr|]. split; [exact Hin|].
  split.
  { intros id Hh Hn. unfold doc_m at 1, rho. rewrite Out2.
    - apply Out1; [exact I | exact Hn].
    - apply Hlive; exact Hh.
    - intro R. apply Reach1 in R. destruct R as [id' [Hid' E]]. apply Hn. rewrite (Inj1 id id' I I E). exact Hid'. }
  split; [exact Hbm|].
  split. { unfold has_obj, doc_m at 1. rewrite K2, <- Enp. apply no_page_fresh. }
  split; [apply no_page_zero|].
  split; [congruence|]. split; [congruence|]. split; [exact Hreach|].
  split.
  { apply page_iter_sim_o; [exact Htr | exact Hin|]. fold (doc_m d') (doc_m d). rewrite <- (map_length fst (doc_m d')).
    unfold doc_m at 1. rewrite K2, dense_ids_length, map_length. exact L1. }
  split. { unfold doc_m at 1. rewrite K2, dense_ids_nums, map_length, L1. reflexivity. }
  split. { unfold doc_m at 1. rewrite K2, dense_ids_gens. fold (doc_m d1). rewrite K1. reflexivity. }
  split. { rewrite Mx2. apply dense_max_keys. exact K1. }
  split. { unfold sorted_keys, doc_m. rewrite K2. apply dense_ids_sorted. }
  split; congruence.
Qed.

(* ---------- the u32 boundary: the hypothesis [fits] is necessary ---------- *)
Theorem renumber_panics start d :
  sorted_keys (doc_m d) -> (start <= U32_MAX)%N -> doc_m d <> [] -> ~ fits start d ->
  renumber_objects_with start d = Panic.
Proof.
  intros Sm Hs Hne Hf.
  destruct (page_order_pass_spec d Sm) as [d1 [rho1 [E1 [_ [_ [_ [K1 _]]]]]]].
  unfold renumber_objects_with. rewrite E1. pose proof (keys_length _ _ K1) as L1. unfold doc_m in *.
  apply dense_pass_panics; [exact Hs | | unfold fits in *; rewrite L1; exact Hf].
  intro E. apply Hne. rewrite E in L1. destruct (d_objects (base d)); [reflexivity | discriminate].
Qed.

(* ---------- the consequences named in the property text ---------- *)
Section Consequences.
  Variables (start : N) (d d' : rdoc) (rho : oid -> oid).
  Hypothesis Post : renumber_post start d d' rho.
  Let a := live (doc_m d) rho.

  (* every reference that resolved to an object resolves to the same content as before (with references renamed) *)
  Corollary deref_same id o :
    reach (doc_tr d) (doc_m d) id -> lookup (doc_m d) id = Some o -> lookup (doc_m d') (rho id) = Some (rename_o a o).
  Proof.
    intros R L. destruct Post as [_ [_ [_ [H _]]]]. rewrite H; [rewrite L; reflexivity | exact R | eapply lookup_has; eauto].
  Qed.

  (* a reference that resolved to nothing has no image: it is written as the null object, which is what it denoted *)
  Corollary dangling_is_null id : lookup (doc_m d) id = None -> rename_o a (ref_obj id) = ONull.
  Proof. intro L. unfold ref_obj. cbn [rename_o]. rewrite <- surjective_pairing. unfold a, live. rewrite L. reflexivity. Qed.

  (* ISO 32000-1 7.3.10 reading, one statement for both cases: what a reachable reference denotes afterwards is
     what it denoted before, renamed -- the object it named, or the null object *)
  Corollary denote_same id :
    reach (doc_tr d) (doc_m d) id -> denote (doc_m d') (rename_o a (ref_obj id)) = rename_o a (denote (doc_m d) (ref_obj id)).
  Proof.
    intro R. unfold ref_obj at 2. cbn [denote]. rewrite <- surjective_pairing. destruct (lookup (doc_m d) id) as [o|] eqn:L.
    - unfold ref_obj. cbn [rename_o]. rewrite <- surjective_pairing. unfold a at 1, live. rewrite L. unfold ref_obj. cbn [denote].
      rewrite <- surjective_pairing. rewrite (deref_same id o R L). reflexivity.
    - rewrite (dangling_is_null id L). reflexivity.
  Qed.

  (* afterwards no reachable reference is dangling *)
  Corollary closed_after : closed (doc_tr d') (doc_m d').
  Proof.
    intros x Hx. destruct Post as [_ [Hhas [_ [_ [_ [_ [_ [_ [_ [_ [Hreach _]]]]]]]]]]].
    apply Hreach in Hx. destruct Hx as [id [_ [Hh ->]]]. apply Hhas. exists id. auto.
  Qed.

  (* a bookmark target that named an object names the same object (renamed if reachable) *)
  Corollary bookmark_targets_same id o :
    In id (bm_targets d) -> lookup (doc_m d) id = Some o ->
    In (rho id) (bm_targets d') /\
    (lookup (doc_m d') (rho id) = Some (rename_o a o) \/ lookup (doc_m d') (rho id) = Some o).
  Proof.
    intros B L. destruct Post as [_ [_ [_ [Hin [Hout [Hbm _]]]]]]. split.
    - rewrite (bm_targets_rename _ d d' Hbm). apply in_map_iff. exists id. split; [|exact B]. unfold live_or. rewrite L. reflexivity.
    - assert (Hh : has_obj (doc_m d) id) by (eapply lookup_has; eauto).
      destruct (in_dec oid_eq_dec id (reach_list (doc_tr d) (doc_m d))) as [R|R].
      + left. apply reach_list_spec in R. rewrite Hin by assumption. rewrite L. reflexivity.
      + right. rewrite Hout; [exact L | exact Hh|]. intro H. apply R. apply reach_list_spec. exact H.
  Qed.

  (* a bookmark target that named no object is the "no page" id afterwards: number 0, names no object *)
  Corollary bookmark_dangling id :
    In id (bm_targets d) -> lookup (doc_m d) id = None ->
    In (np_of start d) (bm_targets d') /\ lookup (doc_m d') (np_of start d) = None /\ fst (np_of start d) = 0%N.
  Proof.
    intros B L. destruct Post as [_ [_ [_ [_ [_ [Hbm [Hnp [Hz _]]]]]]]]. split; [|split; [apply lookup_none; exact Hnp | exact Hz]].
    rewrite (bm_targets_rename _ d d' Hbm). apply in_map_iff. exists id. split; [|exact B]. unfold live_or. rewrite L. reflexivity.
  Qed.

  Corollary page_order_preserved : page_iter (base d') = map rho (page_iter (base d)).
  Proof. apply Post. Qed.

  Corollary numbers_consecutive :
    map fst (map fst (doc_m d')) = nums_from start (length (doc_m d)) /\ length (doc_m d') = length (doc_m d).
  Proof.
    destruct Post as [_ [_ [_ [_ [_ [_ [_ [_ [_ [_ [_ [_ [H _]]]]]]]]]]]]]. split; [exact H|].
    assert (L : length (map fst (map fst (doc_m d'))) = length (nums_from start (length (doc_m d)))) by (rewrite H; reflexivity).
    rewrite !map_length in L. rewrite L. clear. generalize start. induction (length (doc_m d)); intro s; cbn; [reflexivity | f_equal; auto].
  Qed.

  Corollary max_id_is_last :
    doc_m d <> [] -> d_max_id (base d') = last (map fst (map fst (doc_m d'))) 0%N.
  Proof.
    intro Hne. destruct numbers_consecutive as [H _]. rewrite H.
    destruct Post as [_ [_ [_ [_ [_ [_ [_ [_ [_ [_ [_ [_ [_ [_ [Hm _]]]]]]]]]]]]]]]. rewrite Hm.
    apply dense_max_is_last. exact Hne.
  Qed.
End Consequences.

(* ---------- non-vacuity: a concrete document meets the hypotheses and both passes do work ---------- *)
Theorem ex_swap_main :
  sorted_keys (doc_m ex_swap) /\ fits 1 ex_swap /\
  ~ closed (doc_tr ex_swap) (doc_m ex_swap) /\
  dict_get (doc_tr ex_swap) (bs "Far") = Some (ORef 77 0) /\
  page_iter (base ex_swap) = [(8,1); (3,0)]%N /\
  exists d', renumber_objects_with 1 ex_swap = Done d' /\
    map fst (doc_m d') = [(1,0); (2,0); (3,0); (4,0); (5,1)]%N /\
    page_iter (base d') = [(3,0); (5,1)]%N /\
    bm_targets d' = [(3,0); (5,1); (5,1)]%N /\
    dict_get (doc_tr d') (bs "Far") = Some ONull /\
    d_max_id (base d') = 5%N.
Proof.
  destruct ex_swap_hyps as [H1 [H2 [H3 [H4 [d' [E [K [P [B M]]]]]]]]].
  split; [exact H1|]. split; [exact H2|]. split.
  - intro C. assert (R : reach (doc_tr ex_swap) (doc_m ex_swap) (77,0)%N) by (apply reach_root; right; left; reflexivity).
    apply C in R. unfold has_obj in R. vm_compute in R. intuition discriminate.
  - split; [vm_compute; reflexivity|]. split; [exact H4|]. exists d'. split; [exact E|]. split; [exact K|]. split; [exact P|]. split; [exact B|]. split; [|exact M].
    assert (E' : renumber_objects_with 1 ex_swap = Done d') by exact E. clear - E'. vm_compute in E'. inversion E'. reflexivity.
Qed.

(* ---------- the statement used by Props/C10.v, written out ---------- *)
Theorem renumber_iso :
  forall start d,
    sorted_keys (d_objects (base d)) -> fits start d ->
    exists d' rho,
      renumber_objects_with start d = Done d' /\
      let m := d_objects (base d) in let tr := d_trailer (base d) in
      let m' := d_objects (base d') in let tr' := d_trailer (base d') in
      let a := live m rho in
      let np := no_page start (map fst m) in
      inj_on (has_obj m) rho /\
      (forall x, has_obj m' x <-> exists id, has_obj m id /\ x = rho id) /\
      tr' = rename_dict_o a tr /\
      (forall id, reach tr m id -> has_obj m id -> lookup m' (rho id) = option_map (rename_o a) (lookup m id)) /\
      (forall id, has_obj m id -> ~ reach tr m id -> lookup m' (rho id) = lookup m id) /\
      bm_table d' = renumber_bookmarks_with (live_or m rho np) (bm_table d) /\
      ~ has_obj m' np /\ fst np = 0%N /\
      bookmarks d' = bookmarks d /\ max_bookmark_id d' = max_bookmark_id d /\
      (forall x, reach tr' m' x <-> exists id, reach tr m id /\ has_obj m id /\ x = rho id) /\
      closed tr' m' /\
      (forall id o, reach tr m id -> lookup m id = Some o -> lookup m' (rho id) = Some (rename_o a o)) /\
      (forall id, lookup m id = None -> rename_o a (ref_obj id) = ONull) /\
      (forall id, reach tr m id -> denote m' (rename_o a (ref_obj id)) = rename_o a (denote m (ref_obj id))) /\
      (forall id, In id (bm_targets d) -> lookup m id = None -> In np (bm_targets d') /\ lookup m' np = None) /\
      page_iter (base d') = map rho (page_iter (base d)) /\
      d_version (base d') = d_version (base d) /\ d_binary_mark (base d') = d_binary_mark (base d).
Proof.
  intros start d Sm F. destruct (renumber_main start d Sm F) as [d' [rho [E Post]]].
  pose proof (deref_same start d d' rho Post) as C1. pose proof (dangling_is_null d rho) as C2.
  pose proof (denote_same start d d' rho Post) as C3. pose proof (closed_after start d d' rho Post) as C4.
  pose proof (bookmark_dangling start d d' rho Post) as C5.
  destruct Post as [P1 [P2 [P3 [P4 [P5 [P6 [P7 [P8 [P9 [P10 [P11 [P12 [_ [_ [_ [_ [P17 P18]]]]]]]]]]]]]]]]].
  exists d', rho. split; [exact E|]. cbv zeta. unfold doc_m, doc_tr, np_of in *.
  repeat (split; [assumption|]). split; [|split; [assumption|split; assumption]].
  intros id B L. destruct (C5 id B L) as [X [Y _]]. auto.
Qed.

Theorem renumber_dense_all :
  forall start d,
    sorted_keys (d_objects (base d)) -> fits start d ->
    exists d',
      renumber_objects_with start d = Done d' /\
      length (d_objects (base d')) = length (d_objects (base d)) /\
      map fst (map fst (d_objects (base d'))) = nums_from start (length (d_objects (base d))) /\
      map snd (map fst (d_objects (base d'))) = map snd (map fst (d_objects (base d))) /\
      sorted_keys (d_objects (base d')) /\
      (d_objects (base d) <> [] -> d_max_id (base d') = last (map fst (map fst (d_objects (base d')))) 0%N) /\
      (d_objects (base d) <> [] -> d_max_id (base d') = (start + N.of_nat (length (d_objects (base d))) - 1)%N) /\
      (d_objects (base d) = [] -> d_max_id (base d') = if (start =? 0)%N then 0%N else (start - 1)%N).
Proof.
  intros start d Sm F. destruct (renumber_main start d Sm F) as [d' [rho [E Post]]].
  destruct (numbers_consecutive start d d' rho Post) as [N1 N2]. pose proof (max_id_is_last start d d' rho Post) as N3.
  destruct Post as [_ [_ [_ [_ [_ [_ [_ [_ [_ [_ [_ [_ [_ [G [Mx [S _]]]]]]]]]]]]]]]].
  exists d'. split; [exact E|]. split; [exact N2|]. split; [exact N1|]. split; [exact G|]. split; [exact S|].
  split; [exact N3|]. unfold dense_max, doc_m in Mx. split.
  - intro Hne. rewrite Mx. destruct (d_objects (base d)); [congruence | reflexivity].
  - intro He. rewrite Mx, He. reflexivity.
Qed.

(* the form with the hypothesis of the former known-finding class, kept for Proofs/EditProofs*.v (C11), which
   still pass it; it is not needed any more *)
Theorem renumber_dense :
  forall start d,
    sorted_keys (d_objects (base d)) -> fits start d -> KnownClass start d = false ->
    exists d',
      renumber_objects_with start d = Done d' /\
      length (d_objects (base d')) = length (d_objects (base d)) /\
      map fst (map fst (d_objects (base d'))) = nums_from start (length (d_objects (base d))) /\
      map snd (map fst (d_objects (base d'))) = map snd (map fst (d_objects (base d))) /\
      sorted_keys (d_objects (base d')) /\
      (d_objects (base d) <> [] -> d_max_id (base d') = last (map fst (map fst (d_objects (base d')))) 0%N) /\
      (d_objects (base d) <> [] -> d_max_id (base d') = (start + N.of_nat (length (d_objects (base d))) - 1)%N) /\
      (d_objects (base d) = [] -> d_max_id (base d') = if (start =? 0)%N then 0%N else (start - 1)%N).
Proof. intros start d Sm F _. exact (renumber_dense_all start d Sm F). Qed.

(* renumber_objects() is renumber_objects_with(1); a document with fewer than 2^32 objects fits *)
Lemma renumber_objects_is_with_1 d : renumber_objects d = renumber_objects_with 1 d.
Proof. reflexivity. Qed.

Lemma fits_1 d : fits 1 d <-> (N.of_nat (length (d_objects (base d))) <= 4294967295)%N.
Proof. unfold fits. lia. Qed.
