(* LoadsMultiMixed.v -- C02 rung 3: files of SEVERAL cross-reference sections written by the reference writer
   (Spec/RefWriter.v ref_write_multi / write_parts), every part with its OWN format: a cross-reference TABLE with its trailer,
   or a cross-reference STREAM (no filter) -- mixed chains included.  Generalises Proofs/LoadsMultiProofs.v (tables only):
   the cross-reference stream of a part is one more top-level object of that part (Proofs/LoadsMultiXSec.v: its text is
   [top_text], it decodes at its offset in any buffer); the invariant carries the list [xt] of these structural objects. *)
From LV Require Import Base.Bytes Base.Sx Model.Obj Model.Writer Model.Parser Model.Xref Model.ObjStm Model.Loader Model.Utf Gen.Lex
  Spec.XrefSpec Spec.RefWriter Proofs.LexProofs Proofs.LoadProofs Proofs.LoadProofsFile Proofs.XrefProofs
  Proofs.XrefTableProofs Proofs.ObjectRtProofs Proofs.SpellingProofs Proofs.SpellingObjProofs Proofs.SpellingFileProofs
  Proofs.LoadsFrameProofs Proofs.LoadsTableProofs Proofs.FilterProofsDict.
From LV Require Import Model.LoaderExt Proofs.LoaderExtProofs Proofs.LoadsLoopProofs.
From LV Require Proofs.C07Bytes Proofs.LoadProofsStream Model.Png.
From LV Require Import Proofs.LoadsFilterProofs.
From LV Require Proofs.LoadsRefLenProofs Proofs.LengthRefProofs.
From LV Require Import Proofs.LoadsStreamProofs Proofs.LoadsMultiXSec.
From Coq Require Import Lia.
Local Open Scope N_scope.

(* ======================================================================================================
   Part 0: facts that do not depend on the file
   ====================================================================================================== *)
(* sorted maps: the table a section denotes, and the merge *)
Lemma spec_map_sorted : forall l m, C07Bytes.xincr 0 m -> C07Bytes.xincr 0 (fold_left spec_step l m).
Proof.
  induction l as [|[n se] l IH]; intros m H; [exact H|]. cbn [fold_left]. apply IH.
  unfold spec_step. cbn [fst snd]. destruct se; [exact H|apply C07Bytes.xinsert_sorted; exact H|apply C07Bytes.xinsert_sorted; exact H].
Qed.

Lemma pos_none_fold : forall (es : xmap) p id, pos_get p id = None ->
  pos_get (fold_left (pstep (fun _ _ => None)) es p) id = None.
Proof.
  induction es as [|[k e] es IH]; intros p id H; [exact H|]. cbn [fold_left]. apply IH.
  unfold pstep. cbn [fst snd]. destruct e as [| |off g|c i]; try exact H. rewrite pos_get_set. destruct (oid_eqb (k, g) id); [reflexivity|exact H].
Qed.

Lemma mem_N_In x l : mem_N x l = true <-> In x l.
Proof.
  unfold mem_N. rewrite existsb_exists. split.
  - intros [y [H1 H2]]. apply N.eqb_eq in H2. subst. exact H1.
  - intro H. exists x. split; [exact H|apply N.eqb_refl].
Qed.

Lemma find_obj_In : forall objs n g o, find_obj objs n = Some (g, o) -> In ((n, g), o) objs.
Proof.
  induction objs as [|[[i g0] o0] objs IH]; intros n g o H; [discriminate H|]. cbn [find_obj] in H.
  destruct (i =? n) eqn:E; [apply N.eqb_eq in E; inversion H; subst; left; reflexivity|right; apply IH; exact H].
Qed.

Lemma s_xref_with_part st p l : s_xref (with_part st p l) = mp_xref p.
Proof. unfold with_part. destruct (mp_sx p) as [[[[e1 s1] s2] e2] fe]. reflexivity. Qed.

Lemma first_entry_none_keys : forall (l : list xref) n, first_entry l n = None -> forall x, In x l -> xget (x_entries x) n = None.
Proof.
  induction l as [|y l IH]; intros n H x Hin; [contradiction|]. cbn [first_entry] in H.
  destruct (xget (x_entries y) n) eqn:E; [discriminate H|]. destruct Hin as [<-|Hin]; [exact E|apply IH; assumption].
Qed.

Lemma chain_ok_weaken dec can buf : forall rest hi hi', hi <= hi' -> chain_ok dec can buf hi rest -> chain_ok dec can buf hi' rest.
Proof. destruct rest as [|[off [x t]] rest]; intros hi hi' H K; [exact I|]. cbn [chain_ok] in *. destruct K as [K1 K2]. split; [lia|exact K2]. Qed.


(* one object at its place, Length direct or a reference to an integer object that the table [x] places in [buf] *)
Lemma indirect_x_top2 buf x (a : adoc) tp post (yl_of : N -> istyle) :
  LoadsRefLenProofs.top_ok2 a tp -> fst (fst (fst tp)) <= u32_max ->
  (forall li lg len, In ((li, lg), OInt len) (a_objs a) ->
     exists offl rest, xget x li = Some (XNormal offl lg) /\ offl <= blen buf /\
       from offl buf = w_indirect li lg (OInt len) (yl_of li) ++ rest /\ li <= u32_max /\ lg <= u16_max /\ in_i64 len = true) ->
  indirect_x buf x (top_text tp ++ post) None = IxOk (fst (fst tp)) (loaded_top tp) None /\ no_objstm (loaded_top tp).
Proof.
  intros Hk Hi Hlen. destruct tp as [[[i g] o] y]. unfold LoadsRefLenProofs.top_ok2 in Hk. unfold top_text, loaded_top. cbn [fst snd] in *.
  destruct Hk as [_ [Hg Ho]]. rewrite <- app_assoc. unfold indirect_x.
  destruct o as [| | | | | | | |d c|];
    try (destruct Ho as [Hw Hn]; split; [|exact I];
         match goal with |- indirect_with ?b ?s0 ?e ?l = _ => pose proof (indirect_with_agrees b s0 e l) as A end;
         rewrite indirect_any_spelling in A by (try assumption; intros d0 c0 K; discriminate K);
         destruct A as [pos [-> [->|[d0 [K _]]]]]; [reflexivity|discriminate K]).
  destruct Ho as [Hw [Hn [HT HL]]].
  assert (Hno : no_objstm (stream_new (denote_dict d (dict_sts (i_obj y))) c)).
  { unfold stream_new, no_objstm. unfold has_type. rewrite LoadsTableProofs.dict_get_set_other by reflexivity.
    apply (has_type_denote d _ K_ObjStm HT). }
  split; [|exact Hno].
  destruct HL as [HL|[li [lg [HL Hl0]]]].
  - match goal with |- indirect_with ?b ?s0 ?e ?l = _ => pose proof (indirect_with_agrees b s0 e l) as A end.
    rewrite indirect_stream_any_spelling in A by assumption.
    destruct A as [pos [-> [->|[d0 [K Kn]]]]]; [reflexivity|].
    exfalso. unfold stream_new in K. inversion K; subst. unfold no_length in Kn. rewrite FilterProofsDict.dict_get_set_same in Kn. exact Kn.
  - destruct (Hlen li lg (Z.of_nat (length c)) Hl0) as [offl [rest [Hx [Hb [Hf [Hli [Hlg Hz]]]]]]].
    apply (LengthRefProofs.indirect_ref_length_eager i g d c y _ li lg Hi Hg Hw Hn HL); [|exact I].
    apply (LengthRefProofs.get_length_finds _ buf x [] li lg (Z.of_nat (length c)) (yl_of li) offl rest).
    + reflexivity.
    + vm_compute. lia.
    + unfold get_offset. cbn [fst snd]. rewrite Hx, N.eqb_refl. reflexivity.
    + exact Hb.
    + exact Hf.
    + exact Hli.
    + exact Hlg.
    + exact Hz.
Qed.

Lemma offs_of_app : forall l1 l2 pos, offs_of pos (l1 ++ l2) = offs_of pos l1 ++ offs_of (pos + N.of_nat (length (body_of l1))) l2.
Proof.
  induction l1 as [|t l1 IH]; intros l2 pos.
  - cbn [app offs_of]. change (body_of []) with (@nil byte). cbn [length]. rewrite N.add_0_r. reflexivity.
  - cbn [app offs_of]. rewrite IH. change (body_of (t :: l1)) with (top_text t ++ body_of l1). rewrite app_length, Nat2N.inj_add, N.add_assoc.
    reflexivity.
Qed.

(* ======================================================================================================
   Part 1: one part of write_parts (either format, no object streams), in closed form
   ====================================================================================================== *)
Section Multi.
  Variable st : fstyle.
  Variable a : adoc.
  Hypothesis Hos : s_ostms st = [].
  Variable dec : dict -> bytes -> option (dict * bytes).
  Variable can : dict -> bool.

  Notation tops := (LoadsTableProofs.tops st a).
  Notation nums := (LoadsTableProofs.nums a).

  Definition p_xid (p : mpart) : list N := match mp_xref p with XStream x => [xs_id x] | XTable _ => [] end.
  Definition p_olds (p : mpart) : list top :=
    flat_map (fun no => match find_obj (a_objs a) (fst no) with
                        | Some (g, _) => [((fst no, g), snd no, find_istyle (s_objs st) (fst no))]
                        | None => []
                        end) (mp_old p).
  Definition p_mine (p : mpart) : list top := filter (fun t => mem_N (fst (fst (fst t))) (mp_nums p)) tops ++ p_olds p.
  Definition p_otops (p : mpart) : list top := ordered (mp_order p) (p_mine p).
  Definition p_hnums (p : mpart) : list N := map (fun t : top => fst (fst (fst t))) (p_mine p).
  Definition p_xpos (p : mpart) (pos : N) : N := pos + N.of_nat (length (body_of (p_otops p))).
  Definition p_offs (p : mpart) (pos : N) : list (N * N * N) :=
    offs_of pos (p_otops p) ++ map (fun i => (i, 0, p_xpos p pos)) (p_xid p).
  Definition p_ehere (p : mpart) (pos n : N) : sentry :=
    match find_off (p_offs p pos) n with Some (g, q) => SInUse q g | None => SFree 0 0 end.
  Definition p_here (p : mpart) (pos n : N) : bool := is_used (p_ehere p pos n).
  Definition p_entry (p : mpart) (pos : N) (known : list (N * sentry)) (n : N) : sentry :=
    if p_here p pos n then p_ehere p pos n
    else if mem_N n (mp_relist p) then match lookup_entry known n with Some e => e | None => SFree 0 0 end
    else if n =? 0 then SFree 0 65535 else SFree 0 0.
  Definition p_size (p : mpart) (maxnum : N) : N := 1 + N.max maxnum (max_num (p_hnums p ++ p_xid p ++ [])).
  Definition p_s0 (p : mpart) : list (N * N) := match mp_xref p with XTable t => t_secs t | XStream x => xs_secs x end.
  Definition p_secs (p : mpart) (pos : N) (prev : option N) (known : list (N * sentry)) (maxnum : N) : list (N * N) :=
    match prev with
    | None => match mp_xref p with
              | XTable t => use_secs (t_secs t) (p_size p maxnum) (fun n => (n =? 0) || p_here p pos n)
              | XStream x => use_secs (xs_secs x) (p_size p maxnum) (p_here p pos)
              end
    | Some _ => if secs_ok_later (p_s0 p) (p_size p maxnum) (p_here p pos) (p_entry p pos known) then p_s0 p
                else runs_of (p_here p pos) 0 (N.to_nat (p_size p maxnum))
    end.
  Definition p_prev (prev : option N) : list (bytes * obj) :=
    match prev with Some q => [(K_PrevW, OInt (Z.of_N q))] | None => [] end.
  Definition p_text (p : mpart) (last : bool) (pos : N) (prev : option N) (known : list (N * sentry)) (maxnum : N) : bytes :=
    body_of (p_otops p) ++
    section_text (with_part st p last) a (p_secs p pos prev known maxnum) (p_entry p pos known) (p_size p maxnum) (p_xpos p pos) (p_prev prev).
  Definition p_known (p : mpart) (pos : N) (known : list (N * sentry)) (maxnum : N) : list (N * sentry) :=
    map (fun n => (n, p_entry p pos known n)) (filter (p_here p pos) (range_N 0 (N.to_nat (p_size p maxnum)))) ++ known.
  Definition p_last (rest : list mpart) : bool := match rest with [] => true | _ => false end.

  Lemma write_parts_step p rest pos prev known maxnum :
    write_parts st a tops (p :: rest) pos prev known maxnum =
    if negb (nodup_N (p_hnums p) && forallb (fun no => mem_N (fst no) (flat_map (part_defines st) rest)) (mp_old p) &&
             Nat.eqb (length (p_olds p)) (length (mp_old p)))
    then None
    else if negb (existsb (p_here p pos) (range_N 0 (N.to_nat (p_size p maxnum)))) then None
    else match write_parts st a tops rest (pos + N.of_nat (length (p_text p (p_last rest) pos prev known maxnum)))
                           (Some (p_xpos p pos)) (p_known p pos known maxnum) (p_size p maxnum - 1) with
         | Some r => Some (p_text p (p_last rest) pos prev known maxnum ++ r)
         | None => None
         end.
  Proof.
    cbn [write_parts]. rewrite emit_objs_eq. unfold part_containers. rewrite Hos. cbn [filter].
    unfold p_known, p_text, p_secs, p_s0, p_entry, p_here, p_ehere, p_offs, p_size, p_xid.
    destruct (mp_xref p); destruct prev; reflexivity.
  Qed.

  (* ---------- the domain ---------- *)
  Variable xids : list N.        (* the numbers of the cross-reference streams of all parts *)
  Hypothesis Hndx : NoDup (nums ++ xids).
  Hypothesis H0x : ~ In 0 xids.
  Hypothesis Htops : Forall (LoadsRefLenProofs.top_ok2 a) tops.
  Definition trailer_dom (t : tstyle) : Prop :=
    forall sz prev, sz <= u32_max -> (prev = None \/ exists q, q <= u32_max /\ prev = Some q) ->
      spell_wf (ODict (a_trailer a ++ [(RefWriter.K_Size, OInt (Z.of_N sz))] ++ p_prev prev)) (t_trailer t) /\
      (nest (ODict (a_trailer a ++ [(RefWriter.K_Size, OInt (Z.of_N sz))] ++ p_prev prev)) <= MAX_DEPTH)%nat.
  Hypothesis Htrail : dict_get (a_trailer a) RefWriter.K_Size = None /\ dict_get (a_trailer a) K_Prev = None /\
                      dict_get (a_trailer a) K_Encrypt = None /\ dict_get (a_trailer a) K_XRefStm = None /\
                      dict_get (a_trailer a) Xref.K_Index = None /\ dict_get (a_trailer a) K_Filter = None.
  Hypothesis Hnums32 : 1 + max_num (nums ++ xids) <= u32_max.

  Lemma Hnd : NoDup nums.
  Proof. exact (NoDup_app_l _ _ Hndx). Qed.

  (* the structural object of a part: the cross-reference stream, when the part has one *)
  Definition p_xtp (p : mpart) (pos : N) (prev : option N) (known : list (N * sentry)) (maxnum : N) : list top :=
    match mp_xref p with
    | XStream x => [xq_top a x (p_entry p pos known) (p_secs p pos prev known maxnum) (p_size p maxnum) (p_prev prev)]
    | XTable _ => []
    end.
  (* what is asked of one part, at the values its layout has *)
  Definition part_ok (p : mpart) (pos : N) (prev : option N) (known : list (N * sentry)) (maxnum : N) : Prop :=
    match mp_xref p with
    | XTable t => trailer_dom t
    | XStream x =>
      (xs_filter x = SfNone \/
       (dec = decompress_ref /\ can = can_ref /\
        N.of_nat (xq_w0 x (p_entry p pos known) (p_secs p pos prev known maxnum) + xq_w1 x (p_entry p pos known) (p_secs p pos prev known maxnum) +
                  xq_w2 x (p_entry p pos known) (p_secs p pos prev known maxnum)) <= Png.USIZE_MAX /\
        dict_get (a_trailer a) K_DecodeParms = None)) /\ In (xs_id x) xids /\
      spell_wf (ODict (xq_d a x (p_entry p pos known) (p_secs p pos prev known maxnum) (p_size p maxnum) (p_prev prev)))
               (i_obj (xs_istyle x)) /\
      (nest (ODict (xq_d a x (p_entry p pos known) (p_secs p pos prev known maxnum) (p_size p maxnum) (p_prev prev))) <= MAX_DEPTH)%nat
    end.
  (* the startxref block keeps "startxref" within the 25 bytes before %%EOF that Reader::get_xref_start searches *)
  Definition sx_win (stp : fstyle) (xs : N) : Prop :=
    (9 + length (sx_mid (s_sx_eol1 stp) (s_sx_sp1 stp) xs (s_sx_sp2 stp) (s_sx_eol2 stp)) <= 25)%nat.
  Fixpoint parts_ok (parts : list mpart) (pos : N) (prev : option N) (known : list (N * sentry)) (maxnum : N) : Prop :=
    match parts with
    | [] => True
    | p :: rest =>
      part_ok p pos prev known maxnum /\
      (rest = [] -> sx_win (with_part st p true) (p_xpos p pos)) /\
      parts_ok rest (pos + N.of_nat (length (p_text p (p_last rest) pos prev known maxnum))) (Some (p_xpos p pos))
               (p_known p pos known maxnum) (p_size p maxnum - 1)
    end.

  Lemma tops_nums_eq : map top_num tops = nums.
  Proof. unfold LoadsTableProofs.tops, LoadsTableProofs.nums. rewrite map_map. reflexivity. Qed.

  Lemma tops_id cur : In cur tops -> 1 <= top_num cur /\ snd (fst (fst cur)) <= u16_max /\ In (top_num cur) nums /\ LoadsRefLenProofs.top_ok2 a cur.
  Proof.
    intro H. pose proof (proj1 (Forall_forall _ _) Htops cur H) as Hk. split; [|split; [|split; [|exact Hk]]].
    - destruct cur as [[[i g] o] y]. cbn in Hk. unfold top_num. cbn [fst]. tauto.
    - destruct cur as [[[i g] o] y]. cbn in Hk. cbn [fst snd]. tauto.
    - rewrite <- tops_nums_eq. apply in_map. exact H.
  Qed.

  Lemma tops_unique tp tp' : In tp tops -> In tp' tops -> top_num tp = top_num tp' -> tp = tp'.
  Proof. intros H1 H2 E. apply (unique_by_key top_num tops); [rewrite tops_nums_eq; exact Hnd|exact H1|exact H2|exact E]. Qed.

  Lemma top_of_num n : In n nums -> exists tp, In tp tops /\ top_num tp = n.
  Proof. rewrite <- tops_nums_eq. intro H. apply in_map_iff in H as [tp [E Hin]]. exists tp. split; assumption. Qed.

  Lemma nums_not_xid n : In n nums -> In n xids -> False.
  Proof.
    intros H1 H2. pose proof Hndx as K. clear -H1 H2 K. induction (LoadsTableProofs.nums a) as [|y l IH]; [contradiction|].
    cbn [app] in K. inversion K as [|? ? Hn Hd]; subst. destruct H1 as [->|H1]; [apply Hn; apply in_or_app; right; exact H2|apply IH; assumption].
  Qed.

  Lemma mine_cases p tp : In tp (p_mine p) ->
    (In tp tops /\ In (top_num tp) (mp_nums p)) \/
    (exists cur o, In cur tops /\ fst (fst cur) = fst (fst tp) /\ In (top_num tp, o) (mp_old p)).
  Proof.
    unfold p_mine. intro H. apply in_app_or in H as [H|H].
    - apply filter_In in H as [H1 H2]. left. split; [exact H1|apply mem_N_In; exact H2].
    - right. unfold p_olds in H. apply in_flat_map in H as [[n o] [H1 H2]]. cbn [fst snd] in H2.
      destruct (find_obj (a_objs a) n) as [[g o']|] eqn:Ef; [|contradiction]. destruct H2 as [<-|[]].
      apply find_obj_In in Ef. exists ((n, g), o', find_istyle (s_objs st) n), o. split; [|split; [reflexivity|exact H1]].
      unfold LoadsTableProofs.tops. apply in_map_iff. exists ((n, g), o'). split; [reflexivity|exact Ef].
  Qed.

  Lemma mine_id p tp : In tp (p_mine p) -> exists cur, In cur tops /\ fst (fst cur) = fst (fst tp).
  Proof.
    intro H. destruct (mine_cases p tp H) as [[H1 _]|[cur [o [H1 [H2 _]]]]]; [exists tp; split; [exact H1|reflexivity]|exists cur; split; assumption].
  Qed.

  Lemma mine_bounds p tp : In tp (p_mine p) -> 1 <= top_num tp /\ snd (fst (fst tp)) <= u16_max /\ In (top_num tp) nums.
  Proof.
    intro H. destruct (mine_id p tp H) as [cur [H1 H2]]. destruct (tops_id cur H1) as [K1 [K2 [K3 _]]].
    unfold top_num in *. rewrite H2 in *. auto.
  Qed.

  Lemma max_num_le : forall l B a0, a0 <= B -> (forall x, In x l -> x <= B) -> fold_left N.max l a0 <= B.
  Proof. induction l as [|y l IH]; intros B a0 Ha H; [exact Ha|]. cbn [fold_left]. apply IH; [|intros; apply H; right; assumption]. pose proof (H y (or_introl eq_refl)). lia. Qed.

  Lemma p_size_eq p maxnum : p_size p maxnum = 1 + N.max maxnum (max_num (p_hnums p ++ p_xid p)).
  Proof. unfold p_size. rewrite app_nil_r. reflexivity. Qed.

  (* ---------- runs_of: the maximal runs cover what the part defines ---------- *)
  Lemma secs_increasing_weaken : forall secs lo lo', lo' <= lo -> secs_increasing lo secs = true -> secs_increasing lo' secs = true.
  Proof.
    destruct secs as [|[f c] secs]; intros lo lo' H K; [reflexivity|]. cbn [secs_increasing] in *.
    apply andb_true_iff in K as [K K3]. apply andb_true_iff in K as [K1 K2]. apply N.leb_le in K1.
    rewrite K2, K3. replace (lo' <=? f) with true by (symmetry; apply N.leb_le; lia). reflexivity.
  Qed.

  Lemma runs_of_good (here : N -> bool) : forall count n,
    secs_increasing n (runs_of here n count) = true /\
    (forall f c, In (f, c) (runs_of here n count) -> 1 <= c /\ f + c <= n + N.of_nat count) /\
    (forall k, n <= k < n + N.of_nat count -> here k = true -> exists f c, In (f, c) (runs_of here n count) /\ f <= k < f + c).
  Proof.
    induction count as [|count IH]; intro n.
    - cbn [runs_of]. split; [reflexivity|]. split; [intros f c []|intros k Hk; lia].
    - destruct (IH (n + 1)) as [I1 [I2 I3]]. cbn [runs_of]. destruct (here n) eqn:Eh.
      + destruct (runs_of here (n + 1) count) as [|[f k] tl] eqn:Er.
        * split; [cbn [secs_increasing]; replace (n <=? n) with true by (symmetry; apply N.leb_le; lia); reflexivity|].
          split; [intros f c [E|[]]; inversion E; subst; lia|].
          intros k Hk Hh. destruct (N.eq_dec k n) as [->|Hne]; [exists n, 1; split; [left; reflexivity|lia]|].
          destruct (I3 k) as [f [c [[] _]]]; [lia|exact Hh].
        * cbn [secs_increasing] in I1. apply andb_true_iff in I1 as [I1 I1c]. apply andb_true_iff in I1 as [I1a I1b].
          apply N.leb_le in I1a, I1b. destruct (I2 f k (or_introl eq_refl)) as [B1 B2].
          destruct (f =? n + 1) eqn:Ef.
          -- apply N.eqb_eq in Ef. subst f. split.
             { cbn [secs_increasing]. replace (n <=? n) with true by (symmetry; apply N.leb_le; lia).
               replace (1 <=? k + 1) with true by (symmetry; apply N.leb_le; lia).
               replace (n + (k + 1)) with (n + 1 + k) by lia. exact I1c. }
             split.
             { intros f c [E|Hin]; [inversion E; subst; lia|]. destruct (I2 f c (or_intror Hin)). lia. }
             intros k0 Hk Hh. destruct (N.eq_dec k0 n) as [->|Hne]; [exists n, (k + 1); split; [left; reflexivity|lia]|].
             destruct (I3 k0) as [f [c [[E|Hin] Hr]]]; [lia|exact Hh| |].
             { assert (c = k) by congruence. assert (f = n + 1) by congruence. subst c f. exists n, (k + 1). split; [left; reflexivity|lia]. }
             { exists f, c. split; [right; exact Hin|exact Hr]. }
          -- apply N.eqb_neq in Ef. split.
             { cbn [secs_increasing]. replace (n <=? n) with true by (symmetry; apply N.leb_le; lia).
               replace (n + 1 <=? f) with true by (symmetry; apply N.leb_le; lia).
               replace (1 <=? k) with true by (symmetry; apply N.leb_le; lia). cbn [andb N.leb]. exact I1c. }
             split.
             { intros f0 c [E|Hin]; [inversion E; subst; lia|]. destruct (I2 f0 c Hin). lia. }
             intros k0 Hk Hh. destruct (N.eq_dec k0 n) as [->|Hne]; [exists n, 1; split; [left; reflexivity|lia]|].
             destruct (I3 k0) as [f0 [c [Hin Hr]]]; [lia|exact Hh|]. exists f0, c. split; [right; exact Hin|exact Hr].
      + split; [apply (secs_increasing_weaken _ (n + 1)); [lia|exact I1]|]. split.
        * intros f c Hin. destruct (I2 f c Hin). lia.
        * intros k Hk Hh. destruct (N.eq_dec k n) as [->|Hne]; [rewrite Eh in Hh; discriminate Hh|]. apply I3; [lia|exact Hh].
  Qed.

  Lemma dget_app (d e : dict) k : dict_get (d ++ e) k = match dict_get d k with Some v => Some v | None => dict_get e k end.
  Proof. induction d as [|[k0 v0] d IH]; [reflexivity|]. cbn [app dict_get]. destruct (bytes_eqb k0 k); [reflexivity|exact IH]. Qed.

  Lemma keys_denote : forall d sts, map fst (denote_dict d sts) = map fst d.
  Proof. induction d as [|[k v] d IH]; intro sts; [reflexivity|]. cbn [denote_dict map fst]. f_equal. apply IH. Qed.

  Lemma lookup_entry_map (f : N -> sentry) known : forall l n,
    lookup_entry (map (fun k => (k, f k)) l ++ known) n = if mem_N n l then Some (f n) else lookup_entry known n.
  Proof.
    induction l as [|k l IH]; intro n; [reflexivity|]. cbn [map app lookup_entry mem_N existsb]. rewrite IH. unfold mem_N.
    rewrite (N.eqb_sym n k). destruct (k =? n) eqn:E; [apply N.eqb_eq in E; subst; reflexivity|reflexivity].
  Qed.


  (* ====================================================================================================
     Part 2: the invariant
     ==================================================================================================== *)
  Definition fe (chain : list csec) (n : N) : option xentry := first_entry (map (fun s : csec => fst (snd s)) chain) n.
  Definition prev_N (chain : list csec) : option N := match chain with [] => None | (off, _) :: _ => Some off end.

  (* [xt]: the cross-reference streams of the parts written so far, as top-level objects *)
  Record Inv (rem : list mpart) (P : bytes) (chain : list csec) (known : list (N * sentry)) (maxnum : N) (xt : list top) : Prop := {
    i_nums : forall n e, fe chain n = Some e -> In n (nums ++ xids) /\ n <= maxnum /\ exists off g, e = XNormal off g;
    i_cur : forall n off g, fe chain n = Some (XNormal off g) -> (In n nums -> ~ In n (flat_map mp_nums rem)) ->
            exists tp pre post, In tp (tops ++ xt) /\ fst (fst tp) = (n, g) /\ P = pre ++ top_text tp ++ post /\ off = blen pre;
    i_all : forall tp, In tp tops -> ~ In (top_num tp) (flat_map mp_nums rem) -> fe chain (top_num tp) <> None;
    i_allx : forall n, In n xids -> ~ In n (part_xids rem) -> fe chain n <> None;
    i_known : forall n, match lookup_entry known n with Some e => entry_meaning e | None => None end = fe chain n;
    i_kn : forall n e, lookup_entry known n = Some e -> exists off g, e = SInUse off g /\ off <= blen P /\ g <= u16_max;
    i_chain : forall ext, chain_ok dec can (P ++ ext) (blen P) chain;
    i_max : maxnum <= max_num (nums ++ xids);
    i_xt : forall tp, In tp xt -> top_ok tp /\ In (top_num tp) xids;
    i_pos : 0 < blen P
  }.

  (* where the newest trailer comes from: a dictionary written in some style and read back; outside the bookkeeping keys, Size and
     Prev it holds the document's trailer entries *)
  Definition tr_excl : list bytes :=
    [bs "Type"; bs "W"; bs "Index"; bs "Length"; bs "Filter"; bs "DecodeParms"; bs "Size"; bs "Prev"].
  Definition trailer_src (t0 : dict) : Prop :=
    dict_wf t0 /\
    exists d y, spell_wf (ODict d) y /\
      forall k, ~ In k tr_excl -> dict_get t0 k = dict_get (denote_dict d (dict_sts y)) k /\ dict_get d k = dict_get (a_trailer a) k.
  Lemma excl_beq k0 k : ~ In k tr_excl -> In k0 tr_excl -> bytes_eqb k0 k = false.
  Proof. intros H1 H2. destruct (bytes_eqb k0 k) eqn:E; [|reflexivity]. apply bytes_eqb_eq in E. subst. contradiction. Qed.
  Lemma excl_beq' k k0 : ~ In k tr_excl -> In k0 tr_excl -> bytes_eqb k k0 = false.
  Proof. intros H1 H2. destruct (bytes_eqb k k0) eqn:E; [|reflexivity]. apply bytes_eqb_eq in E. subst. contradiction. Qed.

  (* BEGIN-PARTS (two instances of one text: table-format part, stream-format part) *)

  Section PartT.
    Variable p : mpart.
    Variable t : tstyle.
    Variable P : bytes.
    Variable chain : list csec.
    Variable known : list (N * sentry).
    Variable maxnum : N.
    Variable rest : list mpart.
    Variable xt : list top.
    Hypothesis Hfmt : mp_xref p = XTable t.
    Hypothesis Hhn : NoDup (p_hnums p).
    Hypothesis Hinv : Inv (p :: rest) P chain known maxnum xt.
    Hypothesis Hex : exists n, p_here p (blen P) n = true.
    Hypothesis Hold : forall no, In no (mp_old p) -> In (fst no) (flat_map mp_nums rest).
    Hypothesis Hok : part_ok p (blen P) (prev_N chain) known maxnum.

    Notation prev := (prev_N chain).
    Notation last := (p_last rest).
    Notation pos := (blen P).
    Notation sz := (p_size p maxnum).
    Notation secs := (p_secs p pos prev known maxnum).
    Notation en := (p_entry p pos known).
    Notation xpos := (p_xpos p pos).
    Notation T := (p_text p last pos prev known maxnum).
    Notation xtp := (p_xtp p pos prev known maxnum).
    Hypothesis HU : blen (P ++ T) <= u32_max.

    Lemma HknT : forall n e, lookup_entry known n = Some e -> exists off g, e = SInUse off g /\ off <= blen P /\ g <= u16_max.
    Proof. exact (i_kn _ _ _ _ _ _ Hinv). Qed.
    Lemma HmaxnT : maxnum <= max_num (nums ++ xids).
    Proof. exact (i_max _ _ _ _ _ _ Hinv). Qed.
    Lemma HprevT : prev = None \/ exists q, q <= u32_max /\ prev = Some q.
    Proof.
      pose proof (i_chain _ _ _ _ _ _ Hinv []) as K.
      assert (G : forall c, chain_ok dec can (P ++ []) (blen P) c -> prev_N c = None \/ exists q, q < blen P /\ prev_N c = Some q).
      { intros [|[off [x0 t0]] r] Hc; [left; reflexivity|right]. exists off. split; [apply Hc|reflexivity]. }
      destruct (G chain K) as [G1|[q [G1 G2]]]; [left; exact G1|right; exists q; split; [|exact G2]].
      assert (blen P <= blen (P ++ T)) by (unfold blen; rewrite app_length; lia). lia.
    Qed.

    Lemma xid_eqT : p_xid p = [].
    Proof. unfold p_xid. rewrite Hfmt. reflexivity. Qed.
    Lemma xtp_eqT : xtp = [].
    Proof. unfold p_xtp. rewrite Hfmt. reflexivity. Qed.
    Lemma xid_inT n : In n (p_xid p) -> In n xids /\ 1 <= n.
    Proof. rewrite xid_eqT. intros []. Qed.
    Lemma xtp_numsT : map top_num xtp = p_xid p.
    Proof. rewrite xtp_eqT, xid_eqT. reflexivity. Qed.
    Lemma xtp_genT tp : In tp xtp -> snd (fst (fst tp)) = 0.
    Proof. rewrite xtp_eqT. cbn [In]. intro H. repeat (destruct H as [<-|H]; [reflexivity|]). destruct H. Qed.
    Lemma HoffsT : offs_of pos (p_otops p ++ xtp) = p_offs p pos.
    Proof. rewrite offs_of_app. unfold p_offs. f_equal. rewrite xtp_eqT, xid_eqT. reflexivity. Qed.
    Lemma Hhn'T : NoDup (map top_num (p_mine p ++ xtp)).
    Proof.
      rewrite map_app, xtp_numsT. apply NoDup_app_disj; [exact Hhn| |].
      - rewrite xid_eqT; repeat constructor; intros [].
      - intros n H1 H2. unfold p_hnums in H1. change (fun t0 : top => fst (fst (fst t0))) with top_num in H1.
        apply in_map_iff in H1 as [tp [<- Hin]]. apply (nums_not_xid (top_num tp)); [apply (mine_bounds p tp Hin)|apply (xid_inT _ H2)].
    Qed.

    Lemma sz_leT : sz <= u32_max.
    Proof.
      rewrite p_size_eq. pose proof HmaxnT. assert (max_num (p_hnums p ++ p_xid p) <= max_num (nums ++ xids)); [|lia].
      unfold max_num at 1. apply max_num_le; [lia|]. intros y Hy. apply max_num_ge. apply in_app_or in Hy as [Hy|Hy]; apply in_or_app.
      - left. unfold p_hnums in Hy. apply in_map_iff in Hy as [tp [<- Hin]]. apply (mine_bounds p tp Hin).
      - right. apply (xid_inT _ Hy).
    Qed.

    Lemma otop_mineT tp : In tp (p_otops p ++ xtp) <-> In tp (p_mine p ++ xtp).
    Proof. rewrite !in_app_iff. unfold p_otops. rewrite ordered_In. tauto. Qed.

    Lemma otop_uniqT tp tp' : In tp (p_otops p ++ xtp) -> In tp' (p_otops p ++ xtp) -> top_num tp = top_num tp' -> tp = tp'.
    Proof.
      intros H1 H2 E. apply (unique_by_key top_num (p_mine p ++ xtp)); [exact Hhn'T|apply otop_mineT; exact H1|apply otop_mineT; exact H2|exact E].
    Qed.

    Lemma ehere_inuseT n off g : p_ehere p pos n = SInUse off g ->
      exists pre tp post, p_otops p ++ xtp = pre ++ tp :: post /\ fst (fst tp) = (n, g) /\ off = pos + N.of_nat (length (body_of pre)).
    Proof.
      unfold p_ehere. rewrite <- HoffsT. destruct (find_off (offs_of pos (p_otops p ++ xtp)) n) as [[g0 p0]|] eqn:Ef; [|discriminate].
      intro H. inversion H; subst. apply find_off_In in Ef.
      destruct (offs_of_In _ _ _ _ _ Ef) as [pre [o [y [post [E Ep]]]]]. exists pre, ((n, g), o, y), post. auto.
    Qed.

    Lemma ehere_of_topT tp : In tp (p_otops p ++ xtp) ->
      exists pre post, p_otops p ++ xtp = pre ++ tp :: post /\
                       p_ehere p pos (top_num tp) = SInUse (pos + N.of_nat (length (body_of pre))) (snd (fst (fst tp))).
    Proof.
      intro H. destruct (find_off_exists (p_otops p ++ xtp) pos tp H) as [g [q Ef]].
      assert (En : p_ehere p pos (top_num tp) = SInUse q g) by (unfold p_ehere; rewrite <- HoffsT, Ef; reflexivity).
      destruct (ehere_inuseT _ _ _ En) as [pre [tp' [post [E [Ek Ep]]]]].
      assert (tp' = tp).
      { apply otop_uniqT; [rewrite E; apply in_or_app; right; left; reflexivity|exact H|]. unfold top_num. rewrite Ek. reflexivity. }
      subst tp'. exists pre, post. split; [exact E|]. rewrite En, Ep, Ek. reflexivity.
    Qed.

    Lemma HhereT n : p_here p pos n = true -> exists off g, p_ehere p pos n = SInUse off g.
    Proof.
      intro Eh. unfold p_here in Eh. destruct (p_ehere p pos n) as [a0 b0|off g|c i] eqn:E; cbn [is_used] in Eh; try discriminate Eh; [eauto|].
      exfalso. unfold p_ehere in E. destruct (find_off (p_offs p pos) n) as [[g0 q0]|]; discriminate E.
    Qed.

    Lemma here_iffT n : p_here p pos n = true <-> In n (map top_num (p_mine p ++ xtp)).
    Proof.
      split.
      - intro H. destruct (HhereT n H) as [off [g E]]. destruct (ehere_inuseT _ _ _ E) as [pre [tp [post [Eo [Ek _]]]]].
        apply in_map_iff. exists tp. split; [unfold top_num; rewrite Ek; reflexivity|]. apply otop_mineT. rewrite Eo. apply in_or_app. right. left. reflexivity.
      - intro H. apply in_map_iff in H as [tp [E Hin]]. apply otop_mineT in Hin.
        destruct (ehere_of_topT tp Hin) as [pre [post [_ Ee]]]. rewrite E in Ee. unfold p_here. rewrite Ee. reflexivity.
    Qed.

    Lemma here_ltT n : p_here p pos n = true -> n < sz /\ In n (nums ++ xids).
    Proof.
      intro H. apply here_iffT in H. rewrite map_app, xtp_numsT in H. rewrite p_size_eq.
      assert (Hm : n <= max_num (p_hnums p ++ p_xid p)) by (apply max_num_ge; exact H). split; [lia|].
      apply in_app_or in H as [H|H]; apply in_or_app.
      - left. apply in_map_iff in H as [tp [<- Hin]]. apply (mine_bounds p tp Hin).
      - right. apply (xid_inT _ H).
    Qed.

    Lemma en_hereT n : p_here p pos n = true -> en n = p_ehere p pos n.
    Proof. intro H. unfold p_entry. rewrite H. reflexivity. Qed.

    Definition p_tsecs := build_tsecs secs en (t_eols t) (t_eols t) (t_sec_eols t) (t_sec_sp t).
    Definition p_trd : dict := a_trailer a ++ [(RefWriter.K_Size, OInt (Z.of_N sz))] ++ p_prev prev.
    Definition p_front : bytes :=
      table_text (t_kw_eol t) p_tsecs ++ bs "trailer" ++ sep_bytes (bs "trailer") (t_f1 t) (w_obj (ODict p_trd) (t_trailer t)) ++
      w_obj (ODict p_trd) (t_trailer t) ++ sep_bytes (w_obj (ODict p_trd) (t_trailer t)) (t_f2 t) (startxref_text (with_part st p last) xpos).
    Definition p_tpart : bytes :=
      join [(bs "trailer", t_f1 t); (w_obj (ODict p_trd) (t_trailer t), t_f2 t); (startxref_text (with_part st p last) xpos, [])].
    Definition p_xr : bytes := table_text (t_kw_eol t) p_tsecs ++ p_tpart.

    Lemma T_eqT : T = body_of (p_otops p ++ xtp) ++ p_xr.
    Proof. rewrite xtp_eqT, app_nil_r. unfold p_text, section_text. rewrite s_xref_with_part, Hfmt. reflexivity. Qed.

    (* the object an own entry names, at its byte *)
    Lemma ehere_atT n off g : p_ehere p pos n = SInUse off g ->
      exists tp pre post, In tp (p_mine p ++ xtp) /\ fst (fst tp) = (n, g) /\ P ++ T = pre ++ top_text tp ++ post /\ off = blen pre /\
                          blen P <= off.
    Proof.
      intro H. destruct (ehere_inuseT _ _ _ H) as [pre [tp [post [Eo [Ek Ep]]]]].
      exists tp, (P ++ body_of pre), (body_of post ++ p_xr). split; [apply otop_mineT; rewrite Eo; apply in_or_app; right; left; reflexivity|].
      split; [exact Ek|]. split; [|split].
      - rewrite T_eqT, Eo, body_of_app. change (body_of (tp :: post)) with (top_text tp ++ body_of post). rewrite <- !app_assoc. reflexivity.
      - rewrite Ep. unfold blen. rewrite app_length. lia.
      - rewrite Ep. lia.
    Qed.

    Lemma mine_x_boundsT tp : In tp (p_mine p ++ xtp) -> snd (fst (fst tp)) <= u16_max.
    Proof.
      intro H. apply in_app_or in H as [H|H]; [apply (mine_bounds p tp H)|]. rewrite (xtp_genT tp H). unfold u16_max. lia.
    Qed.

    Lemma en_shapeT k :
      match en k with
      | SInUse off g => off <= blen (P ++ T) /\ g <= u16_max
      | SFree n g => n = 0 /\ g <= 65535
      | SComp _ _ => False
      end.
    Proof.
      unfold p_entry. destruct (p_here p pos k) eqn:Eh.
      - destruct (HhereT k Eh) as [off [g E]]. rewrite E.
        destruct (ehere_atT _ _ _ E) as [tp [pre [post [Hin [Ek [EP [Eoff _]]]]]]]. split.
        + rewrite Eoff, EP. unfold blen. rewrite !app_length. lia.
        + pose proof (mine_x_boundsT tp Hin) as Hg. rewrite Ek in Hg. exact Hg.
      - destruct (mem_N k (mp_relist p)).
        + destruct (lookup_entry known k) as [e|] eqn:El; [|split; [reflexivity|lia]].
          destruct (HknT k e El) as [off [g [-> [H1 H2]]]]. split; [|exact H2].
          assert (blen P <= blen (P ++ T)) by (unfold blen; rewrite app_length; lia). lia.
        + destruct (k =? 0); split; try reflexivity; lia.
    Qed.

    Lemma secs_propsT :
      secs <> [] /\ secs_increasing 0 secs = true /\
      (forall f c, In (f, c) secs -> 1 <= c /\ f + c <= sz) /\
      (forall n, p_here p pos n = true -> exists f c, In (f, c) secs /\ f <= n < f + c).
    Proof.
      assert (Hsz : 1 <= sz) by (rewrite p_size_eq; lia).
      assert (Main : secs_increasing 0 secs = true /\ (forall f c, In (f, c) secs -> 1 <= c /\ f + c <= sz) /\
                     (forall n, n < sz -> p_here p pos n = true -> exists f c, In (f, c) secs /\ f <= n < f + c)).
      { unfold p_secs. destruct prev as [q|].
        - destruct (secs_ok_later (p_s0 p) sz (p_here p pos) en) eqn:E.
          + unfold secs_ok_later in E. apply andb_true_iff in E as [E E3]. apply andb_true_iff in E as [E1 E2].
            split; [exact E1|]. split.
            * intros f c Hin. split; [eapply secs_increasing_c; eassumption|].
              rewrite forallb_forall in E3. specialize (E3 (f, c) Hin). cbn [fst snd] in E3. apply andb_true_iff in E3 as [E3 _].
              apply N.leb_le. exact E3.
            * intros n Hn Hu. unfold secs_cover in E2. rewrite forallb_forall in E2.
              assert (Hin : In n (range_N 0 (N.to_nat sz))) by (apply range_N_In; rewrite N2Nat.id; lia).
              specialize (E2 n Hin). rewrite Hu in E2. cbn [negb orb] in E2. apply existsb_exists in E2 as [[f c] [K1 K2]].
              cbn [fst snd] in K2. apply andb_true_iff in K2 as [K2 K3]. apply N.leb_le in K2. apply N.ltb_lt in K3. eauto.
          + destruct (runs_of_good (p_here p pos) (N.to_nat sz) 0) as [R1 [R2 R3]]. rewrite N2Nat.id in R2, R3. split; [exact R1|]. split.
            * intros f c Hin. destruct (R2 f c Hin). split; [assumption|lia].
            * intros n Hn Hu. apply R3; [lia|exact Hu].
        - rewrite Hfmt. destruct (use_secs_good (t_secs t) sz (fun n => (n =? 0) || p_here p pos n) Hsz) as [G1 [G2 G3]].
          split; [exact G1|]. split; [exact G3|]. intros n Hn Hu. apply G2; [exact Hn|]. cbv beta. rewrite Hu. apply orb_true_r. }
      destruct Main as [M1 [M2 M3]]. split; [|split; [exact M1|split; [exact M2|]]].
      - destruct Hex as [n0 Hn0]. destruct (M3 n0 (proj1 (here_ltT n0 Hn0)) Hn0) as [f [c [Hin _]]]. intro E. rewrite E in Hin. contradiction.
      - intros n Hn. apply M3; [apply (here_ltT n Hn)|exact Hn].
    Qed.

    Definition p_numbT := map (fun k => (k, en k)) (keys_of secs).
    Lemma p_numb_nodupT : NoDup (map fst p_numbT).
    Proof. unfold p_numbT. rewrite map_map. cbn [fst]. rewrite map_id. destruct secs_propsT as [_ [H _]]. apply (keys_increasing secs 0 H). Qed.

    Lemma Htr : trailer_dom t.
    Proof. unfold part_ok in Hok. rewrite Hfmt in Hok. exact Hok. Qed.

    Lemma tail_frontT : exists fr, p_xr = fr ++ startxref_text (with_part st p last) xpos.
    Proof.
      exists p_front. unfold p_xr, p_tpart, p_front. cbn [join]. change (fill_bytes []) with (@nil byte). rewrite app_nil_r, <- !app_assoc. reflexivity.
    Qed.
    Lemma tail_consT : exists b r, p_xr = b :: r.
    Proof. unfold p_xr, table_text. eexists. eexists. reflexivity. Qed.

    Lemma en_tentry_ok k : tentry_ok (en k).
    Proof.
      pose proof (en_shapeT k) as K. destruct (en k) as [n g|off g|c i]; cbn [tentry_ok].
      - destruct K as [-> K]. unfold u32_max. lia.
      - destruct K as [K1 K2]. unfold u16_max in K2. lia.
      - exact K.
    Qed.

    Lemma p_numbered_eq : numbered (tsections_plain p_tsecs) = p_numbT.
    Proof. unfold p_tsecs. rewrite build_tsecs_plain. apply numbered_plain. Qed.

    Definition p_x : xref := {| x_type := XTTable; x_entries := spec_map p_numbT; x_size := i64_as_u32 (Z.of_N sz) |}.
    Definition p_t : dict := denote_dict p_trd (dict_sts (t_trailer t)).
    Lemma px_entriesT : x_entries p_x = spec_map p_numbT. Proof. reflexivity. Qed.

    Lemma xr_parse_p ext : xref_and_trailer_table (p_xr ++ ext) = XOk (p_x, p_t).
    Proof.
      unfold xref_and_trailer_table, p_xr. rewrite <- app_assoc.
      assert (Htk : tok_start (p_tpart ++ ext) = true) by reflexivity.
      rewrite (xref_table_any_sectioning (t_kw_eol t) p_tsecs (p_tpart ++ ext)).
      2:{ apply build_tsecs_ne. apply secs_propsT. }
      2:{ apply (build_tsecs_ok en _ sz en_tentry_ok sz_leT). apply secs_propsT. }
      2:{ reflexivity. }
      rewrite (space_tok _ Htk).
      destruct (Htr sz prev sz_leT HprevT) as [Hw Hn].
      pose proof (trailer_any_spelling (t_f1 t) (t_f2 t) p_trd (t_trailer t) (startxref_text (with_part st p last) xpos) ext Hw Hn) as Et.
      assert (Et' : Xref.trailer (p_tpart ++ ext) = POk p_t (startxref_text (with_part st p last) xpos ++ ext)).
      { apply Et; rewrite startxref_text_block; [discriminate|reflexivity]. }
      rewrite Et'.
      assert (Eg : dict_get p_t Xref.K_Size = Some (OInt (Z.of_N sz))).
      { change Xref.K_Size with RefWriter.K_Size. unfold p_t. apply dict_get_denote. unfold p_trd. rewrite dget_app.
        destruct Htrail as [Hs _]. rewrite Hs. reflexivity. }
      rewrite Eg. cbn [x_type x_entries]. rewrite p_numbered_eq. reflexivity.
    Qed.

    Lemma HparseT ext : xref_and_trailer_x dec can ((P ++ T) ++ ext) xpos = SOk (p_x, p_t).
    Proof.
      unfold xref_and_trailer_x. rewrite T_eqT, xtp_eqT, app_nil_r.
      replace ((P ++ body_of (p_otops p) ++ p_xr) ++ ext) with ((P ++ body_of (p_otops p)) ++ p_xr ++ ext) by (rewrite <- !app_assoc; reflexivity).
      replace xpos with (blen (P ++ body_of (p_otops p))) by (unfold p_xpos, blen; rewrite app_length; lia).
      rewrite from_app, xr_parse_p. reflexivity.
    Qed.

    Lemma Hpt_prevT : dict_get p_t K_Prev = match prev with Some q => Some (OInt (Z.of_N q)) | None => None end.
    Proof.
      destruct Htrail as [_ [Hp _]]. unfold p_t, p_trd. destruct prev as [q|]; cbn [p_prev].
      - apply dict_get_denote. rewrite dget_app, Hp. reflexivity.
      - apply dict_get_denote_none. rewrite dget_app, Hp. reflexivity.
    Qed.

    Lemma p_t_none k : dict_get (a_trailer a) k = None -> bytes_eqb RefWriter.K_Size k = false -> bytes_eqb K_PrevW k = false ->
      dict_get p_t k = None.
    Proof.
      intros H1 H2 H3. unfold p_t, p_trd. apply dict_get_denote_none. rewrite dget_app, H1. cbn [app dict_get]. rewrite H2.
      destruct prev; cbn [p_prev dict_get]; [rewrite H3|]; reflexivity.
    Qed.
    Lemma Hpt_stmT : dict_get p_t K_XRefStm = None.
    Proof. apply p_t_none; [apply Htrail|reflexivity|reflexivity]. Qed.

    Lemma pt_wfT : dict_wf p_t.
    Proof.
      unfold dict_wf, keys, p_t. rewrite keys_denote. destruct (Htr sz prev sz_leT HprevT) as [Hw _]. apply spell_wf_dict in Hw. apply Hw.
    Qed.
    Lemma pt_encT : dict_get p_t K_Encrypt = None.
    Proof. apply p_t_none; [apply Htrail|reflexivity|reflexivity]. Qed.
    Lemma px_typeT : x_type p_x = XTTable. Proof. reflexivity. Qed.

    Lemma Hxtp_okT tp : In tp xtp -> top_ok tp.
    Proof. rewrite xtp_eqT. intros []. Qed.

    Lemma pt_sizeT : dict_get p_t Xref.K_Size = Some (OInt (Z.of_N sz)).
    Proof.
      change Xref.K_Size with RefWriter.K_Size. unfold p_t. apply dict_get_denote. unfold p_trd. rewrite dget_app.
      destruct Htrail as [Hs _]. rewrite Hs. reflexivity.
    Qed.

    Lemma pt_srcT : trailer_src p_t.
    Proof.
      split; [exact pt_wfT|]. exists p_trd, (t_trailer t). split; [apply (Htr sz prev sz_leT HprevT)|].
      intros k Hk. split; [reflexivity|]. unfold p_trd. rewrite dget_app. destruct (dict_get (a_trailer a) k); [reflexivity|].
      cbn [app dict_get]. rewrite (excl_beq RefWriter.K_Size k Hk) by (cbn; tauto).
      destruct prev; cbn [p_prev dict_get]; [rewrite (excl_beq K_PrevW k Hk) by (cbn; tauto)|]; reflexivity.
    Qed.

    (* ---------- generic from here: the invariant after this part ---------- *)
    Lemma xget_p_casesT n :
      (In n (keys_of secs) /\ xget (x_entries p_x) n = entry_meaning (en n)) \/ (~ In n (keys_of secs) /\ xget (x_entries p_x) n = None).
    Proof.
      rewrite px_entriesT.
      destruct (in_dec N.eq_dec n (keys_of secs)) as [Hin|Hn]; [left|right]; (split; [assumption|]).
      - apply (xget_spec_map p_numbT n (en n) p_numb_nodupT). unfold p_numbT. apply in_map_iff. exists n. split; [reflexivity|exact Hin].
      - unfold spec_map. rewrite xget_spec_map_absent; [reflexivity|].
        unfold p_numbT. rewrite map_map. cbn [fst]. rewrite map_id. exact Hn.
    Qed.

    Lemma px_sortedT : C07Bytes.xincr 0 (x_entries p_x).
    Proof. rewrite px_entriesT. apply spec_map_sorted. exact I. Qed.

    Lemma xpos_ltT : xpos < blen (P ++ T).
    Proof.
      rewrite T_eqT. destruct tail_consT as [b [r ->]]. unfold p_xpos, blen. rewrite body_of_app, !app_length. cbn [length]. lia.
    Qed.

    Lemma PT_frontT : exists front, P ++ T = front ++ startxref_text (with_part st p last) xpos /\ xpos <= blen front.
    Proof.
      destruct tail_frontT as [fr E]. exists (P ++ body_of (p_otops p ++ xtp) ++ fr). rewrite T_eqT. rewrite E at 1. split; [rewrite <- !app_assoc; reflexivity|].
      unfold p_xpos, blen. rewrite body_of_app, !app_length. lia.
    Qed.

    Notation chain' := ((xpos, (p_x, p_t)) :: chain).

    Lemma fe_stepT n : fe chain' n = if p_here p pos n then entry_meaning (p_ehere p pos n) else fe chain n.
    Proof.
      unfold fe. cbn [map first_entry fst snd]. change (first_entry (map (fun s : csec => fst (snd s)) chain) n) with (fe chain n).
      destruct (p_here p pos n) eqn:Eh.
      - destruct secs_propsT as [_ [_ [_ Hc]]]. destruct (Hc n Eh) as [f [c [Hin Hr]]].
        destruct (xget_p_casesT n) as [[_ ->]|[Hn _]]; [|exfalso; apply Hn; apply keys_of_In; eauto].
        rewrite (en_hereT n Eh). destruct (HhereT n Eh) as [off [g ->]]. reflexivity.
      - destruct (xget_p_casesT n) as [[_ ->]|[_ ->]]; [|reflexivity].
        unfold p_entry. rewrite Eh. destruct (mem_N n (mp_relist p)).
        + pose proof (i_known _ _ _ _ _ _ Hinv n) as K. destruct (lookup_entry known n) as [e|]; [|reflexivity].
          rewrite <- K. destruct (entry_meaning e); reflexivity.
        + destruct (n =? 0); reflexivity.
    Qed.

    Lemma known_stepT n :
      lookup_entry (p_known p pos known maxnum) n = if p_here p pos n then Some (p_ehere p pos n) else lookup_entry known n.
    Proof.
      unfold p_known. rewrite (lookup_entry_map en known). destruct (p_here p pos n) eqn:Eh.
      - replace (mem_N n (filter (p_here p pos) (range_N 0 (N.to_nat sz)))) with true; [rewrite (en_hereT n Eh); reflexivity|].
        symmetry. apply mem_N_In. apply filter_In. split; [|exact Eh]. apply range_N_In. rewrite N2Nat.id. destruct (here_ltT n Eh). lia.
      - replace (mem_N n (filter (p_here p pos) (range_N 0 (N.to_nat sz)))) with false; [reflexivity|].
        symmetry. destruct (mem_N n (filter (p_here p pos) (range_N 0 (N.to_nat sz)))) eqn:E; [|reflexivity].
        apply mem_N_In in E. apply filter_In in E as [_ E]. congruence.
    Qed.

    Lemma inv_stepT : Inv rest (P ++ T) chain' (p_known p pos known maxnum) (sz - 1) (xtp ++ xt).
    Proof.
      assert (HPT : blen P <= blen (P ++ T)) by (unfold blen; rewrite app_length; lia).
      assert (Hmine : forall tp, In tp tops -> In (top_num tp) (mp_nums p) -> p_here p pos (top_num tp) = true).
      { intros tp Htp K. apply here_iffT. apply in_map. apply in_or_app. left. unfold p_mine. apply in_or_app. left.
        apply filter_In. split; [exact Htp|]. apply mem_N_In. exact K. }
      constructor.
      - (* i_nums *) intros n e H. rewrite fe_stepT in H. destruct (p_here p pos n) eqn:Eh.
        + destruct (HhereT n Eh) as [off [g Ee]]. rewrite Ee in H. cbn [entry_meaning] in H. inversion H; subst e.
          destruct (here_ltT n Eh) as [H1 H2]. split; [exact H2|]. split; [lia|eauto].
        + destruct (i_nums _ _ _ _ _ _ Hinv n e H) as [H1 [H2 H3]]. split; [exact H1|]. split; [rewrite p_size_eq; lia|exact H3].
      - (* i_cur *) intros n off g H Hnr. rewrite fe_stepT in H. destruct (p_here p pos n) eqn:Eh.
        + destruct (HhereT n Eh) as [off' [g' Ee]]. rewrite Ee in H. cbn [entry_meaning] in H. inversion H; subst off' g'.
          destruct (ehere_atT _ _ _ Ee) as [tp [pre [post [Hin [Ek [EP [Eoff _]]]]]]].
          apply in_app_or in Hin as [Hin|Hin].
          * destruct (mine_cases p tp Hin) as [[Ht _]|[cur [o [Hc [Hce Ho]]]]].
            -- exists tp, pre, post. split; [apply in_or_app; left; exact Ht|auto].
            -- exfalso. unfold top_num in Ho. rewrite Ek in Ho. cbn [fst] in Ho. apply Hnr; [|apply (Hold _ Ho)].
               destruct (tops_id cur Hc) as [_ [_ [K _]]]. unfold top_num in K. rewrite Hce, Ek in K. exact K.
          * exists tp, pre, post. split; [apply in_or_app; right; apply in_or_app; left; exact Hin|auto].
        + assert (Hnp : In n nums -> ~ In n (mp_nums p)).
          { intros Hn K. destruct (top_of_num n Hn) as [tp [Htp En]].
            rewrite <- En in K. pose proof (Hmine tp Htp K) as K2. rewrite En in K2. congruence. }
          destruct (i_cur _ _ _ _ _ _ Hinv n off g H) as [tp [pre [post [H1 [H2 [H3 H4]]]]]].
          { intros Hn. cbn [flat_map]. intro K. apply in_app_or in K as [K|K]; [apply (Hnp Hn); exact K|apply (Hnr Hn); exact K]. }
          exists tp, pre, (post ++ T). split; [apply in_app_or in H1 as [H1|H1]; apply in_or_app; [left; exact H1|right; apply in_or_app; right; exact H1]|].
          split; [exact H2|]. split; [rewrite H3, <- !app_assoc; reflexivity|exact H4].
      - (* i_all *) intros tp Htp Hnr. rewrite fe_stepT. destruct (p_here p pos (top_num tp)) eqn:Eh.
        + destruct (HhereT _ Eh) as [off [g ->]]. discriminate.
        + apply (i_all _ _ _ _ _ _ Hinv tp Htp). cbn [flat_map]. intro K. apply in_app_or in K as [K|K]; [|apply Hnr; exact K].
          pose proof (Hmine tp Htp K). congruence.
      - (* i_allx *) intros n Hn Hnr. rewrite fe_stepT. destruct (p_here p pos n) eqn:Eh.
        + destruct (HhereT _ Eh) as [off [g ->]]. discriminate.
        + apply (i_allx _ _ _ _ _ _ Hinv n Hn). change (part_xids (p :: rest)) with (p_xid p ++ part_xids rest). intro K.
          apply in_app_or in K as [K|K]; [|apply Hnr; exact K].
          assert (In n (map top_num (p_mine p ++ xtp))) by (rewrite map_app, xtp_numsT; apply in_or_app; right; exact K).
          apply here_iffT in H. congruence.
      - (* i_known *) intro n. rewrite known_stepT, fe_stepT. destruct (p_here p pos n) eqn:Eh; [|apply (i_known _ _ _ _ _ _ Hinv)].
        reflexivity.
      - (* i_kn *) intros n e H. rewrite known_stepT in H. destruct (p_here p pos n) eqn:Eh.
        + inversion H; subst e. destruct (HhereT n Eh) as [off [g Ee]]. exists off, g. split; [exact Ee|].
          destruct (ehere_atT _ _ _ Ee) as [tp [pre [post [Hin [Ek [EP [Eoff _]]]]]]]. split.
          * rewrite Eoff, EP. unfold blen. rewrite !app_length. lia.
          * pose proof (mine_x_boundsT tp Hin) as Hg. rewrite Ek in Hg. exact Hg.
        + destruct (HknT n e H) as [off [g [E1 [E2 E3]]]]. exists off, g. split; [exact E1|]. split; [lia|exact E3].
      - (* i_chain *) intro ext. cbn [chain_ok]. split; [exact xpos_ltT|]. split; [apply HparseT|]. split; [exact Hpt_stmT|].
        split.
        + rewrite Hpt_prevT.
          assert (G : forall c, match prev_N c with Some q => Some (OInt (Z.of_N q)) | None => None end = prev_of c)
            by (intros [|[off [x0 t0]] r]; reflexivity).
          apply G.
        + rewrite <- app_assoc. apply (chain_ok_weaken dec can _ chain (blen P)); [unfold p_xpos; lia|apply (i_chain _ _ _ _ _ _ Hinv)].
      - (* i_max *) rewrite p_size_eq. pose proof sz_leT as K. rewrite p_size_eq in K. pose proof HmaxnT.
        assert (max_num (p_hnums p ++ p_xid p) <= max_num (nums ++ xids)); [|lia].
        unfold max_num at 1. apply max_num_le; [lia|]. intros y Hy. apply max_num_ge. apply in_app_or in Hy as [Hy|Hy]; apply in_or_app.
        + left. unfold p_hnums in Hy. apply in_map_iff in Hy as [tp [<- Hin]]. apply (mine_bounds p tp Hin).
        + right. apply (xid_inT _ Hy).
      - (* i_xt *) intros tp Htp. apply in_app_or in Htp as [Htp|Htp]; [|apply (i_xt _ _ _ _ _ _ Hinv tp Htp)].
        split; [apply Hxtp_okT; exact Htp|]. apply (xid_inT (top_num tp)). rewrite <- xtp_numsT. apply in_map. exact Htp.
      - (* i_pos *) pose proof (i_pos _ _ _ _ _ _ Hinv). lia.
    Qed.
    Lemma part_resultT :
      Inv rest (P ++ T) chain' (p_known p pos known maxnum) (sz - 1) (xtp ++ xt) /\ C07Bytes.xincr 0 (x_entries p_x) /\
      (exists front, P ++ T = front ++ startxref_text (with_part st p last) xpos /\ xpos <= blen front) /\
      dict_get (dict_swap_remove p_t K_Prev) K_XRefStm = None /\ dict_has (dict_swap_remove p_t K_Prev) K_Encrypt = false /\
      trailer_src p_t /\ dict_get p_t Xref.K_Size = Some (OInt (Z.of_N sz)).
    Proof.
      split; [exact inv_stepT|]. split; [exact px_sortedT|]. split; [exact PT_frontT|]. split; [|split; [|split; [exact pt_srcT|exact pt_sizeT]]].
      - rewrite dict_get_swap_remove_other; [exact Hpt_stmT|exact pt_wfT|intro E; discriminate E].
      - unfold dict_has. rewrite dict_get_swap_remove_other; [rewrite pt_encT; reflexivity|exact pt_wfT|intro E; discriminate E].
    Qed.
  End PartT.

  Section PartS.
    Variable p : mpart.
    Variable x : xsstyle.
    Variable P : bytes.
    Variable chain : list csec.
    Variable known : list (N * sentry).
    Variable maxnum : N.
    Variable rest : list mpart.
    Variable xt : list top.
    Hypothesis Hfmt : mp_xref p = XStream x.
    Hypothesis Hhn : NoDup (p_hnums p).
    Hypothesis Hinv : Inv (p :: rest) P chain known maxnum xt.
    Hypothesis Hex : exists n, p_here p (blen P) n = true.
    Hypothesis Hold : forall no, In no (mp_old p) -> In (fst no) (flat_map mp_nums rest).
    Hypothesis Hok : part_ok p (blen P) (prev_N chain) known maxnum.

    Notation prev := (prev_N chain).
    Notation last := (p_last rest).
    Notation pos := (blen P).
    Notation sz := (p_size p maxnum).
    Notation secs := (p_secs p pos prev known maxnum).
    Notation en := (p_entry p pos known).
    Notation xpos := (p_xpos p pos).
    Notation T := (p_text p last pos prev known maxnum).
    Notation xtp := (p_xtp p pos prev known maxnum).
    Hypothesis HU : blen (P ++ T) <= u32_max.

    Lemma HknS : forall n e, lookup_entry known n = Some e -> exists off g, e = SInUse off g /\ off <= blen P /\ g <= u16_max.
    Proof. exact (i_kn _ _ _ _ _ _ Hinv). Qed.
    Lemma HmaxnS : maxnum <= max_num (nums ++ xids).
    Proof. exact (i_max _ _ _ _ _ _ Hinv). Qed.
    Lemma HprevS : prev = None \/ exists q, q <= u32_max /\ prev = Some q.
    Proof.
      pose proof (i_chain _ _ _ _ _ _ Hinv []) as K.
      assert (G : forall c, chain_ok dec can (P ++ []) (blen P) c -> prev_N c = None \/ exists q, q < blen P /\ prev_N c = Some q).
      { intros [|[off [x0 t0]] r] Hc; [left; reflexivity|right]. exists off. split; [apply Hc|reflexivity]. }
      destruct (G chain K) as [G1|[q [G1 G2]]]; [left; exact G1|right; exists q; split; [|exact G2]].
      assert (blen P <= blen (P ++ T)) by (unfold blen; rewrite app_length; lia). lia.
    Qed.

    Lemma xid_eqS : p_xid p = [xs_id x].
    Proof. unfold p_xid. rewrite Hfmt. reflexivity. Qed.
    Lemma xtp_eqS : xtp = [xq_top a x (p_entry p (blen P) known) (p_secs p (blen P) (prev_N chain) known maxnum) (p_size p maxnum) (p_prev (prev_N chain))].
    Proof. unfold p_xtp. rewrite Hfmt. reflexivity. Qed.
    Lemma xid_inS n : In n (p_xid p) -> In n xids /\ 1 <= n.
    Proof. rewrite xid_eqS. intros [<-|[]]. unfold part_ok in Hok. rewrite Hfmt in Hok. destruct Hok as [_ [Hin _]]. split; [exact Hin|].
      destruct (N.eq_dec (xs_id x) 0) as [E|E]; [rewrite E in Hin; contradiction|lia]. Qed.
    Lemma xtp_numsS : map top_num xtp = p_xid p.
    Proof. rewrite xtp_eqS, xid_eqS. reflexivity. Qed.
    Lemma xtp_genS tp : In tp xtp -> snd (fst (fst tp)) = 0.
    Proof. rewrite xtp_eqS. cbn [In]. intro H. repeat (destruct H as [<-|H]; [reflexivity|]). destruct H. Qed.
    Lemma HoffsS : offs_of pos (p_otops p ++ xtp) = p_offs p pos.
    Proof. rewrite offs_of_app. unfold p_offs. f_equal. rewrite xtp_eqS, xid_eqS. reflexivity. Qed.
    Lemma Hhn'S : NoDup (map top_num (p_mine p ++ xtp)).
    Proof.
      rewrite map_app, xtp_numsS. apply NoDup_app_disj; [exact Hhn| |].
      - rewrite xid_eqS; repeat constructor; intros [].
      - intros n H1 H2. unfold p_hnums in H1. change (fun t0 : top => fst (fst (fst t0))) with top_num in H1.
        apply in_map_iff in H1 as [tp [<- Hin]]. apply (nums_not_xid (top_num tp)); [apply (mine_bounds p tp Hin)|apply (xid_inS _ H2)].
    Qed.

    Lemma sz_leS : sz <= u32_max.
    Proof.
      rewrite p_size_eq. pose proof HmaxnS. assert (max_num (p_hnums p ++ p_xid p) <= max_num (nums ++ xids)); [|lia].
      unfold max_num at 1. apply max_num_le; [lia|]. intros y Hy. apply max_num_ge. apply in_app_or in Hy as [Hy|Hy]; apply in_or_app.
      - left. unfold p_hnums in Hy. apply in_map_iff in Hy as [tp [<- Hin]]. apply (mine_bounds p tp Hin).
      - right. apply (xid_inS _ Hy).
    Qed.

    Lemma otop_mineS tp : In tp (p_otops p ++ xtp) <-> In tp (p_mine p ++ xtp).
    Proof. rewrite !in_app_iff. unfold p_otops. rewrite ordered_In. tauto. Qed.

    Lemma otop_uniqS tp tp' : In tp (p_otops p ++ xtp) -> In tp' (p_otops p ++ xtp) -> top_num tp = top_num tp' -> tp = tp'.
    Proof.
      intros H1 H2 E. apply (unique_by_key top_num (p_mine p ++ xtp)); [exact Hhn'S|apply otop_mineS; exact H1|apply otop_mineS; exact H2|exact E].
    Qed.

    Lemma ehere_inuseS n off g : p_ehere p pos n = SInUse off g ->
      exists pre tp post, p_otops p ++ xtp = pre ++ tp :: post /\ fst (fst tp) = (n, g) /\ off = pos + N.of_nat (length (body_of pre)).
    Proof.
      unfold p_ehere. rewrite <- HoffsS. destruct (find_off (offs_of pos (p_otops p ++ xtp)) n) as [[g0 p0]|] eqn:Ef; [|discriminate].
      intro H. inversion H; subst. apply find_off_In in Ef.
      destruct (offs_of_In _ _ _ _ _ Ef) as [pre [o [y [post [E Ep]]]]]. exists pre, ((n, g), o, y), post. auto.
    Qed.

    Lemma ehere_of_topS tp : In tp (p_otops p ++ xtp) ->
      exists pre post, p_otops p ++ xtp = pre ++ tp :: post /\
                       p_ehere p pos (top_num tp) = SInUse (pos + N.of_nat (length (body_of pre))) (snd (fst (fst tp))).
    Proof.
      intro H. destruct (find_off_exists (p_otops p ++ xtp) pos tp H) as [g [q Ef]].
      assert (En : p_ehere p pos (top_num tp) = SInUse q g) by (unfold p_ehere; rewrite <- HoffsS, Ef; reflexivity).
      destruct (ehere_inuseS _ _ _ En) as [pre [tp' [post [E [Ek Ep]]]]].
      assert (tp' = tp).
      { apply otop_uniqS; [rewrite E; apply in_or_app; right; left; reflexivity|exact H|]. unfold top_num. rewrite Ek. reflexivity. }
      subst tp'. exists pre, post. split; [exact E|]. rewrite En, Ep, Ek. reflexivity.
    Qed.

    Lemma HhereS n : p_here p pos n = true -> exists off g, p_ehere p pos n = SInUse off g.
    Proof.
      intro Eh. unfold p_here in Eh. destruct (p_ehere p pos n) as [a0 b0|off g|c i] eqn:E; cbn [is_used] in Eh; try discriminate Eh; [eauto|].
      exfalso. unfold p_ehere in E. destruct (find_off (p_offs p pos) n) as [[g0 q0]|]; discriminate E.
    Qed.

    Lemma here_iffS n : p_here p pos n = true <-> In n (map top_num (p_mine p ++ xtp)).
    Proof.
      split.
      - intro H. destruct (HhereS n H) as [off [g E]]. destruct (ehere_inuseS _ _ _ E) as [pre [tp [post [Eo [Ek _]]]]].
        apply in_map_iff. exists tp. split; [unfold top_num; rewrite Ek; reflexivity|]. apply otop_mineS. rewrite Eo. apply in_or_app. right. left. reflexivity.
      - intro H. apply in_map_iff in H as [tp [E Hin]]. apply otop_mineS in Hin.
        destruct (ehere_of_topS tp Hin) as [pre [post [_ Ee]]]. rewrite E in Ee. unfold p_here. rewrite Ee. reflexivity.
    Qed.

    Lemma here_ltS n : p_here p pos n = true -> n < sz /\ In n (nums ++ xids).
    Proof.
      intro H. apply here_iffS in H. rewrite map_app, xtp_numsS in H. rewrite p_size_eq.
      assert (Hm : n <= max_num (p_hnums p ++ p_xid p)) by (apply max_num_ge; exact H). split; [lia|].
      apply in_app_or in H as [H|H]; apply in_or_app.
      - left. apply in_map_iff in H as [tp [<- Hin]]. apply (mine_bounds p tp Hin).
      - right. apply (xid_inS _ H).
    Qed.

    Lemma en_hereS n : p_here p pos n = true -> en n = p_ehere p pos n.
    Proof. intro H. unfold p_entry. rewrite H. reflexivity. Qed.

    

    Lemma T_eqS : T = body_of (p_otops p ++ xtp) ++ startxref_text (with_part st p last) xpos.
    Proof. rewrite xtp_eqS, body_of_app. unfold p_text. rewrite (section_text_stream a x en secs sz xpos (p_prev prev) _ (eq_trans (s_xref_with_part st p last) Hfmt)).
      change (body_of [xq_top a x en secs sz (p_prev prev)]) with (top_text (xq_top a x en secs sz (p_prev prev)) ++ []).
      rewrite app_nil_r, <- !app_assoc. reflexivity. Qed.

    (* the object an own entry names, at its byte *)
    Lemma ehere_atS n off g : p_ehere p pos n = SInUse off g ->
      exists tp pre post, In tp (p_mine p ++ xtp) /\ fst (fst tp) = (n, g) /\ P ++ T = pre ++ top_text tp ++ post /\ off = blen pre /\
                          blen P <= off.
    Proof.
      intro H. destruct (ehere_inuseS _ _ _ H) as [pre [tp [post [Eo [Ek Ep]]]]].
      exists tp, (P ++ body_of pre), (body_of post ++ startxref_text (with_part st p last) xpos). split; [apply otop_mineS; rewrite Eo; apply in_or_app; right; left; reflexivity|].
      split; [exact Ek|]. split; [|split].
      - rewrite T_eqS, Eo, body_of_app. change (body_of (tp :: post)) with (top_text tp ++ body_of post). rewrite <- !app_assoc. reflexivity.
      - rewrite Ep. unfold blen. rewrite app_length. lia.
      - rewrite Ep. lia.
    Qed.

    Lemma mine_x_boundsS tp : In tp (p_mine p ++ xtp) -> snd (fst (fst tp)) <= u16_max.
    Proof.
      intro H. apply in_app_or in H as [H|H]; [apply (mine_bounds p tp H)|]. rewrite (xtp_genS tp H). unfold u16_max. lia.
    Qed.

    Lemma en_shapeS k :
      match en k with
      | SInUse off g => off <= blen (P ++ T) /\ g <= u16_max
      | SFree n g => n = 0 /\ g <= 65535
      | SComp _ _ => False
      end.
    Proof.
      unfold p_entry. destruct (p_here p pos k) eqn:Eh.
      - destruct (HhereS k Eh) as [off [g E]]. rewrite E.
        destruct (ehere_atS _ _ _ E) as [tp [pre [post [Hin [Ek [EP [Eoff _]]]]]]]. split.
        + rewrite Eoff, EP. unfold blen. rewrite !app_length. lia.
        + pose proof (mine_x_boundsS tp Hin) as Hg. rewrite Ek in Hg. exact Hg.
      - destruct (mem_N k (mp_relist p)).
        + destruct (lookup_entry known k) as [e|] eqn:El; [|split; [reflexivity|lia]].
          destruct (HknS k e El) as [off [g [-> [H1 H2]]]]. split; [|exact H2].
          assert (blen P <= blen (P ++ T)) by (unfold blen; rewrite app_length; lia). lia.
        + destruct (k =? 0); split; try reflexivity; lia.
    Qed.

    Lemma secs_propsS :
      secs <> [] /\ secs_increasing 0 secs = true /\
      (forall f c, In (f, c) secs -> 1 <= c /\ f + c <= sz) /\
      (forall n, p_here p pos n = true -> exists f c, In (f, c) secs /\ f <= n < f + c).
    Proof.
      assert (Hsz : 1 <= sz) by (rewrite p_size_eq; lia).
      assert (Main : secs_increasing 0 secs = true /\ (forall f c, In (f, c) secs -> 1 <= c /\ f + c <= sz) /\
                     (forall n, n < sz -> p_here p pos n = true -> exists f c, In (f, c) secs /\ f <= n < f + c)).
      { unfold p_secs. destruct prev as [q|].
        - destruct (secs_ok_later (p_s0 p) sz (p_here p pos) en) eqn:E.
          + unfold secs_ok_later in E. apply andb_true_iff in E as [E E3]. apply andb_true_iff in E as [E1 E2].
            split; [exact E1|]. split.
            * intros f c Hin. split; [eapply secs_increasing_c; eassumption|].
              rewrite forallb_forall in E3. specialize (E3 (f, c) Hin). cbn [fst snd] in E3. apply andb_true_iff in E3 as [E3 _].
              apply N.leb_le. exact E3.
            * intros n Hn Hu. unfold secs_cover in E2. rewrite forallb_forall in E2.
              assert (Hin : In n (range_N 0 (N.to_nat sz))) by (apply range_N_In; rewrite N2Nat.id; lia).
              specialize (E2 n Hin). rewrite Hu in E2. cbn [negb orb] in E2. apply existsb_exists in E2 as [[f c] [K1 K2]].
              cbn [fst snd] in K2. apply andb_true_iff in K2 as [K2 K3]. apply N.leb_le in K2. apply N.ltb_lt in K3. eauto.
          + destruct (runs_of_good (p_here p pos) (N.to_nat sz) 0) as [R1 [R2 R3]]. rewrite N2Nat.id in R2, R3. split; [exact R1|]. split.
            * intros f c Hin. destruct (R2 f c Hin). split; [assumption|lia].
            * intros n Hn Hu. apply R3; [lia|exact Hu].
        - rewrite Hfmt. destruct (use_secs_good (xs_secs x) sz (p_here p pos) Hsz) as [G1 [G2 G3]].
          split; [exact G1|]. split; [exact G3|]. intros n Hn Hu. apply G2; assumption. }
      destruct Main as [M1 [M2 M3]]. split; [|split; [exact M1|split; [exact M2|]]].
      - destruct Hex as [n0 Hn0]. destruct (M3 n0 (proj1 (here_ltS n0 Hn0)) Hn0) as [f [c [Hin _]]]. intro E. rewrite E in Hin. contradiction.
      - intros n Hn. apply M3; [apply (here_ltS n Hn)|exact Hn].
    Qed.

    Definition p_numbS := map (fun k => (k, en k)) (keys_of secs).
    Lemma p_numb_nodupS : NoDup (map fst p_numbS).
    Proof. unfold p_numbS. rewrite map_map. cbn [fst]. rewrite map_id. destruct secs_propsS as [_ [H _]]. apply (keys_increasing secs 0 H). Qed.

    Lemma tail_frontS : exists fr, startxref_text (with_part st p last) xpos = fr ++ startxref_text (with_part st p last) xpos.
    Proof. exists []. reflexivity. Qed.
    Lemma tail_consS : exists b r, startxref_text (with_part st p last) xpos = b :: r.
    Proof. rewrite startxref_text_block. unfold sx_block. eexists. eexists. reflexivity. Qed.

    Lemma xq_h : xq_hyps a x en secs sz (p_prev prev) dec can.
    Proof.
      pose proof Hok as Hok'. unfold part_ok in Hok'. rewrite Hfmt in Hok'. destruct Hok' as [Hf [Hxin [Hw Hn]]].
      destruct secs_propsS as [S1 [S2 [S3 S4]]].
      split; [exact Hf|]. split; [exact S2|]. split; [exact S3|]. split; [exact sz_leS|]. split.
      { intros k _. pose proof (en_shapeS k) as K. destruct (en k) as [n g|off g|c i]; cbn [a_of b_of entry_fields fst snd entry_in_range].
        - destruct K as [-> K]. unfold two32. repeat split; lia.
        - destruct K as [K1 K2]. unfold u16_max in K2. unfold u32_max, two32 in *. repeat split; lia.
        - contradiction. }
      split.
      { destruct Hex as [n0 Hn0]. exists n0. destruct (S4 n0 Hn0) as [f [c [Hin Hr]]]. split; [apply keys_of_In; eauto|].
        rewrite (en_hereS n0 Hn0). destruct (HhereS n0 Hn0) as [off [g E]]. rewrite E. cbn [a_of entry_fields fst snd].
        destruct (ehere_atS _ _ _ E) as [tp0 [pre0 [post0 [_ [_ [_ [_ Hb]]]]]]]. pose proof (i_pos _ _ _ _ _ _ Hinv). lia. }
      split; [split; assumption|]. split; [repeat split; apply Htrail|]. split.
      { destruct prev as [q|]; [right; exists q; reflexivity|left; reflexivity]. }
      destruct (xid_inS (xs_id x)) as [K1 K2]; [rewrite xid_eqS; left; reflexivity|]. split; [exact K2|].
      assert (K3 : xs_id x <= max_num (nums ++ xids)) by (apply max_num_ge; apply in_or_app; right; exact K1). lia.
    Qed.

    Lemma px_entriesS : x_entries (xq_x0 en secs sz) = spec_map p_numbS. Proof. reflexivity. Qed.

    Lemma T_eqS0 : T = body_of (p_otops p) ++ top_text (xq_top a x en secs sz (p_prev prev)) ++ startxref_text (with_part st p last) xpos.
    Proof. unfold p_text. rewrite (section_text_stream a x en secs sz xpos (p_prev prev) _ (eq_trans (s_xref_with_part st p last) Hfmt)). reflexivity. Qed.

    Lemma HparseS ext : xref_and_trailer_x dec can ((P ++ T) ++ ext) xpos = SOk (xq_x0 en secs sz, xq_t a x en secs sz (p_prev prev)).
    Proof.
      destruct (xq_all' a x en secs sz (p_prev prev) dec can xq_h) as [_ [F2 _]]. rewrite T_eqS0.
      replace ((P ++ body_of (p_otops p) ++ top_text (xq_top a x en secs sz (p_prev prev)) ++ startxref_text (with_part st p last) xpos) ++ ext)
        with ((P ++ body_of (p_otops p)) ++ top_text (xq_top a x en secs sz (p_prev prev)) ++ (startxref_text (with_part st p last) xpos ++ ext))
        by (rewrite <- !app_assoc; reflexivity).
      replace xpos with (blen (P ++ body_of (p_otops p))) by (unfold p_xpos, blen; rewrite app_length; lia).
      apply F2.
    Qed.

    Lemma Hpt_prevS : dict_get (xq_t a x en secs sz (p_prev prev)) K_Prev = match prev with Some q => Some (OInt (Z.of_N q)) | None => None end.
    Proof. destruct (xq_all' a x en secs sz (p_prev prev) dec can xq_h) as [_ [_ [F3 _]]]. rewrite F3. destruct prev; reflexivity. Qed.
    Lemma Hpt_stmS : dict_get (xq_t a x en secs sz (p_prev prev)) K_XRefStm = None.
    Proof. destruct (xq_all' a x en secs sz (p_prev prev) dec can xq_h) as [_ [_ [_ [F4 _]]]]. apply F4; try reflexivity. apply Htrail. Qed.
    Lemma pt_encS : dict_get (xq_t a x en secs sz (p_prev prev)) K_Encrypt = None.
    Proof. destruct (xq_all' a x en secs sz (p_prev prev) dec can xq_h) as [_ [_ [_ [F4 _]]]]. apply F4; try reflexivity. apply Htrail. Qed.
    Lemma pt_wfS : dict_wf (xq_t a x en secs sz (p_prev prev)).
    Proof. destruct (xq_all' a x en secs sz (p_prev prev) dec can xq_h) as [_ [_ [_ [_ [F5 _]]]]]. exact F5. Qed.
    Lemma px_typeS : x_type (xq_x0 en secs sz) = XTStream. Proof. reflexivity. Qed.

    Lemma Hxtp_okS tp : In tp xtp -> top_ok tp.
    Proof.
      rewrite xtp_eqS. intros [<-|[]]. destruct (xq_all' a x en secs sz (p_prev prev) dec can xq_h) as [F1 _]. exact F1.
    Qed.

    Lemma pt_sizeS : dict_get (xq_t a x en secs sz (p_prev prev)) Xref.K_Size = Some (OInt (Z.of_N sz)).
    Proof. destruct (xq_all' a x en secs sz (p_prev prev) dec can xq_h) as [_ [_ [_ [_ [_ [_ [_ [_ F9]]]]]]]]. exact F9. Qed.

    Lemma pt_srcS : trailer_src (xq_t a x en secs sz (p_prev prev)).
    Proof.
      split; [exact pt_wfS|]. exists (xq_d a x en secs sz (p_prev prev)), (i_obj (xs_istyle x)).
      pose proof xq_h as Hh. destruct Hh as [_ [_ [_ [_ [_ [_ [[Hw _] _]]]]]]]. split; [exact Hw|].
      destruct (xq_all' a x en secs sz (p_prev prev) dec can xq_h) as [_ [_ [_ [_ [_ [_ [F7 [F8 _]]]]]]]].
      intros k Hk. split.
      - apply F7. unfold xq_tkey.
        rewrite (excl_beq' k Xref.K_Index Hk), (excl_beq' k Xref.K_W Hk), (excl_beq' k Obj.K_Length Hk), (excl_beq' k K_Filter Hk),
          (excl_beq' k K_DecodeParms Hk) by (cbn; tauto). reflexivity.
      - rewrite F8; [|first [apply (excl_beq _ k Hk)|apply (excl_beq' k _ Hk)]; cbn; tauto ..].
        destruct (dict_get (a_trailer a) k); [reflexivity|].
        destruct prev; cbn [p_prev dict_get]; [rewrite (excl_beq K_PrevW k Hk) by (cbn; tauto)|]; reflexivity.
    Qed.

    (* ---------- generic from here: the invariant after this part ---------- *)
    Lemma xget_p_casesS n :
      (In n (keys_of secs) /\ xget (x_entries (xq_x0 en secs sz)) n = entry_meaning (en n)) \/ (~ In n (keys_of secs) /\ xget (x_entries (xq_x0 en secs sz)) n = None).
    Proof.
      rewrite px_entriesS.
      destruct (in_dec N.eq_dec n (keys_of secs)) as [Hin|Hn]; [left|right]; (split; [assumption|]).
      - apply (xget_spec_map p_numbS n (en n) p_numb_nodupS). unfold p_numbS. apply in_map_iff. exists n. split; [reflexivity|exact Hin].
      - unfold spec_map. rewrite xget_spec_map_absent; [reflexivity|].
        unfold p_numbS. rewrite map_map. cbn [fst]. rewrite map_id. exact Hn.
    Qed.

    Lemma px_sortedS : C07Bytes.xincr 0 (x_entries (xq_x0 en secs sz)).
    Proof. rewrite px_entriesS. apply spec_map_sorted. exact I. Qed.

    Lemma xpos_ltS : xpos < blen (P ++ T).
    Proof.
      rewrite T_eqS. destruct tail_consS as [b [r ->]]. unfold p_xpos, blen. rewrite body_of_app, !app_length. cbn [length]. lia.
    Qed.

    Lemma PT_frontS : exists front, P ++ T = front ++ startxref_text (with_part st p last) xpos /\ xpos <= blen front.
    Proof.
      destruct tail_frontS as [fr E]. exists (P ++ body_of (p_otops p ++ xtp) ++ fr). rewrite T_eqS. rewrite E at 1. split; [rewrite <- !app_assoc; reflexivity|].
      unfold p_xpos, blen. rewrite body_of_app, !app_length. lia.
    Qed.

    Notation chain' := ((xpos, ((xq_x0 en secs sz), (xq_t a x en secs sz (p_prev prev)))) :: chain).

    Lemma fe_stepS n : fe chain' n = if p_here p pos n then entry_meaning (p_ehere p pos n) else fe chain n.
    Proof.
      unfold fe. cbn [map first_entry fst snd]. change (first_entry (map (fun s : csec => fst (snd s)) chain) n) with (fe chain n).
      destruct (p_here p pos n) eqn:Eh.
      - destruct secs_propsS as [_ [_ [_ Hc]]]. destruct (Hc n Eh) as [f [c [Hin Hr]]].
        destruct (xget_p_casesS n) as [[_ ->]|[Hn _]]; [|exfalso; apply Hn; apply keys_of_In; eauto].
        rewrite (en_hereS n Eh). destruct (HhereS n Eh) as [off [g ->]]. reflexivity.
      - destruct (xget_p_casesS n) as [[_ ->]|[_ ->]]; [|reflexivity].
        unfold p_entry. rewrite Eh. destruct (mem_N n (mp_relist p)).
        + pose proof (i_known _ _ _ _ _ _ Hinv n) as K. destruct (lookup_entry known n) as [e|]; [|reflexivity].
          rewrite <- K. destruct (entry_meaning e); reflexivity.
        + destruct (n =? 0); reflexivity.
    Qed.

    Lemma known_stepS n :
      lookup_entry (p_known p pos known maxnum) n = if p_here p pos n then Some (p_ehere p pos n) else lookup_entry known n.
    Proof.
      unfold p_known. rewrite (lookup_entry_map en known). destruct (p_here p pos n) eqn:Eh.
      - replace (mem_N n (filter (p_here p pos) (range_N 0 (N.to_nat sz)))) with true; [rewrite (en_hereS n Eh); reflexivity|].
        symmetry. apply mem_N_In. apply filter_In. split; [|exact Eh]. apply range_N_In. rewrite N2Nat.id. destruct (here_ltS n Eh). lia.
      - replace (mem_N n (filter (p_here p pos) (range_N 0 (N.to_nat sz)))) with false; [reflexivity|].
        symmetry. destruct (mem_N n (filter (p_here p pos) (range_N 0 (N.to_nat sz)))) eqn:E; [|reflexivity].
        apply mem_N_In in E. apply filter_In in E as [_ E]. congruence.
    Qed.

    Lemma inv_stepS : Inv rest (P ++ T) chain' (p_known p pos known maxnum) (sz - 1) (xtp ++ xt).
    Proof.
      assert (HPT : blen P <= blen (P ++ T)) by (unfold blen; rewrite app_length; lia).
      assert (Hmine : forall tp, In tp tops -> In (top_num tp) (mp_nums p) -> p_here p pos (top_num tp) = true).
      { intros tp Htp K. apply here_iffS. apply in_map. apply in_or_app. left. unfold p_mine. apply in_or_app. left.
        apply filter_In. split; [exact Htp|]. apply mem_N_In. exact K. }
      constructor.
      - (* i_nums *) intros n e H. rewrite fe_stepS in H. destruct (p_here p pos n) eqn:Eh.
        + destruct (HhereS n Eh) as [off [g Ee]]. rewrite Ee in H. cbn [entry_meaning] in H. inversion H; subst e.
          destruct (here_ltS n Eh) as [H1 H2]. split; [exact H2|]. split; [lia|eauto].
        + destruct (i_nums _ _ _ _ _ _ Hinv n e H) as [H1 [H2 H3]]. split; [exact H1|]. split; [rewrite p_size_eq; lia|exact H3].
      - (* i_cur *) intros n off g H Hnr. rewrite fe_stepS in H. destruct (p_here p pos n) eqn:Eh.
        + destruct (HhereS n Eh) as [off' [g' Ee]]. rewrite Ee in H. cbn [entry_meaning] in H. inversion H; subst off' g'.
          destruct (ehere_atS _ _ _ Ee) as [tp [pre [post [Hin [Ek [EP [Eoff _]]]]]]].
          apply in_app_or in Hin as [Hin|Hin].
          * destruct (mine_cases p tp Hin) as [[Ht _]|[cur [o [Hc [Hce Ho]]]]].
            -- exists tp, pre, post. split; [apply in_or_app; left; exact Ht|auto].
            -- exfalso. unfold top_num in Ho. rewrite Ek in Ho. cbn [fst] in Ho. apply Hnr; [|apply (Hold _ Ho)].
               destruct (tops_id cur Hc) as [_ [_ [K _]]]. unfold top_num in K. rewrite Hce, Ek in K. exact K.
          * exists tp, pre, post. split; [apply in_or_app; right; apply in_or_app; left; exact Hin|auto].
        + assert (Hnp : In n nums -> ~ In n (mp_nums p)).
          { intros Hn K. destruct (top_of_num n Hn) as [tp [Htp En]].
            rewrite <- En in K. pose proof (Hmine tp Htp K) as K2. rewrite En in K2. congruence. }
          destruct (i_cur _ _ _ _ _ _ Hinv n off g H) as [tp [pre [post [H1 [H2 [H3 H4]]]]]].
          { intros Hn. cbn [flat_map]. intro K. apply in_app_or in K as [K|K]; [apply (Hnp Hn); exact K|apply (Hnr Hn); exact K]. }
          exists tp, pre, (post ++ T). split; [apply in_app_or in H1 as [H1|H1]; apply in_or_app; [left; exact H1|right; apply in_or_app; right; exact H1]|].
          split; [exact H2|]. split; [rewrite H3, <- !app_assoc; reflexivity|exact H4].
      - (* i_all *) intros tp Htp Hnr. rewrite fe_stepS. destruct (p_here p pos (top_num tp)) eqn:Eh.
        + destruct (HhereS _ Eh) as [off [g ->]]. discriminate.
        + apply (i_all _ _ _ _ _ _ Hinv tp Htp). cbn [flat_map]. intro K. apply in_app_or in K as [K|K]; [|apply Hnr; exact K].
          pose proof (Hmine tp Htp K). congruence.
      - (* i_allx *) intros n Hn Hnr. rewrite fe_stepS. destruct (p_here p pos n) eqn:Eh.
        + destruct (HhereS _ Eh) as [off [g ->]]. discriminate.
        + apply (i_allx _ _ _ _ _ _ Hinv n Hn). change (part_xids (p :: rest)) with (p_xid p ++ part_xids rest). intro K.
          apply in_app_or in K as [K|K]; [|apply Hnr; exact K].
          assert (In n (map top_num (p_mine p ++ xtp))) by (rewrite map_app, xtp_numsS; apply in_or_app; right; exact K).
          apply here_iffS in H. congruence.
      - (* i_known *) intro n. rewrite known_stepS, fe_stepS. destruct (p_here p pos n) eqn:Eh; [|apply (i_known _ _ _ _ _ _ Hinv)].
        reflexivity.
      - (* i_kn *) intros n e H. rewrite known_stepS in H. destruct (p_here p pos n) eqn:Eh.
        + inversion H; subst e. destruct (HhereS n Eh) as [off [g Ee]]. exists off, g. split; [exact Ee|].
          destruct (ehere_atS _ _ _ Ee) as [tp [pre [post [Hin [Ek [EP [Eoff _]]]]]]]. split.
          * rewrite Eoff, EP. unfold blen. rewrite !app_length. lia.
          * pose proof (mine_x_boundsS tp Hin) as Hg. rewrite Ek in Hg. exact Hg.
        + destruct (HknS n e H) as [off [g [E1 [E2 E3]]]]. exists off, g. split; [exact E1|]. split; [lia|exact E3].
      - (* i_chain *) intro ext. cbn [chain_ok]. split; [exact xpos_ltS|]. split; [apply HparseS|]. split; [exact Hpt_stmS|].
        split.
        + rewrite Hpt_prevS.
          assert (G : forall c, match prev_N c with Some q => Some (OInt (Z.of_N q)) | None => None end = prev_of c)
            by (intros [|[off [x0 t0]] r]; reflexivity).
          apply G.
        + rewrite <- app_assoc. apply (chain_ok_weaken dec can _ chain (blen P)); [unfold p_xpos; lia|apply (i_chain _ _ _ _ _ _ Hinv)].
      - (* i_max *) rewrite p_size_eq. pose proof sz_leS as K. rewrite p_size_eq in K. pose proof HmaxnS.
        assert (max_num (p_hnums p ++ p_xid p) <= max_num (nums ++ xids)); [|lia].
        unfold max_num at 1. apply max_num_le; [lia|]. intros y Hy. apply max_num_ge. apply in_app_or in Hy as [Hy|Hy]; apply in_or_app.
        + left. unfold p_hnums in Hy. apply in_map_iff in Hy as [tp [<- Hin]]. apply (mine_bounds p tp Hin).
        + right. apply (xid_inS _ Hy).
      - (* i_xt *) intros tp Htp. apply in_app_or in Htp as [Htp|Htp]; [|apply (i_xt _ _ _ _ _ _ Hinv tp Htp)].
        split; [apply Hxtp_okS; exact Htp|]. apply (xid_inS (top_num tp)). rewrite <- xtp_numsS. apply in_map. exact Htp.
      - (* i_pos *) pose proof (i_pos _ _ _ _ _ _ Hinv). lia.
    Qed.
    Lemma part_resultS :
      Inv rest (P ++ T) chain' (p_known p pos known maxnum) (sz - 1) (xtp ++ xt) /\ C07Bytes.xincr 0 (x_entries (xq_x0 en secs sz)) /\
      (exists front, P ++ T = front ++ startxref_text (with_part st p last) xpos /\ xpos <= blen front) /\
      dict_get (dict_swap_remove (xq_t a x en secs sz (p_prev prev)) K_Prev) K_XRefStm = None /\ dict_has (dict_swap_remove (xq_t a x en secs sz (p_prev prev)) K_Prev) K_Encrypt = false /\
      trailer_src (xq_t a x en secs sz (p_prev prev)) /\ dict_get (xq_t a x en secs sz (p_prev prev)) Xref.K_Size = Some (OInt (Z.of_N sz)).
    Proof.
      split; [exact inv_stepS|]. split; [exact px_sortedS|]. split; [exact PT_frontS|]. split; [|split; [|split; [exact pt_srcS|exact pt_sizeS]]].
      - rewrite dict_get_swap_remove_other; [exact Hpt_stmS|exact pt_wfS|intro E; discriminate E].
      - unfold dict_has. rewrite dict_get_swap_remove_other; [rewrite pt_encS; reflexivity|exact pt_wfS|intro E; discriminate E].
    Qed.
  End PartS.
  (* END-PARTS *)

  (* ====================================================================================================
     Part 3: all parts
     ==================================================================================================== *)
  Lemma part_defines_eq p : part_defines st p = mp_nums p.
  Proof. unfold part_defines, part_containers. rewrite Hos. cbn [filter flat_map]. apply app_nil_r. Qed.

  Lemma defines_eq : forall l, flat_map (part_defines st) l = flat_map mp_nums l.
  Proof. induction l as [|p l IH]; [reflexivity|]. cbn [flat_map]. rewrite IH, part_defines_eq. reflexivity. Qed.

  Lemma parts_inv : forall parts P chain known maxnum xt r,
    parts_ok parts (blen P) (prev_N chain) known maxnum -> Inv parts P chain known maxnum xt ->
    write_parts st a tops parts (blen P) (prev_N chain) known maxnum = Some r ->
    blen (P ++ r) <= u32_max ->
    exists chainF knownF maxF xtF, Inv [] (P ++ r) chainF knownF maxF xtF /\
      (parts <> [] -> exists xs x0 t0 cr lastp front,
         chainF = (xs, (x0, t0)) :: cr /\ C07Bytes.xincr 0 (x_entries x0) /\ last_part parts = Some lastp /\
         P ++ r = front ++ startxref_text (with_part st lastp true) xs /\ xs <= blen front /\
         match parts with p :: _ => p_xpos p (blen P) <= xs | [] => True end /\
         dict_get (dict_swap_remove t0 K_Prev) K_XRefStm = None /\ dict_has (dict_swap_remove t0 K_Prev) K_Encrypt = false /\
         trailer_src t0 /\ dict_get t0 Xref.K_Size = Some (OInt (Z.of_N (maxF + 1))) /\ sx_win (with_part st lastp true) xs).
  Proof.
    induction parts as [|p rest IH]; intros P chain known maxnum xt r Hdom Hinv Hw HU.
    - cbn [write_parts] in Hw. inversion Hw; subst r. rewrite app_nil_r. exists chain, known, maxnum, xt. split; [exact Hinv|]. intro K. contradiction.
    - cbn [parts_ok] in Hdom. destruct Hdom as [Hok [Hwin Hdom']].
      rewrite (write_parts_step p rest) in Hw.
      destruct (negb (nodup_N (p_hnums p) && forallb (fun no => mem_N (fst no) (flat_map (part_defines st) rest)) (mp_old p) &&
                      Nat.eqb (length (p_olds p)) (length (mp_old p)))) eqn:C1; [discriminate Hw|].
      apply negb_false_iff in C1. apply andb_true_iff in C1 as [C1 _]. apply andb_true_iff in C1 as [C1a C1b].
      destruct (negb (existsb (p_here p (blen P)) (range_N 0 (N.to_nat (p_size p maxnum))))) eqn:C2; [discriminate Hw|].
      apply negb_false_iff in C2. apply existsb_exists in C2 as [n0 [_ Hn0]].
      set (T := p_text p (p_last rest) (blen P) (prev_N chain) known maxnum) in *.
      destruct (write_parts st a tops rest (blen P + N.of_nat (length T)) (Some (p_xpos p (blen P))) (p_known p (blen P) known maxnum)
                            (p_size p maxnum - 1)) as [r'|] eqn:Hr; [|discriminate Hw].
      inversion Hw; subst r. clear Hw.
      assert (Hhn : NoDup (p_hnums p)) by (apply nodup_N_spec; exact C1a).
      assert (Hold : forall no, In no (mp_old p) -> In (fst no) (flat_map mp_nums rest)).
      { intros no Hno. rewrite forallb_forall in C1b. specialize (C1b no Hno). apply mem_N_In in C1b. rewrite defines_eq in C1b. exact C1b. }
      assert (Hex : exists n, p_here p (blen P) n = true) by (exists n0; exact Hn0).
      assert (HU1 : blen (P ++ T) <= u32_max).
      { unfold blen in *. rewrite !app_length in *. lia. }
      assert (HTb : p_xpos p (blen P) <= blen (P ++ T)).
      { unfold T, p_text, p_xpos, blen. rewrite !app_length. lia. }
      assert (Hres : exists px pt xtp,
                 Inv rest (P ++ T) ((p_xpos p (blen P), (px, pt)) :: chain) (p_known p (blen P) known maxnum) (p_size p maxnum - 1) (xtp ++ xt) /\
                 C07Bytes.xincr 0 (x_entries px) /\
                 (exists front, P ++ T = front ++ startxref_text (with_part st p (p_last rest)) (p_xpos p (blen P)) /\
                                p_xpos p (blen P) <= blen front) /\
                 dict_get (dict_swap_remove pt K_Prev) K_XRefStm = None /\ dict_has (dict_swap_remove pt K_Prev) K_Encrypt = false /\
                 trailer_src pt /\ dict_get pt Xref.K_Size = Some (OInt (Z.of_N (p_size p maxnum)))).
      { destruct (mp_xref p) as [t|x] eqn:Hfmt.
        - eexists _, _, _. exact (part_resultT p t P chain known maxnum rest xt Hfmt Hhn Hinv Hex Hold Hok HU1).
        - eexists _, _, _. exact (part_resultS p x P chain known maxnum rest xt Hfmt Hhn Hinv Hex Hold Hok HU1). }
      destruct Hres as [px [pt [xtp [Hinv' [Hsort [[front [F1 F2]] [Hstm [Henc [Hsrc Hsize]]]]]]]]].
      destruct rest as [|p2 rest2].
      + cbn [write_parts] in Hr. inversion Hr; subst r'. rewrite app_nil_r.
        eexists _, _, _, _. split; [exact Hinv'|]. intros _.
        exists (p_xpos p (blen P)), px, pt, chain, p, front. split; [reflexivity|]. split; [exact Hsort|]. split; [reflexivity|].
        split; [exact F1|]. split; [exact F2|]. split; [lia|]. split; [exact Hstm|split; [exact Henc|split; [exact Hsrc|]]].
        split; [|exact (Hwin eq_refl)]. rewrite Hsize. rewrite p_size_eq. f_equal. f_equal. f_equal. lia.
      + assert (Epos : blen P + N.of_nat (length T) = blen (P ++ T)) by (unfold blen; rewrite app_length; lia).
        rewrite Epos in Hr, Hdom'.
        destruct (IH (P ++ T) ((p_xpos p (blen P), (px, pt)) :: chain) (p_known p (blen P) known maxnum) (p_size p maxnum - 1) (xtp ++ xt) r' Hdom' Hinv' Hr) as [cF [kF [mF [xF [I1 I2]]]]].
        { rewrite <- app_assoc. exact HU. }
        exists cF, kF, mF, xF. split; [rewrite app_assoc; exact I1|]. intros _.
        destruct I2 as [xs [x0 [t0 [cr [lastp [front' [E1 [E2 [E3 [E4 [E5 [E6 E7]]]]]]]]]]]]; [discriminate|].
        exists xs, x0, t0, cr, lastp, front'. split; [exact E1|]. split; [exact E2|]. split; [exact E3|].
        split; [rewrite app_assoc; exact E4|]. split; [exact E5|]. split; [|exact E7].
        unfold p_xpos in E6 at 1. lia.
  Qed.

  (* ---------- the writer's top level ---------- *)
  Lemma ref_write_multi_shape parts file : ref_write_multi st parts a = Some file ->
    exists r, file = s_junk st ++ RefWriter.header st (a_version a) ++ r /\
      write_parts st a tops parts (blen (RefWriter.header st (a_version a))) None [] 0 = Some r /\ parts <> [] /\
      contains (bs "%PDF-") (s_junk st) = false /\ no_eolb (a_version a) = true /\
      (forall tp, In tp tops -> In (top_num tp) (flat_map mp_nums parts)).
  Proof.
    intros H. unfold ref_write_multi in H. unfold compressed_nums in H. rewrite Hos in H.
    cbn [flat_map map containers app] in H. rewrite ?app_nil_r in H.
    destruct (contains (bs "%PDF-") (s_junk st) || contains [x0d] (a_version a) || contains [x0a] (a_version a)) eqn:C1; [discriminate H|].
    apply orb_false_iff in C1 as [C1 C1c]. apply orb_false_iff in C1 as [C1a C1b].
    match type of H with (if ?c then _ else _) = _ => destruct c eqn:C2; [discriminate H|] end.
    rewrite filter_all_true in H by (intro; reflexivity).
    match type of H with (if ?c then _ else _) = _ => destruct c eqn:C3; [discriminate H|] end.
    apply negb_false_iff in C3. apply andb_true_iff in C3 as [_ C3].
    match type of H with match ?w with Some _ => _ | None => _ end = _ => destruct w as [r|] eqn:Hr; [|discriminate H] end.
    destruct parts as [|p0 parts0]; [discriminate H|]. inversion H; subst file. exists r.
    split; [reflexivity|]. split; [exact Hr|]. split; [discriminate|]. split; [exact C1a|]. split; [apply version_no_eol; assumption|].
    intros tp Htp. rewrite forallb_forall in C3. apply mem_N_In. apply (C3 tp Htp).
  Qed.

  Lemma ostm_none (x : xmap) : flat_map (ostm_of (fun _ => None)) x = [].
  Proof. induction x as [|[k e] x IH]; [reflexivity|]. cbn [flat_map]. rewrite IH. unfold ostm_of. cbn [fst snd]. destruct e; reflexivity. Qed.

  Definition window_ok (parts : list mpart) (file : bytes) : Prop :=
    forall lastp xs, last_part parts = Some lastp -> xs <= blen file ->
      (9 + length (sx_mid (s_sx_eol1 (with_part st lastp true)) (s_sx_sp1 (with_part st lastp true)) xs
                          (s_sx_sp2 (with_part st lastp true)) (s_sx_eol2 (with_part st lastp true))) <= 25)%nat.

  Theorem loads_multi_mixed parts file :
    utf8_decode (a_version a) <> None ->
    ref_write_multi st parts a = Some file -> blen file <= u32_max ->
    parts_ok parts (blen (RefWriter.header st (a_version a))) None [] 0 ->
    match parts with p :: _ => 25 < p_xpos p (blen (RefWriter.header st (a_version a))) | [] => True end ->
    (forall n, In n xids -> In n (part_xids parts)) ->
    exists d t, load_ext dec can file = LOk d t /\ d_version d = a_version a /\
      (forall tp, In tp tops -> lookup (d_objects d) (fst (fst tp)) = Some (loaded_top tp)) /\
      (forall id o, lookup (d_objects d) id = Some o -> (exists tp, In tp tops /\ fst (fst tp) = id) \/ In (fst id) xids) /\
      exists t0, d_trailer d = dict_swap_remove t0 K_Prev /\ trailer_src t0 /\
                 dict_get t0 Xref.K_Size = Some (OInt (Z.of_N (1 + max_num (nums ++ xids)))).
  Proof.
    intros Hu Hw Hlen Hdom H25 Hxsub.
    destruct (ref_write_multi_shape parts file Hw) as [r [-> [Hr [Hne [Hj [Hv Hplaced]]]]]].
    set (hdr := RefWriter.header st (a_version a)) in *.
    assert (Hhdr : exists b r0, hdr = b :: r0) by (unfold hdr, RefWriter.header; eexists; eexists; reflexivity).
    assert (Hinv0 : Inv parts hdr [] [] 0 []).
    { constructor.
      - intros n e H. discriminate H.
      - intros n off g H. discriminate H.
      - intros tp Htp Hn. exfalso. apply Hn. apply Hplaced. exact Htp.
      - intros n Hn Hnr. exfalso. apply Hnr. apply Hxsub. exact Hn.
      - intro n. reflexivity.
      - intros n e H. discriminate H.
      - intro ext. exact I.
      - lia.
      - intros tp [].
      - destruct Hhdr as [b [r0 ->]]. unfold blen. cbn [length]. lia. }
    assert (HU : blen (hdr ++ r) <= u32_max) by (unfold blen in *; rewrite !app_length in *; lia).
    destruct (parts_inv parts hdr [] [] 0 [] r Hdom Hinv0 Hr HU) as [cF [kF [mF [xtF [IF HF]]]]].
    destruct (HF Hne) as [xs [x0 [t0 [cr [lastp [front [E1 [E2 [E3 [E4 [E5 [E6 [E7 [E8 [E9 [E10 E11]]]]]]]]]]]]]]]]. subst cF. clear HF.
    pose proof (i_chain _ _ _ _ _ _ IF []) as Hc. rewrite app_nil_r in Hc. cbn [chain_ok] in Hc.
    destruct Hc as [Hc1 [Hc2 [Hc3 [Hc4 Hc5]]]].
    set (buf := hdr ++ r) in *.
    set (xm := fold_left xref_merge (map (fun s : csec => fst (snd s)) cr) x0).
    assert (Hsorted : C07Bytes.xincr 0 (x_entries xm)) by (apply C07Bytes.fold_merge_sorted; exact E2).
    assert (Hxg : forall n e, In (n, e) (x_entries xm) -> xget (x_entries xm) n = Some e)
      by (intros n e Hin; apply (C07Bytes.xget_in_sorted _ 0); assumption).
    assert (Hfe : forall n e, In (n, e) (x_entries xm) -> fe ((xs, (x0, t0)) :: cr) n = Some e).
    { intros n e Hin. unfold fe. cbn [map fst snd]. rewrite <- xget_merge_chain. apply Hxg. exact Hin. }
    assert (Hmax : xref_max_id xm < u32_max).
    { unfold xref_max_id. apply N.le_lt_trans with (m := max_num (nums ++ xids)); [|lia].
      apply max_id_le; [lia|]. intros k v Hin. destruct (i_nums _ _ _ _ _ _ IF k v (Hfe k v Hin)) as [Hk _]. apply max_num_ge. exact Hk. }
    assert (Hloc : forall tp, In tp tops -> exists off pre post,
               xget (x_entries xm) (top_num tp) = Some (XNormal off (snd (fst (fst tp)))) /\ buf = pre ++ top_text tp ++ post /\ off = blen pre).
    { intros tp Htp.
      assert (Hne' : fe ((xs, (x0, t0)) :: cr) (top_num tp) <> None) by (apply (i_all _ _ _ _ _ _ IF tp Htp); intros []).
      destruct (fe ((xs, (x0, t0)) :: cr) (top_num tp)) as [e|] eqn:Ee; [|contradiction].
      destruct (i_nums _ _ _ _ _ _ IF _ _ Ee) as [_ [_ [off [g ->]]]].
      assert (Hx : xget (x_entries xm) (top_num tp) = Some (XNormal off g)) by (unfold xm; rewrite xget_merge_chain; exact Ee).
      destruct (i_cur _ _ _ _ _ _ IF _ _ _ Ee) as [tp' [pre [post [H1 [H2 [H3 H4]]]]]]; [intros _ []|].
      assert (tp' = tp).
      { apply in_app_or in H1 as [H1|H1].
        - apply tops_unique; [exact H1|exact Htp|unfold top_num; rewrite H2; reflexivity].
        - exfalso. apply (nums_not_xid (top_num tp)); [apply (tops_id tp Htp)|].
          destruct (i_xt _ _ _ _ _ _ IF tp' H1) as [_ K]. unfold top_num in K. rewrite H2 in K. exact K. }
      subst tp'. exists off, pre, post. rewrite H2 in *. cbn [snd]. auto. }
    assert (Hlenf : forall li lg len, In ((li, lg), OInt len) (a_objs a) ->
               exists offl rest, xget (x_entries xm) li = Some (XNormal offl lg) /\ offl <= blen buf /\
                 from offl buf = w_indirect li lg (OInt len) (find_istyle (s_objs st) li) ++ rest /\ li <= u32_max /\ lg <= u16_max /\
                 in_i64 len = true).
    { intros li lg len Hin. set (tl := ((li, lg), OInt len, find_istyle (s_objs st) li)).
      assert (Htl : In tl tops) by (unfold LoadsTableProofs.tops; apply in_map_iff; exists ((li, lg), OInt len); split; [reflexivity|exact Hin]).
      destruct (Hloc tl Htl) as [off [pre [post [Hx [Hb He]]]]]. destruct (tops_id tl Htl) as [K1 [K2 [K3 K4]]].
      exists off, (gap_bytes (i_gap (find_istyle (s_objs st) li)) ++ post). split; [exact Hx|]. split; [rewrite He, Hb; unfold blen; rewrite !app_length; lia|].
      split; [rewrite He, Hb, from_app; unfold top_text, tl; cbn [fst snd]; rewrite <- app_assoc; reflexivity|].
      split; [change li with (top_num tl); pose proof (max_num_ge (nums ++ xids) (top_num tl) (in_or_app _ _ _ (or_introl K3))); lia|].
      split; [exact K2|]. unfold tl, LoadsRefLenProofs.top_ok2 in K4. cbn [fst snd] in K4. destruct K4 as [_ [_ [Hlw _]]]. exact Hlw. }
    assert (Hread : forall n off g, In (n, XNormal off g) (x_entries xm) ->
              exists tp, In tp (tops ++ xtF) /\ fst (fst tp) = (n, g) /\ off <= blen buf /\
                         indirect_x buf (x_entries xm) (from off buf) None = IxOk (n, g) (loaded_top tp) None /\ no_objstm (loaded_top tp)).
    { intros n off g Hin. destruct (i_cur _ _ _ _ _ _ IF n off g (Hfe _ _ Hin)) as [tp [pre [post [H1 [H2 [H3 H4]]]]]]; [intros _ []|].
      exists tp. split; [exact H1|]. split; [exact H2|].
      assert (Hn : fst (fst (fst tp)) <= u32_max).
      { destruct (i_nums _ _ _ _ _ _ IF n _ (Hfe _ _ Hin)) as [Hk _]. rewrite H2. cbn [fst]. pose proof (max_num_ge _ _ Hk). lia. }
      rewrite H4. split; [rewrite H3; unfold blen; rewrite !app_length; lia|].
      assert (Hfrom : from (blen pre) buf = top_text tp ++ post) by (rewrite H3; apply from_app). rewrite Hfrom.
      apply in_app_or in H1 as [H1|H1].
      - destruct (indirect_x_top2 buf (x_entries xm) a tp post (fun li => find_istyle (s_objs st) li) (proj2 (proj2 (proj2 (tops_id tp H1)))) Hn Hlenf)
          as [P1 P2]. rewrite P1, H2. split; [reflexivity|exact P2].
      - destruct (indirect_x_top buf (x_entries xm) tp post (proj1 (i_xt _ _ _ _ _ _ IF tp H1)) Hn) as [P1 P2].
        rewrite P1, H2. split; [reflexivity|exact P2]. }
    set (objfM := fun n g : N => match xget (x_entries xm) n with
                                 | Some (XNormal off _) => match indirect_x buf (x_entries xm) (from off buf) None with
                                                           | IxOk _ o _ => o
                                                           | _ => ONull
                                                           end
                                 | _ => ONull
                                 end).
    assert (Hobj : forall n off g tp, In (n, XNormal off g) (x_entries xm) ->
              indirect_x buf (x_entries xm) (from off buf) None = IxOk (n, g) (loaded_top tp) None -> objfM n g = loaded_top tp).
    { intros n off g tp Hin Hi. unfold objfM. rewrite (Hxg _ _ Hin), Hi. reflexivity. }
    assert (Hspec : forall n off g, In (n, XNormal off g) (x_entries xm) ->
                      entry_spec dec can buf (x_entries xm) objfM (fun _ _ => None) (fun _ => None) n off g).
    { intros n off g Hin. destruct (Hread n off g Hin) as [tp [_ [_ [H3 [H4 H5]]]]]. unfold entry_spec. split; [exact H3|].
      rewrite (Hobj n off g tp Hin H4). split; [exact H4|]. split; [exact H5|]. destruct (loaded_top tp); try reflexivity; exact I. }
    eexists. eexists. split.
    - apply (load_ext_frame_chain dec can buf (x_entries xm) objfM (fun _ _ => None) (fun _ => None) (s_junk st) buf (a_version a) xs x0 t0 cr).
      + unfold buf, hdr, RefWriter.header. rewrite <- !app_assoc. apply pdf_offset_junk. exact Hj.
      + reflexivity.
      + unfold buf, hdr, RefWriter.header. rewrite <- !app_assoc. apply header_any_eol; assumption.
      + rewrite E4, startxref_text_block.
        assert (Hfb : blen front <= blen buf) by (rewrite E4; unfold blen; rewrite app_length; lia).
        apply get_xref_start_styled.
        * exact E5.
        * destruct parts as [|p0 parts0]; [contradiction|]. lia.
        * unfold u32_max in HU. lia.
        * exact E11.
      + lia.
      + exact Hc2.
      + exact E7.
      + exact Hc4.
      + exact Hc5.
      + reflexivity.
      + exact E8.
      + exact Hmax.
      + exact Hspec.
    - cbn [d_version d_objects d_trailer]. split; [reflexivity|].
      rewrite ostm_none. unfold merge_object_streams. cbn [fold_left]. rewrite zero_pass_id.
      2:{ intros id' q Hq. rewrite pos_none_fold in Hq by reflexivity. discriminate Hq. }
      set (M := fold_left (ins objfM) (x_entries xm) []).
      assert (Hlk : forall id, lookup M id = if hit (xget (x_entries xm)) (x_entries xm) id then Some (objfM (fst id) (snd id)) else None).
      { intro id. unfold M. rewrite (lookup_fold_ins objfM (xget (x_entries xm)) _ [] id); [reflexivity|exact Hxg]. }
      split; [|split; [|exists t0; split; [reflexivity|split; [exact E9|]]]].
      3:{ rewrite E10. f_equal. f_equal. f_equal.
          assert (Hle : max_num (nums ++ xids) <= mF).
          { unfold max_num. apply max_num_le; [lia|]. intros n Hn.
            assert (Hne' : fe ((xs, (x0, t0)) :: cr) n <> None).
            { apply in_app_or in Hn as [Hn|Hn].
              - destruct (top_of_num n Hn) as [tp [Htp <-]]. apply (i_all _ _ _ _ _ _ IF tp Htp). intros [].
              - apply (i_allx _ _ _ _ _ _ IF n Hn). intros []. }
            destruct (fe ((xs, (x0, t0)) :: cr) n) as [e|] eqn:Ee; [|contradiction]. apply (i_nums _ _ _ _ _ _ IF n e Ee). }
          pose proof (i_max _ _ _ _ _ _ IF). lia. }
      + intros tp Htp. rewrite Hlk.
        assert (Hne' : fe ((xs, (x0, t0)) :: cr) (top_num tp) <> None) by (apply (i_all _ _ _ _ _ _ IF tp Htp); intros []).
        destruct (fe ((xs, (x0, t0)) :: cr) (top_num tp)) as [e|] eqn:Ee; [|contradiction].
        destruct (i_nums _ _ _ _ _ _ IF _ _ Ee) as [_ [_ [off [g ->]]]].
        assert (Hx : xget (x_entries xm) (top_num tp) = Some (XNormal off g)) by (unfold xm; rewrite xget_merge_chain; exact Ee).
        pose proof (xget_In _ _ _ Hx) as Hin.
        destruct (Hread _ _ _ Hin) as [tp' [H1 [H2 [_ [H4 _]]]]].
        assert (tp' = tp).
        { apply in_app_or in H1 as [H1|H1].
          - apply tops_unique; [exact H1|exact Htp|unfold top_num; rewrite H2; reflexivity].
          - exfalso. apply (nums_not_xid (top_num tp)); [apply (tops_id tp Htp)|].
            destruct (i_xt _ _ _ _ _ _ IF tp' H1) as [_ K]. unfold top_num in K. rewrite H2 in K. exact K. }
        subst tp'.
        unfold hit. change (fst (fst (fst tp))) with (top_num tp). rewrite (xget_some_key _ _ _ Hin), Hx. cbn [andb].
        assert (g = snd (fst (fst tp))) by (rewrite H2; reflexivity). subst g. rewrite N.eqb_refl.
        change (fst (fst (fst tp))) with (top_num tp). rewrite (Hobj (top_num tp) off (snd (fst (fst tp))) tp Hin H4). reflexivity.
      + intros id o Hl. rewrite Hlk in Hl. destruct (hit (xget (x_entries xm)) (x_entries xm) id) eqn:Eh; [|discriminate Hl].
        unfold hit in Eh. apply andb_true_iff in Eh as [_ Eh].
        destruct (xget (x_entries xm) (fst id)) as [[| |off g|c i]|] eqn:Ex; try discriminate Eh. apply N.eqb_eq in Eh.
        destruct (Hread _ _ _ (xget_In _ _ _ Ex)) as [tp [H1 [H2 _]]].
        apply in_app_or in H1 as [H1|H1].
        * left. exists tp. split; [exact H1|]. rewrite H2. destruct id; cbn [fst snd] in *. subst. reflexivity.
        * right. destruct (i_xt _ _ _ _ _ _ IF tp H1) as [_ K]. unfold top_num in K. rewrite H2 in K. exact K.
  Qed.
End Multi.
