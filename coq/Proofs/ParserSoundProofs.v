(* ParserSoundProofs.v -- C14, second sentence: SOUNDNESS of the parser model for values.
   Everything the ordered choice [object_alts_c] (hence _direct_objects_at and the content
   [operand]) returns is a parsed value [pv]: integers within i64, reals in the source syntax of
   the [real] parser, unique dictionary keys, references within u32 / u16, no stream, and it nests
   containers at most as deep as the depth argument allows.  Everything [decode_content] returns
   is a list of operations whose operators are over the parser's alphabet and whose operands are
   parsed values (plain operation) or one inline image whose dictionary implies the data length
   ([decoded_ops_sound]).  No hypothesis on the input bytes. *)
From LV Require Import Base.Bytes Base.Sx Model.Obj Model.Writer Model.Parser Gen.Lex
  Proofs.LexProofs Proofs.LitStringProofs Proofs.RealProofs Proofs.ObjectRtProofs Proofs.ContentProofs.
From Coq Require Import ZifyBool ZifyN ZifyNat.
Local Open Scope N_scope.

(* ---------- the source syntax of a real: sign? (digits "." digits* | "." digits+) ---------- *)

Definition sign_text (sg : option bool) : bytes :=
  match sg with Some true => [x2d] | Some false => [x2b] | None => [] end.

Definition real_src (t : bytes) : Prop :=
  exists sg ds fs, t = sign_text sg ++ ds ++ x2e :: fs /\
                   forallb is_dec_digit ds = true /\ forallb is_dec_digit fs = true /\
                   (ds <> [] \/ fs <> []).

Lemma real_sound s t r : real s = POk t r -> real_src t.
Proof.
  unfold real. destruct (opt_sign s) as [sg s1] eqn:Es.
  destruct (take_while is_dec_digit s1) as [ds r1] eqn:Ed.
  destruct (take_while_split _ _ _ _ Ed) as [_ Hd].
  destruct ds as [|d0 ds'].
  - destruct r1 as [|c r']; [discriminate|]. destruct (byte_eqb c x2e); [|discriminate].
    destruct (take_while is_dec_digit r') as [fs r''] eqn:Ef.
    destruct (take_while_split _ _ _ _ Ef) as [_ Hf].
    destruct fs as [|f0 fs']; [discriminate|]. intro H. inversion H; subst.
    exists sg, [], (f0 :: fs'). repeat split; auto. right. discriminate.
  - destruct r1 as [|c r']; [discriminate|]. destruct (byte_eqb c x2e); [|discriminate].
    destruct (take_while is_dec_digit r') as [fs r''] eqn:Ef.
    destruct (take_while_split _ _ _ _ Ef) as [_ Hf].
    intro H. inversion H; subst.
    exists sg, (d0 :: ds'), fs. repeat split; auto. left. discriminate.
Qed.

Lemma integer_sound s z r : integer s = POk z r -> in_i64 z = true.
Proof.
  unfold integer, in_i64. destruct (opt_sign s) as [sg s1]. destruct (take_while is_dec_digit s1) as [ds r1].
  destruct ds; [discriminate|].
  match goal with |- context [if ?b then _ else _] => destruct b eqn:E end; [|discriminate].
  intro H. inversion H; subst. exact E.
Qed.

Lemma unsigned_int_sound m s v r : unsigned_int m s = POk v r -> v <= m.
Proof.
  unfold unsigned_int. destruct (take_while is_dec_digit s) as [ds r1]. destruct ds; [discriminate|].
  destruct (_ <=? m) eqn:E; [|discriminate]. intro H. inversion H; subst. lia.
Qed.

Lemma reference_sound s o r : reference s = POk o r -> exists i g, o = ORef i g /\ i <= u32_max /\ g <= u16_max.
Proof.
  unfold reference, object_id.
  destruct (unsigned_int u32_max s) as [i r1| | | |] eqn:E1; try discriminate. cbn [pbind].
  destruct (unsigned_int u16_max (space r1)) as [g r2| | | |] eqn:E2; try discriminate. cbn [pbind].
  destruct (ptag [x52] (space r2)) as [u r3| | | |]; try discriminate. cbn [pbind fst snd].
  intro H. inversion H; subst. exists i, g. split; [reflexivity|].
  split; [apply (unsigned_int_sound _ _ _ _ E1)|apply (unsigned_int_sound _ _ _ _ E2)].
Qed.

(* ---------- parsed values ---------- *)

Inductive pv : obj -> Prop :=
| pv_null : pv ONull
| pv_bool b : pv (OBool b)
| pv_int z : in_i64 z = true -> pv (OInt z)
| pv_real t : real_src t -> pv (OReal t)
| pv_name n : pv (OName n)
| pv_str s h : pv (OStr s h)
| pv_arr l : Forall pv l -> pv (OArr l)
| pv_dict d : NoDup (map fst d) -> Forall (fun kv => pv (snd kv)) d -> pv (ODict d)
| pv_ref i g : i <= u32_max -> g <= u16_max -> pv (ORef i g).

(* a parsed value within [dp] container levels *)
Definition pvd (dp : nat) (o : obj) : Prop := pv o /\ (nest o <= dp)%nat.

Lemma palt_ok {A} (p : pres A) q a r :
  palt p q = POk a r -> p = POk a r \/ (p = PErr /\ q tt = POk a r).
Proof. unfold palt. destruct p; intro H; try discriminate; auto. Qed.

Lemma pmap_ok {A B} (f : A -> B) p b r : pmap f p = POk b r -> exists a, p = POk a r /\ b = f a.
Proof. unfold pmap. destruct p; intro H; try discriminate. inversion H; subst. eauto. Qed.

Lemma pbind_ok {A B} (p : pres A) (f : A -> bytes -> pres B) b r :
  pbind p f = POk b r -> exists a r1, p = POk a r1 /\ f a r1 = POk b r.
Proof. unfold pbind. destruct p; intro H; try discriminate. eauto. Qed.

Lemma dict_set_forall (P : obj -> Prop) d k v :
  Forall (fun kv => P (snd kv)) d -> P v -> Forall (fun kv => P (snd kv)) (dict_set d k v).
Proof.
  intros Hd Hv. induction Hd as [|[k' v'] d Hx Hd IH]; cbn [dict_set].
  - constructor; [exact Hv|constructor].
  - destruct (bytes_eqb k' k); constructor; auto.
Qed.

Lemma nest_list_bound l dp : Forall (fun x => (nest x <= dp)%nat) l -> (nest_list l <= dp)%nat.
Proof. induction 1 as [|x l Hx Hl IH]; cbn [nest_list fold_right]; [lia|]. unfold nest_list in IH. lia. Qed.
Lemma nest_dict_bound d dp : Forall (fun kv => (nest (snd kv) <= dp)%nat) d -> (nest_dict d <= dp)%nat.
Proof. induction 1 as [|x l Hx Hl IH]; cbn [nest_dict fold_right]; [lia|]. unfold nest_dict in IH. lia. Qed.

Section ElemSound.
  Variable elem : bytes -> pres obj.
  Variable dp : nat.
  Hypothesis elem_sound : forall s o r, elem s = POk o r -> pvd dp o.

  Lemma many0_direct_sound : forall n s l r, many0_direct elem n s = POk l r -> Forall (pvd dp) l.
  Proof.
    induction n as [|n IH]; intros s l r H; [discriminate|]. cbn [many0_direct] in H.
    destruct (elem s) as [o r1| | | |] eqn:E; try discriminate.
    - apply pmap_ok in H as [l' [H ->]]. constructor; [apply (elem_sound _ _ _ E)|apply (IH _ _ _ H)].
    - inversion H; subst. constructor.
  Qed.

  Lemma inner_dictionary_sound : forall n s acc d r,
    inner_dictionary elem n s acc = POk d r ->
    Forall (fun kv => pvd dp (snd kv)) acc -> Forall (fun kv => pvd dp (snd kv)) d.
  Proof.
    induction n as [|n IH]; intros s acc d r H Ha; [discriminate|]. cbn [inner_dictionary] in H.
    destruct (name s) as [k r1| | | |]; try (inversion H; subst; exact Ha).
    destruct (elem (space r1)) as [v r2| | | |] eqn:E; try discriminate; try (inversion H; subst; exact Ha).
    apply (IH _ _ _ _ H). apply (dict_set_forall (pvd dp)); [exact Ha|apply (elem_sound _ _ _ E)].
  Qed.

  Lemma array_sound n s l r : array_p elem n s = POk l r -> pvd (S dp) (OArr l).
  Proof.
    unfold array_p. destruct s as [|c t]; [discriminate|]. destruct c; try discriminate.
    intro H. apply pbind_ok in H as [l' [r1 [H1 H2]]]. apply pbind_ok in H2 as [u [r2 [_ H3]]].
    inversion H3; subst. pose proof (many0_direct_sound _ _ _ _ H1) as Hl. split.
    - constructor. eapply Forall_impl; [|exact Hl]. intros x [A _]. exact A.
    - cbn [nest]. fold (nest_list l). apply le_n_S, nest_list_bound.
      eapply Forall_impl; [|exact Hl]. intros x [_ B]. exact B.
  Qed.

  Lemma dictionary_sound n s d r : dictionary_p elem n s = POk d r -> pvd (S dp) (ODict d).
  Proof.
    unfold dictionary_p. destruct s as [|c t]; [discriminate|]. destruct c; try discriminate.
    destruct t as [|c2 t]; [discriminate|]. destruct c2; try discriminate.
    intro H. apply pbind_ok in H as [d' [r1 [H1 H2]]]. apply pbind_ok in H2 as [u [r2 [_ H3]]].
    inversion H3; subst.
    pose proof (inner_dictionary_sound _ _ _ _ _ H1 (Forall_nil _)) as Hd.
    pose proof (inner_dictionary_nodup _ _ _ _ _ _ H1 (NoDup_nil _)) as Hn. split.
    - constructor; [exact Hn|]. eapply Forall_impl; [|exact Hd]. intros x [A _]. exact A.
    - cbn [nest]. fold (nest_dict d). apply le_n_S, nest_dict_bound.
      eapply Forall_impl; [|exact Hd]. intros x [_ B]. exact B.
  Qed.

  (* the ordered choice: a parsed value, within S dp levels when containers are allowed and 0
     otherwise, and not a reference when the reference alternative is absent *)
  Lemma alts_sound cont ar n s o r :
    object_alts_c elem cont ar n s = POk o r ->
    pvd (if cont then S dp else 0%nat) o /\ (ar = false -> ref_ok false o).
  Proof.
    unfold object_alts_c. intro H.
    assert (Z0 : forall o', pv o' -> nest o' = 0%nat -> pvd (if cont then S dp else 0%nat) o')
      by (intros o' A B; split; [exact A|rewrite B; lia]).
    apply palt_ok in H as [H|[_ H]].
    { unfold null in H. apply pmap_ok in H as [u [_ ->]]. split; [apply Z0; [constructor|reflexivity]|intros _; exact I]. }
    apply palt_ok in H as [H|[_ H]].
    { unfold boolean in H. apply palt_ok in H as [H|[_ H]]; apply pmap_ok in H as [u [_ ->]];
        (split; [apply Z0; [constructor|reflexivity]|intros _; exact I]). }
    apply palt_ok in H as [H|[_ H]].
    { destruct ar; [|discriminate]. apply reference_sound in H as [i [g [-> [Hi Hg]]]].
      split; [apply Z0; [constructor; assumption|reflexivity]|discriminate]. }
    apply palt_ok in H as [H|[_ H]].
    { apply pmap_ok in H as [t [H ->]]. apply real_sound in H.
      split; [apply Z0; [constructor; exact H|reflexivity]|intros _; exact I]. }
    apply palt_ok in H as [H|[_ H]].
    { apply pmap_ok in H as [z [H ->]]. apply integer_sound in H.
      split; [apply Z0; [constructor; exact H|reflexivity]|intros _; exact I]. }
    apply palt_ok in H as [H|[_ H]].
    { apply pmap_ok in H as [k [_ ->]]. split; [apply Z0; [constructor|reflexivity]|intros _; exact I]. }
    apply palt_ok in H as [H|[_ H]].
    { apply pmap_ok in H as [k [_ ->]]. split; [apply Z0; [constructor|reflexivity]|intros _; exact I]. }
    apply palt_ok in H as [H|[_ H]].
    { apply pmap_ok in H as [k [_ ->]]. split; [apply Z0; [constructor|reflexivity]|intros _; exact I]. }
    apply palt_ok in H as [H|[_ H]].
    { destruct cont; [|discriminate]. apply pmap_ok in H as [l [H ->]].
      split; [apply (array_sound _ _ _ _ H)|intros _; exact I]. }
    destruct cont; [|discriminate]. apply pmap_ok in H as [d [H ->]].
    split; [apply (dictionary_sound _ _ _ _ H)|intros _; exact I].
  Qed.
End ElemSound.

Theorem direct_objects_at_sound : forall f depth s o r,
  direct_objects_at f depth s = POk o r -> pvd depth o.
Proof.
  induction f as [|f IH]; intros depth s o r H; [discriminate|]. cbn [direct_objects_at] in H.
  destruct (alts_sound (direct_objects_at f (pred depth)) (pred depth) (fun s o r => IH (pred depth) s o r)
              _ _ _ _ _ _ H) as [[A B] _].
  split; [exact A|]. destruct depth as [|d]; cbn [depth_ok pred] in B; exact B.
Qed.

Corollary direct_object_sound f s o r : direct_object f s = POk o r -> pvd MAX_DEPTH o.
Proof.
  unfold direct_object, direct_objects. intro H. apply pbind_ok in H as [o' [r1 [H1 H2]]].
  inversion H2; subst. apply (direct_objects_at_sound _ _ _ _ _ H1).
Qed.

Corollary parse_direct_object_sound s o : parse_direct_object s = Some o -> pvd MAX_DEPTH o.
Proof.
  unfold parse_direct_object. destruct (direct_object _ s) as [o' r| | | |] eqn:E; try discriminate.
  intro H. inversion H; subst. apply (direct_object_sound _ _ _ _ E).
Qed.

(* the content operand: a parsed value within MAX_DEPTH levels that is not a reference *)
Definition pv_operand (o : obj) : Prop := pv o /\ ref_ok false o /\ (nest o <= MAX_DEPTH)%nat.

Theorem operand_sound fuel s o r : operand fuel s = POk o r -> pv_operand o.
Proof.
  unfold operand. destruct fuel as [|f]; [discriminate|]. intro H.
  apply pbind_ok in H as [o' [r1 [H1 H2]]]. inversion H2; subst.
  destruct (alts_sound (direct_objects_at f (pred MAX_DEPTH)) (pred MAX_DEPTH)
              (fun s o r => direct_objects_at_sound f (pred MAX_DEPTH) s o r) _ _ _ _ _ _ H1) as [[A B] C].
  split; [exact A|]. split; [apply C; reflexivity|exact B].
Qed.

Lemma many0_operand_sound fuel : forall n s l r, many0_operand fuel n s = POk l r -> Forall pv_operand l.
Proof.
  induction n as [|n IH]; intros s l r H; [discriminate|]. cbn [many0_operand] in H.
  destruct (operand fuel s) as [o r1| | | |] eqn:E; try discriminate.
  - apply pmap_ok in H as [l' [H ->]]. constructor; [apply (operand_sound _ _ _ _ E)|apply (IH _ _ _ H)].
  - inversion H; subst. constructor.
Qed.

Lemma operator_sound s op r : operator s = POk op r -> alphabet_op op = true.
Proof.
  unfold operator. destruct (take_while is_operator_char s) as [o r1] eqn:E.
  destruct (take_while_split _ _ _ _ E) as [_ Ho]. destruct o as [|c o]; [discriminate|].
  intro H. inversion H; subst. unfold alphabet_op. rewrite Ho. reflexivity.
Qed.

(* ---------- decoded operations ---------- *)

(* an inline image as the parser returns it: unique keys, parsed values one level down (the Length
   entry is the integer Stream::new sets), a dictionary that implies exactly the data length *)
Definition image_dec (op : operation) : Prop :=
  op_operator op = bs "BI" /\
  exists d c, op_operands op = [OStream d c] /\ NoDup (map fst d) /\
    Forall (fun kv => pvd (pred MAX_DEPTH) (snd kv) \/ snd kv = OInt (Z.of_nat (length c))) d /\
    img_len d = Some (N.of_nat (length c)) /\
    dict_get d K_Length = Some (OInt (Z.of_nat (length c))).

Definition op_dec (op : operation) : Prop :=
  alphabet_op (op_operator op) = true /\ (Forall pv_operand (op_operands op) \/ image_dec op).

Lemma inline_image_values fuel s ops op r :
  inline_image fuel s = POk (ops, op) r ->
  exists d c, ops = [OStream d c] /\
    Forall (fun kv => pvd (pred MAX_DEPTH) (snd kv) \/ snd kv = OInt (Z.of_nat (length c))) d.
Proof.
  unfold inline_image. destruct (pkeyword (bs "BI") s) as [u r0| | | |]; try discriminate.
  destruct fuel as [|f]; [discriminate|].
  destruct (inner_dictionary _ f (content_space r0) []) as [d r1| | | |] eqn:Ed; try discriminate.
  destruct (ptag (bs "ID") r1) as [u1 r2| | | |]; try discriminate.
  destruct (image_data_stream (id_sep r2) d) as [c r3| |]; try discriminate.
  destruct (ptag (bs "EI") (content_space r3)) as [u2 r4| | | |]; try discriminate.
  intro H. inversion H; subst. eexists _, c. split; [reflexivity|].
  pose proof (inner_dictionary_sound _ (pred MAX_DEPTH)
                (fun s o r => direct_objects_at_sound f (pred MAX_DEPTH) s o r) _ _ _ _ _ Ed (Forall_nil _)) as Hd.
  apply (dict_set_forall (fun v => pvd (pred MAX_DEPTH) v \/ v = OInt (Z.of_nat (length c)))); [|right; reflexivity].
  eapply Forall_impl; [|exact Hd]. intros kv A. left. exact A.
Qed.

Theorem operation_sound fuel s op r : operation_p fuel s = POk op r -> op_dec op.
Proof.
  unfold operation_p. intro H. apply palt_ok in H as [H|[_ H]].
  - apply pmap_ok in H as [[ops opr] [H ->]]. cbn [fst snd].
    destruct (inline_image_sound _ _ _ _ _ H) as [-> [d [c [E [Hnd [Hl Hg]]]]]].
    destruct (inline_image_values _ _ _ _ _ H) as [d' [c' [E' Hv]]]. rewrite E in E'. inversion E'; subst d' c'.
    split; [reflexivity|]. right. split; [reflexivity|]. exists d, c. cbn [op_operands]. auto.
  - apply pbind_ok in H as [ops [r1 [H1 H2]]]. apply pbind_ok in H2 as [opr [r2 [H2 H3]]].
    inversion H3; subst. split; cbn [op_operator op_operands].
    + apply (operator_sound _ _ _ H2).
    + left. apply (many0_operand_sound _ _ _ _ _ H1).
Qed.

Lemma many0_operation_sound fuel : forall n s l r, many0_operation fuel n s = POk l r -> Forall op_dec l.
Proof.
  induction n as [|n IH]; intros s l r H; [discriminate|]. cbn [many0_operation] in H.
  destruct (operation_p fuel s) as [o r1| | | |] eqn:E; try discriminate.
  - apply pmap_ok in H as [l' [H ->]]. constructor; [apply (operation_sound _ _ _ _ E)|apply (IH _ _ _ H)].
  - inversion H; subst. constructor.
Qed.

(* everything Content::decode returns, for EVERY input *)
Theorem decoded_ops_sound bs ops : decode_content bs = DecOk ops -> Forall op_dec ops.
Proof.
  unfold decode_content.
  destruct (many0_operation _ _ (content_space bs)) as [l r| | | |] eqn:E; try discriminate.
  intro H. inversion H; subst. apply (many0_operation_sound _ _ _ _ _ E).
Qed.

(* ---------- a parsed value is its own normal form ---------- *)

(* [norm_obj] changes only integral real texts WITHOUT a point; a source real always has a point, so
   everything the parser returns is a fixed point of the normal form (what the re-encoding changes
   is the spelling of reals: Proofs/DecodeRtProofs.v) *)
Lemma real_src_norm t : real_src t -> norm_real t = OReal t.
Proof.
  intros [sg [ds [fs [-> [Hd [Hf Hne]]]]]]. unfold norm_real.
  assert (E : exists neg pre, strip_minus (sign_text sg ++ ds ++ x2e :: fs) = (neg, pre ++ x2e :: fs)).
  { destruct sg as [[|]|]; cbn [sign_text app].
    - exists true, ds. reflexivity.
    - exists false, (x2b :: ds). reflexivity.
    - exists false, ds. destruct ds as [|d0 ds']; [reflexivity|]. cbn [forallb] in Hd.
      apply andb_true_iff in Hd as [Hd0 _]. cbn [app]. unfold strip_minus.
      destruct d0; try discriminate Hd0; reflexivity. }
  destruct E as [neg [pre E]]. rewrite E, forallb_digit_point. reflexivity.
Qed.

Theorem pv_norm_fixed o : pv o -> norm_obj o = o.
Proof.
  induction o as [|b|z|r|n|s h|l Hl|d Hd|d c Hd|i g] using obj_rt_ind; intro Hp; inversion Hp; subst;
    cbn [norm_obj]; try reflexivity.
  - apply real_src_norm. assumption.
  - f_equal. clear Hp. induction Hl as [|x l Hx Hl IH]; [reflexivity|]. inversion H0; subst.
    cbn [map]. rewrite Hx, IH by assumption. reflexivity.
  - f_equal. clear Hp H0. induction Hd as [|[k x] d Hx Hd IH]; [reflexivity|]. inversion H1; subst. cbn [snd] in *.
    cbn [map fst snd]. rewrite Hx, IH by assumption. reflexivity.
Qed.
