(* ComposeSink.v -- C19 "a later save of the same document to a healthy sink produces a valid file that loads to the
   same content", composed with C01_full.
   C19's residue theorems (C19_failed_save_residue for save_to, C19_save_path_residue for save(path)) say what a failed save
   leaves in the Document: (max_id, trailer) is [raise_max_id top st] (nothing but the idempotent raise) or
   [mutate mode ids (raise_max_id top st)] (exactly what a successful save does: Size, or max_id + 1 and the
   cross-reference stream keys).  Here: the document in either state is still in C01's domain [savable], outside the
   known class, and its trailer differs from the original only in bookkeeping keys; so by C01_full a re-save in either
   format loads, and the loaded document is [same_doc] to the ORIGINAL document ([resave_loads]).  For ANY list [ids] of
   object numbers the failed stream-format save recorded. *)
From LV Require Import Base.Bytes Base.Sx Model.Obj Model.Writer Model.Parser Model.Save
  Model.Xref Model.Loader Model.Utf Gen.Lex
  Proofs.LexProofs Proofs.RealProofs Proofs.ObjectRtProofs Proofs.SaveProofs Proofs.FilterProofsDict Spec.SaveSpec
  Proofs.LoadProofs Proofs.LoadProofsFile Proofs.LoadProofsXref Proofs.LoadProofsTable Proofs.LoadProofsAgain
  Proofs.LoadProofsStream Proofs.LoadProofsFull Proofs.ComposeReload.
From LV Require Model.Sink Model.SaveState Model.SinkBuf Proofs.SinkProofs Proofs.SaveStateProofs Proofs.SinkSaveProofs
  Proofs.SinkBufProofs.

Local Open Scope N_scope.

Notation sstate := SaveState.sstate.
Notation s_max_id := SaveState.s_max_id.
Notation s_trailer := SaveState.s_trailer.
Notation state_of := SinkSaveProofs.state_of.
Notation top_of := SinkSaveProofs.top_of.

(* the Document after a save: same version, mark and objects; (max_id, trailer) = the state *)
Definition with_state (d : doc) (st : sstate) : doc :=
  {| d_version := d_version d; d_binary_mark := d_binary_mark d; d_trailer := s_trailer st;
     d_objects := d_objects d; d_max_id := s_max_id st |}.

(* ---------- the section loop of create_xref_steam stays within the numbers it walks over ---------- *)
Lemma xref_sections_bound : forall fuel present obj_id cur B,
  obj_id + N.of_nat fuel <= B -> fst cur <= B -> snd cur <= obj_id ->
  Forall (fun s => fst s <= B /\ snd s <= B) (SaveState.xref_sections fuel present obj_id cur).
Proof.
  induction fuel as [|f IH]; intros present obj_id cur B HB Hc1 Hc2; cbn [SaveState.xref_sections].
  - destruct (snd cur =? 0); constructor; [split; lia | constructor].
  - set (cur' := if snd cur =? 0 then (obj_id, 0) else cur).
    assert (H1 : fst cur' <= B) by (subst cur'; destruct (snd cur =? 0); cbn [fst]; lia).
    assert (H2 : snd cur' <= obj_id) by (subst cur'; destruct (snd cur =? 0); cbn [snd]; lia).
    destruct (present obj_id).
    + apply IH; cbn [fst snd]; lia.
    + destruct (snd cur' =? 0) eqn:E.
      * apply IH; try lia.
      * constructor; [split; lia|]. apply IH; cbn [fst snd]; lia.
Qed.

Lemma xref_sections_entries : forall fuel present obj_id cur,
  SaveState.entries_of (SaveState.xref_sections fuel present obj_id cur) <= snd cur + N.of_nat fuel.
Proof.
  induction fuel as [|f IH]; intros present obj_id cur; cbn [SaveState.xref_sections].
  - destruct (snd cur =? 0) eqn:E; cbn [SaveState.entries_of fold_right]; lia.
  - set (cur' := if snd cur =? 0 then (obj_id, 0) else cur).
    assert (H2 : snd cur' <= snd cur) by (subst cur'; destruct (snd cur =? 0); cbn [snd]; lia).
    destruct (present obj_id).
    + specialize (IH present (obj_id + 1) (fst cur', snd cur' + 1)). cbn [snd] in IH. lia.
    + destruct (snd cur' =? 0) eqn:E.
      * specialize (IH present (obj_id + 1) cur'). apply N.eqb_eq in E. lia.
      * cbn [SaveState.entries_of fold_right]. specialize (IH present (obj_id + 1) (obj_id, 0)).
        fold (SaveState.entries_of (SaveState.xref_sections f present (obj_id + 1) (obj_id, 0))). cbn [snd] in IH. lia.
Qed.

Lemma in_i64_N x : x < 2 ^ 62 -> in_i64 (Z.of_N x) = true.
Proof.
  intro H. unfold in_i64, i64_min, i64_max. apply andb_true_iff.
  assert (Z.of_N x < 2 ^ 62)%Z by (change (2 ^ 62)%Z with (Z.of_N (2 ^ 62)); lia).
  split; apply Z.leb_le; lia.
Qed.

Lemma index_of_wf secs B : B < 2 ^ 62 -> Forall (fun s : N * N => fst s <= B /\ snd s <= B) secs ->
  obj_wf (SaveState.index_of secs) /\ (nest (SaveState.index_of secs) <= 1)%nat.
Proof.
  intros HB H. unfold SaveState.index_of.
  assert (G : Forall (fun o => obj_wf o /\ nest o = 0%nat)
                     (flat_map (fun s : N * N => [OInt (Z.of_N (fst s)); OInt (Z.of_N (snd s))]) secs)).
  { induction H as [|s secs [H1 H2] _ IH]; [constructor|]. cbn [flat_map app].
    constructor; [split; [constructor; apply in_i64_N; lia | reflexivity]|].
    constructor; [split; [constructor; apply in_i64_N; lia | reflexivity] | exact IH]. }
  split.
  - constructor. eapply Forall_impl; [|exact G]. intros o [Ho _]. exact Ho.
  - cbn [nest]. assert (fold_right (fun x m => Nat.max (nest x) m) 0%nat
                          (flat_map (fun s : N * N => [OInt (Z.of_N (fst s)); OInt (Z.of_N (snd s))]) secs) = 0%nat); [|lia].
    induction G as [|o l [_ Hn] _ IH]; [reflexivity|]. cbn [fold_right]. rewrite Hn, IH. reflexivity.
Qed.

(* ---------- a trailer update by dict_set / swap_remove of bookkeeping keys ---------- *)
(* the facts about a trailer that [savable] / [known_deep] / [same_doc] look at *)
Definition trailer_ok (t : dict) : Prop :=
  obj_wf (ODict t) /\ dict_has t Save.K_Prev = false /\ dict_has t K_Encrypt = false /\
  (MAX_DEPTH <? Nat.max 2 (nest (ODict t)))%nat = false.
Definition trailer_sim (t t' : dict) : Prop := forall k, ~ In k bookkeeping -> dict_get t' k = dict_get t k.

Lemma dict_set_forall (P : bytes * obj -> Prop) d k v : Forall P d -> P (k, v) -> Forall P (dict_set d k v).
Proof.
  induction d as [|[k' v'] d IH]; intros H Hp; cbn [dict_set]; [constructor; auto|].
  inversion H; subst. destruct (bytes_eqb k' k) eqn:E.
  - apply bytes_eqb_eq in E. subst k'. constructor; assumption.
  - constructor; [assumption | apply IH; assumption].
Qed.

Lemma nest_dict_S t B : (Nat.max 2 (nest (ODict t)) <= B)%nat <-> (2 <= B /\ S (nest_dict t) <= B)%nat.
Proof. change (nest (ODict t)) with (S (nest_dict t)). lia. Qed.

Lemma trailer_ok_set t k v : trailer_ok t -> k <> Save.K_Prev -> k <> K_Encrypt -> obj_wf v -> (nest v <= 1)%nat ->
  trailer_ok (dict_set t k v).
Proof.
  intros [W [Hp [He Hn]]] Hk1 Hk2 Hv Hnv. inversion W as [| | | | | | |tr Wd Wf|]; subst.
  split; [|split; [|split]].
  - constructor; [apply dict_set_wf; exact Wd | apply dict_set_forall; [exact Wf | exact Hv]].
  - unfold dict_has in *. rewrite dict_get_set_other by (intro X; apply Hk1; symmetry; exact X). exact Hp.
  - unfold dict_has in *. rewrite dict_get_set_other by (intro X; apply Hk2; symmetry; exact X). exact He.
  - apply Nat.ltb_ge. apply Nat.ltb_ge in Hn. apply nest_dict_S. apply nest_dict_S in Hn. destruct Hn as [H2 Hn].
    split; [exact H2|]. assert (nest_dict (dict_set t k v) <= MAX_DEPTH - 1)%nat; [|lia].
    apply nest_dict_bound. apply dict_set_forall; [apply nest_dict_bound; lia | cbn [snd]; lia].
Qed.

Lemma trailer_sim_set t k v : In k bookkeeping -> trailer_sim t (dict_set t k v).
Proof. intros Hk k' Hk'. apply dict_get_set_other. intro E. subst k'. contradiction. Qed.

Lemma trailer_ok_remove t k : trailer_ok t -> trailer_ok (dict_swap_remove t k).
Proof.
  intros [W [Hp [He Hn]]]. inversion W as [| | | | | | |tr Wd Wf|]; subst.
  assert (Hin : forall kv, In kv (dict_swap_remove t k) -> In kv t).
  { intros [k' v'] H. apply (swap_remove_in t k k' v' Wd) in H. tauto. }
  assert (Hhas : forall k', dict_has t k' = false -> dict_has (dict_swap_remove t k) k' = false).
  { intros k' H. apply not_true_is_false. intro E. apply dict_has_In in E. apply in_map_iff in E as [[k0 v0] [E0 E]].
    cbn [fst] in E0. subst k0. apply Hin in E. assert (dict_has t k' = true); [|congruence].
    apply dict_has_In. apply in_map_iff. exists (k', v0). split; [reflexivity | exact E]. }
  split; [|split; [|split]].
  - constructor; [apply swap_remove_wf; exact Wd|]. apply Forall_forall. intros kv H. rewrite Forall_forall in Wf. apply Wf, Hin, H.
  - apply Hhas. exact Hp.
  - apply Hhas. exact He.
  - apply Nat.ltb_ge. apply Nat.ltb_ge in Hn. apply nest_dict_S. apply nest_dict_S in Hn. destruct Hn as [H2 Hn].
    split; [exact H2|]. assert (nest_dict (dict_swap_remove t k) <= MAX_DEPTH - 1)%nat; [|lia].
    apply nest_dict_bound. apply Forall_forall. intros kv H.
    assert (G : Forall (fun kv => (nest (snd kv) <= MAX_DEPTH - 1)%nat) t) by (apply nest_dict_bound; lia).
    rewrite Forall_forall in G. apply G, Hin, H.
Qed.

Lemma trailer_sim_remove t k : dict_wf t -> In k bookkeeping -> trailer_sim t (dict_swap_remove t k).
Proof. intros W Hk k' Hk'. apply dict_get_swap_remove_other; [exact W|]. intro E. subst k'. contradiction. Qed.

Lemma trailer_sim_trans a b c : trailer_sim a b -> trailer_sim b c -> trailer_sim a c.
Proof. intros H1 H2 k Hk. rewrite (H2 k Hk). apply H1. exact Hk. Qed.

Lemma trailer_sim_refl a : trailer_sim a a.
Proof. intros k _. reflexivity. Qed.

Lemma trailer_ok_wf t : trailer_ok t -> dict_wf t.
Proof. intros [W _]. inversion W; assumption. Qed.

(* ---------- the three states a save can leave ---------- *)
Lemma K_ne (a b : bytes) : bytes_eqb a b = false -> a <> b.
Proof. apply bytes_eqb_neq. Qed.

Lemma in_bk (k : bytes) : existsb (bytes_eqb k) bookkeeping = true -> In k bookkeeping.
Proof. intro H. apply existsb_exists in H as [x [Hin E]]. apply bytes_eqb_eq in E. subst. exact Hin. Qed.

(* write_trailer: Size *)
Lemma mutate_table_ok st : trailer_ok (s_trailer st) -> s_max_id st + 2 < u32_mod ->
  trailer_ok (s_trailer (SaveState.mutate_table st)) /\ trailer_sim (s_trailer st) (s_trailer (SaveState.mutate_table st)).
Proof.
  intros T Hm. unfold SaveState.mutate_table. cbn [s_trailer]. split.
  - apply trailer_ok_set; [exact T | apply K_ne; reflexivity | apply K_ne; reflexivity | | cbn; lia].
    constructor. apply in_i64_N. unfold u32_mod in Hm. lia.
  - apply trailer_sim_set. apply in_bk. reflexivity.
Qed.

(* write_cross_reference_stream: max_id + 1, Type Size W Index (Filter removed) Length -- for ANY recorded ids *)
Lemma mutate_stream_ok ids st : trailer_ok (s_trailer st) -> s_max_id st + 3 < u32_mod ->
  trailer_ok (s_trailer (SaveState.mutate_stream ids st)) /\
  trailer_sim (s_trailer st) (s_trailer (SaveState.mutate_stream ids st)) /\
  s_max_id (SaveState.mutate_stream ids st) = s_max_id st + 1.
Proof.
  intros T Hm. unfold SaveState.mutate_stream. cbv zeta. cbn [s_trailer s_max_id].
  set (m := s_max_id st + 1).
  set (present := fun i => existsb (N.eqb i) ids || (i =? m)).
  set (secs := SaveState.xref_sections (N.to_nat m) present 1 (0, 0)).
  assert (Hsecs : Forall (fun s : N * N => fst s <= m + 1 /\ snd s <= m + 1) secs).
  { apply xref_sections_bound; cbn [fst snd]; lia. }
  assert (Hent : SaveState.entries_of secs <= m).
  { pose proof (xref_sections_entries (N.to_nat m) present 1 (0, 0)) as H. fold secs in H. cbn [snd] in H. lia. }
  assert (Hm62 : m + 1 < 2 ^ 62) by (unfold u32_mod in Hm; subst m; lia).
  destruct (index_of_wf secs (m + 1) Hm62 Hsecs) as [Wi Ni].
  set (t1 := dict_set (s_trailer st) K_Type (OName SaveState.K_XRef)).
  set (t2 := dict_set t1 SaveState.K_Size (OInt (Z.of_N (m + 1)))).
  set (t3 := dict_set t2 SaveState.K_W (OArr [OInt 1; OInt 4; OInt 2])).
  set (t4 := dict_set t3 SaveState.K_Index (SaveState.index_of secs)).
  set (t5 := dict_swap_remove t4 K_Filter).
  assert (T1 : trailer_ok t1).
  { apply trailer_ok_set; [exact T | apply K_ne; reflexivity | apply K_ne; reflexivity | constructor | cbn; lia]. }
  assert (T2 : trailer_ok t2).
  { apply trailer_ok_set; [exact T1 | apply K_ne; reflexivity | apply K_ne; reflexivity | | cbn; lia].
    constructor. apply in_i64_N. lia. }
  assert (T3 : trailer_ok t3).
  { apply trailer_ok_set; [exact T2 | apply K_ne; reflexivity | apply K_ne; reflexivity | | cbn; lia].
    constructor. repeat constructor. }
  assert (T4 : trailer_ok t4).
  { apply trailer_ok_set; [exact T3 | apply K_ne; reflexivity | apply K_ne; reflexivity | exact Wi | exact Ni]. }
  assert (T5 : trailer_ok t5) by (apply trailer_ok_remove; exact T4).
  split; [|split; [|reflexivity]].
  - apply trailer_ok_set; [exact T5 | apply K_ne; reflexivity | apply K_ne; reflexivity | | cbn; lia].
    constructor. apply in_i64_N. unfold u32_mod in Hm. lia.
  - eapply trailer_sim_trans; [|apply trailer_sim_set; apply in_bk; reflexivity].
    eapply trailer_sim_trans; [|apply trailer_sim_remove; [apply trailer_ok_wf; exact T4 | apply in_bk; reflexivity]].
    eapply trailer_sim_trans; [|apply trailer_sim_set; apply in_bk; reflexivity].
    eapply trailer_sim_trans; [|apply trailer_sim_set; apply in_bk; reflexivity].
    eapply trailer_sim_trans; [|apply trailer_sim_set; apply in_bk; reflexivity].
    apply trailer_sim_set. apply in_bk. reflexivity.
Qed.

(* ---------- a document whose (max_id, trailer) was replaced ---------- *)
Lemma with_state_savable d st :
  savable d -> known_deep d = false ->
  trailer_ok (s_trailer st) -> N.max (s_max_id st) (last_number (d_objects d)) + 2 < u32_mod ->
  savable (with_state d st) /\ known_deep (with_state d st) = false.
Proof.
  intros S K [W [Hp [He Hn]]] Hm. split.
  - constructor; cbn [with_state d_version d_binary_mark d_trailer d_objects d_max_id]; try apply S; assumption.
  - unfold known_deep in *. cbn [with_state d_objects d_trailer]. apply orb_false_iff in K as [K1 _].
    apply orb_false_iff. split; assumption.
Qed.

Lemma same_doc_state d st b :
  trailer_sim (d_trailer d) (s_trailer st) -> same_doc (with_state d st) b -> same_doc d b.
Proof.
  intros Hsim [H1 [H2 H3]]. split; [exact H1|]. split; [exact H2|].
  intros k Hk. rewrite (H3 k Hk). cbn [with_state d_trailer]. rewrite !dict_get_norm, (Hsim k Hk). reflexivity.
Qed.

Lemma savable_trailer_ok d : savable d -> known_deep d = false -> trailer_ok (d_trailer d).
Proof.
  intros S K. unfold known_deep in K. apply orb_false_iff in K as [_ K2].
  split; [apply S|]. split; [apply S|]. split; [apply S | exact K2].
Qed.

(* the residue of C19's theorems, as a predicate on the state *)
Definition residue (mode : SaveState.xmode) (ids : list N) (d : doc) (st' : sstate) : Prop :=
  st' = SaveState.raise_max_id (top_of d) (state_of d) \/
  st' = SaveState.mutate mode ids (SaveState.raise_max_id (top_of d) (state_of d)).

(* one spare object number when the failed save was in the stream format (it may have consumed one) *)
Definition residue_fits (mode : SaveState.xmode) (d : doc) : Prop :=
  match mode with
  | SaveState.XTable => True
  | SaveState.XStream => N.max (d_max_id d) (last_number (d_objects d)) + 3 < u32_mod
  end.

Theorem residue_savable mode ids d st' :
  savable d -> known_deep d = false -> residue_fits mode d -> residue mode ids d st' ->
  savable (with_state d st') /\ known_deep (with_state d st') = false /\ trailer_sim (d_trailer d) (s_trailer st').
Proof.
  intros S K Hfit Hres. pose proof (savable_trailer_ok d S K) as T. pose proof (sd_max_id d S) as Hm.
  set (st0 := SaveState.raise_max_id (top_of d) (state_of d)) in *.
  assert (E0 : s_max_id st0 = N.max (d_max_id d) (last_number (d_objects d)) /\ s_trailer st0 = d_trailer d).
  { subst st0. unfold SinkSaveProofs.top_of, SinkSaveProofs.state_of. cbn [SaveState.raise_max_id s_max_id s_trailer]. split; reflexivity. }
  destruct E0 as [E1 E2].
  assert (Hmax : forall x, N.max (N.max (d_max_id d) (last_number (d_objects d)) + x) (last_number (d_objects d)) =
                           N.max (d_max_id d) (last_number (d_objects d)) + x) by (intro x; lia).
  destruct Hres as [-> | ->].
  - destruct (with_state_savable d st0 S K) as [S1 K1]; [rewrite E2; exact T | rewrite E1; specialize (Hmax 0); lia|].
    split; [exact S1|]. split; [exact K1|]. exact (trailer_sim_refl (d_trailer d)).
  - destruct mode; cbn [SaveState.mutate].
    + destruct (mutate_table_ok st0) as [T1 Sim]; [rewrite E2; exact T | rewrite E1; exact Hm|].
      destruct (with_state_savable d (SaveState.mutate_table st0) S K T1) as [S1 K1].
      { cbn [SaveState.mutate_table s_max_id]. rewrite E1. specialize (Hmax 0). lia. }
      split; [exact S1|]. split; [exact K1|]. exact Sim.
    + cbn [residue_fits] in Hfit.
      destruct (mutate_stream_ok ids st0) as [T1 [Sim Emax]]; [rewrite E2; exact T | rewrite E1; exact Hfit|].
      destruct (with_state_savable d (SaveState.mutate_stream ids st0) S K T1) as [S1 K1].
      { rewrite Emax, E1. specialize (Hmax 1). lia. }
      split; [exact S1|]. split; [exact K1|]. exact Sim.
Qed.

(* ---------- THE COMPOSITION: after whatever a failed (or successful) save left, a re-save loads to the same document ---------- *)
Theorem resave_loads mode ids d st' xt :
  savable d -> known_deep d = false -> residue_fits mode d -> residue mode ids d st' ->
  let d1 := with_state d st' in
  small_file xt d1 ->
  savable d1 /\ known_deep d1 = false /\
  load (so_bytes (save xt d1)) = LOk (reloaded xt d1) (xtype_of xt) /\
  same_doc d (reloaded xt d1).
Proof.
  intros S K Hfit Hres d1 Hs. destruct (residue_savable mode ids d st' S K Hfit Hres) as [S1 [K1 Sim]]. fold d1 in S1, K1.
  split; [exact S1|]. split; [exact K1|]. split; [apply (load_save_one xt d1 S1 K1 Hs)|].
  apply (same_doc_state d st' _ Sim). apply same_doc_reloaded. exact S1.
Qed.

(* save_to with a failing sink (C19_failed_save_residue), then save_to with a healthy one *)
Theorem resave_after_failure_loads wa : SinkProofs.wa_sound wa ->
  forall mode ids pre post d s r delivered st' xt,
    SaveState.save_with wa mode ids (top_of d) pre post (state_of d) s = (r, delivered, st') ->
    savable d -> known_deep d = false -> residue_fits mode d ->
    let d1 := with_state d st' in
    small_file xt d1 ->
    savable d1 /\ known_deep d1 = false /\
    load (so_bytes (save xt d1)) = LOk (reloaded xt d1) (xtype_of xt) /\
    same_doc d (reloaded xt d1).
Proof.
  intros Hwa mode ids pre post d s r delivered st' xt Hsave S K Hfit.
  apply (resave_loads mode ids d st' xt S K Hfit).
  destruct (SaveStateProofs.failed_save_residue wa Hwa mode ids (top_of d) pre post (state_of d) s r delivered st' Hsave)
    as [[_ [E _]]|[_ E]]; [left | right]; exact E.
Qed.

(* Document::save(path) through the BufWriter (C19_save_path_residue), then a healthy save *)
Theorem resave_after_failed_save_path_loads wa : SinkProofs.wa_sound wa ->
  forall cap mode ids pre post d s r file st' xt,
    SinkBuf.save_path_with wa cap mode ids (top_of d) pre post (state_of d) None s = (r, file, st') ->
    savable d -> known_deep d = false -> residue_fits mode d ->
    let d1 := with_state d st' in
    small_file xt d1 ->
    savable d1 /\ known_deep d1 = false /\
    load (so_bytes (save xt d1)) = LOk (reloaded xt d1) (xtype_of xt) /\
    same_doc d (reloaded xt d1).
Proof.
  intros Hwa cap mode ids pre post d s r file st' xt Hsave S K Hfit.
  apply (resave_loads mode ids d st' xt S K Hfit).
  destruct (SinkBufProofs.save_path_with_residue wa Hwa cap mode ids (top_of d) pre post (state_of d) s r file st' Hsave)
    as [[E _]|E]; [left | right]; exact E.
Qed.

(* ---------- non-vacuity: a stream-format save of [cyc_doc] (Proofs/ComposeReload.v) that fails inside the cross-reference
   stream object leaves max_id + 1 and the stream keys in the trailer; every hypothesis of [resave_after_failure_loads] is
   met for a re-save in either format ---------- *)
Definition ex_ids : list N := [1; 2; 3; 4].
Definition ex_left : sstate := SaveState.mutate_stream ex_ids (SaveState.raise_max_id (top_of cyc_doc) (state_of cyc_doc)).

Theorem ex_resave :
  SaveState.save_with Sink.write_all SaveState.XStream ex_ids (top_of cyc_doc) [bs "%PDF-1.5"; bs "objects"] [bs "xrefstream"]
    (state_of cyc_doc) [Sink.Accept 8; Sink.Accept 7; Sink.Accept 3; Sink.Zero]
    = (Sink.WErr Sink.EWriteZero, bs "%PDF-1.5objectsxre", ex_left) /\
  savable cyc_doc /\ known_deep cyc_doc = false /\ residue_fits SaveState.XStream cyc_doc /\
  d_max_id (with_state cyc_doc ex_left) = 5 /\
  dict_get (d_trailer (with_state cyc_doc ex_left)) K_Type = Some (OName (bs "XRef")) /\
  small_file XTable (with_state cyc_doc ex_left) /\ small_file XStream (with_state cyc_doc ex_left) /\
  same_doc cyc_doc (reloaded XStream (with_state cyc_doc ex_left)).
Proof.
  assert (S := cyc_savable). assert (K : known_deep cyc_doc = false) by (vm_compute; reflexivity).
  assert (F : residue_fits SaveState.XStream cyc_doc) by (vm_compute; reflexivity).
  assert (Hs : small_file XStream (with_state cyc_doc ex_left)) by (vm_compute; reflexivity).
  split; [vm_compute; reflexivity|]. split; [exact S|]. split; [exact K|]. split; [exact F|].
  split; [vm_compute; reflexivity|]. split; [vm_compute; reflexivity|]. split; [vm_compute; reflexivity|]. split; [exact Hs|].
  apply (resave_loads SaveState.XStream ex_ids cyc_doc ex_left XStream S K F); [right; reflexivity | exact Hs].
Qed.
