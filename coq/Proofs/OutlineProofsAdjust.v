(* OutlineProofsAdjust.v -- C17: adjust_zero_pages / recursive_fix_pages refine the specification
   [fix_tree] of Spec/OutlineSpec.v on every table that holds a forest with pairwise distinct ids.
   Part 1: the pass with first = false transcribed on trees ([fixnode], [fixF]) returns the effective
           page and leaves [fix_tree] unchanged                               -- [fixnode_spec]
   Part 2: the table algorithm of Model/Outline.v refines the tree algorithm  -- [fix_pages_ok]
   Main result: [adjust_zero_pages_ok]. *)
From LV Require Import Base.Bytes Model.Obj Model.DocQ Model.Outline Spec.OutlineSpec
  Proofs.OutlineProofs Proofs.OutlineProofsOps.

Local Open Scope N_scope.

(* ---------- induction on trees ---------- *)
Lemma itree_ind' (P : itree -> Prop) :
  (forall i d ks, Forall P ks -> P (INode i d ks)) -> forall t, P t.
Proof.
  intro H. fix IH 1. intros [i d ks]. apply H.
  induction ks as [|k ks IHks]; constructor; [apply IH | exact IHks].
Qed.

(* ---------- part 1: the algorithm on trees ---------- *)
Definition zero_parent (d : bdata) (ks : list itree) : bool := (fst (b_page d) =? 0) && nonempty ks.

Fixpoint fixnode (t : itree) : oid * itree :=
  match t with
  | INode i d ks =>
    if zero_parent d ks then
      let '(p, ks') :=
        (fix fixF (l : list itree) : oid * list itree :=
           match l with
           | [] => ((0, 0), [])
           | k :: rest =>
             let '(pg, k1) := fixnode k in
             if negb (fst pg =? 0) then (pg, k1 :: rest)
             else let '(p, rest') := fixF rest in (p, k1 :: rest')
           end) ks in
      (p, INode i (with_page d p) ks')
    else (b_page d, t)
  end.

Fixpoint fixF (l : list itree) : oid * list itree :=
  match l with
  | [] => ((0, 0), [])
  | k :: rest =>
    let '(pg, k1) := fixnode k in
    if negb (fst pg =? 0) then (pg, k1 :: rest)
    else let '(p, rest') := fixF rest in (p, k1 :: rest')
  end.

Lemma fixnode_eq i d ks :
  fixnode (INode i d ks) =
  if zero_parent d ks then let '(p, ks') := fixF ks in (p, INode i (with_page d p) ks')
  else (b_page d, INode i d ks).
Proof.
  cbn [fixnode]. destruct (zero_parent d ks); [|reflexivity].
  assert (E : forall l, (fix fixF (l : list itree) : oid * list itree :=
           match l with
           | [] => ((0, 0), [])
           | k :: rest =>
             let '(pg, k1) := fixnode k in
             if negb (fst pg =? 0) then (pg, k1 :: rest)
             else let '(p, rest') := fixF rest in (p, k1 :: rest')
           end) l = fixF l).
  { induction l as [|k rest IH]; [reflexivity|]. cbn [fixF]. rewrite IH. reflexivity. }
  rewrite E. reflexivity.
Qed.

(* ids and shape are preserved *)
Lemma fixnode_kids : forall t, map iid (ikids (snd (fixnode t))) = map iid (ikids t).
Proof.
  intros [i d ks]. rewrite fixnode_eq. destruct (zero_parent d ks); [|reflexivity].
  assert (H : forall l, map iid (snd (fixF l)) = map iid l).
  { induction l as [|k rest IHr]; [reflexivity|]. cbn [fixF].
    assert (Hk : iid (snd (fixnode k)) = iid k).
    { destruct k as [j e js]. rewrite fixnode_eq. destruct (zero_parent e js); [|reflexivity].
      destruct (fixF js). reflexivity. }
    destruct (fixnode k) as [pg k1]. cbn [snd] in Hk.
    destruct (negb (fst pg =? 0)); [cbn [snd map]; congruence|].
    destruct (fixF rest) as [p rest']. cbn [snd map] in *. congruence. }
  specialize (H ks). destruct (fixF ks) as [p ks']. exact H.
Qed.

Lemma fixnode_shape : forall t, iid (snd (fixnode t)) = iid t /\ iids (snd (fixnode t)) = iids t /\
                                 iheight (snd (fixnode t)) = iheight t.
Proof.
  apply itree_ind'. intros i d ks IH. rewrite fixnode_eq.
  destruct (zero_parent d ks); [|repeat split; reflexivity].
  assert (H : map iid (snd (fixF ks)) = map iid ks /\ flat_map iids (snd (fixF ks)) = flat_map iids ks /\
              fheight (snd (fixF ks)) = fheight ks).
  { clear -IH. induction IH as [|k rest [Hk1 [Hk2 Hk3]] _ IHr]; [repeat split; reflexivity|].
    cbn [fixF]. destruct (fixnode k) as [pg k1]. cbn [snd] in Hk1, Hk2, Hk3.
    destruct (negb (fst pg =? 0)).
    - cbn [snd map flat_map]. rewrite !fheight_cons. repeat split; congruence.
    - destruct (fixF rest) as [p rest']. cbn [snd] in *. destruct IHr as [A [B C]].
      cbn [map flat_map]. rewrite !fheight_cons. repeat split; congruence. }
  destruct (fixF ks) as [p ks']. cbn [snd] in *. destruct H as [A [B C]].
  cbn [iid iids]. rewrite !iheight_node. repeat split; congruence.
Qed.

Lemma fixF_shape ks :
  map iid (snd (fixF ks)) = map iid ks /\ flat_map iids (snd (fixF ks)) = flat_map iids ks /\
  fheight (snd (fixF ks)) = fheight ks.
Proof.
  induction ks as [|k rest IHr]; [repeat split; reflexivity|].
  cbn [fixF]. destruct (fixnode_shape k) as [Hk1 [Hk2 Hk3]]. destruct (fixnode k) as [pg k1]. cbn [snd] in *.
  destruct (negb (fst pg =? 0)).
  - cbn [snd map flat_map]. rewrite !fheight_cons. repeat split; congruence.
  - destruct (fixF rest) as [p rest']. cbn [snd] in *. destruct IHr as [A [B C]].
    cbn [map flat_map]. rewrite !fheight_cons. repeat split; congruence.
Qed.

(* what the pass with first = false returns, and that it does not disturb the final result *)
Lemma eff_page_eq i d ks :
  eff_page (INode i d ks) = if zero_parent d ks then first_nonzero (map eff_page ks) else b_page d.
Proof. reflexivity. Qed.

Lemma fix_tree_eq i d ks :
  fix_tree (INode i d ks) = INode i (with_page d (eff_page (INode i d ks))) (map fix_tree ks).
Proof. reflexivity. Qed.

Lemma nonempty_map {A B} (f : A -> B) l : nonempty (map f l) = nonempty l.
Proof. destruct l; reflexivity. Qed.

Lemma with_page_page d p : b_page (with_page d p) = p.
Proof. reflexivity. Qed.
Lemma with_page_twice d p q : with_page (with_page d p) q = with_page d q.
Proof. reflexivity. Qed.

Lemma first_nonzero_cons p l :
  first_nonzero (p :: l) = if negb (fst p =? 0) then p else first_nonzero l.
Proof. unfold first_nonzero. cbn [filter]. destruct (negb (fst p =? 0)); reflexivity. Qed.

Lemma first_nonzero_zero l : fst (first_nonzero l) = 0 -> first_nonzero l = (0, 0).
Proof.
  unfold first_nonzero. set (fl := filter (fun p : N * N => negb (fst p =? 0)) l).
  assert (Hall : forall p, In p fl -> negb (fst p =? 0) = true) by (intros p Hp; unfold fl in Hp; apply filter_In in Hp; tauto).
  destruct fl as [|p r]; [reflexivity|]. intro H.
  specialize (Hall p (or_introl eq_refl)). rewrite H in Hall. discriminate.
Qed.

(* fixnode returns the effective page, and a tree with the same effective pages everywhere *)
Lemma fixnode_spec : forall t,
  fst (fixnode t) = eff_page t /\ fix_tree (snd (fixnode t)) = fix_tree t /\
  eff_page (snd (fixnode t)) = eff_page t.
Proof.
  apply itree_ind'. intros i d ks IH. rewrite fixnode_eq, eff_page_eq.
  destruct (zero_parent d ks) eqn:Z; [|cbn [fst snd]; rewrite eff_page_eq, Z; repeat split; reflexivity].
  assert (H : fst (fixF ks) = first_nonzero (map eff_page ks) /\
              map fix_tree (snd (fixF ks)) = map fix_tree ks /\
              map eff_page (snd (fixF ks)) = map eff_page ks).
  { clear -IH. induction IH as [|k rest [Hk1 [Hk2 Hk3]] _ IHr]; [repeat split; reflexivity|].
    cbn [fixF]. destruct (fixnode k) as [pg k1]. cbn [fst snd] in Hk1, Hk2, Hk3. subst pg.
    cbn [map]. rewrite first_nonzero_cons.
    destruct (negb (fst (eff_page k) =? 0)).
    - cbn [fst snd map]. repeat split; congruence.
    - destruct (fixF rest) as [p rest']. cbn [fst snd] in *. destruct IHr as [A [B C]].
      cbn [map]. repeat split; congruence. }
  destruct (fixF ks) as [p ks']. cbn [fst snd] in *. destruct H as [A [B C]].
  assert (Zk : nonempty ks' = nonempty ks).
  { apply (f_equal (@length _)) in B. rewrite !map_length in B. destruct ks', ks; try discriminate; reflexivity. }
  split; [exact A|].
  assert (E : eff_page (INode i (with_page d p) ks') = first_nonzero (map eff_page ks)).
  { rewrite eff_page_eq. unfold zero_parent. rewrite with_page_page, Zk.
    unfold zero_parent in Z. apply andb_true_iff in Z. destruct Z as [Z1 Z2]. rewrite Z2, andb_true_r.
    destruct (fst p =? 0) eqn:P.
    - rewrite C. reflexivity.
    - exact A. }
  split; [|exact E].
  rewrite !fix_tree_eq, E, eff_page_eq, Z, with_page_twice, B. reflexivity.
Qed.

(* the root of fixnode's result already carries its effective page *)
Lemma fixnode_root : forall t,
  match snd (fixnode t) with INode i d1 ks1 => b_page d1 = eff_page t end.
Proof.
  intros [i d ks]. rewrite fixnode_eq, eff_page_eq.
  destruct (zero_parent d ks) eqn:Z; [|cbn [snd]; reflexivity].
  pose proof (fixnode_spec (INode i d ks)) as [A _]. rewrite fixnode_eq, Z, eff_page_eq, Z in A.
  destruct (fixF ks) as [p ks']. cbn [fst snd] in *. exact A.
Qed.

Lemma with_page_same d : with_page d (b_page d) = d.
Proof. destruct d. reflexivity. Qed.


(* ---------- part 2: the table algorithm ---------- *)
Definition frame (tbl tbl' : btable) (ids : list N) : Prop :=
  forall j, ~ In j ids -> tbl_get tbl' j = tbl_get tbl j.

Lemma frame_refl tbl ids : frame tbl tbl ids.
Proof. intros j _. reflexivity. Qed.

Lemma frame_trans t1 t2 t3 ids1 ids2 ids :
  frame t1 t2 ids1 -> frame t2 t3 ids2 -> incl ids1 ids -> incl ids2 ids -> frame t1 t3 ids.
Proof.
  intros F1 F2 I1 I2 j Hj. rewrite F2, F1; [reflexivity | |]; intro X; apply Hj; [apply I1 | apply I2]; exact X.
Qed.

Lemma trepr_frame tbl tbl' : forall t,
  trepr tbl t -> (forall j, In j (iids t) -> tbl_get tbl' j = tbl_get tbl j) -> trepr tbl' t.
Proof.
  apply (itree_ind' (fun t => trepr tbl t -> (forall j, In j (iids t) -> tbl_get tbl' j = tbl_get tbl j) -> trepr tbl' t)).
  intros i d ks IH Htr Hag. inversion Htr as [i0 d0 ks0 bm Hg Ht Hf Hc Hp Hch Hks]; subst.
  apply (TR tbl' i d ks bm); try assumption.
  - rewrite Hag; [exact Hg | left; reflexivity].
  - rewrite Forall_forall in *. intros k Hk. apply (IH k Hk); [apply Hks; exact Hk|].
    intros j Hj. apply Hag. cbn [iids]. right. apply in_flat_map. exists k. split; assumption.
Qed.

Lemma trepr_frame_out tbl tbl' ids t :
  trepr tbl t -> frame tbl tbl' ids -> (forall j, In j (iids t) -> ~ In j ids) -> trepr tbl' t.
Proof. intros Htr F D. apply (trepr_frame tbl tbl' t Htr). intros j Hj. apply F. apply D. exact Hj. Qed.

Lemma Forall_trepr_frame_out tbl tbl' ids l :
  Forall (trepr tbl) l -> frame tbl tbl' ids -> (forall j, In j (flat_map iids l) -> ~ In j ids) ->
  Forall (trepr tbl') l.
Proof.
  intros H F D. rewrite Forall_forall in *. intros t Ht. apply (trepr_frame_out tbl tbl' ids t (H t Ht) F).
  intros j Hj. apply D. apply in_flat_map. exists t. split; assumption.
Qed.

Lemma fix_tree_shape : forall t, iid (fix_tree t) = iid t /\ iids (fix_tree t) = iids t.
Proof.
  apply itree_ind'. intros i d ks IH. rewrite fix_tree_eq. cbn [iid iids]. split; [reflexivity|].
  f_equal. induction IH as [|k r [_ Hk] _ IHr]; [reflexivity|]. cbn [map flat_map]. congruence.
Qed.

Lemma map_iid_fix_tree l : map iid (map fix_tree l) = map iid l.
Proof. rewrite map_map. apply map_ext. intro t. apply fix_tree_shape. Qed.
Lemma flat_iids_fix_tree l : flat_map iids (map fix_tree l) = flat_map iids l.
Proof. induction l as [|t l IH]; [reflexivity|]. cbn [map flat_map]. rewrite IH. f_equal. apply fix_tree_shape. Qed.

(* the inner loop of recursive_fix_pages, with the recursive call abstracted *)
Fixpoint fp_loop (rec : btable -> list N -> bool -> outcome (oid * btable)) (first : bool)
         (ids : list N) (tbl : btable) : outcome (oid * btable) :=
  match ids with
  | [] => OOk ((0, 0)%N, tbl)
  | id :: rest =>
    match tbl_get tbl id with
    | None => OOk ((0, 0)%N, tbl)
    | Some bm =>
      let children := bm_children bm in
      let r1 : outcome (oid * btable) :=
        if (fst (bm_page bm) =? 0)%N && nonempty children then
          match rec tbl children false with
          | OOk (objectid, tbl1) =>
            match tbl_get tbl1 id with
            | None => OPanic
            | Some bm1 => OOk (objectid, tbl_set tbl1 id (set_page bm1 objectid))
            end
          | OPanic => OPanic
          | OFuel => OFuel
          end
        else OOk (bm_page bm, tbl) in
      match r1 with
      | OPanic => OPanic
      | OFuel => OFuel
      | OOk (page, tbl1) =>
        if negb first && negb (fst page =? 0)%N then OOk (page, tbl1)
        else if first && nonempty children then
          match rec tbl1 children first with
          | OOk (_, tbl2) => fp_loop rec first rest tbl2
          | OPanic => OPanic
          | OFuel => OFuel
          end
        else fp_loop rec first rest tbl1
      end
    end
  end.

Lemma fix_pages_S f tbl ids first : fix_pages (S f) tbl ids first = fp_loop (fix_pages f) first ids tbl.
Proof. revert tbl. induction ids as [|id rest IH]; intro tbl; [reflexivity|].
  cbn [fix_pages fp_loop]. destruct (tbl_get tbl id) as [bm|]; [|reflexivity].
  destruct ((fst (bm_page bm) =? 0) && nonempty (bm_children bm)).
  - destruct (fix_pages f tbl (bm_children bm) false) as [[o t1]| |]; try reflexivity.
    destruct (tbl_get t1 id); [|reflexivity].
    destruct (negb first && negb (fst o =? 0)); [reflexivity|].
    destruct (first && nonempty (bm_children bm)).
    + destruct (fix_pages f (tbl_set t1 id (set_page b o)) (bm_children bm) first) as [[o2 t2]| |]; try reflexivity.
      apply IH.
    + apply IH.
  - destruct (negb first && negb (fst (bm_page bm) =? 0)); [reflexivity|].
    destruct (first && nonempty (bm_children bm)).
    + destruct (fix_pages f tbl (bm_children bm) first) as [[o2 t2]| |]; try reflexivity. apply IH.
    + apply IH.
Qed.

Definition modeA (fuel : nat) : Prop :=
  forall l tbl, Forall (trepr tbl) l -> NoDup (flat_map iids l) -> (fheight l < fuel)%nat ->
  exists tbl', fix_pages fuel tbl (map iid l) false = OOk (fst (fixF l), tbl') /\
               Forall (trepr tbl') (snd (fixF l)) /\ frame tbl tbl' (flat_map iids l).
Definition modeB (fuel : nat) : Prop :=
  forall l tbl, Forall (trepr tbl) l -> NoDup (flat_map iids l) -> (fheight l < fuel)%nat ->
  exists p tbl', fix_pages fuel tbl (map iid l) true = OOk (p, tbl') /\
                 Forall (trepr tbl') (map fix_tree l) /\ frame tbl tbl' (flat_map iids l).

(* one node: the `if 0 == page.0 && !children.is_empty()` step *)
Lemma node_step f : modeA f -> forall tbl i d ks bm,
  trepr tbl (INode i d ks) -> NoDup (iids (INode i d ks)) -> (fheight ks < f)%nat ->
  tbl_get tbl i = Some bm ->
  exists tbl1,
    (if (fst (bm_page bm) =? 0) && nonempty (bm_children bm) then
       match fix_pages f tbl (bm_children bm) false with
       | OOk (objectid, tbl1) =>
         match tbl_get tbl1 i with
         | None => OPanic
         | Some bm1 => OOk (objectid, tbl_set tbl1 i (set_page bm1 objectid))
         end
       | OPanic => OPanic
       | OFuel => OFuel
       end
     else OOk (bm_page bm, tbl)) = OOk (fst (fixnode (INode i d ks)), tbl1) /\
    trepr tbl1 (snd (fixnode (INode i d ks))) /\ frame tbl tbl1 (iids (INode i d ks)).
Proof.
  intros HA tbl i d ks bm Htr Hnd Hh Hg.
  inversion Htr as [i0 d0 ks0 bm0 Hg0 Ht Hf Hc Hp Hch Hks]; subst. rewrite Hg in Hg0. inversion Hg0; subst bm0. clear Hg0.
  cbn [iids] in Hnd. apply NoDup_cons_iff in Hnd. destruct Hnd as [Hi Hnd].
  rewrite fixnode_eq. rewrite Hp, Hch, nonempty_map. fold (zero_parent d ks).
  destruct (zero_parent d ks) eqn:Z.
  - destruct (HA ks tbl Hks Hnd Hh) as [tbl' [E [Hks' F]]]. rewrite E.
    destruct (fixF_shape ks) as [S1 [S2 S3]].
    destruct (fixF ks) as [p ks']. cbn [fst snd] in *.
    rewrite (F i Hi), Hg.
    exists (tbl_set tbl' i (set_page bm p)). split; [reflexivity|]. split.
    + apply (TR _ i (with_page d p) ks' (set_page bm p)); try assumption; try reflexivity.
      * rewrite tbl_get_set, N.eqb_refl. reflexivity.
      * cbn [set_page bm_children]. congruence.
      * apply (Forall_trepr_frame_out tbl' _ [i] ks' Hks').
        -- intros j Hj. rewrite tbl_get_set. destruct (i =? j) eqn:Eij; [|reflexivity].
           apply N.eqb_eq in Eij. subst j. exfalso. apply Hj. left. reflexivity.
        -- intros j Hj [X|[]]. subst j. rewrite S2 in Hj. contradiction.
    + intros j Hj. cbn [iids] in Hj. rewrite tbl_get_set.
      destruct (i =? j) eqn:Eij; [apply N.eqb_eq in Eij; subst j; exfalso; apply Hj; left; reflexivity|].
      apply F. intro X. apply Hj. right. exact X.
  - exists tbl. cbn [fst snd]. split; [reflexivity|]. split; [exact Htr | apply frame_refl].
Qed.

Lemma NoDup_app_disj {A} (l l' : list A) : NoDup (l ++ l') -> forall x, In x l -> ~ In x l'.
Proof.
  induction l as [|a l IH]; intros H x Hx; [destruct Hx|].
  cbn [app] in H. apply NoDup_cons_iff in H. destruct H as [Ha H]. destruct Hx as [->|Hx].
  - intro X. apply Ha. apply in_or_app. right. exact X.
  - apply IH; assumption.
Qed.

Lemma NoDup_app_l {A} (l l' : list A) : NoDup (l ++ l') -> NoDup l.
Proof.
  induction l as [|a l IH]; intro H; [constructor|]. cbn [app] in H. apply NoDup_cons_iff in H. destruct H as [Ha H].
  constructor; [intro X; apply Ha; apply in_or_app; left; exact X | apply IH; exact H].
Qed.
Lemma NoDup_app_r {A} (l l' : list A) : NoDup (l ++ l') -> NoDup l'.
Proof. induction l as [|a l IH]; intro H; [exact H|]. cbn [app] in H. apply NoDup_cons_iff in H. apply IH. tauto. Qed.

Lemma fheight_cons_le t r n : (fheight (t :: r) <= n)%nat -> (iheight t <= n)%nat /\ (fheight r <= n)%nat.
Proof. rewrite fheight_cons. lia. Qed.

(* the loop with first = false *)
Lemma loopA f : modeA f -> forall l tbl,
  Forall (trepr tbl) l -> NoDup (flat_map iids l) -> (fheight l <= f)%nat ->
  exists tbl', fp_loop (fix_pages f) false (map iid l) tbl = OOk (fst (fixF l), tbl') /\
               Forall (trepr tbl') (snd (fixF l)) /\ frame tbl tbl' (flat_map iids l).
Proof.
  intro HA. induction l as [|t rest IH]; intros tbl Htr Hnd Hh.
  - exists tbl. split; [reflexivity|]. split; [constructor | apply frame_refl].
  - destruct t as [i d ks]. inversion Htr as [|t0 l0 Ht Hrest]; subst t0 l0.
    cbn [flat_map] in Hnd.
    pose proof (NoDup_app_l _ _ Hnd) as Hnd_t. pose proof (NoDup_app_r _ _ Hnd) as Hnd_r.
    pose proof (NoDup_app_disj _ _ Hnd) as Hdisj.
    apply fheight_cons_le in Hh. destruct Hh as [Hht Hhr]. rewrite iheight_node in Hht.
    assert (Hg : exists bm, tbl_get tbl i = Some bm) by (inversion Ht; subst; eexists; eassumption).
    destruct Hg as [bm Hg].
    destruct (node_step f HA tbl i d ks bm Ht Hnd_t ltac:(lia) Hg) as [tbl1 [E1 [Ht1 F1]]].
    pose proof (fixnode_shape (INode i d ks)) as [_ [Sids _]].
    cbn [map iid fp_loop fixF]. rewrite Hg. cbv zeta. rewrite E1.
    destruct (fixnode (INode i d ks)) as [pg t1]. cbn [fst snd] in *.
    cbn [negb andb].
    destruct (negb (fst pg =? 0)).
    + exists tbl1. cbn [fst snd]. split; [reflexivity|]. split.
      * constructor; [exact Ht1|].
        apply (Forall_trepr_frame_out tbl tbl1 _ rest Hrest F1).
        intros j Hj X. exact (Hdisj j X Hj).
      * intros j Hj. apply F1. intro X. apply Hj. cbn [flat_map]. apply in_or_app. left. exact X.
    + assert (Hrest1 : Forall (trepr tbl1) rest).
      { apply (Forall_trepr_frame_out tbl tbl1 _ rest Hrest F1). intros j Hj X. exact (Hdisj j X Hj). }
      destruct (IH tbl1 Hrest1 Hnd_r Hhr) as [tbl2 [E2 [Hr2 F2]]]. rewrite E2.
      destruct (fixF rest) as [p rest']. cbn [fst snd] in *.
      exists tbl2. split; [reflexivity|]. split.
      * constructor; [|exact Hr2].
        apply (trepr_frame_out tbl1 tbl2 _ t1 Ht1 F2). intros j Hj X. rewrite Sids in Hj. exact (Hdisj j Hj X).
      * apply (frame_trans tbl tbl1 tbl2 _ _ _ F1 F2); intros j Hj; cbn [flat_map]; apply in_or_app; [left | right]; exact Hj.
Qed.

(* the loop with first = true *)
Lemma loopB f : modeA f -> modeB f -> forall l tbl,
  Forall (trepr tbl) l -> NoDup (flat_map iids l) -> (fheight l <= f)%nat ->
  exists p tbl', fp_loop (fix_pages f) true (map iid l) tbl = OOk (p, tbl') /\
                 Forall (trepr tbl') (map fix_tree l) /\ frame tbl tbl' (flat_map iids l).
Proof.
  intros HA HB. induction l as [|t rest IH]; intros tbl Htr Hnd Hh.
  - exists (0, 0), tbl. split; [reflexivity|]. split; [constructor | apply frame_refl].
  - destruct t as [i d ks]. inversion Htr as [|t0 l0 Ht Hrest]; subst t0 l0.
    cbn [flat_map] in Hnd.
    pose proof (NoDup_app_l _ _ Hnd) as Hnd_t. pose proof (NoDup_app_r _ _ Hnd) as Hnd_r.
    pose proof (NoDup_app_disj _ _ Hnd) as Hdisj.
    apply fheight_cons_le in Hh. destruct Hh as [Hht Hhr]. rewrite iheight_node in Hht.
    assert (Hg : exists bm, tbl_get tbl i = Some bm /\ bm_children bm = map iid ks)
      by (inversion Ht; subst; eexists; split; eassumption).
    destruct Hg as [bm [Hg Hch]].
    destruct (node_step f HA tbl i d ks bm Ht Hnd_t ltac:(lia) Hg) as [tbl1 [E1 [Ht1 F1]]].
    pose proof (fixnode_shape (INode i d ks)) as [Sid [Sids Sh]].
    pose proof (fixnode_spec (INode i d ks)) as [_ [Sfix Seff]].
    pose proof (fixnode_root (INode i d ks)) as Sroot.
    pose proof (fixnode_kids (INode i d ks)) as Hmi.
    cbn [map iid fp_loop]. rewrite Hg. cbv zeta. rewrite E1.
    destruct (fixnode (INode i d ks)) as [pg [i1 d1 ks1]]. cbn [fst snd] in *.
    cbn [iid] in Sid. subst i1. cbn [negb andb].
    rewrite iheight_node, iheight_node in Sh. cbn [iids] in Sids, Hnd_t.
    assert (Sk : flat_map iids ks1 = flat_map iids ks) by (injection Sids; auto).
    apply NoDup_cons_iff in Hnd_t. destruct Hnd_t as [Hi Hnd_k].
    inversion Ht1 as [i0 d0 ks0 bm1 Hg1 T1 T2 T3 T4 Hch1 Hks1]; subst i0 d0 ks0.
    (* the children, with first = true *)
    assert (Hkids : exists tbl2,
              (if nonempty (bm_children bm) then
                 match fix_pages f tbl1 (bm_children bm) true with
                 | OOk (_, tbl2) => fp_loop (fix_pages f) true (map iid rest) tbl2
                 | OPanic => OPanic
                 | OFuel => OFuel
                 end
               else fp_loop (fix_pages f) true (map iid rest) tbl1)
              = fp_loop (fix_pages f) true (map iid rest) tbl2 /\
              Forall (trepr tbl2) (map fix_tree ks1) /\ frame tbl1 tbl2 (flat_map iids ks1)).
    { cbn [ikids] in Hmi. rewrite Hch. destruct ks as [|k0 ks0].
      - destruct ks1; [|discriminate]. exists tbl1. split; [reflexivity|]. split; [constructor | apply frame_refl].
      - cbn [nonempty map]. change (iid k0 :: map iid ks0) with (map iid (k0 :: ks0)). rewrite <- Hmi.
        destruct (HB ks1 tbl1 Hks1 ltac:(rewrite Sk; exact Hnd_k) ltac:(lia)) as [p2 [tbl2 [E2 [H2 F2]]]].
        rewrite E2. exists tbl2. split; [reflexivity|]. split; assumption. }
    destruct Hkids as [tbl2 [E2 [Hk2 F2]]]. rewrite E2.
    (* the node itself is final now *)
    assert (Ht2 : trepr tbl2 (fix_tree (INode i d ks))).
    { rewrite <- Sfix, fix_tree_eq, Seff, <- Sroot, with_page_same.
      apply (TR tbl2 i d1 (map fix_tree ks1) bm1); try assumption.
      - rewrite (F2 i); [exact Hg1|]. rewrite Sk. exact Hi.
      - rewrite map_iid_fix_tree. exact Hch1. }
    assert (F12 : frame tbl tbl2 (iids (INode i d ks))).
    { apply (frame_trans tbl tbl1 tbl2 _ _ _ F1 F2); intros j Hj; [exact Hj|].
      cbn [iids]. right. rewrite <- Sk. exact Hj. }
    assert (Hrest2 : Forall (trepr tbl2) rest).
    { apply (Forall_trepr_frame_out tbl tbl2 _ rest Hrest F12). intros j Hj X. exact (Hdisj j X Hj). }
    destruct (IH tbl2 Hrest2 Hnd_r Hhr) as [p3 [tbl3 [E3 [Hr3 F3]]]]. rewrite E3.
    exists p3, tbl3. split; [reflexivity|]. split.
    + cbn [map]. constructor; [|exact Hr3].
      apply (trepr_frame_out tbl2 tbl3 _ _ Ht2 F3). intros j Hj X.
      destruct (fix_tree_shape (INode i d ks)) as [_ Hs]. rewrite Hs in Hj. exact (Hdisj j Hj X).
    + apply (frame_trans tbl tbl2 tbl3 _ _ _ F12 F3); intros j Hj; cbn [flat_map]; apply in_or_app; [left | right]; exact Hj.
Qed.

Lemma modes : forall fuel, modeA fuel /\ modeB fuel.
Proof.
  induction fuel as [|f [HA HB]].
  - split; intros l tbl _ _ H; lia.
  - split; intros l tbl Htr Hnd Hh; rewrite fix_pages_S.
    + apply (loopA f HA); [assumption | assumption | lia].
    + apply (loopB f HA HB); [assumption | assumption | lia].
Qed.

(* adjust_zero_pages on a table holding the forest f (pairwise distinct ids) leaves a table holding
   [map fix_tree f]; roots, document and id counter are untouched; no panic; fuel > height suffices *)
Theorem adjust_zero_pages_ok b f fuel :
  bookmarks b = map iid f ->
  Forall (trepr (bookmark_table b)) f ->
  NoDup (flat_map iids f) ->
  (fheight f < fuel)%nat ->
  exists b',
    adjust_zero_pages fuel b = OOk b' /\
    base b' = base b /\ bookmarks b' = bookmarks b /\ max_bookmark_id b' = max_bookmark_id b /\
    Forall (trepr (bookmark_table b')) (map fix_tree f) /\
    frame (bookmark_table b) (bookmark_table b') (flat_map iids f).
Proof.
  intros Hroots Htr Hnd Hh. destruct (modes fuel) as [_ HB].
  destruct (HB f (bookmark_table b) Htr Hnd Hh) as [p [tbl' [E [H F]]]].
  unfold adjust_zero_pages. rewrite Hroots, E.
  exists (with_table b tbl'). repeat split; try reflexivity; assumption.
Qed.

(* the adjusted forest: same ids, same shape, same titles *)
Lemma fix_tree_height : forall t, iheight (fix_tree t) = iheight t.
Proof.
  apply itree_ind'. intros i d ks IH. rewrite fix_tree_eq, !iheight_node. f_equal.
  induction IH as [|k r Hk _ IHr]; [reflexivity|]. cbn [map]. rewrite !fheight_cons. congruence.
Qed.
Lemma fheight_fix l : fheight (map fix_tree l) = fheight l.
Proof. induction l as [|t l IH]; [reflexivity|]. cbn [map]. rewrite !fheight_cons, fix_tree_height. congruence. Qed.

Lemma fix_tree_size : forall t, isize (fix_tree t) = isize t.
Proof.
  apply itree_ind'. intros i d ks IH. rewrite fix_tree_eq. cbn [isize]. f_equal.
  induction IH as [|k r Hk _ IHr]; [reflexivity|]. cbn [map fold_right]. congruence.
Qed.
Lemma fsize_fix l : fsize (map fix_tree l) = fsize l.
Proof. induction l as [|t l IH]; [reflexivity|]. unfold fsize in *. cbn [map fold_right]. rewrite fix_tree_size. congruence. Qed.

Lemma rows_fix_titles : forall t level,
  map (fun r : N * ustring * oid => (fst (fst r), snd (fst r))) (rows level (fix_tree t))
  = map (fun r : N * ustring * oid => (fst (fst r), snd (fst r))) (rows level t).
Proof.
  apply (itree_ind' (fun t => forall level, map _ (rows level (fix_tree t)) = map _ (rows level t))).
  intros i d ks IH level. rewrite fix_tree_eq. cbn [rows map fst snd with_page b_title]. f_equal.
  induction IH as [|k r Hk _ IHr]; [reflexivity|]. cbn [map flat_map]. rewrite !map_app, Hk, IHr. reflexivity.
Qed.
