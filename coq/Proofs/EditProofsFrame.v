(* EditProofsFrame.v -- C11, part 9: frames of the content operations and of the remaining non-deleting operations, on
   EVERY object graph ("no operation other than an explicit deletion removes or alters an object reachable from the trailer":
   here -- removes NO object at all, and alters at most the one it is aimed at).
   * add_page_contents / add_to_page_content / change_page_content ([content_frame]): trailer unchanged, the cursor stays or
     moves by one, no object is removed, the only object that can appear is the fresh stream at max_id + 1, and at most ONE
     existing object differs afterwards (the page dictionary whose Contents entry is set, or the stream rewritten in place);
   * remove_object (annotation), compress, decompress, get_or_create_resources, get_page_content ([keeps_objects]): trailer
     and cursor unchanged, the set of object ids unchanged; remove_object / get_or_create_resources change dictionaries
     only, compress / decompress change streams only (every other object is identical afterwards). *)
From LV Require Import Base.Bytes Model.Obj Model.DocQ Model.PageTree Model.Traverse Model.Edit Model.StreamFilt
  Model.Writer Gen.Consts Spec.RenumberSpec Proofs.RenumberProofsMap Proofs.EditProofs Proofs.EditProofsRes.

Definition fresh_id (d : doc) : oid := ((d_max_id d + 1)%N, 0%N).

Definition content_frame (d d' : doc) : Prop :=
  d_trailer d' = d_trailer d /\
  (d_max_id d' = d_max_id d \/ d_max_id d' = (d_max_id d + 1)%N) /\
  (forall y, has_obj (d_objects d) y -> has_obj (d_objects d') y) /\
  (forall y, has_obj (d_objects d') y -> has_obj (d_objects d) y \/ y = fresh_id d) /\
  exists t, forall y, y <> fresh_id d -> y <> t -> lookup (d_objects d') y = lookup (d_objects d) y.

Lemma content_frame_refl d : content_frame d d.
Proof.
  split; [reflexivity|]. split; [left; reflexivity|]. split; [auto|]. split; [auto|]. exists (fresh_id d). reflexivity.
Qed.

Lemma ccs_content_frame O d id c : content_frame d (change_content_stream O d id c).
Proof.
  unfold change_content_stream. destruct (lookup (d_objects d) id) as [[| | | | | | | |sd c0|]|]; try apply content_frame_refl.
  split; [reflexivity|]. split; [left; reflexivity|]. cbn [d_objects with_objs]. unfold has_obj. rewrite keys_update.
  split; [auto|]. split; [auto|]. exists id. intros y _ Hy. rewrite lookup_update.
  replace (oid_eqb id y) with false; [reflexivity|]. symmetry. apply oid_eqb_neq. congruence.
Qed.

(* add_object followed by set_page_entry (or by nothing) *)
Lemma add_then_set_frame d o d1 nid page k v :
  add_object d o = Some (d1, nid) ->
  content_frame d d1 /\
  forall m2, set_page_entry (d_objects d1) page k v = Some m2 -> content_frame d (with_objs d1 m2).
Proof.
  intro E. apply add_object_spec in E. destruct E as [Ei [E1 [E2 E3]]].
  assert (Hn : nid = fresh_id d) by exact Ei.
  assert (K1 : forall y, has_obj (d_objects d1) y <-> y = nid \/ has_obj (d_objects d) y).
  { intro y. unfold has_obj. rewrite E2. apply keys_insert. }
  assert (L1 : forall y, y <> nid -> lookup (d_objects d1) y = lookup (d_objects d) y).
  { intros y Hy. rewrite E2, lookup_insert. replace (oid_eqb nid y) with false; [reflexivity|].
    symmetry. apply oid_eqb_neq. congruence. }
  split.
  - split; [exact E3|]. split; [right; exact E1|]. split; [intros y Hy; apply K1; right; exact Hy|].
    split; [intros y Hy; apply K1 in Hy; rewrite <- Hn; tauto|].
    exists nid. intros y Hy _. rewrite <- Hn in Hy. apply L1. exact Hy.
  - intros m2 Es. pose proof (set_page_entry_keys _ _ _ _ _ Es) as K2.
    unfold set_page_entry in Es. destruct (get_object_mut_id (d_objects d1) page) as [t|]; [|discriminate].
    destruct (lookup (d_objects d1) t) as [[| | | | | | |td| |]|]; try discriminate. inversion Es; subst m2. clear Es.
    split; [exact E3|]. split; [right; exact E1|]. cbn [d_objects with_objs]. unfold has_obj in *. rewrite K2.
    split; [intros y Hy; apply K1; right; exact Hy|].
    split; [intros y Hy; apply K1 in Hy; rewrite <- Hn; tauto|].
    exists t. intros y Hy Ht. rewrite lookup_update.
    replace (oid_eqb t y) with false by (symmetry; apply oid_eqb_neq; congruence).
    rewrite <- Hn in Hy. apply L1. exact Hy.
Qed.

Theorem add_page_contents_frame d page c d' r : add_page_contents d page c = (d', r) -> content_frame d d'.
Proof.
  unfold add_page_contents. destruct (get_dictionary (d_objects d) page) as [pd|]; [|intro H; inversion H; apply content_frame_refl].
  destruct (add_object d (new_stream c)) as [[d1 nid]|] eqn:E; [|intro H; inversion H; apply content_frame_refl].
  match goal with |- context [set_page_entry ?m ?p ?k ?v] =>
    destruct (add_then_set_frame d _ d1 nid p k v E) as [F1 F2]; destruct (set_page_entry m p k v) as [m2|] end;
    intro H; inversion H; subst; [apply F2; reflexivity | exact F1].
Qed.

Lemma replace_page_content_frame d page c d' r : replace_page_content d page c = (d', r) -> content_frame d d'.
Proof.
  unfold replace_page_content.
  destruct (add_object d (new_stream c)) as [[d1 nid]|] eqn:E; [|intro H; inversion H; apply content_frame_refl].
  destruct (add_then_set_frame d _ d1 nid page K_Contents (ORef (fst nid) (snd nid)) E) as [F1 F2].
  destruct (set_page_entry _ _ _ _) as [m2|]; intro H; inversion H; subst; [apply F2; reflexivity | exact F1].
Qed.

Theorem change_page_content_frame O d page c d' r : change_page_content O d page c = (d', r) -> content_frame d d'.
Proof.
  unfold change_page_content. destruct (get_dictionary (d_objects d) page) as [pd|]; [|intro H; inversion H; apply content_frame_refl].
  destruct (dict_get pd K_Contents) as [x|]; [|intro H; inversion H; apply content_frame_refl].
  destruct (single_stream (d_objects d) x) as [id|]; [|apply replace_page_content_frame].
  destruct (is_content_stream_of_another_page d id page); [apply replace_page_content_frame|].
  intro H; inversion H; subst. apply ccs_content_frame.
Qed.

(* ---------- operations that keep the set of objects ---------- *)
Definition is_dict (o : option obj) : Prop := match o with Some (ODict _) => True | _ => False end.
Definition is_stream (o : option obj) : Prop := match o with Some (OStream _ _) => True | _ => False end.

(* trailer, cursor and ids unchanged; an object that differs afterwards satisfies P before and after *)
Definition keeps_objects (P : option obj -> Prop) (d d' : doc) : Prop :=
  d_trailer d' = d_trailer d /\ d_max_id d' = d_max_id d /\ map fst (d_objects d') = map fst (d_objects d) /\
  forall y, lookup (d_objects d') y = lookup (d_objects d) y \/ (P (lookup (d_objects d) y) /\ P (lookup (d_objects d') y)).

Lemma keeps_refl P d : keeps_objects P d d.
Proof. repeat split. intro y. left. reflexivity. Qed.

Lemma remove_annot_loop_dicts target : forall pages m m' ok,
  remove_annot_loop target pages m = (m', ok) ->
  forall y, lookup m' y = lookup m y \/ (is_dict (lookup m y) /\ is_dict (lookup m' y)).
Proof.
  induction pages as [|p ps IH]; intros m m' ok H y; cbn [remove_annot_loop] in H.
  - inversion H; subst. left. reflexivity.
  - destruct (get_object_mut_id m p) as [t|]; [|inversion H; subst; left; reflexivity].
    destruct (lookup m t) as [[| | | | | | |pd| |]|] eqn:Lt; try (inversion H; subst; left; reflexivity).
    destruct (dict_get pd K_Annots) as [[| | | | | |l| | |]|]; try (inversion H; subst; left; reflexivity).
    specialize (IH _ _ _ H y). rewrite lookup_update in IH. destruct (oid_eqb t y) eqn:E.
    + apply oid_eqb_eq in E. subst y. rewrite Lt in *. right. split; [exact I|].
      destruct IH as [->|[_ IH]]; [exact I | exact IH].
    + exact IH.
Qed.

Theorem remove_annot_frame d target d' ok : remove_annot d target = (d', ok) -> keeps_objects is_dict d d'.
Proof.
  unfold remove_annot. destruct (remove_annot_loop _ _ _) as [m ok0] eqn:E. intro H; inversion H; subst.
  split; [reflexivity|]. split; [reflexivity|]. cbn [d_objects with_objs].
  split; [eapply remove_annot_loop_keys; exact E | eapply remove_annot_loop_dicts; exact E].
Qed.

Lemma gocr_keeps d page d' loc : get_or_create_resources d page = (d', loc) -> keeps_objects is_dict d d'.
Proof.
  unfold get_or_create_resources. destruct (get_object (d_objects d) page) as [[| | | | | | |pd| |]|];
    try (intro H; inversion H; apply keeps_refl).
  destruct (if dict_has pd K_Resources then as_ref (dict_get pd K_Resources) else None); [intro H; inversion H; apply keeps_refl|].
  destruct (get_object_mut_id (d_objects d) page) as [t|]; [|intro H; inversion H; apply keeps_refl].
  destruct (lookup (d_objects d) t) as [[| | | | | | |td| |]|] eqn:Lt; try (intro H; inversion H; apply keeps_refl).
  intro H; inversion H; subst. split; [reflexivity|]. split; [reflexivity|]. cbn [d_objects with_objs].
  split; [apply keys_update|]. intro y. rewrite lookup_update. destruct (oid_eqb t y) eqn:E; [|left; reflexivity].
  apply oid_eqb_eq in E. subst y. rewrite Lt. right. split; exact I.
Qed.

Lemma decompress_objs_streams O : forall m m' ok, decompress_objs O m = (m', ok) ->
  forall y, lookup m' y = lookup m y \/ (is_stream (lookup m y) /\ is_stream (lookup m' y)).
Proof.
  induction m as [|[i o] m IH]; intros m' ok H y; cbn [decompress_objs] in H; [inversion H; subst; left; reflexivity|].
  cbn [snd fst] in H.
  assert (Keep : forall r ok1, decompress_objs O m = (r, ok1) ->
                  lookup ((i, o) :: r) y = lookup ((i, o) :: m) y \/
                  (is_stream (lookup ((i, o) :: m) y) /\ is_stream (lookup ((i, o) :: r) y))).
  { intros r ok1 Hr. cbn [lookup]. destruct (oid_eqb i y); [left; reflexivity | exact (IH _ _ Hr y)]. }
  destruct o as [| | | | | | | |sd c|]; try (destruct (decompress_objs O m) as [rr ok1] eqn:Er; inversion H; subst; exact (Keep _ _ eq_refl)).
  destruct (StreamFilt.decompress (o_inflate O) (o_lzw O) {| s_dict := sd; s_content := c |}) as [s|e| |].
  - destruct (decompress_objs O m) as [rr ok1] eqn:Er; inversion H; subst.
    cbn [lookup fst]. destruct (oid_eqb i y); [right; split; exact I | exact (IH _ _ eq_refl y)].
  - destruct (decompress_objs O m) as [rr ok1] eqn:Er; inversion H; subst. exact (Keep _ _ eq_refl).
  - inversion H; subst. left. reflexivity.
  - inversion H; subst. left. reflexivity.
Qed.

Theorem decompress_frame O d m ok :
  decompress_objs O (d_objects d) = (m, ok) -> keeps_objects is_stream d (with_objs d m).
Proof.
  intro E. split; [reflexivity|]. split; [reflexivity|]. cbn [d_objects with_objs].
  split; [eapply decompress_objs_keys; exact E | eapply decompress_objs_streams; exact E].
Qed.

Lemma doc_compress_streams df nc : forall m y,
  lookup (StreamFilt.doc_compress df nc m) y = lookup m y \/
  (is_stream (lookup m y) /\ is_stream (lookup (StreamFilt.doc_compress df nc m) y)).
Proof.
  induction m as [|[i o] m IH]; intro y; [left; reflexivity|].
  unfold StreamFilt.doc_compress. cbn [map snd fst]. fold (StreamFilt.doc_compress df nc m).
  destruct o as [| | | | | | | |sd c|]; try (cbn [lookup]; destruct (oid_eqb i y); [left; reflexivity | apply IH]).
  destruct (existsb (oid_eqb i) nc); cbn [lookup]; (destruct (oid_eqb i y); [|apply IH]).
  - left. reflexivity.
  - right. split; exact I.
Qed.

Theorem compress_frame O d : keeps_objects is_stream d (compress_all O d).
Proof.
  unfold compress_all. split; [reflexivity|]. split; [reflexivity|]. cbn [d_objects with_objs].
  split; [apply doc_compress_keys | apply doc_compress_streams].
Qed.

(* one statement for the five operations: which kind of object may differ *)
Definition keeps_kind (o : op) : option (option obj -> Prop) :=
  match o with
  | RemoveAnnot _ | GetOrCreateResources _ => Some is_dict
  | Compress | Decompress => Some is_stream
  | GetPageContent _ => Some (fun _ => False)
  | _ => None
  end.

Theorem keeps_frame O d o P : keeps_kind o = Some P -> keeps_objects P d (fst (step O d o)).
Proof.
  destruct o; cbn [keeps_kind]; try discriminate; intro H; inversion H; subst; cbn [step].
  - destruct (remove_annot d id) as [d' ok] eqn:E. cbn [fst]. eapply remove_annot_frame; exact E.
  - cbn [fst]. apply compress_frame.
  - destruct (decompress_objs O (d_objects d)) as [m ok] eqn:E. cbn [fst]. eapply decompress_frame; exact E.
  - destruct (get_or_create_resources d page) as [d' loc] eqn:E. cbn [fst]. eapply gocr_keeps; exact E.
  - cbn [fst]. apply keeps_refl.
Qed.

(* ... and for the three content operations *)
Definition is_content_op (o : op) : bool :=
  match o with ChangeContentStream _ _ | ChangePageContent _ _ | AddPageContents _ _ | AddToPageContent _ _ => true | _ => false end.

Theorem content_ops_frame O d o : is_content_op o = true -> content_frame d (fst (step O d o)).
Proof.
  destruct o; cbn [is_content_op]; try discriminate; intros _; cbn [step].
  - cbn [fst]. apply ccs_content_frame.
  - destruct (change_page_content O d page c) as [d' r] eqn:E. cbn [fst]. eapply change_page_content_frame; exact E.
  - destruct (add_page_contents d page c) as [d' r] eqn:E. cbn [fst]. eapply add_page_contents_frame; exact E.
  - unfold add_to_page_content. destruct (add_page_contents d page (encode_content ops)) as [d' r] eqn:E. cbn [fst].
    eapply add_page_contents_frame; exact E.
Qed.
