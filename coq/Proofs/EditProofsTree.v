(* EditProofsTree.v -- C11, part 8 (I_count, tree level), first half: the combinatorics.
   * what [strip p] does to a dictionary with unique keys ([sd]): every entry that is not a reference to p is kept, its
     value stripped;
   * [prune p t] on C12's trees: leaves / ids of the result, height;
   * [chain p t]: the nodes above the leaf p, nearest first -- the order count_loop meets them in -- and [marks]: a node is
     on the chain iff p is a leaf below it;
   * [chain_anc]: in a map that holds the Count / Parent bookkeeping of t, the Parent chain of p IS [chain p t];
   * [prune_page_tree]: a map that holds every remaining node of t stripped of p, with Count - 1 exactly on the chain, holds
     [prune p t] with exact Counts. *)
From LV Require Import Base.Bytes Model.Obj Model.DocQ Model.PageTree Model.Traverse Model.Edit
  Spec.Dfs Spec.RenumberSpec Spec.PageTreeEdit
  Proofs.RenumberProofsMap Proofs.PageTreeProofs Proofs.EditProofs Proofs.EditProofsTrav Proofs.EditProofsDelete
  Proofs.EditProofsCount Proofs.FilterProofsDict.

Local Open Scope nat_scope.

(* ---------- lists ---------- *)
Lemma nodup_app {A} (a b : list A) :
  NoDup (a ++ b) <-> NoDup a /\ NoDup b /\ (forall x, In x a -> In x b -> False).
Proof.
  induction a as [|y a IH]; cbn [app].
  - split; [intro H; split; [constructor|split; [exact H|intros x []]] | intros [_ [H _]]; exact H].
  - split.
    + intro H. inversion H as [|? ? Hn Hd]; subst. apply IH in Hd. destruct Hd as [Ha [Hb Hx]].
      split; [constructor; [intro Hy; apply Hn; apply in_app_iff; left; exact Hy | exact Ha]|].
      split; [exact Hb|]. intros x [->|Hx1] Hx2; [apply Hn; apply in_app_iff; right; exact Hx2 | eauto].
    + intros [Ha [Hb Hx]]. inversion Ha as [|? ? Hn Hd]; subst. constructor.
      * intro Hy. apply in_app_iff in Hy. destruct Hy as [Hy|Hy]; [exact (Hn Hy) | exact (Hx y (or_introl eq_refl) Hy)].
      * apply IH. split; [exact Hd|]. split; [exact Hb|]. intros x H1 H2. exact (Hx x (or_intror H1) H2).
Qed.

Definition without (p : oid) (l : list oid) : list oid := filter (fun x => negb (oid_eqb x p)) l.

Lemma without_app p a b : without p (a ++ b) = without p a ++ without p b.
Proof. apply filter_app. Qed.

Lemma without_In p l x : In x (without p l) <-> In x l /\ x <> p.
Proof.
  unfold without. rewrite filter_In. rewrite negb_true_iff, oid_eqb_neq. tauto.
Qed.

Lemma without_notin p l : ~ In p l -> without p l = l.
Proof.
  induction l as [|x l IH]; cbn [without filter]; intro H; [reflexivity|].
  replace (oid_eqb x p) with false by (symmetry; apply oid_eqb_neq; intro; subst; apply H; left; reflexivity).
  cbn [negb]. f_equal. apply IH. intro Hi. apply H. right. exact Hi.
Qed.

Lemma without_length p l : NoDup l -> In p l -> S (length (without p l)) = length l.
Proof.
  induction l as [|x l IH]; intros ND Hin; [destruct Hin|]. inversion ND as [|? ? Hn Hd]; subst.
  cbn [without filter]. destruct (oid_eqb x p) eqn:E; cbn [negb length].
  - apply oid_eqb_eq in E. subst x. fold (without p l). rewrite without_notin by exact Hn. reflexivity.
  - fold (without p l). f_equal. apply IH; [exact Hd|]. destruct Hin as [->|Hin]; [|exact Hin].
    rewrite oid_eqb_refl in E. discriminate.
Qed.

Lemma without_nodup p l : NoDup l -> NoDup (without p l).
Proof. apply NoDup_filter. Qed.

(* ---------- strip on a dictionary with unique keys ---------- *)
Definition sd (p : oid) (d : dict) : dict := remove_keys (ref_keys p d) (strip_values p d).

Lemma strip_dict_sd p d : strip p (ODict d) = ODict (sd p d).
Proof. apply strip_dict. Qed.

Lemma keys_strip_values p d : keys (strip_values p d) = keys d.
Proof. unfold keys, strip_values. rewrite map_map. reflexivity. Qed.

Lemma get_strip_values p d k : dict_get (strip_values p d) k = option_map (strip p) (dict_get d k).
Proof.
  induction d as [|[k' v] d IH]; cbn [strip_values map dict_get fst snd]; [reflexivity|].
  destruct (bytes_eqb k' k); [reflexivity | exact IH].
Qed.

Lemma remove_keys_wf ks : forall d, dict_wf d -> dict_wf (remove_keys ks d).
Proof.
  unfold remove_keys. induction ks as [|k ks IH]; intros d W; cbn [fold_left]; [exact W|].
  apply IH. apply swap_remove_wf. exact W.
Qed.

Lemma get_remove_keys ks : forall d k, dict_wf d -> ~ In k ks -> dict_get (remove_keys ks d) k = dict_get d k.
Proof.
  unfold remove_keys. induction ks as [|k0 ks IH]; intros d k W H; cbn [fold_left]; [reflexivity|].
  rewrite IH; [|apply swap_remove_wf; exact W | intro Hi; apply H; right; exact Hi].
  apply dict_get_swap_remove_other; [exact W|]. intro E. apply H. left. symmetry. exact E.
Qed.

Lemma ref_keys_in p d k : In k (ref_keys p d) -> exists v, In (k, v) d /\ is_ref_to p v = true.
Proof.
  unfold ref_keys. intro H. apply in_map_iff in H. destruct H as [[k' v] [E H]]. cbn [fst] in E. subst k'.
  apply filter_In in H. destruct H as [H1 H2]. exists v. split; assumption.
Qed.

Lemma sd_wf p d : dict_wf d -> dict_wf (sd p d).
Proof. intro W. apply remove_keys_wf. unfold dict_wf. rewrite keys_strip_values. exact W. Qed.

Lemma sd_get p d k v :
  dict_wf d -> dict_get d k = Some v -> is_ref_to p v = false -> dict_get (sd p d) k = Some (strip p v).
Proof.
  intros W G R. unfold sd. rewrite get_remove_keys.
  - rewrite get_strip_values, G. reflexivity.
  - unfold dict_wf. rewrite keys_strip_values. exact W.
  - intro H. apply ref_keys_in in H. destruct H as [v' [Hin Hr]].
    apply (dict_get_In d k v' W) in Hin. rewrite G in Hin. inversion Hin; subst. congruence.
Qed.

Lemma sd_get_none p d k : dict_wf d -> dict_get d k = None -> dict_get (sd p d) k = None.
Proof.
  intros W G. unfold sd. rewrite get_remove_keys.
  - rewrite get_strip_values, G. reflexivity.
  - unfold dict_wf. rewrite keys_strip_values. exact W.
  - intro H. apply ref_keys_in in H. destruct H as [v' [Hin _]].
    apply (dict_get_In d k v' W) in Hin. congruence.
Qed.

Lemma parent_ref_as_ref o : parent_ref o = as_ref o.
Proof. reflexivity. Qed.

Lemma sd_parent p d :
  dict_wf d -> as_ref (dict_get d K_Parent) <> Some p ->
  as_ref (dict_get (sd p d) K_Parent) = as_ref (dict_get d K_Parent).
Proof.
  intros W H. destruct (dict_get d K_Parent) as [v|] eqn:G.
  - assert (R : is_ref_to p v = false).
    { destruct v; try reflexivity. cbn [is_ref_to]. apply oid_eqb_neq. intro E. apply H. rewrite <- E. reflexivity. }
    rewrite (sd_get p d K_Parent v W G R).
    destruct v; try reflexivity. cbn [is_ref_to] in R. cbn [strip]. rewrite R. reflexivity.
  - rewrite (sd_get_none p d K_Parent W G). reflexivity.
Qed.

(* a name or an integer is kept as it is *)
Lemma sd_get_name p d k n : dict_wf d -> dict_get d k = Some (OName n) -> dict_get (sd p d) k = Some (OName n).
Proof. intros W G. rewrite (sd_get p d k (OName n) W G eq_refl). reflexivity. Qed.

Lemma sd_get_int p d k z : dict_wf d -> dict_get d k = Some (OInt z) -> dict_get (sd p d) k = Some (OInt z).
Proof. intros W G. rewrite (sd_get p d k (OInt z) W G eq_refl). reflexivity. Qed.

(* ---------- trees: induction over a tree and its forests at once ---------- *)
Lemma ptree_forest_ind (P : ptree -> Prop) (Q : list ptree -> Prop) :
  (forall i, P (PLeaf i)) -> (forall i ks, Q ks -> P (PNode i ks)) ->
  Q [] -> (forall k ks, P k -> Q ks -> Q (k :: ks)) ->
  (forall t, P t) /\ (forall f, Q f).
Proof.
  intros Hl Hn Q0 Qc.
  assert (HP : forall t, P t).
  { fix F 1. intros [i|i ks]; [apply Hl|]. apply Hn.
    induction ks as [|k ks IH]; [exact Q0|]. apply Qc; [apply F | exact IH]. }
  split; [exact HP|]. induction f as [|k f IH]; [exact Q0 | apply Qc; auto].
Qed.

Fixpoint nodes (t : ptree) : list oid :=
  match t with PLeaf _ => [] | PNode i ks => i :: flat_map nodes ks end.

(* the nodes above the leaf p, nearest first *)
Fixpoint chain (p : oid) (t : ptree) : list oid :=
  match t with
  | PLeaf _ => []
  | PNode i ks => if mem_oid p (flat_map leaves ks) then flat_map (chain p) ks ++ [i] else []
  end.

Definition pkids (p : oid) (ks : list ptree) : list ptree :=
  flat_map (fun k => if oid_eqb (root_id k) p then [] else [prune p k]) ks.

Lemma prune_node p i ks : prune p (PNode i ks) = PNode i (pkids p ks).
Proof. reflexivity. Qed.

Lemma pkids_cons p k ks :
  pkids p (k :: ks) = (if oid_eqb (root_id k) p then [] else [prune p k]) ++ pkids p ks.
Proof. reflexivity. Qed.

Lemma root_id_prune p t : root_id (prune p t) = root_id t.
Proof. destruct t; reflexivity. Qed.

Lemma leaves_ids :
  (forall t, incl (leaves t) (ids t)) /\ (forall f, incl (flat_map leaves f) (flat_map ids f)).
Proof.
  apply ptree_forest_ind.
  - intros i x H. exact H.
  - intros i ks Q x H. cbn [leaves] in H. cbn [ids]. right. apply Q. exact H.
  - intros x [].
  - intros k ks P Q x H. cbn [flat_map] in *. apply in_app_iff in H. apply in_app_iff.
    destruct H as [H|H]; [left; apply P; exact H | right; apply Q; exact H].
Qed.

Lemma nodes_ids :
  (forall t, incl (nodes t) (ids t)) /\ (forall f, incl (flat_map nodes f) (flat_map ids f)).
Proof.
  apply ptree_forest_ind.
  - intros i x [].
  - intros i ks Q x H. cbn [nodes] in H. cbn [ids]. destruct H as [H|H]; [left; exact H | right; apply Q; exact H].
  - intros x [].
  - intros k ks P Q x H. cbn [flat_map] in *. apply in_app_iff in H. apply in_app_iff.
    destruct H as [H|H]; [left; apply P; exact H | right; apply Q; exact H].
Qed.

Lemma chain_nil p t : ~ In p (leaves t) -> chain p t = [].
Proof.
  destruct t as [i|i ks]; [reflexivity|]. cbn [leaves chain]. intro H.
  apply mem_oid_nIn in H. rewrite H. reflexivity.
Qed.

Lemma chain_nil_forest p f : ~ In p (flat_map leaves f) -> flat_map (chain p) f = [].
Proof.
  induction f as [|k f IH]; cbn [flat_map]; intro H; [reflexivity|].
  rewrite in_app_iff in H. rewrite chain_nil by tauto. rewrite IH by tauto. reflexivity.
Qed.

Lemma chain_nodes p :
  (forall t, incl (chain p t) (nodes t)) /\ (forall f, incl (flat_map (chain p) f) (flat_map nodes f)).
Proof.
  apply ptree_forest_ind.
  - intros i x [].
  - intros i ks Q x H. cbn [chain] in H. cbn [nodes]. destruct (mem_oid p (flat_map leaves ks)); [|destruct H].
    apply in_app_iff in H. destruct H as [H|[<-|[]]]; [right; apply Q; exact H | left; reflexivity].
  - intros x [].
  - intros k ks P Q x H. cbn [flat_map] in *. apply in_app_iff in H. apply in_app_iff.
    destruct H as [H|H]; [left; apply P; exact H | right; apply Q; exact H].
Qed.

Lemma chain_ids p t x : In x (chain p t) -> In x (ids t).
Proof. intro H. apply (proj1 nodes_ids). apply (proj1 (chain_nodes p)). exact H. Qed.

Lemma chain_ids_forest p f x : In x (flat_map (chain p) f) -> In x (flat_map ids f).
Proof. intro H. apply (proj2 nodes_ids). apply (proj2 (chain_nodes p)). exact H. Qed.

(* a kid whose root is p, in a forest where p is not an intermediate node, is the leaf p *)
Lemma root_p_leaf p k : ~ In p (nodes k) -> root_id k = p -> k = PLeaf p.
Proof. destruct k as [i|i ks]; cbn [nodes root_id]; intros H E; [congruence|]. exfalso. apply H. left. exact E. Qed.

Lemma prune_leaves p :
  (forall t, ~ In p (nodes t) -> root_id t <> p -> leaves (prune p t) = without p (leaves t)) /\
  (forall f, ~ In p (flat_map nodes f) -> flat_map leaves (pkids p f) = without p (flat_map leaves f)).
Proof.
  apply ptree_forest_ind.
  - intros i _ H. cbn [prune leaves root_id] in *. rewrite without_notin; [reflexivity|].
    intros [E|[]]. congruence.
  - intros i ks Q H _. rewrite prune_node. cbn [leaves]. apply Q. intro Hi. apply H. right. exact Hi.
  - intros _. reflexivity.
  - intros k ks P Q H. cbn [flat_map] in H. rewrite in_app_iff in H. rewrite pkids_cons. cbn [flat_map].
    rewrite without_app, flat_map_app, Q by tauto. f_equal.
    destruct (oid_eqb (root_id k) p) eqn:E.
    + apply oid_eqb_eq in E. rewrite (root_p_leaf p k) by tauto. cbn [flat_map leaves without filter].
      rewrite oid_eqb_refl. reflexivity.
    + apply oid_eqb_neq in E. cbn [flat_map]. rewrite app_nil_r. apply P; tauto.
Qed.

Lemma prune_ids p :
  (forall t, ~ In p (nodes t) -> root_id t <> p -> ids (prune p t) = without p (ids t)) /\
  (forall f, ~ In p (flat_map nodes f) -> flat_map ids (pkids p f) = without p (flat_map ids f)).
Proof.
  apply ptree_forest_ind.
  - intros i _ H. cbn [prune ids root_id] in *. rewrite without_notin; [reflexivity|].
    intros [E|[]]. congruence.
  - intros i ks Q H Hr. rewrite prune_node. cbn [ids root_id] in *. cbn [without filter].
    replace (oid_eqb i p) with false by (symmetry; apply oid_eqb_neq; exact Hr). cbn [negb]. f_equal.
    apply Q. intro Hi. apply H. right. exact Hi.
  - intros _. reflexivity.
  - intros k ks P Q H. cbn [flat_map] in H. rewrite in_app_iff in H. rewrite pkids_cons. cbn [flat_map].
    rewrite without_app, flat_map_app, Q by tauto. f_equal.
    destruct (oid_eqb (root_id k) p) eqn:E.
    + apply oid_eqb_eq in E. rewrite (root_p_leaf p k) by tauto. cbn [flat_map ids without filter].
      rewrite oid_eqb_refl. reflexivity.
    + apply oid_eqb_neq in E. cbn [flat_map]. rewrite app_nil_r. apply P; tauto.
Qed.

Lemma prune_height p :
  (forall t, height (prune p t) <= height t) /\ (forall f, fheight (pkids p f) <= fheight f).
Proof.
  apply ptree_forest_ind.
  - intros i. apply le_n.
  - intros i ks Q. rewrite prune_node, !height_node. apply le_n_S. exact Q.
  - apply le_n.
  - intros k ks P Q. rewrite pkids_cons, fheight_cons.
    destruct (oid_eqb (root_id k) p); cbn [app]; [lia|]. rewrite fheight_cons. lia.
Qed.

Lemma chain_nodup p :
  (forall t, NoDup (ids t) -> NoDup (chain p t)) /\
  (forall f, NoDup (flat_map ids f) -> NoDup (flat_map (chain p) f)).
Proof.
  apply ptree_forest_ind.
  - intros i _. constructor.
  - intros i ks Q H. cbn [ids] in H. inversion H as [|? ? Hn Hd]; subst. cbn [chain].
    destruct (mem_oid p (flat_map leaves ks)); [|constructor].
    apply nodup_app. split; [apply Q; exact Hd|]. split; [constructor; [intros []|constructor]|].
    intros x H1 [<-|[]]. apply Hn. apply chain_ids_forest with p. exact H1.
  - intros _. constructor.
  - intros k ks P Q H. cbn [flat_map] in *. apply nodup_app in H. destruct H as [Ha [Hb Hx]].
    apply nodup_app. split; [apply P; exact Ha|]. split; [apply Q; exact Hb|].
    intros x H1 H2. apply (Hx x); [apply chain_ids with p; exact H1 | apply chain_ids_forest with p; exact H2].
Qed.

(* ---------- marks: a node is on the chain iff p is a leaf below it ---------- *)
Inductive marks (p : oid) (A : list oid) : ptree -> Prop :=
| MLeaf i : marks p A (PLeaf i)
| MNode i ks : (In i A <-> In p (flat_map leaves ks)) -> Forall (marks p A) ks -> marks p A (PNode i ks).

Lemma chain_marks p :
  (forall t A, NoDup (ids t) -> (forall x, In x (nodes t) -> (In x A <-> In x (chain p t))) -> marks p A t) /\
  (forall f A, NoDup (flat_map ids f) ->
     (forall x, In x (flat_map nodes f) -> (In x A <-> In x (flat_map (chain p) f))) -> Forall (marks p A) f).
Proof.
  apply ptree_forest_ind.
  - intros i A _ _. constructor.
  - intros i ks Q A H Hag. cbn [ids] in H. inversion H as [|? ? Hn Hd]; subst.
    assert (Hc : chain p (PNode i ks) = if mem_oid p (flat_map leaves ks) then flat_map (chain p) ks ++ [i] else [])
      by reflexivity.
    constructor.
    + rewrite (Hag i (or_introl eq_refl)), Hc. destruct (mem_oid p (flat_map leaves ks)) eqn:E.
      * apply mem_oid_In in E. rewrite in_app_iff. cbn [In]. tauto.
      * apply mem_oid_nIn in E. cbn [In]. tauto.
    + apply Q; [exact Hd|]. intros x Hx. rewrite (Hag x (or_intror Hx)), Hc.
      destruct (mem_oid p (flat_map leaves ks)) eqn:E.
      * rewrite in_app_iff. cbn [In]. split; [|tauto]. intros [H1|[<-|[]]]; [exact H1|].
        exfalso. apply Hn. apply (proj2 nodes_ids). exact Hx.
      * apply mem_oid_nIn in E. rewrite chain_nil_forest by exact E. tauto.
  - intros A _ _. constructor.
  - intros k ks P Q A H Hag. cbn [flat_map] in *. apply nodup_app in H. destruct H as [Ha [Hb Hx]]. constructor.
    + apply P; [exact Ha|]. intros x Hk. rewrite (Hag x) by (apply in_app_iff; left; exact Hk).
      rewrite in_app_iff. split; [|tauto]. intros [H1|H1]; [exact H1|]. exfalso.
      apply (Hx x); [apply (proj1 nodes_ids); exact Hk | apply chain_ids_forest with p; exact H1].
    + apply Q; [exact Hb|]. intros x Hk. rewrite (Hag x) by (apply in_app_iff; right; exact Hk).
      rewrite in_app_iff. split; [|tauto]. intros [H1|H1]; [|exact H1]. exfalso.
      apply (Hx x); [apply chain_ids with p; exact H1 | apply (proj2 nodes_ids); exact Hk].
Qed.

(* ---------- the Parent chain of p in a map that holds the bookkeeping of t ---------- *)
Inductive count_tree (m1 : objmap) (lp : oid -> option oid) : option oid -> ptree -> Prop :=
| CTLeaf par i : lp i = par -> count_tree m1 lp par (PLeaf i)
| CTNode par i d ks :
    lookup m1 i = Some (ODict d) -> count_of d = Some (Z.of_nat (length (flat_map leaves ks))) ->
    as_ref (dict_get d K_Parent) = par ->
    Forall (count_tree m1 lp (Some i)) ks ->
    count_tree m1 lp par (PNode i ks).

Lemma chain_anc m1 lp p :
  (forall t par above, count_tree m1 lp par t -> NoDup (leaves t) -> In p (leaves t) -> anc_chain m1 par above ->
     exists ancs, anc_chain m1 (lp p) (ancs ++ above) /\ map anc_id ancs = chain p t) /\
  (forall f par above, Forall (count_tree m1 lp par) f -> NoDup (flat_map leaves f) -> In p (flat_map leaves f) ->
     anc_chain m1 par above ->
     exists ancs, anc_chain m1 (lp p) (ancs ++ above) /\ map anc_id ancs = flat_map (chain p) f).
Proof.
  apply ptree_forest_ind.
  - intros i par above C _ [E|[]] An. subst i. inversion C; subst. exists []. split; [exact An | reflexivity].
  - intros i ks Q par above C ND Hin An. inversion C as [|? ? d ? L Hc Hp F]; subst.
    cbn [leaves] in ND, Hin.
    destruct (Q (Some i) ((i, d, count_of d) :: above) F ND Hin) as [ancs [A1 A2]].
    { apply ac_cons; [exact L | | | exact An].
      - intros i0 g0 E. rewrite (count_of_some _ _ Hc) in E. discriminate E.
      - rewrite Hc. unfold I64_MIN. intro E. inversion E. lia. }
    exists (ancs ++ [(i, d, count_of d)]). split.
    + rewrite <- app_assoc. exact A1.
    + rewrite map_app, A2. cbn [map anc_id fst chain]. apply mem_oid_In in Hin. rewrite Hin. reflexivity.
  - intros par above _ _ [].
  - intros k ks P Q par above F ND Hin An. inversion F as [|? ? Fk Fks]; subst.
    cbn [flat_map] in *. apply nodup_app in ND. destruct ND as [Na [Nb Nx]].
    destruct (in_dec oid_eq_dec p (leaves k)) as [Hk|Hk].
    + destruct (P par above Fk Na Hk An) as [ancs [A1 A2]]. exists ancs. split; [exact A1|].
      rewrite chain_nil_forest by (intro H; exact (Nx p Hk H)). rewrite app_nil_r. exact A2.
    + apply in_app_iff in Hin. destruct Hin as [Hin|Hin]; [contradiction|].
      destruct (Q par above Fks Nb Hin An) as [ancs [A1 A2]]. exists ancs. split; [exact A1|].
      rewrite chain_nil by exact Hk. exact A2.
Qed.

Lemma anc_chain_In m r l : anc_chain m r l ->
  forall id d c, In (id, d, c) l -> lookup m id = Some (ODict d) /\ c = count_of d.
Proof.
  induction 1 as [|id Hn|id d rest L Hd Hc C IH]; intros id0 d0 c0 Hin; try destruct Hin.
  - inversion H; subst. split; [exact L | reflexivity].
  - apply IH. exact H.
Qed.

(* ---------- the map after the deletion holds the pruned tree ---------- *)
Definition adj (b : bool) (d : dict) : dict :=
  if b then match count_of d with Some z => dict_set d K_Count (OInt (z - 1)) | None => d end else d.

Lemma adj_wf b d : dict_wf d -> dict_wf (adj b d).
Proof. intro W. unfold adj. destruct b; [|exact W]. destruct (count_of d); [apply dict_set_wf; exact W | exact W]. Qed.

Lemma adj_get_other b d k : k <> K_Count -> dict_get (adj b d) k = dict_get d k.
Proof.
  intro H. unfold adj. destruct b; [|reflexivity]. destruct (count_of d); [|reflexivity].
  apply dict_get_set_other. exact H.
Qed.

Lemma adj_count b d c :
  dict_get d K_Count = Some (OInt c) -> dict_get (adj b d) K_Count = Some (OInt (if b then c - 1 else c)%Z).
Proof.
  intro H. unfold adj, count_of. rewrite H. destruct b; [|exact H]. apply dict_get_set_same.
Qed.

Lemma strip_kids p ks : ~ In p (flat_map nodes ks) ->
  strip p (OArr (map ref_of ks)) = OArr (map ref_of (pkids p ks)).
Proof.
  intros _. rewrite strip_arr. f_equal. induction ks as [|k ks IH]; [reflexivity|].
  cbn [map flat_map]. rewrite pkids_cons, map_app, IH. f_equal.
  unfold ref_of at 1 2. cbn [is_ref_to]. destruct (root_id k) as [a b] eqn:Er. cbn [fst snd].
  destruct (oid_eqb (a, b) p) eqn:E; [reflexivity|]. cbn [map strip]. rewrite E.
  unfold ref_of. rewrite root_id_prune, Er. reflexivity.
Qed.

Section Prune.
  Variables (m m2 : objmap) (p : oid) (A : list oid) (T : ptree).
  (* every node of T other than p: stripped of p, Count - 1 when it is in A *)
  Hypothesis H2 : forall x d, In x (ids T) -> x <> p -> lookup m x = Some (ODict d) ->
    lookup m2 x = Some (ODict (adj (mem_oid x A) (sd p d))).
  (* A holds intermediate nodes only *)
  Hypothesis HA : forall x, In x A -> exists d, lookup m x = Some (ODict d) /\ dict_get d K_Type = Some (OName K_Pages).

  Lemma prune_page_tree :
    (forall t par, incl (ids t) (ids T) -> page_tree m par t -> marks p A t -> ~ In p (nodes t) -> NoDup (leaves t) ->
       par <> Some p -> root_id t <> p -> page_tree m2 par (prune p t)) /\
    (forall f par, incl (flat_map ids f) (ids T) -> Forall (page_tree m par) f -> Forall (marks p A) f ->
       ~ In p (flat_map nodes f) -> NoDup (flat_map leaves f) -> par <> Some p ->
       Forall (page_tree m2 par) (pkids p f)).
  Proof.
    apply ptree_forest_ind.
    - intros i par Hi PT _ _ _ Hpar Hr. cbn [root_id] in Hr. cbn [prune].
      inversion PT as [? ? d L W Ty Pa|]; subst.
      assert (Hb : mem_oid i A = false).
      { destruct (mem_oid i A) eqn:E; [|reflexivity]. apply mem_oid_In in E. apply HA in E.
        destruct E as [d' [L' Ty']]. rewrite L in L'. inversion L'; subst d'. rewrite Ty in Ty'. discriminate Ty'. }
      pose proof (H2 i d (Hi i (or_introl eq_refl)) Hr L) as L2. rewrite Hb in L2. cbn [adj] in L2.
      eapply PTLeaf; [exact L2 | apply sd_wf; exact W | apply sd_get_name; assumption|].
      rewrite parent_ref_as_ref in *. apply sd_parent; assumption.
    - intros i ks Q par Hi PT M Hn ND Hpar Hr. cbn [root_id] in Hr. rewrite prune_node.
      inversion PT as [|? ? d ? L W Ty Kd Ct Pa F]; subst.
      inversion M as [|? ? Hm Fm]; subst.
      cbn [nodes] in Hn. cbn [leaves] in ND, Ct.
      assert (Hnk : ~ In p (flat_map nodes ks)) by (intro H; apply Hn; right; exact H).
      pose proof (H2 i d (Hi i (or_introl eq_refl)) Hr L) as L2.
      eapply PTNode; [exact L2 | apply adj_wf, sd_wf; exact W | | | | |].
      + rewrite adj_get_other by discriminate. apply sd_get_name; assumption.
      + rewrite adj_get_other by discriminate.
        rewrite (sd_get p d K_Kids _ W Kd eq_refl). rewrite strip_kids by exact Hnk. reflexivity.
      + rewrite (adj_count _ _ _ (sd_get_int p d K_Count _ W Ct)). do 2 f_equal. cbn [leaves].
        rewrite (proj2 (prune_leaves p) ks Hnk).
        destruct (mem_oid i A) eqn:E.
        * apply mem_oid_In in E. apply Hm in E. pose proof (without_length p _ ND E). lia.
        * apply mem_oid_nIn in E. rewrite without_notin by (intro H; apply E; apply Hm; exact H). reflexivity.
      + rewrite adj_get_other by discriminate. rewrite parent_ref_as_ref in *. apply sd_parent; assumption.
      + apply Q; try assumption.
        * intros x Hx. apply Hi. right. exact Hx.
        * intro E. inversion E. congruence.
    - intros par _ _ _ _ _ _. constructor.
    - intros k ks P Q par Hi F M Hn ND Hpar. rewrite pkids_cons.
      inversion F as [|? ? Fk Fks]; subst. inversion M as [|? ? Mk Mks]; subst.
      cbn [flat_map] in *. apply incl_app_inv in Hi. destruct Hi as [Hik Hiks].
      rewrite in_app_iff in Hn. apply nodup_app in ND. destruct ND as [Na [Nb _]].
      apply Forall_app. split.
      + destruct (oid_eqb (root_id k) p) eqn:E; [constructor|]. apply oid_eqb_neq in E.
        constructor; [|constructor]. apply P; tauto.
      + apply Q; tauto.
  Qed.
End Prune.
