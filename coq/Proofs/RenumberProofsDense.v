(* RenumberProofsDense.v -- C10, part 4: the dense pass of renumber_objects_with. *)
From LV Require Import Base.Bytes Model.Obj Model.DocQ Model.PageTree Model.Traverse Model.Renumber
  Spec.RenumberSpec Proofs.RenumberProofsMap Proofs.RenumberProofsTrav Proofs.RenumberProofsTravO Proofs.RenumberProofs.

(* the renaming of the dense pass as a function: the k-th id gets number s+k, keeps its generation *)
Fixpoint dense_fun (ids : list oid) (s : N) (x : oid) : oid :=
  match ids with
  | [] => x
  | id :: ids' => if oid_eqb id x then (s, snd id) else dense_fun ids' (s + 1) x
  end.

Fixpoint dense_ids (ids : list oid) (s : N) : list oid :=
  match ids with [] => [] | id :: ids' => (s, snd id) :: dense_ids ids' (s + 1) end.

Lemma dense_fun_notin ids : forall s x, ~ In x ids -> dense_fun ids s x = x.
Proof.
  induction ids as [|id ids IH]; intros s x H; cbn [dense_fun]; [reflexivity|].
  destruct (oid_eqb id x) eqn:E; [apply oid_eqb_eq in E; subst; exfalso; apply H; left; reflexivity|].
  apply IH. intro. apply H. right; assumption.
Qed.

Lemma dense_fun_nth ids : forall s k x,
  NoDup ids -> nth_error ids k = Some x -> dense_fun ids s x = ((s + N.of_nat k)%N, snd x).
Proof.
  induction ids as [|id ids IH]; intros s k x ND H; [destruct k; discriminate|].
  inversion ND; subst. cbn [dense_fun]. destruct k as [|k]; cbn [nth_error] in H.
  - inversion H; subst. rewrite oid_eqb_refl. f_equal. lia.
  - destruct (oid_eqb id x) eqn:E.
    + apply oid_eqb_eq in E. subst. apply nth_error_In in H. contradiction.
    + rewrite (IH (s + 1)%N k x H3 H). f_equal. lia.
Qed.

Lemma dense_ids_ge ids : forall s y, In y (dense_ids ids s) -> (s <= fst y)%N.
Proof.
  induction ids as [|id ids IH]; intros s y H; cbn [dense_ids In] in H; [contradiction|].
  destruct H as [<-|H]; [cbn; lia|]. apply IH in H. lia.
Qed.

Lemma dense_ids_sorted ids : forall s, StronglySorted oid_lt (dense_ids ids s).
Proof.
  induction ids as [|id ids IH]; intro s; cbn [dense_ids]; constructor; [apply IH|].
  apply Forall_forall. intros y Hy. apply dense_ids_ge in Hy. unfold oid_lt. apply oid_ltb_lt. cbn [fst]. lia.
Qed.

Lemma dense_ids_in ids : forall s x, NoDup ids ->
  (In x (dense_ids ids s) <-> exists id, In id ids /\ x = dense_fun ids s id).
Proof.
  induction ids as [|id0 ids IH]; intros s x ND; cbn [dense_ids In].
  - split; [tauto | intros [id [[] _]]].
  - inversion ND; subst. cbn [dense_fun]. rewrite (IH (s + 1)%N x H2). split.
    + intros [<-|[id [Hin ->]]].
      * exists id0. rewrite oid_eqb_refl. auto.
      * exists id. split; [auto|]. destruct (oid_eqb id0 id) eqn:E; [|reflexivity].
        apply oid_eqb_eq in E. subst. contradiction.
    + intros [id [[<-|Hin] ->]].
      * left. rewrite oid_eqb_refl. reflexivity.
      * right. exists id. split; [exact Hin|]. destruct (oid_eqb id0 id) eqn:E; [|reflexivity].
        apply oid_eqb_eq in E. subst. contradiction.
Qed.

Lemma dense_ids_nums ids : forall s, map fst (dense_ids ids s) = nums_from s (length ids).
Proof. induction ids as [|id ids IH]; intro s; cbn [dense_ids map fst length nums_from]; [reflexivity|]. f_equal. apply IH. Qed.

Lemma dense_ids_gens ids : forall s, map snd (dense_ids ids s) = map snd ids.
Proof. induction ids as [|id ids IH]; intro s; cbn [dense_ids map snd]; [reflexivity|]. f_equal. apply IH. Qed.

(* ---------- dense_replace ---------- *)
Definition next_val (next : option N) : N := match next with Some s => s | None => 0%N end.

Lemma dense_replace_spec ids : forall next l0 r last,
  NoDup ids -> dense_replace ids next l0 = Some (r, last) ->
  (forall x, rename_of r x = dense_fun ids (next_val next) x) /\
  incl (map fst r) ids /\ NoDup (map fst r) /\
  last = match ids with [] => l0 | _ => (next_val next + N.of_nat (length ids) - 1)%N end.
Proof.
  induction ids as [|id ids IH]; intros next l0 r last ND H; cbn [dense_replace] in H.
  - inversion H; subst. split; [reflexivity|]. split; [intros x []|]. split; [constructor | reflexivity].
  - destruct next as [s|]; [|discriminate]. cbn [next_val]. inversion ND; subst.
    destruct (dense_replace ids (if (s <? U32_MAX)%N then Some (s + 1)%N else None) s) as [[r' l']|] eqn:E; [|discriminate].
    inversion H; subst; clear H.
    destruct (IH _ _ _ _ H3 E) as [F [I [N L]]].
    assert (F' : forall x, rename_of r' x = dense_fun ids (s + 1) x).
    { intro x. rewrite F. destruct (s <? U32_MAX)%N; [reflexivity|].
      destruct ids; [reflexivity | cbn [dense_replace] in E; discriminate]. }
    assert (L' : last = match ids with [] => s | _ => (s + 1 + N.of_nat (length ids) - 1)%N end).
    { rewrite L. destruct ids; [reflexivity|]. destruct (s <? U32_MAX)%N; [reflexivity | cbn [dense_replace] in E; discriminate]. }
    split; [|split; [|split]].
    + intro x. cbn [dense_fun]. destruct (fst id =? s)%N eqn:Es.
      * apply N.eqb_eq in Es. destruct (oid_eqb id x) eqn:Ex; [|apply F'].
        apply oid_eqb_eq in Ex. subst x. rewrite F', dense_fun_notin by exact H2.
        destruct id; cbn [fst snd] in *; subst; reflexivity.
      * unfold rename_of. cbn [rlookup]. destruct (oid_eqb id x); [reflexivity|]. apply F'.
    + destruct (fst id =? s)%N; cbn [map fst]; intros x Hx; [right; apply I; exact Hx|].
      destruct Hx as [<-|Hx]; [left; reflexivity | right; apply I; exact Hx].
    + destruct (fst id =? s)%N; cbn [map fst]; [exact N|]. constructor; [|exact N]. intro Hin. apply H2. apply I. exact Hin.
    + rewrite L'. cbn [length]. destruct ids; cbn [length]; lia.
Qed.

Lemma dense_replace_ok ids : forall next l0,
  (ids = [] \/ exists s, next = Some s /\ (s + N.of_nat (length ids) <= U32_MAX + 1)%N) ->
  exists r last, dense_replace ids next l0 = Some (r, last).
Proof.
  induction ids as [|id ids IH]; intros next l0 H; cbn [dense_replace]; [eauto|].
  destruct H as [H|[s [-> H]]]; [discriminate|].
  destruct (IH (if (s <? U32_MAX)%N then Some (s + 1)%N else None) s) as [r [l E]].
  - destruct ids as [|id2 ids]; [left; reflexivity|]. right. exists (s + 1)%N.
    cbn [length] in *. replace (s <? U32_MAX)%N with true; [split; [reflexivity | lia]|].
    symmetry. apply N.ltb_lt. lia.
  - rewrite E. eauto.
Qed.

Lemma dense_replace_overflow ids : forall s l0,
  ids <> [] -> (s <= U32_MAX)%N -> (U32_MAX + 1 < s + N.of_nat (length ids))%N -> dense_replace ids (Some s) l0 = None.
Proof.
  induction ids as [|id ids IH]; intros s l0 Hne Hs H; [congruence|]. cbn [dense_replace].
  destruct ids as [|id2 ids]; [cbn [length] in H; lia|].
  destruct (s <? U32_MAX)%N eqn:E.
  - apply N.ltb_lt in E. rewrite IH; [reflexivity | discriminate | lia | cbn [length] in *; lia].
  - cbn [dense_replace]. reflexivity.
Qed.

(* ---------- the dense pass ---------- *)
Lemma no_page_fresh ids s : ~ In (no_page s ids) (dense_ids ids s).
Proof.
  destruct ids as [|[i0 g0] ids]; cbn [dense_ids no_page snd In]; [tauto|].
  intros [E|H].
  - destruct (g0 =? 0)%N eqn:Eg; destruct (s =? 0)%N eqn:Es; cbn [andb] in E; inversion E; subst;
      try discriminate; cbn in *; congruence.
  - apply dense_ids_ge in H. destruct ((g0 =? 0) && (s =? 0))%N; cbn [fst] in H; lia.
Qed.

Section Dense.
  Variable d : rdoc.
  Variable s : N.
  Let tr := d_trailer (base d).
  Let m := d_objects (base d).
  Let ids := map fst m.
  Let n := length m.

  Hypothesis Hsorted : sorted_keys m.
  Hypothesis Hfits : (s + N.of_nat n <= U32_MAX + 1)%N.

  Lemma ids_nodup : NoDup ids.
  Proof. apply sorted_nodup. exact Hsorted. Qed.

  (* the dense renaming is one-to-one on the ids that name objects -- no condition on the document *)
  Lemma dense_fun_inj : inj_on (has_obj m) (dense_fun ids s).
  Proof.
    intros a b Ha Hb E. pose proof ids_nodup as ND.
    destruct (In_nth_error _ _ Ha) as [ka Ka]. destruct (In_nth_error _ _ Hb) as [kb Kb].
    rewrite (dense_fun_nth _ _ _ _ ND Ka), (dense_fun_nth _ _ _ _ ND Kb) in E.
    inversion E. assert (ka = kb) by lia. subst. congruence.
  Qed.

  Definition dense_max : N :=
    match m with [] => if (s =? 0)%N then 0%N else (s - 1)%N | _ => (s + N.of_nat n - 1)%N end.

  Lemma mem_ids_lookup x : mem_oid x ids = match lookup m x with Some _ => true | None => false end.
  Proof.
    destruct (lookup m x) eqn:E.
    - apply mem_oid_In. eapply lookup_has; eauto.
    - apply mem_oid_nIn. apply lookup_none. exact E.
  Qed.

  Lemma dense_action_live r : incl (map fst r) ids -> forall id, dense_action r ids id = live m (rename_of r) id.
  Proof.
    intros I id. unfold dense_action, live, rename_of. rewrite mem_ids_lookup. destruct (rlookup r id) as [y|] eqn:E.
    - apply rlookup_some in E. assert (Hin : In id ids) by (apply I; apply in_map_iff; exists (id, y); auto).
      destruct (has_lookup m id Hin) as [o ->]. reflexivity.
    - destruct (lookup m id); reflexivity.
  Qed.

  Lemma dense_bookmark_live r np : incl (map fst r) ids -> forall p, dense_bookmark r ids np p = live_or m (rename_of r) np p.
  Proof.
    intros I id. unfold dense_bookmark, live_or, rename_of. rewrite mem_ids_lookup. destruct (rlookup r id) as [y|] eqn:E.
    - apply rlookup_some in E. assert (Hin : In id ids) by (apply I; apply in_map_iff; exists (id, y); auto).
      destruct (has_lookup m id Hin) as [o ->]. reflexivity.
    - destruct (lookup m id); reflexivity.
  Qed.

  Lemma renumber_bookmarks_ext f g t : (forall p, f p = g p) -> renumber_bookmarks_with f t = renumber_bookmarks_with g t.
  Proof. intro H. unfold renumber_bookmarks_with. apply map_ext. intro kb. rewrite H. reflexivity. Qed.

  Theorem dense_pass_spec :
    exists d' rho,
      dense_pass s d = Done d' /\
      (forall x, rho x = dense_fun ids s x) /\
      inj_on (has_obj m) rho /\
      d_trailer (base d') = rename_dict_o (live m rho) tr /\
      (forall id, reach tr m id -> has_obj m id ->
                  lookup (d_objects (base d')) (rho id) = option_map (rename_o (live m rho)) (lookup m id)) /\
      (forall id, has_obj m id -> ~ reach tr m id -> lookup (d_objects (base d')) (rho id) = lookup m id) /\
      (forall x, reach (d_trailer (base d')) (d_objects (base d')) x <-> exists id, reach tr m id /\ has_obj m id /\ x = rho id) /\
      map fst (d_objects (base d')) = dense_ids ids s /\
      d_max_id (base d') = dense_max /\
      bm_table d' = renumber_bookmarks_with (live_or m rho (no_page s ids)) (bm_table d) /\
      bookmarks d' = bookmarks d /\ max_bookmark_id d' = max_bookmark_id d /\
      d_version (base d') = d_version (base d) /\ d_binary_mark (base d') = d_binary_mark (base d).
  Proof.
    pose proof ids_nodup as ND.
    destruct (dense_replace_ok ids (Some s) (if (s =? 0)%N then 0%N else (s - 1)%N)) as [r [last E]].
    { right. exists s. split; [reflexivity|]. unfold ids. rewrite map_length. exact Hfits. }
    destruct (dense_replace_spec _ _ _ _ _ ND E) as [F [I [N L]]]. cbn [next_val] in F, L.
    assert (Hinj : inj_on (has_obj m) (rename_of r)).
    { intros a b Pa Pb Eab. rewrite !F in Eab. exact (dense_fun_inj a b Pa Pb Eab). }
    assert (Hhave : forall old, In old (map fst r) -> has_obj m old) by (intros old Ho; apply I; exact Ho).
    destruct (rekey_spec m r (has_obj m) Hsorted N Hhave (fun x H => H) Hinj) as [m1 [c1 [EM [S2 [Fw Bw]]]]].
    cbv zeta in S2, Fw, Bw. set (m2 := insert_all c1 m1) in *.
    set (a := dense_action r ids).
    assert (Ha : forall id, a id = live m (rename_of r) id) by (apply dense_action_live; exact I).
    destruct (traverse_o_spec a tr m2 (trav_fuel tr m2) (le_n _)) as [m3 [refs [ET [_ [_ [K3 [In3 Out3]]]]]]].
    assert (Etr : rename_dict_o a tr = rename_dict_o (live m (rename_of r)) tr) by (apply rename_dict_o_ext; intros; apply Ha).
    exists {| base := with_objects (base d) (rename_dict_o a tr) m3 last;
              max_bookmark_id := max_bookmark_id d; bookmarks := bookmarks d;
              bm_table := renumber_bookmarks_with (dense_bookmark r ids (no_page s ids)) (bm_table d) |}, (rename_of r).
    split.
    { unfold dense_pass. fold m. fold ids. rewrite E. rewrite EM. fold m2. fold tr. fold a. rewrite ET. reflexivity. }
    cbn [base d_trailer d_objects d_max_id with_objects bm_table bookmarks max_bookmark_id d_version d_binary_mark].
    split; [exact F|]. split; [exact Hinj|]. split; [exact Etr|].
    split.
    { intros id Hid Hh. rewrite (passo_reachable tr m (rename_of r) a Ha m2 Fw m3 In3 id Hid Hh).
      destruct (lookup m id); cbn [option_map]; [|reflexivity]. f_equal. apply rename_o_ext. intros; apply Ha. }
    split; [intros id Hh Hid; eapply (passo_unreachable tr m (rename_of r) a); eauto|].
    split; [intro x; eapply (passo_reach tr m (rename_of r) a); eauto|].
    split.
    { rewrite K3. apply sorted_ext; [exact S2 | apply dense_ids_sorted|]. intro x. rewrite (dense_ids_in ids s x ND). split.
      - intro Hx. destruct (Bw x Hx) as [id [Hid ->]]. exists id. split; [exact Hid | apply F].
      - intros [id [Hid ->]]. rewrite <- F. apply has_obj_lookup. rewrite Fw by exact Hid. apply has_obj_lookup. exact Hid. }
    split.
    { rewrite L. unfold dense_max, ids, n. destruct m; cbn [map length]; [reflexivity|]. rewrite map_length. reflexivity. }
    split; [apply renumber_bookmarks_ext; apply dense_bookmark_live; exact I|].
    repeat split; reflexivity.
  Qed.
End Dense.
