(* SinkProofs.v -- proofs for property C19 about Model/Sink.v.  No axioms. *)
From LV Require Import Base.Bytes Model.Sink.

Local Open Scope N_scope.

(* ------------------------------------------------------------------------------------------ *)
(* 0. small list facts                                                                         *)
(* ------------------------------------------------------------------------------------------ *)
Lemma firstn_skipn_app {A} n (l : list A) : firstn n l ++ skipn n l = l.
Proof. apply firstn_skipn. Qed.

Lemma take_n_le k buf : (take_n k buf <= length buf)%nat.
Proof. unfold take_n. lia. Qed.

Lemma take_n_zero k buf : buf <> [] -> take_n k buf = O -> k = 0.
Proof.
  unfold take_n. intros Hb H. destruct buf as [|b buf]; [congruence|].
  cbn [length] in H. lia.
Qed.

Lemma take_n_pos k buf : take_n k buf <> O -> k <> 0.
Proof. unfold take_n. intros H ->. apply H. rewrite N.min_0_l. reflexivity. Qed.

(* one-step equations on a non-empty buffer (keep the buffer abstract in the proofs) *)
Lemma write_all_cons a s buf : buf <> [] ->
  write_all (a :: s) buf =
  match a with
  | Accept k =>
    match take_n k buf with
    | O => (WErr EWriteZero, [], s)
    | S m => let '(r, d, s'') := write_all s (skipn (S m) buf) in (r, firstn (S m) buf ++ d, s'')
    end
  | Interrupted => write_all s buf
  | Zero => (WErr EWriteZero, [], s)
  | Fail e => (WErr e, [], s)
  end.
Proof. destruct buf; [congruence | reflexivity]. Qed.

Lemma qwrite_all_cons a s buf : buf <> [] ->
  qwrite_all (a :: s) buf =
  match a with
  | Accept k =>
    if (k =? 0)%N then (WErr EWriteZero, [], s)
    else if (k <=? N.of_nat (length buf))%N then
      let '(r, d, s'') := qwrite_all s (skipn (N.to_nat k) buf) in (r, firstn (N.to_nat k) buf ++ d, s'')
    else (WOk, buf, Accept (k - N.of_nat (length buf)) :: s)
  | Interrupted => qwrite_all s buf
  | Zero => (WErr EWriteZero, [], s)
  | Fail e => (WErr e, [], s)
  end.
Proof. destruct buf; [congruence | reflexivity]. Qed.

Lemma write_all_nil s : write_all s [] = (WOk, [], s).
Proof. destruct s; reflexivity. Qed.
Lemma qwrite_all_nil s : qwrite_all s [] = (WOk, [], s).
Proof. destruct s; reflexivity. Qed.

Lemma skipn_nil_iff {A} n (l : list A) : (length l <= n)%nat -> skipn n l = [].
Proof. apply skipn_all2. Qed.

(* ------------------------------------------------------------------------------------------ *)
(* 1. one write_all call: what any inner write_all must satisfy, and that both readings do      *)
(* ------------------------------------------------------------------------------------------ *)
(* the bytes accepted are a prefix of the buffer; Ok means all of it, Err means not all of it *)
Definition wa_sound (wa : script -> bytes -> wres * bytes * script) : Prop :=
  forall s buf r d s', wa s buf = (r, d, s') ->
    exists rest, buf = d ++ rest /\ (r = WOk -> rest = []) /\ (forall e, r = WErr e -> rest <> []).

Ltac inj H := injection H as ? ? ?; subst.

Ltac nonnil buf B HB :=
  let b0 := fresh "b0" in let buf0 := fresh "buf0" in
  destruct buf as [|b0 buf0];
  [ | set (B := b0 :: buf0) in *; assert (HB : B <> []) by (unfold B; discriminate); clearbody B ].

Lemma write_all_sound : wa_sound write_all.
Proof.
  intros s. induction s as [|a s IH]; intros buf r d s' H.
  - destruct buf; cbn in H; inj H; exists []; rewrite ?app_nil_r; repeat split; congruence.
  - nonnil buf B HB.
    { rewrite write_all_nil in H. inj H. exists []. repeat split; congruence. }
    rewrite write_all_cons in H by exact HB. destruct a as [k| | |e].
    + destruct (take_n k B) as [|n] eqn:En.
      * inj H. exists B. repeat split; congruence.
      * destruct (write_all s (skipn (S n) B)) as [[r1 d1] s1] eqn:E1.
        inj H. destruct (IH _ _ _ _ E1) as [rest [Hb [Hok Herr]]].
        exists rest. split; [|split; assumption].
        rewrite <- app_assoc, <- Hb. symmetry. exact (firstn_skipn _ B).
    + exact (IH _ _ _ _ H).
    + inj H. exists B. repeat split; congruence.
    + inj H. exists B. repeat split; congruence.
Qed.

Lemma qwrite_all_sound : wa_sound qwrite_all.
Proof.
  intros s. induction s as [|a s IH]; intros buf r d s' H.
  - destruct buf; cbn in H; inj H; exists []; rewrite ?app_nil_r; repeat split; congruence.
  - nonnil buf B HB.
    { rewrite qwrite_all_nil in H. inj H. exists []. repeat split; congruence. }
    rewrite qwrite_all_cons in H by exact HB. destruct a as [k| | |e].
    + destruct (k =? 0) eqn:E0.
      { inj H. exists B. repeat split; congruence. }
      destruct (k <=? N.of_nat (length B)) eqn:Ek.
      * destruct (qwrite_all s (skipn (N.to_nat k) B)) as [[r1 d1] s1] eqn:E1.
        inj H. destruct (IH _ _ _ _ E1) as [rest [Hb [Hok Herr]]].
        exists rest. split; [|split; assumption].
        rewrite <- app_assoc, <- Hb. symmetry. exact (firstn_skipn _ B).
      * inj H. exists []. rewrite app_nil_r. repeat split; congruence.
    + exact (IH _ _ _ _ H).
    + inj H. exists B. repeat split; congruence.
    + inj H. exists B. repeat split; congruence.
Qed.

(* which answers a call consumed, and that the result is exactly what the sink said *)
Definition wa_faithful (wa : script -> bytes -> wres * bytes * script) : Prop :=
  forall s buf r d s', wa s buf = (r, d, s') ->
    exists used, (s = used ++ s' \/ (s' = [] /\ s = used)) /\
      (r = WOk -> no_hard used) /\
      (forall e, r = WErr e -> exists sf h, used = sf ++ [h] /\ no_hard sf /\ hard_kind h = Some e).

Lemma write_all_faithful : wa_faithful write_all.
Proof.
  intros s. induction s as [|a s IH]; intros buf r d s' H.
  - exists []. destruct buf; cbn in H; inj H; (split; [left; reflexivity|]);
      (split; [intros _; constructor | intros e He; discriminate]).
  - nonnil buf B HB.
    { rewrite write_all_nil in H. inj H. exists []. split; [left; reflexivity|].
      split; [intros _; constructor | intros e He; discriminate]. }
    rewrite write_all_cons in H by exact HB. destruct a as [k| | |e].
    + destruct (take_n k B) as [|n] eqn:En.
      * inj H. exists [Accept k]. split; [left; reflexivity|].
        split; [discriminate|]. intros e He. inversion He; subst.
        exists [], (Accept k). split; [reflexivity|]. split; [constructor|].
        assert (k = 0) as -> by (eapply take_n_zero; [exact HB|exact En]). reflexivity.
      * destruct (write_all s (skipn (S n) B)) as [[r1 d1] s1] eqn:E1.
        inj H. destruct (IH _ _ _ _ E1) as [used [Hs [Hok Herr]]].
        assert (Hk : k <> 0) by (apply (take_n_pos k B); rewrite En; discriminate).
        exists (Accept k :: used). split.
        { destruct Hs as [Hs | [Hs1 Hs2]]; [left; rewrite Hs; reflexivity | right; subst; auto]. }
        split.
        { intro Hr. constructor; [exact Hk | exact (Hok Hr)]. }
        intros e He. destruct (Herr e He) as [sf [h [Hu [Hsf Hh]]]].
        exists (Accept k :: sf), h. rewrite Hu. split; [reflexivity|]. split; [constructor; assumption | exact Hh].
    + destruct (IH _ _ _ _ H) as [used [Hs [Hok Herr]]].
      exists (Interrupted :: used). split.
      { destruct Hs as [Hs | [Hs1 Hs2]]; [left; rewrite Hs; reflexivity | right; subst; auto]. }
      split.
      { intro Hr. constructor; [exact I | exact (Hok Hr)]. }
      intros e He. destruct (Herr e He) as [sf [h [Hu [Hsf Hh]]]].
      exists (Interrupted :: sf), h. rewrite Hu. split; [reflexivity|]. split; [constructor; [exact I|assumption] | exact Hh].
    + inj H. exists [Zero]. split; [left; reflexivity|]. split; [discriminate|].
      intros e He. inversion He; subst. exists [], Zero. repeat split. constructor.
    + inj H. exists [Fail e]. split; [left; reflexivity|]. split; [discriminate|].
      intros e' He. inversion He; subst. exists [], (Fail e'). repeat split. constructor.
Qed.

(* a sink that never fails hard: every call succeeds and delivers its whole buffer *)
Lemma write_all_soft s buf :
  no_hard s -> exists s', write_all s buf = (WOk, buf, s') /\ no_hard s'.
Proof.
  revert buf. induction s as [|a s IH]; intros buf Hs.
  - exists []. destruct buf; cbn; split; auto.
  - nonnil buf B HB.
    { exists (a :: s). rewrite write_all_nil. split; auto. }
    inversion Hs as [|x l Ha Hs']; subst. rewrite write_all_cons by exact HB.
    destruct a as [k| | |e]; cbn [soft] in Ha; try contradiction.
    + destruct (take_n k B) as [|n] eqn:En.
      { exfalso. apply Ha. eapply take_n_zero; [exact HB|exact En]. }
      destruct (IH (skipn (S n) B) Hs') as [s' [E Hn]]. exists s'. rewrite E.
      split; [|exact Hn]. f_equal. f_equal. exact (firstn_skipn _ B).
    + exact (IH _ Hs').
Qed.

Lemma qwrite_all_soft s buf :
  no_hard s -> exists s', qwrite_all s buf = (WOk, buf, s') /\ no_hard s'.
Proof.
  revert buf. induction s as [|a s IH]; intros buf Hs.
  - exists []. destruct buf; cbn; split; auto.
  - nonnil buf B HB.
    { exists (a :: s). rewrite qwrite_all_nil. split; auto. }
    inversion Hs as [|x l Ha Hs']; subst. rewrite qwrite_all_cons by exact HB.
    destruct a as [k| | |e]; cbn [soft] in Ha; try contradiction.
    + destruct (k =? 0) eqn:E0; [apply N.eqb_eq in E0; contradiction|].
      destruct (k <=? N.of_nat (length B)) eqn:Ek.
      * destruct (IH (skipn (N.to_nat k) B) Hs') as [s' [E Hn]]. exists s'. rewrite E.
        split; [|exact Hn]. f_equal. f_equal. exact (firstn_skipn _ B).
      * eexists. split; [reflexivity|]. constructor; [|exact Hs']. cbn [soft].
        apply N.leb_gt in Ek. lia.
    + exact (IH _ Hs').
Qed.

(* result and delivered bytes of a run (what save_to's caller observes) *)
Definition rd {A B C} (x : A * B * C) : A * B := (fst (fst x), snd (fst x)).

(* ------------------------------------------------------------------------------------------ *)
(* 2. the pipeline, for any sound inner write_all                                              *)
(* ------------------------------------------------------------------------------------------ *)
Section Run.
  Variable wa : script -> bytes -> wres * bytes * script.
  Hypothesis wa_ok : wa_sound wa.

  Lemma run_cw_sound calls : forall c r d c',
    run_cw wa calls c = (r, d, c') ->
    exists rest, concat calls = d ++ rest /\
      (r = WOk -> rest = [] /\ cw_count c' = cw_count c + N.of_nat (length (concat calls))) /\
      (forall e, r = WErr e -> rest <> []).
  Proof.
    induction calls as [|b calls IH]; intros c r d c' H.
    - cbn in H. inversion H; subst. exists []. cbn. repeat split; try congruence. lia.
    - cbn [run_cw] in H. unfold cw_write_all in H.
      destruct (wa (cw_inner c) b) as [[r1 d1] s1] eqn:E1.
      destruct (wa_ok _ _ _ _ _ E1) as [rest1 [Hb [Hok1 Herr1]]]. subst b.
      destruct r1 as [|e1].
      + destruct (run_cw wa calls _) as [[r2 d2] c2] eqn:E2. inversion H; subst.
        destruct (IH _ _ _ _ E2) as [rest [Hc [Hok Herr]]].
        rewrite (Hok1 eq_refl), app_nil_r in *. exists rest. cbn [concat].
        split; [rewrite Hc, app_assoc; reflexivity|]. split; [|exact Herr].
        intro Hr. destruct (Hok Hr) as [-> Hcnt]. split; [reflexivity|].
        rewrite Hcnt. cbn [cw_count]. rewrite app_length. lia.
      + inversion H; subst. exists (rest1 ++ concat calls). cbn [concat].
        split; [rewrite <- app_assoc; reflexivity|]. split; [discriminate|].
        intros e _ Habs. apply app_eq_nil in Habs. destruct Habs as [Habs _].
        exact (Herr1 e1 eq_refl Habs).
  Qed.

  (* delivered bytes are always a prefix of the complete output *)
  Theorem delivered_prefix calls s r d n :
    run wa calls s = (r, d, n) -> d = firstn (length d) (concat calls).
  Proof.
    unfold run. destruct (run_cw wa calls _) as [[r0 d0] c0] eqn:E. intro H; inversion H; subst.
    destruct (run_cw_sound _ _ _ _ _ E) as [rest [Hc _]]. rewrite Hc.
    rewrite firstn_app, firstn_all, Nat.sub_diag. cbn. rewrite app_nil_r. reflexivity.
  Qed.

  (* Ok is never reported unless the sink holds every byte, and then the counter is exact *)
  Theorem ok_complete calls s d n :
    run wa calls s = (WOk, d, n) -> d = concat calls /\ n = N.of_nat (length (concat calls)).
  Proof.
    unfold run. destruct (run_cw wa calls _) as [[r0 d0] c0] eqn:E. intro H; inversion H; subst.
    destruct (run_cw_sound _ _ _ _ _ E) as [rest [Hc [Hok _]]]. destruct (Hok eq_refl) as [-> Hn].
    rewrite app_nil_r in Hc. split; [auto|]. rewrite Hn. cbn. lia.
  Qed.

  (* an error is reported exactly when bytes are missing *)
  Theorem err_incomplete calls s e d n :
    run wa calls s = (WErr e, d, n) -> (length d < length (concat calls))%nat.
  Proof.
    unfold run. destruct (run_cw wa calls _) as [[r0 d0] c0] eqn:E. intro H; inversion H; subst.
    destruct (run_cw_sound _ _ _ _ _ E) as [rest [Hc [_ Herr]]]. specialize (Herr e eq_refl).
    rewrite Hc, app_length. destruct rest; [congruence|]. cbn. lia.
  Qed.

  (* running a prefix of the calls, then the rest *)
  Lemma run_cw_app a b : forall c,
    run_cw wa (a ++ b) c =
    let '(r, d, c') := run_cw wa a c in
    match r with
    | WOk => let '(r', d', c'') := run_cw wa b c' in (r', d ++ d', c'')
    | WErr e => (WErr e, d, c')
    end.
  Proof.
    induction a as [|x a IH]; intro c.
    - cbn. destruct (run_cw wa b c) as [[r d] c']. reflexivity.
    - cbn [app run_cw]. destruct (cw_write_all wa c x) as [[r1 d1] c1]. destruct r1; [|reflexivity].
      rewrite IH. destruct (run_cw wa a c1) as [[r2 d2] c2]. destruct r2; [|reflexivity].
      destruct (run_cw wa b c2) as [[r3 d3] c3]. rewrite app_assoc. reflexivity.
  Qed.
End Run.

(* the incremental save path (first buffer written around CountingWrite, counted afterwards and
   from the file header) is observably the plain pipeline with the previous bytes as first call:
   same result, same delivered bytes; when the result is Ok the counter is the plain one minus
   the bytes before the header, i.e. every recorded offset is the true position relative to the
   first "%PDF-" *)
Lemma header_offset_from_le b : forall i k, header_offset_from b i = Some k -> (k < i + length b)%nat.
Proof.
  induction b as [|x b IH]; intros i k H; [discriminate|].
  cbn [header_offset_from] in H. destruct (prefixb PDF_HDR (x :: b)).
  - injection H as <-. cbn [length]. lia.
  - apply IH in H. cbn [length]. lia.
Qed.

Lemma header_offset_le b : (header_offset b <= length b)%nat.
Proof.
  unfold header_offset. destruct (header_offset_from b 0) as [k|] eqn:E; [|lia].
  apply header_offset_from_le in E. lia.
Qed.

Lemma run_cw_count_shift wa calls : forall s n k,
  let '(r, d, c) := run_cw wa calls {| cw_inner := s; cw_count := n |} in
  run_cw wa calls {| cw_inner := s; cw_count := n + k |} =
  (r, d, {| cw_inner := cw_inner c; cw_count := cw_count c + k |}).
Proof.
  induction calls as [|b calls IH]; intros s n k.
  - reflexivity.
  - cbn [run_cw]. unfold cw_write_all. cbn [cw_inner cw_count].
    destruct (wa s b) as [[r1 d1] s1]. destruct r1.
    + specialize (IH s1 (n + N.of_nat (length b)) k).
      destruct (run_cw wa calls {| cw_inner := s1; cw_count := n + N.of_nat (length b) |}) as [[r2 d2] c2].
      replace (n + k + N.of_nat (length b)) with (n + N.of_nat (length b) + k) by lia.
      rewrite IH. reflexivity.
    + cbn [cw_inner cw_count]. do 2 f_equal. lia.
Qed.

Theorem run_inc_is_run wa prev calls s :
  rd (run_inc wa prev calls s) = rd (run wa (prev :: calls) s) /\
  (forall d n, run_inc wa prev calls s = (WOk, d, n) ->
     run wa (prev :: calls) s = (WOk, d, n + N.of_nat (header_offset prev))).
Proof.
  unfold run_inc, run, rd. cbn [run_cw]. unfold cw_write_all_after, cw_write_all. cbn [cw_inner cw_count].
  destruct (wa s prev) as [[r1 d1] s1]. destruct r1 as [|e1]; cbn [fst snd].
  - pose proof (header_offset_le prev) as Hle.
    pose proof (run_cw_count_shift wa calls s1 (0 + N.of_nat (length prev - header_offset prev)) (N.of_nat (header_offset prev))) as Hs.
    destruct (run_cw wa calls {| cw_inner := s1; cw_count := 0 + N.of_nat (length prev - header_offset prev) |}) as [[r2 d2] c2].
    replace (0 + N.of_nat (length prev - header_offset prev) + N.of_nat (header_offset prev)) with (0 + N.of_nat (length prev)) in Hs by lia.
    rewrite Hs. cbn [fst snd cw_count]. split; [reflexivity|]. intros d n H. injection H as -> <- <-. reflexivity.
  - split; [reflexivity | discriminate].
Qed.

(* ------------------------------------------------------------------------------------------ *)
(* 3. call-driven scripts: the theorems of the property                                        *)
(* ------------------------------------------------------------------------------------------ *)

(* T1: a sink that never fails hard -- whatever short writes and Interrupted bursts it produces,
   and whatever way the output is cut into write_all calls -- gets every byte, in order, the
   result is Ok and the counter equals the number of bytes delivered. *)
Theorem chunking_irrelevant calls s :
  no_hard s ->
  run write_all calls s = (WOk, concat calls, N.of_nat (length (concat calls))).
Proof.
  unfold run. intro Hs.
  assert (G : forall c, no_hard (cw_inner c) ->
            exists c', run_cw write_all calls c = (WOk, concat calls, c') /\
                       cw_count c' = cw_count c + N.of_nat (length (concat calls))).
  { induction calls as [|b calls IH]; intros c Hc.
    - exists c. cbn. split; [reflexivity | lia].
    - cbn [run_cw]. unfold cw_write_all. destruct (write_all_soft (cw_inner c) b Hc) as [s' [E Hs']].
      rewrite E. destruct (IH {| cw_inner := s'; cw_count := cw_count c + N.of_nat (length b) |} Hs') as [c' [E' Hn]].
      rewrite E'. exists c'. split; [reflexivity|]. rewrite Hn. cbn [cw_count concat]. rewrite app_length. lia. }
  destruct (G {| cw_inner := s; cw_count := 0 |} Hs) as [c' [E Hn]]. rewrite E, Hn. reflexivity.
Qed.

(* two chunkings of the same output, two soft sinks: same bytes, same result, same counter *)
Corollary rechunking_irrelevant calls1 calls2 s1 s2 :
  concat calls1 = concat calls2 -> no_hard s1 -> no_hard s2 ->
  run write_all calls1 s1 = run write_all calls2 s2.
Proof. intros Hc H1 H2. rewrite !chunking_irrelevant, Hc by assumption. reflexivity. Qed.

(* T2: which answers of the sink were consumed, and that the result is the sink's own verdict:
   Ok only if every consumed answer was soft; Err e only if the last consumed answer was a hard
   one of kind e (Ok(0) counting as WriteZero) -- the error is propagated, not swallowed or
   replaced. *)
Lemma run_cw_faithful calls : forall c r d c',
  run_cw write_all calls c = (r, d, c') ->
  exists used, (cw_inner c = used ++ cw_inner c' \/ (cw_inner c' = [] /\ cw_inner c = used)) /\
    (r = WOk -> no_hard used) /\
    (forall e, r = WErr e -> exists sf h, used = sf ++ [h] /\ no_hard sf /\ hard_kind h = Some e).
Proof.
  induction calls as [|b calls IH]; intros c r d c' H.
  - cbn in H. inversion H; subst. exists []. split; [left; reflexivity|].
    split; [intros _; constructor | discriminate].
  - cbn [run_cw] in H. unfold cw_write_all in H.
    destruct (write_all (cw_inner c) b) as [[r1 d1] s1] eqn:E1.
    destruct (write_all_faithful _ _ _ _ _ E1) as [u1 [Hs1 [Hok1 Herr1]]].
    destruct r1 as [|e1].
    + destruct (run_cw write_all calls _) as [[r2 d2] c2] eqn:E2. inversion H; subst.
      destruct (IH _ _ _ _ E2) as [u2 [Hs2 [Hok2 Herr2]]]. cbn [cw_inner] in Hs2.
      specialize (Hok1 eq_refl).
      assert (Hnil : s1 = [] -> u2 = [] /\ cw_inner c' = []).
      { intro Hn. rewrite Hn in Hs2. destruct Hs2 as [Hs2 | [Hs2 Hs3]].
        - symmetry in Hs2. apply app_eq_nil in Hs2. tauto.
        - auto. }
      exists (u1 ++ u2). split; [|split].
      * destruct Hs1 as [Hs1 | [Hs1a Hs1b]].
        -- destruct Hs2 as [Hs2 | [Hs2a Hs2b]].
           ++ left. rewrite Hs1, Hs2, app_assoc. reflexivity.
           ++ right. split; [exact Hs2a|]. rewrite Hs1, Hs2b. reflexivity.
        -- destruct (Hnil Hs1a) as [-> Hc']. right. rewrite app_nil_r. auto.
      * intro Hr. apply Forall_app. split; [exact Hok1 | exact (Hok2 Hr)].
      * intros e He. destruct (Herr2 e He) as [sf [h [Hu [Hsf Hh]]]].
        exists (u1 ++ sf), h. rewrite Hu, app_assoc. split; [reflexivity|].
        split; [apply Forall_app; split; assumption | exact Hh].
    + inversion H; subst. exists u1. cbn [cw_inner]. split; [exact Hs1|]. split; [discriminate|].
      intros e He. inversion He; subst. exact (Herr1 e eq_refl).
Qed.

(* T3: failure_is_error_and_prefix, call-driven form.  A script that is soft up to a hard answer h:
   either the soft part already took the whole output (h is never asked: Ok, complete), or the
   save returns exactly h's error and the sink holds a strict prefix of the output. *)
Theorem failure_is_error_and_prefix calls sf h rest e :
  no_hard sf -> hard_kind h = Some e ->
  let '(r, d, n) := run write_all calls (sf ++ h :: rest) in
  (r = WOk /\ d = concat calls) \/
  (r = WErr e /\ exists p, (p < length (concat calls))%nat /\ d = firstn p (concat calls)).
Proof.
  intros Hsf Hh.
  destruct (run write_all calls (sf ++ h :: rest)) as [[r d] n] eqn:E.
  pose proof (delivered_prefix _ write_all_sound _ _ _ _ _ E) as Hpre.
  destruct r as [|e'].
  - left. split; [reflexivity|]. exact (proj1 (ok_complete _ write_all_sound _ _ _ _ E)).
  - right. pose proof (err_incomplete _ write_all_sound _ _ _ _ _ E) as Hlt.
    split; [|exists (length d); split; assumption].
    unfold run in E. destruct (run_cw write_all calls _) as [[r0 d0] c0] eqn:E0. inversion E; subst.
    destruct (run_cw_faithful _ _ _ _ _ E0) as [used [Hs [_ Herr]]]. cbn [cw_inner] in Hs.
    destruct (Herr e' eq_refl) as [sf' [h' [Hu [Hsf' Hh']]]]. subst used.
    (* sf ++ h :: rest = (sf' ++ [h']) ++ tail : the first hard answer is the same *)
    assert (Heq : exists tail, sf ++ h :: rest = sf' ++ h' :: tail).
    { destruct Hs as [Hs | [_ Hs]]; [exists (cw_inner c0); rewrite Hs, <- app_assoc | exists []; rewrite Hs]; reflexivity. }
    destruct Heq as [tail Heq]. clear Hs E0 Herr E Hpre Hlt.
    assert (Hhard : forall x, soft x -> hard_kind x = None).
    { intros [k| | |x]; cbn; try tauto. intro Hk. destruct (k =? 0) eqn:Ek; [apply N.eqb_eq in Ek; contradiction | reflexivity]. }
    revert sf' Hsf' Heq. induction Hsf as [|x sf Hx Hsf IH]; intros sf' Hsf' Heq.
    + destruct sf' as [|y sf']; cbn in Heq; injection Heq as Hxy Htl.
      * subst. congruence.
      * subst y. apply Forall_inv in Hsf'. rewrite (Hhard _ Hsf') in Hh. discriminate.
    + destruct sf' as [|y sf']; cbn in Heq; injection Heq as Hxy Htl.
      * subst. rewrite (Hhard _ Hx) in Hh'. discriminate.
      * subst y. exact (IH _ (Forall_inv_tail Hsf') Htl).
Qed.

(* T4: never_ok_with_missing_bytes, and its converse: Ok <-> complete, for EVERY script *)
Theorem never_ok_with_missing_bytes calls s d n :
  run write_all calls s = (WOk, d, n) -> d = concat calls /\ n = N.of_nat (length d).
Proof.
  intro H. destruct (ok_complete _ write_all_sound _ _ _ _ H) as [-> ->]. auto.
Qed.

Theorem ok_iff_complete calls s :
  let '(r, d, _) := run write_all calls s in
  d = firstn (length d) (concat calls) /\ (r = WOk <-> d = concat calls).
Proof.
  destruct (run write_all calls s) as [[r d] n] eqn:E.
  split; [exact (delivered_prefix _ write_all_sound _ _ _ _ _ E)|].
  destruct r as [|e].
  - split; [intros _; exact (proj1 (ok_complete _ write_all_sound _ _ _ _ E)) | reflexivity].
  - pose proof (err_incomplete _ write_all_sound _ _ _ _ _ E) as Hlt.
    split; [discriminate|]. intro Hd. rewrite Hd in Hlt. lia.
Qed.

(* T5: offsets.  Whenever the code reads the counter before its i-th write_all (i.e. the first i
   calls returned Ok), the value is the total length of the first i buffers -- a function of the
   requested lengths only, independent of the sink's script -- AND the sink really holds exactly
   those bytes, so every recorded xref offset is the true position in the delivered stream. *)
Theorem counter_exact calls s i n :
  counter_before calls s i = Some n ->
  n = N.of_nat (length (concat (firstn i calls))) /\
  exists k, run write_all (firstn i calls) s = (WOk, concat (firstn i calls), k).
Proof.
  unfold counter_before. destruct (run write_all (firstn i calls) s) as [[r d] k] eqn:E.
  destruct r; [|discriminate]. intro H; inversion H; subst.
  destruct (ok_complete _ write_all_sound _ _ _ _ E) as [-> ->]. split; [reflexivity|]. eexists; reflexivity.
Qed.

Corollary offsets_chunking_independent calls s1 s2 i n1 n2 :
  counter_before calls s1 i = Some n1 -> counter_before calls s2 i = Some n2 -> n1 = n2.
Proof.
  intros H1 H2. apply counter_exact in H1, H2. destruct H1 as [-> _], H2 as [-> _]. reflexivity.
Qed.

(* the i-th call is reached in the whole run exactly as in the run of the first i calls *)
Lemma run_firstn_reached calls s i r d n :
  run write_all calls s = (r, d, n) -> r = WOk ->
  exists k, counter_before calls s i = Some k.
Proof.
  intros H ->. unfold counter_before, run in *.
  rewrite <- (firstn_skipn i calls) in H at 1. rewrite run_cw_app in H.
  destruct (run_cw write_all (firstn i calls) _) as [[r1 d1] c1]. destruct r1.
  - eexists; reflexivity.
  - inversion H.
Qed.

(* ------------------------------------------------------------------------------------------ *)
(* 4. the positional reading: independent of call boundaries even when the sink fails           *)
(* ------------------------------------------------------------------------------------------ *)
Lemma qwrite_all_app s : forall a b,
  qwrite_all s (a ++ b) =
  let '(r, d, s') := qwrite_all s a in
  match r with
  | WOk => let '(r', d', s'') := qwrite_all s' b in (r', d ++ d', s'')
  | WErr e => (WErr e, d, s')
  end.
Proof.
  induction s as [|x s IH]; intros a b.
  - destruct a as [|a0 a]; cbn.
    + destruct b; reflexivity.
    + destruct b; cbn; rewrite ?app_nil_r; reflexivity.
  - nonnil a A HA.
    { cbn [app]. rewrite qwrite_all_nil. destruct (qwrite_all (x :: s) b) as [[r d] s']. reflexivity. }
    assert (HAB : A ++ b <> []) by (destruct A; [congruence | discriminate]).
    rewrite (qwrite_all_cons x s (A ++ b) HAB), (qwrite_all_cons x s A HA).
    destruct x as [k| | |e].
    + destruct (k =? 0) eqn:E0; [reflexivity|]. apply N.eqb_neq in E0.
      destruct (k <=? N.of_nat (length A)) eqn:Ea.
      * (* the quota ends inside a *)
        apply N.leb_le in Ea.
        assert (Eab : (k <=? N.of_nat (length (A ++ b))) = true).
        { apply N.leb_le. rewrite app_length. lia. }
        rewrite Eab. rewrite skipn_app, firstn_app.
        replace (N.to_nat k - length A)%nat with O by lia. cbn [skipn firstn]. rewrite app_nil_r.
        rewrite IH. destruct (qwrite_all s (skipn (N.to_nat k) A)) as [[r1 d1] s1].
        destruct r1; [|reflexivity].
        destruct (qwrite_all s1 b) as [[r2 d2] s2]. rewrite app_assoc. reflexivity.
      * (* the quota covers all of a *)
        apply N.leb_gt in Ea.
        nonnil b B HB.
        { rewrite app_nil_r. rewrite (proj2 (N.leb_gt _ _) Ea). rewrite qwrite_all_nil, app_nil_r. reflexivity. }
        rewrite (qwrite_all_cons _ s B HB).
        assert (E0' : (k - N.of_nat (length A) =? 0) = false) by (apply N.eqb_neq; lia).
        rewrite E0'.
        destruct (k <=? N.of_nat (length (A ++ B))) eqn:Eab.
        -- apply N.leb_le in Eab. rewrite app_length in Eab.
           assert (Eb : (k - N.of_nat (length A) <=? N.of_nat (length B)) = true) by (apply N.leb_le; lia).
           rewrite Eb. rewrite skipn_app, firstn_app.
           rewrite (skipn_all2 A) by lia. rewrite (firstn_all2 A) by lia.
           replace (N.to_nat (k - N.of_nat (length A))) with (N.to_nat k - length A)%nat by lia.
           cbn [app]. destruct (qwrite_all s (skipn (N.to_nat k - length A) B)) as [[r1 d1] s1].
           rewrite app_assoc. reflexivity.
        -- apply N.leb_gt in Eab. rewrite app_length in Eab.
           assert (Eb : (k - N.of_nat (length A) <=? N.of_nat (length B)) = false) by (apply N.leb_gt; lia).
           rewrite Eb. rewrite app_length. do 3 f_equal. lia.
    + apply IH.
    + reflexivity.
    + reflexivity.
Qed.

(* the whole pipeline under the positional reading = one write_all of the concatenation *)
Lemma qrun_cw_concat calls : forall c,
  let '(r, d, c') := run_cw qwrite_all calls c in
  let '(r0, d0, s0) := qwrite_all (cw_inner c) (concat calls) in
  r = r0 /\ d = d0 /\ cw_inner c' = s0.
Proof.
  induction calls as [|b calls IH]; intro c.
  - cbn [run_cw concat]. rewrite qwrite_all_nil. auto.
  - cbn [run_cw concat]. unfold cw_write_all. rewrite qwrite_all_app.
    destruct (qwrite_all (cw_inner c) b) as [[r1 d1] s1]. destruct r1.
    + specialize (IH {| cw_inner := s1; cw_count := cw_count c + N.of_nat (length b) |}).
      destruct (run_cw qwrite_all calls _) as [[r2 d2] c2]. cbn [cw_inner] in IH.
      destruct (qwrite_all s1 (concat calls)) as [[r3 d3] s3]. destruct IH as [-> [-> ->]]. auto.
    + auto.
Qed.

(* T6: under the positional reading result and delivered bytes depend on the concatenation only:
   every re-chunking of the calls gives the same outcome, failures included *)
Theorem positional_rechunking calls1 calls2 s :
  concat calls1 = concat calls2 ->
  rd (run qwrite_all calls1 s) = rd (run qwrite_all calls2 s).
Proof.
  intro Hc. unfold run, rd.
  pose proof (qrun_cw_concat calls1 {| cw_inner := s; cw_count := 0 |}) as H1.
  pose proof (qrun_cw_concat calls2 {| cw_inner := s; cw_count := 0 |}) as H2.
  destruct (run_cw qwrite_all calls1 _) as [[r1 d1] c1], (run_cw qwrite_all calls2 _) as [[r2 d2] c2].
  cbn [cw_inner] in *. rewrite Hc in H1.
  destruct (qwrite_all s (concat calls2)) as [[r0 d0] s0].
  destruct H1 as [-> [-> _]], H2 as [-> [-> _]]. reflexivity.
Qed.

(* one buffer: both readings of a script agree *)
Lemma q_single s : forall buf, rd (qwrite_all s buf) = rd (write_all s buf).
Proof.
  induction s as [|x s IH]; intro buf.
  - destruct buf; reflexivity.
  - nonnil buf B HB; [reflexivity|].
    rewrite (qwrite_all_cons x s B HB), (write_all_cons x s B HB).
    assert (HL : (0 < length B)%nat) by (destruct B; [congruence | cbn; lia]).
    destruct x as [k| | |e].
    + destruct (k =? 0) eqn:E0.
      { apply N.eqb_eq in E0. subst k. unfold take_n. rewrite N.min_0_l. reflexivity. }
      apply N.eqb_neq in E0.
      destruct (k <=? N.of_nat (length B)) eqn:Ek.
      * apply N.leb_le in Ek. assert (Ht : take_n k B = N.to_nat k) by (unfold take_n; lia).
        rewrite Ht. destruct (N.to_nat k) as [|n] eqn:En; [lia|].
        specialize (IH (skipn (S n) B)). unfold rd in *.
        destruct (qwrite_all s (skipn (S n) B)) as [[r1 d1] s1], (write_all s (skipn (S n) B)) as [[r2 d2] s2].
        cbn [fst snd] in *. injection IH as -> ->. reflexivity.
      * apply N.leb_gt in Ek. assert (Ht : take_n k B = length B) by (unfold take_n; lia).
        rewrite Ht. destruct (length B) as [|n] eqn:En; [lia|].
        rewrite <- En. rewrite skipn_all, firstn_all, write_all_nil.
        unfold rd. cbn [fst snd]. rewrite app_nil_r. reflexivity.
    + apply IH.
    + reflexivity.
    + reflexivity.
Qed.

(* T7: the positional sink built from script s behaves, for every chunking of the calls, as s
   itself does against ONE write_all of the whole output; so every theorem of section 3 holds
   for positional sinks too (take calls := [concat calls]) *)
Theorem positional_is_single_call calls s :
  rd (run qwrite_all calls s) = rd (run write_all [concat calls] s).
Proof.
  rewrite (positional_rechunking calls [concat calls] s) by (cbn; rewrite app_nil_r; reflexivity).
  unfold run, rd. cbn [run_cw]. unfold cw_write_all. cbn [cw_inner].
  pose proof (q_single s (concat calls)) as H. unfold rd in H.
  destruct (qwrite_all s (concat calls)) as [[r1 d1] s1], (write_all s (concat calls)) as [[r2 d2] s2].
  cbn [fst snd] in H. inversion H; subst. destruct r2; reflexivity.
Qed.

(* T8: hard failure at delivered position p.  A positional sink that accepts p = quota sf bytes
   and then answers h: if p < |output| the save returns h's error and the sink holds exactly the
   first p bytes; otherwise Ok and everything -- for every chunking. *)
Lemma qwrite_all_fail_at sf h rest e : no_hard sf -> hard_kind h = Some e ->
  forall buf,
  rd (qwrite_all (sf ++ h :: rest) buf) =
  if (quota sf <? N.of_nat (length buf)) then (WErr e, firstn (N.to_nat (quota sf)) buf) else (WOk, buf).
Proof.
  intros Hsf Hh. induction Hsf as [|x sf Hx Hsf IH]; intro buf.
  - cbn [app quota]. nonnil buf B HB; [reflexivity|].
    assert (HL : (0 < length B)%nat) by (destruct B; [congruence | cbn; lia]).
    assert (E1 : (0 <? N.of_nat (length B)) = true) by (apply N.ltb_lt; lia). rewrite E1.
    cbn [N.to_nat]. rewrite (qwrite_all_cons h rest B HB).
    replace (firstn 0 B) with (@nil byte) by reflexivity.
    destruct h as [k| | |x]; cbn in Hh.
    + destruct (k =? 0) eqn:E0; [|discriminate]. injection Hh as <-. reflexivity.
    + discriminate.
    + injection Hh as <-. reflexivity.
    + injection Hh as <-. reflexivity.
  - nonnil buf B HB.
    { rewrite qwrite_all_nil. replace (quota (x :: sf) <? N.of_nat (length (@nil byte))) with false; [reflexivity|].
      symmetry. apply N.ltb_ge. cbn [length]. lia. }
    assert (HL : (0 < length B)%nat) by (destruct B; [congruence | cbn; lia]).
    cbn [app]. rewrite (qwrite_all_cons x _ B HB).
    destruct x as [k| | |x]; cbn [soft] in Hx; try contradiction.
    + cbn [quota].
      apply N.eqb_neq in Hx. rewrite Hx. apply N.eqb_neq in Hx.
      destruct (k <=? N.of_nat (length B)) eqn:Ek.
      * apply N.leb_le in Ek. specialize (IH (skipn (N.to_nat k) B)). unfold rd in *.
        destruct (qwrite_all (sf ++ h :: rest) (skipn (N.to_nat k) B)) as [[r1 d1] s1]. cbn [fst snd] in *.
        rewrite skipn_length in IH.
        destruct (quota sf <? N.of_nat (length B - N.to_nat k)) eqn:Eq.
        -- apply N.ltb_lt in Eq. injection IH as -> ->.
           assert (E2 : (k + quota sf <? N.of_nat (length B)) = true) by (apply N.ltb_lt; lia). rewrite E2.
           f_equal. replace (N.to_nat (k + quota sf)) with (N.to_nat k + N.to_nat (quota sf))%nat by lia.
           rewrite <- (firstn_skipn (N.to_nat k) B) at 3.
           rewrite firstn_app, firstn_length, Nat.min_l by lia.
           rewrite (firstn_all2 (firstn (N.to_nat k) B)) by (rewrite firstn_length; lia).
           f_equal. f_equal. lia.
        -- apply N.ltb_ge in Eq. injection IH as -> ->.
           assert (E2 : (k + quota sf <? N.of_nat (length B)) = false) by (apply N.ltb_ge; lia). rewrite E2.
           f_equal. exact (firstn_skipn _ B).
      * apply N.leb_gt in Ek.
        assert (E2 : (k + quota sf <? N.of_nat (length B)) = false) by (apply N.ltb_ge; lia). rewrite E2.
        reflexivity.
    + cbn [quota]. apply IH.
Qed.

Theorem positional_failure_at calls sf h rest e :
  no_hard sf -> hard_kind h = Some e ->
  rd (run qwrite_all calls (sf ++ h :: rest)) =
  if (quota sf <? N.of_nat (length (concat calls)))
  then (WErr e, firstn (N.to_nat (quota sf)) (concat calls))
  else (WOk, concat calls).
Proof.
  intros Hsf Hh. etransitivity; [|exact (qwrite_all_fail_at sf h rest e Hsf Hh (concat calls))].
  unfold run, rd. pose proof (qrun_cw_concat calls {| cw_inner := sf ++ h :: rest; cw_count := 0 |}) as H.
  destruct (run_cw qwrite_all calls _) as [[r d] c]. cbn [cw_inner] in H.
  destruct (qwrite_all (sf ++ h :: rest) (concat calls)) as [[r0 d0] s0]. destruct H as [-> [-> _]]. reflexivity.
Qed.

(* ------------------------------------------------------------------------------------------ *)
(* 5. why write_all (and not write) matters: the counter of CountingWrite::write follows the    *)
(*    accepted bytes, but a pipeline that used `write` and ignored the count would report Ok     *)
(*    with bytes missing.  (The code has no such site; this is the mutation the tie must catch.) *)
(* ------------------------------------------------------------------------------------------ *)
Lemma cw_write_counts_accepted c buf r d c' :
  cw_write c buf = (r, d, c') ->
  cw_count c' = cw_count c + N.of_nat (length d) /\ exists rest, buf = d ++ rest.
Proof.
  unfold cw_write, sink_write. destruct (cw_inner c) as [|[k| | |e] s]; intro H; inversion H; subst; cbn [cw_count length].
  - split; [reflexivity | exists []; rewrite app_nil_r; reflexivity].
  - rewrite firstn_length, Nat.min_l by apply take_n_le.
    split; [reflexivity | exists (skipn (take_n k buf) buf); symmetry; apply firstn_skipn].
  - split; [lia | exists buf; reflexivity].
  - split; [lia | exists buf; reflexivity].
  - split; [lia | exists buf; reflexivity].
Qed.

Example write_instead_of_write_all_breaks :
  exists buf s r d c', cw_write {| cw_inner := s; cw_count := 0 |} buf = (W1Ok r, d, c') /\ d <> buf.
Proof.
  exists [x61; x62; x63], [Accept 1]. eexists. eexists. eexists. split; [reflexivity|]. discriminate.
Qed.

(* ------------------------------------------------------------------------------------------ *)
(* 6. the runner's chunker preserves the bytes                                                 *)
(* ------------------------------------------------------------------------------------------ *)
Lemma chunk_by_concat fuel : forall sizes all b, concat (chunk_by fuel sizes all b) = b.
Proof.
  induction fuel as [|f IH]; intros sizes all b.
  - cbn. apply app_nil_r.
  - cbn [chunk_by]. destruct b as [|b0 b]; [reflexivity|].
    destruct sizes as [|n rest].
    + destruct all as [|n rest]; [cbn; rewrite app_nil_r; reflexivity|].
      cbn [concat]. rewrite IH. apply firstn_skipn.
    + cbn [concat]. rewrite IH. apply firstn_skipn.
Qed.

(* ------------------------------------------------------------------------------------------ *)
(* 7. non-vacuity                                                                              *)
(* ------------------------------------------------------------------------------------------ *)
Definition ex_calls : list bytes := [bs "%PDF-1.5"; [x0a]; []; bs "1 0 obj"; bs "null"; bs " endobj"].
Definition ex_soft : script := [Accept 3; Interrupted; Interrupted; Accept 1; Accept 100; Interrupted; Accept 2].
Example ex_soft_no_hard : no_hard ex_soft.
Proof. repeat constructor; discriminate. Qed.
Example ex_soft_run :
  run write_all ex_calls ex_soft = (WOk, bs "%PDF-1.5" ++ [x0a] ++ bs "1 0 objnull endobj", 27).
Proof. vm_compute. reflexivity. Qed.
Example ex_fail_run :
  run write_all ex_calls [Accept 3; Interrupted; Fail EBrokenPipe] = (WErr EBrokenPipe, bs "%PD", 8).
Proof. vm_compute. reflexivity. Qed.
Example ex_zero_run :
  run write_all ex_calls [Accept 20; Zero] = (WErr EWriteZero, bs "%PDF-1.5", 9).
Proof. vm_compute. reflexivity. Qed.
Example ex_positional :
  rd (run qwrite_all ex_calls [Accept 12; Interrupted; Fail EStorageFull]) =
  (WErr EStorageFull, bs "%PDF-1.5" ++ [x0a] ++ bs "1 0") /\
  rd (run qwrite_all [concat ex_calls] [Accept 12; Interrupted; Fail EStorageFull]) =
  (WErr EStorageFull, bs "%PDF-1.5" ++ [x0a] ++ bs "1 0").
Proof. vm_compute. split; reflexivity. Qed.
Example ex_counter : counter_before ex_calls ex_soft 4 = Some 16.
Proof. vm_compute. reflexivity. Qed.
