(* QueryRealFilt.v -- C13 composed with C09 / C04, part 1: Stream::decompressed_content (Model/StreamFilt.v, C09's value
   model of lopdf's filter code around the third-party decoders [inflate] / [lzw]) answers neither [Panic] nor [Fuel] on
   ANY stream, for ANY pair of total decoder functions.
     * [Fuel]  is C09_no_fuel (Proofs/FilterProofsStream.v [decompressed_content_no_fuel]).
     * [Panic] is new here: the only panic site of the value model is png::decode_row's `previous[i]` on a previous row
       shorter than the current one (Model/Png.v [decode_row]); inside decode_frame both rows have bytes_per_row bytes
       ([frame_go_no_panic]: invariant "the previous row is bpr long").  A85 / AsciiHex / the dispatch have no site.
   C04's site-explicit cost models of the same functions (Model/SafeFilt.v: [sa85], [spredictor] with the u8 subtraction,
   the slices, `count - 1`, the checked geometry, the row index) are run BESIDE the value model in [decode_one_sites]:
   a stage answers [SitePanic] / [SiteFuel] as soon as either model does.  [decompressed_sites_eq] shows that this never
   happens (C04_a85_no_panic, C04_predictor_no_panic, C04_a85_terminates, C04_predictor_terminates), so the site-explicit
   chain IS the value chain. *)
From LV Require Import Base.Bytes Model.Obj Gen.Filters Model.A85 Model.Png Model.StreamFilt Model.Safe Model.SafeFilt
  Proofs.FilterProofsPng Proofs.FilterProofsStream Proofs.SafeFiltProofs.
From LV Require Model.AsciiHex.
From Coq Require Import Lia ZArith List.
Import ListNotations.

(* ---------------------------------------------------------------------------------------------- *)
(* 1. the value model never answers Panic                                                           *)
(* ---------------------------------------------------------------------------------------------- *)

Lemma emit_panic pre r : emit pre r = Panic -> r = Panic.
Proof. destruct r; cbn [emit]; congruence. Qed.

Lemma finish_no_panic buf cnt : finish buf cnt <> Panic.
Proof. unfold finish. destruct cnt; [discriminate|]. destruct (pad _ _); discriminate. Qed.

Lemma a85_loop_no_panic : forall input buf cnt, loop input buf cnt <> Panic.
Proof.
  induction input as [|ch input IH]; intros buf cnt; cbn [loop]; [apply finish_no_panic|].
  destruct (byte_eqb ch A85_Z).
  - destruct cnt; [|discriminate]. intro H. apply emit_panic in H. exact (IH _ _ H).
  - destruct (is_skipped ch); [apply IH|].
    destruct (negb (in_digit_range ch)); [apply finish_no_panic|].
    destruct (accum _ _); [|discriminate].
    destruct (Nat.eqb _ _); [|apply IH]. intro H. apply emit_panic in H. exact (IH _ _ H).
Qed.

Lemma ahx_loop_no_panic input : forall high, AsciiHex.loop input high <> Panic.
Proof.
  induction input as [|ch rest IH]; intro high; cbn [AsciiHex.loop]; [discriminate|].
  destruct (AsciiHex.hex_digit ch).
  - destruct high; [|apply IH]. specialize (IH None). destruct (AsciiHex.loop rest None); cbn [emit]; congruence.
  - destruct (byte_eqb ch AHX_EOD); [discriminate|]. destruct (_ || _); [apply IH | discriminate].
Qed.

(* rows of equal length: decode_row returns a row of that length *)
Lemma decode_row_same_len t bpp prev cur :
  length prev = length cur -> exists row, decode_row t bpp prev cur = Ok row /\ length row = length cur.
Proof.
  intro H. unfold decode_row. rewrite H.
  replace (length cur <? length cur)%nat with false by (symmetry; apply Nat.ltb_irrefl).
  rewrite Bool.andb_false_r. eexists. split; [reflexivity|]. apply row_go_length.
Qed.

Lemma frame_go_no_panic bpp bpr : forall fuel prev content,
  (forall p, prev = Some p -> length p = N.to_nat bpr) ->
  frame_go fuel bpp bpr prev content <> Panic.
Proof.
  induction fuel as [|fuel IH]; intros prev content Hp; destruct content as [|f rest]; cbn [frame_go]; try discriminate.
  destruct (ftype_of_N _) as [t|]; [|discriminate].
  destruct (N.ltb _ _) eqn:Hlt; [discriminate|]. apply N.ltb_ge in Hlt.
  cbv zeta. match goal with |- context [decode_row t bpp ?a ?b] => set (pv := a); set (cur := b) end.
  assert (Hcur : length cur = N.to_nat bpr) by (unfold cur; rewrite firstn_length; lia).
  assert (Hprev : length pv = N.to_nat bpr).
  { unfold pv. destruct prev as [p|]; [apply Hp; reflexivity | apply repeat_length]. }
  destruct (decode_row_same_len t bpp pv cur) as [row [Hr Hl]]; [congruence|].
  rewrite Hr. intro H. apply emit_panic in H. revert H. apply IH.
  intros p Hpe. injection Hpe as <-. congruence.
Qed.

Theorem decode_frame_no_panic content bpp ppr : decode_frame content bpp ppr <> Panic.
Proof.
  unfold decode_frame. destruct (N.ltb _ _); [discriminate|]. apply frame_go_no_panic. intros p H; discriminate.
Qed.

Lemma decompress_predictor_no_panic data p : decompress_predictor data p <> Panic.
Proof.
  unfold decompress_predictor. destruct p; [|discriminate].
  destruct (_ && _); [|discriminate]. cbv zeta. destruct (N.ltb _ _); [discriminate|]. apply decode_frame_no_panic.
Qed.

Lemma decode_one_no_panic inflate lzw f params input : decode_one inflate lzw f params input <> Panic.
Proof.
  unfold decode_one. destruct (bytes_eqb f F_FLATE); [apply decompress_predictor_no_panic|].
  destruct (bytes_eqb f F_LZW); [apply decompress_predictor_no_panic|].
  destruct (bytes_eqb f F_A85); [apply a85_loop_no_panic |].
  destruct (AHX_ENABLED && bytes_eqb f F_AHX); [apply ahx_loop_no_panic | discriminate].
Qed.

Theorem decompressed_content_no_panic inflate lzw s : decompressed_content inflate lzw s <> Panic.
Proof.
  assert (L : forall d fs index input output, decode_loop inflate lzw d fs index input output <> Panic).
  { intros d. induction fs as [|f fs IH]; intros index input output; cbn [decode_loop]; [discriminate|].
    pose proof (decode_one_no_panic inflate lzw f (params_for d index) input) as H1.
    destruct (decode_one _ _ _ _ _); try congruence; apply IH. }
  unfold decompressed_content. destruct (filters_no_fuel (s_dict s)) as [F1 F2].
  destruct (filters (s_dict s)); try congruence; apply L.
Qed.

(* value or error, nothing else: for every stream and every pair of total decoders *)
Theorem decompressed_content_returns inflate lzw s :
  (exists data, decompressed_content inflate lzw s = Ok data) \/ (exists e, decompressed_content inflate lzw s = Err e).
Proof.
  pose proof (decompressed_content_no_panic inflate lzw s) as HP.
  pose proof (decompressed_content_no_fuel inflate lzw s) as HF.
  destruct (decompressed_content inflate lzw s) as [data|e| |]; [left; eauto | right; eauto | congruence | congruence].
Qed.

(* ---------------------------------------------------------------------------------------------- *)
(* 2. the chain with C04's site-explicit models run beside the value model                          *)
(* ---------------------------------------------------------------------------------------------- *)

Inductive sres (A : Type) := SiteOk (a : A) | SiteErr | SitePanic | SiteFuel.
Arguments SiteOk {A} a.
Arguments SiteErr {A}.
Arguments SitePanic {A}.
Arguments SiteFuel {A}.

Definition sres_of_res {A} (r : res A) : sres A :=
  match r with Ok a => SiteOk a | Err _ => SiteErr | Panic => SitePanic | Fuel => SiteFuel end.

(* what C04's cost model of a stage says about its panic sites and its fuel *)
Definition site_check {A} (m : M A) : sres unit :=
  match outcome m with SPanic _ => SitePanic | SFuel => SiteFuel | _ => SiteOk tt end.

(* the four parameters as decompress_predictor looks them up (unwrap_or defaults) *)
Definition spredictor_of (params : option dict) (data : bytes) : M N :=
  match params with
  | None => ret (blen data)
  | Some p => spredictor (get_int p K_Predictor PRED_DEFAULT) (get_int p K_COLUMNS COLUMNS_DEFAULT)
                         (get_int p K_COLORS COLORS_DEFAULT) (get_int p K_BITS BITS_DEFAULT) data
  end.

Section Sites.
  Variable inflate : bytes -> bytes.
  Variable lzw : bool -> bytes -> bytes.

  (* C04's model of the stage that [decode_one] dispatches to (AsciiHex and the unknown-filter error have no site) *)
  Definition stage_sites (filter : bytes) (params : option dict) (input : bytes) : sres unit :=
    if bytes_eqb filter F_FLATE then
      site_check (spredictor_of params (match input with [] => [] | _ => inflate input end))
    else if bytes_eqb filter F_LZW then site_check (spredictor_of params (lzw (early_change params) input))
    else if bytes_eqb filter F_A85 then site_check (sa85 input)
    else SiteOk tt.

  Definition decode_one_sites (filter : bytes) (params : option dict) (input : bytes) : sres bytes :=
    match stage_sites filter params input with
    | SiteOk _ => sres_of_res (decode_one inflate lzw filter params input)
    | SiteErr => SiteErr
    | SitePanic => SitePanic
    | SiteFuel => SiteFuel
    end.

  Fixpoint decode_loop_sites (d : dict) (fs : list bytes) (index : nat) (input output : bytes) : sres bytes :=
    match fs with
    | [] => SiteOk output
    | f :: fs' =>
      match decode_one_sites f (params_for d index) input with
      | SiteOk o => decode_loop_sites d fs' (S index) o o
      | e => e
      end
    end.

  Definition decompressed_sites (s : stream) : sres bytes :=
    match filters (s_dict s) with
    | Ok fs => decode_loop_sites (s_dict s) fs O (s_content s) []
    | Err _ => SiteErr
    | Panic => SitePanic
    | Fuel => SiteFuel
    end.

  Lemma site_check_ok {A} (m : M A) : no_panic m -> terminates m -> site_check m = SiteOk tt.
  Proof.
    unfold no_panic, terminates, site_check. destruct (outcome m); cbn [is_panic]; intros; try reflexivity; congruence.
  Qed.

  Lemma spredictor_of_ok params data : site_check (spredictor_of params data) = SiteOk tt.
  Proof.
    destruct params as [p|]; cbn [spredictor_of]; [|reflexivity].
    apply site_check_ok; [apply spredictor_no_panic | apply spredictor_terminates].
  Qed.

  Lemma stage_sites_ok filter params input : stage_sites filter params input = SiteOk tt.
  Proof.
    unfold stage_sites. destruct (bytes_eqb filter F_FLATE); [apply spredictor_of_ok|].
    destruct (bytes_eqb filter F_LZW); [apply spredictor_of_ok|].
    destruct (bytes_eqb filter F_A85); [|reflexivity].
    apply site_check_ok; [apply sa85_no_panic | apply sa85_terminates].
  Qed.

  Lemma decode_loop_sites_eq d : forall fs index input output,
    decode_loop_sites d fs index input output = sres_of_res (decode_loop inflate lzw d fs index input output).
  Proof.
    induction fs as [|f fs IH]; intros index input output; cbn [decode_loop_sites decode_loop]; [reflexivity|].
    unfold decode_one_sites. rewrite stage_sites_ok.
    destruct (decode_one inflate lzw f (params_for d index) input); cbn [sres_of_res]; try reflexivity. apply IH.
  Qed.

  (* the site-explicit chain is the value chain ... *)
  Theorem decompressed_sites_eq s : decompressed_sites s = sres_of_res (decompressed_content inflate lzw s).
  Proof.
    unfold decompressed_sites, decompressed_content.
    destruct (filters (s_dict s)); cbn [sres_of_res]; try reflexivity. apply decode_loop_sites_eq.
  Qed.

  (* ... and answers a value or an error on every stream *)
  Theorem decompressed_sites_returns s :
    (exists data, decompressed_sites s = SiteOk data) \/ decompressed_sites s = SiteErr.
  Proof.
    rewrite decompressed_sites_eq.
    destruct (decompressed_content_returns inflate lzw s) as [[data H]|[e H]]; rewrite H; cbn [sres_of_res]; eauto.
  Qed.
End Sites.
