(* IsoProofsDoc.v -- C06, document level, revisions 2-4: a document encrypted by the standard's writer
   (Iso.encrypt_document: Algorithms 3, 4/5, 2, 1; the encryption dictionary written with Iso.write_params, as an
   indirect object or directly in the trailer) is opened by lopdf (Handler.doc_decrypt_raw) with the user password
   and with the owner password, and the original objects and trailer come back.
   Built from the algorithm-level refinements (IsoProofs), the standard's own consistency (IsoProofsAuth), the
   object-level theorem (IsoProofsObj) and the dictionary / trailer / object-map glue proved here. *)
From LV Require Import Base.Bytes Base.Sx Model.Obj Model.DocQ Gen.Crypto
  Model.Crypto.Word Model.Crypto.RC4 Model.Crypto.PKCS5 Model.Crypto.Handler
  Spec.Crypto.Iso Spec.Crypto.IsoConcrete
  Proofs.CryptoProofs Proofs.CryptoProofsFilter Proofs.CryptoProofsObject Proofs.CryptoProofsDoc
  Proofs.IsoProofs Proofs.IsoProofsData Proofs.IsoProofsObj Proofs.IsoProofsFilter Proofs.IsoProofsAuth.
Local Open Scope N_scope.

(* ---------- looking up concrete keys in a dictionary with a concrete spine ---------- *)
Ltac keq := repeat match goal with |- context [bytes_eqb ?a ?b] =>
   let r := eval vm_compute in (bytes_eqb a b) in
   match r with true => idtac | false => idtac end;
   change (bytes_eqb a b) with r end.
Ltac dg := repeat (progress (cbn [dict_get]; keq; cbv iota)).

(* PasswordAlgorithm::try_from(&Document) as a function of the encryption dictionary *)
Definition palg_of_dict (e : dict) : res palg :=
    rlet em := match dict_get e K_EncryptMetadata with
               | None => Ok true
               | Some (OBool b) => Ok b
               | Some _ => Err D_InvalidType
               end in
    rlet length := match dict_get e K_Length with
                   | None => Ok None
                   | Some (OInt z) => if (z <? 0)%Z then Err E_TryFromInt else Ok (Some (Z.to_N z))
                   | Some _ => Err E_ObjectType
                   end in
    rlet version := match dict_get e K_V with
                    | None => Err D_MissingVersion
                    | Some (OInt z) => Ok z
                    | Some _ => Err D_InvalidType
                    end in
    rlet _ := (if (version =? 0)%Z then Err D_InvalidVersion
               else if (version =? 1)%Z || (version =? 2)%Z then Ok tt
               else if (version =? 3)%Z then Err D_InvalidVersion
               else if (version =? 4)%Z || (version =? 5)%Z then Ok tt
               else Err D_UnsupportedVersion) in
    rlet _ := match length with
              | Some _ => if (version <? 2)%Z then Err D_InvalidKeyLength else Ok tt
              | None => Ok tt
              end in
    (* V 5: the key is always 256 bits, the Length entry is ignored *)
    let length := if (version =? 5)%Z then None else length in
    rlet _ := match length with
              | Some l => if negb (l mod 8 =? 0) || negb ((KEYLEN_MIN <=? l) && (l <=? KEYLEN_MAX))
                          then Err D_InvalidKeyLength else Ok tt
              | None => Ok tt
              end in
    rlet revision := match dict_get e K_R with
                     | None => Err D_MissingRevision
                     | Some (OInt z) => Ok z
                     | Some _ => Err D_InvalidType
                     end in
    rlet ov := match dict_get e K_O with
               | None => Err D_MissingOwnerPassword
               | Some (OStr s _) => Ok s
               | Some _ => Err D_InvalidType
               end in
    if (revision <=? 4)%Z && negb (len_is ov 32) then Err D_InvalidHashLength
    else if (5 <=? revision)%Z && negb (len_is ov 48) then Err D_InvalidHashLength
    else
    let oe := opt_str (dict_get e K_OE) in
    if (5 <=? revision)%Z && negb (len_is oe 32) then Err D_InvalidCipherTextLength
    else
    rlet uv := match dict_get e K_U with
               | None => Err D_MissingUserPassword
               | Some (OStr s _) => Ok s
               | Some _ => Err D_InvalidType
               end in
    if (revision <=? 4)%Z && negb (len_is uv 32) then Err D_InvalidHashLength
    else if (5 <=? revision)%Z && negb (len_is uv 48) then Err D_InvalidHashLength
    else
    let ue := opt_str (dict_get e K_UE) in
    if (5 <=? revision)%Z && negb (len_is ue 32) then Err D_InvalidCipherTextLength
    else
    rlet pv := match dict_get e K_P with
               | None => Err D_MissingPermissions
               | Some (OInt z) => Ok z
               | Some _ => Err D_InvalidType
               end in
    let pe := opt_str (dict_get e K_Perms) in
    if (5 <=? revision)%Z && negb (len_is pe 16) then Err D_InvalidCipherTextLength
    else
    Ok {| pa_encrypt_metadata := em; pa_length := length; pa_version := version; pa_revision := revision;
          pa_O := ov; pa_OE := oe; pa_U := uv; pa_UE := ue; pa_perms := perms_of_Z pv; pa_perms_enc := pe |}.

Lemma palg_of_doc_eq d :
  palg_of_doc d = match get_encrypted d with None => Err D_MissingEncryptDictionary | Some e => palg_of_dict e end.
Proof. reflexivity. Qed.

(* ---------- the versions the standard defines for revisions 2-4 (Table 20: V 1 / R 2 with 40 bits; V 2 / R 3 with
   40..128 bits; V 4 / R 4 with 128 bits), with EncryptMetadata meaningful for V 4 only ---------- *)
Definition key_length_ok (L : N) : Prop := 40 <= L <= 128 /\ L mod 8 = 0.

Definition shape_r4 (ip : iparams) : Prop :=
  (ip_V ip = 1%Z /\ ip_R ip = 2%Z /\ ip_EncryptMetadata ip = true) \/
  (ip_V ip = 2%Z /\ ip_R ip = 3%Z /\ key_length_ok (ip_Length ip) /\ ip_EncryptMetadata ip = true) \/
  (ip_V ip = 4%Z /\ ip_R ip = 4%Z /\ ip_Length ip = 128).

Definition palg_of_ip (ip : iparams) : palg :=
  {| pa_encrypt_metadata := ip_EncryptMetadata ip;
     pa_length := (if (ip_V ip =? 1)%Z || (ip_V ip =? 5)%Z then None else Some (ip_Length ip));
     pa_version := ip_V ip; pa_revision := ip_R ip;
     pa_O := ip_O ip; pa_OE := (if (5 <=? ip_R ip)%Z then ip_OE ip else []);
     pa_U := ip_U ip; pa_UE := (if (5 <=? ip_R ip)%Z then ip_UE ip else []);
     pa_perms := perms_of_Z (ip_P ip);
     pa_perms_enc := (if (5 <=? ip_R ip)%Z then ip_Perms ip else []) |}.

Lemma len_is_true s n : length s = n -> len_is s n = true.
Proof. intro H. unfold len_is. rewrite H. apply Nat.eqb_refl. Qed.

Lemma key_length_checks L : key_length_ok L ->
  (Z.of_N L <? 0)%Z = false /\ negb (L mod 8 =? 0) || negb ((KEYLEN_MIN <=? L) && (L <=? KEYLEN_MAX)) = false.
Proof.
  intros [[H1 H2] H3]. split; [apply Z.ltb_ge; lia|].
  rewrite H3. change KEYLEN_MIN with 40. change KEYLEN_MAX with 128.
  destruct (N.leb_spec 40 L); [|lia]. destruct (N.leb_spec L 128); [|lia]. reflexivity.
Qed.

Theorem palg_of_write_params ip : shape_r4 ip -> length (ip_O ip) = 32%nat -> length (ip_U ip) = 32%nat ->
  palg_of_dict (write_params ip) = Ok (palg_of_ip ip).
Proof.
  destruct ip as [V R L O U OE UE Perms Pz em CF StmF StrF EFF]. unfold shape_r4, palg_of_ip. cbn [ip_V ip_R ip_Length ip_O ip_U
    ip_OE ip_UE ip_Perms ip_P ip_EncryptMetadata ip_CF ip_StmF ip_StrF ip_EFF].
  intros Hs HO HU.
  destruct Hs as [(-> & -> & ->)|[(-> & -> & HL & ->)|(-> & -> & ->)]].
  - unfold write_params, palg_of_dict. cbn [ip_V ip_R ip_Length ip_O ip_U ip_OE ip_UE ip_Perms ip_P ip_EncryptMetadata ip_CF
      ip_StmF ip_StrF ip_EFF Z.eqb Pos.eqb Z.leb Z.ltb Z.compare Pos.compare Pos.compare_cont orb andb app].
    dg. cbn [rbind Z.eqb Pos.eqb Z.leb Z.ltb Z.compare Pos.compare Pos.compare_cont orb andb negb].
    rewrite !(len_is_true _ 32) by assumption. reflexivity.
  - destruct (key_length_checks L HL) as [C1 C2].
    unfold write_params, palg_of_dict. cbn [ip_V ip_R ip_Length ip_O ip_U ip_OE ip_UE ip_Perms ip_P ip_EncryptMetadata ip_CF
      ip_StmF ip_StrF ip_EFF Z.eqb Pos.eqb Z.leb Z.ltb Z.compare Pos.compare Pos.compare_cont orb andb app].
    dg. rewrite C1. cbn [rbind Z.eqb Pos.eqb Z.leb Z.ltb Z.compare Pos.compare Pos.compare_cont orb andb negb].
    rewrite N2Z.id, C2. cbn [rbind Z.eqb Pos.eqb Z.leb Z.ltb Z.compare Pos.compare Pos.compare_cont orb andb negb].
    rewrite !(len_is_true _ 32) by assumption. reflexivity.
  - unfold write_params, palg_of_dict. cbn [ip_V ip_R ip_Length ip_O ip_U ip_OE ip_UE ip_Perms ip_P ip_EncryptMetadata ip_CF
      ip_StmF ip_StrF ip_EFF Z.eqb Pos.eqb Z.leb Z.ltb Z.compare Pos.compare Pos.compare_cont orb andb app].
    destruct EFF as [eff|]; destruct em; cbn [app]; dg;
      cbn [rbind Z.eqb Pos.eqb Z.leb Z.ltb Z.compare Pos.compare Pos.compare_cont orb andb negb Z.of_N Z.to_N];
      rewrite !(len_is_true _ 32) by assumption; reflexivity.
Qed.

Lemma matches_of_ip ip : shape_r4 ip -> conforming_P (ip_P ip) = true ->
  matches_r4 (palg_of_ip ip) (ip_R ip) (ip_Length ip) (ip_O ip) (ip_U ip) (ip_P ip) (ip_EncryptMetadata ip).
Proof.
  intros Hs HP. unfold shape_r4, key_length_ok in Hs.
  destruct Hs as [(HV & HR & _)|[(HV & HR & HL & _)|(HV & HR & HL)]]; constructor; cbn [palg_of_ip pa_revision pa_length pa_O pa_U
    pa_perms pa_encrypt_metadata]; rewrite ?HV, ?HR; try reflexivity; try assumption; try lia;
    try (intro H; discriminate H); intros _; try rewrite HL; lia.
Qed.

(* ---------- BTreeMap lookups ---------- *)
Lemma bt_get_insert m k v q : bt_get (bt_insert m k v) q = if bytes_eqb k q then Some v else bt_get m q.
Proof.
  induction m as [|[k' v'] m IH]; cbn [bt_insert bt_get]; [reflexivity|].
  destruct (bytes_eqb k' k) eqn:E.
  - apply bytes_eqb_eq in E. subst k'. cbn [bt_get]. destruct (bytes_eqb k q); reflexivity.
  - destruct (bytes_ltb k k'); cbn [bt_get]; [reflexivity|].
    rewrite IH. destruct (bytes_eqb k' q) eqn:E2; [|reflexivity].
    apply bytes_eqb_eq in E2. subst q. rewrite bytes_eqb_sym, E. reflexivity.
Qed.

Definition ins_cf (m : cfmap) (nc : bytes * icfm) : cfmap := bt_insert m (fst nc) (meth_cfm (method_of_cfm (snd nc))).

Lemma cf_lookup_notin cf q : ~ In q (map fst cf) -> cf_lookup cf q = None.
Proof.
  induction cf as [|[n c] cf IH]; intro H; [reflexivity|]. cbn [cf_lookup].
  destruct (bytes_eqb n q) eqn:E; [apply bytes_eqb_eq in E; exfalso; apply H; left; exact E|].
  apply IH. intro Hin. apply H. right. exact Hin.
Qed.

Lemma bt_get_fold cf : NoDup (map fst cf) -> forall m q,
  bt_get (fold_left ins_cf cf m) q =
  match cf_lookup cf q with Some c => Some (meth_cfm (method_of_cfm c)) | None => bt_get m q end.
Proof.
  induction cf as [|[n c] cf IH]; intros ND m q; [reflexivity|].
  cbn [map fst] in ND. inversion ND as [|? ? Hn ND']; subst.
  cbn [fold_left cf_lookup]. rewrite (IH ND'). unfold ins_cf. cbn [fst snd]. rewrite bt_get_insert.
  destruct (bytes_eqb n q) eqn:E; [|reflexivity].
  apply bytes_eqb_eq in E. subst q. rewrite (cf_lookup_notin cf n Hn). reflexivity.
Qed.

Lemma cf_agree_fold cf : NoDup (map fst cf) -> cf_agree (fold_left ins_cf cf []) cf.
Proof. intros ND q. rewrite (bt_get_fold cf ND). destruct (cf_lookup cf q); reflexivity. Qed.

(* Document::get_crypt_filters on the CF dictionary the standard's writer wrote *)
Definition gcf_step (m : cfmap) (nf : bytes * obj) : cfmap :=
  match snd nf with
  | ODict f =>
    if dict_has f K_Type && negb (has_type f N_CryptFilter) then m
    else match dict_get f K_CFM with
         | Some (OName n) =>
           if bytes_eqb n N_V2 then bt_insert m (fst nf) CF_RC4
           else if bytes_eqb n N_AESV2 then bt_insert m (fst nf) CF_AESV2
           else if bytes_eqb n N_AESV3 then bt_insert m (fst nf) CF_AESV3
           else if bytes_eqb n N_None || bytes_eqb n N_Identity then bt_insert m (fst nf) CF_Identity
           else m
         | _ => bt_insert m (fst nf) CF_Identity
         end
  | _ => m
  end.

Lemma gcf_write_cf cf : forall m, fold_left gcf_step (write_cf cf) m = fold_left ins_cf cf m.
Proof.
  induction cf as [|[n c] cf IH]; intro m; [reflexivity|].
  cbn [write_cf map fold_left]. fold (write_cf cf). rewrite <- IH. f_equal.
  unfold gcf_step, ins_cf. cbn [fst snd]. destruct c; reflexivity.
Qed.

Lemma get_crypt_filters_eq D e cf : get_encrypted D = Some e -> dict_get e K_CF = Some (ODict (write_cf cf)) ->
  get_crypt_filters D = fold_left ins_cf cf [].
Proof.
  intros H1 H2. unfold get_crypt_filters. rewrite H1, H2. apply (gcf_write_cf cf []).
Qed.

(* ---------- the entries EncryptionState::decode reads ---------- *)
Lemma write_params_filter ip : dict_get (write_params ip) K_Filter = Some (OName N_Standard).
Proof. reflexivity. Qed.

Lemma write_params_v4 ip : ip_V ip = 4%Z -> ip_R ip = 4%Z ->
  dict_get (write_params ip) K_CF = Some (ODict (write_cf (ip_CF ip))) /\
  dict_get (write_params ip) K_StmF = Some (OName (ip_StmF ip)) /\
  dict_get (write_params ip) K_StrF = Some (OName (ip_StrF ip)) /\
  dict_get (write_params ip) K_EFF = option_map OName (ip_EFF ip).
Proof.
  destruct ip as [V R L O U OE UE Perms Pz em CF StmF StrF EFF].
  cbn [ip_V ip_R ip_Length ip_O ip_U ip_OE ip_UE ip_Perms ip_P ip_EncryptMetadata ip_CF ip_StmF ip_StrF ip_EFF].
  intros -> ->. unfold write_params.
  cbn [ip_V ip_R ip_Length ip_O ip_U ip_OE ip_UE ip_Perms ip_P ip_EncryptMetadata ip_CF
      ip_StmF ip_StrF ip_EFF Z.eqb Pos.eqb Z.leb Z.ltb Z.compare Pos.compare Pos.compare_cont orb andb app].
  destruct EFF as [eff|]; destruct em; cbn [app option_map]; repeat split; dg; reflexivity.
Qed.

(* the state lopdf decodes from the dictionary the standard's writer wrote, given the key *)
Definition st_of (ip : iparams) (k : bytes) : estate :=
  let v45 := (ip_V ip =? 4)%Z || (ip_V ip =? 5)%Z in
  {| es_version := ip_V ip; es_revision := ip_R ip; es_key_length := pa_length (palg_of_ip ip);
     es_encrypt_metadata := ip_EncryptMetadata ip;
     es_crypt_filters := (if (ip_V ip <? 4)%Z then [] else fold_left ins_cf (ip_CF ip) []);
     es_key := k;
     es_stmf := (if v45 then ip_StmF ip else []); es_strf := (if v45 then ip_StrF ip else []);
     es_eff := (if v45 then ip_EFF ip else None);
     es_O := ip_O ip; es_OE := pa_OE (palg_of_ip ip); es_U := ip_U ip; es_UE := pa_UE (palg_of_ip ip);
     es_perms := perms_of_Z (ip_P ip); es_perms_enc := pa_perms_enc (palg_of_ip ip) |}.

(* the crypt filter part of a conforming encryption dictionary (7.6.6): names are defined once, Identity is not
   redefined, StmF / StrF / EFF name defined filters, and the AES-256 method belongs to V 5 *)
Record cf_ok4 (ip : iparams) : Prop := {
  co_nodup : NoDup (map fst (ip_CF ip));
  co_identity : cf_lookup (ip_CF ip) iN_Identity = None;
  co_stmf : defined ip (ip_StmF ip);
  co_strf : defined ip (ip_StrF ip);
  co_eff : forall e, ip_EFF ip = Some e -> defined ip e;
  co_v4 : ip_V ip = 4%Z -> Forall (fun nc => snd nc <> ICF_AESV3) (ip_CF ip);
}.
(* crypt filters are meaningful for V 4 and 5 only *)
Definition cf_ok (ip : iparams) : Prop := (ip_V ip <? 4)%Z = false -> cf_ok4 ip.

Lemma resolve_v4_ok ip fek n : Forall (fun nc => snd nc <> ICF_AESV3) (ip_CF ip) -> length fek = 16%nat ->
  method_ok (resolve ip n) fek.
Proof.
  intros HF HL. unfold resolve. destruct (bytes_eqb n iN_Identity); [exact I|].
  induction HF as [|[m c] cf Hc _ IH]; cbn [cf_lookup]; [exact I|].
  destruct (bytes_eqb m n); [|exact IH].
  destruct c; cbn [method_of_cfm method_ok]; try exact I; [lia|]. exfalso. apply Hc. reflexivity.
Qed.

Lemma state_matches_st_of ip k : shape_r4 ip -> cf_ok ip -> length k = key_bytes (ip_R ip) (ip_Length ip) ->
  state_matches (st_of ip k) ip k.
Proof.
  intros Hs CO HL. unfold shape_r4, key_length_ok in Hs.
  assert (Hk1 : (1 <= length k)%nat).
  { rewrite HL. unfold key_bytes. destruct Hs as [(_ & -> & _)|[(_ & -> & (HLr & _) & _)|(_ & -> & ->)]].
    - cbn [Z.eqb Pos.eqb]. lia.
    - cbn [Z.eqb Pos.eqb]. assert (5 <= ip_Length ip / 8) by (apply N.div_le_lower_bound; lia). lia.
    - vm_compute. lia. }
  constructor; cbn [st_of es_key es_encrypt_metadata es_crypt_filters es_stmf es_strf es_eff]; try reflexivity; try assumption.
  - intro HV. rewrite HV. destruct Hs as [(E & _)|[(E & _)|(E & _)]]; rewrite E in *; try discriminate; repeat split; reflexivity.
  - intro HV. rewrite HV. apply cf_agree_fold. exact (co_nodup _ (CO HV)).
  - intro HV. specialize (CO HV). destruct Hs as [(E & _)|[(E & _)|(E & _)]]; rewrite E in *; try discriminate. split; [reflexivity|exact (co_stmf _ CO)].
  - intro HV. specialize (CO HV). destruct Hs as [(E & _)|[(E & _)|(E & _)]]; rewrite E in *; try discriminate. split; [reflexivity|exact (co_strf _ CO)].
  - intro HV. exact (co_identity _ (CO HV)).
  - intro HV. specialize (CO HV). destruct Hs as [(E & _)|[(E & _)|(E & _)]]; rewrite E in *; try discriminate. split; [reflexivity|exact (co_eff _ CO)].
  - intros HV n. specialize (CO HV). destruct Hs as [(E & _)|[(E & _)|(E & ER & EL)]]; rewrite E in *; try discriminate.
    apply resolve_v4_ok; [exact (co_v4 _ CO E)|]. rewrite HL, ER, EL. reflexivity.
Qed.

(* ---------- the object map ---------- *)
Lemma iso_objects_rt P (md5_len : forall m, length (p_md5 P m) = 16%nat) st ip fek skip m :
  aes_ok P -> agree st ip fek -> Forall (fun io => indirect_ok ip (snd io)) m ->
  (forall s, skip = Some s -> ~ In s (map fst m)) -> forall ivs,
  Handler.decrypt_objects P st skip (fst (Iso.encrypt_objects (iprims_of P) ip fek m ivs)) = Ok (norm_objs st m).
Proof.
  intros HA AG Hm. induction Hm as [|[id o] m Ho _ IH]; intros Hs ivs; [reflexivity|]. cbn [snd] in Ho.
  cbn [Iso.encrypt_objects fst snd Handler.decrypt_objects norm_objs map].
  assert (E : (match skip with Some s => oid_eqb id s | None => false end) = false).
  { destruct skip as [s|]; [|reflexivity]. apply oid_eqb_false. intro E. subst s.
    apply (Hs id eq_refl). left. reflexivity. }
  rewrite E. rewrite (iso_encrypt_lopdf_decrypt_object P md5_len st ip fek id o ivs HA AG Ho). cbn [rbind].
  fold (norm_objs st m). rewrite IH; [reflexivity|].
  intros s Es Hin. apply (Hs s Es). right. exact Hin.
Qed.

Lemma iso_encrypt_objects_keys I ip fek m : forall ivs, map fst (fst (Iso.encrypt_objects I ip fek m ivs)) = map fst m.
Proof.
  induction m as [|[id o] m IH]; intro ivs; [reflexivity|]. cbn [Iso.encrypt_objects fst snd map]. rewrite IH. reflexivity.
Qed.

Section DocR4.
Variable P : prims.
Hypothesis md5_len : forall m, length (p_md5 P m) = 16%nat.
Let I := iprims_of P.

(* 7.6.4.4: the key for a supplied password, revisions 2-4 (Iso.open_key) *)
Definition open_r4 (ip : iparams) (id0 pw : bytes) : option bytes :=
  match alg6 I (ip_R ip) (ip_Length ip) (ip_O ip) (ip_U ip) (ip_P ip) id0 (ip_EncryptMetadata ip) pw with
  | Some k => Some k
  | None => alg7 I (ip_R ip) (ip_Length ip) (ip_O ip) (ip_U ip) (ip_P ip) id0 (ip_EncryptMetadata ip) pw
  end.

Lemma open_key_r4_eq ip id0 pw : (ip_R ip <=? 4)%Z = true -> open_key I ip id0 pw = open_r4 ip id0 pw.
Proof. intro H. unfold open_key, open_r4. rewrite H. reflexivity. Qed.

Lemma open_r4_length ip id0 pw k : shape_r4 ip -> conforming_P (ip_P ip) = true ->
  open_r4 ip id0 pw = Some k -> length k = key_bytes (ip_R ip) (ip_Length ip).
Proof.
  intros Hs HP H. pose proof (matches_of_ip ip Hs HP) as M. unfold open_r4, alg7, alg6 in H.
  repeat match type of H with context [if ?c then _ else _] => destruct c end; inversion H; subst k;
    apply (alg2_length P md5_len _ _ _ _ _ _ _ id0 _ M).
Qed.

Section Dec.
Variables (D : doc) (ip : iparams) (id0 pw k : bytes).
Hypothesis Hge : get_encrypted D = Some (write_params ip).
Hypothesis Hs : shape_r4 ip.
Hypothesis HP : conforming_P (ip_P ip) = true.
Hypothesis HO : length (ip_O ip) = 32%nat.
Hypothesis HU : length (ip_U ip) = 32%nat.
Hypothesis Hid : file_id_0 D = Ok id0.
Hypothesis Hopen : open_r4 ip id0 pw = Some k.

Lemma palg_write : palg_of_doc D = Ok (palg_of_ip ip).
Proof. rewrite palg_of_doc_eq, Hge. apply palg_of_write_params; assumption. Qed.

Lemma decode_write : decode P D pw = Ok (st_of ip k).
Proof.
  pose proof (matches_of_ip ip Hs HP) as M.
  unfold decode. rewrite Hge, write_params_filter. rewrite bytes_eqb_refl. cbn [negb].
  rewrite palg_write. cbn [rbind].
  rewrite (open_key_r4_refines P md5_len _ _ _ _ _ _ _ D id0 pw k M Hid HU Hopen). cbn [rbind].
  unfold st_of. cbn [palg_of_ip pa_version pa_revision pa_length pa_encrypt_metadata pa_O pa_OE pa_U pa_UE pa_perms pa_perms_enc].
  unfold shape_r4 in Hs. destruct Hs as [(EV & ER & _)|[(EV & ER & _)|(EV & ER & _)]]; rewrite ?EV, ?ER.
  - reflexivity.
  - reflexivity.
  - destruct (write_params_v4 ip EV ER) as (C1 & C2 & C3 & C4).
    rewrite (get_crypt_filters_eq D _ _ Hge C1), C2, C3, C4.
    cbn [Z.eqb Pos.eqb Z.ltb Z.leb Z.compare Pos.compare Pos.compare_cont orb].
    destruct (ip_EFF ip); reflexivity.
Qed.

Lemma auth_write : authenticate_raw_password P D pw = Ok tt.
Proof.
  pose proof (matches_of_ip ip Hs HP) as M.
  unfold authenticate_raw_password, is_encrypted. rewrite Hge. cbn [negb]. rewrite palg_write. cbn [rbind].
  assert (Hrev : rev_2_4 (palg_of_ip ip) = true).
  { unfold rev_2_4. cbn [palg_of_ip pa_revision]. unfold shape_r4 in Hs.
    destruct Hs as [(_ & -> & _)|[(_ & -> & _)|(_ & -> & _)]]; reflexivity. }
  unfold auth_owner, auth_user. rewrite Hrev.
  rewrite (alg7_refines P md5_len _ _ _ _ _ _ _ D id0 pw M Hid HU), (alg6_refines P md5_len _ _ _ _ _ _ _ D id0 pw M Hid HU).
  unfold open_r4 in Hopen. fold I.
  destruct (alg6 I _ _ _ _ _ id0 _ pw); [destruct (alg7 I _ _ _ _ _ id0 _ pw); reflexivity|].
  rewrite Hopen. reflexivity.
Qed.
End Dec.

(* ---------- the document the standard's writer produces ---------- *)
Definition enc_doc (ip : iparams) (objs : objmap) (eid : option oid) (d : doc) : doc :=
  match eid with
  | Some eid =>
    {| d_version := d_version d; d_binary_mark := d_binary_mark d;
       d_trailer := dict_set (d_trailer d) iK_Encrypt (ORef (fst eid) (snd eid));
       d_objects := insert objs eid (ODict (write_params ip));
       d_max_id := N.max (d_max_id d) (fst eid) |}
  | None =>
    {| d_version := d_version d; d_binary_mark := d_binary_mark d;
       d_trailer := dict_set (d_trailer d) iK_Encrypt (ODict (write_params ip));
       d_objects := objs;
       d_max_id := d_max_id d |}
  end.

Lemma encrypt_document_eq rq eid rnd ivs d :
  encrypt_document I rq eid rnd ivs d =
  let ipk := make_params I rq (file_id0 (d_trailer d)) rnd in
  enc_doc (fst ipk) (fst (Iso.encrypt_objects I (fst ipk) (snd ipk) (d_objects d) ivs)) eid d.
Proof. unfold encrypt_document. destruct (make_params I rq (file_id0 (d_trailer d)) rnd) as [ip fek]. reflexivity. Qed.

Lemma get_encrypted_enc_doc ip objs eid d : get_encrypted (enc_doc ip objs eid d) = Some (write_params ip).
Proof.
  destruct eid as [id|]; unfold enc_doc.
  - apply get_encrypted_after.
  - unfold get_encrypted. cbn [d_trailer]. change iK_Encrypt with K_Encrypt. rewrite dget_set_same. reflexivity.
Qed.

Lemma file_id_enc_doc ip objs eid d : file_id_0 (enc_doc ip objs eid d) = file_id_0 d.
Proof.
  unfold file_id_0. destruct eid as [id|]; unfold enc_doc; cbn [d_trailer];
    rewrite dget_set_other by (cbv; discriminate); reflexivity.
Qed.

Lemma file_id0_eq d id0 : file_id_0 d = Ok id0 -> file_id0 (d_trailer d) = id0.
Proof.
  unfold file_id_0, file_id0. change iK_ID with K_ID.
  destruct (dict_get (d_trailer d) K_ID) as [[| | | | | |[|[| | | | | s h | | | |] l]| | |]|]; intro H; inversion H; reflexivity.
Qed.

(* the plain document: no Encrypt entry yet, the number chosen for the encryption dictionary is unused, every
   indirect object is well formed (direct objects hold no streams, Filter entries are names), object streams are
   expanded (a loaded document; property C08's subject otherwise) *)
Record doc_ok (ip : iparams) (d : doc) (eid : option oid) : Prop := {
  dk_trailer : dict_get (d_trailer d) K_Encrypt = None;
  dk_fresh : forall s, eid = Some s -> ~ In s (map fst (d_objects d));
  dk_objs : Forall (fun io => indirect_ok ip (snd io)) (d_objects d);
  dk_objstm : has_objstm (d_objects d) = false;
}.

Definition opened_doc (d : doc) (eid : option oid) (st : estate) : doc :=
  {| d_version := d_version d; d_binary_mark := d_binary_mark d; d_trailer := d_trailer d;
     d_objects := norm_objs st (d_objects d);
     d_max_id := match eid with Some e => N.max (d_max_id d) (fst e) | None => d_max_id d end |}.

(* the part that does not depend on the revision: authentication succeeded, decode recovered a state that agrees
   with the writer's parameters *)
Lemma lopdf_opens_generic ip fek st eid d ivs pw :
  aes_ok P -> agree st ip fek -> doc_ok ip d eid ->
  let D := enc_doc ip (fst (Iso.encrypt_objects I ip fek (d_objects d) ivs)) eid d in
  authenticate_raw_password P D pw = Ok tt -> decode P D pw = Ok st ->
  doc_decrypt_raw P D pw = DOk (opened_doc d eid st) st.
Proof.
  intros HA AG DK D Hauth Hdec.
  set (objs := fst (Iso.encrypt_objects I ip fek (d_objects d) ivs)) in *.
  assert (Hge : get_encrypted D = Some (write_params ip)) by apply get_encrypted_enc_doc.
  assert (Hkeys : map fst objs = map fst (d_objects d)) by apply iso_encrypt_objects_keys.
  unfold doc_decrypt_raw, doc_decrypt_raw_x, is_encrypted. rewrite Hge. cbn [negb]. rewrite Hauth, Hdec.
  unfold opened_doc. destruct eid as [[i g]|]; [set (id := (i, g)) in *|]; unfold D, enc_doc;
    cbn [d_trailer d_objects d_version d_binary_mark d_max_id];
    change iK_Encrypt with K_Encrypt; rewrite dget_set_same.
  - assert (Hfresh : ~ In id (map fst (d_objects d))) by (apply (dk_fresh _ _ _ DK); reflexivity).
    change (fst id, snd id) with id.
    rewrite decrypt_objects_insert by (rewrite Hkeys; exact Hfresh).
    unfold objs. rewrite (iso_objects_rt P md5_len _ ip fek (Some id) _ HA AG (dk_objs _ _ _ DK)).
    2:{ intros s Es. inversion Es; subst s. exact Hfresh. }
    cbn [rbind].
    assert (Hfresh2 : ~ In id (map fst (norm_objs st (d_objects d)))).
    { unfold norm_objs. rewrite map_map. cbn [fst]. exact Hfresh. }
    rewrite objstm_pass_none by (rewrite has_objstm_insert_fresh by exact Hfresh2; rewrite has_objstm_norm; exact (dk_objstm _ _ _ DK)).
    rewrite remove_insert_fresh by exact Hfresh2.
    rewrite swap_remove_set_fresh by exact (dk_trailer _ _ _ DK). reflexivity.
  - unfold objs. rewrite (iso_objects_rt P md5_len _ ip fek None _ HA AG (dk_objs _ _ _ DK)) by (intros s Es; discriminate Es).
    rewrite objstm_pass_none by (rewrite has_objstm_norm; exact (dk_objstm _ _ _ DK)).
    rewrite swap_remove_set_fresh by exact (dk_trailer _ _ _ DK). reflexivity.
Qed.

(* lopdf opens what the standard's writer wrote, for ANY parameters [ip] of revisions 2-4 and key [fek] the
   standard's opening procedure yields for the password *)
Theorem lopdf_opens_r4 ip fek eid d ivs id0 pw :
  aes_ok P -> shape_r4 ip -> cf_ok ip -> conforming_P (ip_P ip) = true ->
  length (ip_O ip) = 32%nat -> length (ip_U ip) = 32%nat ->
  doc_ok ip d eid -> file_id_0 d = Ok id0 ->
  open_r4 ip id0 pw = Some fek ->
  doc_decrypt_raw P (enc_doc ip (fst (Iso.encrypt_objects I ip fek (d_objects d) ivs)) eid d) pw =
  DOk (opened_doc d eid (st_of ip fek)) (st_of ip fek).
Proof.
  intros HA Hs CO HP HO HU DK Hid Hopen.
  set (D := enc_doc ip (fst (Iso.encrypt_objects I ip fek (d_objects d) ivs)) eid d).
  assert (Hge : get_encrypted D = Some (write_params ip)) by apply get_encrypted_enc_doc.
  assert (HidD : file_id_0 D = Ok id0) by (unfold D; rewrite file_id_enc_doc; exact Hid).
  assert (AG : agree (st_of ip fek) ip fek).
  { apply agree_of_state. apply state_matches_st_of; try assumption.
    apply (open_r4_length ip id0 pw fek Hs HP Hopen). }
  apply (lopdf_opens_generic ip fek (st_of ip fek) eid d ivs pw HA AG DK).
  - exact (auth_write D ip id0 pw fek Hge Hs HP HO HU HidD Hopen).
  - exact (decode_write D ip id0 pw fek Hge Hs HP HO HU HidD Hopen).
Qed.

End DocR4.

(* ---------- from the request of the standard's writer ---------- *)
Section DocR4Req.
Variable P : prims.
Hypothesis md5_len : forall m, length (p_md5 P m) = 16%nat.
Let I := iprims_of P.

(* Document::decrypt: the revision dispatch of sanitize_password in front of decrypt_raw *)
Lemma doc_decrypt_raw_eq ip objs eid d pw : shape_r4 ip -> length (ip_O ip) = 32%nat -> length (ip_U ip) = 32%nat ->
  doc_decrypt P (enc_doc ip objs eid d) pw = doc_decrypt_raw P (enc_doc ip objs eid d) pw.
Proof.
  intros Hs HO HU. unfold doc_decrypt, doc_decrypt_x, is_encrypted. rewrite get_encrypted_enc_doc. cbn [negb].
  rewrite palg_of_doc_eq, get_encrypted_enc_doc, (palg_of_write_params ip Hs HO HU).
  unfold sanitize_password. cbn [palg_of_ip pa_revision]. unfold shape_r4 in Hs.
  destruct Hs as [(_ & -> & _)|[(_ & -> & _)|(_ & -> & _)]]; reflexivity.
Qed.

(* what the user of the standard's writer asks for, as parameters without the computed values *)
Definition rq_core (rq : irequest) : iparams :=
  {| ip_V := rq_V rq; ip_R := rq_R rq; ip_Length := rq_Length rq; ip_O := []; ip_U := []; ip_OE := []; ip_UE := [];
     ip_Perms := []; ip_P := rq_P rq; ip_EncryptMetadata := rq_EncryptMetadata rq; ip_CF := rq_CF rq;
     ip_StmF := rq_StmF rq; ip_StrF := rq_StrF rq; ip_EFF := rq_EFF rq |}.

Record request_ok_r4 (rq : irequest) : Prop := {
  ro_shape : shape_r4 (rq_core rq);
  ro_cf : cf_ok (rq_core rq);
  ro_P : conforming_P (rq_P rq) = true;
}.

Definition ip_r4 (rq : irequest) (id0 : bytes) (rnd : list bytes) : iparams :=
  let O := make_O P (rq_R rq) (rq_Length rq) (rq_owner rq) (rq_user rq) in
  {| ip_V := rq_V rq; ip_R := rq_R rq; ip_Length := rq_Length rq; ip_O := O;
     ip_U := make_U P (rq_R rq) (rq_Length rq) O (rq_P rq) id0 (rq_EncryptMetadata rq) (rq_user rq) (Iso.draw rnd 0);
     ip_OE := []; ip_UE := []; ip_Perms := []; ip_P := rq_P rq; ip_EncryptMetadata := rq_EncryptMetadata rq;
     ip_CF := rq_CF rq; ip_StmF := rq_StmF rq; ip_StrF := rq_StrF rq; ip_EFF := rq_EFF rq |}.
Definition fek_r4 (rq : irequest) (id0 : bytes) : bytes :=
  alg2 I (rq_R rq) (rq_Length rq) (make_O P (rq_R rq) (rq_Length rq) (rq_owner rq) (rq_user rq)) (rq_P rq) id0
       (rq_EncryptMetadata rq) (rq_user rq).

Lemma make_params_r4 rq id0 rnd : (rq_R rq <=? 4)%Z = true ->
  make_params I rq id0 rnd = (ip_r4 rq id0 rnd, fek_r4 rq id0).
Proof. intro H. unfold make_params. rewrite H. reflexivity. Qed.

Lemma shape_r4_R ip : shape_r4 ip -> (2 <= ip_R ip <= 4)%Z.
Proof. unfold shape_r4. intros [(_ & -> & _)|[(_ & -> & _)|(_ & -> & _)]]; lia. Qed.

Section Req.
Variables (rq : irequest) (eid : option oid) (rnd ivs : list bytes) (d : doc) (id0 : bytes).
Hypothesis HA : aes_ok P.
Hypothesis RO : request_ok_r4 rq.
Hypothesis DK : doc_ok (rq_core rq) d eid.
Hypothesis Hid : file_id_0 d = Ok id0.

Let ip := ip_r4 rq id0 rnd.
Let fek := fek_r4 rq id0.

Lemma req_shape : shape_r4 ip.
Proof. exact (ro_shape _ RO). Qed.
Lemma req_R : (2 <= rq_R rq <= 4)%Z.
Proof. exact (shape_r4_R _ req_shape). Qed.
Lemma req_cf : cf_ok ip.
Proof. intro HV. destruct (ro_cf _ RO HV). constructor; assumption. Qed.
Lemma req_doc : doc_ok ip d eid.
Proof. destruct DK. constructor; assumption. Qed.

Lemma encrypt_document_r4 :
  encrypt_document I rq eid rnd ivs d = enc_doc ip (fst (Iso.encrypt_objects I ip fek (d_objects d) ivs)) eid d.
Proof.
  unfold I. rewrite encrypt_document_eq, (file_id0_eq d id0 Hid). fold I. rewrite make_params_r4; [reflexivity|].
  pose proof req_R. apply Z.leb_le. lia.
Qed.

Lemma opens_with pw : open_r4 P ip id0 pw = Some fek ->
  doc_decrypt P (encrypt_document I rq eid rnd ivs d) pw = DOk (opened_doc d eid (st_of ip fek)) (st_of ip fek).
Proof.
  intro Hopen. rewrite encrypt_document_r4.
  assert (HO : length (ip_O ip) = 32%nat) by apply (alg3_length P).
  assert (HU : length (ip_U ip) = 32%nat) by apply (make_U_length P md5_len).
  rewrite (doc_decrypt_raw_eq ip _ eid d pw req_shape HO HU).
  apply (lopdf_opens_r4 P md5_len ip fek eid d ivs id0 pw HA req_shape req_cf (ro_P _ RO) HO HU req_doc Hid Hopen).
Qed.

(* the user password *)
Theorem iso_encrypt_lopdf_decrypt_user_r4 :
  doc_decrypt P (encrypt_document I rq eid rnd ivs d) (rq_user rq) =
  DOk (opened_doc d eid (st_of ip fek)) (st_of ip fek).
Proof. apply opens_with. apply (open_key_user_r4 P md5_len). exact req_R. Qed.

(* the owner password (one that Algorithm 6 does not take for the user password, see IsoProofsAuth) *)
Theorem iso_encrypt_lopdf_decrypt_owner_r4 opw : rq_owner rq = Some opw ->
  alg6 I (rq_R rq) (rq_Length rq) (ip_O ip) (ip_U ip) (rq_P rq) id0 (rq_EncryptMetadata rq) opw = None ->
  doc_decrypt P (encrypt_document I rq eid rnd ivs d) opw =
  DOk (opened_doc d eid (st_of ip fek)) (st_of ip fek).
Proof.
  intros Ho H6. apply opens_with. unfold open_r4, ip, fek, ip_r4, fek_r4 in *.
  cbn [ip_R ip_Length ip_O ip_U ip_P ip_EncryptMetadata] in *. rewrite Ho in *.
  apply (open_key_owner_r4 P md5_len); [exact req_R | exact H6].
Qed.
End Req.
End DocR4Req.

(* with streams that carry their own Length the opened document IS the plain document (up to max_id) *)
Lemma opened_doc_exact d eid st : Forall (fun io => lengths_ok st (snd io)) (d_objects d) ->
  opened_doc d eid st =
  {| d_version := d_version d; d_binary_mark := d_binary_mark d; d_trailer := d_trailer d; d_objects := d_objects d;
     d_max_id := match eid with Some e => N.max (d_max_id d) (fst e) | None => d_max_id d end |}.
Proof. intro H. unfold opened_doc. rewrite (norm_objs_id st _ H). reflexivity. Qed.
